import PraatModel.Klatt
import PraatModel.Lemmas.Strip

/-! # lemmas about the Python string helpers of `PraatModel/Klatt.lean` (used by `Props/C19.lean`) -/

namespace Klatt

/-! ## string helpers -/

theorem findAt_single_none (c : Char) (a : Txt) (i : Nat) (h : c ∉ a) : findAt [c] a i = none := by
  induction a generalizing i with
  | nil => simp [findAt]
  | cons x xs ih =>
    have hx : c ≠ x := by intro e; apply h; simp [e]
    have hxs : c ∉ xs := by intro e; apply h; simp [e]
    simp [findAt, List.isPrefixOf, hx, ih _ hxs]

theorem findAt_single (c : Char) (a b : Txt) (i : Nat) (h : c ∉ a) :
    findAt [c] (a ++ c :: b) i = some (i + a.length) := by
  induction a generalizing i with
  | nil => simp [findAt, List.isPrefixOf]
  | cons x xs ih =>
    have hx : c ≠ x := by intro e; apply h; simp [e]
    have hxs : c ∉ xs := by intro e; apply h; simp [e]
    simp [findAt, List.isPrefixOf, hx, ih _ hxs]
    omega

theorem pyFind_single (c : Char) (pre a b : Txt) (h : c ∉ a) :
    pyFind [c] (pre ++ (a ++ c :: b)) pre.length = some (pre.length + a.length) := by
  unfold pyFind
  simp [findAt_single c a b _ h]

theorem pyFind_single_none (c : Char) (pre a : Txt) (h : c ∉ a) :
    pyFind [c] (pre ++ a) pre.length = none := by
  unfold pyFind
  simp [findAt_single_none c a _ h]

theorem normIdx_nat (len n : Nat) (h : n ≤ len) : normIdx len (n : Int) = n := by
  unfold normIdx
  have h1 : ¬ ((n : Int) < 0) := by omega
  have h2 : ¬ ((len : Int) < (n : Int)) := by omega
  simp [h1, h2]

theorem pySlice_mid (pre mid post : Txt) :
    pySlice (pre ++ (mid ++ post)) (pre.length : Nat) ((pre.length + mid.length : Nat) : Int) = mid := by
  unfold pySlice
  rw [normIdx_nat _ _ (by simp), normIdx_nat _ _ (by simp)]
  simp

/-- all characters are blanks -/
def AllSpace (w : Txt) : Prop := ∀ c ∈ w, pyIsSpace c = true

theorem stripL_allSpace_append (w x : Txt) (h : AllSpace w) : stripL (w ++ x) = stripL x := by
  induction w with
  | nil => rfl
  | cons c cs ih =>
    have hc : pyIsSpace c = true := h c (by simp)
    simp only [List.cons_append, stripL, hc, if_true]
    exact ih (fun d hd => h d (by simp [hd]))

theorem stripList_pad (w1 core w2 : Txt) (h1 : AllSpace w1) (h2 : AllSpace w2) (hc : stripList core = core) :
    stripList (w1 ++ core ++ w2) = core := by
  have hne := noEdge_of_stripList core hc
  unfold stripList
  rw [List.append_assoc, stripL_allSpace_append _ _ h1]
  cases core with
  | nil =>
    simp only [List.nil_append]
    have : stripL w2 = [] := by
      have := stripL_allSpace_append w2 [] h2
      simpa [stripL] using this
    simp [this, stripL]
  | cons c rest =>
    rw [List.cons_append, stripL_of_head c _ (hne.1 c rest rfl)]
    have : (c :: (rest ++ w2)).reverse = w2.reverse ++ (c :: rest).reverse := by simp
    rw [this, stripL_allSpace_append _ _ (fun d hd => h2 d (by simpa using hd))]
    have h3 : stripL (c :: rest).reverse = (c :: rest).reverse := by
      cases hr : (c :: rest).reverse with
      | nil => simp at hr
      | cons d ds =>
        have : (c :: rest).getLast? = some d := by
          have := List.head?_reverse (l := c :: rest); rw [hr] at this; simpa using this.symm
        exact stripL_of_head d ds (hne.2 d this)
    rw [h3, List.reverse_reverse]

theorem pyFind_at (c : Char) (s pre a b : Txt) (k : Nat) (hs : s = pre ++ (a ++ c :: b)) (hk : k = pre.length)
    (h : c ∉ a) : pyFind [c] s k = some (k + a.length) := by
  subst hs hk; exact pyFind_single c pre a b h

theorem pyFind_at_none (c : Char) (s pre a : Txt) (k : Nat) (hs : s = pre ++ a) (hk : k = pre.length)
    (h : c ∉ a) : pyFind [c] s k = none := by
  subst hs hk; exact pyFind_single_none c pre a h

theorem pySlice_at (s pre mid post : Txt) (a b : Nat) (hs : s = pre ++ (mid ++ post)) (ha : a = pre.length)
    (hb : b = a + mid.length) : pySlice s (a : Int) (b : Int) = mid := by
  subst hs ha hb; exact pySlice_mid pre mid post

/-! ## `"%d"` and `join` -/

theorem isDigit_digitChar (d : Nat) (h : d < 10) : isDigit (digitChar d) = true := by
  have : d = 0 ∨ d = 1 ∨ d = 2 ∨ d = 3 ∨ d = 4 ∨ d = 5 ∨ d = 6 ∨ d = 7 ∨ d = 8 ∨ d = 9 := by omega
  rcases this with rfl | rfl | rfl | rfl | rfl | rfl | rfl | rfl | rfl | rfl <;> decide

theorem natDecAux_digits (f n : Nat) (acc : Txt) (h : ∀ c ∈ acc, isDigit c = true) :
    ∀ c ∈ natDecAux f n acc, isDigit c = true := by
  induction f generalizing n acc with
  | zero => simpa [natDecAux] using h
  | succ f ih =>
    unfold natDecAux
    split
    · intro c hc
      rcases List.mem_cons.1 hc with rfl | hc
      · exact isDigit_digitChar n (by assumption)
      · exact h c hc
    · apply ih
      intro c hc
      rcases List.mem_cons.1 hc with rfl | hc
      · exact isDigit_digitChar _ (Nat.mod_lt _ (by decide))
      · exact h c hc

theorem natDec_digits (n : Nat) : ∀ c ∈ natDec n, isDigit c = true :=
  natDecAux_digits _ _ [] (by simp)

theorem not_mem_of_digits (x : Char) (hx : isDigit x = false) (l : Txt) (h : ∀ c ∈ l, isDigit c = true) : x ∉ l := by
  intro hm; rw [h x hm] at hx; cases hx

theorem eq_not_mem_natDec (n : Nat) : '=' ∉ natDec n := not_mem_of_digits _ (by decide) _ (natDec_digits n)
theorem nl_not_mem_natDec (n : Nat) : '\n' ∉ natDec n := not_mem_of_digits _ (by decide) _ (natDec_digits n)

theorem join_cons_cons (sep x y : Txt) (rest : List Txt) : join sep (x :: y :: rest) = x ++ sep ++ join sep (y :: rest) := rfl

/-- every row followed by the separator = the join followed by one more separator -/
theorem join_append_sep (sep : Txt) (ls : List Txt) (h : ls ≠ []) :
    join sep ls ++ sep = (ls.map (· ++ sep)).flatten := by
  induction ls with
  | nil => exact absurd rfl h
  | cons x xs ih =>
    cases xs with
    | nil => simp [join]
    | cons y ys =>
      rw [join_cons_cons, List.map_cons, List.flatten_cons, ← ih (by simp)]
      simp


/-! ## `rstrip` -/

theorem rstrip_allSpace_append (x w : Txt) (h : AllSpace w) : rstrip (x ++ w) = rstrip x := by
  unfold rstrip
  rw [List.reverse_append, stripL_allSpace_append _ _ (fun d hd => h d (by simpa using hd))]

theorem rstrip_of_last (x : Txt) (c : Char) (hl : x.getLast? = some c) (hc : pyIsSpace c = false) : rstrip x = x := by
  unfold rstrip
  cases hr : x.reverse with
  | nil => have : x = [] := by simpa using hr
           subst this; simp at hl
  | cons d ds =>
    have : x.getLast? = some d := by
      have := List.head?_reverse (l := x); rw [hr] at this; simpa using this.symm
    rw [hl] at this; cases this
    rw [stripL_of_head c ds hc, ← hr, List.reverse_reverse]

theorem rstrip_nil : rstrip [] = [] := rfl

/-- a non-empty stripped string ends in a non-blank -/
theorem last_of_stripped (n : Txt) (h : stripList n = n) (hne : n ≠ []) :
    ∃ c, n.getLast? = some c ∧ pyIsSpace c = false := by
  have hn := noEdge_of_stripList n h
  cases hl : n.getLast? with
  | none => cases n with
    | nil => exact absurd rfl hne
    | cons a as => simp at hl
  | some c => exact ⟨c, rfl, hn.2 c hl⟩

theorem head_of_stripped (n : Txt) (h : stripList n = n) (c : Char) (rest : Txt) (hn : n = c :: rest) :
    pyIsSpace c = false := (noEdge_of_stripList n h).1 c rest hn

theorem rstrip_append_stripped (x n : Txt) (h : stripList n = n) (hne : n ≠ []) : rstrip (x ++ n) = x ++ n := by
  obtain ⟨c, hl, hc⟩ := last_of_stripped n h hne
  apply rstrip_of_last _ c _ hc
  rw [List.getLast?_append, hl]; rfl

theorem stripL_subset (x : Txt) : ∀ c ∈ stripL x, c ∈ x := by
  induction x with
  | nil => simp [stripL]
  | cons a as ih =>
    intro c hc
    by_cases ha : pyIsSpace a
    · simp only [stripL, ha, if_true] at hc; exact List.mem_cons_of_mem _ (ih c hc)
    · simpa [stripL, ha] using hc

theorem rstrip_subset (x : Txt) : ∀ c ∈ rstrip x, c ∈ x := by
  intro c hc
  unfold rstrip at hc
  have := stripL_subset x.reverse c (by simpa using hc)
  simpa using this

theorem stripList_subset (x : Txt) : ∀ c ∈ stripList x, c ∈ x := by
  intro c hc
  unfold stripList at hc
  have h1 := stripL_subset (stripL x).reverse c (by simpa using hc)
  exact stripL_subset x c (by simpa using h1)

/-! ## `split` -/

theorem splitCharAux_no (c : Char) (n : Nat) (a cur : Txt) (h : c ∉ a) :
    splitCharAux c n a cur = [cur.reverse ++ a] := by
  induction a generalizing n cur with
  | nil => cases n <;> simp [splitCharAux]
  | cons x xs ih =>
    have hx : x ≠ c := by intro e; apply h; simp [e]
    have hxs : c ∉ xs := by intro e; apply h; simp [e]
    cases n with
    | zero => simp [splitCharAux]
    | succ n => simp [splitCharAux, hx, ih _ _ hxs]

theorem splitCharAux_hit (c : Char) (n : Nat) (a rest cur : Txt) (h : c ∉ a) :
    splitCharAux c (n + 1) (a ++ c :: rest) cur = (cur.reverse ++ a) :: splitCharAux c n rest [] := by
  induction a generalizing cur with
  | nil => simp [splitCharAux]
  | cons x xs ih =>
    have hx : x ≠ c := by intro e; apply h; simp [e]
    have hxs : c ∉ xs := by intro e; apply h; simp [e]
    simp [splitCharAux, hx, ih _ hxs]

theorem splitCharAux_zero (c : Char) (s : Txt) : splitCharAux c 0 s [] = [s] := by
  cases s <;> simp [splitCharAux]

theorem pySplitN_hit (c : Char) (n : Nat) (a rest : Txt) (h : c ∉ a) :
    pySplitN c (n + 1) (a ++ c :: rest) = a :: pySplitN c n rest := by
  unfold pySplitN; simpa using splitCharAux_hit c n a rest [] h

theorem pySplitN_zero (c : Char) (s : Txt) : pySplitN c 0 s = [s] := splitCharAux_zero c s

theorem pySplitN_no (c : Char) (n : Nat) (a : Txt) (h : c ∉ a) : pySplitN c n a = [a] := by
  unfold pySplitN; simpa using splitCharAux_no c n a [] h

/-- splitting a join of separator-free parts gives the parts back (enough budget) -/
theorem splitCharAux_join (c : Char) (parts : List Txt) (hne : parts ≠ []) (hp : ∀ p ∈ parts, c ∉ p) :
    ∀ n, parts.length ≤ n + 1 → splitCharAux c n (join [c] parts) [] = parts := by
  induction parts with
  | nil => exact absurd rfl hne
  | cons x xs ih =>
    intro n hn
    cases xs with
    | nil => simpa [join] using splitCharAux_no c n x [] (hp x (by simp))
    | cons y ys =>
      obtain ⟨m, rfl⟩ : ∃ m, n = m + 1 := ⟨n - 1, by simp at hn; omega⟩
      rw [join_cons_cons]
      have : x ++ [c] ++ join [c] (y :: ys) = x ++ c :: join [c] (y :: ys) := by simp
      rw [this, splitCharAux_hit c m x _ [] (hp x (by simp))]
      rw [ih (by simp) (fun p hp' => hp p (by simp [hp'])) m (by simp at hn ⊢; omega)]
      simp

theorem join_length_ge (sep : Txt) (parts : List Txt) (hs : 1 ≤ sep.length) : parts.length ≤ (join sep parts).length + 1 := by
  induction parts with
  | nil => simp
  | cons x xs ih =>
    cases xs with
    | nil => simp
    | cons y ys =>
      rw [join_cons_cons]
      simp only [List.length_append, List.length_cons] at ih ⊢
      omega

theorem pySplit_join (c : Char) (parts : List Txt) (hne : parts ≠ []) (hp : ∀ p ∈ parts, c ∉ p) :
    pySplit c (join [c] parts) = parts := by
  unfold pySplit
  apply splitCharAux_join c parts hne hp
  have := join_length_ge [c] parts (by simp)
  omega

end Klatt
