import PraatModel.Time

/-!
# data_classes/data_point.PointObject.getPointsInInterval(start, end, startIndex)
(code brought inside the model after the first build; only the times `entry[0]` of the point list matter)
-/

/-- Python `l[i:]` for any `int` i: a negative index counts from the end and is clamped at the front -/
def pySliceFrom {β} (l : List β) (i : Int) : List β :=
  if i < 0 then l.drop (l.length - i.natAbs) else l.drop i.toNat

section
variable {α : Type} [LE α] [DecidableLE α]

/-- the loop: skip times before `start`, collect times up to `end`, STOP at the first time `≥ start` that is beyond
`end` (the `break`) -/
def pointsGo (start stop : α) : List α → List α
  | [] => []
  | t :: rest =>
    if start ≤ t then (if t ≤ stop then t :: pointsGo start stop rest else [])
    else pointsGo start stop rest

/-- `PointObject.getPointsInInterval(start, end, startIndex)` on the list of point times -/
def getPointsInInterval (times : List α) (start stop : α) (startIndex : Int) : List α :=
  pointsGo start stop (pySliceFrom times startIndex)
end
