import PraatModel.Time
import PraatModel.Py
import PraatModel.Tier

/-!
# Numeric series helpers (C20)

Executable model of `praatio/utilities/my_math.py` (`_stepFilter`, `medianFilter`) and of the decision
logic of `praatio/pitch_and_intensity.py` (`loadTimeSeriesData`, `getPitchMeasures`,
`detectPitchErrors`), written the way the code is written: the Python loops are folds over the same
ranges, the `lastKnownLargeIndex` device of `_stepFilter` is kept, rows are visited in file order and
the first failing `float()` aborts.

Numbers are only compared / selected / (for `detectPitchErrors`) multiplied and divided by the
threshold; nothing here needs `sqrt` or `statistics`.  `mean`, `stdev`, `variance`, `sqrt`, `rms`,
z-normalisation are *not* modelled: they are parameters (`PitchArith`) or are checked by the Python
oracle only (DESIGN §4 C20, §6).

Translation notes (Python `int` indices are `Nat` here):
* `0 <= x - offset`  is `offset ≤ x`;  `x - y < 0`  is  `x < y`  (no truncated subtraction is used
  where the Python value could be negative);
* `dist[k]` is `dist.getD k v` with `v = dist[x]`; `C20.largeIndex_lt`/`stepFilter_spec` show the
  default is never used.
-/

namespace Numeric

/-! ## `_stepFilter` -/

/-- the three loop-carried variables of the inner loop of `_stepFilter` -/
structure Ctx (α : Type) where
  /-- `lastKnownLargeIndex` -/
  last : Nat
  /-- `preContext` -/
  pre : List α
  /-- `postContext` -/
  post : List α

/-- `largeIndexValue` for one `y` (also says what `lastKnownLargeIndex` becomes) -/
def largeIndex (x length last y : Nat) : Nat × Nat :=
  if x + y ≥ length then
    (if last == 0 then x else last, last)
  else
    (x + y, x + y)

/-- `smallIndexValue` for one `y` -/
def smallIndex (x y : Nat) : Nat := if x < y then 0 else x - y

/-- one round of `for y in range(1, offset + 1)` -/
def ctxStep {α : Type} (dist : List α) (v : α) (x length : Nat) (c : Ctx α) (y : Nat) : Ctx α :=
  let li := largeIndex x length c.last y
  { last := li.2
    post := c.post ++ [dist.getD li.1 v]                    -- postContext.append(dist[largeIndexValue])
    pre := dist.getD (smallIndex x y) v :: c.pre }          -- preContext.insert(0, dist[smallIndexValue])

/-- the whole inner loop, started from `lastKnownLargeIndex = 0`, empty contexts -/
def ctxLoop {α : Type} (dist : List α) (v : α) (x length offset : Nat) : Ctx α :=
  (List.range' 1 offset).foldl (ctxStep dist v x length) ⟨0, [], []⟩

/-- `dataToFilter = preContext + currentContext + postContext` -/
def dataToFilter {α : Type} (dist : List α) (v : α) (x offset : Nat) : List α :=
  let c := ctxLoop dist v x dist.length offset
  c.pre ++ [v] ++ c.post

/-- `my_math._stepFilter(filterFunc, dist, window, useEdgePadding)`; `offset = int(math.floor(window / 2.0))` -/
def stepFilter {α : Type} (filterFunc : List α → α) (dist : List α) (window : Nat) (useEdgePadding : Bool) : List α :=
  let offset := window / 2
  let length := dist.length
  dist.zipIdx.map fun vx =>
    if useEdgePadding || (decide (offset ≤ vx.2) && decide (vx.2 + offset < length)) then
      filterFunc (dataToFilter dist vx.1 vx.2 offset)
    else
      vx.1

/-! ## `statistics.median` on the windows `_stepFilter` builds, `medianFilter` -/

/-- `sorted(data)`: a stable sort by `≤` (CPython's sort is stable and uses `<`; on numbers without NaN
`a ≤ b` is `not (b < a)`) -/
def pySorted {α : Type} [LE α] [DecidableLE α] (l : List α) : List α :=
  l.mergeSort (fun a b => decide (a ≤ b))

/-- `statistics.median(data)` for `len(data)` odd: `sorted(data)[n // 2]`.  The even branch (mean of the two
middle elements) and the `StatisticsError` on empty data are not modelled: `_stepFilter` only ever
passes windows of odd length `2 * offset + 1` (`C20.window_odd_length`). -/
def median {α : Type} [Inhabited α] [LE α] [DecidableLE α] (data : List α) : α :=
  (pySorted data).getD (data.length / 2) default

/-- `my_math.medianFilter(dist, window, useEdgePadding)` -/
def medianFilter {α : Type} [Inhabited α] [LE α] [DecidableLE α] (dist : List α) (window : Nat)
    (useEdgePadding : Bool) : List α :=
  stepFilter median dist window useEdgePadding

/-! ## `detectPitchErrors` -/

/-- the test of one pair: `(lastPitch <= floorCutoff) or (lastPitch >= ceilingCutoff)` -/
def jumpFires {α : Type} [LE α] [DecidableLE α] [Mul α] [Div α] (thr lastPitch currentPitch : α) : Bool :=
  let ceilingCutoff := currentPitch / thr
  let floorCutoff := currentPitch * thr
  decide (lastPitch ≤ floorCutoff) || decide (ceilingCutoff ≤ lastPitch)

/-- body of `for i in range(1, len(pitchList))` for the pair `(pitchList[i-1], pitchList[i])`;
the label of the reported point is `str(currentPitch / lastPitch)`: the quotient is returned.
Python raises `ZeroDivisionError` for a float (or int) division by zero. -/
def detectStep {τ α : Type} [LE α] [DecidableLE α] [Mul α] [Div α] [BEq α] [OfNat α 0]
    (thr : α) (prev cur : τ × α) : Except Err (Option (τ × α)) :=
  let lastPitch := prev.2
  let currentPitch := cur.2
  if thr == 0 then .error .ZeroDivisionError            -- currentPitch / maxJumpThreshold
  else if jumpFires thr lastPitch currentPitch then
    if lastPitch == 0 then .error .ZeroDivisionError    -- currentPitch / lastPitch
    else .ok (some (cur.1, currentPitch / lastPitch))
  else .ok none

/-- `for i in range(1, len(pitchList))` over the consecutive pairs, in order; the first exception aborts;
`errorList.append(...)` when the test fires -/
def detectLoop {τ α : Type} [LE α] [DecidableLE α] [Mul α] [Div α] [BEq α] [OfNat α 0]
    (thr : α) : List ((τ × α) × (τ × α)) → Except Err (List (τ × α))
  | [] => .ok []
  | pc :: rest =>
    match detectStep thr pc.1 pc.2 with
    | .error e => .error e
    | .ok r =>
      match detectLoop thr rest with
      | .error e => .error e
      | .ok out => .ok (match r with | some p => p :: out | none => out)

/-- `detectPitchErrors(pitchList, maxJumpThreshold)[0]` as (time, ratio) pairs; the pairs
`(pitchList[i-1], pitchList[i])`, `i = 1 .. len-1`, are `zip pitchList pitchList[1:]` (`C20.pairs_spec`) -/
def detectPitchErrors {τ α : Type} [LT α] [DecidableLT α] [LE α] [DecidableLE α] [Mul α] [Div α] [BEq α]
    [OfNat α 0] [OfNat α 1] (pitchList : List (τ × α)) (maxJumpThreshold : α) : Except Err (List (τ × α)) :=
  if maxJumpThreshold < 0 ∨ maxJumpThreshold > 1 then .error .ArgumentError
  else detectLoop maxJumpThreshold (pitchList.zip pitchList.tail)

/-! ## `loadTimeSeriesData` over already-split fields -/

/-- `"--" in value` -/
def hasMarkerL : List Char → Bool
  | [] => false
  | [_] => false
  | a :: b :: cs => (a == '-' && b == '-') || hasMarkerL (b :: cs)

def hasMarker (value : String) : Bool := hasMarkerL value.toList

/-- `for value in row:` — `entry` so far, remaining fields; `none` = `doSkip` -/
def loadValues {α : Type} (float : String → Except Err α) (undefinedValue : Option α) :
    List String → List α → Except Err (Option (List α))
  | [], entry => .ok (some entry)
  | value :: rest, entry =>
    if hasMarker value then
      match undefinedValue with
      | some u => loadValues float undefinedValue rest (entry ++ [u])
      | none => .ok none                                  -- doSkip = True; break
    else
      match float value with
      | .error e => .error e
      | .ok x => loadValues float undefinedValue rest (entry ++ [x])

/-- one round of `for row in dataList:` -/
def loadRow {α : Type} (float : String → Except Err α) (undefinedValue : Option α) (row : List String) :
    Except Err (Option (List α)) :=
  match row with
  | [] => .error .IndexError                              -- row.pop(0) (cannot happen: split gives ≥ 1 field)
  | t :: values =>
    match float t with
    | .error e => .error e
    | .ok time => loadValues float undefinedValue values [time]

/-- rows in file order; the first exception aborts -/
def loadRows {α : Type} (float : String → Except Err α) (undefinedValue : Option α) :
    List (List String) → Except Err (List (List α))
  | [] => .ok []
  | row :: rest =>
    match loadRow float undefinedValue row with
    | .error e => .error e
    | .ok r =>
      match loadRows float undefinedValue rest with
      | .error e => .error e
      | .ok out => .ok (match r with | some entry => entry :: out | none => out)

/-- `if len(dataList) > 0 and dataList[0][0] == "time": dataList = dataList[1:]` (an empty listing passes
through; `dataList[0][0]` on a first row without fields cannot happen, `split` gives ≥ 1 field) -/
def dropHeader (dataList : List (List String)) : Except Err (List (List String)) :=
  match dataList with
  | [] => .ok []
  | [] :: _ => .error .IndexError
  | (h :: hs) :: rest => .ok (if h == "time" then rest else (h :: hs) :: rest)

/-- `loadTimeSeriesData` after `dataList = [row.split(",") for row in data.splitlines() if row != ""]` -/
def loadTimeSeriesData {α : Type} (float : String → Except Err α) (undefinedValue : Option α)
    (dataList : List (List String)) : Except Err (List (List α)) :=
  match dropHeader dataList with
  | .error e => .error e
  | .ok body => loadRows float undefinedValue body

/-! ## `getPitchMeasures` -/

/-- the arithmetic of `getPitchMeasures`, a parameter: `sum(l) / float(len(l))`,
`sum((v - mean) ** 2 for v in l) / float(len(l))`, `math.sqrt` -/
structure PitchArith (α : Type) where
  mean : List α → α
  variance : List α → α → α
  sqrt : α → α

/-- the list the aggregates are applied to: median filtering (edge padding on) first, then zero removal
(`f0Val != 0`) -/
def pitchValues {α : Type} [Inhabited α] [LE α] [DecidableLE α] [BEq α] [Tm α] (f0Values : List α)
    (medianFilterWindowSize : Option Nat) (filterZeroFlag : Bool) : List α :=
  let f0Values := match medianFilterWindowSize with
    | some w => medianFilter f0Values w true
    | none => f0Values
  if filterZeroFlag then f0Values.filter (fun f0Val => !(f0Val == Tm.zero)) else f0Values

/-- `(meanF0, maxF0, minF0, rangeF0, variance, std)` -/
def getPitchMeasures {α : Type} [Inhabited α] [LT α] [DecidableLT α] [LE α] [DecidableLE α] [BEq α] [Sub α] [Tm α]
    (A : PitchArith α) (f0Values : List α) (medianFilterWindowSize : Option Nat)
    (filterZeroFlag : Bool) : α × α × α × α × α × α :=
  let f0Values := pitchValues f0Values medianFilterWindowSize filterZeroFlag
  if f0Values.length == 0 then
    (Tm.zero, Tm.zero, Tm.zero, Tm.zero, Tm.zero, Tm.zero)
  else
    let meanF0 := A.mean f0Values
    let maxF0 := (pyMaxList f0Values).getD Tm.zero
    let minF0 := (pyMinList f0Values).getD Tm.zero
    let rangeF0 := maxF0 - minF0
    let variance := A.variance f0Values meanF0
    let std := A.sqrt variance
    (meanF0, maxF0, minF0, rangeF0, variance, std)

end Numeric
