import PraatModel.Proto
import PraatModel.Audio

/-! # driver operations for C16-C18: audio byte/sample arithmetic, zero crossings (extension point of `Run.lean`)

Token syntax of this group (the F/X number modes play no role here: the same line is sent and
returned in both):
* time      : `num/den` — an exact rational (the exact value of the binary64 the code receives)
* bytes     : `h` followed by lower-case hex (`h` alone = empty)
* samples   : `<n> x1 … xn` decimal integers
* optional  : `N` or the value
* edit      : `ins <t> <bytes>` | `del <t> <t>` | `rep <t> <t> <bytes>` | `cat <bytes>` | `sub <t> <t>`
-/

namespace AudioProto
open Audio

def qtime : P QTime := do
  let t ← P.tok
  match t.splitOn "/" with
  | [a, b] =>
    match a.toInt?, b.toNat? with
    | some n, some d => if d = 0 then throw s!"zero denominator {t}" else pure ⟨n, d⟩
    | _, _ => throw s!"bad time {t}"
  | _ => throw s!"bad time {t}"

def bytes : P (List UInt8) := do
  let t ← P.tok
  match t.toList with
  | 'h' :: cs =>
    match P.hexBytes cs with
    | some bs => pure bs
    | none => throw "bad hex"
  | _ => throw s!"bad bytes token {t}"

def samples : P (List Int) := do let n ← P.nat; P.many n P.int

def wav : P Wav := do
  let w ← P.nat; let r ← P.nat; let f ← bytes
  pure ⟨w, r, f⟩

def edit : P Edit := do
  match (← P.tok) with
  | "ins" => do let t ← qtime; let g ← bytes; pure (.ins t g)
  | "del" => do let s ← qtime; let e ← qtime; pure (.del s e)
  | "rep" => do let s ← qtime; let e ← qtime; let g ← bytes; pure (.rep s e g)
  | "cat" => do let g ← bytes; pure (.cat g)
  | "sub" => do let s ← qtime; let e ← qtime; pure (.sub s e)
  | t => throw s!"bad edit {t}"

def outBytes (bs : List UInt8) : String :=
  "h" ++ String.ofList (bs.flatMap fun b => [Out.hexDigit (b.toNat / 16), Out.hexDigit (b.toNat % 16)])

def outSamples (xs : List Int) : String := Out.join (toString xs.length :: xs.map toString)

def outExc {β} (f : β → String) : Except AErr β → String
  | .ok v => "ok " ++ f v
  | .error e => "err " ++ e.name

/-- `len(frames) / frameRate / sampleWidth` in binary64, as CPython evaluates it -/
def floatDuration (len rate width : Nat) : Float := Float.ofNat len / Float.ofNat rate / Float.ofNat width
end AudioProto

open Audio AudioProto in
/-- `none` = not an operation of this group.  `α` is the number type of the run (`Float` or `Int`). -/
def runOpAudio (α : Type) [LT α] [LE α] [DecidableLT α] [DecidableLE α] [BEq α] [Add α] [Sub α] [Tm α] [Proto α]
    (op : String) : Option (P String) :=
  match op with
  | "a_round" => some do
    let n ← P.int; let d ← P.nat
    pure s!"ok {roundHalfEven n d}"
  | "a_slice" => some do
    let l ← bytes; let i ← P.int; let j ← P.int
    pure s!"ok {outBytes (slice l i j)} {outBytes (sliceTo l i)} {outBytes (sliceFrom l j)}"
  | "a_index" => some do
    let wv ← wav; let t ← qtime
    pure s!"ok {wv.index t}"
  | "a_pack" => some do
    let w ← P.nat; let xs ← samples
    pure (outExc outBytes (convertToBytes xs w))
  | "a_unpack" => some do
    let w ← P.nat; let bs ← bytes
    pure (outExc outSamples (convertFromBytes bs w))
  | "a_getframes" => some do
    let wv ← wav; let s ← qtime; let e ← qtime
    pure (outExc outBytes (wv.getFrames s e))
  | "a_getsamples" => some do
    let wv ← wav; let s ← qtime; let e ← qtime
    pure (outExc outSamples (wv.getSamples s e))
  | "a_duration" => some do
    let wv ← wav
    let d := wv.duration
    pure s!"ok {d.num} {d.den} {(floatDuration wv.frames.length wv.rate wv.width).toBits.toNat}"
  | "a_edits" => some do
    let wv ← wav; let n ← P.nat; let es ← P.many n edit
    let r := runEdits wv es
    let errTok := match r.2 with
      | none => []
      | some err => ["err", err.name]
    pure ("ok " ++ Out.join (r.1.map (fun x => outBytes x.frames) ++ errTok))
  | "a_invdel" => some do
    let wv ← wav; let t ← qtime; let g ← bytes; let e ← qtime
    let mid := wv.insert t g
    pure (outExc (fun (x : Wav) => s!"{outBytes mid.frames} {outBytes x.frames}") (mid.deleteSegment t e))
  | "a_saveopen" => some do
    let wv ← wav
    pure (outExc (fun (x : Wav) => s!"{x.width} {x.rate} {outBytes x.frames}") (wv.save >>= Wav.open))
  | "a_readat" => some do
    let wv ← wav; let s ← qtime; let e ← qtime
    pure (outExc outBytes (readFramesAtTime ⟨wv.width, wv.rate, wv.frames⟩ s e))
  | "a_query" => some do
    let wv ← wav; let s ← P.opt qtime; let e ← P.opt qtime
    let f : WavFile := ⟨wv.width, wv.rate, wv.frames⟩
    pure (outExc (fun xs => s!"{f.width} {f.rate} {f.nframes} {outSamples xs}") (QueryWav.getSamples f s e))
  | _ => none
