import PraatModel.Props.C05
import PraatModel.Props.C06
import PraatModel.Props.C11
import PraatModel.Lemmas.Strip

/-!
# C05, point tiers — every reachable point tier is well-formed

The PointTier constructor sorts its entries, strips their labels and takes the hull of the entry times and the requested
span, so EVERY tier it returns is well-formed, whatever it is given (`pconstruct_wf`); the only refusal is the
TimelessTextgridTierException of an empty tier without any bound.  All operations but three return through the
constructor.  The three in-place ones are covered directly: `deleteEntry` leaves a sub-list of a sorted list,
`insertEntry` (after the repair A24: every point at the insertion time collides; closed form `pinsert_unfold`) re-sorts and
grows the span to the first and last entry (after the repair A3), `eraseRegion` without
shrinking only deletes.  No separation hypothesis is needed: `deleteEntry` of a member removes exactly that member
(`deletePt_of_mem`), and whichever entry the tolerant `Point.__eq__` makes it remove for an absent argument, what
remains is a sub-list.  Hence `POpOk` is `True` for every operation and
`preachable_wf` holds for every operation sequence of any length, with arbitrary arguments (second operands included).

The error clause (`pstep_err`): a step that returns no tier raises ArgumentError, CollisionError or OutOfBounds — except
the built-in ValueError of `deleteEntry` on an absent entry (known finding A13c).  No separation hypothesis here
either: `eraseRegion` over a chain of `==`-close equal-labelled points, which raised ValueError before the repair of
`deleteEntry`, succeeds (`perase_chain_regression`; `PNoClose` is only used there, to state that the regression tier
is NOT separated).
-/
namespace C05

theorem mem_sortPts {ps : List (Pt Int)} {x : Pt Int} : x ∈ sortPts ps ↔ x ∈ ps := List.mem_mergeSort

/-! ## the constructor -/

theorem pyMin_le_pyMax (ts : List Int) (lo hi : Int) (h1 : pyMinList ts = some lo) (h2 : pyMaxList ts = some hi) :
    lo ≤ hi := pyMaxList_ge ts hi h2 lo (pyMinList_mem ts lo h1)

/-- **constructor**: whatever point list, labels and requested span (given or not) — a tier that the PointTier
constructor returns is well-formed; and it refuses only with TimelessTextgridTierException -/
theorem pconstruct_wf (name : String) (ps : List (Pt Int)) (lo hi : Option Int) :
    (∀ t, mkPTier name ps lo hi = .ok t → t.WF) ∧
    (∀ e, mkPTier name ps lo hi = .error e → e = .Timeless) := by
  unfold mkPTier
  generalize hps1 : sortPts (ps.map fun p => { p with l := pyStrip p.l }) = ps1
  have hstr : ∀ p ∈ ps1, pyStrip p.l = p.l := by
    intro y hy
    rw [← hps1, mem_sortPts] at hy
    obtain ⟨p, _, rfl⟩ := List.mem_map.1 hy
    exact pyStrip_idem _
  have hsrt : ps1.Pairwise (fun a b => Pt.le a b = true) := by rw [← hps1]; exact C14.sortPts_pairwise _
  simp only
  cases hmin : pyMinList (ps1.map (·.t) ++ lo.toList ++ hi.toList) with
  | none => constructor <;> intro _ h <;> simp at h <;> simp [h]
  | some mn =>
    cases hmax : pyMaxList (ps1.map (·.t) ++ lo.toList ++ hi.toList) with
    | none => constructor <;> intro _ h <;> simp at h <;> simp [h]
    | some mx =>
      simp only
      constructor
      · intro t ht
        simp only [Except.ok.injEq] at ht; subst ht
        have hlo := pyMinList_le _ _ hmin
        have hhi := pyMaxList_ge _ _ hmax
        refine ⟨hsrt, ?_, ?_, hstr, pyMin_le_pyMax _ _ _ hmin hmax⟩
        · intro p hp
          exact hlo p.t (List.mem_append_left _ (List.mem_append_left _ (List.mem_map_of_mem hp)))
        · intro p hp
          exact hhi p.t (List.mem_append_left _ (List.mem_append_left _ (List.mem_map_of_mem hp)))
      · intro e h; cases h

/-- the refusal happens exactly for an empty tier with neither bound given -/
theorem pconstruct_timeless_iff (name : String) (ps : List (Pt Int)) (lo hi : Option Int) :
    mkPTier name ps lo hi = .error .Timeless ↔ ps = [] ∧ lo = none ∧ hi = none := by
  unfold mkPTier
  generalize hps1 : sortPts (ps.map fun p => { p with l := pyStrip p.l }) = ps1
  have hlen : ps1.length = ps.length := by
    rw [← hps1, (C14.sortPts_perm _).length_eq, List.length_map]
  simp only
  cases ps1 with
  | cons x xs =>
    cases ps with
    | nil => simp at hlen
    | cons y ys => simp [pyMinList, pyMaxList]
  | nil =>
    have : ps = [] := by cases ps with
      | nil => rfl
      | cons y ys => simp at hlen
    subst this
    cases lo <;> cases hi <;> simp [pyMinList, pyMaxList]

/-- with a lower bound given (every call through `tier.new`) the constructor never refuses -/
theorem mkPTier_some_ok (name : String) (ps : List (Pt Int)) (lo : Int) (hi : Option Int) :
    ∃ t, mkPTier name ps (some lo) hi = .ok t := by
  cases h : mkPTier name ps (some lo) hi with
  | ok t => exact ⟨t, rfl⟩
  | error e =>
    have := (pconstruct_wf name ps (some lo) hi).2 e h
    subst this
    have := (pconstruct_timeless_iff name ps (some lo) hi).1 h
    simp at this

/-- the constructor applied through `tier.new(...)` / every operation that ends in it: no hypothesis at all -/
theorem pnew_wf (t : PTier Int) (name : Option String) (ps : Option (List (Pt Int))) (lo hi : Option Int)
    (t' : PTier Int) (h : t.new name ps lo hi = .ok t') : t'.WF :=
  (pconstruct_wf _ _ _ _).1 t' h

theorem pnew_ok (t : PTier Int) (name : Option String) (ps : Option (List (Pt Int))) (lo hi : Option Int) :
    ∃ t', t.new name ps lo hi = .ok t' := mkPTier_some_ok _ _ _ _

theorem mkPTier_some_not_err (name : String) (ps : List (Pt Int)) (lo : Int) (hi : Option Int) (e : Err) :
    mkPTier name ps (some lo) hi ≠ .error e := by
  obtain ⟨t, ht⟩ := mkPTier_some_ok name ps lo hi
  rw [ht]; intro h; cases h

theorem pnew_not_err (t : PTier Int) (name : Option String) (ps : Option (List (Pt Int))) (lo hi : Option Int)
    (e : Err) : t.new name ps lo hi ≠ .error e := mkPTier_some_not_err _ _ _ _ _

/-! ## the operations that return through the constructor -/

theorem pcrop_wf (t : PTier Int) (a b : Int) (r : Bool) (t' : PTier Int) (h : t.crop a b r = .ok t') : t'.WF := by
  unfold PTier.crop at h
  split at h
  · cases h
  · split at h <;> exact (pconstruct_wf _ _ _ _).1 t' h

theorem pspace_wf (t : PTier Int) (s d : Int) (t' : PTier Int) (h : t.insertSpace s d = .ok t') : t'.WF :=
  pnew_wf t _ _ _ _ t' h

theorem pshift_wf (t : PTier Int) (o : Int) (rep : Report) (t' : PTier Int)
    (h : t.editTimestamps o rep = .ok t') : t'.WF := by
  unfold PTier.editTimestamps at h
  simp only at h
  split at h
  · cases h
  · exact (pconstruct_wf _ _ _ _).1 t' h

theorem pappend_wf (t u : PTier Int) (t' : PTier Int) (h : t.appendTier u = .ok t') : t'.WF := by
  unfold PTier.appendTier at h
  cases h1 : u.editTimestamps t.hi .silence with
  | error e => simp [h1, bind, Except.bind] at h
  | ok u' =>
    simp only [h1, bind, Except.bind] at h
    exact pnew_wf t _ _ _ _ t' h

theorem pdejitter_wf (t : PTier Int) (refs : List Int) (md : Int) (t' : PTier Int)
    (h : t.dejitter refs md = .ok t') : t'.WF := by
  unfold PTier.dejitter at h
  cases hr : refs.isEmpty with
  | true => simp [hr, bind, Except.bind, throw, throwThe, MonadExceptOf.throw] at h
  | false =>
    simp only [hr, Bool.false_eq_true, if_false, bind, Except.bind, pure, Except.pure] at h
    split at h
    · cases h
    · exact pnew_wf t _ _ _ _ t' h

/-! ## the in-place operations -/

theorem wf_of_sublist (t : PTier Int) (hwf : t.WF) (ps : List (Pt Int)) (hs : ps.Sublist t.ps) :
    ({ t with ps := ps } : PTier Int).WF :=
  { sorted := hwf.sorted.sublist hs
    inLo := fun p hp => hwf.inLo p (hs.subset hp)
    inHi := fun p hp => hwf.inHi p (hs.subset hp)
    stripped := fun p hp => hwf.stripped p (hs.subset hp)
    span := hwf.span }

/-- whichever entry the tolerant `Point.__eq__` selects, what `deleteEntry` leaves is a sub-list -/
theorem deletePt_sublist (ps : List (Pt Int)) (x : Pt Int) (ps' : List (Pt Int))
    (h : deletePt ps x = .ok ps') : ps'.Sublist ps := deletePt_sublist' ps x ps' h

theorem foldlM_deletePt_sublist (ms : List (Pt Int)) (ps ps' : List (Pt Int))
    (h : ms.foldlM deletePt ps = .ok ps') : ps'.Sublist ps := by
  induction ms generalizing ps with
  | nil => simp only [List.foldlM_nil, pure, Except.pure, Except.ok.injEq] at h; subst h; exact List.Sublist.refl _
  | cons m ms ih =>
    simp only [List.foldlM_cons, bind, Except.bind] at h
    cases h1 : deletePt ps m with
    | error e => simp [h1] at h
    | ok ps1 =>
      simp only [h1] at h
      exact (ih ps1 h).trans (deletePt_sublist ps m ps1 h1)

theorem pdelete_wf (t : PTier Int) (hwf : t.WF) (x : Pt Int) (t' : PTier Int)
    (h : t.deleteEntry x = .ok t') : t'.WF := by
  unfold PTier.deleteEntry at h
  cases h1 : deletePt t.ps x with
  | error e => simp [h1, bind, Except.bind] at h
  | ok ps =>
    simp only [h1, bind, Except.bind, pure, Except.pure, Except.ok.injEq] at h
    subst h
    exact wf_of_sublist t hwf ps (deletePt_sublist _ _ _ h1)

/-- in a list sorted by time the last entry carries the largest time -/
theorem le_getLast_of_sorted (ps : List (Pt Int)) (hs : ps.Pairwise (fun a b => Pt.le a b = true))
    (g : Pt Int) (hg : ps.getLast? = some g) : ∀ p ∈ ps, p.t ≤ g.t := by
  obtain ⟨ys, rfl⟩ := List.getLast?_eq_some_iff.1 hg
  intro p hp
  rcases List.mem_append.1 hp with hp' | hp'
  · exact Pt.le_time ((List.pairwise_append.1 hs).2.2 p hp' g (by simp))
  · simp only [List.mem_singleton] at hp'; subst hp'; exact Int.le_refl _

theorem head_le_of_sorted (ps : List (Pt Int)) (hs : ps.Pairwise (fun a b => Pt.le a b = true))
    (f : Pt Int) (hf : ps.head? = some f) : ∀ p ∈ ps, f.t ≤ p.t := by
  cases ps with
  | nil => simp at hf
  | cons x xs =>
    simp only [List.head?_cons, Option.some.injEq] at hf; subst hf
    intro p hp
    rcases List.mem_cons.1 hp with rfl | hp'
    · exact Int.le_refl _
    · exact Pt.le_time ((List.pairwise_cons.1 hs).1 p hp')

/-- the span update at the end of `PointTier.insertEntry`: the old span, grown to the first and the last entry -/
theorem growSpanP_wf (t : PTier Int) (hspan : t.lo ≤ t.hi) (ps : List (Pt Int))
    (hs : ps.Pairwise (fun a b => Pt.le a b = true)) (hstr : ∀ p ∈ ps, pyStrip p.l = p.l) :
    (growSpanP t ps).WF := by
  unfold growSpanP
  cases hf : ps.head? with
  | none =>
    have : ps = [] := by cases ps with
      | nil => rfl
      | cons x xs => simp at hf
    subst this
    exact ⟨by simp, by simp, by simp, by simp, by simpa using hspan⟩
  | some f =>
    obtain ⟨g, hg⟩ : ∃ g, ps.getLast? = some g := by
      cases ps with
      | nil => simp at hf
      | cons x xs => exact ⟨_, List.getLast?_eq_some_getLast (by simp)⟩
    have h1 := head_le_of_sorted ps hs f hf
    have h2 := le_getLast_of_sorted ps hs g hg
    simp only [hg]
    refine ⟨hs, ?_, ?_, hstr, ?_⟩
    · intro p hp; have := h1 p hp; simp only; split <;> omega
    · intro p hp; have := h2 p hp; simp only; split <;> omega
    · simp only; split <;> split <;> omega

/-- deleting a sub-multiset of the entries one after the other removes exactly those occurrences -/
theorem foldlM_deletePt_eq (ms ps : List (Pt Int)) (hms : ∀ x, ms.count x ≤ ps.count x) :
    ms.foldlM deletePt ps = .ok (ms.foldl (fun acc m => acc.erase m) ps) := by
  induction ms generalizing ps with
  | nil => rfl
  | cons m ms ih =>
    have hm : m ∈ ps := by
      have := hms m
      simp only [List.count_cons_self] at this
      exact List.count_pos_iff.1 (by omega)
    simp only [List.foldlM_cons, List.foldl_cons, bind, Except.bind, deletePt_of_mem ps m hm]
    apply ih (ps.erase m)
    intro x
    have := hms x
    rw [List.count_erase]
    rw [List.count_cons] at this
    by_cases hx : x = m
    · subst hx; simp only [beq_self_eq_true, if_true] at this ⊢; omega
    · have h2 : (m == x) = false := by simpa using (Ne.symm hx)
      simp only [h2, Bool.false_eq_true, if_false] at this ⊢; omega

theorem foldl_erase_cons_of_ne (ms L : List (Pt Int)) (p : Pt Int) (h : ∀ m ∈ ms, m ≠ p) :
    ms.foldl (fun acc m => acc.erase m) (p :: L) = p :: ms.foldl (fun acc m => acc.erase m) L := by
  induction ms generalizing L with
  | nil => rfl
  | cons m ms ih =>
    simp only [List.foldl_cons]
    rw [List.erase_cons_tail (by simpa using (h m (by simp)).symm)]
    exact ih _ (fun m' hm' => h m' (List.mem_cons_of_mem _ hm'))

/-- erasing, one after the other, the entries that satisfy `q` leaves the entries that do not -/
theorem foldl_erase_filter (q : Pt Int → Bool) (ps : List (Pt Int)) :
    (ps.filter q).foldl (fun acc m => acc.erase m) ps = ps.filter (fun p => !q p) := by
  induction ps with
  | nil => rfl
  | cons p rest ih =>
    by_cases hq : q p = true
    · simp only [List.filter_cons, hq, if_true, List.foldl_cons, List.erase_cons_head, Bool.not_true,
        Bool.false_eq_true, if_false]
      exact ih
    · have hq' : q p = false := by simpa using hq
      simp only [List.filter_cons, hq', Bool.false_eq_true, if_false, Bool.not_false, if_true]
      rw [foldl_erase_cons_of_ne _ _ _ (fun m hm e => by
        rw [e] at hm; have := (List.mem_filter.1 hm).2; rw [hq'] at this; cases this), ih]

/-- the deletion loop of `insertEntry` ('replace' and 'merge'): every point at time `a` goes, the others stay -/
theorem deleteAll_at (ps : List (Pt Int)) (a : Int) :
    (ps.filter (fun p => p.t == a)).foldlM deletePt ps = .ok (ps.filter (fun p => !(p.t == a))) := by
  rw [foldlM_deletePt_eq _ _ (fun x => List.filter_sublist.count_le x), foldl_erase_filter]

/-- `insertEntry` in closed form -/
theorem pinsert_unfold (t : PTier Int) (x : Pt Int) :
    (t.ps.filter (fun p => p.t == x.t) = [] → ∀ mode,
      t.insertEntry x mode = .ok (growSpanP t (sortPts (t.ps ++ [⟨x.t, pyStrip x.l⟩])))) ∧
    (t.ps.filter (fun p => p.t == x.t) ≠ [] →
      t.insertEntry x .replace =
        .ok (growSpanP t (sortPts (t.ps.filter (fun p => !(p.t == x.t)) ++ [⟨x.t, pyStrip x.l⟩]))) ∧
      t.insertEntry x .merge =
        .ok (growSpanP t (sortPts (t.ps.filter (fun p => !(p.t == x.t)) ++
          [⟨x.t, pyJoin "-" ((t.ps.filter (fun p => p.t == x.t)).map (·.l) ++ [pyStrip x.l])⟩]))) ∧
      t.insertEntry x .error = .error .CollisionError) := by
  have hd := deleteAll_at t.ps x.t
  constructor
  · intro h mode
    unfold PTier.insertEntry
    simp [h, bind, Except.bind, pure, Except.pure]
  · intro h
    have hne : (t.ps.filter (fun p => p.t == x.t)).isEmpty = false := by
      cases hf : t.ps.filter (fun p => p.t == x.t) with
      | nil => exact absurd hf h
      | cons a as => rfl
    unfold PTier.insertEntry
    simp only [hne, hd, bind, Except.bind, pure, Except.pure, throw, throwThe, MonadExceptOf.throw]
    simp

theorem pinsert_wf (t : PTier Int) (hwf : t.WF) (x : Pt Int) (m : InsMode) (t' : PTier Int)
    (h : t.insertEntry x m = .ok t') : t'.WF := by
  have hx : pyStrip (pyStrip x.l) = pyStrip x.l := pyStrip_idem _
  -- every list that reaches the final sort has stripped labels
  have key : ∀ ps1 : List (Pt Int), (∀ p ∈ ps1, pyStrip p.l = p.l) → (growSpanP t (sortPts ps1)).WF := by
    intro ps1 hs
    exact growSpanP_wf t hwf.span _ (C14.sortPts_pairwise _) (fun p hp => hs p (mem_sortPts.1 hp))
  have hkept : ∀ (z : Pt Int), pyStrip z.l = z.l →
      ∀ p ∈ t.ps.filter (fun p => !(p.t == x.t)) ++ [z], pyStrip p.l = p.l := by
    intro z hz p hp
    rcases List.mem_append.1 hp with hp' | hp'
    · exact hwf.stripped p (List.mem_filter.1 hp').1
    · simp only [List.mem_singleton] at hp'; subst hp'; exact hz
  by_cases hml : t.ps.filter (fun p => p.t == x.t) = []
  · rw [(pinsert_unfold t x).1 hml m] at h
    simp only [Except.ok.injEq] at h; subst h
    apply key
    intro p hp
    rcases List.mem_append.1 hp with hp' | hp'
    · exact hwf.stripped p hp'
    · simp only [List.mem_singleton] at hp'; subst hp'; exact hx
  · obtain ⟨h1, h2, h3⟩ := (pinsert_unfold t x).2 hml
    cases m with
    | error => rw [h3] at h; cases h
    | replace =>
      rw [h1] at h; simp only [Except.ok.injEq] at h; subst h
      exact key _ (hkept _ hx)
    | merge =>
      rw [h2] at h; simp only [Except.ok.injEq] at h; subst h
      apply key _ (hkept _ _)
      apply pyStrip_pyJoin
      intro l hl
      rcases List.mem_append.1 hl with hl' | hl'
      · obtain ⟨p, hp, rfl⟩ := List.mem_map.1 hl'
        exact hwf.stripped p (List.mem_filter.1 hp).1
      · simp only [List.mem_singleton] at hl'; subst hl'; exact hx

theorem perase_wf (t : PTier Int) (a b : Int) (sh : Bool) (t' : PTier Int)
    (h : t.eraseRegion a b sh = .ok t') : t'.WF := by
  unfold PTier.eraseRegion at h
  cases hn : t.new with
  | error e => simp [hn, bind, Except.bind] at h
  | ok nt =>
    have hnt : nt.WF := pnew_wf t _ _ _ _ nt hn
    simp only [hn, bind, Except.bind] at h
    cases hc : nt.crop a b false with
    | error e => simp [hc] at h
    | ok ct =>
      simp only [hc] at h
      cases hd : ct.ps.reverse.foldlM deletePt nt.ps with
      | error e => simp [hd] at h
      | ok ps0 =>
        simp only [hd] at h
        split at h
        · exact pnew_wf _ _ _ _ _ t' h
        · simp only [pure, Except.pure, Except.ok.injEq] at h
          subst h
          exact wf_of_sublist nt hnt ps0 (foldlM_deletePt_sublist _ _ _ hd)

theorem foldlM_pinsert_wf (es : List (Pt Int)) (m : InsMode) (t : PTier Int) (hwf : t.WF) (r : PTier Int)
    (h : es.foldlM (fun acc e => acc.insertEntry e m) t = .ok r) : r.WF := by
  induction es generalizing t with
  | nil => simp only [List.foldlM_nil, pure, Except.pure, Except.ok.injEq] at h; subst h; exact hwf
  | cons e es ih =>
    simp only [List.foldlM_cons, bind, Except.bind] at h
    cases h1 : t.insertEntry e m with
    | error err => simp [h1] at h
    | ok t1 =>
      simp only [h1] at h
      exact ih t1 (pinsert_wf t hwf e m t1 h1) h

theorem punion_wf (t u : PTier Int) (t' : PTier Int) (h : t.union u = .ok t') : t'.WF := by
  unfold PTier.union at h
  cases hn : t.new with
  | error e => simp [hn, bind, Except.bind] at h
  | ok nt =>
    have hnt : nt.WF := pnew_wf t _ _ _ _ nt hn
    simp only [hn, bind, Except.bind] at h
    cases hr : u.ps.foldlM (fun acc e => acc.insertEntry e .merge) nt with
    | error e => simp [hr] at h
    | ok r =>
      simp only [hr, pure, Except.pure, Except.ok.injEq] at h
      subst h
      have hrw := foldlM_pinsert_wf u.ps .merge nt hnt r hr
      have e : sortPts r.ps = r.ps := List.mergeSort_of_pairwise hrw.sorted
      simp only [e]
      exact hrw

/-! ## operations on one tier, and histories -/

inductive POp
  | crop (a b : Int) (rebase : Bool)
  | erase (a b : Int) (shrink : Bool)
  | space (s d : Int)
  | shift (o : Int) (rep : Report)
  | insert (x : Pt Int) (m : InsMode)
  | delete (x : Pt Int)
  | union (u : PTier Int)
  | append (u : PTier Int)
  | dejitter (refs : List Int) (md : Int)
  | new (name : Option String) (ps : Option (List (Pt Int))) (lo hi : Option Int)

def pstepT (t : PTier Int) : POp → Except Err (PTier Int)
  | .crop a b r => t.crop a b r
  | .erase a b sh => t.eraseRegion a b sh
  | .space s d => t.insertSpace s d
  | .shift o rep => t.editTimestamps o rep
  | .insert x m => t.insertEntry x m
  | .delete x => t.deleteEntry x
  | .union u => t.union u
  | .append u => t.appendTier u
  | .dejitter refs md => t.dejitter refs md
  | .new name ps lo hi => t.new name ps lo hi

/-- side conditions under which a step is covered: NONE for point tiers — arguments of any size and sign, labels with
or without surrounding whitespace (the constructor and `insertEntry` strip them), second operands well-formed or not,
entries separated or not.  Kept as a definition so that the statements have the shape of the interval-tier ones. -/
def POpOk (_t : PTier Int) : POp → Prop
  | .crop _ _ _ => True
  | .erase _ _ _ => True
  | .space _ _ => True
  | .shift _ _ => True
  | .insert _ _ => True
  | .delete _ => True
  | .union _ => True
  | .append _ => True
  | .dejitter _ _ => True
  | .new _ _ _ _ => True

theorem popOk_trivial (t : PTier Int) (op : POp) : POpOk t op := by cases op <;> trivial

/-- one step, no side condition: the receiver well-formed, the operation and its arguments arbitrary -/
theorem pstep_wf_any (t : PTier Int) (hwf : t.WF) (op : POp) (t' : PTier Int)
    (h : pstepT t op = .ok t') : t'.WF := by
  cases op with
  | crop a b r => exact pcrop_wf t a b r t' h
  | erase a b sh => exact perase_wf t a b sh t' h
  | space s d => exact pspace_wf t s d t' h
  | shift o rep => exact pshift_wf t o rep t' h
  | insert x m => exact pinsert_wf t hwf x m t' h
  | delete x => exact pdelete_wf t hwf x t' h
  | union u => exact punion_wf t u t' h
  | append u => exact pappend_wf t u t' h
  | dejitter refs md => exact pdejitter_wf t refs md t' h
  | new name ps lo hi => exact pnew_wf t name ps lo hi t' h

theorem pstep_wf (t : PTier Int) (hwf : t.WF) (op : POp) (_hop : POpOk t op) (t' : PTier Int)
    (h : pstepT t op = .ok t') : t'.WF := pstep_wf_any t hwf op t' h

/-- a failing operation leaves the tier as it was -/
def prun (t : PTier Int) : List POp → PTier Int
  | [] => t
  | op :: ops => match pstepT t op with
    | .ok t' => prun t' ops
    | .error _ => prun t ops

/-- **every reachable point tier is well-formed**: operation sequences of ANY length, arbitrary arguments -/
theorem preachable_wf (t : PTier Int) (hwf : t.WF) (ops : List POp) : (prun t ops).WF := by
  induction ops generalizing t with
  | nil => exact hwf
  | cons op ops ih =>
    simp only [prun]
    cases hs : pstepT t op with
    | ok t' => exact ih t' (pstep_wf_any t hwf op t' hs)
    | error e => exact ih t hwf

/-- … starting from the constructor: whatever is passed to `PointTier(...)` and whatever is done afterwards -/
theorem preachable_from_constructor (name : String) (ps : List (Pt Int)) (lo hi : Option Int) (t : PTier Int)
    (h : mkPTier name ps lo hi = .ok t) (ops : List POp) : (prun t ops).WF :=
  preachable_wf t ((pconstruct_wf name ps lo hi).1 t h) ops

/-- `validate()` agrees: true on every reachable tier -/
theorem preachable_validate (t : PTier Int) (hwf : t.WF) (ops : List POp) : (prun t ops).validate = true :=
  C15.pwf_validate _ (preachable_wf t hwf ops)

/-! ## the other half: an operation that does not return a tier raises a praatio error

… with one exception, the built-in `ValueError` of `list.index` inside `deleteEntry` when the entry is not in the tier
(known finding A13c).  `eraseRegion` over equal-labelled points chained within the tolerance of `Point.__eq__` used to be
a second one (`perase_chain_regression`); `deleteEntry` now finds the exact entry first. -/

/-- no two distinct entries are equal under `Point.__eq__` (no theorem assumes this; `perase_chain_regression` states
its negation for the regression tier) -/
def PNoClose (ps : List (Pt Int)) : Prop := ∀ a ∈ ps, ∀ b ∈ ps, ptEq a b = true → a = b

theorem ptEq_self (a : Pt Int) : ptEq a a = true := by
  simp [ptEq, Tm.close9a]

theorem deletePt_ok_of_mem (ps : List (Pt Int)) (x : Pt Int) (hx : x ∈ ps) : ∃ ps', deletePt ps x = .ok ps' :=
  ⟨ps.erase x, deletePt_of_mem ps x hx⟩

/-- `list.index` fails only with `ValueError`, and only when no entry is `==` to the argument -/
theorem deletePtTol_err (ps : List (Pt Int)) (x : Pt Int) (e : Err) (h : deletePtTol ps x = .error e) :
    e = .ValueError ∧ ∀ p ∈ ps, ptEq p x = false := by
  induction ps with
  | nil => simp only [deletePtTol, Except.error.injEq] at h; exact ⟨h.symm, by simp⟩
  | cons q rest ih =>
    simp only [deletePtTol] at h
    by_cases hq : ptEq q x = true
    · simp [hq] at h
    · simp only [hq, Bool.false_eq_true, if_false] at h
      cases hr : deletePtTol rest x with
      | ok r => simp [hr, Except.map] at h
      | error e' =>
        simp only [hr, Except.map, Except.error.injEq] at h
        subst h
        obtain ⟨h1, h2⟩ := ih hr
        refine ⟨h1, ?_⟩
        intro p hp
        rcases List.mem_cons.1 hp with rfl | hp'
        · simpa using hq
        · exact h2 p hp'

theorem deletePt_err (ps : List (Pt Int)) (x : Pt Int) (e : Err) (h : deletePt ps x = .error e) :
    e = .ValueError ∧ ∀ p ∈ ps, ptEq p x = false := by
  simp only [deletePt] at h
  split at h
  · simp at h
  · exact deletePtTol_err ps x e h

/-- deleting a sub-multiset of the entries one after the other always finds its entry -/
theorem foldlM_deletePt_ok (ms ps : List (Pt Int)) (hms : ∀ x, ms.count x ≤ ps.count x) :
    ∃ ps', ms.foldlM deletePt ps = .ok ps' := by
  induction ms generalizing ps with
  | nil => exact ⟨ps, rfl⟩
  | cons m ms ih =>
    have hm : m ∈ ps := by
      have := hms m
      simp only [List.count_cons_self] at this
      exact List.count_pos_iff.1 (by omega)
    simp only [List.foldlM_cons, bind, Except.bind, deletePt_of_mem ps m hm]
    apply ih (ps.erase m)
    · intro x
      have := hms x
      rw [List.count_erase]
      rw [List.count_cons] at this
      by_cases hx : x = m
      · subst hx; simp only [beq_self_eq_true, if_true] at this ⊢; omega
      · have h1 : (x == m) = false := by simpa using hx
        have h2 : (m == x) = false := by simpa using (Ne.symm hx)
        simp only [h2, Bool.false_eq_true, if_false] at this ⊢; omega

theorem pnew_of_wf (t : PTier Int) (hwf : t.WF) : t.new = .ok t := by
  obtain ⟨t', h1, _, h3, h4, h5, h6⟩ :=
    mkPTier_wf t.name t.ps t.lo t.hi hwf.sorted hwf.stripped hwf.inLo hwf.inHi hwf.span
  unfold PTier.new
  simp only [Option.getD_none]
  rw [h1]
  obtain ⟨n, ps, lo, hi⟩ := t'
  obtain ⟨n', ps', lo', hi'⟩ := t
  simp only at h3 h4 h5 h6
  subst h3; subst h4; subst h5; subst h6
  rfl

theorem pcrop_err (t : PTier Int) (a b : Int) (r : Bool) (e : Err) (h : t.crop a b r = .error e) :
    e = .ArgumentError ∧ b ≤ a := by
  unfold PTier.crop at h
  split at h
  · next hba => simp only [Except.error.injEq] at h; exact ⟨h.symm, hba⟩
  · split at h
    · exact (mkPTier_some_not_err _ _ _ _ _ h).elim
    · exact (mkPTier_some_not_err _ _ _ _ _ h).elim

theorem pshift_err (t : PTier Int) (o : Int) (rep : Report) (e : Err) (h : t.editTimestamps o rep = .error e) :
    e = .OutOfBounds ∧ rep = .error := by
  unfold PTier.editTimestamps at h
  simp only at h
  split at h
  · next hc => simp only [Except.error.injEq] at h; exact ⟨h.symm, hc.1⟩
  · exact (mkPTier_some_not_err _ _ _ _ _ h).elim

theorem pspace_ok (t : PTier Int) (s d : Int) : ∃ t', t.insertSpace s d = .ok t' := pnew_ok t _ _ _ _

theorem pappend_ok (t u : PTier Int) : ∃ t', t.appendTier u = .ok t' := by
  unfold PTier.appendTier
  cases h1 : u.editTimestamps t.hi .silence with
  | error e => have := (pshift_err u t.hi .silence e h1).2; cases this
  | ok u' =>
    simp only [bind, Except.bind]
    exact pnew_ok t _ _ _ _

theorem pdejitter_err (t : PTier Int) (refs : List Int) (md : Int) (e : Err) (h : t.dejitter refs md = .error e) :
    e = .ArgumentError ∧ refs = [] := by
  by_cases hne : refs = []
  · subst hne; rw [C14.pdejitter_empty_ref] at h; simp only [Except.error.injEq] at h; exact ⟨h.symm, rfl⟩
  · rw [C14.pdejitter_unfold t refs hne] at h
    exact (mkPTier_some_not_err _ _ _ _ _ h).elim

/-- `insertEntry` refuses only in `error` mode, only with CollisionError, only when a point sits at that time -/
theorem pinsert_err (t : PTier Int) (x : Pt Int) (m : InsMode) (e : Err) (h : t.insertEntry x m = .error e) :
    e = .CollisionError ∧ m = .error ∧ ∃ p ∈ t.ps, p.t = x.t := by
  by_cases hml : t.ps.filter (fun p => p.t == x.t) = []
  · rw [(pinsert_unfold t x).1 hml m] at h; cases h
  · obtain ⟨h1, h2, h3⟩ := (pinsert_unfold t x).2 hml
    obtain ⟨p, hp⟩ := List.exists_mem_of_ne_nil _ hml
    have hpm := List.mem_filter.1 hp
    cases m with
    | error =>
      rw [h3] at h; simp only [Except.error.injEq] at h
      exact ⟨h.symm, rfl, p, hpm.1, by simpa using hpm.2⟩
    | replace => rw [h1] at h; cases h
    | merge => rw [h2] at h; cases h

theorem foldlM_pinsert_merge_ok (es : List (Pt Int)) (t : PTier Int) :
    ∃ r, es.foldlM (fun acc e => acc.insertEntry e .merge) t = .ok r := by
  induction es generalizing t with
  | nil => exact ⟨t, rfl⟩
  | cons x es ih =>
    simp only [List.foldlM_cons, bind, Except.bind]
    cases h1 : t.insertEntry x .merge with
    | error e => have := (pinsert_err t x .merge e h1).2.1; cases this
    | ok t1 => exact ih t1

theorem punion_ok (t u : PTier Int) : ∃ t', t.union u = .ok t' := by
  unfold PTier.union
  obtain ⟨nt, hn⟩ := pnew_ok t none none none none
  obtain ⟨r, hr⟩ := foldlM_pinsert_merge_ok u.ps nt
  exact ⟨_, by simp only [hn, bind, Except.bind, hr]; rfl⟩

theorem pdelete_err (t : PTier Int) (x : Pt Int) (e : Err) (h : t.deleteEntry x = .error e) :
    e = .ValueError ∧ ∀ p ∈ t.ps, ptEq p x = false := by
  unfold PTier.deleteEntry at h
  cases hd : deletePt t.ps x with
  | ok ps => simp [hd, bind, Except.bind, pure, Except.pure] at h
  | error e' =>
    simp only [hd, bind, Except.bind, Except.error.injEq] at h
    subst h
    exact deletePt_err t.ps x e' hd

/-- `eraseRegion` on a well-formed tier refuses only an empty or reversed region (the entries it deletes are taken from the
tier itself, and `deleteEntry` finds the exact entry first — no separation hypothesis since the repair in /repo) -/
theorem perase_err (t : PTier Int) (hwf : t.WF) (a b : Int) (sh : Bool) (e : Err)
    (h : t.eraseRegion a b sh = .error e) : e = .ArgumentError ∧ b ≤ a := by
  by_cases hab : a < b
  · exfalso
    obtain ⟨ct, hc, _, _, hps, _, _⟩ := C06.pcrop_spec t hwf a b hab false
    have hsub : ∀ x, ct.ps.reverse.count x ≤ t.ps.count x := by
      intro x
      rw [hps]
      simp only [Bool.false_eq_true, if_false, List.map_id', List.count_reverse]
      exact List.filter_sublist.count_le x
    obtain ⟨ps0, hd⟩ := foldlM_deletePt_ok _ _ hsub
    unfold PTier.eraseRegion at h
    rw [pnew_of_wf t hwf] at h
    simp only [bind, Except.bind] at h
    rw [hc] at h
    simp only [hd] at h
    split at h
    · exact pnew_not_err _ _ _ _ _ _ h
    · simp [pure, Except.pure] at h
  · rw [C07.perase_rejects t a b sh (by omega)] at h
    simp only [Except.error.injEq] at h
    exact ⟨h.symm, by omega⟩

/-- side condition of the error clause: none (kept so that the statement has the shape of the interval version) -/
def PErrOk (_t : PTier Int) : POp → Prop
  | _ => True

/-- **an operation that cannot return a tier raises a praatio error** — except `deleteEntry` of an entry that no
entry of the tier is `==` to, which raises the built-in ValueError (known finding A13c) -/
theorem pstep_err (t : PTier Int) (hwf : t.WF) (op : POp) (_hop : PErrOk t op) (e : Err)
    (h : pstepT t op = .error e) :
    e.isPraatio = true ∨ (∃ x, op = .delete x ∧ e = .ValueError ∧ ∀ p ∈ t.ps, ptEq p x = false) := by
  cases op with
  | crop a b r => left; rw [(pcrop_err t a b r e h).1]; rfl
  | erase a b sh => left; rw [(perase_err t hwf a b sh e h).1]; rfl
  | space s d => obtain ⟨t', ht'⟩ := pspace_ok t s d; simp only [pstepT] at h; rw [ht'] at h; cases h
  | shift o rep => left; rw [(pshift_err t o rep e h).1]; rfl
  | insert x m => left; rw [(pinsert_err t x m e h).1]; rfl
  | delete x => right; exact ⟨x, rfl, pdelete_err t x e h⟩
  | union u => obtain ⟨t', ht'⟩ := punion_ok t u; simp only [pstepT] at h; rw [ht'] at h; cases h
  | append u => obtain ⟨t', ht'⟩ := pappend_ok t u; simp only [pstepT] at h; rw [ht'] at h; cases h
  | dejitter refs md => left; rw [(pdejitter_err t refs md e h).1]; rfl
  | new name ps lo hi =>
    obtain ⟨t', ht'⟩ := pnew_ok t name ps lo hi; simp only [pstepT] at h; rw [ht'] at h; cases h

/-! ## the formerly excluded case (replayed on the code: `PointTier('P', [(1.0,'x'), (1.0+0.9e-9,'x'),
(1.0+1.8e-9,'x')], 0, 2).eraseRegion(0.5, 1.5)` raised `ValueError: Point(time=1.0, label='x') is not in list`
before the repair of `deleteEntry`; it returns the empty tier now) -/

/-- three equal-labelled points; neighbours are within the relative tolerance 1e-9 of `Point.__eq__`, the outer two are
not -/
def cexChain : PTier Int :=
  ⟨"P", [⟨10000000000, "x"⟩, ⟨10000000010, "x"⟩, ⟨10000000020, "x"⟩], 0, 20000000000⟩

theorem cexChain_wf : cexChain.WF := by
  refine ⟨?_, ?_, ?_, ?_, ?_⟩ <;> simp [cexChain, Pt.le] <;> decide

/-- the tier is NOT separated, and `eraseRegion` still does not refuse (regression of the repaired defect) -/
theorem perase_chain_regression (sh : Bool) :
    cexChain.WF ∧ ¬ PNoClose cexChain.ps ∧ ∃ t', cexChain.eraseRegion 1 19999999999 sh = .ok t' := by
  refine ⟨cexChain_wf, ?_, ?_⟩
  · intro hn
    have := hn ⟨10000000000, "x"⟩ (by simp [cexChain]) ⟨10000000010, "x"⟩ (by simp [cexChain])
      (by simp [ptEq, Tm.close9a])
    simp at this
  · cases h : cexChain.eraseRegion 1 19999999999 sh with
    | ok t' => exact ⟨t', rfl⟩
    | error e => have := (perase_err cexChain cexChain_wf 1 19999999999 sh e h).2; omega

/-! ## non-vacuity: a concrete well-formed point tier and a concrete history -/

def exP : PTier Int := ⟨"P", [⟨10, "a"⟩, ⟨40, "b"⟩, ⟨40, "c"⟩, ⟨70, "d"⟩], 0, 100⟩
def exU : PTier Int := ⟨"U", [⟨25, "u"⟩, ⟨70, "v"⟩, ⟨130, "w"⟩], 0, 130⟩

theorem exP_wf : exP.WF := by
  refine ⟨?_, ?_, ?_, ?_, ?_⟩ <;> simp [exP, Pt.le] <;> decide

/-- a merge onto a time occupied by TWO points, with an unstripped label (all three labels are joined); space; a point outside the span; union with a longer tier;
deletion; erasing with shrinking; a shift that drops a point; crop with rebasing; append; dejitter -/
def exOps : List POp :=
  [.insert ⟨40, "  n "⟩ .merge, .space 50 20, .insert ⟨150, "far\n"⟩ .error, .union exU, .delete ⟨10, "a"⟩,
   .erase 30 60 true, .shift (-30) .silence, .crop 5 95 true, .append exU, .dejitter [0, 50, 100] 12]

theorem exOps_ok : ∀ op ∈ exOps, ∀ t, POpOk t op := fun op _ t => popOk_trivial t op

/-- the proved statement on the concrete history -/
theorem exHistory_wf : (prun exP exOps).WF ∧ (prun exP exOps).validate = true :=
  ⟨preachable_wf exP exP_wf exOps, preachable_validate exP exP_wf exOps⟩

/-- the error clause has no side condition (`PErrOk` is `True` for every operation on every tier) -/
example : PErrOk cexChain (.erase 1 19999999999 true) := trivial

/-- every step of the history succeeds (a strict run) -/
def prunStrict (t : PTier Int) : List POp → Except Err (PTier Int)
  | [] => .ok t
  | op :: ops => do let t' ← pstepT t op; prunStrict t' ops

-- evaluated illustrations (interpreter tests, not proofs); the same calls on the code give the same tiers
#guard (prunStrict exP exOps).toOption.map (fun t => (t.name, t.ps, t.lo, t.hi)) ==
  some ("P", [⟨0, "v"⟩, ⟨25, "d"⟩, ⟨65, "w"⟩, ⟨85, "far"⟩, ⟨115, "u"⟩, ⟨160, "v"⟩, ⟨220, "w"⟩], 0, 220)
#guard (prunStrict exP (exOps.take 1)).toOption.map (fun t => (t.ps, t.lo, t.hi)) ==
  some ([⟨10, "a"⟩, ⟨40, "b-c-n"⟩, ⟨70, "d"⟩], 0, 100)
#guard (prunStrict exP (exOps.take 3)).toOption.map (fun t => (t.ps, t.lo, t.hi)) ==
  some ([⟨10, "a"⟩, ⟨40, "b-c-n"⟩, ⟨90, "d"⟩, ⟨150, "far"⟩], 0, 150)
#guard (prunStrict exP (exOps.take 6)).toOption.map (fun t => (t.ps, t.lo, t.hi)) ==
  some ([⟨25, "u"⟩, ⟨40, "v"⟩, ⟨60, "d"⟩, ⟨100, "w"⟩, ⟨120, "far"⟩], 0, 120)
#guard (prun exP exOps).validate
-- refusals: a praatio error, or the built-in ValueError of deleting an absent entry (A13c)
#guard (match exP.insertEntry ⟨40, "z"⟩ .error with | .error .CollisionError => true | _ => false)
#guard (match exP.editTimestamps 50 .error with | .error .OutOfBounds => true | _ => false)
#guard (match exP.crop 5 5 false with | .error .ArgumentError => true | _ => false)
#guard (match exP.deleteEntry ⟨41, "b"⟩ with | .error .ValueError => true | _ => false)
#guard (match cexChain.eraseRegion 1 19999999999 false with | .ok t => t.ps.isEmpty | _ => false)

end C05
