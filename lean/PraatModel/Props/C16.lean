/-! # C16 — property theorems (to be filled) -/
