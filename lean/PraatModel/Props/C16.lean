import PraatModel.Audio

/-!
# C16 — in-memory audio edits are sample-exact and sample-aligned

Everything is about the model `PraatModel/Audio.lean`; times are exact rationals `num/den`,
samples unbounded `Int`s restricted by `InRange`, recordings of any length.

The time-level theorems (section 4) hold for ALL rational times: a time outside the recording addresses its first / last
sample boundary (defect C16-2, /repo 3f424d1: `sampleIndex_nearest`, `sampleIndex_nonpos`, `sampleIndex_beyond`), and a
time range that ends before it starts is rejected with `ArgumentError` (defect C16-3, /repo 906b45b: `reversed_rejected`,
`query_reversed_rejected`).  No window hypothesis (`0 ≤ t ≤ duration`) is left; `¬ e < s` in a statement is the condition
under which the call returns, its complement being `reversed_rejected`.
-/
open Audio
namespace C16

/-! ## 1. Python `round`: nearest integer, ties to even -/
theorem rhe_cases (num : Int) (den : Nat) (h : 0 < den) :
    ∃ q r : Int, q * (den:Int) + r = num ∧ 0 ≤ r ∧ r < den ∧
      roundHalfEven num den = (if 2 * r < den then q else if (den:Int) < 2 * r then q + 1 else if q % 2 = 0 then q else q + 1) := by
  refine ⟨num / den, num % den, ?_, ?_, ?_, rfl⟩
  · exact Int.ediv_mul_add_emod num den
  · exact Int.emod_nonneg _ (by omega)
  · exact Int.emod_lt_of_pos _ (by omega)

/-- nearest, ties to even -/
def IsRoundHalfEven (num : Int) (den : Nat) (q : Int) : Prop :=
  -(den : Int) ≤ 2 * (q * den - num) ∧ 2 * (q * den - num) ≤ den ∧
  ((2 * (q * den - num) = den ∨ 2 * (q * den - num) = -(den : Int)) → q % 2 = 0)

theorem roundHalfEven_spec (num : Int) (den : Nat) (h : 0 < den) :
    IsRoundHalfEven num den (roundHalfEven num den) := by
  obtain ⟨q, r, hq, h0, h1, he⟩ := rhe_cases num den h
  rw [he]; unfold IsRoundHalfEven
  have e1 : (q + 1) * (den : Int) = q * den + den := by rw [Int.add_mul, Int.one_mul]
  split
  · refine ⟨by omega, by omega, by omega⟩
  · split
    · rw [e1]; refine ⟨by omega, by omega, by omega⟩
    · split
      · refine ⟨by omega, by omega, by omega⟩
      · rw [e1]; refine ⟨by omega, by omega, by omega⟩

theorem roundHalfEven_unique (num : Int) (den : Nat) (h : 0 < den) (q q' : Int)
    (hq : IsRoundHalfEven num den q) (hq' : IsRoundHalfEven num den q') : q = q' := by
  unfold IsRoundHalfEven at hq hq'
  -- |q - q'| * den ≤ den, so q' ∈ {q-1, q, q+1}; the off-by-one cases are ties of opposite parity
  have key : ∀ a b : Int, IsRoundHalfEven num den a → IsRoundHalfEven num den b → a ≤ b → a = b := by
    intro a b ha hb hab
    unfold IsRoundHalfEven at ha hb
    by_cases hlt : a + 2 ≤ b
    · exfalso
      have : (a + 2) * (den : Int) ≤ b * den := Int.mul_le_mul_of_nonneg_right hlt (by omega)
      rw [Int.add_mul] at this
      omega
    · by_cases heq : a = b
      · exact heq
      · exfalso
        have hb1 : b = a + 1 := by omega
        subst hb1
        have e1 : (a + 1) * (den : Int) = a * den + den := by rw [Int.add_mul, Int.one_mul]
        rw [e1] at hb
        omega
  rcases Int.le_total q q' with hle | hle
  · exact key q q' hq hq' hle
  · exact (key q' q hq' hq hle).symm

theorem natAbs_form (num : Int) (den : Nat) (h : 0 < den) :
    2 * (roundHalfEven num den * den - num).natAbs ≤ den := by
  have := roundHalfEven_spec num den h
  unfold IsRoundHalfEven at this
  omega
/-! ## 2. bytes ↔ samples -/
theorem encLE_length (k n : Nat) : (encLE k n).length = k := by
  induction k generalizing n with
  | zero => rfl
  | succ k ih => simp [encLE, ih]

theorem decLE_lt (bs : List UInt8) : decLE bs < 256 ^ bs.length := by
  induction bs with
  | nil => simp [decLE]
  | cons b bs ih =>
    have hb := b.toNat_lt
    simp only [decLE, List.length_cons, Nat.pow_succ]
    omega

theorem decLE_encLE (k n : Nat) : decLE (encLE k n) = n % 256 ^ k := by
  induction k generalizing n with
  | zero => simp [encLE, decLE, Nat.mod_one]
  | succ k ih =>
    simp only [encLE, decLE, ih]
    have h1 : (UInt8.ofNat (n % 256)).toNat = n % 256 := by
      simp [UInt8.toNat_ofNat']
    rw [h1, Nat.pow_succ, Nat.mul_comm (256 ^ k) 256, Nat.mod_mul]

theorem encLE_decLE (bs : List UInt8) : encLE bs.length (decLE bs) = bs := by
  induction bs with
  | nil => rfl
  | cons b bs ih =>
    have hb := b.toNat_lt
    simp only [List.length_cons, encLE, decLE]
    have h1 : (b.toNat + 256 * decLE bs) % 256 = b.toNat := by omega
    have h2 : (b.toNat + 256 * decLE bs) / 256 = decLE bs := by omega
    rw [h1, h2, ih, UInt8.ofNat_toNat]
theorem full_eq (w : Nat) (hw : 0 < w) : full w = 2 * half w := by
  unfold full half
  obtain ⟨k, rfl⟩ : ∃ k, w = k + 1 := ⟨w - 1, by omega⟩
  simp only [Nat.add_sub_cancel, Nat.pow_succ]
  omega

theorem ofSigned_lt (w : Nat) (x : Int) : ofSigned w x < full w := by
  unfold ofSigned
  have hF : 0 < full w := Nat.pow_pos (by decide)
  have := Int.emod_lt_of_pos x (show (0 : Int) < (full w : Int) by omega)
  have := Int.emod_nonneg x (show ((full w : Nat) : Int) ≠ 0 by omega)
  omega

theorem toSigned_ofSigned (w : Nat) (hw : 0 < w) (x : Int) (hx : InRange w x) :
    toSigned w (ofSigned w x) = x := by
  have hF := full_eq w hw
  unfold InRange at hx
  unfold toSigned ofSigned
  generalize full w = F at *
  generalize half w = H at *
  subst hF
  by_cases h0 : 0 ≤ x
  · have e : x % ((2 * H : Nat) : Int) = x := Int.emod_eq_of_lt h0 (by omega)
    rw [e]; split <;> omega
  · have e1 : (x + ((2 * H : Nat) : Int) * 1) % ((2 * H : Nat) : Int) = x % ((2 * H : Nat) : Int) :=
      Int.add_mul_emod_self_left x _ 1
    have e2 : (x + ((2 * H : Nat) : Int) * 1) % ((2 * H : Nat) : Int) = x + ((2 * H : Nat) : Int) * 1 :=
      Int.emod_eq_of_lt (by omega) (by omega)
    rw [← e1, e2]; split <;> omega

theorem toSigned_inRange (w : Nat) (hw : 0 < w) (u : Nat) (hu : u < full w) : InRange w (toSigned w u) := by
  have hF := full_eq w hw
  unfold InRange toSigned
  split <;> omega

theorem ofSigned_toSigned (w : Nat) (hw : 0 < w) (u : Nat) (hu : u < full w) :
    ofSigned w (toSigned w u) = u := by
  have hF := full_eq w hw
  unfold toSigned ofSigned
  generalize full w = F at *
  generalize half w = H at *
  subst hF
  split
  · have e : ((u : Int)) % ((2 * H : Nat) : Int) = u := Int.emod_eq_of_lt (by omega) (by omega)
    rw [e]; omega
  · have e1 : ((u : Int) - ((2 * H : Nat) : Int) + ((2 * H : Nat) : Int) * 1) % ((2 * H : Nat) : Int)
        = ((u : Int) - ((2 * H : Nat) : Int)) % ((2 * H : Nat) : Int) := Int.add_mul_emod_self_left _ _ 1
    have e2 : ((u : Int) - ((2 * H : Nat) : Int) + ((2 * H : Nat) : Int) * 1) % ((2 * H : Nat) : Int) = u :=
      by rw [Int.emod_eq_of_lt (by omega) (by omega)]; omega
    rw [← e1, e2]; omega

theorem decSample_encSample (w : Nat) (hw : 0 < w) (x : Int) (hx : InRange w x) :
    decSample w (encSample w x) = x := by
  unfold decSample encSample
  rw [decLE_encLE, ← full, Nat.mod_eq_of_lt (ofSigned_lt w x)]
  exact toSigned_ofSigned w hw x hx

theorem encSample_decSample (w : Nat) (hw : 0 < w) (bs : List UInt8) (hl : bs.length = w) :
    encSample w (decSample w bs) = bs := by
  unfold decSample encSample
  have hlt : decLE bs < full w := by have := decLE_lt bs; rwa [hl] at this
  rw [ofSigned_toSigned w hw _ hlt]
  have := encLE_decLE bs
  rwa [hl] at this

theorem encSample_length (w : Nat) (x : Int) : (encSample w x).length = w := encLE_length _ _

/-! ### lists of samples -/

theorem unpackN_length (w n : Nat) (bs : List UInt8) : (unpackN w n bs).length = n := by
  induction n generalizing bs with
  | zero => rfl
  | succ n ih => simp [unpackN, ih]

theorem unpack_length (w : Nat) (bs : List UInt8) : (unpack w bs).length = bs.length / w :=
  unpackN_length _ _ _

/-- the first `n` samples only depend on the first `n*w` bytes -/
theorem unpackN_append_left (w n : Nat) (a b : List UInt8) (h : n * w ≤ a.length) :
    unpackN w n (a ++ b) = unpackN w n a := by
  induction n generalizing a with
  | zero => rfl
  | succ n ih =>
    have hs : (n + 1) * w = n * w + w := Nat.succ_mul n w
    have hw : w ≤ a.length := by omega
    simp only [unpackN]
    rw [List.take_append_of_le_length hw, List.drop_append_of_le_length hw, ih]
    simp only [List.length_drop]; omega

theorem unpackN_add (w m n : Nat) (bs : List UInt8) :
    unpackN w (m + n) bs = unpackN w m bs ++ unpackN w n (bs.drop (m * w)) := by
  induction m generalizing bs with
  | zero => simp [unpackN]
  | succ m ih =>
    have e : m + 1 + n = (m + n) + 1 := by omega
    rw [e]
    simp only [unpackN, List.cons_append, ih, List.drop_drop]
    rw [Nat.succ_mul, Nat.add_comm w (m * w)]

/-- decoding distributes over concatenation at a sample boundary -/
theorem unpack_append (w m : Nat) (hw : 0 < w) (a b : List UInt8) (ha : a.length = m * w) :
    unpack w (a ++ b) = unpack w a ++ unpack w b := by
  unfold unpack
  have e1 : (a ++ b).length / w = m + b.length / w := by
    rw [List.length_append, ha, Nat.mul_comm m w, Nat.mul_add_div hw]
  have e2 : a.length / w = m := by rw [ha, Nat.mul_div_cancel _ hw]
  rw [e1, e2, unpackN_add, unpackN_append_left _ _ _ _ (by omega), List.drop_left' ha]

theorem unpack_take (w k : Nat) (hw : 0 < w) (f : List UInt8) (h : k * w ≤ f.length) :
    unpack w (f.take (k * w)) = (unpack w f).take k := by
  have hl : (f.take (k * w)).length = k * w := by simp [List.length_take]; omega
  have hu : (unpack w (f.take (k * w))).length = k := by
    rw [unpack_length, hl, Nat.mul_div_cancel _ hw]
  conv => rhs; rw [← List.take_append_drop (k * w) f, unpack_append w k hw _ _ hl]
  rw [List.take_left' hu]

theorem unpack_drop (w k : Nat) (hw : 0 < w) (f : List UInt8) (h : k * w ≤ f.length) :
    unpack w (f.drop (k * w)) = (unpack w f).drop k := by
  have hl : (f.take (k * w)).length = k * w := by simp [List.length_take]; omega
  have hu : (unpack w (f.take (k * w))).length = k := by
    rw [unpack_length, hl, Nat.mul_div_cancel _ hw]
  conv => rhs; rw [← List.take_append_drop (k * w) f, unpack_append w k hw _ _ hl]
  rw [List.drop_left' hu]

theorem pack_cons (w : Nat) (x : Int) (xs : List Int) : pack w (x :: xs) = encSample w x ++ pack w xs := by
  simp [pack]

/-- `len(convertToBytes(xs, w)) = w * len(xs)` -/
theorem pack_length (w : Nat) (xs : List Int) : (pack w xs).length = w * xs.length := by
  induction xs with
  | nil => simp [pack]
  | cons x xs ih => rw [pack_cons, List.length_append, encSample_length, ih, List.length_cons, Nat.mul_succ]; omega

theorem unpack_single (w : Nat) (hw : 0 < w) (x : Int) (hx : InRange w x) : unpack w (encSample w x) = [x] := by
  unfold unpack
  rw [encSample_length, Nat.div_self hw]
  simp only [unpackN]
  rw [List.take_of_length_le (by rw [encSample_length]; omega), decSample_encSample w hw x hx]

/-- **samples → bytes → samples is the identity** (any positive width, samples in the width's range) -/
theorem pack_unpack (w : Nat) (hw : 0 < w) (xs : List Int) (hx : ∀ x ∈ xs, InRange w x) :
    unpack w (pack w xs) = xs := by
  induction xs with
  | nil => simp [pack, unpack, unpackN]
  | cons x xs ih =>
    rw [pack_cons, unpack_append w 1 hw _ _ (by rw [encSample_length]; omega),
      unpack_single w hw x (hx x (by simp)), ih (fun y hy => hx y (by simp [hy]))]
    rfl

theorem pack_unpackN (w : Nat) (hw : 0 < w) (n : Nat) (bs : List UInt8) (h : bs.length = n * w) :
    pack w (unpackN w n bs) = bs := by
  induction n generalizing bs with
  | zero => simp at h; simp [unpackN, pack, h]
  | succ n ih =>
    have hs : (n + 1) * w = n * w + w := Nat.succ_mul n w
    simp only [unpackN]
    rw [pack_cons, encSample_decSample w hw _ (by simp [List.length_take]; omega),
      ih _ (by simp [List.length_drop]; omega), List.take_append_drop]

/-- **bytes → samples → bytes is the identity** on byte strings holding whole samples -/
theorem unpack_pack (w : Nat) (hw : 0 < w) (bs : List UInt8) (h : w ∣ bs.length) :
    pack w (unpack w bs) = bs := by
  obtain ⟨k, hk⟩ := h
  unfold unpack
  have : bs.length / w = k := by rw [hk, Nat.mul_div_cancel_left _ hw]
  rw [this]
  exact pack_unpackN w hw k bs (by rw [hk, Nat.mul_comm])

/-- every decoded sample is in the width's range -/
theorem unpackN_inRange (w : Nat) (hw : 0 < w) (n : Nat) (bs : List UInt8) (h : n * w ≤ bs.length) :
    ∀ x ∈ unpackN w n bs, InRange w x := by
  induction n generalizing bs with
  | zero => intro x hx; simp [unpackN] at hx
  | succ n ih =>
    have hs : (n + 1) * w = n * w + w := Nat.succ_mul n w
    intro x hx
    simp only [unpackN, List.mem_cons] at hx
    rcases hx with rfl | hx
    · apply toSigned_inRange w hw
      have := decLE_lt (bs.take w)
      have hl : (bs.take w).length = w := by simp [List.length_take]; omega
      rwa [hl] at this
    · exact ih _ (by simp [List.length_drop]; omega) x hx

theorem knownWidth_pos (w : Nat) (hk : knownWidth w = true) : 0 < w := by
  cases w with
  | zero => simp [knownWidth] at hk
  | succ n => omega

/-- `convertFromBytes(convertToBytes(xs, w), w) == xs` for the widths of `sampleWidthDict` and samples in range;
neither call raises -/
theorem convert_samples_roundtrip (w : Nat) (hk : knownWidth w = true) (xs : List Int)
    (hx : ∀ x ∈ xs, InRange w x) :
    (convertToBytes xs w >>= fun b => convertFromBytes b w) = .ok xs := by
  have hw := knownWidth_pos w hk
  have hall : xs.all (fun x => decide (InRange w x)) = true :=
    List.all_eq_true.2 (fun x hx' => decide_eq_true (hx x hx'))
  have h1 : convertToBytes xs w = .ok (pack w xs) := by unfold convertToBytes; simp [hk, hall]
  have h2 : convertFromBytes (pack w xs) w = .ok xs := by
    unfold convertFromBytes
    have : (pack w xs).length % w = 0 := by rw [pack_length]; exact Nat.mul_mod_right _ _
    simp [hk, this, pack_unpack w hw xs hx]
  rw [h1]; exact h2

/-- `convertToBytes(convertFromBytes(bs, w), w) == bs` on byte strings holding whole samples -/
theorem convert_bytes_roundtrip (w : Nat) (hk : knownWidth w = true) (bs : List UInt8) (h : w ∣ bs.length) :
    (convertFromBytes bs w >>= fun xs => convertToBytes xs w) = .ok bs := by
  have hw := knownWidth_pos w hk
  obtain ⟨k, hkk⟩ := h
  have h1 : convertFromBytes bs w = .ok (unpack w bs) := by
    unfold convertFromBytes
    have : bs.length % w = 0 := by rw [hkk]; exact Nat.mul_mod_right _ _
    simp [hk, this]
  have hr : ∀ x ∈ unpack w bs, InRange w x := by
    unfold unpack
    apply unpackN_inRange w hw
    rw [hkk, Nat.mul_div_cancel_left _ hw, Nat.mul_comm]; exact Nat.le_refl _
  have hall : (unpack w bs).all (fun x => decide (InRange w x)) = true :=
    List.all_eq_true.2 (fun x hx' => decide_eq_true (hr x hx'))
  have h2 : convertToBytes (unpack w bs) w = .ok bs := by
    unfold convertToBytes; simp [hk, hall, unpack_pack w hw bs ⟨k, hkk⟩]
  rw [h1]; exact h2

/-! ## 3. time → index: always on a sample boundary, the nearest one, inside the recording -/

theorem clampSample_le (i : Int) (n : Nat) : clampSample i n ≤ n := Nat.min_le_right _ _

theorem clampSample_of_range (i : Int) (n : Nat) (h0 : 0 ≤ i) (h1 : i ≤ n) : ((clampSample i n : Nat) : Int) = i := by
  unfold clampSample; omega

/-- `clampSample i n = min(max(i, 0), n)` -/
theorem clampSample_eq (i : Int) (n : Nat) : ((clampSample i n : Nat) : Int) = min (max i 0) n := by
  unfold clampSample; omega

theorem clampSample_nonpos (i : Int) (n : Nat) (h : i ≤ 0) : clampSample i n = 0 := by
  unfold clampSample; omega

theorem clampSample_beyond (i : Int) (n : Nat) (h : (n : Int) ≤ i) : clampSample i n = n := by
  unfold clampSample; omega

/-- the byte index is the clamped sample index times the width -/
theorem index_cast (wv : Wav) (t : QTime) : wv.index t = ((wv.sampleIndex t * wv.width : Nat) : Int) := rfl

/-- **the byte index of every time is a whole number of samples** — for all `t`, `rate`, `width`, recordings
(this is what `round(t*rate) * width` bought over `round(t*rate*width)`) -/
theorem index_aligned (t : QTime) (rate w n : Nat) : (w : Int) ∣ indexAtTime t rate w n :=
  ⟨(clampSample (sampleAtTime t rate) n : Nat), by unfold indexAtTime; rw [Int.natCast_mul, Int.mul_comm]⟩

theorem index_aligned' (wv : Wav) (t : QTime) : (wv.width : Int) ∣ wv.index t := index_aligned _ _ _ _

theorem index_div (t : QTime) (rate w n : Nat) (hw : 0 < w) :
    indexAtTime t rate w n / w = (clampSample (sampleAtTime t rate) n : Nat) := by
  unfold indexAtTime; rw [Int.natCast_mul]; exact Int.mul_ediv_cancel _ (by omega)

/-- **the sample index used is the integer nearest to `t * rate` (ties to the even index), clamped into the
recording `[0, n]`** — for every rational time -/
theorem index_nearest (t : QTime) (rate w n : Nat) (hw : 0 < w) (hd : 0 < t.den) :
    IsRoundHalfEven (t.num * rate) t.den (sampleAtTime t rate) ∧
    indexAtTime t rate w n / w = min (max (sampleAtTime t rate) 0) n := by
  rw [index_div t rate w n hw, clampSample_eq]; exact ⟨roundHalfEven_spec _ _ hd, rfl⟩

/-- no integer is nearer to `num/den` than `roundHalfEven num den` -/
theorem roundHalfEven_nearest (num : Int) (den : Nat) (h : 0 < den) (m : Int) :
    (roundHalfEven num den * den - num).natAbs ≤ (m * den - num).natAbs := by
  have hs := roundHalfEven_spec num den h
  unfold IsRoundHalfEven at hs
  generalize roundHalfEven num den = q at *
  rcases Int.lt_trichotomy m q with hlt | heq | hgt
  · have : (m + 1) * (den : Int) ≤ q * den := Int.mul_le_mul_of_nonneg_right (by omega) (by omega)
    rw [Int.add_mul, Int.one_mul] at this
    omega
  · subst heq; omega
  · have : (q + 1) * (den : Int) ≤ m * den := Int.mul_le_mul_of_nonneg_right (by omega) (by omega)
    rw [Int.add_mul, Int.one_mul] at this
    omega

theorem roundHalfEven_exact (m : Int) (den : Nat) (h : 0 < den) : roundHalfEven (m * den) den = m := by
  apply roundHalfEven_unique (m * den) den h _ _ (roundHalfEven_spec _ _ h)
  unfold IsRoundHalfEven
  refine ⟨by omega, by omega, by omega⟩

theorem roundHalfEven_nonneg (num : Int) (den : Nat) (h : 0 < den) (hn : 0 ≤ num) : 0 ≤ roundHalfEven num den := by
  have hs := roundHalfEven_spec num den h
  unfold IsRoundHalfEven at hs
  generalize roundHalfEven num den = q at *
  by_cases hq : 0 ≤ q
  · exact hq
  · exfalso
    have : (q + 1) * (den : Int) ≤ 0 * den := Int.mul_le_mul_of_nonneg_right (by omega) (by omega)
    rw [Int.add_mul, Int.one_mul, Int.zero_mul] at this
    omega

theorem roundHalfEven_le (num : Int) (den : Nat) (h : 0 < den) (m : Int) (hn : num ≤ m * den) :
    roundHalfEven num den ≤ m := by
  have hs := roundHalfEven_spec num den h
  unfold IsRoundHalfEven at hs
  generalize roundHalfEven num den = q at *
  by_cases hq : q ≤ m
  · exact hq
  · exfalso
    have : (m + 1) * (den : Int) ≤ q * den := Int.mul_le_mul_of_nonneg_right (by omega) (by omega)
    rw [Int.add_mul, Int.one_mul] at this
    omega

/-- rounding is monotone -/
theorem roundHalfEven_mono (a b : Int) (den : Nat) (h : 0 < den) (hab : a ≤ b) :
    roundHalfEven a den ≤ roundHalfEven b den := by
  have ha := roundHalfEven_spec a den h
  have hb := roundHalfEven_spec b den h
  unfold IsRoundHalfEven at ha hb
  generalize roundHalfEven a den = p at *
  generalize roundHalfEven b den = q at *
  by_cases hq : p ≤ q
  · exact hq
  · exfalso
    by_cases h2 : q + 2 ≤ p
    · have : (q + 2) * (den : Int) ≤ p * den := Int.mul_le_mul_of_nonneg_right h2 (by omega)
      rw [Int.add_mul] at this
      omega
    · have hp : p = q + 1 := by omega
      subst hp
      have e1 : (q + 1) * (den : Int) = q * den + den := by rw [Int.add_mul, Int.one_mul]
      rw [e1] at ha
      omega

/-- rounding depends only on the value of the fraction -/
theorem roundHalfEven_scale (num : Int) (den k : Nat) (hd : 0 < den) (hk : 0 < k) :
    roundHalfEven ((k : Int) * num) (k * den) = roundHalfEven num den := by
  apply roundHalfEven_unique _ _ (Nat.mul_pos hk hd) _ _ (roundHalfEven_spec _ _ (Nat.mul_pos hk hd))
  have hs := roundHalfEven_spec num den hd
  unfold IsRoundHalfEven at hs ⊢
  generalize roundHalfEven num den = q at *
  have e : 2 * (q * ((k * den : Nat) : Int) - (k : Int) * num) = (k : Int) * (2 * (q * (den : Int) - num)) := by
    rw [Int.natCast_mul]; grind
  rw [e, Int.natCast_mul]
  obtain ⟨h1, h2, h3⟩ := hs
  have hk' : (0 : Int) ≤ k := by omega
  have m1 := Int.mul_le_mul_of_nonneg_left h1 hk'
  have m2 := Int.mul_le_mul_of_nonneg_left h2 hk'
  rw [Int.mul_neg] at m1
  refine ⟨m1, m2, ?_⟩
  intro ht
  apply h3
  rcases ht with ht | ht
  · left; exact Int.eq_of_mul_eq_mul_left (by omega) ht
  · right; rw [← Int.mul_neg] at ht; exact Int.eq_of_mul_eq_mul_left (by omega) ht

/-- **the sample index depends only on the real value of the time**, not on how the fraction is written -/
theorem sampleAtTime_eqv (a b : QTime) (ha : 0 < a.den) (hb : 0 < b.den) (h : QTime.eqv a b) (rate : Nat) :
    sampleAtTime a rate = sampleAtTime b rate := by
  unfold sampleAtTime
  unfold QTime.eqv at h
  rw [← roundHalfEven_scale (a.num * rate) a.den b.den ha hb, ← roundHalfEven_scale (b.num * rate) b.den a.den hb ha]
  have e : (b.den : Int) * (a.num * rate) = (a.den : Int) * (b.num * rate) := by grind
  rw [e, Nat.mul_comm b.den a.den]

/-- **among the sample boundaries `0..n` of the recording none is nearer to `num/den` than the clamped
index** — "the sample indices nearest to the requested times", for every rational time -/
theorem clampSample_nearest (num : Int) (den : Nat) (h : 0 < den) (n m : Nat) (hm : m ≤ n) :
    (((clampSample (roundHalfEven num den) n : Nat) : Int) * den - num).natAbs ≤ ((m : Int) * den - num).natAbs := by
  have hs := roundHalfEven_spec num den h
  have hnear := roundHalfEven_nearest num den h m
  unfold IsRoundHalfEven at hs
  generalize roundHalfEven num den = q at *
  have hmd : (0 : Int) ≤ (m : Int) * den := Int.mul_nonneg (by omega) (by omega)
  have hmn : (m : Int) * den ≤ (n : Int) * den := Int.mul_le_mul_of_nonneg_right (by omega) (by omega)
  by_cases h0 : q < 0
  · rw [clampSample_nonpos q n (by omega)]
    have : (q + 1) * (den : Int) ≤ 0 * den := Int.mul_le_mul_of_nonneg_right (by omega) (by omega)
    rw [Int.add_mul, Int.one_mul, Int.zero_mul] at this
    simp only [Int.natCast_zero, Int.zero_mul]
    omega
  · by_cases h1 : q ≤ n
    · rw [clampSample_of_range q n (by omega) h1]; exact hnear
    · rw [clampSample_beyond q n (by omega)]
      have : ((n : Int) + 1) * (den : Int) ≤ q * den := Int.mul_le_mul_of_nonneg_right (by omega) (by omega)
      rw [Int.add_mul, Int.one_mul] at this
      omega

/-- … stated for the recording: `wv.sampleIndex t` is a boundary of the recording and no boundary is nearer to `t` -/
theorem sampleIndex_nearest (wv : Wav) (t : QTime) (hd : 0 < t.den) (m : Nat) (hm : m ≤ wv.nsamples) :
    wv.sampleIndex t ≤ wv.nsamples ∧
    (((wv.sampleIndex t : Nat) : Int) * t.den - t.num * wv.rate).natAbs ≤ ((m : Int) * t.den - t.num * wv.rate).natAbs :=
  ⟨clampSample_le _ _, clampSample_nearest _ _ hd _ m hm⟩

/-- a time inside the recording: non-negative and at most the duration -/
def InDur (wv : Wav) (t : QTime) : Prop := 0 < t.den ∧ 0 ≤ t.num ∧ t ≤ wv.duration
instance (wv : Wav) (t : QTime) : Decidable (InDur wv t) := inferInstanceAs (Decidable (_ ∧ _ ∧ _))

/-- a recording made of whole samples of positive width -/
def Whole (wv : Wav) : Prop := 0 < wv.width ∧ wv.width ∣ wv.frames.length
instance (wv : Wav) : Decidable (Whole wv) := inferInstanceAs (Decidable (_ ∧ _))

/-- the sample count is the length of the decoded list -/
theorem nsamples_samples (wv : Wav) : wv.samples.length = wv.nsamples := unpack_length _ _

/-- inside the recording the nearest sample index needs no clamping -/
theorem sampleAtTime_range (wv : Wav) (hwv : Whole wv) (t : QTime) (ht : InDur wv t) :
    0 ≤ sampleAtTime t wv.rate ∧ sampleAtTime t wv.rate ≤ wv.nsamples := by
  obtain ⟨hw, k, hk⟩ := hwv
  obtain ⟨hd, hn, hle⟩ := ht
  have hns : wv.nsamples = k := by unfold Wav.nsamples; rw [hk, Nat.mul_div_cancel_left _ hw]
  refine ⟨roundHalfEven_nonneg _ _ hd (Int.mul_nonneg hn (by omega)), ?_⟩
  unfold sampleAtTime
  apply roundHalfEven_le _ _ hd
  rw [hns]
  have hle' : t.num * ((wv.rate * wv.width : Nat) : Int) ≤ ((wv.frames.length : Nat) : Int) * (t.den : Int) := hle
  rw [hk, Int.natCast_mul, Int.natCast_mul] at hle'
  have h2 : t.num * (wv.rate : Int) * (wv.width : Int) ≤ (k : Int) * (t.den : Int) * (wv.width : Int) := by
    have e1 : t.num * (wv.rate : Int) * (wv.width : Int) = t.num * ((wv.rate : Int) * (wv.width : Int)) := by grind
    have e2 : (k : Int) * (t.den : Int) * (wv.width : Int) = (wv.width : Int) * (k : Int) * (t.den : Int) := by grind
    rw [e1, e2]; exact hle'
  exact Int.le_of_mul_le_mul_right h2 (by omega)

/-- … `sampleIndex t = round(t * rate)` there -/
theorem sampleIndex_inDur (wv : Wav) (hwv : Whole wv) (t : QTime) (ht : InDur wv t) :
    ((wv.sampleIndex t : Nat) : Int) = sampleAtTime t wv.rate := by
  have ⟨h0, h1⟩ := sampleAtTime_range wv hwv t ht
  exact clampSample_of_range _ _ h0 h1

/-- **a time at or before the start of the recording addresses its first sample boundary** -/
theorem sampleIndex_nonpos (wv : Wav) (t : QTime) (hd : 0 < t.den) (hn : t.num ≤ 0) : wv.sampleIndex t = 0 := by
  apply clampSample_nonpos
  have := roundHalfEven_le (t.num * wv.rate) t.den hd 0
    (by rw [Int.zero_mul]; exact Int.mul_nonpos_of_nonpos_of_nonneg hn (by omega))
  exact this

/-- **a time at or beyond the end of the recording addresses its last sample boundary** -/
theorem sampleIndex_beyond (wv : Wav) (t : QTime) (hd : 0 < t.den)
    (h : (wv.nsamples : Int) * t.den ≤ t.num * wv.rate) : wv.sampleIndex t = wv.nsamples := by
  apply clampSample_beyond
  have hm := roundHalfEven_mono _ _ t.den hd h
  rwa [roundHalfEven_exact _ _ hd] at hm

/-- rounding and clamping are monotone: an ordered pair of times addresses an ordered pair of boundaries -/
theorem sampleIndex_mono (wv : Wav) (s e : QTime) (hs : 0 < s.den) (he : 0 < e.den) (hse : s ≤ e) :
    wv.sampleIndex s ≤ wv.sampleIndex e := by
  have hle : s.num * e.den ≤ e.num * s.den := hse
  have h1 : sampleAtTime s wv.rate = roundHalfEven ((e.den : Int) * (s.num * wv.rate)) (e.den * s.den) := by
    unfold sampleAtTime; rw [roundHalfEven_scale _ _ _ hs he]
  have h2 : sampleAtTime e wv.rate = roundHalfEven ((s.den : Int) * (e.num * wv.rate)) (e.den * s.den) := by
    unfold sampleAtTime; rw [Nat.mul_comm e.den s.den, roundHalfEven_scale _ _ _ he hs]
  have hr : (0 : Int) ≤ wv.rate := by omega
  have hm : (e.den : Int) * (s.num * wv.rate) ≤ (s.den : Int) * (e.num * wv.rate) := by
    have := Int.mul_le_mul_of_nonneg_right hle hr
    have e1 : (e.den : Int) * (s.num * wv.rate) = s.num * e.den * wv.rate := by grind
    have e2 : (s.den : Int) * (e.num * wv.rate) = e.num * s.den * wv.rate := by grind
    rw [e1, e2]; exact this
  have := roundHalfEven_mono _ _ (e.den * s.den) (Nat.mul_pos he hs) hm
  rw [← h1, ← h2] at this
  unfold Wav.sampleIndex clampSample
  have := Int.toNat_le_toNat this
  omega

/-- the sample index never leaves the recording — for every time -/
theorem sample_range (wv : Wav) (t : QTime) : wv.sampleIndex t ≤ wv.nsamples := clampSample_le _ _

/-- **the byte index of every time lies inside the byte string** (no hypothesis on the time or the recording) -/
theorem index_range (wv : Wav) (t : QTime) : 0 ≤ wv.index t ∧ wv.index t ≤ wv.frames.length := by
  have h1 := sample_range wv t
  have h2 : wv.nsamples * wv.width ≤ wv.frames.length := Nat.div_mul_le_self _ _
  have h3 : wv.sampleIndex t * wv.width ≤ wv.nsamples * wv.width := Nat.mul_le_mul_right _ h1
  rw [index_cast]
  omega

/-! ## 4. edits at aligned indices act on whole samples; every other sample keeps value and order -/

theorem pyClamp_of_range (n : Nat) (i : Int) (h0 : 0 ≤ i) (h1 : i ≤ n) : pyClamp n i = i.toNat := by
  unfold pyClamp; split <;> omega

/-- a non-negative multiple of `w` is `a * w` for the natural number `a = i / w` -/
theorem aligned_index (w : Nat) (hw : 0 < w) (i : Int) (hd : (w : Int) ∣ i) (h0 : 0 ≤ i) :
    ∃ a : Nat, i = ((a * w : Nat) : Int) ∧ (i / w).toNat = a := by
  obtain ⟨c, hc⟩ := hd
  have hq : i / (w : Int) = c := by rw [hc]; exact Int.mul_ediv_cancel_left _ (by omega)
  have hc0 : 0 ≤ c := by rw [← hq]; exact Int.ediv_nonneg h0 (by omega)
  refine ⟨c.toNat, ?_, by rw [hq]⟩
  rw [Int.natCast_mul, Int.toNat_of_nonneg hc0, hc, Int.mul_comm]

theorem aligned_delete (w : Nat) (hw : 0 < w) (f : List UInt8) (i j : Int)
    (hi : (w : Int) ∣ i) (hj : (w : Int) ∣ j)
    (hi0 : 0 ≤ i) (hi1 : i ≤ f.length) (hj0 : 0 ≤ j) (hj1 : j ≤ f.length) :
    unpack w (deleteB f i j) = (unpack w f).take (i / w).toNat ++ (unpack w f).drop (j / w).toNat := by
  obtain ⟨a, rfl, ha⟩ := aligned_index w hw i hi hi0
  obtain ⟨b, rfl, hb⟩ := aligned_index w hw j hj hj0
  rw [ha, hb]
  unfold deleteB sliceTo sliceFrom
  rw [pyClamp_of_range _ _ hi0 hi1, pyClamp_of_range _ _ hj0 hj1, Int.toNat_natCast, Int.toNat_natCast]
  have hal : a * w ≤ f.length := by omega
  have hbl : b * w ≤ f.length := by omega
  rw [unpack_append w a hw _ _ (by simp [List.length_take]; omega), unpack_take w a hw f hal,
    unpack_drop w b hw f hbl]

theorem aligned_insert (w : Nat) (hw : 0 < w) (f g : List UInt8) (i : Int)
    (hi : (w : Int) ∣ i) (hg : w ∣ g.length) (hi0 : 0 ≤ i) (hi1 : i ≤ f.length) :
    unpack w (insertB f i g) =
      (unpack w f).take (i / w).toNat ++ unpack w g ++ (unpack w f).drop (i / w).toNat := by
  obtain ⟨a, rfl, ha⟩ := aligned_index w hw i hi hi0
  obtain ⟨m, hm⟩ := hg
  rw [ha]
  unfold insertB sliceTo sliceFrom
  rw [pyClamp_of_range _ _ hi0 hi1, Int.toNat_natCast]
  have hal : a * w ≤ f.length := by omega
  have hl1 : (f.take (a * w)).length = a * w := by simp [List.length_take]; omega
  have hl2 : (f.take (a * w) ++ g).length = (a + m) * w := by
    rw [List.length_append, hl1, hm, Nat.add_mul, Nat.mul_comm w m]
  rw [unpack_append w (a + m) hw _ _ hl2, unpack_append w a hw _ _ hl1, unpack_take w a hw f hal,
    unpack_drop w a hw f hal]

theorem aligned_getFrames (w : Nat) (hw : 0 < w) (f : List UInt8) (i j : Int)
    (hi : (w : Int) ∣ i) (hj : (w : Int) ∣ j)
    (hi0 : 0 ≤ i) (hi1 : i ≤ f.length) (hj0 : 0 ≤ j) (hj1 : j ≤ f.length) :
    unpack w (getB f i j) = ((unpack w f).drop (i / w).toNat).take ((j / w).toNat - (i / w).toNat) := by
  obtain ⟨a, rfl, ha⟩ := aligned_index w hw i hi hi0
  obtain ⟨b, rfl, hb⟩ := aligned_index w hw j hj hj0
  rw [ha, hb]
  unfold getB slice
  rw [pyClamp_of_range _ _ hi0 hi1, pyClamp_of_range _ _ hj0 hj1, Int.toNat_natCast, Int.toNat_natCast]
  have hbl : b * w ≤ f.length := by omega
  have hl : (f.take (b * w)).length = b * w := by simp [List.length_take]; omega
  by_cases hab : a ≤ b
  · have : a * w ≤ b * w := Nat.mul_le_mul_right w hab
    rw [unpack_drop w a hw _ (by omega), unpack_take w b hw f hbl, List.drop_take]
  · have hba : b * w ≤ a * w := Nat.mul_le_mul_right w (by omega)
    rw [List.drop_of_length_le (by omega)]
    have : b - a = 0 := by omega
    simp [this, unpack, unpackN]

/-- the three byte-level statements together: at indices that are multiples of the width and inside the
byte string, an edit of the bytes is the same edit of the sample list at `index / width` -/
theorem aligned_edits (w : Nat) (hw : 0 < w) (f g : List UInt8) (i j : Int)
    (hi : (w : Int) ∣ i) (hj : (w : Int) ∣ j) (hg : w ∣ g.length)
    (hi0 : 0 ≤ i) (hi1 : i ≤ f.length) (hj0 : 0 ≤ j) (hj1 : j ≤ f.length) :
    unpack w (deleteB f i j) = (unpack w f).take (i / w).toNat ++ (unpack w f).drop (j / w).toNat ∧
    unpack w (insertB f i g) =
      (unpack w f).take (i / w).toNat ++ unpack w g ++ (unpack w f).drop (i / w).toNat ∧
    unpack w (getB f i j) = ((unpack w f).drop (i / w).toNat).take ((j / w).toNat - (i / w).toNat) :=
  ⟨aligned_delete w hw f i j hi hj hi0 hi1 hj0 hj1, aligned_insert w hw f g i hi hg hi0 hi1,
   aligned_getFrames w hw f i j hi hj hi0 hi1 hj0 hj1⟩

/-! ### byte level, any non-negative aligned indices (also beyond the end of the byte string) -/

theorem min_mul_right (w k a : Nat) : min (a * w) (k * w) = min a k * w := by
  by_cases h : a ≤ k
  · rw [Nat.min_eq_left h, Nat.min_eq_left (Nat.mul_le_mul_right w h)]
  · have hk : k ≤ a := by omega
    rw [Nat.min_eq_right hk, Nat.min_eq_right (Nat.mul_le_mul_right w hk)]

theorem pyClamp_nat (w k : Nat) (f : List UInt8) (hk : f.length = k * w) (c : Nat) :
    pyClamp f.length ((c * w : Nat) : Int) = min c k * w := by
  unfold pyClamp
  rw [if_neg (by omega), Int.toNat_natCast, hk, min_mul_right]

theorem take_min_length {α} (l : List α) (a k : Nat) (hl : l.length = k) : l.take (min a k) = l.take a := by
  by_cases h : a ≤ k
  · rw [Nat.min_eq_left h]
  · rw [Nat.min_eq_right (by omega), List.take_of_length_le (by omega), List.take_of_length_le (by omega)]

theorem drop_min_length {α} (l : List α) (a k : Nat) (hl : l.length = k) : l.drop (min a k) = l.drop a := by
  by_cases h : a ≤ k
  · rw [Nat.min_eq_left h]
  · rw [Nat.min_eq_right (by omega), List.drop_of_length_le (by omega), List.drop_of_length_le (by omega)]

theorem drop_take_min {α} (l : List α) (a b k : Nat) (hl : l.length = k) :
    (l.drop (min a k)).take (min b k - min a k) = (l.drop a).take (b - a) := by
  rw [drop_min_length l a k hl]
  by_cases ha : a ≤ k
  · rw [Nat.min_eq_left ha]
    by_cases hb : b ≤ k
    · rw [Nat.min_eq_left hb]
    · rw [Nat.min_eq_right (by omega), List.take_of_length_le (by rw [List.length_drop]; omega),
        List.take_of_length_le (by rw [List.length_drop]; omega)]
  · rw [List.drop_of_length_le (by omega)]; simp

/-- byte level, **any non-negative aligned indices** (also beyond the end of the byte string, where Python
clamps) on a byte string of whole samples -/
theorem nonneg_delete (w : Nat) (hw : 0 < w) (f : List UInt8) (k : Nat) (hk : f.length = k * w) (a b : Nat) :
    unpack w (deleteB f ((a * w : Nat) : Int) ((b * w : Nat) : Int)) = (unpack w f).take a ++ (unpack w f).drop b := by
  have hlen : (unpack w f).length = k := by rw [unpack_length, hk, Nat.mul_div_cancel _ hw]
  have ha : min a k * w ≤ f.length := by rw [hk]; exact Nat.mul_le_mul_right w (Nat.min_le_right _ _)
  have hb : min b k * w ≤ f.length := by rw [hk]; exact Nat.mul_le_mul_right w (Nat.min_le_right _ _)
  unfold deleteB sliceTo sliceFrom
  rw [pyClamp_nat w k f hk a, pyClamp_nat w k f hk b,
    unpack_append w (min a k) hw _ _ (by rw [List.length_take]; omega), unpack_take w _ hw f ha,
    unpack_drop w _ hw f hb, take_min_length _ a k hlen, drop_min_length _ b k hlen]

theorem nonneg_insert (w : Nat) (hw : 0 < w) (f g : List UInt8) (k : Nat) (hk : f.length = k * w)
    (hg : w ∣ g.length) (a : Nat) :
    unpack w (insertB f ((a * w : Nat) : Int) g) = (unpack w f).take a ++ unpack w g ++ (unpack w f).drop a := by
  have hlen : (unpack w f).length = k := by rw [unpack_length, hk, Nat.mul_div_cancel _ hw]
  have ha : min a k * w ≤ f.length := by rw [hk]; exact Nat.mul_le_mul_right w (Nat.min_le_right _ _)
  obtain ⟨m, hm⟩ := hg
  unfold insertB sliceTo sliceFrom
  rw [pyClamp_nat w k f hk a]
  have hl1 : (f.take (min a k * w)).length = min a k * w := by rw [List.length_take]; omega
  have hl2 : (f.take (min a k * w) ++ g).length = (min a k + m) * w := by
    rw [List.length_append, hl1, hm, Nat.add_mul, Nat.mul_comm w m]
  rw [unpack_append w (min a k + m) hw _ _ hl2, unpack_append w (min a k) hw _ _ hl1, unpack_take w _ hw f ha,
    unpack_drop w _ hw f ha, take_min_length _ a k hlen, drop_min_length _ a k hlen]

theorem nonneg_getFrames (w : Nat) (hw : 0 < w) (f : List UInt8) (k : Nat) (hk : f.length = k * w) (a b : Nat) :
    unpack w (getB f ((a * w : Nat) : Int) ((b * w : Nat) : Int)) = ((unpack w f).drop a).take (b - a) := by
  have hlen : (unpack w f).length = k := by rw [unpack_length, hk, Nat.mul_div_cancel _ hw]
  have ha : min a k * w ≤ f.length := by rw [hk]; exact Nat.mul_le_mul_right w (Nat.min_le_right _ _)
  have hb : min b k * w ≤ f.length := by rw [hk]; exact Nat.mul_le_mul_right w (Nat.min_le_right _ _)
  have h := aligned_getFrames w hw f ((min a k * w : Nat) : Int) ((min b k * w : Nat) : Int)
    ⟨(min a k : Nat), by rw [Int.natCast_mul, Int.mul_comm]⟩ ⟨(min b k : Nat), by rw [Int.natCast_mul, Int.mul_comm]⟩
    (by omega) (by omega) (by omega) (by omega)
  have e : ∀ c : Nat, (((c * w : Nat) : Int) / (w : Int)).toNat = c := by
    intro c; rw [Int.natCast_mul, Int.mul_ediv_cancel _ (by omega), Int.toNat_natCast]
  rw [e, e, drop_take_min _ a b k hlen] at h
  rw [← h]
  unfold getB slice
  rw [pyClamp_nat w k f hk a, pyClamp_nat w k f hk b, pyClamp_nat w k f hk (min a k), pyClamp_nat w k f hk (min b k)]
  simp [Nat.min_assoc]

theorem pyClamp_aligned (w : Nat) (hw : 0 < w) (n : Nat) (i : Int) (hn : w ∣ n) (hi : (w : Int) ∣ i) :
    ∃ a : Nat, pyClamp n i = a * w ∧ a * w ≤ n := by
  obtain ⟨k, hk⟩ := hn
  unfold pyClamp
  split
  · by_cases h0 : 0 ≤ i + (n : Int)
    · have hd : (w : Int) ∣ i + (n : Int) := Int.dvd_add hi ⟨k, by rw [hk, Int.natCast_mul]⟩
      obtain ⟨a, ha, _⟩ := aligned_index w hw _ hd h0
      exact ⟨a, by rw [ha, Int.toNat_natCast], by omega⟩
    · exact ⟨0, by omega, by omega⟩
  · obtain ⟨a, ha, _⟩ := aligned_index w hw i hi (by omega)
    by_cases hle : i.toNat ≤ n
    · exact ⟨a, by rw [Nat.min_eq_left hle, ha, Int.toNat_natCast], by omega⟩
    · exact ⟨k, by rw [Nat.min_eq_right (by omega), hk, Nat.mul_comm], by rw [hk, Nat.mul_comm]; exact Nat.le_refl _⟩

/-- the frames an edit brings in are whole samples -/
def WholeFrames (w : Nat) : Edit → Prop
  | .ins _ g => w ∣ g.length
  | .rep _ _ g => w ∣ g.length
  | .cat g => w ∣ g.length
  | _ => True

theorem deleteB_whole (w : Nat) (hw : 0 < w) (f : List UInt8) (hf : w ∣ f.length) (i j : Int)
    (hi : (w : Int) ∣ i) (hj : (w : Int) ∣ j) : w ∣ (deleteB f i j).length := by
  obtain ⟨a, ha, hal⟩ := pyClamp_aligned w hw f.length i hf hi
  obtain ⟨b, hb, hbl⟩ := pyClamp_aligned w hw f.length j hf hj
  obtain ⟨k, hk⟩ := hf
  unfold deleteB sliceTo sliceFrom
  simp only [List.length_append, List.length_take, List.length_drop, ha, hb]
  refine ⟨a + (k - b), ?_⟩
  rw [Nat.min_eq_left hal, hk, Nat.mul_add, Nat.mul_sub, Nat.mul_comm w a, Nat.mul_comm w b]

theorem insertB_whole (w : Nat) (f g : List UInt8) (hf : w ∣ f.length) (hg : w ∣ g.length) (i : Int) :
    w ∣ (insertB f i g).length := by
  obtain ⟨k, hk⟩ := hf
  obtain ⟨m, hm⟩ := hg
  unfold insertB sliceTo sliceFrom
  simp only [List.length_append, List.length_take, List.length_drop]
  refine ⟨k + m, ?_⟩
  rw [Nat.mul_add]; omega

theorem getB_whole (w : Nat) (hw : 0 < w) (f : List UInt8) (hf : w ∣ f.length) (i j : Int)
    (hi : (w : Int) ∣ i) (hj : (w : Int) ∣ j) : w ∣ (getB f i j).length := by
  obtain ⟨a, ha, _⟩ := pyClamp_aligned w hw f.length i hf hi
  obtain ⟨b, hb, hbl⟩ := pyClamp_aligned w hw f.length j hf hj
  unfold getB slice
  simp only [List.length_take, List.length_drop, ha, hb]
  refine ⟨b - a, ?_⟩
  rw [Nat.mul_sub, Nat.min_eq_left hbl]
  rw [Nat.mul_comm w b, Nat.mul_comm w a]

/-! ### the same at time level: EVERY time addresses a whole sample inside the recording

Since the repair 3f424d1 (`_getIndexAtTime` clamps the sample index into `[0, number of samples]`) the
following hold for **all** rational times — negative, beyond the end, off the sample grid — with no
window hypothesis; `wv.sampleIndex t` is the boundary nearest to `t` (`sampleIndex_nearest`). -/

/-- **getFrames / getSamples return exactly the samples between the two nearest sample indices** -/
theorem getFramesRaw_samples (wv : Wav) (hwv : Whole wv) (s e : QTime) :
    unpack wv.width (wv.getFramesRaw s e) =
      (wv.samples.drop (wv.sampleIndex s)).take (wv.sampleIndex e - wv.sampleIndex s) := by
  obtain ⟨hw, k, hk⟩ := hwv
  unfold Wav.getFramesRaw Wav.samples
  rw [index_cast, index_cast]
  exact nonneg_getFrames wv.width hw wv.frames k (by rw [hk, Nat.mul_comm]) _ _

/-- **deleteSegment removes exactly those samples; every other sample keeps value and order** -/
theorem deleteSegmentRaw_samples (wv : Wav) (hwv : Whole wv) (s e : QTime) :
    (wv.deleteSegmentRaw s e).samples = wv.samples.take (wv.sampleIndex s) ++ wv.samples.drop (wv.sampleIndex e) := by
  obtain ⟨hw, k, hk⟩ := hwv
  unfold Wav.deleteSegmentRaw Wav.samples
  simp only
  rw [index_cast, index_cast]
  exact nonneg_delete wv.width hw wv.frames k (by rw [hk, Nat.mul_comm]) _ _

/-- **insert places the given frames at the nearest sample boundary; the samples before and after keep
value and order** -/
theorem insert_samples (wv : Wav) (hwv : Whole wv) (t : QTime) (g : List UInt8) (hg : wv.width ∣ g.length) :
    (wv.insert t g).samples =
      wv.samples.take (wv.sampleIndex t) ++ unpack wv.width g ++ wv.samples.drop (wv.sampleIndex t) := by
  obtain ⟨hw, k, hk⟩ := hwv
  unfold Wav.insert Wav.samples
  simp only
  rw [index_cast]
  exact nonneg_insert wv.width hw wv.frames g k (by rw [hk, Nat.mul_comm]) hg _

theorem concatenate_samples (wv : Wav) (hwv : Whole wv) (g : List UInt8) :
    (wv.concatenate g).samples = wv.samples ++ unpack wv.width g := by
  obtain ⟨hw, k, hk⟩ := hwv
  unfold Wav.concatenate Wav.samples
  simp only
  exact unpack_append wv.width k hw _ _ (by rw [hk, Nat.mul_comm])

theorem getSubwavRaw_samples (wv : Wav) (hwv : Whole wv) (s e : QTime) :
    (wv.getSubwavRaw s e).samples =
      (wv.samples.drop (wv.sampleIndex s)).take (wv.sampleIndex e - wv.sampleIndex s) ∧
    (wv.getSubwavRaw s e).width = wv.width ∧ (wv.getSubwavRaw s e).rate = wv.rate :=
  ⟨getFramesRaw_samples wv hwv s e, rfl, rfl⟩

/-- the number of samples after `deleteSegment` -/
theorem deleteSegmentRaw_nsamples (wv : Wav) (hwv : Whole wv) (s e : QTime) :
    (wv.deleteSegmentRaw s e).nsamples = wv.sampleIndex s + (wv.nsamples - wv.sampleIndex e) := by
  have h := congrArg List.length (deleteSegmentRaw_samples wv hwv s e)
  rw [nsamples_samples] at h
  rw [h, List.length_append, List.length_take, List.length_drop, nsamples_samples]
  have := sample_range wv s
  omega

/-- **replaceSegment = the samples before the start, the new samples, the samples after the end** — for every
pair of times that address an ordered pair of boundaries (every `s ≤ e`: `sampleIndex_mono`) -/
theorem replaceSegmentRaw_samples (wv : Wav) (hwv : Whole wv) (s e : QTime)
    (hse : wv.sampleIndex s ≤ wv.sampleIndex e) (g : List UInt8) (hg : wv.width ∣ g.length) :
    (wv.replaceSegmentRaw s e g).samples =
      wv.samples.take (wv.sampleIndex s) ++ unpack wv.width g ++ wv.samples.drop (wv.sampleIndex e) := by
  have hd := deleteSegmentRaw_samples wv hwv s e
  have hw1 : Whole (wv.deleteSegmentRaw s e) :=
    ⟨hwv.1, deleteB_whole _ hwv.1 _ hwv.2 _ _ (index_aligned' _ _) (index_aligned' _ _)⟩
  have hi := insert_samples (wv.deleteSegmentRaw s e) hw1 s g hg
  have hsr := sample_range wv s
  have her := sample_range wv e
  -- the insertion index is the same in the shortened recording
  have hidx : (wv.deleteSegmentRaw s e).sampleIndex s = wv.sampleIndex s := by
    have hn := deleteSegmentRaw_nsamples wv hwv s e
    show clampSample (sampleAtTime s wv.rate) (wv.deleteSegmentRaw s e).nsamples = clampSample (sampleAtTime s wv.rate) wv.nsamples
    rw [hn]
    unfold Wav.sampleIndex clampSample at hse hsr her ⊢
    omega
  have htl : (wv.samples.take (wv.sampleIndex s)).length = wv.sampleIndex s := by
    rw [List.length_take, nsamples_samples]; exact Nat.min_eq_left hsr
  unfold Wav.replaceSegmentRaw
  rw [hi, hd, hidx]
  show List.take (wv.sampleIndex s) (_ ++ _) ++ unpack wv.width g ++ List.drop (wv.sampleIndex s) (_ ++ _) = _
  rw [List.take_left' htl, List.drop_left' htl]

/-! ### the operations as they are called: the time range is validated first (commit 906b45b)

`getFrames`, `getSamples`, `getSubwav`, `deleteSegment`, `replaceSegment` raise `ArgumentError` for a range whose
start lies after its end — before anything is changed (`reversed_rejected`) — and otherwise do what the
theorems above say, for ALL rational times.  `¬ e < s` (i.e. `s ≤ e`) is not a window hypothesis: it is the
condition under which the call returns, and its complement is `reversed_rejected`. -/

/-- **a reversed time range is rejected by every range operation**, whatever the recording (before the repair
`deleteSegment(0.5, 0.25)` duplicated the samples between the two times and `getFrames` was silently empty) -/
theorem reversed_rejected (wv : Wav) (s e : QTime) (g : List UInt8) (h : e < s) :
    wv.getFrames s e = .error .ArgumentError ∧ wv.getSamples s e = .error .ArgumentError ∧
    wv.getSubwav s e = .error .ArgumentError ∧ wv.deleteSegment s e = .error .ArgumentError ∧
    wv.replaceSegment s e g = .error .ArgumentError := by
  have h1 : wv.getFrames s e = .error .ArgumentError := by unfold Wav.getFrames; rw [if_pos h]
  refine ⟨h1, ?_, ?_, ?_, ?_⟩
  · unfold Wav.getSamples; rw [h1]
  · unfold Wav.getSubwav; rw [h1]
  · unfold Wav.deleteSegment; rw [if_pos h]
  · unfold Wav.replaceSegment; rw [if_pos h]

theorem getFrames_ok (wv : Wav) (s e : QTime) (h : ¬ e < s) : wv.getFrames s e = .ok (wv.getFramesRaw s e) := by
  unfold Wav.getFrames; rw [if_neg h]

/-- **getFrames returns exactly the samples between the two nearest sample indices** — every `s ≤ e` -/
theorem getFrames_samples (wv : Wav) (hwv : Whole wv) (s e : QTime) (h : ¬ e < s) :
    ∃ fr, wv.getFrames s e = .ok fr ∧
      unpack wv.width fr = (wv.samples.drop (wv.sampleIndex s)).take (wv.sampleIndex e - wv.sampleIndex s) :=
  ⟨_, getFrames_ok wv s e h, getFramesRaw_samples wv hwv s e⟩

/-- the frames returned are whole samples, so `getSamples` never raises `struct.error` -/
theorem getSamples_ok (wv : Wav) (hwv : Whole wv) (hk : knownWidth wv.width = true) (s e : QTime) (h : ¬ e < s) :
    wv.getSamples s e = .ok ((wv.samples.drop (wv.sampleIndex s)).take (wv.sampleIndex e - wv.sampleIndex s)) := by
  have hlen : (wv.getFramesRaw s e).length % wv.width = 0 :=
    Nat.mod_eq_zero_of_dvd (getB_whole _ hwv.1 _ hwv.2 _ _ (index_aligned' _ _) (index_aligned' _ _))
  unfold Wav.getSamples
  rw [getFrames_ok wv s e h]
  simp only
  unfold convertFromBytes
  rw [← getFramesRaw_samples wv hwv s e]
  simp [hk, hlen]

/-- **deleteSegment removes exactly those samples; every other sample keeps value and order** — every `s ≤ e` -/
theorem deleteSegment_samples (wv : Wav) (hwv : Whole wv) (s e : QTime) (h : ¬ e < s) :
    ∃ w', wv.deleteSegment s e = .ok w' ∧ w'.width = wv.width ∧ w'.rate = wv.rate ∧
      w'.samples = wv.samples.take (wv.sampleIndex s) ++ wv.samples.drop (wv.sampleIndex e) :=
  ⟨wv.deleteSegmentRaw s e, by unfold Wav.deleteSegment; rw [if_neg h], rfl, rfl, deleteSegmentRaw_samples wv hwv s e⟩

theorem getSubwav_samples (wv : Wav) (hwv : Whole wv) (s e : QTime) (h : ¬ e < s) :
    ∃ w', wv.getSubwav s e = .ok w' ∧ w'.width = wv.width ∧ w'.rate = wv.rate ∧
      w'.samples = (wv.samples.drop (wv.sampleIndex s)).take (wv.sampleIndex e - wv.sampleIndex s) :=
  ⟨wv.getSubwavRaw s e, by unfold Wav.getSubwav; rw [getFrames_ok wv s e h]; rfl, rfl, rfl, getFramesRaw_samples wv hwv s e⟩

/-- `¬ e < s` is `s ≤ e` -/
theorem not_lt_iff_le (s e : QTime) : (¬ e < s) ↔ s ≤ e := by
  show (¬ e.num * s.den < s.num * e.den) ↔ s.num * e.den ≤ e.num * s.den
  omega

/-- **replaceSegment = the samples before the start, the new samples, the samples after the end** — every `s ≤ e` -/
theorem replaceSegment_samples (wv : Wav) (hwv : Whole wv) (s e : QTime) (hs : 0 < s.den) (he : 0 < e.den)
    (h : ¬ e < s) (g : List UInt8) (hg : wv.width ∣ g.length) :
    ∃ w', wv.replaceSegment s e g = .ok w' ∧ w'.width = wv.width ∧ w'.rate = wv.rate ∧
      w'.samples = wv.samples.take (wv.sampleIndex s) ++ unpack wv.width g ++ wv.samples.drop (wv.sampleIndex e) :=
  ⟨wv.replaceSegmentRaw s e g, by unfold Wav.replaceSegment; rw [if_neg h], rfl, rfl,
    replaceSegmentRaw_samples wv hwv s e (sampleIndex_mono wv s e hs he ((not_lt_iff_le s e).1 h)) g hg⟩

/-! ### histories: every state of every history is made of whole samples, for arbitrary times -/

/-- **every edit that returns maps whole-sample recordings to whole-sample recordings, whatever the times**
(negative, beyond the end, off the sample grid); an edit that raises changes nothing -/
theorem edit_whole (wv : Wav) (hwv : Whole wv) (e : Edit) (he : WholeFrames wv.width e) (w' : Wav)
    (hok : e.apply wv = .ok w') : Whole w' ∧ w'.width = wv.width ∧ w'.rate = wv.rate := by
  obtain ⟨hw, hf⟩ := hwv
  cases e with
  | ins t g =>
    simp only [Edit.apply, Except.ok.injEq] at hok; subst hok
    exact ⟨⟨hw, insertB_whole _ _ _ hf he _⟩, rfl, rfl⟩
  | del s e =>
    simp only [Edit.apply, Wav.deleteSegment] at hok
    split at hok
    · cases hok
    · simp only [Except.ok.injEq] at hok; subst hok
      exact ⟨⟨hw, deleteB_whole _ hw _ hf _ _ (index_aligned' _ _) (index_aligned' _ _)⟩, rfl, rfl⟩
  | rep s e g =>
    simp only [Edit.apply, Wav.replaceSegment] at hok
    split at hok
    · cases hok
    · simp only [Except.ok.injEq] at hok; subst hok
      exact ⟨⟨hw, insertB_whole _ _ _ (deleteB_whole _ hw _ hf _ _ (index_aligned' _ _) (index_aligned' _ _)) he _⟩, rfl, rfl⟩
  | cat g =>
    simp only [Edit.apply, Except.ok.injEq] at hok; subst hok
    obtain ⟨k, hk⟩ := hf
    obtain ⟨m, hm⟩ := he
    refine ⟨⟨hw, k + m, ?_⟩, rfl, rfl⟩
    show (wv.frames ++ g).length = wv.width * (k + m)
    rw [List.length_append, Nat.mul_add]; omega
  | sub s e =>
    simp only [Edit.apply, Wav.getSubwav, Wav.getFrames] at hok
    by_cases hrev : e < s
    · rw [if_pos hrev] at hok; cases hok
    · rw [if_neg hrev] at hok
      simp only [Except.ok.injEq] at hok; subst hok
      exact ⟨⟨hw, getB_whole _ hw _ hf _ _ (index_aligned' _ _) (index_aligned' _ _)⟩, rfl, rfl⟩

theorem history_whole (wv : Wav) (hwv : Whole wv) (es : List Edit) (he : ∀ e ∈ es, WholeFrames wv.width e) :
    ∀ x ∈ (runEdits wv es).1, Whole x ∧ x.width = wv.width ∧ x.rate = wv.rate := by
  induction es generalizing wv with
  | nil => intro x hx; simp [runEdits] at hx
  | cons e es ih =>
    intro x hx
    unfold runEdits at hx
    cases hap : e.apply wv with
    | error err => rw [hap] at hx; simp at hx
    | ok w' =>
      rw [hap] at hx
      have h1 := edit_whole wv hwv e (he e (by simp)) w' hap
      simp only [List.mem_cons] at hx
      rcases hx with rfl | hx
      · exact h1
      · have := ih w' h1.1 (fun e' he' => by rw [h1.2.1]; exact he e' (by simp [he'])) x hx
        exact ⟨this.1, by rw [this.2.1, h1.2.1], by rw [this.2.2, h1.2.2]⟩

/-- a history stops at the first edit that raises; the only exception an edit raises is the `ArgumentError` of a
reversed range -/
theorem edit_error (wv : Wav) (e : Edit) (err : AErr) (h : e.apply wv = .error err) :
    err = .ArgumentError ∧ ∃ s t, t < s ∧ ((∃ g, e = .rep s t g) ∨ e = .del s t ∨ e = .sub s t) := by
  cases e with
  | ins t g => cases h
  | cat g => cases h
  | del s t =>
    simp only [Edit.apply, Wav.deleteSegment] at h
    split at h
    · cases h; exact ⟨rfl, s, t, by assumption, Or.inr (Or.inl rfl)⟩
    · cases h
  | rep s t g =>
    simp only [Edit.apply, Wav.replaceSegment] at h
    split at h
    · cases h; exact ⟨rfl, s, t, by assumption, Or.inl ⟨g, rfl⟩⟩
    · cases h
  | sub s t =>
    simp only [Edit.apply, Wav.getSubwav, Wav.getFrames] at h
    by_cases hrev : t < s
    · rw [if_pos hrev] at h; cases h; exact ⟨rfl, s, t, hrev, Or.inr (Or.inr rfl)⟩
    · rw [if_neg hrev] at h; cases h

/-- hence `getSamples` / `convertFromBytes` never meet a ragged byte string in a history -/
theorem whole_convert_ok (wv : Wav) (hwv : Whole wv) (hk : knownWidth wv.width = true) :
    convertFromBytes wv.frames wv.width = .ok wv.samples := by
  obtain ⟨hw, k, hk'⟩ := hwv
  unfold convertFromBytes Wav.samples
  have : wv.frames.length % wv.width = 0 := by rw [hk']; exact Nat.mul_mod_right _ _
  simp [hk, this]

/-! ## 5. insert, then delete the same stretch -/

/-- byte level: for an insertion point inside the byte string, deleting `[i, i + |g|)` after inserting
`g` at `i` restores the byte string — no alignment needed -/
theorem insert_delete_inverse_bytes (f g : List UInt8) (i : Int) (h0 : 0 ≤ i) (h1 : i ≤ f.length) :
    deleteB (insertB f i g) i (i + g.length) = f := by
  have hc : i.toNat ≤ f.length := by omega
  have hlen : (insertB f i g).length = f.length + g.length := by
    unfold insertB sliceTo sliceFrom
    simp only [List.length_append, List.length_take, List.length_drop]; omega
  unfold deleteB sliceTo sliceFrom
  rw [hlen, pyClamp_of_range _ _ h0 (by omega), pyClamp_of_range _ _ (by omega) (by omega)]
  unfold insertB sliceTo sliceFrom
  rw [pyClamp_of_range _ _ h0 h1]
  have hl1 : (f.take i.toNat).length = i.toNat := by rw [List.length_take]; omega
  have hl2 : (f.take i.toNat ++ g).length = (i + (g.length : Int)).toNat := by
    rw [List.length_append, hl1]; omega
  rw [List.append_assoc, List.take_left' hl1, ← List.append_assoc, List.drop_left' hl2, List.take_append_drop]

/-- beyond the end of the byte string Python's clamping breaks the byte-level inverse
(`insert` appends, `deleteSegment` then cuts nothing of the appended bytes) — outside `[0, duration]` -/
theorem insert_delete_bytes_beyond_end :
    deleteB (insertB [1, 2] 5 [9]) 5 (5 + 1) = [1, 2, 9] := by decide

/-- an index that needs no clamping at the end is the same index in every recording that is at least as long -/
theorem index_stable (wv wv' : Wav) (hw : wv'.width = wv.width) (hr : wv'.rate = wv.rate)
    (hn : wv.nsamples ≤ wv'.nsamples) (t : QTime) (ht : sampleAtTime t wv.rate ≤ wv.nsamples) :
    wv'.index t = wv.index t := by
  rw [index_cast, index_cast, hw]
  have : wv'.sampleIndex t = wv.sampleIndex t := by
    unfold Wav.sampleIndex clampSample; rw [hr]; omega
  rw [this]

theorem insert_nsamples_le (wv : Wav) (t : QTime) (g : List UInt8) : wv.nsamples ≤ (wv.insert t g).nsamples := by
  have hlen : (wv.insert t g).frames.length = wv.frames.length + g.length := by
    unfold Wav.insert insertB sliceTo sliceFrom
    simp only [List.length_append, List.length_take, List.length_drop]; omega
  unfold Wav.nsamples
  rw [hlen]
  exact Nat.div_le_div_right (by omega)

/-- **time level**: inserting `g` at `t` and deleting from `t` to any end time whose index (in the lengthened
recording) is `index t + |g|` restores the recording exactly — for every `t` that is not beyond the end; no
hypothesis on the recording -/
theorem insert_delete_inverse (wv : Wav) (t e : QTime) (g : List UInt8)
    (ht : sampleAtTime t wv.rate ≤ wv.nsamples) (hte : ¬ e < t)
    (h : (wv.insert t g).index e = wv.index t + g.length) :
    (wv.insert t g).deleteSegment t e = .ok wv := by
  have ⟨a0, a1⟩ := index_range wv t
  have h1 : (wv.insert t g).index t = wv.index t :=
    index_stable wv (wv.insert t g) rfl rfl (insert_nsamples_le wv t g) t ht
  unfold Wav.deleteSegment
  rw [if_neg hte]
  unfold Wav.deleteSegmentRaw
  rw [h1, h]
  show Except.ok ({ wv with frames := deleteB (insertB wv.frames (wv.index t) g) (wv.index t) (wv.index t + g.length) } : Wav) = .ok wv
  rw [insert_delete_inverse_bytes _ _ _ a0 a1]

/-- the same with the end time written as `t + len(g)/rate/width`; the index hypothesis is explicit
because round-half-to-even does not commute with adding an odd number of samples at a half-sample time -/
theorem insert_delete_inverse_dur (wv : Wav) (hwv : Whole wv) (t : QTime) (ht : InDur wv t) (g : List UInt8)
    (h : (wv.insert t g).index (t + wv.durOf g) = wv.index t + g.length) :
    (wv.insert t g).deleteSegment t (t + wv.durOf g) = .ok wv := by
  have hte : ¬ (t + wv.durOf g) < t := by
    show ¬ ((t.num * ((wv.rate * wv.width : Nat) : Int) + ((g.length : Nat) : Int) * t.den) * t.den
      < t.num * ((t.den * (wv.rate * wv.width) : Nat) : Int))
    have h0 : (0 : Int) ≤ ((g.length : Nat) : Int) * t.den * t.den :=
      Int.mul_nonneg (Int.mul_nonneg (by omega) (by omega)) (by omega)
    rw [Int.natCast_mul t.den]
    generalize ((wv.rate * wv.width : Nat) : Int) = D at *
    have e1 : (t.num * D + ((g.length : Nat) : Int) * t.den) * t.den
        = t.num * ((t.den : Int) * D) + ((g.length : Nat) : Int) * t.den * t.den := by grind
    rw [e1]; omega
  exact insert_delete_inverse wv t _ g (sampleAtTime_range wv hwv t ht).2 hte h

/-- the recording of the counter-examples: 8 one-byte samples at 8 Hz -/
def exWav : Wav := ⟨1, 8, [1, 2, 3, 4, 5, 6, 7, 8]⟩

/-- **the index hypothesis can fail** (DESIGN §5 A15): rate 8, `t = 0.3125 = 2.5` samples, one sample
inserted — `round(2.5) = 2` but `round(3.5) = 4` -/
theorem insert_delete_index_counterexample :
    (exWav.insert ⟨5, 16⟩ [77]).index ((⟨5, 16⟩ : QTime) + exWav.durOf [77]) = 4 ∧ exWav.index ⟨5, 16⟩ + 1 = 3 := by decide

/-- … and then the original is **not** restored: two samples are deleted -/
theorem insert_delete_time_counterexample :
    (exWav.insert ⟨5, 16⟩ [77]).deleteSegment ⟨5, 16⟩ ((⟨5, 16⟩ : QTime) + exWav.durOf [77])
      = .ok ⟨1, 8, [1, 2, 4, 5, 6, 7, 8]⟩ ∧
    InDur exWav ⟨5, 16⟩ ∧ Whole exWav := by decide

/-! ## 6. duration -/

/-- `duration = len(frames) / frameRate / sampleWidth` -/
theorem duration_def (wv : Wav) : wv.duration = ⟨wv.frames.length, wv.rate * wv.width⟩ := rfl

/-- **duration = sample count / frame rate** (as rational values) -/
theorem duration_samples (wv : Wav) (hwv : Whole wv) : QTime.eqv wv.duration ⟨wv.nsamples, wv.rate⟩ := by
  obtain ⟨hw, k, hk⟩ := hwv
  have hns : wv.nsamples = k := by unfold Wav.nsamples; rw [hk, Nat.mul_div_cancel_left _ hw]
  unfold QTime.eqv Wav.duration
  simp only [hns, hk, Int.natCast_mul]
  grind

/-! ## 6b. times outside the recording, and a start after the end

Before the repair 3f424d1 a negative time became a negative Python slice bound (counted from the END of the
frames: `getSamples(-0.5, 0.5)` was empty, `deleteSegment(-0.5, 0.25)` made the recording LONGER, `insert(-0.25, x)`
landed before the last samples) and QueryWav raised `wave.Error`.  Now every time addresses the nearest sample
boundary of the recording: `sampleIndex_nonpos`, `sampleIndex_beyond`, and the theorems of section 4 carry no
window hypothesis.  The three theorems below are the old counter-examples, replayed on the repaired code. -/

/-- the window `[-0.25 s, 1 s]` of the 1-second recording `exWav` is the whole recording, the window
`[-0.25 s, 0.5 s]` its first four samples, a window beyond the end is empty, and the window `[0.25 s, -0.25 s]`,
whose end lies before its start, is rejected -/
theorem getFrames_negative_clamped :
    exWav.getFrames ⟨-1, 4⟩ ⟨1, 1⟩ = .ok [1, 2, 3, 4, 5, 6, 7, 8] ∧ exWav.getFrames ⟨-1, 4⟩ ⟨1, 2⟩ = .ok [1, 2, 3, 4] ∧
    exWav.getFrames ⟨1, 4⟩ ⟨-1, 4⟩ = .error .ArgumentError ∧ exWav.getFrames ⟨3, 4⟩ ⟨9, 1⟩ = .ok [7, 8] ∧
    exWav.getFrames ⟨3, 1⟩ ⟨9, 1⟩ = .ok [] := by
  decide

/-- `deleteSegment(-0.25, 0.5)` removes the first four samples (it used to return a recording of 10 samples) -/
theorem deleteSegment_negative_clamped :
    exWav.deleteSegment ⟨-1, 4⟩ ⟨1, 2⟩ = .ok ⟨1, 8, [5, 6, 7, 8]⟩ ∧
    exWav.deleteSegment ⟨1, 2⟩ ⟨9, 1⟩ = .ok ⟨1, 8, [1, 2, 3, 4]⟩ := by decide

/-- `insert` at a negative time inserts at the start, beyond the end it appends -/
theorem insert_negative_clamped :
    (exWav.insert ⟨-1, 4⟩ [77]).frames = [77, 1, 2, 3, 4, 5, 6, 7, 8] ∧
    (exWav.insert ⟨9, 1⟩ [77]).frames = [1, 2, 3, 4, 5, 6, 7, 8, 77] := by decide

/-- **a start after the end — regression** (defect C16-3, repaired by 906b45b).  `deleteSegment(0.5, 0.25)` used to
remove nothing and *duplicate* the samples between the two times (`frames[:4] + frames[2:]`: 8 samples before, 10
after), `replaceSegment` likewise, `getFrames` was silently empty; all three now raise `ArgumentError` and the
recording is untouched (the general statement: `reversed_rejected`) -/
theorem reversed_regression :
    exWav.deleteSegment ⟨1, 2⟩ ⟨1, 4⟩ = .error .ArgumentError ∧
    exWav.replaceSegment ⟨1, 2⟩ ⟨1, 4⟩ [77] = .error .ArgumentError ∧
    exWav.getFrames ⟨1, 2⟩ ⟨1, 4⟩ = .error .ArgumentError ∧ exWav.getSamples ⟨1, 2⟩ ⟨-1, 4⟩ = .error .ArgumentError ∧
    QueryWav.getSamples ⟨1, 8, [1, 2, 3, 4, 5, 6, 7, 8]⟩ (some ⟨1, 2⟩) (some ⟨-1, 4⟩) = .error .ArgumentError ∧
    (runEdits exWav [.del ⟨1, 4⟩ ⟨1, 2⟩, .del ⟨1, 2⟩ ⟨1, 4⟩, .cat [9]]) = ([⟨1, 8, [1, 2, 5, 6, 7, 8]⟩], some .ArgumentError) ∧
    InDur exWav ⟨1, 2⟩ ∧ InDur exWav ⟨1, 4⟩ ∧ Whole exWav := by decide

/-- nothing is ever duplicated: a `deleteSegment` that returns removes exactly the samples between the two
boundaries (the recording never gets longer) -/
theorem deleteSegment_ordered_length (wv : Wav) (hwv : Whole wv) (s e : QTime) (hs : 0 < s.den) (he : 0 < e.den)
    (h : ¬ e < s) :
    ∃ w', wv.deleteSegment s e = .ok w' ∧
      w'.samples.length = wv.samples.length - (wv.sampleIndex e - wv.sampleIndex s) ∧
      wv.sampleIndex s ≤ wv.sampleIndex e := by
  obtain ⟨w', h1, _, _, h4⟩ := deleteSegment_samples wv hwv s e h
  have hse := sampleIndex_mono wv s e hs he ((not_lt_iff_le s e).1 h)
  refine ⟨w', h1, ?_, hse⟩
  rw [h4, List.length_append, List.length_take, List.length_drop, nsamples_samples]
  have := sample_range wv s
  have := sample_range wv e
  omega

/-! ## 7. the file round trip over the abstract file -/

theorem roundHalfEven_zero (den : Nat) (h : 0 < den) : roundHalfEven 0 den = 0 := by
  have := roundHalfEven_exact 0 den h
  rwa [Int.zero_mul] at this

/-- reading from 0 to the file's duration returns the whole frames of the data chunk -/
theorem read_all (f : WavFile) (hr : 0 < f.rate) :
    readFramesAtTime f QTime.zero f.duration = .ok (f.data.take (f.nframes * f.width)) := by
  unfold readFramesAtTime
  have e1 : roundHalfEven ((f.rate : Int) * QTime.zero.num) QTime.zero.den = 0 := by
    show roundHalfEven ((f.rate : Int) * 0) 1 = 0
    rw [Int.mul_zero]; exact roundHalfEven_zero 1 (by omega)
  have e2 : roundHalfEven ((f.rate : Int) * f.duration.num) f.duration.den = f.nframes := by
    show roundHalfEven ((f.rate : Int) * (f.nframes : Int)) f.rate = f.nframes
    rw [Int.mul_comm]
    exact roundHalfEven_exact _ _ hr
  have c1 : clampSample 0 f.nframes = 0 := clampSample_nonpos _ _ (by omega)
  have c2 : clampSample (f.nframes : Int) f.nframes = f.nframes := clampSample_beyond _ _ (by omega)
  simp only [e1, e2, c1, c2]
  unfold WavFile.readAt
  have hneg : ¬ (((0 : Nat) : Int) < 0 ∨ (f.nframes : Int) < ((0 : Nat) : Int)) := by omega
  rw [if_neg hneg]
  have hmax : max ((f.nframes : Int) - ((0 : Nat) : Int)) 0 = f.nframes := by omega
  rw [hmax]
  by_cases hz : f.nframes = 0
  · simp [hz]
  · have h2 : ¬ ((f.nframes : Int) < 0) := by omega
    simp [hz, h2]

theorem open_file (f : WavFile) (hr : 0 < f.rate) :
    Wav.open f = .ok ⟨f.width, f.rate, f.data.take (f.nframes * f.width)⟩ := by
  unfold Wav.open; rw [read_all f hr]

/-- **save then open returns the same recording**: same width, rate and frames -/
theorem save_open_roundtrip (wv : Wav) (hw1 : 1 ≤ wv.width) (hw4 : wv.width ≤ 4) (hr : 0 < wv.rate)
    (hal : wv.width ∣ wv.frames.length) : (wv.save >>= Wav.open) = .ok wv := by
  have hs : wv.save = .ok ⟨wv.width, wv.rate, wv.frames⟩ := by
    unfold Wav.save
    rw [if_neg (by omega), if_neg (by omega)]
  rw [hs]
  show Wav.open ⟨wv.width, wv.rate, wv.frames⟩ = .ok wv
  rw [open_file _ hr]
  obtain ⟨k, hk⟩ := hal
  have : (WavFile.mk wv.width wv.rate wv.frames).nframes * wv.width = wv.frames.length := by
    unfold WavFile.nframes
    simp only
    rw [hk, Nat.mul_div_cancel_left _ (by omega), Nat.mul_comm]
  simp only [this, List.take_length]

/-- for a ragged byte string `wave` drops the trailing partial sample; the samples survive anyway -/
theorem save_open_samples (wv : Wav) (hw1 : 1 ≤ wv.width) (hw4 : wv.width ≤ 4) (hr : 0 < wv.rate) :
    ∃ back, (wv.save >>= Wav.open) = .ok back ∧ back.samples = wv.samples ∧
      back.width = wv.width ∧ back.rate = wv.rate := by
  have hs : wv.save = .ok ⟨wv.width, wv.rate, wv.frames⟩ := by
    unfold Wav.save
    rw [if_neg (by omega), if_neg (by omega)]
  refine ⟨⟨wv.width, wv.rate, wv.frames.take (wv.frames.length / wv.width * wv.width)⟩, ?_, ?_, rfl, rfl⟩
  · rw [hs]; exact open_file ⟨wv.width, wv.rate, wv.frames⟩ hr
  · unfold Wav.samples
    simp only
    rw [unpack_take _ _ (by omega) _ (Nat.div_mul_le_self _ _)]
    exact List.take_of_length_le (by rw [unpack_length]; exact Nat.le_refl _)

/-- **QueryWav over the saved file yields the same samples** -/
theorem query_all (f : WavFile) (hr : 0 < f.rate) (hw : 0 < f.width) (hk : knownWidth f.width = true) :
    QueryWav.getSamples f none none = .ok (unpack f.width f.data) := by
  unfold QueryWav.getSamples QueryWav.getFrames
  simp only [Option.getD_none]
  have hnr : ¬ f.duration < QTime.zero := by
    show ¬ ((f.nframes : Int) * ((1 : Nat) : Int) < (0 : Int) * (f.rate : Int)); omega
  rw [if_neg hnr, read_all f hr]
  simp only
  unfold convertFromBytes
  have hle : f.nframes * f.width ≤ f.data.length := Nat.div_mul_le_self _ _
  have hu : unpack f.width (f.data.take (f.nframes * f.width)) = unpack f.width f.data := by
    rw [unpack_take _ _ hw _ hle]
    exact List.take_of_length_le (by rw [unpack_length]; exact Nat.le_refl _)
  have hl' : min (f.nframes * f.width) f.data.length % f.width = 0 := by
    rw [Nat.min_eq_left hle]; exact Nat.mul_mod_left _ _
  simp [hk, hl', hu]

/-- **`readFramesAtTime` (the reader behind QueryWav, extractSubwav) and the slice `Wav.getFramesRaw` behind `Wav.getFrames` return the same bytes for EVERY pair of
times** — negative, beyond the end of the file, on or off the sample grid, end before start (both empty),
ragged data chunk included — and `readFramesAtTime` never raises (`setpos` always gets a position inside the
file).  No hypothesis.  (Since the repairs fedc16f — both round *both* ends — and 3f424d1 — both clamp the
frame index into `[0, nframes]`; before, QueryWav raised `wave.Error` where Wav wrapped around.) -/
theorem query_eq_wav (f : WavFile) (s e : QTime) :
    readFramesAtTime f s e = .ok (Wav.getFramesRaw ⟨f.width, f.rate, f.data⟩ s e) := by
  have p0 : roundHalfEven ((f.rate : Int) * s.num) s.den = sampleAtTime s f.rate := by
    unfold sampleAtTime; rw [Int.mul_comm]
  have p1 : roundHalfEven ((f.rate : Int) * e.num) e.den = sampleAtTime e f.rate := by
    unfold sampleAtTime; rw [Int.mul_comm]
  have hAn : clampSample (sampleAtTime s f.rate) f.nframes ≤ f.nframes := clampSample_le _ _
  generalize hA : clampSample (sampleAtTime s f.rate) f.nframes = A at hAn
  have hlen : f.nframes * f.width ≤ f.data.length := Nat.div_mul_le_self _ _
  have hAw : A * f.width ≤ f.data.length := Nat.le_trans (Nat.mul_le_mul_right _ hAn) hlen
  unfold readFramesAtTime
  simp only [p0, p1, hA]
  generalize hB : clampSample (sampleAtTime e f.rate) f.nframes = B
  unfold WavFile.readAt
  rw [if_neg (by omega)]
  unfold Wav.getFramesRaw getB slice Wav.index indexAtTime Wav.nsamples
  simp only
  have hA' : clampSample (sampleAtTime s f.rate) (f.data.length / f.width) = A := hA
  have hB' : clampSample (sampleAtTime e f.rate) (f.data.length / f.width) = B := hB
  rw [hA', hB', pyClamp_of_range _ _ (by omega) (by omega)]
  have hcl : pyClamp f.data.length ((B * f.width : Nat) : Int) = min (B * f.width) f.data.length := by
    unfold pyClamp; rw [if_neg (by omega), Int.toNat_natCast]
  rw [hcl]
  simp only [Int.toNat_natCast]
  have htake : f.data.take (min (B * f.width) f.data.length) = f.data.take (B * f.width) := by
    by_cases h : B * f.width ≤ f.data.length
    · rw [Nat.min_eq_left h]
    · rw [Nat.min_eq_right (by omega), List.take_of_length_le (Nat.le_refl _), List.take_of_length_le (by omega)]
  rw [htake, List.drop_take, ← Nat.sub_mul]
  by_cases hle : B ≤ A
  · have hm : max ((B : Int) - (A : Int)) 0 = 0 := by omega
    have hz : B - A = 0 := by omega
    simp [hm, hz]
  · have hm : max ((B : Int) - (A : Int)) 0 = ((B - A : Nat) : Int) := by omega
    have h1' : ¬ (B - A = 0) := by omega
    have h2' : ¬ (((B - A : Nat) : Int) < 0) := by omega
    rw [hm]
    simp [h1', h2']

/-- the old counter-examples on the repaired code: a negative end time and a start outside the file.
The reversed window `[0.25 s, -0.25 s]` is rejected by `Wav.getFrames` and by `QueryWav.getFrames` alike (Wav used to
return samples 3..6, QueryWav nothing; the bare `readFramesAtTime` reads nothing), the window `[-0.25 s, 0.5 s]` holds
the first four samples in both (QueryWav used to raise `wave.Error`), a window beyond the end is empty. -/
theorem query_outside_clamped :
    readFramesAtTime ⟨1, 8, [1, 2, 3, 4, 5, 6, 7, 8]⟩ ⟨1, 4⟩ ⟨-1, 4⟩ = .ok [] ∧
    Wav.getFrames ⟨1, 8, [1, 2, 3, 4, 5, 6, 7, 8]⟩ ⟨1, 4⟩ ⟨-1, 4⟩ = .error .ArgumentError ∧
    QueryWav.getFrames ⟨1, 8, [1, 2, 3, 4, 5, 6, 7, 8]⟩ (some ⟨1, 4⟩) (some ⟨-1, 4⟩) = .error .ArgumentError ∧
    readFramesAtTime ⟨1, 8, [1, 2, 3, 4, 5, 6, 7, 8]⟩ ⟨-1, 4⟩ ⟨1, 2⟩ = .ok [1, 2, 3, 4] ∧
    Wav.getFrames ⟨1, 8, [1, 2, 3, 4, 5, 6, 7, 8]⟩ ⟨-1, 4⟩ ⟨1, 2⟩ = .ok [1, 2, 3, 4] ∧
    QueryWav.getFrames ⟨1, 8, [1, 2, 3, 4, 5, 6, 7, 8]⟩ (some ⟨-1, 4⟩) (some ⟨1, 2⟩) = .ok [1, 2, 3, 4] ∧
    readFramesAtTime ⟨1, 8, [1, 2, 3]⟩ ⟨2, 1⟩ ⟨3, 1⟩ = .ok [] := by decide

/-- **QueryWav.getFrames = Wav.getFrames for every pair of times**: the same bytes, or the same `ArgumentError` for a
reversed range -/
theorem query_frames_eq_wav (f : WavFile) (s e : QTime) :
    QueryWav.getFrames f (some s) (some e) = Wav.getFrames ⟨f.width, f.rate, f.data⟩ s e := by
  unfold QueryWav.getFrames Wav.getFrames
  simp only [Option.getD_some]
  by_cases h : e < s
  · rw [if_pos h, if_pos h]
  · rw [if_neg h, if_neg h, query_eq_wav f s e]

/-- hence **QueryWav.getSamples = Wav.getSamples** on every window (same samples or the same
`struct.error` / `KeyError`) -/
theorem query_samples_eq_wav (f : WavFile) (s e : QTime) :
    QueryWav.getSamples f (some s) (some e) = Wav.getSamples ⟨f.width, f.rate, f.data⟩ s e := by
  unfold QueryWav.getSamples QueryWav.getFrames Wav.getSamples Wav.getFrames
  simp only [Option.getD_some]
  by_cases h : e < s
  · rw [if_pos h, if_pos h]
  · rw [if_neg h, if_neg h, query_eq_wav f s e]

/-- **QueryWav rejects a reversed range like Wav** (`_validateTimeRange` after the `None` defaults: a start after
the end of the file with `endTime=None` is a reversed range too) -/
theorem query_reversed_rejected (f : WavFile) (s e : Option QTime) (h : e.getD f.duration < s.getD QTime.zero) :
    QueryWav.getFrames f s e = .error .ArgumentError ∧ QueryWav.getSamples f s e = .error .ArgumentError := by
  have h1 : QueryWav.getFrames f s e = .error .ArgumentError := by unfold QueryWav.getFrames; rw [if_pos h]
  exact ⟨h1, by unfold QueryWav.getSamples; rw [h1]⟩

/-- with `endTime=None` QueryWav reads from the start frame to the end of the file: nothing is dropped — for
every start time that is not after the end of the file (that one is a reversed range: `query_reversed_rejected`) -/
theorem query_to_end (f : WavFile) (hr : 0 < f.rate) (s : QTime) (hsd : ¬ f.duration < s) :
    QueryWav.getFrames f (some s) none
      = .ok ((f.data.take (f.nframes * f.width)).drop (clampSample (sampleAtTime s f.rate) f.nframes * f.width)) := by
  have hlen : f.nframes * f.width ≤ f.data.length := Nat.div_mul_le_self _ _
  have hB : sampleAtTime f.duration f.rate = f.nframes := by
    show roundHalfEven ((f.nframes : Int) * (f.rate : Int)) f.rate = f.nframes
    exact roundHalfEven_exact _ _ hr
  unfold QueryWav.getFrames
  simp only [Option.getD_some, Option.getD_none]
  rw [if_neg hsd, query_eq_wav f s f.duration]
  unfold Wav.getFramesRaw getB slice Wav.index indexAtTime Wav.nsamples
  simp only [hB]
  have hAn : clampSample (sampleAtTime s f.rate) f.nframes ≤ f.nframes := clampSample_le _ _
  have c2 : clampSample (f.nframes : Int) f.nframes = f.nframes := clampSample_beyond _ _ (by omega)
  show _ = Except.ok ((f.data.take (f.nframes * f.width)).drop (clampSample (sampleAtTime s f.rate) f.nframes * f.width))
  have hn : f.data.length / f.width = f.nframes := rfl
  rw [hn, c2]
  generalize clampSample (sampleAtTime s f.rate) f.nframes = A at hAn
  have hAw : A * f.width ≤ f.nframes * f.width := Nat.mul_le_mul_right _ hAn
  rw [pyClamp_of_range _ _ (by omega) (by omega), pyClamp_of_range _ _ (by omega) (by omega)]
  simp only [Int.toNat_natCast]

/-- regression (C16-R1, fixed by fedc16f): the two windows on which the unrepaired
`readFramesAtTime` ended one sample early -/
theorem query_regression :
    readFramesAtTime ⟨1, 8, [1, 2, 3, 4, 5, 6, 7, 8, 9]⟩ ⟨1, 16⟩ ⟨13, 64⟩ = .ok [1, 2] ∧
    QueryWav.getFrames ⟨1, 8, [1, 2, 3, 4, 5, 6, 7, 8, 9]⟩ (some ⟨5, 16⟩) none = .ok [3, 4, 5, 6, 7, 8, 9] := by
  decide

/-! ### the excluded cases of the round-trip statements are errors, not silent damage -/

/-- `wave` accepts sample widths 1..4 and positive frame rates only: `Wav.save` raises `wave.Error`
otherwise (so width 8, a key of `sampleWidthDict`, cannot be saved) -/
theorem save_rejects (wv : Wav) (h : wv.width < 1 ∨ 4 < wv.width ∨ wv.rate = 0) : wv.save = .error .WaveError := by
  unfold Wav.save
  by_cases h1 : wv.width < 1 ∨ 4 < wv.width
  · rw [if_pos h1]
  · rw [if_neg h1, if_pos (by omega)]

/-- a sample outside the width's range is rejected by `struct.pack` (`struct.error`) -/
theorem convert_out_of_range (w : Nat) (hk : knownWidth w = true) (xs : List Int) (hx : ∃ x ∈ xs, ¬ InRange w x) :
    convertToBytes xs w = .error .StructError := by
  unfold convertToBytes
  have : xs.all (fun x => decide (InRange w x)) = false := by
    obtain ⟨x, hx, hn⟩ := hx
    rw [List.all_eq_false]
    exact ⟨x, hx, by simpa using hn⟩
  simp [hk, this]

/-- a byte string that does not hold whole samples is rejected by `struct.unpack` (`struct.error`) -/
theorem convert_ragged (w : Nat) (hk : knownWidth w = true) (bs : List UInt8) (h : ¬ w ∣ bs.length) :
    convertFromBytes bs w = .error .StructError := by
  unfold convertFromBytes
  have : bs.length % w ≠ 0 := fun h0 => h (Nat.dvd_of_mod_eq_zero h0)
  simp [hk, this]

/-- a width that is not a key of `sampleWidthDict` (e.g. 24-bit audio, width 3) raises `KeyError` -/
theorem convert_unknown_width (w : Nat) (hk : knownWidth w = false) (bs : List UInt8) (xs : List Int) :
    convertFromBytes bs w = .error .KeyError ∧ convertToBytes xs w = .error .KeyError := by
  unfold convertFromBytes convertToBytes
  simp [hk]

/-! ## 8. non-vacuity and illustrations -/

example : Whole exWav ∧ InDur exWav ⟨3, 10⟩ ∧ InDur exWav ⟨1, 1⟩ ∧ InDur exWav ⟨0, 1⟩ := by decide
/-- the hypotheses of `insert_delete_inverse_dur` are satisfiable (off a tie: `t = 0.3`, three samples) -/
example : (exWav.insert ⟨3, 10⟩ [7, 8, 9]).index ((⟨3, 10⟩ : QTime) + exWav.durOf [7, 8, 9]) = exWav.index ⟨3, 10⟩ + 3 := by decide
/-- … and at a tie with an even number of samples -/
example : (exWav.insert ⟨5, 16⟩ [7, 8]).index ((⟨5, 16⟩ : QTime) + exWav.durOf [7, 8]) = exWav.index ⟨5, 16⟩ + 2 := by decide
example : InRange 1 (-128) ∧ InRange 1 127 ∧ ¬ InRange 1 128 ∧ InRange 2 (-32768) ∧ InRange 4 2147483647 := by decide
example : knownWidth 1 = true ∧ knownWidth 2 = true ∧ knownWidth 4 = true ∧ knownWidth 3 = false := by decide

#guard roundHalfEven 5 2 = 2 && roundHalfEven 7 2 = 4 && roundHalfEven (-5) 2 = -2 && roundHalfEven (-1) 3 = 0
#guard indexAtTime ⟨3, 10⟩ 8 2 8 = 4          -- A4: was 5 with round(t*rate*width)
#guard indexAtTime ⟨-1, 2⟩ 8 2 8 = 0 && indexAtTime ⟨9, 1⟩ 8 2 8 = 16          -- C16-2: clamped into the recording
#guard pack 2 [-32768, 32767, -1] = [0x00, 0x80, 0xff, 0x7f, 0xff, 0xff]
#guard pack 1 [-128, 127, -1] = [0x80, 0x7f, 0xff]          -- width 1 is the signed code `b`
#guard unpack 4 [0x00, 0x00, 0x00, 0x80, 0xff, 0xff, 0xff, 0x7f] = [-2147483648, 2147483647]
#guard unpack 2 [1, 0, 2] = [1]
#guard convertFromBytes [1, 0, 2] 2 = .error .StructError
#guard convertToBytes [128] 1 = .error .StructError
#guard slice [0, 1, 2, 3, 4, 5] (-2) 9 = [4, 5] && sliceTo [0, 1, 2, 3, 4, 5] (-2) = [0, 1, 2, 3]
#guard exWav.deleteSegment ⟨3, 10⟩ ⟨8, 10⟩ = .ok ⟨1, 8, [1, 2, 7, 8]⟩
#guard exWav.replaceSegment ⟨3, 10⟩ ⟨8, 10⟩ [50, 51] = .ok ⟨1, 8, [1, 2, 50, 51, 7, 8]⟩
#guard exWav.replaceSegment ⟨8, 10⟩ ⟨3, 10⟩ [50, 51] = .error .ArgumentError          -- C16-3
#guard (exWav.save >>= Wav.open) = .ok exWav
#guard (Wav.mk 2 8 [1, 2, 3, 4, 5]).save >>= Wav.open = .ok ⟨2, 8, [1, 2, 3, 4]⟩
#guard readFramesAtTime ⟨1, 8, [1, 2, 3]⟩ ⟨2, 1⟩ ⟨3, 1⟩ = .ok []
end C16
