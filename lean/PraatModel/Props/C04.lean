import PraatModel.Save
import PraatModel.Lemmas.Sort

/-!
# C04 — saving adds only blanks and absorbs only sub-threshold slivers (list level, exact arithmetic)
-/
namespace C04

/-- `l` is a chain of touching, positive-length entries leading from time `p` to time `r` -/
def Chain : Int → Int → List (Iv Int) → Prop
  | p, r, [] => p = r
  | p, r, e :: rest => e.s = p ∧ e.s < e.e ∧ Chain e.e r rest

theorem Chain.append {p r u : Int} {l1 l2 : List (Iv Int)} (h1 : Chain p r l1) (h2 : Chain r u l2) : Chain p u (l1 ++ l2) := by
  induction l1 generalizing p with
  | nil => simp only [Chain] at h1; subst h1; exact h2
  | cons e rest ih => exact ⟨h1.1, h1.2.1, ih h1.2.2⟩

theorem Chain.le {p r : Int} {l : List (Iv Int)} (h : Chain p r l) : p ≤ r := by
  induction l generalizing p with
  | nil => simp only [Chain] at h; omega
  | cons e rest ih => have := ih h.2.2; have := h.1; have := h.2.1; omega

theorem Chain.bounds {p r : Int} {l : List (Iv Int)} (h : Chain p r l) : ∀ e ∈ l, p ≤ e.s ∧ e.e ≤ r ∧ e.s < e.e := by
  induction l generalizing p with
  | nil => intro e he; simp at he
  | cons x rest ih =>
    intro e he
    rcases List.mem_cons.1 he with rfl | h'
    · have := h.2.2.le; exact ⟨by have := h.1; omega, this, h.2.1⟩
    · have := ih h.2.2 e h'; have := h.1; have := h.2.1; omega

theorem Chain.pos {p r : Int} {l : List (Iv Int)} (h : Chain p r l) : Pos l := fun e he => (h.bounds e he).2.2

theorem Chain.disj {p r : Int} {l : List (Iv Int)} (h : Chain p r l) : Disj l := by
  induction l generalizing p with
  | nil => simp [Disj]
  | cons x rest ih =>
    unfold Disj; rw [List.pairwise_cons]
    exact ⟨fun y hy => (h.2.2.bounds y hy).1, ih h.2.2⟩

theorem chain_single (p r : Int) (l : String) (h : p < r) : Chain p r [⟨p, r, l⟩] := ⟨rfl, h, rfl⟩

theorem chain_single' (e : Iv Int) (p r : Int) (h1 : e.s = p) (h2 : e.s < e.e) (h3 : e.e = r) : Chain p r [e] := ⟨h1, h2, h3⟩

/-- a chain is already in `list.sort()` order -/
theorem Chain.sorted {p r : Int} {l : List (Iv Int)} (h : Chain p r l) : sortIvs l = l :=
  sortIvs_of_wf l h.pos h.disj

/-! ## `_fillInBlanks` -/

def endOf (p : Int) : List (Iv Int) → Int
  | [] => p
  | e :: rest => endOf e.e rest

theorem fillGaps_chain (p : Int) (es : List (Iv Int)) (hp : Pos es) (hd : Disj es) (hle : ∀ e ∈ es, p ≤ e.s) :
    Chain p (endOf p es) (fillGaps p es) := by
  induction es generalizing p with
  | nil => simp [fillGaps, endOf, Chain]
  | cons e rest ih =>
    obtain ⟨h1, h2⟩ := hd.cons
    have hpe := hp e (by simp)
    have ih' := ih e.e (pos_tail hp) h2 h1
    simp only [fillGaps, endOf]
    by_cases hlt : p < e.s
    · simp only [hlt, if_true, List.singleton_append]
      exact ⟨rfl, hlt, rfl, hpe, ih'⟩
    · have : p = e.s := by have := hle e (by simp); omega
      simp only [hlt, if_false, List.nil_append]
      exact ⟨this.symm, hpe, ih'⟩

theorem fillGaps_members (p : Int) (es : List (Iv Int)) :
    es.Sublist (fillGaps p es) ∧ ∀ x ∈ fillGaps p es, x ∈ es ∨ x.l = "" := by
  induction es generalizing p with
  | nil => simp [fillGaps]
  | cons e rest ih =>
    obtain ⟨i1, i2⟩ := ih e.e
    simp only [fillGaps]
    constructor
    · split
      · exact ((i1.cons_cons e)).cons _
      · exact i1.cons_cons e
    · intro x hx
      simp only [List.mem_append, List.mem_cons] at hx
      rcases hx with hx | rfl | hx
      · split at hx
        · simp only [List.mem_singleton] at hx; subst hx; right; rfl
        · simp at hx
      · left; simp
      · rcases i2 x hx with h | h
        · left; exact List.mem_cons_of_mem _ h
        · right; exact h

theorem endOf_le (p : Int) (es : List (Iv Int)) (hi : Int) (hp : p ≤ hi) (h : ∀ e ∈ es, e.e ≤ hi) : endOf p es ≤ hi := by
  induction es generalizing p with
  | nil => exact hp
  | cons e rest ih => exact ih e.e (h e (by simp)) (fun x hx => h x (List.mem_cons_of_mem _ hx))

theorem chain_last (l : List (Iv Int)) (p r : Int) (hne : l ≠ []) (hc : Chain p r l) : ∃ lst, l.getLast? = some lst ∧ lst.e = r := by
  induction l generalizing p with
  | nil => exact absurd rfl hne
  | cons x xs ih =>
    cases xs with
    | nil => exact ⟨x, rfl, hc.2.2⟩
    | cons y ys =>
      obtain ⟨lst, h1, h2⟩ := ih x.e (by simp) hc.2.2
      exact ⟨lst, by rw [List.getLast?_cons_cons]; exact h1, h2⟩

/-- **blank filling**: for a time-ordered tier inside `[lo, hi]` the result tiles `[lo, hi]` (ascending, gap-free,
overlap-free, positive lengths), contains the input entries unchanged and in order, and everything else is a blank -/
theorem fillInBlanks_tiles (es : List (Iv Int)) (lo hi : Int) (hlh : lo < hi) (hp : Pos es) (hd : Disj es)
    (hin : ∀ e ∈ es, lo ≤ e.s ∧ e.e ≤ hi) :
    ∃ es', fillInBlanks es lo hi = .ok es' ∧ Chain lo hi es' ∧ es' ≠ [] ∧ es.Sublist es' ∧
      ∀ x ∈ es', x ∈ es ∨ x.l = "" := by
  cases es with
  | nil =>
    refine ⟨[⟨lo, hi, ""⟩], ?_, chain_single lo hi "" hlh, by simp, by simp, by simp⟩
    have hc : Chain lo hi [⟨lo, hi, ""⟩] := chain_single lo hi "" hlh
    simp [fillInBlanks, fillGaps, withHead, withTail, hlh, show ¬ lo < lo by omega, show ¬ hi < hi by omega, hc.sorted]
  | cons first rest =>
    obtain ⟨d1, d2⟩ := hd.cons
    have hf := hp first (by simp)
    have hfin := hin first (by simp)
    have hgap := fillGaps_chain first.e rest (pos_tail hp) d2 d1
    have hmem := fillGaps_members first.e rest
    have hbody : Chain first.s (endOf first.e rest) (first :: fillGaps first.e rest) := ⟨rfl, hf, hgap⟩
    have hend : endOf first.e rest ≤ hi :=
      endOf_le first.e rest hi hfin.2 (fun x hx => (hin x (List.mem_cons_of_mem _ hx)).2)
    unfold fillInBlanks
    simp only [List.isEmpty_cons, Bool.false_and, Bool.false_eq_true, if_false, show ¬ first.s < lo by omega]
    generalize hdef : withHead lo first (first :: fillGaps first.e rest) = ne1
    have hne1 : Chain lo (endOf first.e rest) ne1 := by
      rw [← hdef]; unfold withHead
      by_cases h : lo < first.s
      · simp only [h, if_true]; exact ⟨rfl, h, hbody⟩
      · have : lo = first.s := by omega
        simp only [h, if_false]; rw [this]; exact hbody
    have hne1ne : ne1 ≠ [] := by rw [← hdef]; unfold withHead; split <;> simp
    have hs1 : (first :: rest).Sublist ne1 := by
      rw [← hdef]; unfold withHead; split
      · exact (hmem.1.cons_cons first).cons _
      · exact hmem.1.cons_cons first
    have hx1 : ∀ y ∈ ne1, y ∈ first :: rest ∨ y.l = "" := by
      intro y hy
      rw [← hdef] at hy
      unfold withHead at hy
      split at hy
      · rcases List.mem_cons.1 hy with rfl | hy
        · right; rfl
        · rcases List.mem_cons.1 hy with rfl | hy
          · left; simp
          · rcases hmem.2 y hy with h | h
            · left; exact List.mem_cons_of_mem _ h
            · right; exact h
      · rcases List.mem_cons.1 hy with rfl | hy
        · left; simp
        · rcases hmem.2 y hy with h | h
          · left; exact List.mem_cons_of_mem _ h
          · right; exact h
    obtain ⟨lst, hl1, hl2⟩ := chain_last ne1 lo _ hne1ne hne1
    rw [hl1]
    simp only [show ¬ hi < lst.e by omega, if_false]
    unfold withTail
    by_cases h : lst.e < hi
    · simp only [h, if_true]
      have hc2 : Chain (endOf first.e rest) hi [⟨lst.e, hi, ""⟩] := by
        rw [hl2] at h ⊢; exact chain_single _ _ _ h
      have hne2 := hne1.append hc2
      refine ⟨_, by rw [hne2.sorted], hne2, by simp, hs1.trans (List.sublist_append_left _ _), ?_⟩
      intro x hx
      rcases List.mem_append.1 hx with h' | h'
      · exact hx1 x h'
      · simp only [List.mem_singleton] at h'; subst h'; right; rfl
    · simp only [h, if_false]
      have : endOf first.e rest = hi := by omega
      rw [this] at hne1
      exact ⟨_, by rw [hne1.sorted], hne1, hne1ne, hs1, hx1⟩

/-- an interval that starts before the requested start, or ends after the requested end, makes the save raise -/
theorem fillInBlanks_rejects (first : Iv Int) (rest : List (Iv Int)) (lo hi : Int) (h : first.s < lo) :
    fillInBlanks (first :: rest) lo hi = .error .ParsingError := by
  simp [fillInBlanks, h]

/-! ## `_removeUltrashortIntervals` -/

def Long (m : Int) (l : List (Iv Int)) : Prop := ∀ e ∈ l, m ≤ e.e - e.s

theorem chain_snoc_end (l : List (Iv Int)) (last : Iv Int) (p cur : Int) (h : Chain p cur (l ++ [last])) : last.e = cur := by
  induction l generalizing p with
  | nil => exact h.2.2
  | cons x xs ih => exact ih x.e h.2.2

theorem chain_snoc_extend (l : List (Iv Int)) (last : Iv Int) (p cur e : Int) (h : Chain p cur (l ++ [last])) (hle : cur ≤ e) :
    Chain p e (l ++ [⟨last.s, e, last.l⟩]) := by
  induction l generalizing p with
  | nil =>
    have h1 := h.1; have h2 := h.2.1; have h3 : last.e = cur := h.2.2
    exact chain_single' _ _ _ h1 (by simp only; omega) rfl
  | cons x xs ih => exact ⟨h.1, h.2.1, ih x.e h.2.2⟩

/-- the first loop: `acc` (reversed) is what has been emitted so far; `cur` is the time reached in the input -/
theorem absorbShort_spec (m lo hi : Int) (es acc : List (Iv Int)) (cur : Int)
    (hacc : acc ≠ [] → Chain lo cur acc.reverse) (haccL : Long m acc) (hacc0 : acc = [] → lo ≤ cur)
    (hes : Chain cur hi es) :
    (absorbShort m lo acc es = [] ∧ acc = []) ∨
    (absorbShort m lo acc es ≠ [] ∧ Chain lo hi (absorbShort m lo acc es) ∧ Long m (absorbShort m lo acc es)) := by
  induction es generalizing acc cur with
  | nil =>
    have hc : cur = hi := hes
    subst hc
    simp only [absorbShort]
    cases acc with
    | nil => left; simp
    | cons a as =>
      right
      exact ⟨by simp, hacc (by simp), fun e he => haccL e (List.mem_reverse.1 he)⟩
  | cons e rest ih =>
    obtain ⟨he1, he2, he3⟩ := hes
    simp only [absorbShort]
    by_cases hs : e.e - e.s < m
    · simp only [hs, if_true]
      cases acc with
      | nil =>
        exact ih [] e.e (fun h => absurd rfl h) (by intro x hx; simp at hx) (fun _ => by have := hacc0 rfl; omega) he3
      | cons last before =>
        have hc := hacc (by simp)
        rw [List.reverse_cons] at hc
        have hrev : Chain lo e.e (⟨last.s, e.e, last.l⟩ :: before).reverse := by
          rw [List.reverse_cons]
          exact chain_snoc_extend before.reverse last lo cur e.e hc (by omega)
        have hlast : last.e = cur := chain_snoc_end before.reverse last lo cur hc
        have hlong : Long m (⟨last.s, e.e, last.l⟩ :: before) := by
          intro x hx
          rcases List.mem_cons.1 hx with rfl | hx
          · have := haccL last (by simp); simp only; omega
          · exact haccL x (List.mem_cons_of_mem _ hx)
        rcases ih (⟨last.s, e.e, last.l⟩ :: before) e.e (fun _ => hrev) hlong (by intro h; cases h) he3 with ⟨_, h2⟩ | h
        · cases h2
        · right; exact h
    · simp only [hs, if_false]
      cases acc with
      | nil =>
        have hlo : lo ≤ e.s := by have := hacc0 rfl; omega
        simp only
        by_cases heq : e.s = lo
        · have hb : (!(e.s == lo)) = false := by simp [heq]
          simp only [hb, Bool.false_eq_true, if_false]
          rcases ih [e] e.e (fun _ => chain_single' e lo e.e heq he2 rfl)
            (by intro x hx; simp only [List.mem_singleton] at hx; subst hx; omega) (by intro h; cases h) he3 with ⟨_, h2⟩ | h
          · cases h2
          · right; exact h
        · have hb : (!(e.s == lo)) = true := by simp [heq]
          simp only [hb, if_true]
          rcases ih [⟨lo, e.e, e.l⟩] e.e (fun _ => chain_single lo e.e e.l (by omega))
            (by intro x hx; simp only [List.mem_singleton] at hx; subst hx; simp only; omega) (by intro h; cases h) he3 with ⟨_, h2⟩ | h
          · cases h2
          · right; exact h
      | cons last before =>
        have hrev : Chain lo e.e (e :: last :: before).reverse := by
          rw [List.reverse_cons]
          exact (hacc (by simp)).append (chain_single' e cur e.e he1 he2 rfl)
        rcases ih (e :: last :: before) e.e (fun _ => hrev)
          (by intro x hx; rcases List.mem_cons.1 hx with rfl | hx; omega; exact haccL x hx) (by intro h; cases h) he3 with ⟨_, h2⟩ | h
        · cases h2
        · right; exact h

theorem stitch_chain (m p r : Int) (l : List (Iv Int)) (h : Chain p r l) : stitch m l = l := by
  induction l generalizing p with
  | nil => rfl
  | cons a rest ih =>
    cases rest with
    | nil => rfl
    | cons b rest' =>
      have hb : b.s = a.e := h.2.2.1
      simp only [stitch, tabs, Tm.zero, hb, Int.sub_self, Int.lt_irrefl, if_false, false_and]
      rw [ih a.e h.2.2]

/-- the raw result of the two loops, before the all-slivers repair -/
theorem loops_tiles (m lo hi : Int) (es : List (Iv Int)) (h : Chain lo hi es) :
    stitch m (absorbShort m lo [] es) = [] ∨
    (stitch m (absorbShort m lo [] es) ≠ [] ∧ Chain lo hi (stitch m (absorbShort m lo [] es)) ∧
      Long m (stitch m (absorbShort m lo [] es))) := by
  have := absorbShort_spec m lo hi es [] lo (fun h' => absurd rfl h') (by intro x hx; simp at hx) (fun _ => by omega) h
  rcases this with ⟨h1, _⟩ | ⟨h1, h2, h3⟩
  · left; rw [h1]; rfl
  · right; rw [stitch_chain m lo hi _ h2]; exact ⟨h1, h2, h3⟩

theorem removeUltrashort_unfold (m lo : Int) (es : List (Iv Int)) :
    removeUltrashort es m lo =
      if (stitch m (absorbShort m lo [] es)).isEmpty then
        (match es.getLast? with | some lst => [⟨lo, lst.e, ""⟩] | none => [])
      else stitch m (absorbShort m lo [] es) := by
  unfold removeUltrashort
  cases es.getLast? <;> rfl

/-- **sliver absorption**: from a (non-empty) tiling of `[lo, hi]` the save keeps a tiling of `[lo, hi]`: either no
interval of it is shorter than the threshold, or — every interval was a sliver — it is the single blank over `[lo, hi]` -/
theorem removeUltrashort_tiles (m lo hi : Int) (es : List (Iv Int)) (h : Chain lo hi es) (hne : es ≠ []) :
    removeUltrashort es m lo ≠ [] ∧ Chain lo hi (removeUltrashort es m lo) ∧
      (Long m (removeUltrashort es m lo) ∨ removeUltrashort es m lo = [⟨lo, hi, ""⟩]) := by
  rw [removeUltrashort_unfold]
  rcases loops_tiles m lo hi es h with h0 | ⟨h1, h2, h3⟩
  · obtain ⟨lst, hl1, hl2⟩ := chain_last es lo hi hne h
    have hlh : lo < hi := by
      cases es with
      | nil => exact absurd rfl hne
      | cons e rest => have := h.1; have := h.2.1; have := h.2.2.le; omega
    simp only [h0, List.isEmpty_nil, if_true, hl1, hl2]
    exact ⟨by simp, chain_single lo hi "" hlh, Or.inr trivial⟩
  · have : (stitch m (absorbShort m lo [] es)).isEmpty = false := by
      cases hs : stitch m (absorbShort m lo [] es) with
      | nil => exact absurd hs h1
      | cons _ _ => rfl
    simp only [this, Bool.false_eq_true, if_false]
    exact ⟨h1, h2, Or.inl h3⟩

/-- with nothing shorter than the threshold, nothing is absorbed and nothing changes -/
theorem removeUltrashort_id (m lo hi : Int) (es : List (Iv Int)) (h : Chain lo hi es) (hl : Long m es) :
    removeUltrashort es m lo = es := by
  have key : ∀ (es acc : List (Iv Int)) (cur : Int), Chain cur hi es → Long m es → (acc = [] → cur = lo) →
      absorbShort m lo acc es = acc.reverse ++ es := by
    intro es
    induction es with
    | nil => intro acc cur _ _ _; simp [absorbShort]
    | cons e rest ih =>
      intro acc cur hc hl' h0
      have hlong := hl' e (by simp)
      simp only [absorbShort, show ¬ e.e - e.s < m by omega, if_false]
      cases acc with
      | nil =>
        have : e.s = lo := by rw [hc.1]; exact h0 rfl
        have hb : (!(e.s == lo)) = false := by simp [this]
        simp only [hb, Bool.false_eq_true, if_false]
        rw [ih [e] e.e hc.2.2 (fun x hx => hl' x (List.mem_cons_of_mem _ hx)) (by intro h; cases h)]
        simp
      | cons a as =>
        simp only
        rw [ih (e :: a :: as) e.e hc.2.2 (fun x hx => hl' x (List.mem_cons_of_mem _ hx)) (by intro h; cases h)]
        simp
  rw [removeUltrashort_unfold, key es [] lo h hl (fun _ => rfl)]
  simp only [List.reverse_nil, List.nil_append, stitch_chain m lo hi es h]
  cases es with
  | nil => rfl
  | cons _ _ => rfl

/-- **save on an interval tier**: blank filling followed by sliver absorption (threshold `m`) turns a time-ordered tier
inside `[lo, hi]` into a tiling of `[lo, hi]` without intervals shorter than `m` (or into the single blank over `[lo, hi]`
when everything is a sliver); with the threshold disabled the tiling is the blank-filled tier itself and every interval
has positive length -/
theorem saved_entries (es : List (Iv Int)) (lo hi : Int) (hlh : lo < hi) (hp : Pos es) (hd : Disj es)
    (hin : ∀ e ∈ es, lo ≤ e.s ∧ e.e ≤ hi) (m : Int) :
    ∃ filled, fillInBlanks es lo hi = .ok filled ∧ Chain lo hi filled ∧ es.Sublist filled ∧
      (∀ x ∈ filled, x ∈ es ∨ x.l = "") ∧
      Chain lo hi (removeUltrashort filled m lo) ∧
      (Long m (removeUltrashort filled m lo) ∨ removeUltrashort filled m lo = [⟨lo, hi, ""⟩]) := by
  obtain ⟨filled, h1, h2, h3, h4, h5⟩ := fillInBlanks_tiles es lo hi hlh hp hd hin
  obtain ⟨_, c, l⟩ := removeUltrashort_tiles m lo hi filled h2 h3
  exact ⟨filled, h1, h2, h4, h5, c, l⟩

/-- re-saving: a tier that already tiles `[lo, hi]` is a fixed point of blank filling -/
theorem fillInBlanks_idem (es : List (Iv Int)) (lo hi : Int) (hne : es ≠ []) (h : Chain lo hi es) :
    fillInBlanks es lo hi = .ok es := by
  have hlh : lo < hi := by
    cases es with
    | nil => exact absurd rfl hne
    | cons e rest => have := h.1; have := h.2.1; have := h.2.2.le; omega
  obtain ⟨es', e1, c, _, sub, mem⟩ := fillInBlanks_tiles es lo hi hlh h.pos h.disj (fun e he => by have := h.bounds e he; omega)
  -- two chains lo → hi, one a sublist of the other, are equal
  have key : ∀ (a b : List (Iv Int)) (p : Int), Chain p hi a → Chain p hi b → a.Sublist b → a ≠ [] ∨ b = [] → a = b := by
    intro a
    induction a with
    | nil =>
      intro b p ha hb _ hor
      rcases hor with h | h
      · exact absurd rfl h
      · exact h.symm
    | cons x xs ih =>
      intro b p ha hb hs _
      cases b with
      | nil => cases hs
      | cons y ys =>
        -- both start at p; a chain element is determined by its start? no — but y starts at p and x starts at p, and
        -- x occurs in y :: ys: if x ≠ y then x ∈ ys starts at ≥ y.e > p, contradiction
        have hxy : x = y := by
          cases hs with
          | cons _ hs' =>
            have hx : x ∈ ys := hs'.subset (by simp)
            have := (hb.2.2.bounds x hx).1
            have := ha.1; have := hb.1; have := hb.2.1
            omega
          | cons_cons _ _ => rfl
        subst hxy
        cases hs with
        | cons _ hs' =>
          have hx : x ∈ ys := hs'.subset (by simp)
          have := (hb.2.2.bounds x hx).1
          have := hb.2.1
          omega
        | cons_cons _ hs' =>
          congr 1
          by_cases hxs : xs = []
          · subst hxs
            -- a = [x] reaches hi, so ys must be empty
            have : x.e = hi := by have := ha.2.2; simp only [Chain] at this; exact this
            cases ys with
            | nil => rfl
            | cons z zs =>
              have := hb.2.2
              have h1 := this.1; have h2 := this.2.1; have h3 := this.2.2.le
              omega
          · exact ih ys x.e ha.2.2 hb.2.2 hs' (Or.inl hxs)
  rw [e1, key es es' lo h c sub (Or.inl hne)]

/-! ## non-vacuity -/
def exEs : List (Iv Int) := [⟨10, 30, "a"⟩, ⟨30, 31, "s"⟩, ⟨31, 60, "b"⟩, ⟨80, 90, "c"⟩]
example : Pos exEs ∧ Disj exEs ∧ (∀ e ∈ exEs, (0 : Int) ≤ e.s ∧ e.e ≤ 100) := by
  refine ⟨?_, ?_, ?_⟩ <;> simp [exEs, Pos, Disj] <;> decide
#guard (fillInBlanks exEs 0 100).toOption == some [⟨0, 10, ""⟩, ⟨10, 30, "a"⟩, ⟨30, 31, "s"⟩, ⟨31, 60, "b"⟩, ⟨60, 80, ""⟩, ⟨80, 90, "c"⟩, ⟨90, 100, ""⟩]
#guard ((fillInBlanks exEs 0 100).toOption.map fun f => removeUltrashort f 5 0) ==
  some [⟨0, 10, ""⟩, ⟨10, 31, "a"⟩, ⟨31, 60, "b"⟩, ⟨60, 80, ""⟩, ⟨80, 90, "c"⟩, ⟨90, 100, ""⟩]

end C04
