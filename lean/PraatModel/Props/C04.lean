/-! # C04 — property theorems (to be filled) -/
