import PraatModel.Crop
import PraatModel.Lemmas.Tier

/-!
# C06 — crop keeps exactly the annotation inside the window, per mode

All statements are over `Int` timestamps of unbounded size and entry lists of any length.
-/
namespace C06

/-! ## a window with `a ≥ b` is rejected -/

theorem crop_rejects (t : ITier Int) (a b : Int) (m : CropMode) (r : Bool) (h : b ≤ a) :
    t.crop a b m r = .error .ArgumentError := by
  simp [ITier.crop, h]

theorem pcrop_rejects (t : PTier Int) (a b : Int) (r : Bool) (h : b ≤ a) :
    t.crop a b r = .error .ArgumentError := by
  simp [PTier.crop, h]

/-! ## the five-arm cascade of `getIntervalsInInterval` against interval arithmetic -/

theorem cropOne_strict (a b : Int) (iv : Iv Int) (h : iv.s < iv.e) (_hab : a < b) :
    cropOne a b .strict iv = if a ≤ iv.s ∧ iv.e ≤ b then some iv else none := by
  obtain ⟨s, e, l⟩ := iv
  simp only [cropOne] at *
  grind

theorem cropOne_lax (a b : Int) (iv : Iv Int) (h : iv.s < iv.e) (hab : a < b) :
    cropOne a b .lax iv = if iv.s < b ∧ a < iv.e then some iv else none := by
  obtain ⟨s, e, l⟩ := iv
  simp only [cropOne] at *
  grind

theorem cropOne_truncated (a b : Int) (iv : Iv Int) (h : iv.s < iv.e) (hab : a < b) :
    cropOne a b .truncated iv =
      if max iv.s a < min iv.e b then some ⟨max iv.s a, min iv.e b, iv.l⟩ else none := by
  obtain ⟨s, e, l⟩ := iv
  simp only [cropOne] at *
  grind

/-- every kept piece lies inside its source interval, has positive length and the source's label -/
def Within (o iv : Iv Int) : Prop := iv.s ≤ o.s ∧ o.e ≤ iv.e ∧ o.s < o.e ∧ o.l = iv.l

theorem cropOne_within (a b : Int) (m : CropMode) (iv o : Iv Int) (h : iv.s < iv.e) (hab : a < b)
    (ho : cropOne a b m iv = some o) : Within o iv := by
  obtain ⟨s, e, l⟩ := iv
  cases m <;> simp only [cropOne, Within] at * <;> grind

/-- in strict and truncated mode every kept piece lies inside the window -/
theorem cropOne_inside (a b : Int) (m : CropMode) (hm : m ≠ .lax) (iv o : Iv Int) (h : iv.s < iv.e)
    (_hab : a < b) (ho : cropOne a b m iv = some o) : a ≤ o.s ∧ o.e ≤ b := by
  obtain ⟨s, e, l⟩ := iv
  cases m <;> simp only [cropOne] at * <;> grind

theorem filterMap_within (f : Iv Int → Option (Iv Int)) (es : List (Iv Int))
    (hf : ∀ iv o, iv.s < iv.e → f iv = some o → Within o iv)
    (hp : Pos es) (hd : Disj es) (hs : Stripped es) :
    Pos (es.filterMap f) ∧ Disj (es.filterMap f) ∧ Stripped (es.filterMap f) := by
  refine ⟨?_, ?_, ?_⟩
  · intro o ho
    obtain ⟨iv, hiv, hfo⟩ := List.mem_filterMap.1 ho
    exact (hf iv o (hp iv hiv) hfo).2.2.1
  · unfold Disj at *
    have hd' : es.Pairwise (fun x y => x.s < x.e ∧ y.s < y.e ∧ x.e ≤ y.s) :=
      hd.imp_of_mem (fun hx hy hxy => ⟨hp _ hx, hp _ hy, hxy⟩)
    refine List.Pairwise.filterMap f ?_ hd'
    intro x y ⟨hx, hy, hxy⟩ o ho o' ho'
    have h1 := hf x o hx ho
    have h2 := hf y o' hy ho'
    unfold Within at h1 h2
    omega
  · intro o ho
    obtain ⟨iv, hiv, hfo⟩ := List.mem_filterMap.1 ho
    have := (hf iv o (hp iv hiv) hfo).2.2.2
    rw [this]; exact hs iv hiv

/-! ## crop without rebasing -/

/-- Without rebasing, cropping a well-formed tier with `a < b` never fails; the result is well-formed,
keeps the name, its entries are exactly the per-mode selection (timestamps untouched for kept
intervals), and its span is the hull of `[a, b]` and the kept entries. -/
theorem crop_norebase (t : ITier Int) (hwf : t.WF) (a b : Int) (hab : a < b) (m : CropMode) :
    ∃ t', t.crop a b m false = .ok t' ∧ t'.WF ∧ t'.name = t.name ∧ t'.es = getIvs a b m t.es ∧
      t'.lo = hullMin (t'.es.map (·.s)) a ∧ t'.hi = hullMax (t'.es.map (·.e)) b := by
  have hw := filterMap_within (cropOne a b m) t.es
    (fun iv o h ho => cropOne_within a b m iv o h hab ho) hwf.pos hwf.disj hwf.stripped
  obtain ⟨t', h1, h2, h3, h4, h5, h6⟩ := mkITier_wf t.name (getIvs a b m t.es) a b (by omega) hw.1 hw.2.1 hw.2.2
  refine ⟨t', ?_, h2, h4, h3, ?_, ?_⟩
  · simp only [ITier.crop, show ¬ b ≤ a by omega, if_false, Bool.false_eq_true]
    exact h1
  · rw [h3]; exact h5
  · rw [h3]; exact h6

/-- strict / truncated: the span is exactly the window -/
theorem crop_norebase_span (t : ITier Int) (hwf : t.WF) (a b : Int) (hab : a < b) (m : CropMode)
    (hm : m ≠ .lax) (t' : ITier Int) (h : t.crop a b m false = .ok t') : t'.lo = a ∧ t'.hi = b := by
  obtain ⟨t'', h1, _, _, h4, h5, h6⟩ := crop_norebase t hwf a b hab m
  rw [h] at h1; cases h1
  have hin : ∀ o ∈ t'.es, a ≤ o.s ∧ o.e ≤ b := by
    intro o ho
    rw [h4] at ho
    obtain ⟨iv, hiv, hfo⟩ := List.mem_filterMap.1 ho
    exact cropOne_inside a b m hm iv o (hwf.pos iv hiv) hab hfo
  constructor
  · rw [h5]; apply hullMin_eq_of_le
    intro x hx; obtain ⟨o, ho, rfl⟩ := List.mem_map.1 hx; exact (hin o ho).1
  · rw [h6]; apply hullMax_eq_of_ge
    intro x hx; obtain ⟨o, ho, rfl⟩ := List.mem_map.1 hx; exact (hin o ho).2

/-- lax: the span is widened to contain overhanging kept intervals, and by no more:
the new bounds are attained by the window edge or by a kept interval. -/
theorem crop_norebase_span_lax (t : ITier Int) (hwf : t.WF) (a b : Int) (hab : a < b) (m : CropMode)
    (t' : ITier Int) (h : t.crop a b m false = .ok t') :
    (t'.lo ≤ a ∧ (∀ o ∈ t'.es, t'.lo ≤ o.s) ∧ (t'.lo = a ∨ ∃ o ∈ t'.es, t'.lo = o.s)) ∧
    (b ≤ t'.hi ∧ (∀ o ∈ t'.es, o.e ≤ t'.hi) ∧ (t'.hi = b ∨ ∃ o ∈ t'.es, t'.hi = o.e)) := by
  obtain ⟨t'', h1, _, _, _, h5, h6⟩ := crop_norebase t hwf a b hab m
  rw [h] at h1; cases h1
  refine ⟨⟨?_, ?_, ?_⟩, ?_, ?_, ?_⟩
  · rw [h5]; exact (hullMin_le _ _).1
  · intro o ho; rw [h5]; exact (hullMin_le _ _).2 _ (List.mem_map_of_mem ho)
  · rw [h5]; rcases foldl_min_mem (t'.es.map (·.s)) a with h' | h'
    · left; exact h'
    · right; obtain ⟨o, ho, he⟩ := List.mem_map.1 h'; exact ⟨o, ho, he.symm⟩
  · rw [h6]; exact (hullMax_ge _ _).1
  · intro o ho; rw [h6]; exact (hullMax_ge _ _).2 _ (List.mem_map_of_mem ho)
  · rw [h6]; rcases foldl_max_mem (t'.es.map (·.e)) b with h' | h'
    · left; exact h'
    · right; obtain ⟨o, ho, he⟩ := List.mem_map.1 h'; exact ⟨o, ho, he.symm⟩

/-- in exact arithmetic every rebased piece keeps its positive length: the filter of the repaired code is the identity -/
theorem rebaseIvs_of_pos (d : Int) (sel : List (Iv Int)) (hp : Pos (sel.map (shiftIv d))) :
    rebaseIvs d sel = sel.map (shiftIv d) := by
  unfold rebaseIvs
  apply List.filter_eq_self.2
  intro iv hiv
  have := hp iv hiv
  simpa using this

/-- a window that selects nothing gives an empty tier with the window as span — never an error -/
theorem crop_empty_ok (t : ITier Int) (a b : Int) (hab : a < b) (m : CropMode) (r : Bool)
    (hsel : getIvs a b m t.es = []) :
    t.crop a b m r = .ok ⟨t.name, [], if r then 0 else a, if r then b - a else b⟩ := by
  cases r <;>
    simp [ITier.crop, rebaseIvs, show ¬ b ≤ a by omega, hsel, mkITier, sortIvs, pyMinList, pyMaxList,
      ivsAllPos, ivsNoOverlap, Tm.zero] <;> omega

/-! ## the label-at-every-time function of a truncated crop -/

theorem getIvs_truncated_labelAt (a b : Int) (hab : a < b) (es : List (Iv Int)) (hp : Pos es) (x : Int) :
    labelAt (getIvs a b .truncated es) x = if a ≤ x ∧ x < b then labelAt es x else none := by
  induction es with
  | nil => simp [getIvs, labelAt]
  | cons iv es ih =>
    have hiv := hp iv (by simp)
    have ih' := ih (pos_tail hp)
    simp only [getIvs, labelAt] at ih' ⊢
    rw [List.filterMap_cons, cropOne_truncated a b iv hiv hab]
    obtain ⟨s, e, l⟩ := iv
    simp only at hiv ⊢
    by_cases hov : max s a < min e b
    · simp only [hov, if_true, List.find?_cons]
      by_cases hx : max s a ≤ x ∧ x < min e b
      · have : s ≤ x ∧ x < e := by omega
        have hab' : a ≤ x ∧ x < b := by omega
        simp [hx, this, hab']
      · by_cases hab' : a ≤ x ∧ x < b
        · have : ¬ (s ≤ x ∧ x < e) := by omega
          have h1 : (decide (max s a ≤ x) && decide (x < min e b)) = false := by
            simp only [Bool.and_eq_false_iff, decide_eq_false_iff_not]; omega
          have h2 : (decide (s ≤ x) && decide (x < e)) = false := by
            simp only [Bool.and_eq_false_iff, decide_eq_false_iff_not]; omega
          simp only [h1, h2]
          exact ih'
        · have h1 : (decide (max s a ≤ x) && decide (x < min e b)) = false := by
            simp only [Bool.and_eq_false_iff, decide_eq_false_iff_not]; omega
          simp only [h1]
          rw [ih']; simp [hab']
    · simp only [hov, if_false, List.find?_cons]
      by_cases hab' : a ≤ x ∧ x < b
      · have h2 : (decide (s ≤ x) && decide (x < e)) = false := by
          simp only [Bool.and_eq_false_iff, decide_eq_false_iff_not]; omega
        simp only [h2]
        exact ih'
      · rw [ih']; simp [hab']

/-- truncated crop, no rebasing: inside the window the labelled time is the tier's, outside there is none -/
theorem crop_truncated_labelAt (t : ITier Int) (hwf : t.WF) (a b : Int) (hab : a < b)
    (t' : ITier Int) (h : t.crop a b .truncated false = .ok t') (x : Int) :
    labelAt t'.es x = if a ≤ x ∧ x < b then labelAt t.es x else none := by
  obtain ⟨t'', h1, _, _, h4, _, _⟩ := crop_norebase t hwf a b hab .truncated
  rw [h] at h1; cases h1
  rw [h4]; exact getIvs_truncated_labelAt a b hab t.es hwf.pos x

/-! ## crop with rebasing -/

theorem shift_wf (d : Int) (es : List (Iv Int)) (hp : Pos es) (hd : Disj es) (hs : Stripped es) :
    Pos (es.map (shiftIv d)) ∧ Disj (es.map (shiftIv d)) ∧ Stripped (es.map (shiftIv d)) := by
  refine ⟨?_, ?_, ?_⟩
  · intro o ho; obtain ⟨iv, hiv, rfl⟩ := List.mem_map.1 ho
    have := hp iv hiv; simp only [shiftIv]; omega
  · unfold Disj at *; rw [List.pairwise_map]
    exact hd.imp (fun h => by simp only [shiftIv]; omega)
  · intro o ho; obtain ⟨iv, hiv, rfl⟩ := List.mem_map.1 ho
    exact hs iv hiv

theorem rebaseDelta_le (a : Int) (sel : List (Iv Int)) (hp : Pos sel) (hd : Disj sel) :
    rebaseDelta a sel ≤ a ∧ ∀ iv ∈ sel, rebaseDelta a sel ≤ iv.s := by
  cases sel with
  | nil => simp [rebaseDelta]
  | cons f rest =>
    obtain ⟨h1, _⟩ := hd.cons
    have hf := hp f (by simp)
    simp only [rebaseDelta, List.mem_cons, forall_eq_or_imp]
    refine ⟨by split <;> omega, by split <;> omega, ?_⟩
    intro iv hiv; have := h1 iv hiv; split <;> omega

/-- With rebasing, cropping a well-formed tier with `a < b` never fails; every kept entry is shifted by
`min a firstKeptStart`, labels and order kept; the span starts at 0 and ends at `b - a`, widened just
enough to contain an overhanging (lax) interval. -/
theorem crop_rebase (t : ITier Int) (hwf : t.WF) (a b : Int) (hab : a < b) (m : CropMode) :
    ∃ t', t.crop a b m true = .ok t' ∧ t'.WF ∧ t'.name = t.name ∧
      t'.es = (getIvs a b m t.es).map (shiftIv (rebaseDelta a (getIvs a b m t.es))) ∧
      t'.lo = 0 ∧ t'.hi = hullMax (t'.es.map (·.e)) (b - a) := by
  have hw := filterMap_within (cropOne a b m) t.es
    (fun iv o h ho => cropOne_within a b m iv o h hab ho) hwf.pos hwf.disj hwf.stripped
  have hsh := shift_wf (rebaseDelta a (getIvs a b m t.es)) (getIvs a b m t.es) hw.1 hw.2.1 hw.2.2
  obtain ⟨t', h1, h2, h3, h4, h5, h6⟩ :=
    mkITier_wf t.name ((getIvs a b m t.es).map (shiftIv (rebaseDelta a (getIvs a b m t.es)))) 0 (b - a)
      (by omega) hsh.1 hsh.2.1 hsh.2.2
  have hdl := rebaseDelta_le a (getIvs a b m t.es) hw.1 hw.2.1
  refine ⟨t', ?_, h2, h4, h3, ?_, ?_⟩
  · simp only [ITier.crop, show ¬ b ≤ a by omega, if_false, if_true]
    rw [rebaseIvs_of_pos _ _ hsh.1]
    exact h1
  · rw [h5]; apply hullMin_eq_of_le
    intro x hx
    simp only [List.map_map, List.mem_map, Function.comp] at hx
    obtain ⟨iv, hiv, rfl⟩ := hx
    have := hdl.2 iv hiv
    simp only [shiftIv]; omega
  · rw [h3]; exact h6

/-! ## point tiers -/

/-- point crop: exactly the points with `a ≤ t ≤ b`, shifted by `a` when rebasing; span `[a,b]` / `[0,b-a]` -/
theorem pcrop_spec (t : PTier Int) (hwf : t.WF) (a b : Int) (hab : a < b) (r : Bool) :
    ∃ t', t.crop a b r = .ok t' ∧ t'.WF ∧ t'.name = t.name ∧
      t'.ps = (t.ps.filter fun p => decide (a ≤ p.t) && decide (p.t ≤ b)).map
                (fun p => if r then ⟨p.t - a, p.l⟩ else p) ∧
      t'.lo = (if r then 0 else a) ∧ t'.hi = (if r then b - a else b) := by
  have hsel_sorted : (t.ps.filter fun p => decide (a ≤ p.t) && decide (p.t ≤ b)).Pairwise
      (fun x y => Pt.le x y = true) := hwf.sorted.filter _
  have hsel_in : ∀ p ∈ (t.ps.filter fun p => decide (a ≤ p.t) && decide (p.t ≤ b)), a ≤ p.t ∧ p.t ≤ b := by
    intro p hp; simpa using (List.mem_filter.1 hp).2
  have hsel_str : ∀ p ∈ (t.ps.filter fun p => decide (a ≤ p.t) && decide (p.t ≤ b)), pyStrip p.l = p.l :=
    fun p hp => hwf.stripped p (List.mem_filter.1 hp).1
  cases r with
  | false =>
    obtain ⟨t', h1, h2, h3, h4, h5, h6⟩ := mkPTier_wf t.name _ a b hsel_sorted hsel_str
      (fun p hp => (hsel_in p hp).1) (fun p hp => (hsel_in p hp).2) (by omega)
    refine ⟨t', ?_, h2, h4, ?_, h5, h6⟩
    · simp only [PTier.crop, show ¬ b ≤ a by omega, if_false, Bool.false_eq_true]; exact h1
    · simp [h3]
  | true =>
    have hsrt' : ((t.ps.filter fun p => decide (a ≤ p.t) && decide (p.t ≤ b)).map
        (fun p => (⟨p.t - a, p.l⟩ : Pt Int))).Pairwise (fun x y => Pt.le x y = true) := by
      rw [List.pairwise_map]
      refine hsel_sorted.imp ?_
      intro x y hxy
      simp only [Pt.le] at hxy ⊢
      grind
    obtain ⟨t', h1, h2, h3, h4, h5, h6⟩ := mkPTier_wf t.name _ 0 (b - a) hsrt'
      (by intro p hp; obtain ⟨q, hq, rfl⟩ := List.mem_map.1 hp; exact hsel_str q hq)
      (by intro p hp; obtain ⟨q, hq, rfl⟩ := List.mem_map.1 hp; have := hsel_in q hq; simp only; omega)
      (by intro p hp; obtain ⟨q, hq, rfl⟩ := List.mem_map.1 hp; have := hsel_in q hq; simp only; omega)
      (by omega)
    refine ⟨t', ?_, h2, h4, ?_, h5, h6⟩
    · simp only [PTier.crop, show ¬ b ≤ a by omega, if_false, if_true, Tm.zero]; exact h1
    · simp [h3]

/-! ## non-vacuity: a concrete well-formed tier and window meet the hypotheses -/

def exTier : ITier Int := ⟨"T", [⟨1, 3, "a"⟩, ⟨3, 6, "b"⟩, ⟨8, 9, "c"⟩], 0, 10⟩

theorem exTier_wf : exTier.WF := by
  refine ⟨?_, ?_, ?_, ?_, ?_, ?_⟩ <;> simp [exTier, Pos, Disj, Stripped] <;> decide

example : exTier.WF ∧ (2 : Int) < 8 := ⟨exTier_wf, by decide⟩
-- evaluated illustrations (interpreter tests, not proofs)
#guard (exTier.crop 2 8 .truncated false).toOption.map (·.es) == some [⟨2, 3, "a"⟩, ⟨3, 6, "b"⟩]
#guard (exTier.crop 2 4 .lax true).toOption.map (fun t => (t.es, t.lo, t.hi)) ==
    some ([⟨0, 2, "a"⟩, ⟨2, 5, "b"⟩], 0, 5)

end C06
