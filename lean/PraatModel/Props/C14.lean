import PraatModel.Lemmas.Sort
import PraatModel.Textgrid

/-!
# C14 — dejitter, alignBoundariesAcrossTiers, morph

Exact arithmetic (`Int` timestamps of any size, entry lists of any length).

* `nearest` is Python's `min(refs, key=lambda r: abs(r - x))`: a nearest reference, the first one in list order;
* `leq14` is `my_math.lessThanOrEqual` with its 1e-14 relative slack made explicit;
* `snap` moves a timestamp to its nearest reference iff it lies within `maxDifference` of it;
* `dejitter` maps `snap` over every boundary; the constructor then validates: on a well-formed tier the
  image is always in time order (snapping is monotone), so the call fails exactly when an interval collapses;
* `morph` re-times every selected interval, keeping labels, gaps, first start and trailing gap.
-/
namespace C14

/-! ## absolute value, nearest reference -/

theorem tabs_int (y : Int) : tabs y = if y < 0 then -y else y := by
  simp only [tabs, Tm.zero]; split <;> omega

theorem tabs_natAbs (y : Int) : tabs y = (y.natAbs : Int) := by
  rw [tabs_int]; split <;> omega

theorem tabs_sub_comm (a b : Int) : tabs (a - b) = tabs (b - a) := by
  simp only [tabs_int]; split <;> split <;> omega

/-- the fold of `nearest`, started at `best`, over `rest` -/
theorem nearest_fold (x : Int) (rest : List Int) (best : Int) :
    let m := rest.foldl (fun best c => if tabs (c - x) < tabs (best - x) then c else best) best
    tabs (m - x) ≤ tabs (best - x) ∧ (∀ q ∈ rest, tabs (m - x) ≤ tabs (q - x)) ∧
    ∃ pre post, best :: rest = pre ++ m :: post ∧ ∀ q ∈ pre, tabs (m - x) < tabs (q - x) := by
  induction rest generalizing best with
  | nil => exact ⟨Int.le_refl _, by simp, [], [], rfl, by simp⟩
  | cons c cs ih =>
    simp only [List.foldl_cons]
    by_cases h : tabs (c - x) < tabs (best - x)
    · simp only [h, if_true]
      obtain ⟨h1, h2, pre, post, h3, h4⟩ := ih c
      refine ⟨by omega, ?_, best :: pre, post, congrArg (fun l => best :: l) h3, ?_⟩
      · intro q hq
        rcases List.mem_cons.1 hq with rfl | hq
        · exact h1
        · exact h2 q hq
      · intro q hq
        rcases List.mem_cons.1 hq with rfl | hq
        · omega
        · exact h4 q hq
    · simp only [h, if_false]
      obtain ⟨h1, h2, pre, post, h3, h4⟩ := ih best
      refine ⟨h1, ?_, ?_⟩
      · intro q hq
        rcases List.mem_cons.1 hq with rfl | hq
        · omega
        · exact h2 q hq
      · cases pre with
        | nil =>
          simp only [List.nil_append, List.cons.injEq] at h3
          refine ⟨[], c :: cs, ?_, by simp⟩
          rw [← h3.1]; rfl
        | cons p pre' =>
          simp only [List.cons_append, List.cons.injEq] at h3
          obtain ⟨rfl, h3⟩ := h3
          refine ⟨best :: c :: pre', post, congrArg (fun l => best :: c :: l) h3, ?_⟩
          intro q hq
          have hb := h4 best (by simp)
          rcases List.mem_cons.1 hq with rfl | hq
          · exact hb
          · rcases List.mem_cons.1 hq with rfl | hq
            · omega
            · exact h4 q (List.mem_cons_of_mem _ hq)

/-- **nearest**: for a non-empty reference list the result is a member at minimal distance from `x`, and it is the
first such member: everything before it in the list is strictly farther away. -/
theorem nearest_spec (refs : List Int) (hne : refs ≠ []) (x : Int) :
    ∃ r, nearest refs x = some r ∧ r ∈ refs ∧ (∀ q ∈ refs, tabs (r - x) ≤ tabs (q - x)) ∧
      ∃ pre post, refs = pre ++ r :: post ∧ ∀ q ∈ pre, tabs (r - x) < tabs (q - x) := by
  cases refs with
  | nil => exact absurd rfl hne
  | cons b rest =>
    obtain ⟨h1, h2, pre, post, h3, h4⟩ := nearest_fold x rest b
    refine ⟨_, rfl, ?_, ?_, pre, post, h3, h4⟩
    · rw [h3]; simp
    · intro q hq
      rcases List.mem_cons.1 hq with rfl | hq
      · exact h1
      · exact h2 q hq

theorem nearest_nil (x : Int) : nearest ([] : List Int) x = none := rfl

/-- the same with `Int.natAbs` as the distance -/
theorem nearest_spec_natAbs (refs : List Int) (hne : refs ≠ []) (x : Int) :
    ∃ r, nearest refs x = some r ∧ r ∈ refs ∧ (∀ q ∈ refs, (r - x).natAbs ≤ (q - x).natAbs) ∧
      ∃ pre post, refs = pre ++ r :: post ∧ ∀ q ∈ pre, (r - x).natAbs < (q - x).natAbs := by
  obtain ⟨r, h1, h2, h3, pre, post, h4, h5⟩ := nearest_spec refs hne x
  refine ⟨r, h1, h2, ?_, pre, post, h4, ?_⟩
  · intro q hq; have := h3 q hq; simp only [tabs_natAbs] at this; omega
  · intro q hq; have := h5 q hq; simp only [tabs_natAbs] at this; omega

/-! ## `my_math.lessThanOrEqual` -/

theorem close14_int (a b : Int) :
    Tm.close14 a b = true ↔ 100000000000000 * (a - b).natAbs ≤ max a.natAbs b.natAbs := by
  simp [Tm.close14]

theorem leq14_int (a b : Int) : leq14 a b = true ↔ a ≤ b ∨ Tm.close14 a b = true := by
  simp only [leq14, Bool.or_eq_true, decide_eq_true_eq, close14_int]
  omega

theorem leq14_of_le (a b : Int) (h : a ≤ b) : leq14 a b = true := (leq14_int a b).2 (Or.inl h)

/-- the slack is relative and tiny: beyond `b` only by `1e-14 · max a b` -/
theorem leq14_slack (a b : Int) (ha : 0 ≤ a) (hb : 0 < b) (h : leq14 a b = true) :
    100000000000000 * (a - b) ≤ max a b := by
  rw [leq14_int, close14_int] at h
  omega

/-- a negative bound admits nothing non-negative -/
theorem leq14_neg (a b : Int) (ha : 0 ≤ a) (hb : b < 0) : leq14 a b = false := by
  cases h : leq14 a b with
  | false => rfl
  | true => rw [leq14_int, close14_int] at h; omega

/-- monotone in the first argument on non-negative numbers -/
theorem leq14_mono (a' a b : Int) (h0 : 0 ≤ a') (hle : a' ≤ a) (h : leq14 a b = true) : leq14 a' b = true := by
  rw [leq14_int, close14_int] at *
  omega

/-! ## snap: one timestamp -/

/-- the value `snap` returns when the reference list is not empty -/
def snapV (refs : List Int) (md x : Int) : Int :=
  match nearest refs x with
  | some r => if leq14 (tabs (x - r)) md then r else x
  | none => x

theorem snap_empty (md x : Int) : snap ([] : List Int) md x = .error .ValueError := rfl

theorem snap_eq (refs : List Int) (hne : refs ≠ []) (md x : Int) : snap refs md x = .ok (snapV refs md x) := by
  obtain ⟨r, h1, _⟩ := nearest_spec refs hne x
  simp only [snap, snapV, h1]

/-- **snap**: with `r` the nearest reference (first minimiser), the timestamp is replaced by `r` when `|x - r| ≤ md`
(more precisely: when `lessThanOrEqual(|x - r|, md)`), and is returned untouched otherwise. -/
theorem snap_spec (refs : List Int) (hne : refs ≠ []) (md x : Int) :
    ∃ r, nearest refs x = some r ∧ r ∈ refs ∧ (∀ q ∈ refs, tabs (x - r) ≤ tabs (x - q)) ∧
      snap refs md x = .ok (if leq14 (tabs (x - r)) md then r else x) ∧
      (tabs (x - r) ≤ md → snap refs md x = .ok r) ∧
      (leq14 (tabs (x - r)) md = false → snap refs md x = .ok x) ∧
      (0 < md → 100000000000000 * (tabs (x - r) - md) > max (tabs (x - r)) md → snap refs md x = .ok x) := by
  obtain ⟨r, h1, h2, h3, _⟩ := nearest_spec refs hne x
  have hs : snap refs md x = .ok (if leq14 (tabs (x - r)) md then r else x) := by simp only [snap, h1]
  refine ⟨r, h1, h2, ?_, hs, ?_, ?_, ?_⟩
  · intro q hq; rw [tabs_sub_comm x r, tabs_sub_comm x q]; exact h3 q hq
  · intro h; rw [hs, leq14_of_le _ _ h]; rfl
  · intro h; rw [hs, h]; rfl
  · intro hmd h
    cases hl : leq14 (tabs (x - r)) md with
    | false => rw [hs, hl]; rfl
    | true =>
      have := leq14_slack _ _ (by rw [tabs_natAbs]; omega) hmd hl
      omega

/-- a returned timestamp is the old one or a reference timestamp; it differs from the old one only if the nearest
reference is within `md` (up to the 1e-14 slack) -/
theorem snap_ok (refs : List Int) (md x y : Int) (h : snap refs md x = .ok y) :
    refs ≠ [] ∧ (y = x ∨ y ∈ refs) ∧
    (y ≠ x → nearest refs x = some y ∧ leq14 (tabs (x - y)) md = true) := by
  have hne : refs ≠ [] := by rintro rfl; simp [snap_empty] at h
  obtain ⟨r, h1, h2, _, hs, _⟩ := snap_spec refs hne md x
  rw [hs] at h
  cases hl : leq14 (tabs (x - r)) md with
  | false => simp only [hl, Bool.false_eq_true, if_false, Except.ok.injEq] at h; subst h; simp [hne]
  | true =>
    simp only [hl, if_true, Except.ok.injEq] at h; subst h
    exact ⟨hne, Or.inr h2, fun _ => ⟨h1, hl⟩⟩

/-- snapping is monotone: timestamps never cross -/
theorem snapV_mono (refs : List Int) (md x y : Int) (hxy : x ≤ y) : snapV refs md x ≤ snapV refs md y := by
  by_cases hne : refs = []
  · subst hne; simpa [snapV, nearest] using hxy
  by_cases heq : x = y
  · subst heq; exact Int.le_refl _
  have hlt : x < y := by omega
  obtain ⟨r, hr1, hr2, hr3, _⟩ := nearest_spec refs hne x
  obtain ⟨q, hq1, hq2, hq3, _⟩ := nearest_spec refs hne y
  have a1 := hr3 q hq2
  have a2 := hq3 r hr2
  simp only [snapV, hr1, hq1]
  have e1 : tabs (x - r) = tabs (r - x) := tabs_sub_comm _ _
  have e2 : tabs (y - q) = tabs (q - y) := tabs_sub_comm _ _
  cases hx : leq14 (tabs (x - r)) md <;> cases hy : leq14 (tabs (y - q)) md <;>
    simp only [Bool.false_eq_true, if_false, if_true]
  · exact hxy
  · -- x stays, y moves to q: q < x would make x's nearest reference at least as close
    by_cases hc : x ≤ q
    · exact hc
    · exfalso
      have h0 : 0 ≤ tabs (x - r) := by rw [tabs_natAbs]; omega
      have hle : tabs (x - r) ≤ tabs (y - q) := by
        have := hr3 q hq2
        simp only [tabs_int] at *; split at this <;> split at this <;> split <;> split <;> omega
      rw [leq14_mono _ _ md h0 hle hy] at hx
      cases hx
  · by_cases hc : r ≤ y
    · exact hc
    · exfalso
      have h0 : 0 ≤ tabs (y - q) := by rw [tabs_natAbs]; omega
      have hle : tabs (y - q) ≤ tabs (x - r) := by
        have := hq3 r hr2
        simp only [tabs_int] at *; split at this <;> split at this <;> split <;> split <;> omega
      rw [leq14_mono _ _ md h0 hle hx] at hy
      cases hy
  · simp only [tabs_int] at a1 a2
    split at a1 <;> split at a1 <;> split at a2 <;> split at a2 <;> omega

/-! ## dejitter on interval tiers -/

theorem mapM_ok {β γ : Type} (f : β → Except Err γ) (g : β → γ) (l : List β) (h : ∀ a ∈ l, f a = .ok (g a)) :
    l.mapM f = .ok (l.map g) := by
  induction l with
  | nil => rfl
  | cons a l ih =>
    rw [List.mapM_cons, h a (by simp), ih (fun b hb => h b (List.mem_cons_of_mem _ hb))]
    rfl

/-- both boundaries of one interval snapped, label kept -/
def snapIv (refs : List Int) (md : Int) (iv : Iv Int) : Iv Int :=
  ⟨snapV refs md iv.s, snapV refs md iv.e, iv.l⟩

/-- `dejitter` is the constructor applied to the pointwise snapped entries -/
theorem dejitter_unfold (t : ITier Int) (refs : List Int) (hne : refs ≠ []) (md : Int) :
    t.dejitter refs md = mkITier t.name (t.es.map (snapIv refs md)) (some t.lo) (some t.hi) := by
  have he : refs.isEmpty = false := by cases refs <;> simp_all
  have hm : (t.es.mapM fun iv => do
      let s ← snap refs md iv.s
      let e ← snap refs md iv.e
      pure (⟨s, e, iv.l⟩ : Iv Int)) = .ok (t.es.map (snapIv refs md)) := by
    apply mapM_ok
    intro iv _
    rw [snap_eq refs hne, snap_eq refs hne]; rfl
  unfold ITier.dejitter
  rw [hm, he]
  rfl

/-- **empty reference**: `ArgumentError` -/
theorem dejitter_empty_ref (t : ITier Int) (md : Int) : t.dejitter [] md = .error .ArgumentError := rfl
theorem pdejitter_empty_ref (t : PTier Int) (md : Int) : t.dejitter [] md = .error .ArgumentError := rfl

theorem snapIv_label (refs : List Int) (md : Int) (es : List (Iv Int)) :
    (es.map (snapIv refs md)).map (·.l) = es.map (·.l) := by
  simp [snapIv, Function.comp_def]

/-- the snapped image of a time-ordered list is time-ordered (boundaries never cross) -/
theorem snapIv_disj (refs : List Int) (md : Int) (es : List (Iv Int)) (hd : Disj es) :
    Disj (es.map (snapIv refs md)) := by
  unfold Disj at *
  rw [List.pairwise_map]
  exact hd.imp (fun h => snapV_mono refs md _ _ h)

theorem snapIv_le (refs : List Int) (md : Int) (iv : Iv Int) (h : iv.s < iv.e) :
    (snapIv refs md iv).s ≤ (snapIv refs md iv).e := snapV_mono refs md _ _ (by omega)

theorem snapIv_stripped (refs : List Int) (md : Int) (es : List (Iv Int)) (hs : Stripped es) :
    Stripped (es.map (snapIv refs md)) := by
  intro o ho
  obtain ⟨iv, hiv, rfl⟩ := List.mem_map.1 ho
  exact hs iv hiv

/-- the constructor rejects a list with a non-positive interval, wherever sorting puts it -/
theorem mkITier_error_of_not_pos (name : String) (es : List (Iv Int)) (lo hi : Int) (hs : Stripped es)
    (hp : ¬ Pos es) : mkITier name es (some lo) (some hi) = .error .TextgridStateError := by
  unfold mkITier
  simp only [map_strip_of_stripped es hs, Option.toList_some, pyMinList_append_single, pyMaxList_append_single]
  have : ivsAllPos (sortIvs es) = false := by
    cases h : ivsAllPos (sortIvs es) with
    | false => rfl
    | true => exact absurd (pos_perm ((ivsAllPos_iff _).1 h) (sortIvs_perm es)) hp
  rw [this]
  rfl

/-- **dejitter, interval tiers.**  On a well-formed tier and a non-empty reference the snapped entries are always in
time order and no interval is turned around.  If none collapses, the call returns exactly the pointwise snapped
entries (same count, same order, same labels), as a well-formed tier whose span is the hull of the old span and the
new entries; if one collapses (`start = end` after snapping) the call raises `TextgridStateError`. -/
theorem dejitter_spec (t : ITier Int) (hwf : t.WF) (refs : List Int) (hne : refs ≠ []) (md : Int) :
    Disj (t.es.map (snapIv refs md)) ∧
    (∀ iv ∈ t.es, (snapIv refs md iv).s ≤ (snapIv refs md iv).e) ∧
    (Pos (t.es.map (snapIv refs md)) →
      ∃ t', t.dejitter refs md = .ok t' ∧ t'.WF ∧ t'.name = t.name ∧ t'.es = t.es.map (snapIv refs md) ∧
        t'.lo = hullMin (t'.es.map (·.s)) t.lo ∧ t'.hi = hullMax (t'.es.map (·.e)) t.hi) ∧
    (¬ Pos (t.es.map (snapIv refs md)) → t.dejitter refs md = .error .TextgridStateError) := by
  have hd := snapIv_disj refs md t.es hwf.disj
  have hs := snapIv_stripped refs md t.es hwf.stripped
  refine ⟨hd, fun iv hiv => snapIv_le refs md iv (hwf.pos iv hiv), ?_, ?_⟩
  · intro hp
    obtain ⟨t', h1, h2, h3, h4, h5, h6⟩ := mkITier_wf t.name _ t.lo t.hi hwf.span hp hd hs
    refine ⟨t', by rw [dejitter_unfold t refs hne]; exact h1, h2, h4, h3, ?_, ?_⟩
    · rw [h3]; exact h5
    · rw [h3]; exact h6
  · intro hp
    rw [dejitter_unfold t refs hne]
    exact mkITier_error_of_not_pos _ _ _ _ hs hp

/-- the failure case is exactly a collapsed interval -/
theorem dejitter_error_iff_collapse (t : ITier Int) (hwf : t.WF) (refs : List Int) (hne : refs ≠ []) (md : Int) :
    t.dejitter refs md = .error .TextgridStateError ↔
      ∃ iv ∈ t.es, snapV refs md iv.s = snapV refs md iv.e := by
  obtain ⟨_, hle, hok, herr⟩ := dejitter_spec t hwf refs hne md
  constructor
  · intro h
    apply Classical.byContradiction
    intro hno
    have hp : Pos (t.es.map (snapIv refs md)) := by
      intro o ho
      obtain ⟨iv, hiv, rfl⟩ := List.mem_map.1 ho
      have h1 := hle iv hiv
      have h2 : ¬ snapV refs md iv.s = snapV refs md iv.e := fun he => hno ⟨iv, hiv, he⟩
      simp only [snapIv] at *
      omega
    obtain ⟨t', h1, _⟩ := hok hp
    rw [h1] at h; cases h
  · rintro ⟨iv, hiv, he⟩
    apply herr
    intro hp
    have := hp _ (List.mem_map_of_mem hiv)
    simp only [snapIv] at this
    omega

/-- on success: well-formed, same name, exactly the pointwise snapped entries; hence the same number of entries
and the same labels in the same order -/
theorem dejitter_ok (t : ITier Int) (hwf : t.WF) (refs : List Int) (md : Int) (t' : ITier Int)
    (h : t.dejitter refs md = .ok t') :
    refs ≠ [] ∧ t'.WF ∧ t'.name = t.name ∧ t'.es = t.es.map (snapIv refs md) ∧
    t'.es.length = t.es.length ∧ t'.es.map (·.l) = t.es.map (·.l) := by
  have hne : refs ≠ [] := by rintro rfl; rw [dejitter_empty_ref] at h; cases h
  obtain ⟨_, _, hok, herr⟩ := dejitter_spec t hwf refs hne md
  by_cases hp : Pos (t.es.map (snapIv refs md))
  · obtain ⟨t'', h1, h2, h3, h4, _⟩ := hok hp
    rw [h] at h1; cases h1
    refine ⟨hne, h2, h3, h4, by rw [h4, List.length_map], by rw [h4, snapIv_label]⟩
  · rw [herr hp] at h; cases h

theorem dejitter_ok_wf (t : ITier Int) (hwf : t.WF) (refs : List Int) (md : Int) (t' : ITier Int)
    (h : t.dejitter refs md = .ok t') : t'.WF := (dejitter_ok t hwf refs md t' h).2.1

/-- a well-formed image is returned as it is -/
theorem dejitter_ok_of_wf_image (t : ITier Int) (hwf : t.WF) (refs : List Int) (hne : refs ≠ []) (md : Int)
    (hp : Pos (t.es.map (snapIv refs md))) (_hd : Disj (t.es.map (snapIv refs md))) :
    ∃ t', t.dejitter refs md = .ok t' ∧ t'.es = t.es.map (snapIv refs md) := by
  obtain ⟨t', h1, _, _, h4, _⟩ := (dejitter_spec t hwf refs hne md).2.2.1 hp
  exact ⟨t', h1, h4⟩

/-- every boundary of the result: moved to its nearest reference iff within `md` of it, else untouched -/
theorem dejitter_pointwise (t : ITier Int) (hwf : t.WF) (refs : List Int) (md : Int) (t' : ITier Int)
    (h : t.dejitter refs md = .ok t') (i : Nat) (iv iv' : Iv Int) (hi : t.es[i]? = some iv) (hi' : t'.es[i]? = some iv') :
    snap refs md iv.s = .ok iv'.s ∧ snap refs md iv.e = .ok iv'.e ∧ iv'.l = iv.l := by
  obtain ⟨hne, _, _, h4, _⟩ := dejitter_ok t hwf refs md t' h
  rw [h4, List.getElem?_map, hi] at hi'
  simp only [Option.map_some, Option.some.injEq] at hi'
  subst hi'
  exact ⟨snap_eq refs hne md iv.s, snap_eq refs hne md iv.e, rfl⟩

/-! ## dejitter on point tiers -/

theorem Pt.le_trans' (a b c : Pt Int) (h1 : Pt.le a b = true) (h2 : Pt.le b c = true) : Pt.le a c = true := by
  obtain ⟨at', al⟩ := a; obtain ⟨bt, bl⟩ := b; obtain ⟨ct, cl⟩ := c
  simp only [Pt.le] at *
  by_cases h : at' < ct
  · simp [h]
  · have : ¬ bt < at' := by intro hb; simp [hb, show ¬ at' < bt by omega] at h1
    have : ¬ ct < bt := by intro hb; simp [hb, show ¬ bt < ct by omega] at h2
    have e1 : at' = bt := by omega
    have e2 : bt = ct := by omega
    subst e1; subst e2
    simp only [Int.lt_irrefl, if_false, decide_eq_true_eq] at *
    exact String.le_trans h1 h2

theorem Pt.le_total' (a b : Pt Int) : (Pt.le a b || Pt.le b a) = true := by
  obtain ⟨at', al⟩ := a; obtain ⟨bt, bl⟩ := b
  simp only [Pt.le]
  by_cases h1 : at' < bt
  · simp [h1]
  · by_cases h2 : bt < at'
    · simp [h1, h2]
    · simp only [h1, h2, if_false, Bool.or_eq_true, decide_eq_true_eq]
      exact String.le_total al bl

theorem sortPts_pairwise (ps : List (Pt Int)) : (sortPts ps).Pairwise (fun a b => Pt.le a b = true) :=
  List.pairwise_mergeSort (fun a b c => Pt.le_trans' a b c) Pt.le_total' ps

theorem sortPts_perm (ps : List (Pt Int)) : (sortPts ps).Perm ps := List.mergeSort_perm ps _

theorem map_strip_pts (ps : List (Pt Int)) (hs : ∀ p ∈ ps, pyStrip p.l = p.l) :
    ps.map (fun p => { p with l := pyStrip p.l }) = ps := by
  induction ps with
  | nil => rfl
  | cons x xs ih =>
    have hx := hs x (by simp)
    simp only [List.map_cons]
    rw [ih (fun i hi => hs i (List.mem_cons_of_mem _ hi))]
    congr 1
    obtain ⟨t, l⟩ := x
    simp_all

/-- the point-tier constructor on stripped entries in any order: sorts, never fails, spans the hull -/
theorem mkPTier_any (name : String) (ps : List (Pt Int)) (lo hi : Int)
    (hs : ∀ p ∈ ps, pyStrip p.l = p.l) :
    ∃ t, mkPTier name ps (some lo) (some hi) = .ok t ∧ t.WF ∧ t.ps = sortPts ps ∧ t.name = name ∧
      t.lo = hullMin ((sortPts ps).map (·.t) ++ [lo]) hi ∧ t.hi = hullMax ((sortPts ps).map (·.t) ++ [lo]) hi := by
  have hmem : ∀ p, p ∈ sortPts ps ↔ p ∈ ps := fun p => (sortPts_perm ps).mem_iff
  refine ⟨⟨name, sortPts ps, hullMin ((sortPts ps).map (·.t) ++ [lo]) hi,
    hullMax ((sortPts ps).map (·.t) ++ [lo]) hi⟩, ?_, ?_, rfl, rfl, rfl, rfl⟩
  · unfold mkPTier
    simp only [map_strip_pts ps hs, Option.toList_some, pyMinList_append_single, pyMaxList_append_single]
  · have h1 := hullMin_le ((sortPts ps).map (·.t) ++ [lo]) hi
    have h2 := hullMax_ge ((sortPts ps).map (·.t) ++ [lo]) hi
    exact {
      sorted := sortPts_pairwise ps
      stripped := fun p hp => hs p ((hmem p).1 hp)
      inLo := fun p hp => h1.2 _ (by simp only [List.mem_append, List.mem_map]; exact Or.inl ⟨p, hp, rfl⟩)
      inHi := fun p hp => h2.2 _ (by simp only [List.mem_append, List.mem_map]; exact Or.inl ⟨p, hp, rfl⟩)
      span := by have := h1.1; have := h2.1; simp only; omega }

def snapPt (refs : List Int) (md : Int) (p : Pt Int) : Pt Int := ⟨snapV refs md p.t, p.l⟩

theorem pdejitter_unfold (t : PTier Int) (refs : List Int) (hne : refs ≠ []) (md : Int) :
    t.dejitter refs md = mkPTier t.name (t.ps.map (snapPt refs md)) (some t.lo) (some t.hi) := by
  have he : refs.isEmpty = false := by cases refs <;> simp_all
  have hm : (t.ps.mapM fun p => do
      let x ← snap refs md p.t
      pure (⟨x, p.l⟩ : Pt Int)) = .ok (t.ps.map (snapPt refs md)) := by
    apply mapM_ok
    intro p _
    rw [snap_eq refs hne]; rfl
  unfold PTier.dejitter
  rw [hm, he]
  rfl

/-- **dejitter, point tiers.**  With a non-empty reference the call never fails.  The result is well-formed; its points
are the pointwise snapped points, re-sorted (points that land on the same timestamp are ordered by label): the count and
the multiset of labels are preserved, and when the snapped list is already sorted it is returned as it is. -/
theorem pdejitter_spec (t : PTier Int) (hwf : t.WF) (refs : List Int) (hne : refs ≠ []) (md : Int) :
    ∃ t', t.dejitter refs md = .ok t' ∧ t'.WF ∧ t'.name = t.name ∧
      t'.ps = sortPts (t.ps.map (snapPt refs md)) ∧
      t'.ps.Perm (t.ps.map (snapPt refs md)) ∧
      t'.ps.length = t.ps.length ∧
      (t'.ps.map (·.l)).Perm (t.ps.map (·.l)) ∧
      ((t.ps.map (snapPt refs md)).Pairwise (fun a b => Pt.le a b = true) → t'.ps = t.ps.map (snapPt refs md)) ∧
      (∀ p' ∈ t'.ps, ∃ p ∈ t.ps, snap refs md p.t = .ok p'.t ∧ p'.l = p.l) := by
  have hs : ∀ p ∈ t.ps.map (snapPt refs md), pyStrip p.l = p.l := by
    intro o ho
    obtain ⟨p, hp, rfl⟩ := List.mem_map.1 ho
    exact hwf.stripped p hp
  obtain ⟨t', h1, h2, h3, h4, _, _⟩ := mkPTier_any t.name _ t.lo t.hi hs
  have hperm : t'.ps.Perm (t.ps.map (snapPt refs md)) := by rw [h3]; exact sortPts_perm _
  refine ⟨t', by rw [pdejitter_unfold t refs hne]; exact h1, h2, h4, h3, hperm, ?_, ?_, ?_, ?_⟩
  · rw [hperm.length_eq, List.length_map]
  · have := hperm.map (·.l)
    simpa [snapPt, Function.comp_def] using this
  · intro hsrt; rw [h3]; exact List.mergeSort_of_pairwise hsrt
  · intro p' hp'
    obtain ⟨p, hp, rfl⟩ := List.mem_map.1 (hperm.mem_iff.1 hp')
    exact ⟨p, hp, snap_eq refs hne md p.t, rfl⟩

/-- snapped times of a sorted point list stay in (weak) time order: only ties can be re-ordered -/
theorem snapPt_times_sorted (t : PTier Int) (hwf : t.WF) (refs : List Int) (md : Int) :
    (t.ps.map (snapPt refs md)).Pairwise (fun a b => a.t ≤ b.t) := by
  rw [List.pairwise_map]
  exact hwf.sorted.imp (fun h => snapV_mono refs md _ _ (Pt.le_time h))

/-! ## morph -/

/-- where the next new interval starts -/
def newStart (prev : Option (Int × Int)) (src : Iv Int) : Int :=
  match prev with
  | none => src.s
  | some (lastSrcEnd, lastNewEnd) => lastNewEnd + (src.s - lastSrcEnd)

/-- the duration the new interval gets -/
def morphDur (sel : String → Bool) (src tgt : Iv Int) : Int :=
  if sel src.l then tgt.e - tgt.s else src.e - src.s

theorem morphGo_cons (sel : String → Bool) (prev : Option (Int × Int)) (src tgt : Iv Int) (ss ts : List (Iv Int)) :
    morphGo sel prev (src :: ss) (tgt :: ts) =
      ⟨newStart prev src, newStart prev src + morphDur sel src tgt, src.l⟩ ::
        morphGo sel (some (src.e, newStart prev src + morphDur sel src tgt)) ss ts := by
  rcases prev with _ | ⟨a, b⟩ <;> rfl

theorem morphGo_nil_left (sel : String → Bool) (prev : Option (Int × Int)) (ts : List (Iv Int)) :
    morphGo sel prev [] ts = [] := by
  unfold morphGo; rfl

theorem morphGo_length (sel : String → Bool) (prev : Option (Int × Int)) (ss ts : List (Iv Int))
    (hl : ss.length = ts.length) : (morphGo sel prev ss ts).length = ss.length := by
  induction ss generalizing prev ts with
  | nil => simp [morphGo_nil_left]
  | cons src ss ih =>
    cases ts with
    | nil => simp at hl
    | cons tgt ts =>
      rw [morphGo_cons, List.length_cons, List.length_cons, ih _ ts (by simpa using hl)]

theorem morphGo_labels (sel : String → Bool) (prev : Option (Int × Int)) (ss ts : List (Iv Int))
    (hl : ss.length = ts.length) : (morphGo sel prev ss ts).map (·.l) = ss.map (·.l) := by
  induction ss generalizing prev ts with
  | nil => simp [morphGo_nil_left]
  | cons src ss ih =>
    cases ts with
    | nil => simp at hl
    | cons tgt ts =>
      rw [morphGo_cons, List.map_cons, List.map_cons, ih _ ts (by simpa using hl)]

/-- entry `i` of the result: label of source `i`; duration of target `i` if selected, else of source `i` -/
theorem morphGo_dur (sel : String → Bool) (prev : Option (Int × Int)) (ss ts : List (Iv Int)) (i : Nat)
    (a b c : Iv Int) (ha : (morphGo sel prev ss ts)[i]? = some a) (hb : ss[i]? = some b) (hc : ts[i]? = some c) :
    a.l = b.l ∧ a.e - a.s = (if sel b.l then c.e - c.s else b.e - b.s) := by
  induction ss generalizing prev ts i with
  | nil => simp at hb
  | cons src ss ih =>
    cases ts with
    | nil => simp at hc
    | cons tgt ts =>
      rw [morphGo_cons] at ha
      cases i with
      | zero =>
        simp only [List.getElem?_cons_zero, Option.some.injEq] at ha hb hc
        subst ha; subst hb; subst hc
        refine ⟨rfl, ?_⟩
        simp only [morphDur]
        omega
      | succ j =>
        simp only [List.getElem?_cons_succ] at ha hb hc
        exact ih _ ts j ha hb hc

/-- the first new interval starts where the first source interval starts (or follows `prev` at the old gap) -/
theorem morphGo_head (sel : String → Bool) (prev : Option (Int × Int)) (ss ts : List (Iv Int))
    (a b : Iv Int) (ha : (morphGo sel prev ss ts)[0]? = some a) (hb : ss[0]? = some b) :
    a.s = newStart prev b := by
  cases ss with
  | nil => simp at hb
  | cons src ss =>
    cases ts with
    | nil => simp [morphGo] at ha
    | cons tgt ts =>
      rw [morphGo_cons] at ha
      simp only [List.getElem?_cons_zero, Option.some.injEq] at ha hb
      subst ha; subst hb; rfl

/-- gaps between consecutive intervals are those of the source -/
theorem morphGo_gap (sel : String → Bool) (prev : Option (Int × Int)) (ss ts : List (Iv Int)) (i : Nat)
    (a a' b b' : Iv Int) (ha : (morphGo sel prev ss ts)[i]? = some a) (ha' : (morphGo sel prev ss ts)[i + 1]? = some a')
    (hb : ss[i]? = some b) (hb' : ss[i + 1]? = some b') : a'.s - a.e = b'.s - b.e := by
  induction ss generalizing prev ts i with
  | nil => simp at hb
  | cons src ss ih =>
    cases ts with
    | nil => simp [morphGo] at ha
    | cons tgt ts =>
      rw [morphGo_cons] at ha ha'
      simp only [List.getElem?_cons_succ] at ha' hb'
      cases i with
      | zero =>
        simp only [List.getElem?_cons_zero, Option.some.injEq] at ha hb
        have h : a'.s = (newStart prev src + morphDur sel src tgt) + (b'.s - src.e) :=
          morphGo_head sel _ ss ts a' b' ha' hb'
        subst ha; subst hb
        simp only; omega
      | succ j =>
        simp only [List.getElem?_cons_succ] at ha hb
        exact ih _ ts j ha ha' hb hb'

/-- **morph, the new entry list.**  Same count; labels equal pointwise; entry `i` has the duration of target `i` when
its label is selected and its own old duration otherwise; the first start is unchanged; the gap between consecutive
entries is unchanged. -/
theorem morph_spec (sel : String → Bool) (t u : ITier Int) (hl : t.es.length = u.es.length) :
    (morphGo sel none t.es u.es).length = t.es.length ∧
    (morphGo sel none t.es u.es).map (·.l) = t.es.map (·.l) ∧
    (∀ (i : Nat) (a b c : Iv Int), (morphGo sel none t.es u.es)[i]? = some a → t.es[i]? = some b → u.es[i]? = some c →
      a.l = b.l ∧ a.e - a.s = (if sel b.l then c.e - c.s else b.e - b.s)) ∧
    (∀ (a b : Iv Int), (morphGo sel none t.es u.es)[0]? = some a → t.es[0]? = some b → a.s = b.s) ∧
    (∀ (i : Nat) (a a' b b' : Iv Int), (morphGo sel none t.es u.es)[i]? = some a → (morphGo sel none t.es u.es)[i + 1]? = some a' →
      t.es[i]? = some b → t.es[i + 1]? = some b' → a'.s - a.e = b'.s - b.e) :=
  ⟨morphGo_length sel none _ _ hl, morphGo_labels sel none _ _ hl,
   fun i a b c => morphGo_dur sel none _ _ i a b c,
   fun a b ha hb => morphGo_head sel none _ _ a b ha hb,
   fun i a a' b b' => morphGo_gap sel none _ _ i a a' b b'⟩

/-- the new entries of a well-formed source against positive target durations are well-formed, and none starts
before the first one -/
theorem morphGo_wf (sel : String → Bool) (prev : Option (Int × Int)) (ss ts : List (Iv Int))
    (hl : ss.length = ts.length) (hps : Pos ss) (hds : Disj ss) (hpt : Pos ts) :
    Pos (morphGo sel prev ss ts) ∧ Disj (morphGo sel prev ss ts) ∧
    ∀ iv ∈ morphGo sel prev ss ts, ∀ f, ss.head? = some f → newStart prev f ≤ iv.s := by
  induction ss generalizing prev ts with
  | nil => simp [morphGo_nil_left, Pos, Disj]
  | cons src ss ih =>
    cases ts with
    | nil => simp at hl
    | cons tgt ts =>
      rw [morphGo_cons]
      obtain ⟨hd1, hd2⟩ := hds.cons
      have hsrc := hps src (by simp)
      have htgt := hpt tgt (by simp)
      have hdur : 0 < morphDur sel src tgt := by simp only [morphDur]; split <;> omega
      obtain ⟨i1, i2, i3⟩ := ih (some (src.e, newStart prev src + morphDur sel src tgt)) ts
        (by simpa using hl) (pos_tail hps) hd2 (pos_tail hpt)
      have hge : ∀ iv ∈ morphGo sel (some (src.e, newStart prev src + morphDur sel src tgt)) ss ts,
          newStart prev src + morphDur sel src tgt ≤ iv.s := by
        intro iv hiv
        cases ss with
        | nil => simp [morphGo_nil_left] at hiv
        | cons f ss' =>
          have h1 : (newStart prev src + morphDur sel src tgt) + (f.s - src.e) ≤ iv.s := i3 iv hiv f rfl
          have h2 := hd1 f (by simp)
          omega
      refine ⟨?_, ?_, ?_⟩
      · intro iv hiv
        rcases List.mem_cons.1 hiv with rfl | hiv
        · simp only; omega
        · exact i1 iv hiv
      · exact List.pairwise_cons.2 ⟨fun iv hiv => hge iv hiv, i2⟩
      · intro iv hiv f hf
        simp only [List.head?_cons, Option.some.injEq] at hf
        subst hf
        rcases List.mem_cons.1 hiv with rfl | hiv
        · exact Int.le_refl _
        · have := hge iv hiv; omega

/-- in a positive, time-ordered list nothing ends after the last entry -/
theorem disj_le_last (es : List (Iv Int)) (hp : Pos es) (hd : Disj es) (g : Iv Int) (hg : es.getLast? = some g) :
    ∀ iv ∈ es, iv.e ≤ g.e := by
  obtain ⟨ys, rfl⟩ := List.getLast?_eq_some_iff.1 hg
  intro iv hiv
  rcases List.mem_append.1 hiv with h | h
  · have h1 := (List.pairwise_append.1 hd).2.2 iv h g (by simp)
    have h2 := hp g (by simp)
    omega
  · simp only [List.mem_singleton] at h; subst h; exact Int.le_refl _

theorem morphGo_stripped (sel : String → Bool) (prev : Option (Int × Int)) (ss ts : List (Iv Int))
    (hl : ss.length = ts.length) (hs : Stripped ss) : Stripped (morphGo sel prev ss ts) := by
  intro iv hiv
  have : iv.l ∈ (morphGo sel prev ss ts).map (·.l) := List.mem_map_of_mem hiv
  rw [morphGo_labels sel prev ss ts hl] at this
  obtain ⟨src, hsrc, he⟩ := List.mem_map.1 this
  rw [← he]; exact hs src hsrc

/-- **morph succeeds on well-formed tiers of equal, non-zero length**: the result is well-formed, its entries are the
re-timed ones of `morph_spec`, name and start of the span are kept, and the gap between the last entry and the end
of the span is the old one. -/
theorem morph_ok (sel : String → Bool) (t u : ITier Int) (ht : t.WF) (hu : u.WF)
    (hl : t.es.length = u.es.length) (hne : t.es ≠ []) :
    ∃ t' ne oe, t.morph u sel = .ok t' ∧ t'.WF ∧ t'.es = morphGo sel none t.es u.es ∧ t'.name = t.name ∧
      t'.lo = t.lo ∧ t'.es.getLast? = some ne ∧ t.es.getLast? = some oe ∧ t'.hi - ne.e = t.hi - oe.e := by
  have hlen := morphGo_length sel none t.es u.es hl
  obtain ⟨hp, hd, hlow⟩ := morphGo_wf sel none t.es u.es hl ht.pos ht.disj hu.pos
  have hs := morphGo_stripped sel none t.es u.es hl ht.stripped
  have hne' : morphGo sel none t.es u.es ≠ [] := by
    intro h; rw [h] at hlen; exact hne (List.eq_nil_of_length_eq_zero hlen.symm)
  obtain ⟨ne, hne2⟩ : ∃ ne, (morphGo sel none t.es u.es).getLast? = some ne :=
    ⟨_, List.getLast?_eq_some_getLast hne'⟩
  obtain ⟨oe, hoe⟩ : ∃ oe, t.es.getLast? = some oe := ⟨_, List.getLast?_eq_some_getLast hne⟩
  obtain ⟨f, hf⟩ : ∃ f, t.es.head? = some f := by
    cases h : t.es with
    | nil => exact absurd h hne
    | cons f _ => exact ⟨f, rfl⟩
  have hfm : f ∈ t.es := List.mem_of_head? hf
  have hnem : ne ∈ morphGo sel none t.es u.es := List.mem_of_getLast? hne2
  have hoem : oe ∈ t.es := List.mem_of_getLast? hoe
  have hlo : ∀ iv ∈ morphGo sel none t.es u.es, t.lo ≤ iv.s := by
    intro iv hiv
    have h1 := hlow iv hiv f hf
    have h2 := ht.inLo f hfm
    simp only [newStart] at h1
    omega
  have hgap : 0 ≤ t.hi - oe.e := by have := ht.inHi oe hoem; omega
  have hlast := disj_le_last _ hp hd ne hne2
  have hspan : t.lo ≤ ne.e + (t.hi - oe.e) := by
    have := hlo ne hnem; have := hp ne hnem; omega
  obtain ⟨t', h1, h2, h3, h4, h5, h6⟩ :=
    mkITier_wf t.name (morphGo sel none t.es u.es) t.lo (ne.e + (t.hi - oe.e)) hspan hp hd hs
  have e5 : t'.lo = t.lo := by
    rw [h5]; apply hullMin_eq_of_le
    intro x hx; obtain ⟨iv, hiv, rfl⟩ := List.mem_map.1 hx; exact hlo iv hiv
  have e6 : t'.hi = ne.e + (t.hi - oe.e) := by
    rw [h6]; apply hullMax_eq_of_ge
    intro x hx; obtain ⟨iv, hiv, rfl⟩ := List.mem_map.1 hx
    have := hlast iv hiv; omega
  refine ⟨t', ne, oe, ?_, h2, h3, h4, e5, by rw [h3]; exact hne2, hoe, by rw [e6]; omega⟩
  unfold ITier.morph
  have hemp : (t.es.isEmpty && u.es.isEmpty) = false := by
    cases h : t.es with
    | nil => exact absurd h hne
    | cons _ _ => rfl
  simp only [hemp, Bool.false_eq_true, if_false, hl, ne_eq, not_true_eq_false, hne2, hoe]
  exact h1

/-- **unequal lengths**: `SafeZipException` -/
theorem morph_mismatch (sel : String → Bool) (t u : ITier Int) (hl : t.es.length ≠ u.es.length) :
    t.morph u sel = .error .SafeZipException := by
  unfold ITier.morph
  have hemp : (t.es.isEmpty && u.es.isEmpty) = false := by
    cases h1 : t.es with
    | nil =>
      cases h2 : u.es with
      | nil => rw [h1, h2] at hl; exact absurd rfl hl
      | cons _ _ => rfl
    | cons _ _ => rfl
  simp only [hemp, Bool.false_eq_true, if_false, ne_eq, hl, not_false_eq_true, if_true]

/-- **both empty**: a copy -/
theorem morph_empty (sel : String → Bool) (t u : ITier Int) (h1 : t.es = []) (h2 : u.es = []) :
    t.morph u sel = t.new := by
  unfold ITier.morph
  simp [h1, h2]

/-- the copy of a well-formed tier is the tier -/
theorem new_of_wf (t : ITier Int) (h : t.WF) : t.new = .ok t := by
  unfold ITier.new
  simp only [Option.getD_none]
  rw [mkITier_of_wf t.name t.es t.lo t.hi h.span h.pos h.disj h.stripped,
    hullMin_eq_of_le _ _ (by intro x hx; obtain ⟨iv, hiv, rfl⟩ := List.mem_map.1 hx; exact h.inLo iv hiv),
    hullMax_eq_of_ge _ _ (by intro x hx; obtain ⟨iv, hiv, rfl⟩ := List.mem_map.1 hx; exact h.inHi iv hiv)]

theorem morph_empty_wf (sel : String → Bool) (t u : ITier Int) (ht : t.WF) (h1 : t.es = []) (h2 : u.es = []) :
    t.morph u sel = .ok t := by
  rw [morph_empty sel t u h1 h2, new_of_wf t ht]

/-! ## alignBoundariesAcrossTiers -/

theorem pyListInsert_mid {β : Type} (l1 l2 : List β) (t : β) :
    pyListInsert (l1 ++ l2) (l1.length : Int) t = l1 ++ t :: l2 := by
  have h1 : ¬ ((l1.length : Int) < 0) := by omega
  have h2 : ¬ ((l1.length : Int) > ((l1 ++ l2).length : Int)) := by rw [List.length_append]; omega
  simp only [pyListInsert, h1, h2, if_false, Int.toNat_natCast, List.take_left, List.drop_left]

/-- a uniquely named tier splits the tier list around it -/
theorem split_at_name (tiers : List (AnyTier Int)) (n : String) (hnd : (tiers.map (·.name)).Nodup)
    (hmem : n ∈ tiers.map (·.name)) :
    ∃ l1 x l2, tiers = l1 ++ x :: l2 ∧ x.name = n ∧ (∀ y ∈ l1, y.name ≠ n) ∧ (∀ y ∈ l2, y.name ≠ n) := by
  obtain ⟨x, hx, hxn⟩ := List.mem_map.1 hmem
  obtain ⟨l1, l2, rfl⟩ := List.append_of_mem hx
  refine ⟨l1, x, l2, rfl, hxn, ?_, ?_⟩
  · intro y hy he
    rw [List.map_append, List.map_cons, List.nodup_append] at hnd
    exact hnd.2.2 y.name (List.mem_map_of_mem hy) x.name (by simp) (by rw [he, hxn])
  · intro y hy he
    rw [List.map_append, List.map_cons, List.nodup_append, List.nodup_cons] at hnd
    exact hnd.2.1.1 (by rw [hxn, ← he]; exact List.mem_map_of_mem hy)

theorem findIdx_name (l1 l2 : List (AnyTier Int)) (x : AnyTier Int) (n : String) (hx : x.name = n)
    (h1 : ∀ y ∈ l1, y.name ≠ n) :
    ((l1 ++ x :: l2).map (·.name)).findIdx? (· == n) = some l1.length := by
  induction l1 with
  | nil => simp [List.findIdx?_cons, hx]
  | cons y ys ih =>
    have hy : y.name ≠ n := h1 y (by simp)
    have := ih (fun z hz => h1 z (List.mem_cons_of_mem _ hz))
    simp only [List.cons_append, List.map_cons, List.findIdx?_cons, beq_iff_eq, hy, if_false, this,
      Option.map_some, List.length_cons]

theorem filter_name (l1 l2 : List (AnyTier Int)) (x : AnyTier Int) (n : String) (hx : x.name = n)
    (h1 : ∀ y ∈ l1, y.name ≠ n) (h2 : ∀ y ∈ l2, y.name ≠ n) :
    (l1 ++ x :: l2).filter (·.name != n) = l1 ++ l2 := by
  rw [List.filter_append, List.filter_cons]
  have e1 : l1.filter (·.name != n) = l1 := List.filter_eq_self.2 (fun y hy => by simpa using h1 y hy)
  have e2 : l2.filter (·.name != n) = l2 := List.filter_eq_self.2 (fun y hy => by simpa using h2 y hy)
  simp [e1, e2, hx]

/-- `replaceTier` of a uniquely named tier by one of the same name: same position, nothing else touched -/
theorem replaceTier_same_name (g : Tg Int) (t' : AnyTier Int) (hnd : g.names.Nodup) (hmem : t'.name ∈ g.names) :
    ∃ g', g.replaceTier t'.name t' .warning = .ok g' ∧ g'.names = g.names ∧
      g'.getTier t'.name = .ok t' ∧ ∀ m, m ≠ t'.name → g'.getTier m = g.getTier m := by
  obtain ⟨l1, x, l2, hsplit, hxn, h1, h2⟩ := split_at_name g.tiers t'.name hnd hmem
  have hidx : g.indexOf t'.name = some l1.length := by
    unfold Tg.indexOf Tg.names; rw [hsplit]; exact findIdx_name l1 l2 x _ hxn h1
  have hcont : (g.tiers.map (·.name)).contains t'.name = true := List.contains_iff_mem.2 hmem
  have hfil : g.tiers.filter (·.name != t'.name) = l1 ++ l2 := by
    rw [hsplit]; exact filter_name l1 l2 x _ hxn h1 h2
  have hnc : ((l1 ++ l2).map (·.name)).contains t'.name = false := by
    cases h : ((l1 ++ l2).map (·.name)).contains t'.name with
    | false => rfl
    | true =>
      have := List.contains_iff_mem.1 h
      obtain ⟨y, hy, hyn⟩ := List.mem_map.1 this
      rcases List.mem_append.1 hy with hy | hy
      · exact absurd hyn (h1 y hy)
      · exact absurd hyn (h2 y hy)
  have hrep : ∃ lo hi, g.replaceTier t'.name t' .warning = .ok ⟨l1 ++ t' :: l2, lo, hi⟩ := by
    unfold Tg.replaceTier
    rw [hidx]
    simp only [Tg.removeTier, hcont, if_true, bind, Except.bind, Tg.addTier, Tg.names, hfil, hnc,
      Bool.false_eq_true, if_false, pyListInsert_mid, reduceCtorEq, false_and]
    exact ⟨_, _, rfl⟩
  obtain ⟨lo, hi, hrep⟩ := hrep
  refine ⟨⟨l1 ++ t' :: l2, lo, hi⟩, hrep, ?_, ?_, ?_⟩
  · simp only [Tg.names, hsplit, List.map_append, List.map_cons, hxn]
  · simp only [Tg.getTier, List.find?_append, List.find?_cons]
    have : l1.find? (·.name == t'.name) = none := List.find?_eq_none.2 (fun y hy => by simpa using h1 y hy)
    simp [this]
  · intro m hm
    simp only [Tg.getTier, hsplit, List.find?_append, List.find?_cons]
    have e1 : (t'.name == m) = false := by simpa using fun h => hm h.symm
    have e2 : (x.name == m) = false := by rw [hxn]; exact e1
    simp only [e1, e2]
theorem mkITier_name (name : String) (es : List (Iv Int)) (lo hi : Option Int) (t : ITier Int)
    (h : mkITier name es lo hi = .ok t) : t.name = name := by
  simp only [mkITier] at h
  split at h
  · split at h
    · cases h; rfl
    · cases h
  · cases h

theorem mkPTier_name (name : String) (ps : List (Pt Int)) (lo hi : Option Int) (t : PTier Int)
    (h : mkPTier name ps lo hi = .ok t) : t.name = name := by
  simp only [mkPTier] at h
  split at h
  · cases h; rfl
  · cases h

/-- dejitter keeps the tier's name and kind -/
theorem anyDejitter_name (t t' : AnyTier Int) (refs : List Int) (md : Int) (h : t.dejitter refs md = .ok t') :
    t'.name = t.name ∧ t'.isInterval = t.isInterval := by
  by_cases hne : refs = []
  · subst hne; cases t <;> cases h
  cases t with
  | I it =>
    simp only [AnyTier.dejitter] at h
    cases hd : it.dejitter refs md with
    | error e => rw [hd] at h; cases h
    | ok v =>
      rw [hd] at h; cases h
      rw [dejitter_unfold it refs hne] at hd
      exact ⟨mkITier_name _ _ _ _ _ hd, rfl⟩
  | P pt =>
    simp only [AnyTier.dejitter] at h
    cases hd : pt.dejitter refs md with
    | error e => rw [hd] at h; cases h
    | ok v =>
      rw [hd] at h; cases h
      rw [pdejitter_unfold pt refs hne] at hd
      exact ⟨mkPTier_name _ _ _ _ _ hd, rfl⟩

/-- the loop body of `alignBoundariesAcrossTiers` -/
def alignStep (ref : String) (times : List Int) (md : Int) (acc : Tg Int) (t : AnyTier Int) : Except Err (Tg Int) :=
  if t.name == ref then pure acc
  else do
    let t' ← t.dejitter times md
    acc.replaceTier t'.name t' .warning

theorem align_fold (ref : String) (times : List Int) (md : Int) (l : List (AnyTier Int)) (acc g' : Tg Int)
    (hnd : acc.names.Nodup) (hsub : ∀ t ∈ l, t.name ∈ acc.names) (hl : (l.map (·.name)).Nodup)
    (h : l.foldlM (alignStep ref times md) acc = .ok g') :
    g'.names = acc.names ∧
    (∀ m, (m = ref ∨ m ∉ l.map (·.name)) → g'.getTier m = acc.getTier m) ∧
    (∀ t ∈ l, t.name ≠ ref → ∃ t', t.dejitter times md = .ok t' ∧ g'.getTier t.name = .ok t') := by
  induction l generalizing acc with
  | nil =>
    simp only [List.foldlM_nil, pure, Except.pure, Except.ok.injEq] at h
    subst h
    exact ⟨rfl, fun _ _ => rfl, by simp⟩
  | cons t l ih =>
    rw [List.foldlM_cons] at h
    rw [List.map_cons, List.nodup_cons] at hl
    have hsub' : ∀ t ∈ l, t.name ∈ acc.names := fun x hx => hsub x (List.mem_cons_of_mem _ hx)
    by_cases hr : t.name = ref
    · have hs : alignStep ref times md acc t = .ok acc := by simp [alignStep, hr, pure, Except.pure]
      rw [hs] at h
      obtain ⟨i1, i2, i3⟩ := ih acc hnd hsub' hl.2 h
      refine ⟨i1, ?_, ?_⟩
      · intro m hm
        apply i2
        rcases hm with hm | hm
        · exact Or.inl hm
        · exact Or.inr (fun hc => hm (by simp only [List.map_cons]; exact List.mem_cons_of_mem _ hc))
      · intro x hx hxr
        rcases List.mem_cons.1 hx with rfl | hx
        · exact absurd hr hxr
        · exact i3 x hx hxr
    · have hb : (t.name == ref) = false := by simpa using hr
      cases hd : t.dejitter times md with
      | error e =>
        simp only [alignStep, hb, Bool.false_eq_true, if_false, hd, bind, Except.bind] at h
        cases h
      | ok t' =>
        obtain ⟨hn', _⟩ := anyDejitter_name t t' times md hd
        have hmem : t'.name ∈ acc.names := by rw [hn']; exact hsub t (by simp)
        obtain ⟨acc', r1, r2, r3, r4⟩ := replaceTier_same_name acc t' hnd hmem
        have hs : alignStep ref times md acc t = .ok acc' := by
          simp only [alignStep, hb, Bool.false_eq_true, if_false, hd, bind, Except.bind]
          exact r1
        rw [hs] at h
        obtain ⟨i1, i2, i3⟩ := ih acc' (by rw [r2]; exact hnd) (by rw [r2]; exact hsub') hl.2 h
        refine ⟨by rw [i1, r2], ?_, ?_⟩
        · intro m hm
          have hm' : m = ref ∨ m ∉ l.map (·.name) := by
            rcases hm with hm | hm
            · exact Or.inl hm
            · exact Or.inr (fun hc => hm (by simp only [List.map_cons]; exact List.mem_cons_of_mem _ hc))
          rw [i2 m hm']
          apply r4
          rw [hn']
          rcases hm with hm | hm
          · rw [hm]; exact fun hc => hr hc.symm
          · intro hc; apply hm; rw [hc]; simp
        · intro x hx hxr
          rcases List.mem_cons.1 hx with rfl | hx
          · refine ⟨t', hd, ?_⟩
            rw [i2 x.name (Or.inr hl.1), ← hn']
            exact r3
          · exact i3 x hx hxr

/-- the guard of `alignBoundariesAcrossTiers`, as written: consecutive reference timestamps closer than
`maxDifference` (the first gap is not examined) -/
def alignGuard (times : List Int) (md : Int) : Bool :=
  ((times.drop 1).zip ((times.drop 1).drop 1)).any (fun (x, y) => decide (y - x < md))

theorem align_unfold (g : Tg Int) (ref : String) (md : Int) (rt : AnyTier Int) (hrt : g.getTier ref = .ok rt) :
    g.alignBoundaries ref md =
      if alignGuard rt.timestamps md then .error .ArgumentError
      else g.tiers.foldlM (alignStep ref rt.timestamps md) g := by
  unfold Tg.alignBoundaries
  rw [hrt]
  simp only [bind, Except.bind, alignGuard]
  split
  · rename_i hc; simp only [hc, if_true]; rfl
  · rename_i hc; simp only [hc]; rfl

/-- a missing reference tier: `KeyError` -/
theorem align_missing (g : Tg Int) (ref : String) (md : Int) (h : ref ∉ g.names) :
    g.alignBoundaries ref md = .error .KeyError := by
  have : g.tiers.find? (·.name == ref) = none := by
    apply List.find?_eq_none.2
    intro x hx hc
    exact h (List.mem_map.2 ⟨x, hx, by simpa using hc⟩)
  unfold Tg.alignBoundaries Tg.getTier
  rw [this]
  rfl

/-- **guard**: reference timestamps closer together than `maxDifference`: `ArgumentError` -/
theorem align_guard (g : Tg Int) (ref : String) (md : Int) (rt : AnyTier Int) (hrt : g.getTier ref = .ok rt)
    (hg : alignGuard rt.timestamps md = true) : g.alignBoundaries ref md = .error .ArgumentError := by
  rw [align_unfold g ref md rt hrt, hg]; rfl

/-- **alignBoundariesAcrossTiers**: on success the tier names (and their order) are unchanged, the reference tier is
untouched, and every other tier has been replaced, in place, by its `dejitter` against the reference timestamps -/
theorem align_spec (g : Tg Int) (ref : String) (md : Int) (g' : Tg Int) (hnd : g.names.Nodup)
    (h : g.alignBoundaries ref md = .ok g') :
    ∃ rt, g.getTier ref = .ok rt ∧ alignGuard rt.timestamps md = false ∧
      g'.names = g.names ∧ g'.getTier ref = .ok rt ∧
      ∀ t ∈ g.tiers, t.name ≠ ref →
        ∃ t', t.dejitter rt.timestamps md = .ok t' ∧ g'.getTier t.name = .ok t' := by
  cases hrt : g.getTier ref with
  | error e =>
    unfold Tg.alignBoundaries at h
    rw [hrt] at h; cases h
  | ok rt =>
    rw [align_unfold g ref md rt hrt] at h
    cases hg : alignGuard rt.timestamps md with
    | true => rw [hg] at h; cases h
    | false =>
      rw [hg] at h
      simp only [Bool.false_eq_true, if_false] at h
      obtain ⟨i1, i2, i3⟩ := align_fold ref rt.timestamps md g.tiers g g' hnd
        (fun t ht => List.mem_map_of_mem ht) hnd h
      exact ⟨rt, rfl, hg, i1, by rw [i2 ref (Or.inl rfl), hrt], i3⟩

theorem align_reference_untouched (g : Tg Int) (ref : String) (md : Int) (g' : Tg Int) (hnd : g.names.Nodup)
    (h : g.alignBoundaries ref md = .ok g') : g'.names = g.names ∧ g'.getTier ref = g.getTier ref := by
  obtain ⟨rt, h1, _, h3, h4, _⟩ := align_spec g ref md g' hnd h
  exact ⟨h3, by rw [h4, h1]⟩


/-! ## non-vacuity: concrete well-formed tiers meet the hypotheses; evaluated illustrations -/

def exTier : ITier Int := ⟨"T", [⟨10, 30, "a"⟩, ⟨31, 60, "b"⟩, ⟨80, 90, "c"⟩], 0, 100⟩
def exRef : ITier Int := ⟨"R", [⟨0, 32, "r"⟩, ⟨32, 58, "s"⟩, ⟨58, 100, "t"⟩], 0, 100⟩
def exTarget : ITier Int := ⟨"U", [⟨0, 5, "p"⟩, ⟨5, 6, "q"⟩, ⟨7, 10, "r"⟩], 0, 10⟩
def exPoints : PTier Int := ⟨"P", [⟨31, "y"⟩, ⟨33, "x"⟩, ⟨70, "z"⟩], 0, 100⟩
def exTg : Tg Int := ⟨[.I exTier, .I exRef, .P exPoints], some 0, some 100⟩

theorem exTier_wf : exTier.WF := by
  refine ⟨?_, ?_, ?_, ?_, ?_, ?_⟩ <;> simp [exTier, Pos, Disj, Stripped] <;> decide
theorem exRef_wf : exRef.WF := by
  refine ⟨?_, ?_, ?_, ?_, ?_, ?_⟩ <;> simp [exRef, Pos, Disj, Stripped] <;> decide
theorem exTarget_wf : exTarget.WF := by
  refine ⟨?_, ?_, ?_, ?_, ?_, ?_⟩ <;> simp [exTarget, Pos, Disj, Stripped] <;> decide
theorem exPoints_wf : exPoints.WF := by
  refine ⟨?_, ?_, ?_, ?_, ?_⟩ <;> simp [exPoints, Pt.le] <;> decide

/-- the hypotheses of `dejitter_spec`, `pdejitter_spec`, `morph_ok`, `align_spec` are jointly satisfiable -/
example : exTier.WF ∧ exPoints.WF ∧ exTarget.WF ∧ ([0, 32, 58, 100] : List Int) ≠ [] ∧
    exTier.es.length = exTarget.es.length ∧ exTier.es ≠ [] ∧ exTg.names.Nodup :=
  ⟨exTier_wf, exPoints_wf, exTarget_wf, by simp, rfl, by simp [exTier], by simp [exTg, Tg.names, AnyTier.name, exTier, exRef, exPoints]⟩

-- evaluated illustrations (interpreter tests, not proofs)
#guard exRef.timestamps == [0, 32, 58, 100]
#guard nearest ([0, 32, 58, 100] : List Int) 45 == some 32          -- tie 32 / 58: the first one wins
#guard nearest ([58, 32] : List Int) 45 == some 58
-- 30 and 31 are within 2 of 32, 60 is within 2 of 58; 10, 80, 90 are not near anything
#guard (exTier.dejitter exRef.timestamps 2).toOption.map (fun t => (t.es, t.lo, t.hi)) ==
    some ([⟨10, 32, "a"⟩, ⟨32, 58, "b"⟩, ⟨80, 90, "c"⟩], 0, 100)
#guard (exTier.dejitter exRef.timestamps 1).toOption.map (·.es) ==
    some [⟨10, 30, "a"⟩, ⟨32, 60, "b"⟩, ⟨80, 90, "c"⟩]
-- an interval whose two ends snap to the same reference collapses: the call raises
#guard (match (⟨"T", [⟨10, 12, "x"⟩], 0, 20⟩ : ITier Int).dejitter [11] 1 with
        | .error .TextgridStateError => true | _ => false)
#guard (match exTier.dejitter [] 2 with | .error .ArgumentError => true | _ => false)
-- two points land on 32 and are re-ordered by label
#guard (exPoints.dejitter exRef.timestamps 2).toOption.map (·.ps) == some [⟨32, "x"⟩, ⟨32, "y"⟩, ⟨70, "z"⟩]
-- morph: "a" and "c" take the target durations 5 and 3, "b" keeps 29; gaps 1 and 20, first start 10, trailing gap 10
#guard (exTier.morph exTarget (· != "b")).toOption.map (fun t => (t.es, t.lo, t.hi)) ==
    some ([⟨10, 15, "a"⟩, ⟨16, 45, "b"⟩, ⟨65, 68, "c"⟩], 0, 78)
#guard (match exTier.morph ⟨"U", [⟨0, 5, "p"⟩], 0, 10⟩ (fun _ => true) with
        | .error .SafeZipException => true | _ => false)
#guard (exTg.alignBoundaries "R" 2).toOption.map (·.names) == some ["T", "R", "P"]
#guard (exTg.alignBoundaries "R" 2).toOption.map (fun g => (g.getTier "T").toOption.map
          (fun t => match t with | .I t => t.es | .P _ => [])) ==
    some (some [⟨10, 32, "a"⟩, ⟨32, 58, "b"⟩, ⟨80, 90, "c"⟩])
#guard (match exTg.alignBoundaries "R" 30 with | .error .ArgumentError => true | _ => false)
#guard (match exTg.alignBoundaries "nope" 2 with | .error .KeyError => true | _ => false)

end C14
