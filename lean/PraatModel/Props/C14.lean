import PraatModel.Lemmas.Sort
import PraatModel.Textgrid

/-!
# C14 — dejitter, alignBoundariesAcrossTiers, morph

Exact arithmetic (`Int` timestamps of any size, entry lists of any length).

* `nearest` is Python's `min(refs, key=lambda r: abs(r - x))`: a nearest reference, the first one in list order;
* `leq14` is `my_math.lessThanOrEqual` with its 1e-14 relative slack made explicit;
* `snap` moves a timestamp to its nearest reference iff it lies within `maxDifference` of it;
* `dejitter` maps `snap` over every boundary; the constructor then validates: on a well-formed tier the
  image is always in time order (snapping is monotone), so the call fails exactly when an interval collapses;
* `morph` re-times every selected interval, keeping labels, gaps, first start and trailing gap.
-/
namespace C14

/-! ## absolute value, nearest reference -/

theorem tabs_int (y : Int) : tabs y = if y < 0 then -y else y := by
  simp only [tabs, Tm.zero]; split <;> omega

theorem tabs_natAbs (y : Int) : tabs y = (y.natAbs : Int) := by
  rw [tabs_int]; split <;> omega

theorem tabs_sub_comm (a b : Int) : tabs (a - b) = tabs (b - a) := by
  simp only [tabs_int]; split <;> split <;> omega

/-- the fold of `nearest`, started at `best`, over `rest` -/
theorem nearest_fold (x : Int) (rest : List Int) (best : Int) :
    let m := rest.foldl (fun best c => if tabs (c - x) < tabs (best - x) then c else best) best
    tabs (m - x) ≤ tabs (best - x) ∧ (∀ q ∈ rest, tabs (m - x) ≤ tabs (q - x)) ∧
    ∃ pre post, best :: rest = pre ++ m :: post ∧ ∀ q ∈ pre, tabs (m - x) < tabs (q - x) := by
  induction rest generalizing best with
  | nil => exact ⟨Int.le_refl _, by simp, [], [], rfl, by simp⟩
  | cons c cs ih =>
    simp only [List.foldl_cons]
    by_cases h : tabs (c - x) < tabs (best - x)
    · simp only [h, if_true]
      obtain ⟨h1, h2, pre, post, h3, h4⟩ := ih c
      refine ⟨by omega, ?_, best :: pre, post, congrArg (fun l => best :: l) h3, ?_⟩
      · intro q hq
        rcases List.mem_cons.1 hq with rfl | hq
        · exact h1
        · exact h2 q hq
      · intro q hq
        rcases List.mem_cons.1 hq with rfl | hq
        · omega
        · exact h4 q hq
    · simp only [h, if_false]
      obtain ⟨h1, h2, pre, post, h3, h4⟩ := ih best
      refine ⟨h1, ?_, ?_⟩
      · intro q hq
        rcases List.mem_cons.1 hq with rfl | hq
        · omega
        · exact h2 q hq
      · cases pre with
        | nil =>
          simp only [List.nil_append, List.cons.injEq] at h3
          refine ⟨[], c :: cs, ?_, by simp⟩
          rw [← h3.1]; rfl
        | cons p pre' =>
          simp only [List.cons_append, List.cons.injEq] at h3
          obtain ⟨rfl, h3⟩ := h3
          refine ⟨best :: c :: pre', post, congrArg (fun l => best :: c :: l) h3, ?_⟩
          intro q hq
          have hb := h4 best (by simp)
          rcases List.mem_cons.1 hq with rfl | hq
          · exact hb
          · rcases List.mem_cons.1 hq with rfl | hq
            · omega
            · exact h4 q (List.mem_cons_of_mem _ hq)

/-- **nearest**: for a non-empty reference list the result is a member at minimal distance from `x`, and it is the
first such member: everything before it in the list is strictly farther away. -/
theorem nearest_spec (refs : List Int) (hne : refs ≠ []) (x : Int) :
    ∃ r, nearest refs x = some r ∧ r ∈ refs ∧ (∀ q ∈ refs, tabs (r - x) ≤ tabs (q - x)) ∧
      ∃ pre post, refs = pre ++ r :: post ∧ ∀ q ∈ pre, tabs (r - x) < tabs (q - x) := by
  cases refs with
  | nil => exact absurd rfl hne
  | cons b rest =>
    obtain ⟨h1, h2, pre, post, h3, h4⟩ := nearest_fold x rest b
    refine ⟨_, rfl, ?_, ?_, pre, post, h3, h4⟩
    · rw [h3]; simp
    · intro q hq
      rcases List.mem_cons.1 hq with rfl | hq
      · exact h1
      · exact h2 q hq

theorem nearest_nil (x : Int) : nearest ([] : List Int) x = none := rfl

/-- the same with `Int.natAbs` as the distance -/
theorem nearest_spec_natAbs (refs : List Int) (hne : refs ≠ []) (x : Int) :
    ∃ r, nearest refs x = some r ∧ r ∈ refs ∧ (∀ q ∈ refs, (r - x).natAbs ≤ (q - x).natAbs) ∧
      ∃ pre post, refs = pre ++ r :: post ∧ ∀ q ∈ pre, (r - x).natAbs < (q - x).natAbs := by
  obtain ⟨r, h1, h2, h3, pre, post, h4, h5⟩ := nearest_spec refs hne x
  refine ⟨r, h1, h2, ?_, pre, post, h4, ?_⟩
  · intro q hq; have := h3 q hq; simp only [tabs_natAbs] at this; omega
  · intro q hq; have := h5 q hq; simp only [tabs_natAbs] at this; omega

/-! ## `my_math.lessThanOrEqual` -/

theorem close14_int (a b : Int) :
    Tm.close14 a b = true ↔ 100000000000000 * (a - b).natAbs ≤ max a.natAbs b.natAbs := by
  simp [Tm.close14]

theorem leq14_int (a b : Int) : leq14 a b = true ↔ a ≤ b ∨ Tm.close14 a b = true := by
  simp only [leq14, Bool.or_eq_true, decide_eq_true_eq, close14_int]
  omega

theorem leq14_of_le (a b : Int) (h : a ≤ b) : leq14 a b = true := (leq14_int a b).2 (Or.inl h)

/-- the slack is relative and tiny: beyond `b` only by `1e-14 · max a b` -/
theorem leq14_slack (a b : Int) (ha : 0 ≤ a) (hb : 0 < b) (h : leq14 a b = true) :
    100000000000000 * (a - b) ≤ max a b := by
  rw [leq14_int, close14_int] at h
  omega

/-- a negative bound admits nothing non-negative -/
theorem leq14_neg (a b : Int) (ha : 0 ≤ a) (hb : b < 0) : leq14 a b = false := by
  cases h : leq14 a b with
  | false => rfl
  | true => rw [leq14_int, close14_int] at h; omega

/-- monotone in the first argument on non-negative numbers -/
theorem leq14_mono (a' a b : Int) (h0 : 0 ≤ a') (hle : a' ≤ a) (h : leq14 a b = true) : leq14 a' b = true := by
  rw [leq14_int, close14_int] at *
  omega

/-! ## snap: one timestamp -/

/-- the value `snap` returns when the reference list is not empty -/
def snapV (refs : List Int) (md x : Int) : Int :=
  match nearest refs x with
  | some r => if leq14 (tabs (x - r)) md then r else x
  | none => x

theorem snap_empty (md x : Int) : snap ([] : List Int) md x = .error .ValueError := rfl

theorem snap_eq (refs : List Int) (hne : refs ≠ []) (md x : Int) : snap refs md x = .ok (snapV refs md x) := by
  obtain ⟨r, h1, _⟩ := nearest_spec refs hne x
  simp only [snap, snapV, h1]

/-- **snap**: with `r` the nearest reference (first minimiser), the timestamp is replaced by `r` when `|x - r| ≤ md`
(more precisely: when `lessThanOrEqual(|x - r|, md)`), and is returned untouched otherwise. -/
theorem snap_spec (refs : List Int) (hne : refs ≠ []) (md x : Int) :
    ∃ r, nearest refs x = some r ∧ r ∈ refs ∧ (∀ q ∈ refs, tabs (x - r) ≤ tabs (x - q)) ∧
      snap refs md x = .ok (if leq14 (tabs (x - r)) md then r else x) ∧
      (tabs (x - r) ≤ md → snap refs md x = .ok r) ∧
      (leq14 (tabs (x - r)) md = false → snap refs md x = .ok x) ∧
      (0 < md → 100000000000000 * (tabs (x - r) - md) > max (tabs (x - r)) md → snap refs md x = .ok x) := by
  obtain ⟨r, h1, h2, h3, _⟩ := nearest_spec refs hne x
  have hs : snap refs md x = .ok (if leq14 (tabs (x - r)) md then r else x) := by simp only [snap, h1]
  refine ⟨r, h1, h2, ?_, hs, ?_, ?_, ?_⟩
  · intro q hq; rw [tabs_sub_comm x r, tabs_sub_comm x q]; exact h3 q hq
  · intro h; rw [hs, leq14_of_le _ _ h]; rfl
  · intro h; rw [hs, h]; rfl
  · intro hmd h
    cases hl : leq14 (tabs (x - r)) md with
    | false => rw [hs, hl]; rfl
    | true =>
      have := leq14_slack _ _ (by rw [tabs_natAbs]; omega) hmd hl
      omega

/-- a returned timestamp is the old one or a reference timestamp; it differs from the old one only if the nearest
reference is within `md` (up to the 1e-14 slack) -/
theorem snap_ok (refs : List Int) (md x y : Int) (h : snap refs md x = .ok y) :
    refs ≠ [] ∧ (y = x ∨ y ∈ refs) ∧
    (y ≠ x → nearest refs x = some y ∧ leq14 (tabs (x - y)) md = true) := by
  have hne : refs ≠ [] := by rintro rfl; simp [snap_empty] at h
  obtain ⟨r, h1, h2, _, hs, _⟩ := snap_spec refs hne md x
  rw [hs] at h
  cases hl : leq14 (tabs (x - r)) md with
  | false => simp only [hl, Bool.false_eq_true, if_false, Except.ok.injEq] at h; subst h; simp [hne]
  | true =>
    simp only [hl, if_true, Except.ok.injEq] at h; subst h
    exact ⟨hne, Or.inr h2, fun _ => ⟨h1, hl⟩⟩

/-- snapping is monotone: timestamps never cross -/
theorem snapV_mono (refs : List Int) (md x y : Int) (hxy : x ≤ y) : snapV refs md x ≤ snapV refs md y := by
  by_cases hne : refs = []
  · subst hne; simpa [snapV, nearest] using hxy
  by_cases heq : x = y
  · subst heq; exact Int.le_refl _
  have hlt : x < y := by omega
  obtain ⟨r, hr1, hr2, hr3, _⟩ := nearest_spec refs hne x
  obtain ⟨q, hq1, hq2, hq3, _⟩ := nearest_spec refs hne y
  have a1 := hr3 q hq2
  have a2 := hq3 r hr2
  simp only [snapV, hr1, hq1]
  have e1 : tabs (x - r) = tabs (r - x) := tabs_sub_comm _ _
  have e2 : tabs (y - q) = tabs (q - y) := tabs_sub_comm _ _
  cases hx : leq14 (tabs (x - r)) md <;> cases hy : leq14 (tabs (y - q)) md <;>
    simp only [Bool.false_eq_true, if_false, if_true]
  · exact hxy
  · -- x stays, y moves to q: q < x would make x's nearest reference at least as close
    by_cases hc : x ≤ q
    · exact hc
    · exfalso
      have h0 : 0 ≤ tabs (x - r) := by rw [tabs_natAbs]; omega
      have hle : tabs (x - r) ≤ tabs (y - q) := by
        have := hr3 q hq2
        simp only [tabs_int] at *; split at this <;> split at this <;> split <;> split <;> omega
      rw [leq14_mono _ _ md h0 hle hy] at hx
      cases hx
  · by_cases hc : r ≤ y
    · exact hc
    · exfalso
      have h0 : 0 ≤ tabs (y - q) := by rw [tabs_natAbs]; omega
      have hle : tabs (y - q) ≤ tabs (x - r) := by
        have := hq3 r hr2
        simp only [tabs_int] at *; split at this <;> split at this <;> split <;> split <;> omega
      rw [leq14_mono _ _ md h0 hle hx] at hy
      cases hy
  · simp only [tabs_int] at a1 a2
    split at a1 <;> split at a1 <;> split at a2 <;> split at a2 <;> omega

end C14
