import PraatModel.Klatt
import PraatModel.Lemmas.Strip
import PraatModel.Lemmas.KlattStr
import PraatModel.Props.C19Clean

/-! # C19 — the short ("praatio-written") point-object file round-trips: `read (write po) = po`

`PO.text` is `PointObject.save`; `open1D` / `open2D` are `open1DPointObject` / `open2DPointObject`.
Numerals are opaque strings: a numeral (`Lit`, `Props/C19Clean.lean`) is any string `float()` accepts and
`strip()` leaves alone.  That such a string stays on one line and has no letter `x` (the format sniff looks for
`"xmin"` in the first 100 characters) is a consequence (`fclass_chars`), not a hypothesis.
-/

namespace C19
open Klatt

/-- a numeral as the point-object readers need it: a float() literal that strip() leaves alone, on one
line, without the letter x -/
def PNumeral (n : Txt) : Prop := stripList n = n ∧ (fclass n).isSome ∧ '\n' ∉ n ∧ 'x' ∉ n

/-- every numeral is one: the two character conditions follow from `float()` accepting the string -/
theorem PNumeral.of_lit {n : Txt} (h : Lit n) : PNumeral n :=
  ⟨h.1, h.2, h.not_mem '\n' (by decide), h.not_mem 'x' (by decide)⟩

theorem pnumeral_iff (n : Txt) : PNumeral n ↔ Lit n := ⟨fun h => ⟨h.1, h.2.1⟩, PNumeral.of_lit⟩

/-- a PointProcess at the numeral level: the class name, and every number any string `float()` accepts and
`strip()` leaves alone (one number per row) -/
def PO.Ok1 (p : PO) : Prop :=
  p.cls = t "PointProcess" ∧ Lit p.xmin ∧ Lit p.xmax ∧ ∀ r ∈ p.rows, ∃ v, r = [v] ∧ Lit v

/-- a PitchTier / DurationTier at the numeral level (two numbers per row) -/
def PO.Ok2 (p : PO) : Prop :=
  (p.cls = t "PitchTier" ∨ p.cls = t "DurationTier") ∧ Lit p.xmin ∧ Lit p.xmax ∧
  ∀ r ∈ p.rows, ∃ a b, r = [a, b] ∧ Lit a ∧ Lit b

/-- the same with the character conditions spelled out (what the proofs use) -/
def PO.Ok1x (p : PO) : Prop :=
  p.cls = t "PointProcess" ∧ PNumeral p.xmin ∧ PNumeral p.xmax ∧ ∀ r ∈ p.rows, ∃ v, r = [v] ∧ PNumeral v

def PO.Ok2x (p : PO) : Prop :=
  (p.cls = t "PitchTier" ∨ p.cls = t "DurationTier") ∧ PNumeral p.xmin ∧ PNumeral p.xmax ∧
  ∀ r ∈ p.rows, ∃ a b, r = [a, b] ∧ PNumeral a ∧ PNumeral b

theorem PO.Ok1.x {p : PO} (h : PO.Ok1 p) : PO.Ok1x p :=
  ⟨h.1, .of_lit h.2.1, .of_lit h.2.2.1, fun r hr => let ⟨v, e, hv⟩ := h.2.2.2 r hr; ⟨v, e, .of_lit hv⟩⟩

theorem PO.Ok2.x {p : PO} (h : PO.Ok2 p) : PO.Ok2x p :=
  ⟨h.1, .of_lit h.2.1, .of_lit h.2.2.1, fun r hr => let ⟨a, b, e, ha, hb⟩ := h.2.2.2 r hr; ⟨a, b, e, .of_lit ha, .of_lit hb⟩⟩

end C19

namespace C19.Short
open Klatt

theorem floatTok_ok (n : Txt) (h : (fclass n).isSome) : floatTok n = .ok n := by
  unfold floatTok
  cases hf : fclass n with
  | none => rw [hf] at h; simp at h
  | some _ => rfl

theorem floatTok_num (n : Txt) (h : PNumeral n) : floatTok (stripList n) = .ok n := by
  rw [h.1]; exact floatTok_ok n h.2.1

theorem fclass_nil : fclass [] = none := by decide

theorem num_ne_nil (n : Txt) (h : PNumeral n) : n ≠ [] := by
  intro e; subst e
  have := h.2.1
  rw [fclass_nil] at this; simp at this

/-! ## `find` helpers -/

theorem isPrefixOf_take (q l : Txt) (k : Nat) (h : q.isPrefixOf (l.take k) = true) : q.isPrefixOf l = true := by
  induction q generalizing l k with
  | nil => simp [List.isPrefixOf]
  | cons a q ih =>
    cases l with
    | nil => simp at h
    | cons x xs =>
      cases k with
      | zero => simp at h
      | succ k =>
        simp only [List.take_succ_cons, List.isPrefixOf, Bool.and_eq_true] at h ⊢
        exact ⟨h.1, ih xs k h.2⟩

/-- a non-empty pattern absent from `s` is absent from every `s[:k]` -/
theorem findAt_take_none (c : Char) (q s : Txt) (k i : Nat) (h : findAt (c :: q) s i = none) :
    findAt (c :: q) (s.take k) i = none := by
  induction s generalizing k i with
  | nil => simp [findAt]
  | cons x xs ih =>
    cases k with
    | zero => simp [findAt]
    | succ k =>
      rw [findAt] at h
      rw [List.take_succ_cons, findAt]
      split at h
      · cases h
      · rename_i hn
        have hn' : ¬ (c :: q).isPrefixOf (x :: xs.take k) = true := by
          intro hp
          apply hn
          have := isPrefixOf_take (c :: q) (x :: xs) (k + 1) (by simpa using hp)
          exact this
        rw [if_neg hn']
        exact ih k (i + 1) h

theorem contains_take_false (c : Char) (q s : Txt) (k : Nat) (h : contains (c :: q) s = false) :
    contains (c :: q) (s.take k) = false := by
  unfold contains pyFind at h ⊢
  simp only [Nat.not_lt_zero, if_false, List.drop_zero] at h ⊢
  have h' : findAt (c :: q) s 0 = none := by
    cases hf : findAt (c :: q) s 0 with
    | none => rfl
    | some j => rw [hf] at h; simp at h
  rw [findAt_take_none c q s k 0 h']; rfl

/-- a pattern whose first character does not occur is not found -/
theorem findAt_head_none (c : Char) (q b : Txt) (i : Nat) (h : c ∉ b) : findAt (c :: q) b i = none := by
  induction b generalizing i with
  | nil => simp [findAt]
  | cons x xs ih =>
    have hx : c ≠ x := by intro e; apply h; simp [e]
    have hxs : c ∉ xs := by intro e; apply h; simp [e]
    simp [findAt, List.isPrefixOf, hx, ih _ hxs]

/-! ## `join` -/

theorem not_mem_join (c : Char) (sep : Txt) (vs : List Txt) (hs : c ∉ sep) (hv : ∀ v ∈ vs, c ∉ v) :
    c ∉ join sep vs := by
  induction vs with
  | nil => simp [join]
  | cons x xs ih =>
    cases xs with
    | nil => simpa [join] using hv x (by simp)
    | cons y ys =>
      rw [join_cons_cons]
      have h1 := hv x (by simp)
      have h2 := ih (fun v hv' => hv v (by simp [hv']))
      simp [h1, hs, h2]

/-- a trailing separator is a trailing empty part -/
theorem join_snoc_nil (sep : Txt) (xs : List Txt) (h : xs ≠ []) : join sep (xs ++ [[]]) = join sep xs ++ sep := by
  induction xs with
  | nil => exact absurd rfl h
  | cons x xs ih =>
    cases xs with
    | nil => simp [join]
    | cons y ys =>
      have : (x :: y :: ys) ++ [[]] = x :: y :: (ys ++ [[]]) := by simp
      rw [this, join_cons_cons, join_cons_cons]
      have ih' := ih (by simp)
      simp only [List.cons_append] at ih'
      rw [ih']; simp

/-! ## the written text and its header -/

def L0 : Txt := t "File type = \"ooTextFile\""
def L1 (cls : Txt) : Txt := t "Object class = \"" ++ cls ++ t "\""
def body (p : PO) : Txt := join ['\n'] p.rows.flatten ++ ['\n']

theorem text_eq (p : PO) :
    p.text = L0 ++ '\n' :: (L1 p.cls ++ '\n' :: ([] ++ '\n' :: (p.xmin ++ '\n' :: (p.xmax ++ '\n' ::
      (natDec p.rows.length ++ '\n' :: body p))))) := by
  have e1 : t "File type = \"ooTextFile\"\nObject class = \"" = L0 ++ '\n' :: t "Object class = \"" := by decide
  have e2 : t "\"\n\n" = t "\"" ++ ['\n', '\n'] := by decide
  simp [PO.text, L1, body, e1, e2]

theorem text_eq' (p : PO) :
    p.text = (t "File type = \"ooTextFile\"\nObject class = \"" ++ p.cls ++ t "\"\n\n") ++
      (p.xmin ++ '\n' :: (p.xmax ++ '\n' :: (natDec p.rows.length ++ '\n' :: body p))) := by
  simp [PO.text, body]

/-- the three class names the point-object constructors accept -/
def ClsOk (c : Txt) : Prop := c = t "PointProcess" ∨ c = t "PitchTier" ∨ c = t "DurationTier"

theorem x_not_mem_natDec (n : Nat) : 'x' ∉ natDec n := not_mem_of_digits _ (by decide) _ (natDec_digits n)

theorem findAt_header (cls rest : Txt) (hc : ClsOk cls) (hx : 'x' ∉ rest) :
    findAt (t "xmin") ((t "File type = \"ooTextFile\"\nObject class = \"" ++ cls ++ t "\"\n\n") ++ rest) 0 = none := by
  have hq : t "xmin" = 'x' :: t "min" := by decide
  rcases hc with rfl | rfl | rfl
  · have : findAt (t "xmin") ((t "File type = \"ooTextFile\"\nObject class = \"" ++ t "PointProcess" ++ t "\"\n\n") ++ rest) 0
        = findAt (t "xmin") rest 56 := rfl
    rw [this, hq]; exact findAt_head_none _ _ _ _ hx
  · have : findAt (t "xmin") ((t "File type = \"ooTextFile\"\nObject class = \"" ++ t "PitchTier" ++ t "\"\n\n") ++ rest) 0
        = findAt (t "xmin") rest 53 := rfl
    rw [this, hq]; exact findAt_head_none _ _ _ _ hx
  · have : findAt (t "xmin") ((t "File type = \"ooTextFile\"\nObject class = \"" ++ t "DurationTier" ++ t "\"\n\n") ++ rest) 0
        = findAt (t "xmin") rest 56 := rfl
    rw [this, hq]; exact findAt_head_none _ _ _ _ hx

/-- the format sniff takes the short branch -/
theorem sniff (p : PO) (hc : ClsOk p.cls) (hmin : PNumeral p.xmin) (hmax : PNumeral p.xmax)
    (hrows : ∀ v ∈ p.rows.flatten, PNumeral v) : contains (t "xmin") (p.text.take 100) = false := by
  have hq : t "xmin" = 'x' :: t "min" := by decide
  rw [hq]
  apply contains_take_false
  rw [← hq]
  unfold contains pyFind
  simp only [Nat.not_lt_zero, if_false, List.drop_zero]
  rw [text_eq', findAt_header _ _ hc]
  · rfl
  · have h1 := hmin.2.2.2
    have h2 := hmax.2.2.2
    have h3 := x_not_mem_natDec p.rows.length
    have h4 : 'x' ∉ join ['\n'] p.rows.flatten :=
      not_mem_join _ _ _ (by decide) (fun v hv => (hrows v hv).2.2.2)
    have h5 : ¬ 'x' = '\n' := by decide
    simp [body, h1, h2, h3, h4, h5]

theorem objectType_L1 (cls : Txt) (hc : ClsOk cls) :
    stripList (((pySplit '=' (L1 cls)).getLast?.getD []).filter (· ≠ '"')) = cls := by
  rcases hc with rfl | rfl | rfl <;> decide

/-- `_parseShortHeader` on the written text -/
theorem parseShortHeader_text (p : PO) (hc : ClsOk p.cls) (hmin : PNumeral p.xmin) (hmax : PNumeral p.xmax) :
    parseShortHeader p.text = .ok (body p, p.cls, p.xmin, p.xmax) := by
  have hL0 : '\n' ∉ L0 := by decide
  have hL1 : '\n' ∉ L1 p.cls := by
    rcases hc with h | h | h <;> rw [h] <;> decide
  have hsplit : pySplitN '\n' 6 p.text = [L0, L1 p.cls, [], p.xmin, p.xmax, natDec p.rows.length, body p] := by
    rw [text_eq, pySplitN_hit _ _ _ _ hL0, pySplitN_hit _ _ _ _ hL1, pySplitN_hit _ _ _ _ (by simp),
      pySplitN_hit _ _ _ _ hmin.2.2.1, pySplitN_hit _ _ _ _ hmax.2.2.1,
      pySplitN_hit _ _ _ _ (nl_not_mem_natDec _), pySplitN_zero]
  unfold parseShortHeader
  simp only [hsplit]
  have hot : objectType [L0, L1 p.cls, [], p.xmin, p.xmax, natDec p.rows.length, body p] = .ok p.cls := by
    simp only [objectType, List.getElem?_cons_succ, List.getElem?_cons_zero]
    rw [objectType_L1 _ hc]; rfl
  have g1 : getNeg [L0, L1 p.cls, [], p.xmin, p.xmax, natDec p.rows.length, body p] 1 = .ok (body p) := by
    simp [getNeg]; rfl
  have g3 : getNeg [L0, L1 p.cls, [], p.xmin, p.xmax, natDec p.rows.length, body p] 3 = .ok p.xmax := by
    simp [getNeg]; rfl
  have g4 : getNeg [L0, L1 p.cls, [], p.xmin, p.xmax, natDec p.rows.length, body p] 4 = .ok p.xmin := by
    simp [getNeg]; rfl
  rw [hot, g1, g3, g4]
  simp only [bind, Except.bind, floatTok_num _ hmin, floatTok_num _ hmax]
  rfl

/-! ## the body -/

/-- the rows of the body: the numerals and one trailing empty row -/
theorem pySplit_body (vs : List Txt) (hv : ∀ v ∈ vs, '\n' ∉ v) (hne : vs ≠ []) :
    pySplit '\n' (join ['\n'] vs ++ ['\n']) = vs ++ [[]] := by
  rw [← join_snoc_nil _ _ hne]
  apply pySplit_join
  · simp
  · intro q hq
    rcases List.mem_append.1 hq with hq | hq
    · exact hv q hq
    · simp at hq; subst hq; simp

theorem pySplit_body_nil : pySplit '\n' (join ['\n'] [] ++ ['\n']) = [[], []] := by decide

theorem stripList_nil : stripList [] = [] := rfl

theorem filter_nums (vs : List Txt) (hv : ∀ v ∈ vs, PNumeral v) :
    (vs.filter fun v => stripList v ≠ []) = vs := by
  rw [List.filter_eq_self]
  intro v hm
  have := hv v hm
  simp [this.1, num_ne_nil v this]

theorem mapM_ok (f : Txt → R (List Txt)) (vs : List Txt) (h : ∀ v ∈ vs, f v = .ok [v]) :
    vs.mapM f = .ok (vs.map fun v => [v]) := by
  induction vs with
  | nil => rfl
  | cons x xs ih =>
    rw [List.mapM_cons, ih (fun v hm => h v (by simp [hm])), h x (by simp)]
    rfl

theorem rows_1d (rows : List (List Txt)) (h : ∀ r ∈ rows, ∃ v, r = [v] ∧ PNumeral v) :
    rows.flatten.map (fun v => [v]) = rows ∧ ∀ v ∈ rows.flatten, PNumeral v := by
  induction rows with
  | nil => simp
  | cons r rs ih =>
    obtain ⟨v, rfl, hv⟩ := h r (by simp)
    obtain ⟨i1, i2⟩ := ih (fun r hr => h r (by simp [hr]))
    constructor
    · simp [i1]
    · intro w hw
      simp only [List.flatten_cons, List.singleton_append, List.mem_cons] at hw
      rcases hw with rfl | hw
      · exact hv
      · exact i2 w hw

theorem rows_2d (rows : List (List Txt)) (h : ∀ r ∈ rows, ∃ a b, r = [a, b] ∧ PNumeral a ∧ PNumeral b) :
    ∀ v ∈ rows.flatten, PNumeral v := by
  induction rows with
  | nil => simp
  | cons r rs ih =>
    obtain ⟨a, b, rfl, ha, hb⟩ := h r (by simp)
    have i2 := ih (fun r hr => h r (by simp [hr]))
    intro w hw
    simp only [List.flatten_cons, List.cons_append, List.nil_append, List.mem_cons] at hw
    rcases hw with rfl | rfl | hw
    · exact ha
    · exact hb
    · exact i2 w hw

theorem shortPairs_rows (rows : List (List Txt)) (tail : List Txt) (res : List (List Txt))
    (ht : shortPairs tail = .ok res)
    (h : ∀ r ∈ rows, ∃ a b, r = [a, b] ∧ PNumeral a ∧ PNumeral b) :
    shortPairs (rows.flatten ++ tail) = .ok (rows ++ res) := by
  induction rows with
  | nil => simpa using ht
  | cons r rs ih =>
    obtain ⟨a, b, rfl, ha, hb⟩ := h r (by simp)
    have i := ih (fun r hr => h r (by simp [hr]))
    have : ([a, b] :: rs).flatten ++ tail = a :: b :: (rs.flatten ++ tail) := by simp
    rw [this, shortPairs]
    have hne : ¬ stripList a = [] := by rw [ha.1]; exact num_ne_nil a ha
    rw [if_neg hne, floatTok_num a ha, floatTok_num b hb, i]
    rfl

theorem shortPairs_nil1 : shortPairs [[]] = .ok [] := by
  rw [shortPairs]; simp [stripList_nil]; rfl

theorem shortPairs_nil2 : shortPairs [[], []] = .ok [] := by
  rw [shortPairs]; simp [stripList_nil]; rfl

end C19.Short

namespace C19
open Klatt
open C19.Short

/-- **1-D round trip**: reading the text `PointObject.save` writes for a PointProcess returns the object —
class, span and every time point, numeral for numeral — for any number of points. -/
theorem pointobj_roundtrip_1d (p : PO) (h : PO.Ok1 p) : open1D p.text = .ok p := by
  obtain ⟨hc, hmin, hmax, hr⟩ := h.x
  have hcls : ClsOk p.cls := Or.inl hc
  obtain ⟨hrows, hflat⟩ := rows_1d p.rows hr
  unfold open1D
  rw [sniff p hcls hmin hmax hflat, parseShortHeader_text p hcls hmin hmax]
  have hsplit : ((pySplit '\n' (body p)).filter fun v => stripList v ≠ []) = p.rows.flatten := by
    unfold body
    by_cases hne : p.rows.flatten = []
    · rw [hne, pySplit_body_nil]; simp [stripList_nil]
    · rw [pySplit_body _ (fun v hv => (hflat v hv).2.2.1) hne, List.filter_append, filter_nums _ hflat]
      simp [stripList_nil]
  have hck : checkClass [t "PointProcess"] p.cls = .ok () := by rw [hc]; rfl
  simp only [Bool.false_eq_true, if_false, bind, Except.bind, hsplit]
  rw [mapM_ok _ _ (fun v hv => by rw [floatTok_num v (hflat v hv)]; rfl)]
  simp only [hck, hrows]
  rfl

/-- **2-D round trip**: the same for a PitchTier / DurationTier with `(time, value)` rows. -/
theorem pointobj_roundtrip_2d (p : PO) (h : PO.Ok2 p) : open2D p.text = .ok p := by
  obtain ⟨hc, hmin, hmax, hr⟩ := h.x
  have hcls : ClsOk p.cls := Or.inr hc
  have hflat := rows_2d p.rows hr
  unfold open2D
  rw [sniff p hcls hmin hmax hflat, parseShortHeader_text p hcls hmin hmax]
  have hsplit : shortPairs (pySplit '\n' (body p)) = .ok p.rows := by
    unfold body
    by_cases hne : p.rows.flatten = []
    · rw [hne, pySplit_body_nil]
      have := shortPairs_rows p.rows [[], []] [] shortPairs_nil2 hr
      rw [hne] at this; simpa using this
    · rw [pySplit_body _ (fun v hv => (hflat v hv).2.2.1) hne]
      have := shortPairs_rows p.rows [[]] [] shortPairs_nil1 hr
      simpa using this
  have hck : checkClass [t "PitchTier", t "DurationTier"] p.cls = .ok () := by
    rcases hc with hc | hc <;> rw [hc] <;> rfl
  simp only [Bool.false_eq_true, if_false, bind, Except.bind, hsplit, hck]
  rfl

/-! ## non-vacuity: the readers evaluated on written texts, and satisfiable hypotheses -/

def Short.okIs (r : R PO) (q : PO) : Bool := match r with | .ok q' => q' == q | _ => false

#guard okIs (open1D (PO.text ⟨t "PointProcess", t "0", t "1.5", [[t "0.25"], [t "1e-05"]]⟩))
  ⟨t "PointProcess", t "0", t "1.5", [[t "0.25"], [t "1e-05"]]⟩
#guard okIs (open1D (PO.text ⟨t "PointProcess", t "0", t "1.5", [[t "0.25"]]⟩))
  ⟨t "PointProcess", t "0", t "1.5", [[t "0.25"]]⟩
#guard okIs (open1D (PO.text ⟨t "PointProcess", t "0", t "1.5", []⟩)) ⟨t "PointProcess", t "0", t "1.5", []⟩
#guard okIs (open2D (PO.text ⟨t "PitchTier", t "0", t "2.0", [[t "0.5", t "120.0"], [t "1.25", t "-inf"]]⟩))
  ⟨t "PitchTier", t "0", t "2.0", [[t "0.5", t "120.0"], [t "1.25", t "-inf"]]⟩
#guard okIs (open2D (PO.text ⟨t "DurationTier", t "0.0", t "3", [[t "1e-05", t "1.0000000000000002"]]⟩))
  ⟨t "DurationTier", t "0.0", t "3", [[t "1e-05", t "1.0000000000000002"]]⟩
#guard okIs (open2D (PO.text ⟨t "PitchTier", t "0", t "1", []⟩)) ⟨t "PitchTier", t "0", t "1", []⟩
#guard okIs (open2D (PO.text ⟨t "DurationTier", t "0", t "1", []⟩)) ⟨t "DurationTier", t "0", t "1", []⟩
-- the class check is live: a 1-D reader refuses a PitchTier text, a 2-D reader a PointProcess text
#guard match open1D (PO.text ⟨t "PitchTier", t "0", t "1", []⟩) with | .error .wrongOption => true | _ => false
#guard match open2D (PO.text ⟨t "PointProcess", t "0", t "1", []⟩) with | .error .wrongOption => true | _ => false
-- the text itself
#guard String.ofList (PO.text ⟨t "PitchTier", t "0", t "2.0", [[t "0.5", t "120.0"]]⟩)
  = "File type = \"ooTextFile\"\nObject class = \"PitchTier\"\n\n0\n2.0\n1\n0.5\n120.0\n"
#guard String.ofList (PO.text ⟨t "PointProcess", t "0", t "1.5", []⟩)
  = "File type = \"ooTextFile\"\nObject class = \"PointProcess\"\n\n0\n1.5\n0\n\n"

set_option exponentiation.threshold 2000 in
theorem Short.pnumeral_examples :
    Lit (t "0") ∧ Lit (t "2.0") ∧ Lit (t "0.5") ∧ Lit (t "120.0") ∧ Lit (t "1e-05") ∧
    Lit (t "-inf") := by
  refine ⟨?_, ?_, ?_, ?_, ?_, ?_⟩ <;> exact ⟨by decide, by decide⟩

example : PO.Ok2 ⟨t "PitchTier", t "0", t "2.0", [[t "0.5", t "120.0"], [t "1e-05", t "-inf"]]⟩ := by
  obtain ⟨h0, h2, h05, h120, he, hinf⟩ := pnumeral_examples
  refine ⟨Or.inl rfl, h0, h2, ?_⟩
  intro r hr
  simp only [List.mem_cons, List.not_mem_nil, or_false] at hr
  rcases hr with rfl | rfl
  · exact ⟨_, _, rfl, h05, h120⟩
  · exact ⟨_, _, rfl, he, hinf⟩

example : PO.Ok1 ⟨t "PointProcess", t "0", t "2.0", [[t "0.5"], [t "1e-05"]]⟩ := by
  obtain ⟨h0, h2, h05, _, he, _⟩ := pnumeral_examples
  refine ⟨rfl, h0, h2, ?_⟩
  intro r hr
  simp only [List.mem_cons, List.not_mem_nil, or_false] at hr
  rcases hr with rfl | rfl
  · exact ⟨_, rfl, h05⟩
  · exact ⟨_, rfl, he⟩

example : PO.Ok1 ⟨t "PointProcess", t "0", t "2.0", []⟩ := by
  obtain ⟨h0, h2, _⟩ := pnumeral_examples
  exact ⟨rfl, h0, h2, by simp⟩

/-- the theorem instantiated at concrete data -/
example : open2D (PO.text ⟨t "PitchTier", t "0", t "2.0", [[t "0.5", t "120.0"]]⟩)
    = .ok ⟨t "PitchTier", t "0", t "2.0", [[t "0.5", t "120.0"]]⟩ := by
  obtain ⟨h0, h2, h05, h120, _, _⟩ := pnumeral_examples
  apply pointobj_roundtrip_2d
  refine ⟨Or.inl rfl, h0, h2, ?_⟩
  intro r hr
  simp only [List.mem_cons, List.not_mem_nil, or_false] at hr
  subst hr
  exact ⟨_, _, rfl, h05, h120⟩

end C19

