import PraatModel.Props.C11
import PraatModel.Props.C05Points
import PraatModel.Props.C09
import PraatModel.Props.C14

/-!
# C11 / C10 / C09 on POINT tiers — functional specifications of insertEntry, deleteEntry, union, appendTier

Exact arithmetic.  The receiver is a well-formed point tier (`PTier.WF`: sorted by time, ties by label; inside the span;
stripped labels).  A well-formed point tier MAY hold several points at one time (the constructor accepts them), and the
code looks at the FIRST of them only.  Every statement below therefore says precisely which point is touched
(`old`, the first point at the time of the new one — in a well-formed tier the one with the least label,
`first_is_least`), and the clauses of the property that speak of "the" point at a time are proved under the explicit
hypothesis `TimesNodup` (at most one point per time), which every insert/delete history preserves (`pirun_timesNodup`).
Where the property as worded fails on tiers with coinciding times, a `…_counterexample` is proved (each replayed on
the code).
-/
namespace C11

/-! ## sorted lists of points -/

theorem Pt.le_refl' (a : Pt Int) : Pt.le a a = true := by
  simp [Pt.le]

theorem Pt.le_antisymm' {a b : Pt Int} (h1 : Pt.le a b = true) (h2 : Pt.le b a = true) : a = b := by
  obtain ⟨ta, la⟩ := a; obtain ⟨tb, lb⟩ := b
  have e1 := Pt.le_time h1
  have e2 := Pt.le_time h2
  simp only at e1 e2
  have e : ta = tb := by omega
  subst e
  simp only [Pt.le, Int.lt_irrefl, if_false, decide_eq_true_eq] at h1 h2
  rw [String.le_antisymm h1 h2]

theorem Pt.le_of_lt_time {a b : Pt Int} (h : a.t < b.t) : Pt.le a b = true := by
  simp [Pt.le, h]

/-- a list sorted by `(time, label)` is determined by its multiset of points: what `list.sort()` returns is THE sorted
arrangement -/
theorem sorted_perm_unique {l₁ l₂ : List (Pt Int)} (h₁ : l₁.Pairwise (fun a b => Pt.le a b = true))
    (h₂ : l₂.Pairwise (fun a b => Pt.le a b = true)) (hp : l₁.Perm l₂) : l₁ = l₂ :=
  List.Perm.eq_of_pairwise (fun _ _ _ _ hab hba => Pt.le_antisymm' hab hba) h₁ h₂ hp

/-- at most one point per time -/
def TimesNodup (ps : List (Pt Int)) : Prop := (ps.map (·.t)).Nodup

theorem TimesNodup.eq_of_time {ps : List (Pt Int)} (h : TimesNodup ps) {a b : Pt Int} (ha : a ∈ ps) (hb : b ∈ ps)
    (hab : a.t = b.t) : a = b := by
  unfold TimesNodup at h
  induction ps with
  | nil => simp at ha
  | cons p ps ih =>
    simp only [List.map_cons, List.nodup_cons, List.mem_map, not_exists, not_and] at h
    rcases List.mem_cons.1 ha with rfl | ha' <;> rcases List.mem_cons.1 hb with rfl | hb'
    · rfl
    · exact absurd hab.symm (h.1 b hb')
    · exact absurd hab (h.1 a ha')
    · exact ih h.2 ha' hb'

theorem TimesNodup.count_le_one {ps : List (Pt Int)} (h : TimesNodup ps) (p : Pt Int) : ps.count p ≤ 1 := by
  have hnd : ps.Nodup := by
    unfold TimesNodup at h
    exact List.Pairwise.of_map (·.t) (fun a b hab e => hab (congrArg _ e)) h
  exact List.nodup_iff_count.1 hnd p

theorem TimesNodup.sublist {ps ps' : List (Pt Int)} (h : TimesNodup ps) (hs : ps'.Sublist ps) : TimesNodup ps' :=
  List.Nodup.sublist (hs.map _) h

theorem TimesNodup.perm {ps ps' : List (Pt Int)} (h : TimesNodup ps) (hp : ps'.Perm ps) : TimesNodup ps' :=
  (hp.map _).nodup_iff.2 h

/-- the first point at time `a` (what the loop of `insertEntry` stops at) -/
def firstAt (ps : List (Pt Int)) (a : Int) : Option (Pt Int) := ps.find? (fun p => p.t == a)

theorem firstAt_none {ps : List (Pt Int)} {a : Int} : firstAt ps a = none ↔ ∀ p ∈ ps, p.t ≠ a := by
  unfold firstAt
  rw [List.find?_eq_none]
  constructor
  · intro h p hp; simpa using h p hp
  · intro h p hp; simpa using h p hp

theorem firstAt_some {ps : List (Pt Int)} {a : Int} {old : Pt Int} (h : firstAt ps a = some old) :
    old ∈ ps ∧ old.t = a :=
  ⟨List.mem_of_find?_eq_some h, by simpa using List.find?_some h⟩

theorem firstAt_of_collision {ps : List (Pt Int)} {a : Int} (h : ∃ p ∈ ps, p.t = a) : ∃ old, firstAt ps a = some old := by
  cases hf : firstAt ps a with
  | some old => exact ⟨old, rfl⟩
  | none =>
    obtain ⟨p, hp, hpa⟩ := h
    exact absurd hpa (firstAt_none.1 hf p hp)

/-- in a sorted list the first point at a time is the least one (smallest label) among the points at that time -/
theorem first_is_least {ps : List (Pt Int)} (hs : ps.Pairwise (fun a b => Pt.le a b = true)) {a : Int} {old : Pt Int}
    (h : firstAt ps a = some old) : ∀ q ∈ ps, q.t = a → Pt.le old q = true := by
  induction ps with
  | nil => simp [firstAt] at h
  | cons p ps ih =>
    obtain ⟨hp, hs'⟩ := List.pairwise_cons.1 hs
    unfold firstAt at h
    rw [List.find?_cons] at h
    by_cases hpa : p.t = a
    · have : (p.t == a) = true := by simpa using hpa
      simp only [this, Option.some.injEq] at h
      subst h
      intro q hq _
      rcases List.mem_cons.1 hq with rfl | hq'
      · exact Pt.le_refl' _
      · exact hp q hq'
    · have : (p.t == a) = false := by simpa using hpa
      simp only [this] at h
      intro q hq hqa
      rcases List.mem_cons.1 hq with rfl | hq'
      · exact absurd hqa hpa
      · exact ih hs' h q hq' hqa

/-- two sorted lists with the same points at time `a` have the same first point there -/
theorem firstAt_congr {ps ps' : List (Pt Int)} (hs : ps.Pairwise (fun a b => Pt.le a b = true))
    (hs' : ps'.Pairwise (fun a b => Pt.le a b = true)) (a : Int)
    (hc : ∀ p : Pt Int, p.t = a → ps.count p = ps'.count p) : firstAt ps a = firstAt ps' a := by
  have hmem : ∀ p : Pt Int, p.t = a → (p ∈ ps ↔ p ∈ ps') := by
    intro p hp
    rw [← List.count_pos_iff, ← List.count_pos_iff, hc p hp]
  cases h : firstAt ps a with
  | none =>
    symm
    rw [firstAt_none] at h ⊢
    intro p hp hpa
    exact h p ((hmem p hpa).2 hp) hpa
  | some o =>
    obtain ⟨ho, hoa⟩ := firstAt_some h
    obtain ⟨o', h'⟩ := firstAt_of_collision ⟨o, (hmem o hoa).1 ho, hoa⟩
    obtain ⟨ho', hoa'⟩ := firstAt_some h'
    have e : o = o' := Pt.le_antisymm' (first_is_least hs h o' ((hmem o' hoa').2 ho') hoa')
      (first_is_least hs' h' o ((hmem o hoa).1 ho) hoa)
    rw [h', e]

/-! ## insertEntry as a function on the list, and the span update -/

theorem pinsert_unfold (t : PTier Int) (x : Pt Int) :
    (firstAt t.ps x.t = none → ∀ mode,
      t.insertEntry x mode = .ok (growSpanP t (sortPts (t.ps ++ [⟨x.t, pyStrip x.l⟩])))) ∧
    (∀ old, firstAt t.ps x.t = some old →
      t.insertEntry x .replace = .ok (growSpanP t (sortPts (t.ps.erase old ++ [⟨x.t, pyStrip x.l⟩]))) ∧
      t.insertEntry x .merge =
        .ok (growSpanP t (sortPts (t.ps.erase old ++ [⟨x.t, pyJoin "-" [old.l, pyStrip x.l]⟩]))) ∧
      t.insertEntry x .error = .error .CollisionError) := by
  constructor
  · intro h mode
    exact pinsert_nocollision t x mode (firstAt_none.1 h)
  · intro old h
    have hd := deletePt_of_mem t.ps old (firstAt_some h).1
    unfold firstAt at h
    unfold PTier.insertEntry
    simp [h, hd, bind, Except.bind, pure, Except.pure, throw, throwThe, MonadExceptOf.throw]

/-- the span after `insertEntry`: everything but the new point `y` was inside the old span, so the span grows to
`y.t` and no further -/
theorem growSpanP_span (t : PTier Int) (_hspan : t.lo ≤ t.hi) (ps : List (Pt Int))
    (hs : ps.Pairwise (fun a b => Pt.le a b = true)) (y : Pt Int) (hy : y ∈ ps)
    (hin : ∀ p ∈ ps, p = y ∨ (t.lo ≤ p.t ∧ p.t ≤ t.hi)) :
    (growSpanP t ps).lo = min t.lo y.t ∧ (growSpanP t ps).hi = max t.hi y.t := by
  unfold growSpanP
  cases hf : ps.head? with
  | none =>
    have : ps = [] := by cases ps with
      | nil => rfl
      | cons x xs => simp at hf
    subst this; simp at hy
  | some f =>
    obtain ⟨g, hg⟩ : ∃ g, ps.getLast? = some g := by
      cases ps with
      | nil => simp at hf
      | cons x xs => exact ⟨_, List.getLast?_eq_some_getLast (by simp)⟩
    have h1 := C05.head_le_of_sorted ps hs f hf y hy
    have h2 := C05.le_getLast_of_sorted ps hs g hg y hy
    have hfm : f ∈ ps := List.mem_of_mem_head? (by rw [hf]; rfl)
    have hgm : g ∈ ps := List.mem_of_mem_getLast? (by rw [hg]; rfl)
    simp only [hg]
    constructor
    · rcases hin f hfm with rfl | h
      · split <;> omega
      · split <;> omega
    · rcases hin g hgm with rfl | h
      · split <;> omega
      · split <;> omega

/-- the common end of all three successful branches: some points of the tier plus one new stripped point, sorted -/
theorem finish_pinsert (t : PTier Int) (hwf : t.WF) (ps0 : List (Pt Int)) (y : Pt Int)
    (hsub : ∀ p ∈ ps0, p ∈ t.ps) (hy : pyStrip y.l = y.l) :
    (growSpanP t (sortPts (ps0 ++ [y]))).WF ∧ (growSpanP t (sortPts (ps0 ++ [y]))).name = t.name ∧
    (growSpanP t (sortPts (ps0 ++ [y]))).ps.Perm (ps0 ++ [y]) ∧
    (growSpanP t (sortPts (ps0 ++ [y]))).ps.Pairwise (fun a b => Pt.le a b = true) ∧
    (growSpanP t (sortPts (ps0 ++ [y]))).lo = min t.lo y.t ∧
    (growSpanP t (sortPts (ps0 ++ [y]))).hi = max t.hi y.t := by
  have hsrt := C14.sortPts_pairwise (ps0 ++ [y])
  have hperm := C14.sortPts_perm (ps0 ++ [y])
  have hstr : ∀ p ∈ sortPts (ps0 ++ [y]), pyStrip p.l = p.l := by
    intro p hp
    rcases List.mem_append.1 (hperm.mem_iff.1 hp) with h | h
    · exact hwf.stripped p (hsub p h)
    · simp only [List.mem_singleton] at h; subst h; exact hy
  have hspan := growSpanP_span t hwf.span (sortPts (ps0 ++ [y])) hsrt y (hperm.mem_iff.2 (by simp)) (by
    intro p hp
    rcases List.mem_append.1 (hperm.mem_iff.1 hp) with h | h
    · exact Or.inr ⟨hwf.inLo p (hsub p h), hwf.inHi p (hsub p h)⟩
    · simp only [List.mem_singleton] at h; exact Or.inl h)
  exact ⟨C05.growSpanP_wf t hwf.span _ hsrt hstr, rfl, hperm, hsrt, hspan.1, hspan.2⟩

theorem count_append_single (ps : List (Pt Int)) (y p : Pt Int) :
    (ps ++ [y]).count p = ps.count p + if p = y then 1 else 0 := by
  rw [List.count_append, List.count_singleton]
  by_cases h : p = y
  · subst h; simp
  · have : (y == p) = false := by simpa using (Ne.symm h)
    simp [this, h]

/-! ## 1. no collision -/

/-- **no point at that time** (any mode): the stripped point is put at its place in time order, every old point is
kept, the name is kept, the span grows just enough to contain the new time, the tier stays well-formed -/
theorem pinsert_nocollision_spec (t : PTier Int) (hwf : t.WF) (x : Pt Int) (mode : InsMode)
    (hfree : ∀ p ∈ t.ps, p.t ≠ x.t) :
    ∃ t', t.insertEntry x mode = .ok t' ∧ t'.WF ∧ t'.name = t.name ∧
      t'.ps.Perm (t.ps ++ [⟨x.t, pyStrip x.l⟩]) ∧
      t'.ps.Pairwise (fun a b => Pt.le a b = true) ∧
      t'.ps = t.ps.filter (fun p => decide (p.t < x.t)) ++
        ⟨x.t, pyStrip x.l⟩ :: t.ps.filter (fun p => decide (x.t < p.t)) ∧
      (∀ p, t'.ps.count p = t.ps.count p + if p = ⟨x.t, pyStrip x.l⟩ then 1 else 0) ∧
      t'.lo = min t.lo x.t ∧ t'.hi = max t.hi x.t := by
  have hfin := finish_pinsert t hwf t.ps ⟨x.t, pyStrip x.l⟩ (fun _ h => h) (pyStrip_idem _)
  refine ⟨_, (pinsert_unfold t x).1 (firstAt_none.2 hfree) mode, hfin.1, hfin.2.1, hfin.2.2.1, hfin.2.2.2.1, ?_,
    ?_, hfin.2.2.2.2⟩
  · -- the explicit place: both sides are sorted arrangements of the same points
    apply sorted_perm_unique hfin.2.2.2.1 _ (hfin.2.2.1.trans _)
    · rw [List.pairwise_append]
      refine ⟨hwf.sorted.sublist List.filter_sublist, ?_, ?_⟩
      · rw [List.pairwise_cons]
        refine ⟨?_, hwf.sorted.sublist List.filter_sublist⟩
        intro b hb
        have := (List.mem_filter.1 hb).2
        exact Pt.le_of_lt_time (by simpa using this)
      · intro a ha b hb
        have h1 : a.t < x.t := by simpa using (List.mem_filter.1 ha).2
        rcases List.mem_cons.1 hb with rfl | hb'
        · exact Pt.le_of_lt_time h1
        · have h2 : x.t < b.t := by simpa using (List.mem_filter.1 hb').2
          exact Pt.le_of_lt_time (by omega)
    · have e : t.ps.filter (fun p => decide (x.t < p.t)) = t.ps.filter (fun p => !decide (p.t < x.t)) := by
        apply List.filter_congr
        intro p hp
        have := hfree p hp
        by_cases h : p.t < x.t
        · simp [h]; omega
        · simp [h]; omega
      rw [e]
      refine List.Perm.trans ?_ (List.perm_middle).symm
      refine List.Perm.trans (List.perm_append_singleton _ _) ?_
      exact List.Perm.cons _ (List.filter_append_perm _ _).symm
  · intro p
    rw [hfin.2.2.1.count_eq p, count_append_single]

/-! ## 2. collision, mode `error` -/

/-- **collision, mode `error`**: `CollisionError`, no tier is returned (the model is pure: the receiver is what it was);
and `error` mode refuses in no other case -/
theorem pinsert_error_spec (t : PTier Int) (x : Pt Int) :
    ((∃ p ∈ t.ps, p.t = x.t) → t.insertEntry x .error = .error .CollisionError ∧
      ∀ t', t.insertEntry x .error ≠ .ok t') ∧
    (t.insertEntry x .error = .error .CollisionError ↔ ∃ p ∈ t.ps, p.t = x.t) := by
  have h1 : (∃ p ∈ t.ps, p.t = x.t) → t.insertEntry x .error = .error .CollisionError := by
    rintro ⟨p, hp, hpt⟩; exact pinsert_error t x p hp hpt
  refine ⟨fun h => ⟨h1 h, fun t' h' => by rw [h1 h] at h'; cases h'⟩, ⟨fun h => ?_, h1⟩⟩
  exact (C05.pinsert_err t x .error _ h).2.2

/-! ## 3./4. collision, modes `replace` and `merge` -/

theorem count_erase_of_time_ne (ps : List (Pt Int)) (old p : Pt Int) (h : p.t ≠ old.t) :
    (ps.erase old).count p = ps.count p := by
  rw [List.count_erase]
  have : (old == p) = false := by
    simp only [beq_eq_false_iff_ne, ne_eq]
    intro e; subst e; exact h rfl
  simp [this]

/-- what both collision branches do, for any stripped replacement `z` put at the time of the new point -/
theorem collide_spec (t : PTier Int) (hwf : t.WF) (a : Int) (old z : Pt Int) (hold : firstAt t.ps a = some old)
    (hz : z.t = a) (hzs : pyStrip z.l = z.l) :
    (growSpanP t (sortPts (t.ps.erase old ++ [z]))).WF ∧
    (growSpanP t (sortPts (t.ps.erase old ++ [z]))).name = t.name ∧
    (growSpanP t (sortPts (t.ps.erase old ++ [z]))).ps.Perm (t.ps.erase old ++ [z]) ∧
    (growSpanP t (sortPts (t.ps.erase old ++ [z]))).ps.Pairwise (fun a b => Pt.le a b = true) ∧
    (∀ p, (growSpanP t (sortPts (t.ps.erase old ++ [z]))).ps.count p =
      (t.ps.erase old).count p + if p = z then 1 else 0) ∧
    (∀ p : Pt Int, p.t ≠ a → (growSpanP t (sortPts (t.ps.erase old ++ [z]))).ps.count p = t.ps.count p) ∧
    ((growSpanP t (sortPts (t.ps.erase old ++ [z]))).ps.map (·.t)).Perm (t.ps.map (·.t)) ∧
    (growSpanP t (sortPts (t.ps.erase old ++ [z]))).lo = t.lo ∧
    (growSpanP t (sortPts (t.ps.erase old ++ [z]))).hi = t.hi := by
  obtain ⟨hom, hot⟩ := firstAt_some hold
  have hfin := finish_pinsert t hwf (t.ps.erase old) z (fun p hp => List.mem_of_mem_erase hp) hzs
  have hcount : ∀ p, (growSpanP t (sortPts (t.ps.erase old ++ [z]))).ps.count p =
      (t.ps.erase old).count p + if p = z then 1 else 0 := by
    intro p; rw [hfin.2.2.1.count_eq p, count_append_single]
  have h1 := hwf.inLo old hom
  have h2 := hwf.inHi old hom
  refine ⟨hfin.1, hfin.2.1, hfin.2.2.1, hfin.2.2.2.1, hcount, ?_, ?_, ?_, ?_⟩
  · intro p hp
    rw [hcount p, count_erase_of_time_ne _ _ _ (by omega)]
    have : p ≠ z := by intro e; subst e; exact hp hz
    simp [this]
  · have e1 : ((t.ps.erase old ++ [z]).map (·.t)).Perm (old.t :: (t.ps.erase old).map (·.t)) := by
      rw [List.map_append, List.map_singleton, hz, hot]
      exact List.perm_append_singleton _ _
    have e2 : (t.ps.map (·.t)).Perm (old.t :: (t.ps.erase old).map (·.t)) := by
      have := (List.perm_cons_erase hom).map (·.t)
      simpa using this
    exact ((hfin.2.2.1.map (·.t)).trans e1).trans e2.symm
  · rw [hfin.2.2.2.2.1]; omega
  · rw [hfin.2.2.2.2.2]; omega

/-- **collision, mode `replace`**: the FIRST point at that time (`old`; in a well-formed tier the one with the least
label) is removed and the new, stripped point is added; nothing else changes: every point at another time is kept with
its multiplicity, the multiset of times is the same, name and span are unchanged (the time lies inside the span), the
result is sorted and well-formed.  Other points at the same time, if any, stay. -/
theorem pinsert_replace_spec (t : PTier Int) (hwf : t.WF) (x : Pt Int) (hcol : ∃ p ∈ t.ps, p.t = x.t) :
    ∃ old, t.ps.find? (fun p => p.t == x.t) = some old ∧ old ∈ t.ps ∧ old.t = x.t ∧
      (∀ q ∈ t.ps, q.t = x.t → Pt.le old q = true) ∧
    ∃ t', t.insertEntry x .replace = .ok t' ∧ t'.WF ∧ t'.name = t.name ∧
      t'.ps.Perm (t.ps.erase old ++ [⟨x.t, pyStrip x.l⟩]) ∧
      t'.ps.Pairwise (fun a b => Pt.le a b = true) ∧
      (∀ p, t'.ps.count p = (t.ps.erase old).count p + if p = ⟨x.t, pyStrip x.l⟩ then 1 else 0) ∧
      (∀ p : Pt Int, p.t ≠ x.t → t'.ps.count p = t.ps.count p) ∧
      (t'.ps.map (·.t)).Perm (t.ps.map (·.t)) ∧
      t'.lo = t.lo ∧ t'.hi = t.hi := by
  obtain ⟨old, hold⟩ := firstAt_of_collision hcol
  obtain ⟨hom, hot⟩ := firstAt_some hold
  refine ⟨old, hold, hom, hot, first_is_least hwf.sorted hold, _, ((pinsert_unfold t x).2 old hold).1, ?_⟩
  exact collide_spec t hwf x.t old ⟨x.t, pyStrip x.l⟩ hold rfl (pyStrip_idem _)

/-- the label of the merged point is stripped (`-` is no white space and both parts are stripped) -/
theorem pmerged_label_stripped (t : PTier Int) (hwf : t.WF) (x old : Pt Int) (hold : old ∈ t.ps) :
    pyStrip (pyJoin "-" [old.l, pyStrip x.l]) = pyJoin "-" [old.l, pyStrip x.l] := by
  apply pyStrip_pyJoin
  intro l hl
  simp only [List.mem_cons, List.not_mem_nil, or_false] at hl
  rcases hl with rfl | rfl
  · exact hwf.stripped old hold
  · exact pyStrip_idem _

/-- **collision, mode `merge`**: the FIRST point at that time and the new one are replaced by one point at that time
whose label is `old.label + "-" + new.label` (old first — the order of arrival, both at the same time); the merged
label is stripped; everything else as for `replace` -/
theorem pinsert_merge_spec (t : PTier Int) (hwf : t.WF) (x : Pt Int) (hcol : ∃ p ∈ t.ps, p.t = x.t) :
    ∃ old, t.ps.find? (fun p => p.t == x.t) = some old ∧ old ∈ t.ps ∧ old.t = x.t ∧
      (∀ q ∈ t.ps, q.t = x.t → Pt.le old q = true) ∧
      pyStrip (pyJoin "-" [old.l, pyStrip x.l]) = pyJoin "-" [old.l, pyStrip x.l] ∧
    ∃ t', t.insertEntry x .merge = .ok t' ∧ t'.WF ∧ t'.name = t.name ∧
      t'.ps.Perm (t.ps.erase old ++ [⟨x.t, pyJoin "-" [old.l, pyStrip x.l]⟩]) ∧
      t'.ps.Pairwise (fun a b => Pt.le a b = true) ∧
      (∀ p, t'.ps.count p =
        (t.ps.erase old).count p + if p = ⟨x.t, pyJoin "-" [old.l, pyStrip x.l]⟩ then 1 else 0) ∧
      (∀ p : Pt Int, p.t ≠ x.t → t'.ps.count p = t.ps.count p) ∧
      (t'.ps.map (·.t)).Perm (t.ps.map (·.t)) ∧
      t'.lo = t.lo ∧ t'.hi = t.hi := by
  obtain ⟨old, hold⟩ := firstAt_of_collision hcol
  obtain ⟨hom, hot⟩ := firstAt_some hold
  have hstr := pmerged_label_stripped t hwf x old hom
  refine ⟨old, hold, hom, hot, first_is_least hwf.sorted hold, hstr, _, ((pinsert_unfold t x).2 old hold).2.1, ?_⟩
  exact collide_spec t hwf x.t old ⟨x.t, pyJoin "-" [old.l, pyStrip x.l]⟩ hold rfl hstr

/-! ## the multiset of times; tiers with at most one point per time -/

/-- an insertion (any mode) that returns a tier: on a collision the multiset of times is unchanged, otherwise the new
time is added once -/
theorem pinsert_times (t : PTier Int) (hwf : t.WF) (x : Pt Int) (m : InsMode) (t' : PTier Int)
    (h : t.insertEntry x m = .ok t') :
    ((∃ p ∈ t.ps, p.t = x.t) → (t'.ps.map (·.t)).Perm (t.ps.map (·.t))) ∧
    ((∀ p ∈ t.ps, p.t ≠ x.t) → (t'.ps.map (·.t)).Perm (t.ps.map (·.t) ++ [x.t])) := by
  constructor
  · intro hcol
    cases m with
    | error => rw [((pinsert_error_spec t x).1 hcol).1] at h; cases h
    | replace =>
      obtain ⟨_, _, _, _, _, t'', e, _, _, _, _, _, _, hp, _⟩ := pinsert_replace_spec t hwf x hcol
      rw [h] at e; cases e; exact hp
    | merge =>
      obtain ⟨_, _, _, _, _, _, t'', e, _, _, _, _, _, _, hp, _⟩ := pinsert_merge_spec t hwf x hcol
      rw [h] at e; cases e; exact hp
  · intro hfree
    obtain ⟨t'', e, _, _, hp, _⟩ := pinsert_nocollision_spec t hwf x m hfree
    rw [h] at e; cases e
    simpa using hp.map (·.t)

/-- at most one point per time is an invariant of `insertEntry` (every mode) -/
theorem pinsert_timesNodup (t : PTier Int) (hwf : t.WF) (hnd : TimesNodup t.ps) (x : Pt Int) (m : InsMode)
    (t' : PTier Int) (h : t.insertEntry x m = .ok t') : TimesNodup t'.ps := by
  have ht := pinsert_times t hwf x m t' h
  by_cases hcol : ∃ p ∈ t.ps, p.t = x.t
  · exact (ht.1 hcol).nodup_iff.2 hnd
  · have hfree : ∀ p ∈ t.ps, p.t ≠ x.t := fun p hp e => hcol ⟨p, hp, e⟩
    unfold TimesNodup
    rw [(ht.2 hfree).nodup_iff, (List.perm_append_singleton _ _).nodup_iff, List.nodup_cons]
    refine ⟨?_, hnd⟩
    intro hm
    obtain ⟨p, hp, hpt⟩ := List.mem_map.1 hm
    exact hfree p hp hpt

/-- **the property's wording, exactly**: when the tier holds at most one point per time, `replace` removes exactly the
colliding point and adds the new one, `merge` puts one point with the joined label in their place; every other point
is untouched, and the result again holds at most one point per time -/
theorem pinsert_collision_exact (t : PTier Int) (hwf : t.WF) (hnd : TimesNodup t.ps) (x old : Pt Int)
    (hold : old ∈ t.ps) (hot : old.t = x.t) :
    (∃ t', t.insertEntry x .replace = .ok t' ∧ t'.WF ∧ TimesNodup t'.ps ∧ t'.lo = t.lo ∧ t'.hi = t.hi ∧
      ∀ p, p ∈ t'.ps ↔ (p ∈ t.ps ∧ p.t ≠ x.t) ∨ p = ⟨x.t, pyStrip x.l⟩) ∧
    (∃ t', t.insertEntry x .merge = .ok t' ∧ t'.WF ∧ TimesNodup t'.ps ∧ t'.lo = t.lo ∧ t'.hi = t.hi ∧
      ∀ p, p ∈ t'.ps ↔ (p ∈ t.ps ∧ p.t ≠ x.t) ∨ p = ⟨x.t, pyJoin "-" [old.l, pyStrip x.l]⟩) := by
  have hcol : ∃ p ∈ t.ps, p.t = x.t := ⟨old, hold, hot⟩
  have hndp : t.ps.Nodup := List.Pairwise.of_map (·.t) (fun a b hab e => hab (congrArg _ e)) hnd
  have hmem : ∀ (o : Pt Int), o ∈ t.ps → o.t = x.t → ∀ p, p ∈ t.ps.erase o ↔ (p ∈ t.ps ∧ p.t ≠ x.t) := by
    intro o ho hox p
    rw [hndp.mem_erase_iff]
    constructor
    · rintro ⟨h1, h2⟩
      exact ⟨h2, fun e => h1 (hnd.eq_of_time h2 ho (by omega))⟩
    · rintro ⟨h1, h2⟩
      exact ⟨fun e => h2 (by rw [e, hox]), h1⟩
  constructor
  · obtain ⟨o, _, ho, hox, _, t', e, hw, _, hp, _, _, _, _, hlo, hhi⟩ := pinsert_replace_spec t hwf x hcol
    refine ⟨t', e, hw, pinsert_timesNodup t hwf hnd x .replace t' e, hlo, hhi, ?_⟩
    intro p
    rw [hp.mem_iff, List.mem_append, hmem o ho hox p, List.mem_singleton]
  · obtain ⟨o, _, ho, hox, _, _, t', e, hw, _, hp, _, _, _, _, hlo, hhi⟩ := pinsert_merge_spec t hwf x hcol
    have : o = old := hnd.eq_of_time ho hold (by omega)
    subst this
    refine ⟨t', e, hw, pinsert_timesNodup t hwf hnd x .merge t' e, hlo, hhi, ?_⟩
    intro p
    rw [hp.mem_iff, List.mem_append, hmem o ho hox p, List.mem_singleton]

/-! ## 5. deleteEntry -/

theorem deletePtTol_not_mem (ps : List (Pt Int)) (x : Pt Int) (h : ∀ p ∈ ps, ptEq p x = false) :
    deletePtTol ps x = .error .ValueError := by
  induction ps with
  | nil => rfl
  | cons e rest ih =>
    simp only [deletePtTol, h e (by simp), Bool.false_eq_true, if_false,
      ih (fun e' he' => h e' (List.mem_cons_of_mem _ he'))]
    rfl

theorem eraseSamePt_none (ps : List (Pt Int)) (x : Pt Int) (hx : x ∉ ps) : eraseSamePt ps x = none := by
  induction ps with
  | nil => rfl
  | cons e rest ih =>
    have he : e ≠ x := fun h => hx (by simp [h])
    have hs : ptSame e x = false := by
      cases h : ptSame e x
      · rfl
      · exact absurd ((ptSame_iff e x).1 h) he
    simp only [eraseSamePt, hs, Bool.false_eq_true, if_false, ih (fun h => hx (List.mem_cons_of_mem _ h)), Option.map]

theorem deletePt_not_mem (ps : List (Pt Int)) (x : Pt Int) (h : ∀ p ∈ ps, ptEq p x = false) :
    deletePt ps x = .error .ValueError := by
  have hx : x ∉ ps := fun hm => by
    have := h x hm
    rw [C05.ptEq_self] at this
    exact absurd this (by simp)
  simp only [deletePt, eraseSamePt_none ps x hx, deletePtTol_not_mem ps x h]

/-- **deleteEntry**: a member is removed — exactly one occurrence of exactly that point, whatever else in the tier is
close to it — and name and span stay; an argument that no point equals even under the tolerant `Point.__eq__` raises
ValueError (and nothing else ever makes it raise); the tier stays well-formed -/
theorem pdelete_spec (t : PTier Int) (x : Pt Int) :
    (x ∈ t.ps → t.deleteEntry x = .ok ⟨t.name, t.ps.erase x, t.lo, t.hi⟩ ∧
      (t.ps.erase x).count x = t.ps.count x - 1 ∧ ∀ p, p ≠ x → (t.ps.erase x).count p = t.ps.count p) ∧
    ((∀ p ∈ t.ps, ptEq p x = false) → t.deleteEntry x = .error .ValueError) ∧
    (∀ e, t.deleteEntry x = .error e → e = .ValueError ∧ ∀ p ∈ t.ps, ptEq p x = false) ∧
    (t.WF → (⟨t.name, t.ps.erase x, t.lo, t.hi⟩ : PTier Int).WF) := by
  refine ⟨fun hx => ⟨?_, ?_, ?_⟩, ?_, C05.pdelete_err t x, fun hwf => C05.wf_of_sublist t hwf _ List.erase_sublist⟩
  · simp [PTier.deleteEntry, deletePt_of_mem t.ps x hx, bind, Except.bind, pure, Except.pure]
  · rw [List.count_erase_self]
  · intro p hp; exact List.count_erase_of_ne hp
  · intro h
    simp [PTier.deleteEntry, deletePt_not_mem t.ps x h, bind, Except.bind]

/-! ## 6. histories of inserts and deletes -/

inductive PIOp
  | insert (x : Pt Int) (mode : InsMode)
  | delete (x : Pt Int)

def pistep (t : PTier Int) : PIOp → Except Err (PTier Int)
  | .insert x m => t.insertEntry x m
  | .delete x => t.deleteEntry x

/-- a failing operation leaves the tier as it was -/
def pirun (t : PTier Int) : List PIOp → PTier Int
  | [] => t
  | op :: ops => match pistep t op with
    | .ok t' => pirun t' ops
    | .error _ => pirun t ops

theorem pistep_inv (t : PTier Int) (hwf : t.WF) (hnd : TimesNodup t.ps) (op : PIOp) (t' : PTier Int)
    (h : pistep t op = .ok t') : t'.WF ∧ TimesNodup t'.ps := by
  cases op with
  | insert x m => exact ⟨C05.pinsert_wf t hwf x m t' h, pinsert_timesNodup t hwf hnd x m t' h⟩
  | delete x =>
    refine ⟨C05.pdelete_wf t hwf x t' h, ?_⟩
    simp only [pistep, PTier.deleteEntry] at h
    cases hd : deletePt t.ps x with
    | error e => simp [hd, bind, Except.bind] at h
    | ok ps =>
      simp only [hd, bind, Except.bind, pure, Except.pure, Except.ok.injEq] at h
      subst h
      exact hnd.sublist (C05.deletePt_sublist _ _ _ hd)

/-- **histories**: starting from a well-formed tier with at most one point per time, after ANY sequence of inserts
(any modes, any labels) and deletes (of present or absent points) the tier is well-formed and still holds at most one
point per time — so along such a history `pinsert_collision_exact` applies to every colliding insert -/
theorem pirun_timesNodup (t : PTier Int) (hwf : t.WF) (hnd : TimesNodup t.ps) (ops : List PIOp) :
    (pirun t ops).WF ∧ TimesNodup (pirun t ops).ps := by
  induction ops generalizing t with
  | nil => exact ⟨hwf, hnd⟩
  | cons op ops ih =>
    simp only [pirun]
    cases hs : pistep t op with
    | ok t' =>
      obtain ⟨h1, h2⟩ := pistep_inv t hwf hnd op t' hs
      exact ih t' h1 h2
    | error e => exact ih t hwf hnd

/-! ### the abstract semantics: a tier with at most one point per time is a finite map  time ↦ label -/

/-- the label at time `a` (of the first point there) -/
def labelAtP (ps : List (Pt Int)) (a : Int) : Option String := (firstAt ps a).map (·.l)

theorem labelAtP_some {ps : List (Pt Int)} (hnd : TimesNodup ps) (a : Int) (l : String) :
    labelAtP ps a = some l ↔ (⟨a, l⟩ : Pt Int) ∈ ps := by
  unfold labelAtP
  constructor
  · intro h
    cases hf : firstAt ps a with
    | none => rw [hf] at h; cases h
    | some o =>
      rw [hf] at h
      obtain ⟨ho, hoa⟩ := firstAt_some hf
      simp only [Option.map_some, Option.some.injEq] at h
      obtain ⟨ot, ol⟩ := o
      simp only at h hoa
      subst h; subst hoa
      exact ho
  · intro h
    obtain ⟨o, hf⟩ := firstAt_of_collision (ps := ps) (a := a) ⟨_, h, rfl⟩
    obtain ⟨ho, hoa⟩ := firstAt_some hf
    have : o = ⟨a, l⟩ := hnd.eq_of_time ho h hoa
    rw [hf, this]; rfl

theorem labelAtP_none {ps : List (Pt Int)} (a : Int) : labelAtP ps a = none ↔ ∀ p ∈ ps, p.t ≠ a := by
  unfold labelAtP
  rw [Option.map_eq_none_iff, firstAt_none]

/-- what `insertEntry(x, mode)` does to the map: last writer wins (`replace`), labels are joined in order of arrival
(`merge`), nothing changes (`error` on an occupied time) -/
def absIns (f : Int → Option String) (x : Pt Int) (m : InsMode) : Int → Option String := fun a =>
  if a = x.t then
    match f a, m with
    | none, _ => some (pyStrip x.l)
    | some _, .replace => some (pyStrip x.l)
    | some l, .merge => some (pyJoin "-" [l, pyStrip x.l])
    | some l, .error => some l
  else f a

/-- what `deleteEntry(x)` does to the map: the time is freed if it carries exactly that label -/
def absDel (f : Int → Option String) (x : Pt Int) : Int → Option String := fun a =>
  if a = x.t ∧ f a = some x.l then none else f a

def absStep (f : Int → Option String) : PIOp → Int → Option String
  | .insert x m => absIns f x m
  | .delete x => absDel f x

theorem pinsert_labelAt (t : PTier Int) (hwf : t.WF) (hnd : TimesNodup t.ps) (x : Pt Int) (m : InsMode)
    (t' : PTier Int) (h : t.insertEntry x m = .ok t') (a : Int) :
    labelAtP t'.ps a = absIns (labelAtP t.ps) x m a := by
  have hnd' := pinsert_timesNodup t hwf hnd x m t' h
  apply Option.ext
  intro l
  rw [labelAtP_some hnd']
  unfold absIns
  by_cases hcol : ∃ p ∈ t.ps, p.t = x.t
  · obtain ⟨old, hold, hot⟩ := hcol
    have hf : labelAtP t.ps x.t = some old.l := by
      rw [labelAtP_some hnd, ← hot]; exact hold
    obtain ⟨⟨t1, e1, _, _, _, _, hm1⟩, ⟨t2, e2, _, _, _, _, hm2⟩⟩ :=
      pinsert_collision_exact t hwf hnd x old hold hot
    cases m with
    | error => rw [((pinsert_error_spec t x).1 ⟨old, hold, hot⟩).1] at h; cases h
    | replace =>
      rw [h] at e1; cases e1
      rw [hm1]
      by_cases ha : a = x.t
      · subst ha; simp [hf, Pt.mk.injEq]; exact eq_comm
      · simp only [ha, if_false, labelAtP_some hnd, Pt.mk.injEq, false_and, or_false, ne_eq, not_false_eq_true,
          and_true]
    | merge =>
      rw [h] at e2; cases e2
      rw [hm2]
      by_cases ha : a = x.t
      · subst ha; simp [hf, Pt.mk.injEq]; exact eq_comm
      · simp only [ha, if_false, labelAtP_some hnd, Pt.mk.injEq, false_and, or_false, ne_eq, not_false_eq_true,
          and_true]
  · have hfree : ∀ p ∈ t.ps, p.t ≠ x.t := fun p hp e => hcol ⟨p, hp, e⟩
    have hf : labelAtP t.ps x.t = none := (labelAtP_none x.t).2 hfree
    obtain ⟨t1, e1, _, _, hp, _⟩ := pinsert_nocollision_spec t hwf x m hfree
    rw [h] at e1; cases e1
    rw [hp.mem_iff, List.mem_append, List.mem_singleton]
    by_cases ha : a = x.t
    · subst ha
      have : (⟨x.t, l⟩ : Pt Int) ∉ t.ps := fun hm => hfree _ hm rfl
      simp [hf, this, Pt.mk.injEq]; exact eq_comm
    · simp only [ha, if_false, labelAtP_some hnd, Pt.mk.injEq, false_and, or_false]

theorem pdelete_labelAt (t : PTier Int) (hnd : TimesNodup t.ps) (x : Pt Int) (a : Int) :
    (x ∈ t.ps → labelAtP (t.ps.erase x) a = absDel (labelAtP t.ps) x a) ∧
    (x ∉ t.ps → absDel (labelAtP t.ps) x a = labelAtP t.ps a) := by
  have hx : labelAtP t.ps x.t = some x.l ↔ x ∈ t.ps := labelAtP_some hnd x.t x.l
  constructor
  · intro hm
    have hndp : t.ps.Nodup := List.Pairwise.of_map (·.t) (fun a b hab e => hab (congrArg _ e)) hnd
    apply Option.ext
    intro l
    rw [labelAtP_some (hnd.sublist List.erase_sublist), hndp.mem_erase_iff]
    unfold absDel
    by_cases ha : a = x.t
    · subst ha
      simp only [hx.2 hm, and_self, if_true, reduceCtorEq, iff_false, not_and]
      intro hne hin
      exact hne (hnd.eq_of_time hin hm rfl)
    · simp only [ha, false_and, if_false, labelAtP_some hnd]
      constructor
      · exact fun h => h.2
      · exact fun h => ⟨fun e => ha (by rw [← e]), h⟩
  · intro hm
    unfold absDel
    by_cases ha : a = x.t
    · subst ha
      have : ¬ labelAtP t.ps x.t = some x.l := fun h => hm (hx.1 h)
      simp [this]
    · simp [ha]

/-- a `deleteEntry` whose outcome does not depend on the tolerance of `Point.__eq__`: the point is in the tier, or
no point of the tier is `==` to it (then the call raises) -/
def DelOk (t : PTier Int) : PIOp → Prop
  | .insert _ _ => True
  | .delete x => x ∈ t.ps ∨ ∀ p ∈ t.ps, ptEq p x = false

def PAdm : PTier Int → List PIOp → Prop
  | _, [] => True
  | t, op :: ops => DelOk t op ∧ PAdm (pirun t [op]) ops

theorem pirun_cons (t : PTier Int) (op : PIOp) (ops : List PIOp) : pirun t (op :: ops) = pirun (pirun t [op]) ops := by
  simp only [pirun]
  cases pistep t op <;> rfl

theorem pistep_labelAt (t : PTier Int) (hwf : t.WF) (hnd : TimesNodup t.ps) (op : PIOp) (hop : DelOk t op) (a : Int) :
    labelAtP (pirun t [op]).ps a = absStep (labelAtP t.ps) op a := by
  cases op with
  | insert x m =>
    simp only [pirun, pistep, absStep]
    cases h : t.insertEntry x m with
    | ok t' => exact pinsert_labelAt t hwf hnd x m t' h a
    | error e =>
      obtain ⟨_, hm, p, hp, hpt⟩ := C05.pinsert_err t x m e h
      subst hm
      have hf : labelAtP t.ps x.t = some p.l := by rw [labelAtP_some hnd, ← hpt]; exact hp
      simp only [absIns]
      by_cases ha : a = x.t
      · subst ha; simp [hf]
      · simp [ha]
  | delete x =>
    simp only [pirun, pistep, absStep]
    rcases hop with hm | hno
    · rw [((pdelete_spec t x).1 hm).1]
      exact (pdelete_labelAt t hnd x a).1 hm
    · rw [(pdelete_spec t x).2.1 hno]
      have hx : x ∉ t.ps := fun hm => by
        have := hno x hm
        rw [C05.ptEq_self] at this
        exact absurd this (by simp)
      exact ((pdelete_labelAt t hnd x a).2 hx).symm

/-- **histories, functionally**: on a tier with at most one point per time, ANY sequence of inserts (any modes) and
tolerance-independent deletes acts on the map  time ↦ label  as the abstract semantics says: a free time gets the
stripped label; on an occupied time `replace` overwrites, `merge` appends `-label`, `error` changes nothing; `delete`
frees the time if it carries that label.  (With `pirun_timesNodup` this determines the set of points of the result.) -/
theorem pirun_labelAt (t : PTier Int) (hwf : t.WF) (hnd : TimesNodup t.ps) (ops : List PIOp) (hadm : PAdm t ops) :
    labelAtP (pirun t ops).ps = ops.foldl absStep (labelAtP t.ps) := by
  induction ops generalizing t with
  | nil => rfl
  | cons op ops ih =>
    obtain ⟨hop, hrest⟩ := hadm
    obtain ⟨h1, h2⟩ := pirun_timesNodup t hwf hnd [op]
    rw [pirun_cons, ih (pirun t [op]) h1 h2 hrest, List.foldl_cons]
    congr 1
    funext a
    exact pistep_labelAt t hwf hnd op hop a

/-! ## 7. union (C10) — a fold of merge-inserts -/

/-- `insertEntry(·, 'merge')` on the list of points -/
def mergeIns (ps : List (Pt Int)) (x : Pt Int) : List (Pt Int) :=
  match firstAt ps x.t with
  | none => sortPts (ps ++ [⟨x.t, pyStrip x.l⟩])
  | some old => sortPts (ps.erase old ++ [⟨x.t, pyJoin "-" [old.l, pyStrip x.l]⟩])

theorem pinsert_merge_eq (t : PTier Int) (x : Pt Int) :
    t.insertEntry x .merge = .ok (growSpanP t (mergeIns t.ps x)) := by
  unfold mergeIns
  cases h : firstAt t.ps x.t with
  | none => exact (pinsert_unfold t x).1 h .merge
  | some old => exact ((pinsert_unfold t x).2 old h).2.1

def mergeT (t : PTier Int) (x : Pt Int) : PTier Int := growSpanP t (mergeIns t.ps x)

theorem foldlM_merge_eq (l : List (Pt Int)) (t : PTier Int) :
    l.foldlM (fun acc e => acc.insertEntry e .merge) t = .ok (l.foldl mergeT t) := by
  induction l generalizing t with
  | nil => rfl
  | cons x l ih =>
    rw [List.foldlM_cons, List.foldl_cons, pinsert_merge_eq]
    exact ih _

theorem fold_mergeT_ps (l : List (Pt Int)) (t : PTier Int) :
    (l.foldl mergeT t).ps = l.foldl mergeIns t.ps ∧ (l.foldl mergeT t).name = t.name := by
  induction l generalizing t with
  | nil => exact ⟨rfl, rfl⟩
  | cons x l ih =>
    simp only [List.foldl_cons]
    exact ih (mergeT t x)

theorem mergeT_wf (t : PTier Int) (hwf : t.WF) (x : Pt Int) :
    (mergeT t x).WF ∧ (mergeT t x).lo = min t.lo x.t ∧ (mergeT t x).hi = max t.hi x.t := by
  unfold mergeT mergeIns
  cases h : firstAt t.ps x.t with
  | none =>
    have hfin := finish_pinsert t hwf t.ps ⟨x.t, pyStrip x.l⟩ (fun _ h => h) (pyStrip_idem _)
    exact ⟨hfin.1, hfin.2.2.2.2⟩
  | some old =>
    obtain ⟨hom, hot⟩ := firstAt_some h
    have hc := collide_spec t hwf x.t old ⟨x.t, pyJoin "-" [old.l, pyStrip x.l]⟩ h rfl
      (pmerged_label_stripped t hwf x old hom)
    have h1 := hwf.inLo old hom
    have h2 := hwf.inHi old hom
    refine ⟨hc.1, ?_, ?_⟩
    · simp only; rw [hc.2.2.2.2.2.2.2.1]; omega
    · simp only; rw [hc.2.2.2.2.2.2.2.2]; omega

theorem fold_mergeT_wf (l : List (Pt Int)) (t : PTier Int) (hwf : t.WF) :
    (l.foldl mergeT t).WF ∧ (l.foldl mergeT t).lo = hullMin (l.map (·.t)) t.lo ∧
      (l.foldl mergeT t).hi = hullMax (l.map (·.t)) t.hi := by
  induction l generalizing t with
  | nil => exact ⟨hwf, rfl, rfl⟩
  | cons x l ih =>
    obtain ⟨h1, h2, h3⟩ := mergeT_wf t hwf x
    obtain ⟨i1, i2, i3⟩ := ih (mergeT t x) h1
    simp only [List.foldl_cons, List.map_cons, hullMin, hullMax] at *
    exact ⟨i1, by rw [i2, h2], by rw [i3, h3]⟩

theorem mergeIns_sorted (ps : List (Pt Int)) (x : Pt Int) :
    (mergeIns ps x).Pairwise (fun a b => Pt.le a b = true) := by
  unfold mergeIns
  split <;> exact C14.sortPts_pairwise _

theorem mergeIns_count (ps : List (Pt Int)) (x p : Pt Int) :
    (firstAt ps x.t = none →
      (mergeIns ps x).count p = ps.count p + if p = ⟨x.t, pyStrip x.l⟩ then 1 else 0) ∧
    (∀ old, firstAt ps x.t = some old →
      (mergeIns ps x).count p =
        (ps.erase old).count p + if p = ⟨x.t, pyJoin "-" [old.l, pyStrip x.l]⟩ then 1 else 0) := by
  constructor
  · intro h
    simp only [mergeIns, h]
    rw [(C14.sortPts_perm _).count_eq p, count_append_single]
  · intro old h
    simp only [mergeIns, h]
    rw [(C14.sortPts_perm _).count_eq p, count_append_single]

theorem mergeIns_count_ne (ps : List (Pt Int)) (x p : Pt Int) (hp : p.t ≠ x.t) :
    (mergeIns ps x).count p = ps.count p := by
  cases h : firstAt ps x.t with
  | none =>
    rw [(mergeIns_count ps x p).1 h]
    have : p ≠ ⟨x.t, pyStrip x.l⟩ := by intro e; subst e; exact hp rfl
    simp [this]
  | some old =>
    rw [(mergeIns_count ps x p).2 old h, count_erase_of_time_ne _ _ _ (by rw [(firstAt_some h).2]; exact hp)]
    have : p ≠ ⟨x.t, pyJoin "-" [old.l, pyStrip x.l]⟩ := by intro e; subst e; exact hp rfl
    simp [this]

/-- the point that a merge-insert leaves at the time of its argument -/
theorem mergeIns_has (ps : List (Pt Int)) (x : Pt Int) : ∃ z ∈ mergeIns ps x, z.t = x.t := by
  cases h : firstAt ps x.t with
  | none =>
    refine ⟨⟨x.t, pyStrip x.l⟩, ?_, rfl⟩
    rw [← List.count_pos_iff, (mergeIns_count ps x _).1 h]; simp
  | some old =>
    refine ⟨⟨x.t, pyJoin "-" [old.l, pyStrip x.l]⟩, ?_, rfl⟩
    rw [← List.count_pos_iff, (mergeIns_count ps x _).2 old h]; simp

theorem mergeIns_times (ps : List (Pt Int)) (x : Pt Int) (a : Int) :
    (∃ p ∈ mergeIns ps x, p.t = a) ↔ (∃ p ∈ ps, p.t = a) ∨ a = x.t := by
  constructor
  · rintro ⟨p, hp, hpa⟩
    by_cases e : a = x.t
    · exact Or.inr e
    · left
      refine ⟨p, ?_, hpa⟩
      rw [← List.count_pos_iff, ← mergeIns_count_ne ps x p (by omega)]
      exact List.count_pos_iff.2 hp
  · intro h
    by_cases e : a = x.t
    · subst e; exact mergeIns_has ps x
    · rcases h with ⟨p, hp, hpa⟩ | h
      · refine ⟨p, ?_, hpa⟩
        rw [← List.count_pos_iff, mergeIns_count_ne ps x p (by omega)]
        exact List.count_pos_iff.2 hp
      · exact absurd h e

/-- list-level: exchanging a point for another at the same time keeps the multiset of times -/
theorem times_erase_append (ps : List (Pt Int)) (old z : Pt Int) (hom : old ∈ ps) (hz : z.t = old.t) :
    ((ps.erase old ++ [z]).map (·.t)).Perm (ps.map (·.t)) := by
  have e1 : ((ps.erase old ++ [z]).map (·.t)).Perm (old.t :: (ps.erase old).map (·.t)) := by
    rw [List.map_append, List.map_singleton, hz]
    exact List.perm_append_singleton _ _
  have e2 : (ps.map (·.t)).Perm (old.t :: (ps.erase old).map (·.t)) := by
    have := (List.perm_cons_erase hom).map (·.t)
    simpa using this
  exact e1.trans e2.symm

theorem mergeIns_timesNodup (ps : List (Pt Int)) (hnd : TimesNodup ps) (x : Pt Int) : TimesNodup (mergeIns ps x) := by
  unfold mergeIns
  cases h : firstAt ps x.t with
  | none =>
    simp only
    refine TimesNodup.perm ?_ (C14.sortPts_perm _)
    unfold TimesNodup
    rw [List.map_append, List.map_singleton, (List.perm_append_singleton _ _).nodup_iff, List.nodup_cons]
    refine ⟨?_, hnd⟩
    intro hm
    obtain ⟨p, hp, hpt⟩ := List.mem_map.1 hm
    exact firstAt_none.1 h p hp hpt
  | some old =>
    simp only
    obtain ⟨hom, hot⟩ := firstAt_some h
    refine TimesNodup.perm ?_ (C14.sortPts_perm _)
    unfold TimesNodup
    rw [(times_erase_append ps old _ hom (by simp [hot])).nodup_iff]
    exact hnd

theorem fold_sorted (l ps : List (Pt Int)) (hs : ps.Pairwise (fun a b => Pt.le a b = true)) :
    (l.foldl mergeIns ps).Pairwise (fun a b => Pt.le a b = true) := by
  induction l generalizing ps with
  | nil => exact hs
  | cons x l ih => exact ih _ (mergeIns_sorted ps x)

theorem fold_times (l ps : List (Pt Int)) (a : Int) :
    (∃ p ∈ l.foldl mergeIns ps, p.t = a) ↔ (∃ p ∈ ps, p.t = a) ∨ (∃ q ∈ l, q.t = a) := by
  induction l generalizing ps with
  | nil => simp
  | cons x l ih =>
    simp only [List.foldl_cons]
    rw [ih (mergeIns ps x), mergeIns_times]
    constructor
    · rintro ((h | h) | ⟨q, hq, hqa⟩)
      · exact Or.inl h
      · exact Or.inr ⟨x, by simp, h.symm⟩
      · exact Or.inr ⟨q, List.mem_cons_of_mem _ hq, hqa⟩
    · rintro (h | ⟨q, hq, hqa⟩)
      · exact Or.inl (Or.inl h)
      · rcases List.mem_cons.1 hq with rfl | hq'
        · exact Or.inl (Or.inr hqa.symm)
        · exact Or.inr ⟨q, hq', hqa⟩

theorem fold_count_ne (l ps : List (Pt Int)) (p : Pt Int) (h : ∀ q ∈ l, q.t ≠ p.t) :
    (l.foldl mergeIns ps).count p = ps.count p := by
  induction l generalizing ps with
  | nil => rfl
  | cons x l ih =>
    simp only [List.foldl_cons]
    rw [ih (mergeIns ps x) (fun q hq => h q (List.mem_cons_of_mem _ hq)),
      mergeIns_count_ne ps x p (fun e => h x (by simp) e.symm)]

theorem fold_timesNodup (l ps : List (Pt Int)) (hnd : TimesNodup ps) : TimesNodup (l.foldl mergeIns ps) := by
  induction l generalizing ps with
  | nil => exact hnd
  | cons x l ih => exact ih _ (mergeIns_timesNodup ps hnd x)

/-- the points left at the time of `b` when `b` is the only entry of the inserted list at that time -/
theorem fold_at (l1 l2 ps : List (Pt Int)) (b : Pt Int) (hs : ps.Pairwise (fun a b => Pt.le a b = true))
    (h1 : ∀ q ∈ l1, q.t ≠ b.t) (h2 : ∀ q ∈ l2, q.t ≠ b.t) (p : Pt Int) (hp : p.t = b.t) :
    (firstAt ps b.t = none →
      ((l1 ++ b :: l2).foldl mergeIns ps).count p = if p = ⟨b.t, pyStrip b.l⟩ then 1 else 0) ∧
    (∀ old, firstAt ps b.t = some old →
      ((l1 ++ b :: l2).foldl mergeIns ps).count p =
        (ps.erase old).count p + if p = ⟨b.t, pyJoin "-" [old.l, pyStrip b.l]⟩ then 1 else 0) := by
  have hc1 : ∀ q : Pt Int, q.t = b.t → (l1.foldl mergeIns ps).count q = ps.count q := by
    intro q hq
    exact fold_count_ne l1 ps q (fun r hr => by rw [hq]; exact h1 r hr)
  have hf : firstAt (l1.foldl mergeIns ps) b.t = firstAt ps b.t := firstAt_congr (fold_sorted l1 ps hs) hs b.t hc1
  have hc2 : ((l1 ++ b :: l2).foldl mergeIns ps).count p = (mergeIns (l1.foldl mergeIns ps) b).count p := by
    rw [List.foldl_append, List.foldl_cons]
    exact fold_count_ne l2 _ p (fun r hr => by rw [hp]; exact h2 r hr)
  constructor
  · intro hn
    rw [hc2, (mergeIns_count _ b p).1 (by rw [hf]; exact hn), hc1 p hp]
    have : p ∉ ps := fun hm => firstAt_none.1 hn p hm hp
    rw [List.count_eq_zero_of_not_mem this, Nat.zero_add]
  · intro old ho
    rw [hc2, (mergeIns_count _ b p).2 old (by rw [hf]; exact ho), List.count_erase, List.count_erase, hc1 p hp]

theorem TimesNodup.split {l1 l2 : List (Pt Int)} {b : Pt Int} (h : TimesNodup (l1 ++ b :: l2)) :
    (∀ q ∈ l1, q.t ≠ b.t) ∧ (∀ q ∈ l2, q.t ≠ b.t) := by
  have hcount := h.count_le_one b
  rw [List.count_append, List.count_cons_self] at hcount
  constructor
  · intro q hq e
    have : q = b := h.eq_of_time (List.mem_append_left _ hq) (by simp) e
    subst this
    have := List.count_pos_iff.2 hq
    omega
  · intro q hq e
    have : q = b := h.eq_of_time (List.mem_append_right _ (List.mem_cons_of_mem _ hq)) (by simp) e
    subst this
    have := List.count_pos_iff.2 hq
    omega

/-- `union` computes the fold -/
theorem punion_eq_fold (t u : PTier Int) (ht : t.WF) :
    t.union u = .ok (u.ps.foldl mergeT t) ∧ (u.ps.foldl mergeT t).ps = u.ps.foldl mergeIns t.ps := by
  have hps := (fold_mergeT_ps u.ps t).1
  refine ⟨?_, hps⟩
  unfold PTier.union
  rw [C05.pnew_of_wf t ht]
  simp only [bind, Except.bind, foldlM_merge_eq, pure, Except.pure]
  have hsrt : sortPts (u.ps.foldl mergeT t).ps = (u.ps.foldl mergeT t).ps :=
    List.mergeSort_of_pairwise (fold_mergeT_wf u.ps t ht).1.sorted
  rw [hsrt]

/-- **union of point tiers** (`t.union(u)`, both well-formed).  It never fails; the result is well-formed and keeps
`t`'s name; its times are exactly the times of `t` and of `u`; a point of `t` at a time where `u` has none is kept
(with its multiplicity); when `u` holds at most one point per time: a point of `u` at a time where `t` has none is
present with its label and is the only point there, and a point `b` of `u` at a time where `t` has points is merged
with the FIRST of them, `old`, into `old.label-b.label`, `t`'s other points at that time staying as they are (so with at
most one point per time in `t` as well, there is exactly one point at a common time and its label is `lt-lu`);
at most one point per time in `t` gives the same for the result, whatever `u` is; the span is `t`'s span grown to the
TIMES OF `u`'S POINTS (`u`'s own minTimestamp/maxTimestamp play no role) -/
theorem punion_spec (t u : PTier Int) (ht : t.WF) (hu : u.WF) :
    ∃ r, t.union u = .ok r ∧ r.WF ∧ r.name = t.name ∧
      (∀ a, (∃ p ∈ r.ps, p.t = a) ↔ (∃ p ∈ t.ps, p.t = a) ∨ (∃ p ∈ u.ps, p.t = a)) ∧
      (∀ p : Pt Int, (∀ q ∈ u.ps, q.t ≠ p.t) → r.ps.count p = t.ps.count p) ∧
      (TimesNodup u.ps → ∀ q ∈ u.ps, (∀ p ∈ t.ps, p.t ≠ q.t) → q ∈ r.ps ∧ ∀ p ∈ r.ps, p.t = q.t → p = q) ∧
      (TimesNodup u.ps → ∀ b ∈ u.ps, ∀ old, t.ps.find? (fun p => p.t == b.t) = some old →
        ∀ p : Pt Int, p.t = b.t →
          r.ps.count p = (t.ps.erase old).count p + if p = ⟨b.t, pyJoin "-" [old.l, b.l]⟩ then 1 else 0) ∧
      (TimesNodup t.ps → TimesNodup u.ps → ∀ a ∈ t.ps, ∀ b ∈ u.ps, a.t = b.t →
        (⟨a.t, pyJoin "-" [a.l, b.l]⟩ : Pt Int) ∈ r.ps ∧
        ∀ p ∈ r.ps, p.t = a.t → p = ⟨a.t, pyJoin "-" [a.l, b.l]⟩) ∧
      (TimesNodup t.ps → TimesNodup r.ps) ∧
      r.lo = hullMin (u.ps.map (·.t)) t.lo ∧ r.hi = hullMax (u.ps.map (·.t)) t.hi := by
  obtain ⟨he, hps⟩ := punion_eq_fold t u ht
  obtain ⟨hw, hlo, hhi⟩ := fold_mergeT_wf u.ps t ht
  -- the fold at the time of a point of `u` that is alone at its time
  have hat : TimesNodup u.ps → ∀ b ∈ u.ps, ∀ p : Pt Int, p.t = b.t →
      (firstAt t.ps b.t = none → (u.ps.foldl mergeT t).ps.count p = if p = b then 1 else 0) ∧
      (∀ old, firstAt t.ps b.t = some old → (u.ps.foldl mergeT t).ps.count p =
        (t.ps.erase old).count p + if p = ⟨b.t, pyJoin "-" [old.l, b.l]⟩ then 1 else 0) := by
    intro hnd b hb p hp
    obtain ⟨l1, l2, hsplit⟩ := List.append_of_mem hb
    rw [hsplit] at hnd
    obtain ⟨h1, h2⟩ := hnd.split
    have hbs : pyStrip b.l = b.l := hu.stripped b hb
    have hbb : (⟨b.t, pyStrip b.l⟩ : Pt Int) = b := by rw [hbs]
    have := fold_at l1 l2 t.ps b ht.sorted h1 h2 p hp
    rw [hbs, ← hsplit, ← hps] at this
    simpa [hbb] using this
  refine ⟨_, he, hw, (fold_mergeT_ps u.ps t).2, ?_, ?_, ?_, ?_, ?_, ?_, hlo, hhi⟩
  · intro a; rw [hps]; exact fold_times u.ps t.ps a
  · intro p h; rw [hps]; exact fold_count_ne u.ps t.ps p h
  · intro hnd q hq hfree
    have hn : firstAt t.ps q.t = none := firstAt_none.2 hfree
    constructor
    · rw [← List.count_pos_iff, ((hat hnd q hq q rfl).1 hn)]; simp
    · intro p hp hpt
      have := (hat hnd q hq p hpt).1 hn
      by_cases e : p = q
      · exact e
      · rw [if_neg e] at this
        exact absurd (List.count_pos_iff.2 hp) (by omega)
  · intro hnd b hb old ho p hp
    exact (hat hnd b hb p hp).2 old ho
  · intro hndt hndu a ha b hb hab
    obtain ⟨old, ho⟩ := firstAt_of_collision (ps := t.ps) (a := b.t) ⟨a, ha, hab⟩
    obtain ⟨hom, hot⟩ := firstAt_some ho
    have : old = a := hndt.eq_of_time hom ha (by omega)
    subst this
    have hz : ∀ p : Pt Int, p.t = b.t → (t.ps.erase old).count p = 0 := by
      intro p hp
      apply List.count_eq_zero_of_not_mem
      intro hm
      have hndp : t.ps.Nodup := List.Pairwise.of_map (·.t) (fun a b hab e => hab (congrArg _ e)) hndt
      rw [hndp.mem_erase_iff] at hm
      exact hm.1 (hndt.eq_of_time hm.2 hom (by omega))
    rw [hab]
    constructor
    · rw [← List.count_pos_iff, (hat hndu b hb ⟨b.t, pyJoin "-" [old.l, b.l]⟩ rfl).2 old ho]; simp
    · intro p hp hpt
      have := (hat hndu b hb p hpt).2 old ho
      rw [hz p hpt] at this
      by_cases e : p = ⟨b.t, pyJoin "-" [old.l, b.l]⟩
      · exact e
      · rw [if_neg e] at this
        exact absurd (List.count_pos_iff.2 hp) (by omega)
  · intro hnd; rw [hps]; exact fold_timesNodup u.ps t.ps hnd

/-- with at most one point per time in both operands the union is, point for point: `t`'s points at times `u` does not
have, `u`'s points at times `t` does not have, and one point `time, lt-lu` for every common time -/
theorem punion_exact (t u : PTier Int) (ht : t.WF) (hu : u.WF) (hndt : TimesNodup t.ps) (hndu : TimesNodup u.ps) :
    ∃ r, t.union u = .ok r ∧ r.WF ∧ TimesNodup r.ps ∧
      ∀ p, p ∈ r.ps ↔ (p ∈ t.ps ∧ ∀ q ∈ u.ps, q.t ≠ p.t) ∨ (p ∈ u.ps ∧ ∀ q ∈ t.ps, q.t ≠ p.t) ∨
        ∃ a ∈ t.ps, ∃ b ∈ u.ps, a.t = b.t ∧ p = ⟨a.t, pyJoin "-" [a.l, b.l]⟩ := by
  obtain ⟨r, he, hw, _, htimes, hkeep, hnew, _, hboth, hnd, _, _⟩ := punion_spec t u ht hu
  refine ⟨r, he, hw, hnd hndt, ?_⟩
  intro p
  constructor
  · intro hp
    by_cases hq : ∃ q ∈ u.ps, q.t = p.t
    · obtain ⟨q, hq, hqt⟩ := hq
      by_cases ha : ∃ a ∈ t.ps, a.t = p.t
      · obtain ⟨a, ha, hat⟩ := ha
        right; right
        exact ⟨a, ha, q, hq, by omega, (hboth hndt hndu a ha q hq (by omega)).2 p hp (by omega)⟩
      · right; left
        have hfree : ∀ a ∈ t.ps, a.t ≠ q.t := fun a ham e => ha ⟨a, ham, by omega⟩
        have := (hnew hndu q hq hfree).2 p hp (by omega)
        subst this
        exact ⟨hq, hfree⟩
    · left
      have hfree : ∀ q ∈ u.ps, q.t ≠ p.t := fun q hqm e => hq ⟨q, hqm, e⟩
      refine ⟨?_, hfree⟩
      rw [← List.count_pos_iff, ← hkeep p hfree]
      exact List.count_pos_iff.2 hp
  · rintro (⟨hp, hfree⟩ | ⟨hp, hfree⟩ | ⟨a, ha, b, hb, hab, rfl⟩)
    · rw [← List.count_pos_iff, hkeep p hfree]
      exact List.count_pos_iff.2 hp
    · exact (hnew hndu p hp hfree).1
    · exact (hboth hndt hndu a ha b hb hab).1

/-! ## 8. appendTier (C09) — entry order -/

/-- **PointTier.appendTier**: `u`'s points are shifted by `t.maxTimestamp` (a point whose new time is negative is
dropped — never the case for tiers on non-negative times), put behind `t`'s and the whole list is sorted by
`(time, label)`: the result is THE sorted arrangement of `t.ps ++ shifted u.ps`.  For tiers on non-negative times no
point is dropped, every point of `t` is at or before `t.maxTimestamp` and every shifted point of `u` at or after it,
and the span is `[t.lo, t.hi + u.hi]`.  Hence `t`'s points come first in the list — except at the time `t.maxTimestamp`
itself, where a point of `t` and a shifted point of `u` (originally at time 0) are ordered by LABEL: when every such
pair is in label order the result is the plain concatenation (`pappend_order_counterexample` shows the other case) -/
theorem pappend_order (t u : PTier Int) (ht : t.WF) (hu : u.WF) :
    ∃ r, t.appendTier u = .ok r ∧ r.WF ∧ r.name = t.name ∧
      r.ps = sortPts (t.ps ++ u.ps.filterMap (C09.pshift t.hi)) ∧
      r.ps.Perm (t.ps ++ u.ps.filterMap (C09.pshift t.hi)) ∧
      r.ps.Pairwise (fun a b => Pt.le a b = true) ∧
      (∀ l : List (Pt Int), l.Perm (t.ps ++ u.ps.filterMap (C09.pshift t.hi)) →
        l.Pairwise (fun a b => Pt.le a b = true) → r.ps = l) ∧
      (0 ≤ u.lo → 0 ≤ t.hi →
        u.ps.filterMap (C09.pshift t.hi) = u.ps.map (fun p => ⟨p.t + t.hi, p.l⟩) ∧
        (∀ a ∈ t.ps, ∀ b ∈ u.ps.filterMap (C09.pshift t.hi), a.t ≤ t.hi ∧ t.hi ≤ b.t) ∧
        r.lo = t.lo ∧ r.hi = t.hi + u.hi) ∧
      ((∀ a ∈ t.ps, ∀ b ∈ u.ps, a.t = t.hi → b.t = 0 → a.l ≤ b.l) → 0 ≤ u.lo →
        r.ps = t.ps ++ u.ps.filterMap (C09.pshift t.hi)) := by
  obtain ⟨u', e1, hu', _, hps', _, _⟩ := C09.pedit_core u hu t.hi .silence (Or.inl (by decide))
  generalize hL : t.ps ++ u.ps.filterMap (C09.pshift t.hi) = L at *
  have hsrt := C14.sortPts_pairwise L
  have hperm := C14.sortPts_perm L
  have hstrL : ∀ p ∈ L, pyStrip p.l = p.l := by
    intro p hp
    rw [← hL] at hp
    rcases List.mem_append.1 hp with h | h
    · exact ht.stripped p h
    · rw [← hps'] at h; exact hu'.stripped p h
  have hstr : ∀ p ∈ sortPts L, pyStrip p.l = p.l := fun p hp => hstrL p (hperm.mem_iff.1 hp)
  have hmk := mkPTier_of_wf t.name (sortPts L) t.lo (t.hi + u.hi) hsrt hstr
  have he : t.appendTier u = mkPTier t.name (sortPts L) (some t.lo) (some (t.hi + u.hi)) := by
    unfold PTier.appendTier
    rw [e1]
    simp only [bind, Except.bind, PTier.new, Option.getD_none, Option.getD_some, hps', hL]
  rw [hmk] at he
  refine ⟨_, he, C05.pappend_wf t u _ he, rfl, rfl, hperm, hsrt, ?_, ?_, ?_⟩
  · intro l hl hls
    exact sorted_perm_unique hsrt hls (hperm.trans hl.symm)
  · intro hulo hthi
    have hnd : ∀ p ∈ u.ps, C09.pshift t.hi p = some ⟨p.t + t.hi, p.l⟩ := by
      intro p hp
      have := hu.inLo p hp
      unfold C09.pshift
      rw [if_neg (by omega)]
    have hmap : u.ps.filterMap (C09.pshift t.hi) = u.ps.map (fun p => ⟨p.t + t.hi, p.l⟩) := by
      rw [← List.filterMap_eq_map]
      exact C09.filterMap_congr' hnd
    have hcross : ∀ a ∈ t.ps, ∀ b ∈ u.ps.filterMap (C09.pshift t.hi), a.t ≤ t.hi ∧ t.hi ≤ b.t := by
      intro a ha b hb
      rw [hmap] at hb
      obtain ⟨q, hq, rfl⟩ := List.mem_map.1 hb
      have := hu.inLo q hq
      exact ⟨ht.inHi a ha, by simp only; omega⟩
    refine ⟨hmap, hcross, ?_⟩
    have hin : ∀ p ∈ sortPts L, t.lo ≤ p.t ∧ p.t ≤ t.hi + u.hi := by
      intro p hp
      have hp' := hperm.mem_iff.1 hp
      rw [← hL] at hp'
      have := hu.span
      have := ht.span
      rcases List.mem_append.1 hp' with h | h
      · have := ht.inLo p h; have := ht.inHi p h; omega
      · rw [hmap] at h
        obtain ⟨q, hq, rfl⟩ := List.mem_map.1 h
        have := hu.inLo q hq; have := hu.inHi q hq
        simp only; omega
    obtain ⟨r2, h1, _, _, _, h5, h6⟩ := mkPTier_wf t.name (sortPts L) t.lo (t.hi + u.hi) hsrt hstr
      (fun p hp => (hin p hp).1) (fun p hp => (hin p hp).2) (by have := hu.span; have := ht.span; omega)
    rw [hmk] at h1
    cases h1
    exact ⟨h5, h6⟩
  · intro hlab hulo
    show sortPts L = L
    apply List.mergeSort_of_pairwise
    rw [← hL, List.pairwise_append]
    refine ⟨ht.sorted, ?_, ?_⟩
    · rw [← hps']; exact hu'.sorted
    · intro a ha b hb
      obtain ⟨q, hq, hqb⟩ := List.mem_filterMap.1 hb
      obtain ⟨_, rfl⟩ := C09.pshift_some hqb
      have h1 := ht.inHi a ha
      have h2 := hu.inLo q hq
      by_cases hlt : a.t < q.t + t.hi
      · exact Pt.le_of_lt_time hlt
      · have e1 : a.t = t.hi := by omega
        have e2 : q.t = 0 := by omega
        have := hlab a ha q hq e1 e2
        simp only [Pt.le]
        rw [if_neg (by omega), if_neg (by omega)]
        simpa using this

/-! ## non-vacuity: concrete tiers, proved instances, and the counterexamples on coinciding times -/

/-- one point per time -/
def pexT : PTier Int := ⟨"P", [⟨10, "a"⟩, ⟨40, "b"⟩, ⟨70, "d"⟩], 0, 100⟩
/-- two points at time 40 (accepted by the constructor: `PointTier('P', [(10,'a'),(40,'b'),(40,'c'),(70,'d')], 0, 100)`) -/
def pexD : PTier Int := ⟨"P", [⟨10, "a"⟩, ⟨40, "b"⟩, ⟨40, "c"⟩, ⟨70, "d"⟩], 0, 100⟩
def pexU : PTier Int := ⟨"U", [⟨25, "u"⟩, ⟨40, "v"⟩, ⟨130, "w"⟩], 0, 130⟩
/-- two points at time 25 -/
def pexV : PTier Int := ⟨"V", [⟨25, "u"⟩, ⟨25, "v"⟩], 0, 130⟩
/-- a point at the very end of the span / a point at time 0 -/
def pexA : PTier Int := ⟨"A", [⟨10, "a"⟩, ⟨100, "b"⟩], 0, 100⟩
def pexB : PTier Int := ⟨"B", [⟨0, "a"⟩, ⟨5, "v"⟩], 0, 130⟩

theorem pexT_wf : pexT.WF := by refine ⟨?_, ?_, ?_, ?_, ?_⟩ <;> simp [pexT, Pt.le] <;> decide
theorem pexD_wf : pexD.WF := by refine ⟨?_, ?_, ?_, ?_, ?_⟩ <;> simp [pexD, Pt.le] <;> decide
theorem pexU_wf : pexU.WF := by refine ⟨?_, ?_, ?_, ?_, ?_⟩ <;> simp [pexU, Pt.le] <;> decide
theorem pexV_wf : pexV.WF := by refine ⟨?_, ?_, ?_, ?_, ?_⟩ <;> simp [pexV, Pt.le] <;> decide
theorem pexA_wf : pexA.WF := by refine ⟨?_, ?_, ?_, ?_, ?_⟩ <;> simp [pexA, Pt.le] <;> decide
theorem pexB_wf : pexB.WF := by refine ⟨?_, ?_, ?_, ?_, ?_⟩ <;> simp [pexB, Pt.le] <;> decide
theorem pexT_nd : TimesNodup pexT.ps := by unfold TimesNodup; decide
theorem pexU_nd : TimesNodup pexU.ps := by unfold TimesNodup; decide

/-- instance of `pinsert_nocollision_spec`: an unstripped label, a time outside the span, `error` mode -/
theorem pex_nocollision : ∃ t', pexT.insertEntry ⟨150, "far\n"⟩ .error = .ok t' ∧ t'.WF ∧
    t'.ps = [⟨10, "a"⟩, ⟨40, "b"⟩, ⟨70, "d"⟩, ⟨150, "far"⟩] ∧ t'.lo = 0 ∧ t'.hi = 150 := by
  obtain ⟨t', e, hw, _, _, _, hps, _, hlo, hhi⟩ :=
    pinsert_nocollision_spec pexT pexT_wf ⟨150, "far\n"⟩ .error (by decide)
  refine ⟨t', e, hw, ?_, by rw [hlo]; decide, by rw [hhi]; decide⟩
  rw [hps]; decide

/-- instance of `pinsert_error_spec` -/
theorem pex_error : pexT.insertEntry ⟨40, "n"⟩ .error = .error .CollisionError :=
  ((pinsert_error_spec pexT ⟨40, "n"⟩).1 ⟨⟨40, "b"⟩, by decide, rfl⟩).1

/-- instances of `pinsert_replace_spec` / `pinsert_merge_spec` on a tier with one point per time -/
theorem pex_replace : ∃ t', pexT.insertEntry ⟨40, " n "⟩ .replace = .ok t' ∧ t'.WF ∧
    t'.ps = [⟨10, "a"⟩, ⟨40, "n"⟩, ⟨70, "d"⟩] ∧ t'.lo = 0 ∧ t'.hi = 100 := by
  obtain ⟨old, hf, _, _, _, t', e, hw, _, hp, hs, _, _, _, hlo, hhi⟩ :=
    pinsert_replace_spec pexT pexT_wf ⟨40, " n "⟩ ⟨⟨40, "b"⟩, by decide, rfl⟩
  have : old = ⟨40, "b"⟩ := by
    have h : pexT.ps.find? (fun p => p.t == 40) = some ⟨40, "b"⟩ := by decide
    rw [h] at hf; exact (Option.some.inj hf).symm
  subst this
  exact ⟨t', e, hw, sorted_perm_unique hs (by decide) (hp.trans (by decide)), hlo, hhi⟩

theorem pex_merge : ∃ t', pexT.insertEntry ⟨40, " n "⟩ .merge = .ok t' ∧ t'.WF ∧
    t'.ps = [⟨10, "a"⟩, ⟨40, "b-n"⟩, ⟨70, "d"⟩] ∧ t'.lo = 0 ∧ t'.hi = 100 := by
  obtain ⟨old, hf, _, _, _, _, t', e, hw, _, hp, hs, _, _, _, hlo, hhi⟩ :=
    pinsert_merge_spec pexT pexT_wf ⟨40, " n "⟩ ⟨⟨40, "b"⟩, by decide, rfl⟩
  have : old = ⟨40, "b"⟩ := by
    have h : pexT.ps.find? (fun p => p.t == 40) = some ⟨40, "b"⟩ := by decide
    rw [h] at hf; exact (Option.some.inj hf).symm
  subst this
  exact ⟨t', e, hw, sorted_perm_unique hs (by decide) (hp.trans (by decide)), hlo, hhi⟩

/-- **counterexample to the property as worded** ("'replace' removes exactly the colliding entries", "'merge' replaces
them and the new entry by one entry … whose label joins all labels"): with two points at the time of the new one, only
the FIRST is replaced / merged — the other colliding point stays.  Replayed on the code:
`t = PointTier('P', [(10,'a'),(40,'b'),(40,'c'),(70,'d')], 0, 100); t.insertEntry((40,'n'), 'replace')` leaves
`[(10,'a'), (40,'c'), (40,'n'), (70,'d')]`, and `'merge'` leaves `[(10,'a'), (40,'b-n'), (40,'c'), (70,'d')]`. -/
theorem pinsert_collision_counterexample :
    pexD.WF ∧
    (∃ t', pexD.insertEntry ⟨40, "n"⟩ .replace = .ok t' ∧
      t'.ps = [⟨10, "a"⟩, ⟨40, "c"⟩, ⟨40, "n"⟩, ⟨70, "d"⟩]) ∧
    (∃ t', pexD.insertEntry ⟨40, "n"⟩ .merge = .ok t' ∧
      t'.ps = [⟨10, "a"⟩, ⟨40, "b-n"⟩, ⟨40, "c"⟩, ⟨70, "d"⟩]) := by
  have hfind : pexD.ps.find? (fun p => p.t == 40) = some ⟨40, "b"⟩ := by decide
  refine ⟨pexD_wf, ?_, ?_⟩
  · obtain ⟨old, hf, _, _, _, t', e, _, _, hp, hs, _⟩ :=
      pinsert_replace_spec pexD pexD_wf ⟨40, "n"⟩ ⟨⟨40, "b"⟩, by decide, rfl⟩
    have : old = ⟨40, "b"⟩ := by rw [hfind] at hf; exact (Option.some.inj hf).symm
    subst this
    exact ⟨t', e, sorted_perm_unique hs (by decide) (hp.trans (by decide))⟩
  · obtain ⟨old, hf, _, _, _, _, t', e, _, _, hp, hs, _⟩ :=
      pinsert_merge_spec pexD pexD_wf ⟨40, "n"⟩ ⟨⟨40, "b"⟩, by decide, rfl⟩
    have : old = ⟨40, "b"⟩ := by rw [hfind] at hf; exact (Option.some.inj hf).symm
    subst this
    exact ⟨t', e, sorted_perm_unique hs (by decide) (hp.trans (by decide))⟩

/-- instance of `pdelete_spec` -/
theorem pex_delete : pexD.deleteEntry ⟨40, "c"⟩ = .ok ⟨"P", [⟨10, "a"⟩, ⟨40, "b"⟩, ⟨70, "d"⟩], 0, 100⟩ ∧
    pexD.deleteEntry ⟨41, "c"⟩ = .error .ValueError := by
  constructor
  · rw [((pdelete_spec pexD ⟨40, "c"⟩).1 (by decide)).1]
    have : pexD.ps.erase ⟨40, "c"⟩ = [⟨10, "a"⟩, ⟨40, "b"⟩, ⟨70, "d"⟩] := by decide
    rw [this]; rfl
  · apply (pdelete_spec pexD ⟨41, "c"⟩).2.1
    decide

/-- evaluating a merge-insert on concrete lists without running the sort: the result is THE sorted arrangement -/
theorem mergeIns_eq (ps : List (Pt Int)) (x : Pt Int) (l : List (Pt Int))
    (hl : l.Pairwise (fun a b => Pt.le a b = true)) :
    (firstAt ps x.t = none → l.Perm (ps ++ [⟨x.t, pyStrip x.l⟩]) → mergeIns ps x = l) ∧
    (∀ old, firstAt ps x.t = some old → l.Perm (ps.erase old ++ [⟨x.t, pyJoin "-" [old.l, pyStrip x.l]⟩]) →
      mergeIns ps x = l) := by
  constructor
  · intro h hp
    apply sorted_perm_unique (mergeIns_sorted ps x) hl
    simp only [mergeIns, h]
    exact (C14.sortPts_perm _).trans hp.symm
  · intro old h hp
    apply sorted_perm_unique (mergeIns_sorted ps x) hl
    simp only [mergeIns, h]
    exact (C14.sortPts_perm _).trans hp.symm

/-- instance of `punion_exact` / `punion_spec`: one point per time in both operands; 40 is a common time -/
theorem pex_union : ∃ r, pexT.union pexU = .ok r ∧ r.WF ∧ TimesNodup r.ps ∧
    r.ps = [⟨10, "a"⟩, ⟨25, "u"⟩, ⟨40, "b-v"⟩, ⟨70, "d"⟩, ⟨130, "w"⟩] ∧ r.lo = 0 ∧ r.hi = 130 := by
  obtain ⟨r, e, hw, _, _, _, _, _, _, hnd, hlo, hhi⟩ := punion_spec pexT pexU pexT_wf pexU_wf
  refine ⟨r, e, hw, hnd pexT_nd, ?_, by rw [hlo]; decide, by rw [hhi]; decide⟩
  obtain ⟨e', hps⟩ := punion_eq_fold pexT pexU pexT_wf
  rw [e] at e'; cases e'
  rw [hps]
  simp only [pexU, List.foldl_cons, List.foldl_nil]
  rw [(mergeIns_eq pexT.ps ⟨25, "u"⟩ [⟨10, "a"⟩, ⟨25, "u"⟩, ⟨40, "b"⟩, ⟨70, "d"⟩] (by decide)).1
      (by decide) (by decide),
    (mergeIns_eq _ ⟨40, "v"⟩ [⟨10, "a"⟩, ⟨25, "u"⟩, ⟨40, "b-v"⟩, ⟨70, "d"⟩] (by decide)).2 ⟨40, "b"⟩
      (by decide) (by decide),
    (mergeIns_eq _ ⟨130, "w"⟩ [⟨10, "a"⟩, ⟨25, "u"⟩, ⟨40, "b-v"⟩, ⟨70, "d"⟩, ⟨130, "w"⟩] (by decide)).1
      (by decide) (by decide)]

/-- **counterexamples to the property as worded** ("every point of either tier is present; points at the same time
are merged with joined labels"), both on well-formed operands:
(1) the receiver has two points at time 40 and the argument one: the argument's point is merged with the FIRST only,
two points at time 40 remain and `(40,'c')` is not merged;
(2) the argument has two points at time 25 and the receiver none: they are merged WITH EACH OTHER — neither `(25,'u')`
nor `(25,'v')` is present, `(25,'u-v')` is.
Replayed on the code: `PointTier('P',[(10,'a'),(40,'b'),(40,'c'),(70,'d')],0,100).union(PointTier('U',[(25,'u'),
(40,'v'),(130,'w')],0,130))` has entries `[(10,'a'),(25,'u'),(40,'b-v'),(40,'c'),(70,'d'),(130,'w')]`;
`PointTier('P',[(10,'a'),(40,'b'),(70,'d')],0,100).union(PointTier('V',[(25,'u'),(25,'v')],0,130))` has
`[(10,'a'),(25,'u-v'),(40,'b'),(70,'d')]` and span `[0, 100]` (the argument's maxTimestamp 130 is ignored). -/
theorem punion_counterexample :
    pexD.WF ∧ pexU.WF ∧ pexT.WF ∧ pexV.WF ∧
    (∃ r, pexD.union pexU = .ok r ∧
      r.ps = [⟨10, "a"⟩, ⟨25, "u"⟩, ⟨40, "b-v"⟩, ⟨40, "c"⟩, ⟨70, "d"⟩, ⟨130, "w"⟩]) ∧
    (∃ r, pexT.union pexV = .ok r ∧ r.ps = [⟨10, "a"⟩, ⟨25, "u-v"⟩, ⟨40, "b"⟩, ⟨70, "d"⟩] ∧
      r.lo = 0 ∧ r.hi = 100) := by
  refine ⟨pexD_wf, pexU_wf, pexT_wf, pexV_wf, ?_, ?_⟩
  · obtain ⟨e, hps⟩ := punion_eq_fold pexD pexU pexD_wf
    refine ⟨_, e, ?_⟩
    rw [hps]
    simp only [pexU, List.foldl_cons, List.foldl_nil]
    rw [(mergeIns_eq pexD.ps ⟨25, "u"⟩ [⟨10, "a"⟩, ⟨25, "u"⟩, ⟨40, "b"⟩, ⟨40, "c"⟩, ⟨70, "d"⟩] (by decide)).1
        (by decide) (by decide),
      (mergeIns_eq _ ⟨40, "v"⟩ [⟨10, "a"⟩, ⟨25, "u"⟩, ⟨40, "b-v"⟩, ⟨40, "c"⟩, ⟨70, "d"⟩] (by decide)).2 ⟨40, "b"⟩
        (by decide) (by decide),
      (mergeIns_eq _ ⟨130, "w"⟩ [⟨10, "a"⟩, ⟨25, "u"⟩, ⟨40, "b-v"⟩, ⟨40, "c"⟩, ⟨70, "d"⟩, ⟨130, "w"⟩]
        (by decide)).1 (by decide) (by decide)]
  · obtain ⟨e, hps⟩ := punion_eq_fold pexT pexV pexT_wf
    obtain ⟨_, hlo, hhi⟩ := fold_mergeT_wf pexV.ps pexT pexT_wf
    refine ⟨_, e, ?_, by rw [hlo]; decide, by rw [hhi]; decide⟩
    rw [hps]
    simp only [pexV, List.foldl_cons, List.foldl_nil]
    rw [(mergeIns_eq pexT.ps ⟨25, "u"⟩ [⟨10, "a"⟩, ⟨25, "u"⟩, ⟨40, "b"⟩, ⟨70, "d"⟩] (by decide)).1
        (by decide) (by decide),
      (mergeIns_eq _ ⟨25, "v"⟩ [⟨10, "a"⟩, ⟨25, "u-v"⟩, ⟨40, "b"⟩, ⟨70, "d"⟩] (by decide)).2 ⟨25, "u"⟩
        (by decide) (by decide)]

/-- instance of `pappend_order` where the concatenation is already in order -/
theorem pex_append : ∃ r, pexT.appendTier pexU = .ok r ∧ r.WF ∧
    r.ps = [⟨10, "a"⟩, ⟨40, "b"⟩, ⟨70, "d"⟩, ⟨125, "u"⟩, ⟨140, "v"⟩, ⟨230, "w"⟩] ∧ r.lo = 0 ∧ r.hi = 230 := by
  obtain ⟨r, e, hw, _, _, _, _, _, hspan, hcat⟩ := pappend_order pexT pexU pexT_wf pexU_wf
  obtain ⟨_, _, hlo, hhi⟩ := hspan (by decide) (by decide)
  refine ⟨r, e, hw, ?_, hlo, hhi⟩
  rw [hcat (by decide) (by decide)]
  decide

/-- **the entry order of `PointTier.appendTier` at a coinciding time**: `t` has a point at its maxTimestamp, `u` a
point at time 0 with a smaller label — in the result `u`'s shifted point stands BEFORE `t`'s point (the sort decides by
label).  So "A's entries followed by B's shifted entries" (true of interval tiers, `C09.append_spec`) holds for point
tiers only in time order, not in list order.  Replayed on the code:
`PointTier('A',[(10,'a'),(100,'b')],0,100).appendTier(PointTier('B',[(0,'a'),(5,'v')],0,130))` has entries
`[(10,'a'), (100,'a'), (100,'b'), (105,'v')]`. -/
theorem pappend_order_counterexample :
    pexA.WF ∧ pexB.WF ∧ ∃ r, pexA.appendTier pexB = .ok r ∧
      r.ps = [⟨10, "a"⟩, ⟨100, "a"⟩, ⟨100, "b"⟩, ⟨105, "v"⟩] ∧
      r.ps ≠ pexA.ps ++ pexB.ps.map (fun p => ⟨p.t + pexA.hi, p.l⟩) := by
  obtain ⟨r, e, _, _, _, _, _, huniq, _⟩ := pappend_order pexA pexB pexA_wf pexB_wf
  have hps := huniq [⟨10, "a"⟩, ⟨100, "a"⟩, ⟨100, "b"⟩, ⟨105, "v"⟩] (by decide) (by decide)
  refine ⟨pexA_wf, pexB_wf, r, e, hps, ?_⟩
  rw [hps]; decide

/-- instance of `pirun_labelAt` / `pirun_timesNodup`: a history with a merge on an occupied time, a refused insert,
a replace, a deletion of a present and of an absent point -/
def pexOps : List PIOp :=
  [.insert ⟨40, " n "⟩ .merge, .insert ⟨40, "z"⟩ .error, .insert ⟨10, "r"⟩ .replace, .delete ⟨70, "d"⟩,
   .delete ⟨71, "d"⟩, .insert ⟨150, "far\n"⟩ .error]

theorem pex_history : (pirun pexT pexOps).WF ∧ TimesNodup (pirun pexT pexOps).ps :=
  pirun_timesNodup pexT pexT_wf pexT_nd pexOps

-- evaluated illustrations (interpreter tests, not proofs); the same calls on the code give the same tiers
#guard (pexT.insertEntry ⟨150, "far\n"⟩ .error).toOption.map (fun t => (t.ps, t.lo, t.hi)) ==
  some ([⟨10, "a"⟩, ⟨40, "b"⟩, ⟨70, "d"⟩, ⟨150, "far"⟩], 0, 150)
#guard (pexT.insertEntry ⟨40, " n "⟩ .replace).toOption.map (fun t => (t.ps, t.lo, t.hi)) ==
  some ([⟨10, "a"⟩, ⟨40, "n"⟩, ⟨70, "d"⟩], 0, 100)
#guard (pexT.insertEntry ⟨40, " n "⟩ .merge).toOption.map (fun t => (t.ps, t.lo, t.hi)) ==
  some ([⟨10, "a"⟩, ⟨40, "b-n"⟩, ⟨70, "d"⟩], 0, 100)
#guard (match pexT.insertEntry ⟨40, "n"⟩ .error with | .error .CollisionError => true | _ => false)
-- two points at the time of the new one: only the first is replaced / merged
#guard (pexD.insertEntry ⟨40, "n"⟩ .replace).toOption.map (·.ps) ==
  some [⟨10, "a"⟩, ⟨40, "c"⟩, ⟨40, "n"⟩, ⟨70, "d"⟩]
#guard (pexD.insertEntry ⟨40, "n"⟩ .merge).toOption.map (·.ps) ==
  some [⟨10, "a"⟩, ⟨40, "b-n"⟩, ⟨40, "c"⟩, ⟨70, "d"⟩]
#guard (pexD.deleteEntry ⟨40, "c"⟩).toOption.map (·.ps) == some [⟨10, "a"⟩, ⟨40, "b"⟩, ⟨70, "d"⟩]
#guard (match pexD.deleteEntry ⟨41, "c"⟩ with | .error .ValueError => true | _ => false)
#guard (pexT.union pexU).toOption.map (fun t => (t.name, t.ps, t.lo, t.hi)) ==
  some ("P", [⟨10, "a"⟩, ⟨25, "u"⟩, ⟨40, "b-v"⟩, ⟨70, "d"⟩, ⟨130, "w"⟩], 0, 130)
#guard (pexD.union pexU).toOption.map (·.ps) ==
  some [⟨10, "a"⟩, ⟨25, "u"⟩, ⟨40, "b-v"⟩, ⟨40, "c"⟩, ⟨70, "d"⟩, ⟨130, "w"⟩]
#guard (pexT.union pexV).toOption.map (fun t => (t.ps, t.lo, t.hi)) ==
  some ([⟨10, "a"⟩, ⟨25, "u-v"⟩, ⟨40, "b"⟩, ⟨70, "d"⟩], 0, 100)
-- the merged point can overtake its neighbour at the same time, and the next merge then meets the other one
#guard ((⟨"P", [⟨40, "b"⟩, ⟨40, "b-a"⟩], 0, 100⟩ : PTier Int).union ⟨"U", [⟨40, "z"⟩, ⟨40, "zz"⟩], 0, 100⟩).toOption.map
  (·.ps) == some [⟨40, "b-a-zz"⟩, ⟨40, "b-z"⟩]
#guard (pexT.appendTier pexU).toOption.map (fun t => (t.ps, t.lo, t.hi)) ==
  some ([⟨10, "a"⟩, ⟨40, "b"⟩, ⟨70, "d"⟩, ⟨125, "u"⟩, ⟨140, "v"⟩, ⟨230, "w"⟩], 0, 230)
#guard (pexA.appendTier pexB).toOption.map (fun t => (t.ps, t.lo, t.hi)) ==
  some ([⟨10, "a"⟩, ⟨100, "a"⟩, ⟨100, "b"⟩, ⟨105, "v"⟩], 0, 230)
#guard (pirun pexT pexOps).ps == [⟨10, "r"⟩, ⟨40, "b-n"⟩, ⟨150, "far"⟩]
#guard pexOps.foldl absStep (labelAtP pexT.ps) 40 == some "b-n" &&
  pexOps.foldl absStep (labelAtP pexT.ps) 70 == none && pexOps.foldl absStep (labelAtP pexT.ps) 10 == some "r"

end C11
