import PraatModel.Props.C11
import PraatModel.Props.C05Points
import PraatModel.Props.C09
import PraatModel.Props.C14

/-!
# C11 / C10 / C09 on POINT tiers — functional specifications of insertEntry, deleteEntry, union, appendTier

Exact arithmetic.  The receiver is a well-formed point tier (`PTier.WF`: sorted by time, ties by label; inside the span;
stripped labels).  A well-formed point tier MAY hold several points at one time (the constructor accepts them).  Since
the repair A24 in /repo (`PointTier.insertEntry` used to stop at the FIRST point at the insertion time; proving these
specifications showed that the property's wording then needed the hypothesis `TimesNodup`), EVERY point at the insertion
time collides: `replace` removes all of them, `merge` joins all their labels (in list order, i.e. ascending label) and
then the new label.  The specifications below hold on every well-formed tier without any hypothesis on coinciding
times; `pinsert_collision_regression` and `punion_dup_regression` are the former counterexamples, now positive.
`TimesNodup` (at most one point per time) is still an invariant of every insert/delete history (`pirun_timesNodup`) and
the hypothesis under which a tier is a finite map time ↦ label (`pirun_labelAt`).
-/
namespace C11

/-! ## sorted lists of points -/

theorem Pt.le_refl' (a : Pt Int) : Pt.le a a = true := by
  simp [Pt.le]

theorem Pt.le_antisymm' {a b : Pt Int} (h1 : Pt.le a b = true) (h2 : Pt.le b a = true) : a = b := by
  obtain ⟨ta, la⟩ := a; obtain ⟨tb, lb⟩ := b
  have e1 := Pt.le_time h1
  have e2 := Pt.le_time h2
  simp only at e1 e2
  have e : ta = tb := by omega
  subst e
  simp only [Pt.le, Int.lt_irrefl, if_false, decide_eq_true_eq] at h1 h2
  rw [String.le_antisymm h1 h2]

theorem Pt.le_of_lt_time {a b : Pt Int} (h : a.t < b.t) : Pt.le a b = true := by
  simp [Pt.le, h]

/-- a list sorted by `(time, label)` is determined by its multiset of points: what `list.sort()` returns is THE sorted
arrangement -/
theorem sorted_perm_unique {l₁ l₂ : List (Pt Int)} (h₁ : l₁.Pairwise (fun a b => Pt.le a b = true))
    (h₂ : l₂.Pairwise (fun a b => Pt.le a b = true)) (hp : l₁.Perm l₂) : l₁ = l₂ :=
  List.Perm.eq_of_pairwise (fun _ _ _ _ hab hba => Pt.le_antisymm' hab hba) h₁ h₂ hp

/-- at most one point per time -/
def TimesNodup (ps : List (Pt Int)) : Prop := (ps.map (·.t)).Nodup

theorem TimesNodup.eq_of_time {ps : List (Pt Int)} (h : TimesNodup ps) {a b : Pt Int} (ha : a ∈ ps) (hb : b ∈ ps)
    (hab : a.t = b.t) : a = b := by
  unfold TimesNodup at h
  induction ps with
  | nil => simp at ha
  | cons p ps ih =>
    simp only [List.map_cons, List.nodup_cons, List.mem_map, not_exists, not_and] at h
    rcases List.mem_cons.1 ha with rfl | ha' <;> rcases List.mem_cons.1 hb with rfl | hb'
    · rfl
    · exact absurd hab.symm (h.1 b hb')
    · exact absurd hab (h.1 a ha')
    · exact ih h.2 ha' hb'

theorem TimesNodup.count_le_one {ps : List (Pt Int)} (h : TimesNodup ps) (p : Pt Int) : ps.count p ≤ 1 := by
  have hnd : ps.Nodup := by
    unfold TimesNodup at h
    exact List.Pairwise.of_map (·.t) (fun a b hab e => hab (congrArg _ e)) h
  exact List.nodup_iff_count.1 hnd p

theorem TimesNodup.sublist {ps ps' : List (Pt Int)} (h : TimesNodup ps) (hs : ps'.Sublist ps) : TimesNodup ps' :=
  List.Nodup.sublist (hs.map _) h

theorem TimesNodup.perm {ps ps' : List (Pt Int)} (h : TimesNodup ps) (hp : ps'.Perm ps) : TimesNodup ps' :=
  (hp.map _).nodup_iff.2 h

/-- the first point at time `a` (its label is what `labelAtP` reads; with at most one point per time, THE point there) -/
def firstAt (ps : List (Pt Int)) (a : Int) : Option (Pt Int) := ps.find? (fun p => p.t == a)

theorem firstAt_none {ps : List (Pt Int)} {a : Int} : firstAt ps a = none ↔ ∀ p ∈ ps, p.t ≠ a := by
  unfold firstAt
  rw [List.find?_eq_none]
  constructor
  · intro h p hp; simpa using h p hp
  · intro h p hp; simpa using h p hp

theorem firstAt_some {ps : List (Pt Int)} {a : Int} {old : Pt Int} (h : firstAt ps a = some old) :
    old ∈ ps ∧ old.t = a :=
  ⟨List.mem_of_find?_eq_some h, by simpa using List.find?_some h⟩

theorem firstAt_of_collision {ps : List (Pt Int)} {a : Int} (h : ∃ p ∈ ps, p.t = a) : ∃ old, firstAt ps a = some old := by
  cases hf : firstAt ps a with
  | some old => exact ⟨old, rfl⟩
  | none =>
    obtain ⟨p, hp, hpa⟩ := h
    exact absurd hpa (firstAt_none.1 hf p hp)

/-- in a sorted list the first point at a time is the least one (smallest label) among the points at that time -/
theorem first_is_least {ps : List (Pt Int)} (hs : ps.Pairwise (fun a b => Pt.le a b = true)) {a : Int} {old : Pt Int}
    (h : firstAt ps a = some old) : ∀ q ∈ ps, q.t = a → Pt.le old q = true := by
  induction ps with
  | nil => simp [firstAt] at h
  | cons p ps ih =>
    obtain ⟨hp, hs'⟩ := List.pairwise_cons.1 hs
    unfold firstAt at h
    rw [List.find?_cons] at h
    by_cases hpa : p.t = a
    · have : (p.t == a) = true := by simpa using hpa
      simp only [this, Option.some.injEq] at h
      subst h
      intro q hq _
      rcases List.mem_cons.1 hq with rfl | hq'
      · exact Pt.le_refl' _
      · exact hp q hq'
    · have : (p.t == a) = false := by simpa using hpa
      simp only [this] at h
      intro q hq hqa
      rcases List.mem_cons.1 hq with rfl | hq'
      · exact absurd hqa hpa
      · exact ih hs' h q hq' hqa

/-- two sorted lists with the same points at time `a` have the same first point there -/
theorem firstAt_congr {ps ps' : List (Pt Int)} (hs : ps.Pairwise (fun a b => Pt.le a b = true))
    (hs' : ps'.Pairwise (fun a b => Pt.le a b = true)) (a : Int)
    (hc : ∀ p : Pt Int, p.t = a → ps.count p = ps'.count p) : firstAt ps a = firstAt ps' a := by
  have hmem : ∀ p : Pt Int, p.t = a → (p ∈ ps ↔ p ∈ ps') := by
    intro p hp
    rw [← List.count_pos_iff, ← List.count_pos_iff, hc p hp]
  cases h : firstAt ps a with
  | none =>
    symm
    rw [firstAt_none] at h ⊢
    intro p hp hpa
    exact h p ((hmem p hpa).2 hp) hpa
  | some o =>
    obtain ⟨ho, hoa⟩ := firstAt_some h
    obtain ⟨o', h'⟩ := firstAt_of_collision ⟨o, (hmem o hoa).1 ho, hoa⟩
    obtain ⟨ho', hoa'⟩ := firstAt_some h'
    have e : o = o' := Pt.le_antisymm' (first_is_least hs h o' ((hmem o' hoa').2 ho') hoa')
      (first_is_least hs' h' o ((hmem o hoa).1 ho) hoa)
    rw [h', e]

theorem TimesNodup.split {l1 l2 : List (Pt Int)} {b : Pt Int} (h : TimesNodup (l1 ++ b :: l2)) :
    (∀ q ∈ l1, q.t ≠ b.t) ∧ (∀ q ∈ l2, q.t ≠ b.t) := by
  have hcount := h.count_le_one b
  rw [List.count_append, List.count_cons_self] at hcount
  constructor
  · intro q hq e
    have : q = b := h.eq_of_time (List.mem_append_left _ hq) (by simp) e
    subst this
    have := List.count_pos_iff.2 hq
    omega
  · intro q hq e
    have : q = b := h.eq_of_time (List.mem_append_right _ (List.mem_cons_of_mem _ hq)) (by simp) e
    subst this
    have := List.count_pos_iff.2 hq
    omega

/-! ## the points at a time and the points off a time -/

theorem mem_off {ps : List (Pt Int)} {a : Int} {p : Pt Int} :
    p ∈ ps.filter (fun p => !(p.t == a)) ↔ p ∈ ps ∧ p.t ≠ a := by
  simp [List.mem_filter]

theorem mem_at {ps : List (Pt Int)} {a : Int} {p : Pt Int} :
    p ∈ ps.filter (fun p => p.t == a) ↔ p ∈ ps ∧ p.t = a := by
  simp [List.mem_filter]

theorem at_nil {ps : List (Pt Int)} {a : Int} : ps.filter (fun p => p.t == a) = [] ↔ ∀ p ∈ ps, p.t ≠ a := by
  rw [List.filter_eq_nil_iff]
  constructor <;> intro h p hp <;> simpa using h p hp

theorem at_ne_nil {ps : List (Pt Int)} {a : Int} : ps.filter (fun p => p.t == a) ≠ [] ↔ ∃ p ∈ ps, p.t = a := by
  constructor
  · intro h
    obtain ⟨p, hp⟩ := List.exists_mem_of_ne_nil _ h
    exact ⟨p, (mem_at.1 hp).1, (mem_at.1 hp).2⟩
  · rintro ⟨p, hp, hpa⟩ h
    exact at_nil.1 h p hp hpa

theorem off_self {ps : List (Pt Int)} {a : Int} (h : ∀ p ∈ ps, p.t ≠ a) : ps.filter (fun p => !(p.t == a)) = ps := by
  rw [List.filter_eq_self]; intro p hp; simpa using h p hp

theorem count_off (ps : List (Pt Int)) (a : Int) (p : Pt Int) :
    (ps.filter (fun p => !(p.t == a))).count p = if p.t = a then 0 else ps.count p := by
  by_cases h : p.t = a
  · rw [if_pos h]; apply List.count_eq_zero_of_not_mem; intro hm; exact (mem_off.1 hm).2 h
  · rw [if_neg h]; exact List.count_filter (by simpa using h)

theorem count_at (ps : List (Pt Int)) (a : Int) (p : Pt Int) :
    (ps.filter (fun p => p.t == a)).count p = if p.t = a then ps.count p else 0 := by
  by_cases h : p.t = a
  · rw [if_pos h]; exact List.count_filter (by simpa using h)
  · rw [if_neg h]; apply List.count_eq_zero_of_not_mem; intro hm; exact h (mem_at.1 hm).2

/-- with at most one point per time, the points at the time of a member are that member alone -/
theorem TimesNodup.filter_at {ps : List (Pt Int)} (h : TimesNodup ps) {b : Pt Int} (hb : b ∈ ps) :
    ps.filter (fun p => p.t == b.t) = [b] := by
  obtain ⟨l1, l2, hsplit⟩ := List.append_of_mem hb
  rw [hsplit] at h ⊢
  obtain ⟨h1, h2⟩ := h.split
  rw [List.filter_append, List.filter_cons, at_nil.2 h1, at_nil.2 h2]
  simp

/-- two sorted lists with the same points at time `a` list them in the same order -/
theorem filter_at_congr {ps ps' : List (Pt Int)} (hs : ps.Pairwise (fun a b => Pt.le a b = true))
    (hs' : ps'.Pairwise (fun a b => Pt.le a b = true)) (a : Int)
    (hc : ∀ p : Pt Int, p.t = a → ps.count p = ps'.count p) :
    ps.filter (fun p => p.t == a) = ps'.filter (fun p => p.t == a) := by
  apply sorted_perm_unique (hs.sublist List.filter_sublist) (hs'.sublist List.filter_sublist)
  rw [List.perm_iff_count]
  intro p
  rw [count_at, count_at]
  split
  · next h => exact hc p h
  · rfl

/-- the labels of the points at one time stand in ascending order in a sorted list -/
theorem labels_at_sorted {ps : List (Pt Int)} (hs : ps.Pairwise (fun a b => Pt.le a b = true)) (a : Int) :
    ((ps.filter (fun p => p.t == a)).map (·.l)).Pairwise (· ≤ ·) := by
  rw [List.pairwise_map]
  refine (hs.sublist List.filter_sublist).imp_of_mem ?_
  intro p q hp hq hle
  have e1 := (mem_at.1 hp).2
  have e2 := (mem_at.1 hq).2
  simp only [Pt.le] at hle
  rw [if_neg (by omega), if_neg (by omega)] at hle
  simpa using hle

/-! ## insertEntry as a function on the list, and the span update -/

/-- the span after `insertEntry`: everything but the new point `y` was inside the old span, so the span grows to
`y.t` and no further -/
theorem growSpanP_span (t : PTier Int) (_hspan : t.lo ≤ t.hi) (ps : List (Pt Int))
    (hs : ps.Pairwise (fun a b => Pt.le a b = true)) (y : Pt Int) (hy : y ∈ ps)
    (hin : ∀ p ∈ ps, p = y ∨ (t.lo ≤ p.t ∧ p.t ≤ t.hi)) :
    (growSpanP t ps).lo = min t.lo y.t ∧ (growSpanP t ps).hi = max t.hi y.t := by
  unfold growSpanP
  cases hf : ps.head? with
  | none =>
    have : ps = [] := by cases ps with
      | nil => rfl
      | cons x xs => simp at hf
    subst this; simp at hy
  | some f =>
    obtain ⟨g, hg⟩ : ∃ g, ps.getLast? = some g := by
      cases ps with
      | nil => simp at hf
      | cons x xs => exact ⟨_, List.getLast?_eq_some_getLast (by simp)⟩
    have h1 := C05.head_le_of_sorted ps hs f hf y hy
    have h2 := C05.le_getLast_of_sorted ps hs g hg y hy
    have hfm : f ∈ ps := List.mem_of_mem_head? (by rw [hf]; rfl)
    have hgm : g ∈ ps := List.mem_of_mem_getLast? (by rw [hg]; rfl)
    simp only [hg]
    constructor
    · rcases hin f hfm with rfl | h
      · split <;> omega
      · split <;> omega
    · rcases hin g hgm with rfl | h
      · split <;> omega
      · split <;> omega

/-- the common end of all three successful branches: some points of the tier plus one new stripped point, sorted -/
theorem finish_pinsert (t : PTier Int) (hwf : t.WF) (ps0 : List (Pt Int)) (y : Pt Int)
    (hsub : ∀ p ∈ ps0, p ∈ t.ps) (hy : pyStrip y.l = y.l) :
    (growSpanP t (sortPts (ps0 ++ [y]))).WF ∧ (growSpanP t (sortPts (ps0 ++ [y]))).name = t.name ∧
    (growSpanP t (sortPts (ps0 ++ [y]))).ps.Perm (ps0 ++ [y]) ∧
    (growSpanP t (sortPts (ps0 ++ [y]))).ps.Pairwise (fun a b => Pt.le a b = true) ∧
    (growSpanP t (sortPts (ps0 ++ [y]))).lo = min t.lo y.t ∧
    (growSpanP t (sortPts (ps0 ++ [y]))).hi = max t.hi y.t := by
  have hsrt := C14.sortPts_pairwise (ps0 ++ [y])
  have hperm := C14.sortPts_perm (ps0 ++ [y])
  have hstr : ∀ p ∈ sortPts (ps0 ++ [y]), pyStrip p.l = p.l := by
    intro p hp
    rcases List.mem_append.1 (hperm.mem_iff.1 hp) with h | h
    · exact hwf.stripped p (hsub p h)
    · simp only [List.mem_singleton] at h; subst h; exact hy
  have hspan := growSpanP_span t hwf.span (sortPts (ps0 ++ [y])) hsrt y (hperm.mem_iff.2 (by simp)) (by
    intro p hp
    rcases List.mem_append.1 (hperm.mem_iff.1 hp) with h | h
    · exact Or.inr ⟨hwf.inLo p (hsub p h), hwf.inHi p (hsub p h)⟩
    · simp only [List.mem_singleton] at h; exact Or.inl h)
  exact ⟨C05.growSpanP_wf t hwf.span _ hsrt hstr, rfl, hperm, hsrt, hspan.1, hspan.2⟩

theorem count_append_single (ps : List (Pt Int)) (y p : Pt Int) :
    (ps ++ [y]).count p = ps.count p + if p = y then 1 else 0 := by
  rw [List.count_append, List.count_singleton]
  by_cases h : p = y
  · subst h; simp
  · have : (y == p) = false := by simpa using (Ne.symm h)
    simp [this, h]

/-- THE place of a point `z` among the points of a sorted list that are not at its time -/
theorem sorted_place (ps : List (Pt Int)) (hs : ps.Pairwise (fun a b => Pt.le a b = true)) (z : Pt Int)
    (l : List (Pt Int)) (hl : l.Pairwise (fun a b => Pt.le a b = true))
    (hp : l.Perm (ps.filter (fun p => !(p.t == z.t)) ++ [z])) :
    l = ps.filter (fun p => decide (p.t < z.t)) ++ z :: ps.filter (fun p => decide (z.t < p.t)) := by
  apply sorted_perm_unique hl _ (hp.trans _)
  · rw [List.pairwise_append]
    refine ⟨hs.sublist List.filter_sublist, ?_, ?_⟩
    · rw [List.pairwise_cons]
      refine ⟨?_, hs.sublist List.filter_sublist⟩
      intro b hb
      have := (List.mem_filter.1 hb).2
      exact Pt.le_of_lt_time (by simpa using this)
    · intro a ha b hb
      have h1 : a.t < z.t := by simpa using (List.mem_filter.1 ha).2
      rcases List.mem_cons.1 hb with rfl | hb'
      · exact Pt.le_of_lt_time h1
      · have h2 : z.t < b.t := by simpa using (List.mem_filter.1 hb').2
        exact Pt.le_of_lt_time (by omega)
  · have e1 : ps.filter (fun p => decide (p.t < z.t)) =
        (ps.filter (fun p => !(p.t == z.t))).filter (fun p => decide (p.t < z.t)) := by
      rw [List.filter_filter]
      apply List.filter_congr
      intro p _
      by_cases h : p.t < z.t
      · have : p.t ≠ z.t := by omega
        simp [h, this]
      · simp [h]
    have e2 : ps.filter (fun p => decide (z.t < p.t)) =
        (ps.filter (fun p => !(p.t == z.t))).filter (fun p => !decide (p.t < z.t)) := by
      rw [List.filter_filter]
      apply List.filter_congr
      intro p _
      by_cases h : z.t < p.t
      · have h1 : ¬ p.t < z.t := by omega
        have h2 : p.t ≠ z.t := by omega
        simp [h, h1, h2]
      · by_cases h' : p.t < z.t
        · simp [h, h']
        · have : p.t = z.t := by omega
          simp [this]
    rw [e1, e2]
    refine List.Perm.trans ?_ (List.perm_middle).symm
    refine List.Perm.trans (List.perm_append_singleton _ _) ?_
    exact List.Perm.cons _ (List.filter_append_perm _ _).symm

/-- the common end of all successful branches of `insertEntry`: the points off the insertion time plus one stripped point
`z` at that time, sorted, span grown to `z.t` -/
theorem insert_core (t : PTier Int) (hwf : t.WF) (z : Pt Int) (hzs : pyStrip z.l = z.l) (T : PTier Int)
    (hT : T = growSpanP t (sortPts (t.ps.filter (fun p => !(p.t == z.t)) ++ [z]))) :
    T.WF ∧ T.name = t.name ∧
    T.ps.Perm (t.ps.filter (fun p => !(p.t == z.t)) ++ [z]) ∧
    T.ps.Pairwise (fun a b => Pt.le a b = true) ∧
    T.ps = t.ps.filter (fun p => decide (p.t < z.t)) ++ z :: t.ps.filter (fun p => decide (z.t < p.t)) ∧
    (∀ p, p ∈ T.ps ↔ (p ∈ t.ps ∧ p.t ≠ z.t) ∨ p = z) ∧
    (∀ p, T.ps.count p = (if p.t = z.t then 0 else t.ps.count p) + if p = z then 1 else 0) ∧
    T.ps.filter (fun p => p.t == z.t) = [z] ∧
    (T.ps.map (·.t)).Perm ((t.ps.filter (fun p => !(p.t == z.t))).map (·.t) ++ [z.t]) ∧
    T.lo = min t.lo z.t ∧ T.hi = max t.hi z.t := by
  subst hT
  have hfin := finish_pinsert t hwf (t.ps.filter (fun p => !(p.t == z.t))) z (fun p hp => (mem_off.1 hp).1) hzs
  obtain ⟨hw, hn, hp, hs, hlo, hhi⟩ := hfin
  refine ⟨hw, hn, hp, hs, sorted_place t.ps hwf.sorted z _ hs hp, ?_, ?_, ?_, ?_, hlo, hhi⟩
  · intro p
    rw [hp.mem_iff, List.mem_append, mem_off, List.mem_singleton]
  · intro p
    rw [hp.count_eq p, count_append_single, count_off]
  · rw [← List.perm_singleton]
    refine (hp.filter _).trans ?_
    rw [List.filter_append]
    have e1 : (t.ps.filter (fun p => !(p.t == z.t))).filter (fun p => p.t == z.t) = [] := by
      rw [at_nil]; intro p hp; exact (mem_off.1 hp).2
    rw [e1]
    simp
  · simpa using hp.map (·.t)

/-- EVERY successful `insertEntry` (all modes, collision or not) has this form: the points off the insertion time, plus
one stripped point at that time -/
theorem pinsert_ok_form (t : PTier Int) (hwf : t.WF) (x : Pt Int) (m : InsMode) (t' : PTier Int)
    (h : t.insertEntry x m = .ok t') :
    ∃ z : Pt Int, z.t = x.t ∧ pyStrip z.l = z.l ∧
      t' = growSpanP t (sortPts (t.ps.filter (fun p => !(p.t == z.t)) ++ [z])) := by
  have hx : pyStrip (pyStrip x.l) = pyStrip x.l := pyStrip_idem _
  by_cases hml : t.ps.filter (fun p => p.t == x.t) = []
  · rw [(C05.pinsert_unfold t x).1 hml m] at h
    simp only [Except.ok.injEq] at h
    refine ⟨⟨x.t, pyStrip x.l⟩, rfl, hx, ?_⟩
    rw [off_self (at_nil.1 hml)]
    exact h.symm
  · obtain ⟨h1, h2, h3⟩ := (C05.pinsert_unfold t x).2 hml
    cases m with
    | error => rw [h3] at h; cases h
    | replace =>
      rw [h1] at h; simp only [Except.ok.injEq] at h
      exact ⟨⟨x.t, pyStrip x.l⟩, rfl, hx, h.symm⟩
    | merge =>
      rw [h2] at h; simp only [Except.ok.injEq] at h
      refine ⟨⟨x.t, pyJoin "-" ((t.ps.filter (fun p => p.t == x.t)).map (·.l) ++ [pyStrip x.l])⟩, rfl, ?_, h.symm⟩
      apply pyStrip_pyJoin
      intro l hl
      rcases List.mem_append.1 hl with hl' | hl'
      · obtain ⟨p, hp, rfl⟩ := List.mem_map.1 hl'
        exact hwf.stripped p (mem_at.1 hp).1
      · simp only [List.mem_singleton] at hl'; subst hl'; exact hx

/-! ## 1. no collision -/

/-- **no point at that time** (any mode): the stripped point is put at its place in time order, every old point is
kept, the name is kept, the span grows just enough to contain the new time, the tier stays well-formed -/
theorem pinsert_nocollision_spec (t : PTier Int) (hwf : t.WF) (x : Pt Int) (mode : InsMode)
    (hfree : ∀ p ∈ t.ps, p.t ≠ x.t) :
    ∃ t', t.insertEntry x mode = .ok t' ∧ t'.WF ∧ t'.name = t.name ∧
      t'.ps.Perm (t.ps ++ [⟨x.t, pyStrip x.l⟩]) ∧
      t'.ps.Pairwise (fun a b => Pt.le a b = true) ∧
      t'.ps = t.ps.filter (fun p => decide (p.t < x.t)) ++
        ⟨x.t, pyStrip x.l⟩ :: t.ps.filter (fun p => decide (x.t < p.t)) ∧
      (∀ p, t'.ps.count p = t.ps.count p + if p = ⟨x.t, pyStrip x.l⟩ then 1 else 0) ∧
      t'.lo = min t.lo x.t ∧ t'.hi = max t.hi x.t := by
  have hfin := finish_pinsert t hwf t.ps ⟨x.t, pyStrip x.l⟩ (fun _ h => h) (pyStrip_idem _)
  refine ⟨_, (C05.pinsert_unfold t x).1 (at_nil.2 hfree) mode, hfin.1, hfin.2.1, hfin.2.2.1, hfin.2.2.2.1, ?_,
    ?_, hfin.2.2.2.2⟩
  · -- the explicit place: both sides are sorted arrangements of the same points
    apply sorted_perm_unique hfin.2.2.2.1 _ (hfin.2.2.1.trans _)
    · rw [List.pairwise_append]
      refine ⟨hwf.sorted.sublist List.filter_sublist, ?_, ?_⟩
      · rw [List.pairwise_cons]
        refine ⟨?_, hwf.sorted.sublist List.filter_sublist⟩
        intro b hb
        have := (List.mem_filter.1 hb).2
        exact Pt.le_of_lt_time (by simpa using this)
      · intro a ha b hb
        have h1 : a.t < x.t := by simpa using (List.mem_filter.1 ha).2
        rcases List.mem_cons.1 hb with rfl | hb'
        · exact Pt.le_of_lt_time h1
        · have h2 : x.t < b.t := by simpa using (List.mem_filter.1 hb').2
          exact Pt.le_of_lt_time (by omega)
    · have e : t.ps.filter (fun p => decide (x.t < p.t)) = t.ps.filter (fun p => !decide (p.t < x.t)) := by
        apply List.filter_congr
        intro p hp
        have := hfree p hp
        by_cases h : p.t < x.t
        · simp [h]; omega
        · simp [h]; omega
      rw [e]
      refine List.Perm.trans ?_ (List.perm_middle).symm
      refine List.Perm.trans (List.perm_append_singleton _ _) ?_
      exact List.Perm.cons _ (List.filter_append_perm _ _).symm
  · intro p
    rw [hfin.2.2.1.count_eq p, count_append_single]

/-! ## 2. collision, mode `error` -/

/-- **collision, mode `error`**: `CollisionError`, no tier is returned (the model is pure: the receiver is what it was);
and `error` mode refuses in no other case -/
theorem pinsert_error_spec (t : PTier Int) (x : Pt Int) :
    ((∃ p ∈ t.ps, p.t = x.t) → t.insertEntry x .error = .error .CollisionError ∧
      ∀ t', t.insertEntry x .error ≠ .ok t') ∧
    (t.insertEntry x .error = .error .CollisionError ↔ ∃ p ∈ t.ps, p.t = x.t) := by
  have h1 : (∃ p ∈ t.ps, p.t = x.t) → t.insertEntry x .error = .error .CollisionError := by
    rintro ⟨p, hp, hpt⟩; exact pinsert_error t x p hp hpt
  refine ⟨fun h => ⟨h1 h, fun t' h' => by rw [h1 h] at h'; cases h'⟩, ⟨fun h => ?_, h1⟩⟩
  exact (C05.pinsert_err t x .error _ h).2.2

/-! ## 3./4. collision, modes `replace` and `merge` -/

/-- **collision, mode `replace`**: EVERY point at that time is removed and the new, stripped point is added; nothing else
changes: `p ∈ t'.ps ↔ (p ∈ t.ps ∧ p.t ≠ x.t) ∨ p = new`, with multiplicities, and the new point stands exactly where
the removed ones stood; name and span are unchanged (the time lies inside the span); the result is sorted and
well-formed and holds exactly one point at that time -/
theorem pinsert_replace_spec (t : PTier Int) (hwf : t.WF) (x : Pt Int) (hcol : ∃ p ∈ t.ps, p.t = x.t) :
    ∃ t', t.insertEntry x .replace = .ok t' ∧ t'.WF ∧ t'.name = t.name ∧
      (∀ p, p ∈ t'.ps ↔ (p ∈ t.ps ∧ p.t ≠ x.t) ∨ p = ⟨x.t, pyStrip x.l⟩) ∧
      (∀ p, t'.ps.count p = (if p.t = x.t then 0 else t.ps.count p) + if p = ⟨x.t, pyStrip x.l⟩ then 1 else 0) ∧
      t'.ps = t.ps.filter (fun p => decide (p.t < x.t)) ++
        ⟨x.t, pyStrip x.l⟩ :: t.ps.filter (fun p => decide (x.t < p.t)) ∧
      t'.ps.Pairwise (fun a b => Pt.le a b = true) ∧
      t'.ps.filter (fun p => p.t == x.t) = [⟨x.t, pyStrip x.l⟩] ∧
      t'.lo = t.lo ∧ t'.hi = t.hi := by
  obtain ⟨q, hq, hqt⟩ := hcol
  have hml := at_ne_nil.2 ⟨q, hq, hqt⟩
  have hc := insert_core t hwf ⟨x.t, pyStrip x.l⟩ (pyStrip_idem _) _ rfl
  have h1 := hwf.inLo q hq
  have h2 := hwf.inHi q hq
  refine ⟨_, ((C05.pinsert_unfold t x).2 hml).1, hc.1, hc.2.1, hc.2.2.2.2.2.1, hc.2.2.2.2.2.2.1, hc.2.2.2.2.1,
    hc.2.2.2.1, hc.2.2.2.2.2.2.2.1, ?_, ?_⟩
  · rw [hc.2.2.2.2.2.2.2.2.2.1]; simp only; omega
  · rw [hc.2.2.2.2.2.2.2.2.2.2]; simp only; omega

/-- the label of the merged point is stripped (`-` is no white space and all parts are stripped) -/
theorem pmerged_label_stripped (t : PTier Int) (hwf : t.WF) (x : Pt Int) :
    pyStrip (pyJoin "-" ((t.ps.filter (fun p => p.t == x.t)).map (·.l) ++ [pyStrip x.l])) =
      pyJoin "-" ((t.ps.filter (fun p => p.t == x.t)).map (·.l) ++ [pyStrip x.l]) := by
  apply pyStrip_pyJoin
  intro l hl
  rcases List.mem_append.1 hl with hl' | hl'
  · obtain ⟨p, hp, rfl⟩ := List.mem_map.1 hl'
    exact hwf.stripped p (mem_at.1 hp).1
  · simp only [List.mem_singleton] at hl'; subst hl'; exact pyStrip_idem _

/-- **collision, mode `merge`**: EVERY point at that time and the new one are replaced by ONE point at that time whose
label joins, with `-`, the labels of all those points in list order — which is ascending label order — followed by the
new (stripped) label; the merged label is stripped; everything else as for `replace` -/
theorem pinsert_merge_spec (t : PTier Int) (hwf : t.WF) (x : Pt Int) (hcol : ∃ p ∈ t.ps, p.t = x.t) :
    ((t.ps.filter (fun p => p.t == x.t)).map (·.l)).Pairwise (· ≤ ·) ∧
    pyStrip (pyJoin "-" ((t.ps.filter (fun p => p.t == x.t)).map (·.l) ++ [pyStrip x.l])) =
      pyJoin "-" ((t.ps.filter (fun p => p.t == x.t)).map (·.l) ++ [pyStrip x.l]) ∧
    ∃ t', t.insertEntry x .merge = .ok t' ∧ t'.WF ∧ t'.name = t.name ∧
      (∀ p, p ∈ t'.ps ↔ (p ∈ t.ps ∧ p.t ≠ x.t) ∨
        p = ⟨x.t, pyJoin "-" ((t.ps.filter (fun p => p.t == x.t)).map (·.l) ++ [pyStrip x.l])⟩) ∧
      (∀ p, t'.ps.count p = (if p.t = x.t then 0 else t.ps.count p) +
        if p = ⟨x.t, pyJoin "-" ((t.ps.filter (fun p => p.t == x.t)).map (·.l) ++ [pyStrip x.l])⟩ then 1 else 0) ∧
      t'.ps = t.ps.filter (fun p => decide (p.t < x.t)) ++
        ⟨x.t, pyJoin "-" ((t.ps.filter (fun p => p.t == x.t)).map (·.l) ++ [pyStrip x.l])⟩ ::
          t.ps.filter (fun p => decide (x.t < p.t)) ∧
      t'.ps.Pairwise (fun a b => Pt.le a b = true) ∧
      t'.ps.filter (fun p => p.t == x.t) =
        [⟨x.t, pyJoin "-" ((t.ps.filter (fun p => p.t == x.t)).map (·.l) ++ [pyStrip x.l])⟩] ∧
      t'.lo = t.lo ∧ t'.hi = t.hi := by
  obtain ⟨q, hq, hqt⟩ := hcol
  have hml := at_ne_nil.2 ⟨q, hq, hqt⟩
  have hstr := pmerged_label_stripped t hwf x
  have hc := insert_core t hwf ⟨x.t, pyJoin "-" ((t.ps.filter (fun p => p.t == x.t)).map (·.l) ++ [pyStrip x.l])⟩
    hstr _ rfl
  have h1 := hwf.inLo q hq
  have h2 := hwf.inHi q hq
  refine ⟨labels_at_sorted hwf.sorted x.t, hstr, _, ((C05.pinsert_unfold t x).2 hml).2.1, hc.1, hc.2.1,
    hc.2.2.2.2.2.1, hc.2.2.2.2.2.2.1, hc.2.2.2.2.1, hc.2.2.2.1, hc.2.2.2.2.2.2.2.1, ?_, ?_⟩
  · rw [hc.2.2.2.2.2.2.2.2.2.1]; simp only; omega
  · rw [hc.2.2.2.2.2.2.2.2.2.2]; simp only; omega

/-! ## the multiset of times; tiers with at most one point per time -/

/-- an insertion (any mode) that returns a tier: the times off the insertion time are kept (with multiplicity), and
the insertion time occurs exactly once -/
theorem pinsert_times (t : PTier Int) (hwf : t.WF) (x : Pt Int) (m : InsMode) (t' : PTier Int)
    (h : t.insertEntry x m = .ok t') :
    (t'.ps.map (·.t)).Perm ((t.ps.filter (fun p => !(p.t == x.t))).map (·.t) ++ [x.t]) ∧
    ∃ z, t'.ps.filter (fun p => p.t == x.t) = [z] := by
  obtain ⟨z, hz, hzs, ht'⟩ := pinsert_ok_form t hwf x m t' h
  have hc := insert_core t hwf z hzs t' ht'
  rw [hz] at hc
  exact ⟨hc.2.2.2.2.2.2.2.2.1, z, hc.2.2.2.2.2.2.2.1⟩

/-- at most one point per time is an invariant of `insertEntry` (every mode) -/
theorem pinsert_timesNodup (t : PTier Int) (hwf : t.WF) (hnd : TimesNodup t.ps) (x : Pt Int) (m : InsMode)
    (t' : PTier Int) (h : t.insertEntry x m = .ok t') : TimesNodup t'.ps := by
  have ht := (pinsert_times t hwf x m t' h).1
  unfold TimesNodup
  rw [ht.nodup_iff, (List.perm_append_singleton _ _).nodup_iff, List.nodup_cons]
  refine ⟨?_, hnd.sublist List.filter_sublist⟩
  intro hm
  obtain ⟨p, hp, hpt⟩ := List.mem_map.1 hm
  exact (mem_off.1 hp).2 hpt

/-- with at most one point per time (an invariant, `pirun_timesNodup`) the colliding point is unique and the merged
label is `old.label-new.label` -/
theorem pinsert_collision_exact (t : PTier Int) (hwf : t.WF) (hnd : TimesNodup t.ps) (x old : Pt Int)
    (hold : old ∈ t.ps) (hot : old.t = x.t) :
    (∃ t', t.insertEntry x .replace = .ok t' ∧ t'.WF ∧ TimesNodup t'.ps ∧ t'.lo = t.lo ∧ t'.hi = t.hi ∧
      ∀ p, p ∈ t'.ps ↔ (p ∈ t.ps ∧ p.t ≠ x.t) ∨ p = ⟨x.t, pyStrip x.l⟩) ∧
    (∃ t', t.insertEntry x .merge = .ok t' ∧ t'.WF ∧ TimesNodup t'.ps ∧ t'.lo = t.lo ∧ t'.hi = t.hi ∧
      ∀ p, p ∈ t'.ps ↔ (p ∈ t.ps ∧ p.t ≠ x.t) ∨ p = ⟨x.t, pyJoin "-" [old.l, pyStrip x.l]⟩) := by
  have hcol : ∃ p ∈ t.ps, p.t = x.t := ⟨old, hold, hot⟩
  constructor
  · obtain ⟨t', e, hw, _, hm, _, _, _, _, hlo, hhi⟩ := pinsert_replace_spec t hwf x hcol
    exact ⟨t', e, hw, pinsert_timesNodup t hwf hnd x .replace t' e, hlo, hhi, hm⟩
  · obtain ⟨_, _, t', e, hw, _, hm, _, _, _, _, hlo, hhi⟩ := pinsert_merge_spec t hwf x hcol
    have hat : t.ps.filter (fun p => p.t == x.t) = [old] := by rw [← hot]; exact hnd.filter_at hold
    rw [hat] at hm
    exact ⟨t', e, hw, pinsert_timesNodup t hwf hnd x .merge t' e, hlo, hhi, hm⟩

/-! ## 5. deleteEntry -/

theorem deletePtTol_not_mem (ps : List (Pt Int)) (x : Pt Int) (h : ∀ p ∈ ps, ptEq p x = false) :
    deletePtTol ps x = .error .ValueError := by
  induction ps with
  | nil => rfl
  | cons e rest ih =>
    simp only [deletePtTol, h e (by simp), Bool.false_eq_true, if_false,
      ih (fun e' he' => h e' (List.mem_cons_of_mem _ he'))]
    rfl

theorem eraseSamePt_none (ps : List (Pt Int)) (x : Pt Int) (hx : x ∉ ps) : eraseSamePt ps x = none := by
  induction ps with
  | nil => rfl
  | cons e rest ih =>
    have he : e ≠ x := fun h => hx (by simp [h])
    have hs : ptSame e x = false := by
      cases h : ptSame e x
      · rfl
      · exact absurd ((ptSame_iff e x).1 h) he
    simp only [eraseSamePt, hs, Bool.false_eq_true, if_false, ih (fun h => hx (List.mem_cons_of_mem _ h)), Option.map]

theorem deletePt_not_mem (ps : List (Pt Int)) (x : Pt Int) (h : ∀ p ∈ ps, ptEq p x = false) :
    deletePt ps x = .error .ValueError := by
  have hx : x ∉ ps := fun hm => by
    have := h x hm
    rw [C05.ptEq_self] at this
    exact absurd this (by simp)
  simp only [deletePt, eraseSamePt_none ps x hx, deletePtTol_not_mem ps x h]

theorem deletePtTol_first (pre post : List (Pt Int)) (p x : Pt Int) (hpre : ∀ q ∈ pre, ptEq q x = false)
    (hp : ptEq p x = true) : deletePtTol (pre ++ p :: post) x = .ok (pre ++ post) := by
  induction pre with
  | nil => simp [deletePtTol, hp]
  | cons q qs ih =>
    simp only [List.cons_append, deletePtTol, hpre q (by simp), Bool.false_eq_true, if_false,
      ih (fun q' hq' => hpre q' (List.mem_cons_of_mem _ hq'))]
    rfl

/-- **the third case of `deleteEntry`** (the one `DelOk` leaves out of `pirun_labelAt`): the argument is not a member
but some member is equal to it under the tolerant `Point.__eq__` — the FIRST such member is removed, nothing is raised
(replayed: `PointTier('P',[(5.0,'a'),(7,'b')],0,10).deleteEntry(Point(5.0000000001,'a'))` leaves `[(7,'b')]`) -/
theorem pdelete_tolerant (t : PTier Int) (x : Pt Int) (hx : x ∉ t.ps) (pre post : List (Pt Int)) (p : Pt Int)
    (hps : t.ps = pre ++ p :: post) (hpre : ∀ q ∈ pre, ptEq q x = false) (hp : ptEq p x = true) :
    t.deleteEntry x = .ok { t with ps := pre ++ post } := by
  simp only [PTier.deleteEntry, deletePt, eraseSamePt_none t.ps x hx]
  rw [hps, deletePtTol_first pre post p x hpre hp]
  rfl

/-- **deleteEntry**: a member is removed — exactly one occurrence of exactly that point, whatever else in the tier is
close to it — and name and span stay; an argument that no point equals even under the tolerant `Point.__eq__` raises
ValueError (and nothing else ever makes it raise); the tier stays well-formed -/
theorem pdelete_spec (t : PTier Int) (x : Pt Int) :
    (x ∈ t.ps → t.deleteEntry x = .ok ⟨t.name, t.ps.erase x, t.lo, t.hi⟩ ∧
      (t.ps.erase x).count x = t.ps.count x - 1 ∧ ∀ p, p ≠ x → (t.ps.erase x).count p = t.ps.count p) ∧
    ((∀ p ∈ t.ps, ptEq p x = false) → t.deleteEntry x = .error .ValueError) ∧
    (∀ e, t.deleteEntry x = .error e → e = .ValueError ∧ ∀ p ∈ t.ps, ptEq p x = false) ∧
    (t.WF → (⟨t.name, t.ps.erase x, t.lo, t.hi⟩ : PTier Int).WF) := by
  refine ⟨fun hx => ⟨?_, ?_, ?_⟩, ?_, C05.pdelete_err t x, fun hwf => C05.wf_of_sublist t hwf _ List.erase_sublist⟩
  · simp [PTier.deleteEntry, deletePt_of_mem t.ps x hx, bind, Except.bind, pure, Except.pure]
  · rw [List.count_erase_self]
  · intro p hp; exact List.count_erase_of_ne hp
  · intro h
    simp [PTier.deleteEntry, deletePt_not_mem t.ps x h, bind, Except.bind]

/-! ## 6. histories of inserts and deletes -/

inductive PIOp
  | insert (x : Pt Int) (mode : InsMode)
  | delete (x : Pt Int)

def pistep (t : PTier Int) : PIOp → Except Err (PTier Int)
  | .insert x m => t.insertEntry x m
  | .delete x => t.deleteEntry x

/-- a failing operation leaves the tier as it was -/
def pirun (t : PTier Int) : List PIOp → PTier Int
  | [] => t
  | op :: ops => match pistep t op with
    | .ok t' => pirun t' ops
    | .error _ => pirun t ops

theorem pistep_inv (t : PTier Int) (hwf : t.WF) (hnd : TimesNodup t.ps) (op : PIOp) (t' : PTier Int)
    (h : pistep t op = .ok t') : t'.WF ∧ TimesNodup t'.ps := by
  cases op with
  | insert x m => exact ⟨C05.pinsert_wf t hwf x m t' h, pinsert_timesNodup t hwf hnd x m t' h⟩
  | delete x =>
    refine ⟨C05.pdelete_wf t hwf x t' h, ?_⟩
    simp only [pistep, PTier.deleteEntry] at h
    cases hd : deletePt t.ps x with
    | error e => simp [hd, bind, Except.bind] at h
    | ok ps =>
      simp only [hd, bind, Except.bind, pure, Except.pure, Except.ok.injEq] at h
      subst h
      exact hnd.sublist (C05.deletePt_sublist _ _ _ hd)

/-- **histories**: starting from a well-formed tier with at most one point per time, after ANY sequence of inserts
(any modes, any labels) and deletes (of present or absent points) the tier is well-formed and still holds at most one
point per time — so along such a history `pinsert_collision_exact` applies to every colliding insert -/
theorem pirun_timesNodup (t : PTier Int) (hwf : t.WF) (hnd : TimesNodup t.ps) (ops : List PIOp) :
    (pirun t ops).WF ∧ TimesNodup (pirun t ops).ps := by
  induction ops generalizing t with
  | nil => exact ⟨hwf, hnd⟩
  | cons op ops ih =>
    simp only [pirun]
    cases hs : pistep t op with
    | ok t' =>
      obtain ⟨h1, h2⟩ := pistep_inv t hwf hnd op t' hs
      exact ih t' h1 h2
    | error e => exact ih t hwf hnd

/-! ### the abstract semantics: a tier with at most one point per time is a finite map  time ↦ label -/

/-- the label at time `a` (of the first point there) -/
def labelAtP (ps : List (Pt Int)) (a : Int) : Option String := (firstAt ps a).map (·.l)

theorem labelAtP_some {ps : List (Pt Int)} (hnd : TimesNodup ps) (a : Int) (l : String) :
    labelAtP ps a = some l ↔ (⟨a, l⟩ : Pt Int) ∈ ps := by
  unfold labelAtP
  constructor
  · intro h
    cases hf : firstAt ps a with
    | none => rw [hf] at h; cases h
    | some o =>
      rw [hf] at h
      obtain ⟨ho, hoa⟩ := firstAt_some hf
      simp only [Option.map_some, Option.some.injEq] at h
      obtain ⟨ot, ol⟩ := o
      simp only at h hoa
      subst h; subst hoa
      exact ho
  · intro h
    obtain ⟨o, hf⟩ := firstAt_of_collision (ps := ps) (a := a) ⟨_, h, rfl⟩
    obtain ⟨ho, hoa⟩ := firstAt_some hf
    have : o = ⟨a, l⟩ := hnd.eq_of_time ho h hoa
    rw [hf, this]; rfl

theorem labelAtP_none {ps : List (Pt Int)} (a : Int) : labelAtP ps a = none ↔ ∀ p ∈ ps, p.t ≠ a := by
  unfold labelAtP
  rw [Option.map_eq_none_iff, firstAt_none]

/-- what `insertEntry(x, mode)` does to the map: last writer wins (`replace`), labels are joined in order of arrival
(`merge`), nothing changes (`error` on an occupied time) -/
def absIns (f : Int → Option String) (x : Pt Int) (m : InsMode) : Int → Option String := fun a =>
  if a = x.t then
    match f a, m with
    | none, _ => some (pyStrip x.l)
    | some _, .replace => some (pyStrip x.l)
    | some l, .merge => some (pyJoin "-" [l, pyStrip x.l])
    | some l, .error => some l
  else f a

/-- what `deleteEntry(x)` does to the map: the time is freed if it carries exactly that label -/
def absDel (f : Int → Option String) (x : Pt Int) : Int → Option String := fun a =>
  if a = x.t ∧ f a = some x.l then none else f a

def absStep (f : Int → Option String) : PIOp → Int → Option String
  | .insert x m => absIns f x m
  | .delete x => absDel f x

theorem pinsert_labelAt (t : PTier Int) (hwf : t.WF) (hnd : TimesNodup t.ps) (x : Pt Int) (m : InsMode)
    (t' : PTier Int) (h : t.insertEntry x m = .ok t') (a : Int) :
    labelAtP t'.ps a = absIns (labelAtP t.ps) x m a := by
  have hnd' := pinsert_timesNodup t hwf hnd x m t' h
  apply Option.ext
  intro l
  rw [labelAtP_some hnd']
  unfold absIns
  by_cases hcol : ∃ p ∈ t.ps, p.t = x.t
  · obtain ⟨old, hold, hot⟩ := hcol
    have hf : labelAtP t.ps x.t = some old.l := by
      rw [labelAtP_some hnd, ← hot]; exact hold
    obtain ⟨⟨t1, e1, _, _, _, _, hm1⟩, ⟨t2, e2, _, _, _, _, hm2⟩⟩ :=
      pinsert_collision_exact t hwf hnd x old hold hot
    cases m with
    | error => rw [((pinsert_error_spec t x).1 ⟨old, hold, hot⟩).1] at h; cases h
    | replace =>
      rw [h] at e1; cases e1
      rw [hm1]
      by_cases ha : a = x.t
      · subst ha; simp [hf, Pt.mk.injEq]; exact eq_comm
      · simp only [ha, if_false, labelAtP_some hnd, Pt.mk.injEq, false_and, or_false, ne_eq, not_false_eq_true,
          and_true]
    | merge =>
      rw [h] at e2; cases e2
      rw [hm2]
      by_cases ha : a = x.t
      · subst ha; simp [hf, Pt.mk.injEq]; exact eq_comm
      · simp only [ha, if_false, labelAtP_some hnd, Pt.mk.injEq, false_and, or_false, ne_eq, not_false_eq_true,
          and_true]
  · have hfree : ∀ p ∈ t.ps, p.t ≠ x.t := fun p hp e => hcol ⟨p, hp, e⟩
    have hf : labelAtP t.ps x.t = none := (labelAtP_none x.t).2 hfree
    obtain ⟨t1, e1, _, _, hp, _⟩ := pinsert_nocollision_spec t hwf x m hfree
    rw [h] at e1; cases e1
    rw [hp.mem_iff, List.mem_append, List.mem_singleton]
    by_cases ha : a = x.t
    · subst ha
      have : (⟨x.t, l⟩ : Pt Int) ∉ t.ps := fun hm => hfree _ hm rfl
      simp [hf, this, Pt.mk.injEq]; exact eq_comm
    · simp only [ha, if_false, labelAtP_some hnd, Pt.mk.injEq, false_and, or_false]

theorem pdelete_labelAt (t : PTier Int) (hnd : TimesNodup t.ps) (x : Pt Int) (a : Int) :
    (x ∈ t.ps → labelAtP (t.ps.erase x) a = absDel (labelAtP t.ps) x a) ∧
    (x ∉ t.ps → absDel (labelAtP t.ps) x a = labelAtP t.ps a) := by
  have hx : labelAtP t.ps x.t = some x.l ↔ x ∈ t.ps := labelAtP_some hnd x.t x.l
  constructor
  · intro hm
    have hndp : t.ps.Nodup := List.Pairwise.of_map (·.t) (fun a b hab e => hab (congrArg _ e)) hnd
    apply Option.ext
    intro l
    rw [labelAtP_some (hnd.sublist List.erase_sublist), hndp.mem_erase_iff]
    unfold absDel
    by_cases ha : a = x.t
    · subst ha
      simp only [hx.2 hm, and_self, if_true, reduceCtorEq, iff_false, not_and]
      intro hne hin
      exact hne (hnd.eq_of_time hin hm rfl)
    · simp only [ha, false_and, if_false, labelAtP_some hnd]
      constructor
      · exact fun h => h.2
      · exact fun h => ⟨fun e => ha (by rw [← e]), h⟩
  · intro hm
    unfold absDel
    by_cases ha : a = x.t
    · subst ha
      have : ¬ labelAtP t.ps x.t = some x.l := fun h => hm (hx.1 h)
      simp [this]
    · simp [ha]

/-- a `deleteEntry` whose outcome does not depend on the tolerance of `Point.__eq__`: the point is in the tier, or
no point of the tier is `==` to it (then the call raises) -/
def DelOk (t : PTier Int) : PIOp → Prop
  | .insert _ _ => True
  | .delete x => x ∈ t.ps ∨ ∀ p ∈ t.ps, ptEq p x = false

def PAdm : PTier Int → List PIOp → Prop
  | _, [] => True
  | t, op :: ops => DelOk t op ∧ PAdm (pirun t [op]) ops

theorem pirun_cons (t : PTier Int) (op : PIOp) (ops : List PIOp) : pirun t (op :: ops) = pirun (pirun t [op]) ops := by
  simp only [pirun]
  cases pistep t op <;> rfl

theorem pistep_labelAt (t : PTier Int) (hwf : t.WF) (hnd : TimesNodup t.ps) (op : PIOp) (hop : DelOk t op) (a : Int) :
    labelAtP (pirun t [op]).ps a = absStep (labelAtP t.ps) op a := by
  cases op with
  | insert x m =>
    simp only [pirun, pistep, absStep]
    cases h : t.insertEntry x m with
    | ok t' => exact pinsert_labelAt t hwf hnd x m t' h a
    | error e =>
      obtain ⟨_, hm, p, hp, hpt⟩ := C05.pinsert_err t x m e h
      subst hm
      have hf : labelAtP t.ps x.t = some p.l := by rw [labelAtP_some hnd, ← hpt]; exact hp
      simp only [absIns]
      by_cases ha : a = x.t
      · subst ha; simp [hf]
      · simp [ha]
  | delete x =>
    simp only [pirun, pistep, absStep]
    rcases hop with hm | hno
    · rw [((pdelete_spec t x).1 hm).1]
      exact (pdelete_labelAt t hnd x a).1 hm
    · rw [(pdelete_spec t x).2.1 hno]
      have hx : x ∉ t.ps := fun hm => by
        have := hno x hm
        rw [C05.ptEq_self] at this
        exact absurd this (by simp)
      exact ((pdelete_labelAt t hnd x a).2 hx).symm

/-- **histories, functionally**: on a tier with at most one point per time, ANY sequence of inserts (any modes) and
tolerance-independent deletes acts on the map  time ↦ label  as the abstract semantics says: a free time gets the
stripped label; on an occupied time `replace` overwrites, `merge` appends `-label`, `error` changes nothing; `delete`
frees the time if it carries that label.  (With `pirun_timesNodup` this determines the set of points of the result.) -/
theorem pirun_labelAt (t : PTier Int) (hwf : t.WF) (hnd : TimesNodup t.ps) (ops : List PIOp) (hadm : PAdm t ops) :
    labelAtP (pirun t ops).ps = ops.foldl absStep (labelAtP t.ps) := by
  induction ops generalizing t with
  | nil => rfl
  | cons op ops ih =>
    obtain ⟨hop, hrest⟩ := hadm
    obtain ⟨h1, h2⟩ := pirun_timesNodup t hwf hnd [op]
    rw [pirun_cons, ih (pirun t [op]) h1 h2 hrest, List.foldl_cons]
    congr 1
    funext a
    exact pistep_labelAt t hwf hnd op hop a

/-! ## 7. union (C10) — a fold of merge-inserts -/

/-- `insertEntry(·, 'merge')` on the list of points: the points off the time of `x`, plus one point carrying the labels
of all points at that time (none, one or several) and then the label of `x` -/
def mergeIns (ps : List (Pt Int)) (x : Pt Int) : List (Pt Int) :=
  sortPts (ps.filter (fun p => !(p.t == x.t)) ++
    [⟨x.t, pyJoin "-" ((ps.filter (fun p => p.t == x.t)).map (·.l) ++ [pyStrip x.l])⟩])

theorem pinsert_merge_eq (t : PTier Int) (x : Pt Int) :
    t.insertEntry x .merge = .ok (growSpanP t (mergeIns t.ps x)) := by
  unfold mergeIns
  by_cases hml : t.ps.filter (fun p => p.t == x.t) = []
  · rw [(C05.pinsert_unfold t x).1 hml .merge, hml, off_self (at_nil.1 hml)]
    rfl
  · exact ((C05.pinsert_unfold t x).2 hml).2.1

def mergeT (t : PTier Int) (x : Pt Int) : PTier Int := growSpanP t (mergeIns t.ps x)

theorem foldlM_merge_eq (l : List (Pt Int)) (t : PTier Int) :
    l.foldlM (fun acc e => acc.insertEntry e .merge) t = .ok (l.foldl mergeT t) := by
  induction l generalizing t with
  | nil => rfl
  | cons x l ih =>
    rw [List.foldlM_cons, List.foldl_cons, pinsert_merge_eq]
    exact ih _

theorem fold_mergeT_ps (l : List (Pt Int)) (t : PTier Int) :
    (l.foldl mergeT t).ps = l.foldl mergeIns t.ps ∧ (l.foldl mergeT t).name = t.name := by
  induction l generalizing t with
  | nil => exact ⟨rfl, rfl⟩
  | cons x l ih =>
    simp only [List.foldl_cons]
    exact ih (mergeT t x)

theorem mergeT_wf (t : PTier Int) (hwf : t.WF) (x : Pt Int) :
    (mergeT t x).WF ∧ (mergeT t x).lo = min t.lo x.t ∧ (mergeT t x).hi = max t.hi x.t := by
  have hc := insert_core t hwf ⟨x.t, pyJoin "-" ((t.ps.filter (fun p => p.t == x.t)).map (·.l) ++ [pyStrip x.l])⟩
    (pmerged_label_stripped t hwf x) (mergeT t x) rfl
  exact ⟨hc.1, hc.2.2.2.2.2.2.2.2.2⟩

theorem fold_mergeT_wf (l : List (Pt Int)) (t : PTier Int) (hwf : t.WF) :
    (l.foldl mergeT t).WF ∧ (l.foldl mergeT t).lo = hullMin (l.map (·.t)) t.lo ∧
      (l.foldl mergeT t).hi = hullMax (l.map (·.t)) t.hi := by
  induction l generalizing t with
  | nil => exact ⟨hwf, rfl, rfl⟩
  | cons x l ih =>
    obtain ⟨h1, h2, h3⟩ := mergeT_wf t hwf x
    obtain ⟨i1, i2, i3⟩ := ih (mergeT t x) h1
    simp only [List.foldl_cons, List.map_cons, hullMin, hullMax] at *
    exact ⟨i1, by rw [i2, h2], by rw [i3, h3]⟩

theorem mergeIns_sorted (ps : List (Pt Int)) (x : Pt Int) :
    (mergeIns ps x).Pairwise (fun a b => Pt.le a b = true) := C14.sortPts_pairwise _

theorem mergeIns_perm (ps : List (Pt Int)) (x : Pt Int) :
    (mergeIns ps x).Perm (ps.filter (fun p => !(p.t == x.t)) ++
      [⟨x.t, pyJoin "-" ((ps.filter (fun p => p.t == x.t)).map (·.l) ++ [pyStrip x.l])⟩]) := C14.sortPts_perm _

theorem mergeIns_count (ps : List (Pt Int)) (x p : Pt Int) :
    (mergeIns ps x).count p = (if p.t = x.t then 0 else ps.count p) +
      if p = ⟨x.t, pyJoin "-" ((ps.filter (fun p => p.t == x.t)).map (·.l) ++ [pyStrip x.l])⟩ then 1 else 0 := by
  rw [(mergeIns_perm ps x).count_eq p, count_append_single, count_off]

theorem mergeIns_count_ne (ps : List (Pt Int)) (x p : Pt Int) (hp : p.t ≠ x.t) :
    (mergeIns ps x).count p = ps.count p := by
  rw [mergeIns_count, if_neg hp]
  have : p ≠ ⟨x.t, pyJoin "-" ((ps.filter (fun p => p.t == x.t)).map (·.l) ++ [pyStrip x.l])⟩ := by
    intro e; rw [e] at hp; exact hp rfl
  simp [this]

/-- the points at the time of the argument after a merge-insert: the one merged point -/
theorem mergeIns_at_same (ps : List (Pt Int)) (x : Pt Int) :
    (mergeIns ps x).filter (fun p => p.t == x.t) =
      [⟨x.t, pyJoin "-" ((ps.filter (fun p => p.t == x.t)).map (·.l) ++ [pyStrip x.l])⟩] := by
  rw [← List.perm_singleton]
  refine ((mergeIns_perm ps x).filter _).trans ?_
  rw [List.filter_append]
  have e1 : (ps.filter (fun p => !(p.t == x.t))).filter (fun p => p.t == x.t) = [] := by
    rw [at_nil]; intro p hp; exact (mem_off.1 hp).2
  rw [e1]
  simp

/-- the points at any other time: untouched, in the same order -/
theorem mergeIns_at_other (ps : List (Pt Int)) (hs : ps.Pairwise (fun a b => Pt.le a b = true)) (x : Pt Int) (a : Int)
    (ha : a ≠ x.t) : (mergeIns ps x).filter (fun p => p.t == a) = ps.filter (fun p => p.t == a) :=
  filter_at_congr (mergeIns_sorted ps x) hs a (fun p hp => mergeIns_count_ne ps x p (by omega))

theorem mergeIns_times (ps : List (Pt Int)) (x : Pt Int) (a : Int) :
    (∃ p ∈ mergeIns ps x, p.t = a) ↔ (∃ p ∈ ps, p.t = a) ∨ a = x.t := by
  have hmem : ∀ p, p ∈ mergeIns ps x ↔ (p ∈ ps ∧ p.t ≠ x.t) ∨
      p = ⟨x.t, pyJoin "-" ((ps.filter (fun p => p.t == x.t)).map (·.l) ++ [pyStrip x.l])⟩ := by
    intro p
    rw [(mergeIns_perm ps x).mem_iff, List.mem_append, mem_off, List.mem_singleton]
  constructor
  · rintro ⟨p, hp, hpa⟩
    rcases (hmem p).1 hp with ⟨h1, _⟩ | h
    · exact Or.inl ⟨p, h1, hpa⟩
    · right; rw [← hpa, h]
  · intro h
    by_cases e : a = x.t
    · exact ⟨_, (hmem _).2 (Or.inr rfl), e.symm⟩
    · rcases h with ⟨p, hp, hpa⟩ | h
      · exact ⟨p, (hmem p).2 (Or.inl ⟨hp, by omega⟩), hpa⟩
      · exact absurd h e

theorem mergeIns_timesNodup (ps : List (Pt Int)) (hnd : TimesNodup ps) (x : Pt Int) : TimesNodup (mergeIns ps x) := by
  refine TimesNodup.perm ?_ (mergeIns_perm ps x)
  unfold TimesNodup
  rw [List.map_append, List.map_singleton, (List.perm_append_singleton _ _).nodup_iff, List.nodup_cons]
  refine ⟨?_, hnd.sublist List.filter_sublist⟩
  intro hm
  obtain ⟨p, hp, hpt⟩ := List.mem_map.1 hm
  exact (mem_off.1 hp).2 hpt

theorem fold_sorted (l ps : List (Pt Int)) (hs : ps.Pairwise (fun a b => Pt.le a b = true)) :
    (l.foldl mergeIns ps).Pairwise (fun a b => Pt.le a b = true) := by
  induction l generalizing ps with
  | nil => exact hs
  | cons x l ih => exact ih _ (mergeIns_sorted ps x)

theorem fold_times (l ps : List (Pt Int)) (a : Int) :
    (∃ p ∈ l.foldl mergeIns ps, p.t = a) ↔ (∃ p ∈ ps, p.t = a) ∨ (∃ q ∈ l, q.t = a) := by
  induction l generalizing ps with
  | nil => simp
  | cons x l ih =>
    simp only [List.foldl_cons]
    rw [ih (mergeIns ps x), mergeIns_times]
    constructor
    · rintro ((h | h) | ⟨q, hq, hqa⟩)
      · exact Or.inl h
      · exact Or.inr ⟨x, by simp, h.symm⟩
      · exact Or.inr ⟨q, List.mem_cons_of_mem _ hq, hqa⟩
    · rintro (h | ⟨q, hq, hqa⟩)
      · exact Or.inl (Or.inl h)
      · rcases List.mem_cons.1 hq with rfl | hq'
        · exact Or.inl (Or.inr hqa.symm)
        · exact Or.inr ⟨q, hq', hqa⟩

theorem fold_count_ne (l ps : List (Pt Int)) (p : Pt Int) (h : ∀ q ∈ l, q.t ≠ p.t) :
    (l.foldl mergeIns ps).count p = ps.count p := by
  induction l generalizing ps with
  | nil => rfl
  | cons x l ih =>
    simp only [List.foldl_cons]
    rw [ih (mergeIns ps x) (fun q hq => h q (List.mem_cons_of_mem _ hq)),
      mergeIns_count_ne ps x p (fun e => h x (by simp) e.symm)]

theorem fold_timesNodup (l ps : List (Pt Int)) (hnd : TimesNodup ps) : TimesNodup (l.foldl mergeIns ps) := by
  induction l generalizing ps with
  | nil => exact hnd
  | cons x l ih => exact ih _ (mergeIns_timesNodup ps hnd x)

/-- `"-".join(["-".join(L)] + B) = "-".join(L + B)` for non-empty `L`: merging step by step gives the flat join -/
theorem pyJoin_cons_join (sep : String) (L : List String) (hL : L ≠ []) (B : List String) :
    pyJoin sep (pyJoin sep L :: B) = pyJoin sep (L ++ B) := by
  induction L with
  | nil => exact absurd rfl hL
  | cons y L ih =>
    cases L with
    | nil => rfl
    | cons y' L' =>
      have ih' := ih (by simp)
      cases B with
      | nil => simp [pyJoin]
      | cons b B' =>
        have e1 : pyJoin sep (y :: y' :: L') = y ++ sep ++ pyJoin sep (y' :: L') := rfl
        have e2 : pyJoin sep ((y :: y' :: L') ++ b :: B') = y ++ sep ++ pyJoin sep ((y' :: L') ++ b :: B') := rfl
        have e3 : ∀ (s : String), pyJoin sep (s :: b :: B') = s ++ sep ++ pyJoin sep (b :: B') := fun _ => rfl
        rw [e2, ← ih', e1, e3, e3]
        simp only [String.append_assoc]

/-- folding merge-inserts: a time that the inserted list does not have keeps its points, in order -/
theorem fold_at_none (l ps : List (Pt Int)) (hs : ps.Pairwise (fun a b => Pt.le a b = true)) (a : Int)
    (h : ∀ q ∈ l, q.t ≠ a) : (l.foldl mergeIns ps).filter (fun p => p.t == a) = ps.filter (fun p => p.t == a) := by
  induction l generalizing ps with
  | nil => rfl
  | cons x l ih =>
    simp only [List.foldl_cons]
    rw [ih _ (mergeIns_sorted ps x) (fun q hq => h q (List.mem_cons_of_mem _ hq)),
      mergeIns_at_other ps hs x a (fun e => h x (by simp) e.symm)]

/-- … and a time that it has ends up with exactly ONE point, whose label joins the labels of the points already there
(in list order) and then the labels of the inserted points at that time (in the order of insertion) -/
theorem fold_at_some (l ps : List (Pt Int)) (hs : ps.Pairwise (fun a b => Pt.le a b = true)) (a : Int)
    (h : l.filter (fun p => p.t == a) ≠ []) :
    (l.foldl mergeIns ps).filter (fun p => p.t == a) =
      [⟨a, pyJoin "-" ((ps.filter (fun p => p.t == a)).map (·.l) ++
        (l.filter (fun p => p.t == a)).map (fun p => pyStrip p.l))⟩] := by
  induction l generalizing ps with
  | nil => exact absurd rfl h
  | cons x l ih =>
    simp only [List.foldl_cons]
    by_cases hx : x.t = a
    · subst hx
      have hfx : (x :: l).filter (fun p => p.t == x.t) = x :: l.filter (fun p => p.t == x.t) := by
        simp
      rw [hfx]
      by_cases hl : l.filter (fun p => p.t == x.t) = []
      · rw [fold_at_none l _ (mergeIns_sorted ps x) x.t (at_nil.1 hl), mergeIns_at_same, hl]
        rfl
      · rw [ih _ (mergeIns_sorted ps x) hl, mergeIns_at_same]
        simp only [List.map_cons, List.map_nil, List.singleton_append]
        rw [pyJoin_cons_join "-" _ (by simp), List.append_assoc, List.singleton_append]
    · have hfx : (x :: l).filter (fun p => p.t == a) = l.filter (fun p => p.t == a) := by
        simp [hx]
      rw [hfx] at h ⊢
      rw [ih _ (mergeIns_sorted ps x) h, mergeIns_at_other ps hs x a (fun e => hx e.symm)]


/-- `union` computes the fold -/
theorem punion_eq_fold (t u : PTier Int) (ht : t.WF) :
    t.union u = .ok (u.ps.foldl mergeT t) ∧ (u.ps.foldl mergeT t).ps = u.ps.foldl mergeIns t.ps := by
  have hps := (fold_mergeT_ps u.ps t).1
  refine ⟨?_, hps⟩
  unfold PTier.union
  rw [C05.pnew_of_wf t ht]
  simp only [bind, Except.bind, foldlM_merge_eq, pure, Except.pure]
  have hsrt : sortPts (u.ps.foldl mergeT t).ps = (u.ps.foldl mergeT t).ps :=
    List.mergeSort_of_pairwise (fold_mergeT_wf u.ps t ht).1.sorted
  rw [hsrt]

/-- **union of point tiers** (`t.union(u)`, both well-formed; no hypothesis on coinciding times).  It never fails; the
result is well-formed and keeps `t`'s name; its times are exactly the times of `t` and of `u`; at a time that `u` does
not have, `t`'s points are kept as they are (all of them, in order); at a time that `u` has, ALL points of both tiers
at that time are fused into exactly ONE point whose label joins, with `-`, the labels of `t`'s points there (list order
= ascending label) followed by the labels of `u`'s points there (list order); at most one point per time in `t` gives the
same for the result, whatever `u` is; the span is `t`'s span grown to the TIMES OF `u`'S POINTS (`u`'s own
minTimestamp/maxTimestamp play no role) -/
theorem punion_spec (t u : PTier Int) (ht : t.WF) (hu : u.WF) :
    ∃ r, t.union u = .ok r ∧ r.WF ∧ r.name = t.name ∧
      (∀ a, (∃ p ∈ r.ps, p.t = a) ↔ (∃ p ∈ t.ps, p.t = a) ∨ (∃ p ∈ u.ps, p.t = a)) ∧
      (∀ a, (∀ q ∈ u.ps, q.t ≠ a) → r.ps.filter (fun p => p.t == a) = t.ps.filter (fun p => p.t == a)) ∧
      (∀ a, (∃ q ∈ u.ps, q.t = a) → r.ps.filter (fun p => p.t == a) =
        [⟨a, pyJoin "-" ((t.ps.filter (fun p => p.t == a)).map (·.l) ++
          (u.ps.filter (fun p => p.t == a)).map (·.l))⟩]) ∧
      (∀ p : Pt Int, (∀ q ∈ u.ps, q.t ≠ p.t) → r.ps.count p = t.ps.count p) ∧
      (TimesNodup t.ps → TimesNodup r.ps) ∧
      r.lo = hullMin (u.ps.map (·.t)) t.lo ∧ r.hi = hullMax (u.ps.map (·.t)) t.hi := by
  obtain ⟨he, hps⟩ := punion_eq_fold t u ht
  obtain ⟨hw, hlo, hhi⟩ := fold_mergeT_wf u.ps t ht
  refine ⟨_, he, hw, (fold_mergeT_ps u.ps t).2, ?_, ?_, ?_, ?_, ?_, hlo, hhi⟩
  · intro a; rw [hps]; exact fold_times u.ps t.ps a
  · intro a h; rw [hps]; exact fold_at_none u.ps t.ps ht.sorted a h
  · intro a h
    rw [hps, fold_at_some u.ps t.ps ht.sorted a (at_ne_nil.2 h)]
    have : (u.ps.filter (fun p => p.t == a)).map (fun p => pyStrip p.l) =
        (u.ps.filter (fun p => p.t == a)).map (·.l) :=
      List.map_congr_left (fun p hp => hu.stripped p (mem_at.1 hp).1)
    rw [this]
  · intro p h; rw [hps]; exact fold_count_ne u.ps t.ps p h
  · intro hnd; rw [hps]; exact fold_timesNodup u.ps t.ps hnd

/-- with at most one point per time in both operands the union is, point for point: `t`'s points at times `u` does not
have, `u`'s points at times `t` does not have, and one point `time, lt-lu` for every common time -/
theorem punion_exact (t u : PTier Int) (ht : t.WF) (hu : u.WF) (hndt : TimesNodup t.ps) (hndu : TimesNodup u.ps) :
    ∃ r, t.union u = .ok r ∧ r.WF ∧ TimesNodup r.ps ∧
      ∀ p, p ∈ r.ps ↔ (p ∈ t.ps ∧ ∀ q ∈ u.ps, q.t ≠ p.t) ∨ (p ∈ u.ps ∧ ∀ q ∈ t.ps, q.t ≠ p.t) ∨
        ∃ a ∈ t.ps, ∃ b ∈ u.ps, a.t = b.t ∧ p = ⟨a.t, pyJoin "-" [a.l, b.l]⟩ := by
  obtain ⟨r, he, hw, _, _, hnone, hsome, _, hnd, _, _⟩ := punion_spec t u ht hu
  refine ⟨r, he, hw, hnd hndt, ?_⟩
  -- the points of `r` at a time of `u`
  have hat : ∀ q ∈ u.ps, r.ps.filter (fun p => p.t == q.t) =
      [⟨q.t, pyJoin "-" ((t.ps.filter (fun p => p.t == q.t)).map (·.l) ++ [q.l])⟩] := by
    intro q hq
    rw [hsome q.t ⟨q, hq, rfl⟩, hndu.filter_at hq]
    rfl
  have hself : ∀ p : Pt Int, p ∈ r.ps ↔ p ∈ r.ps.filter (fun p' => p'.t == p.t) := by
    intro p; rw [mem_at]; exact ⟨fun h => ⟨h, rfl⟩, fun h => h.1⟩
  intro p
  constructor
  · intro hp
    by_cases hq : ∃ q ∈ u.ps, q.t = p.t
    · obtain ⟨q, hq, hqt⟩ := hq
      have hp' := (hself p).1 hp
      rw [← hqt, hat q hq, List.mem_singleton] at hp'
      by_cases ha : ∃ a ∈ t.ps, a.t = q.t
      · obtain ⟨a, ha, hat'⟩ := ha
        right; right
        have := hndt.filter_at ha
        rw [hat'] at this
        rw [this] at hp'
        exact ⟨a, ha, q, hq, hat', by rw [hat']; exact hp'⟩
      · right; left
        have hfree : ∀ a ∈ t.ps, a.t ≠ q.t := fun a ham e => ha ⟨a, ham, e⟩
        rw [at_nil.2 hfree] at hp'
        have : p = q := by rw [hp']; rfl
        subst this
        exact ⟨hq, hfree⟩
    · left
      have hfree : ∀ q ∈ u.ps, q.t ≠ p.t := fun q hqm e => hq ⟨q, hqm, e⟩
      have hp' := (hself p).1 hp
      rw [hnone p.t hfree] at hp'
      exact ⟨(mem_at.1 hp').1, hfree⟩
  · rintro (⟨hp, hfree⟩ | ⟨hp, hfree⟩ | ⟨a, ha, b, hb, hab, rfl⟩)
    · rw [hself, hnone p.t hfree, mem_at]; exact ⟨hp, rfl⟩
    · rw [hself, hat p hp, at_nil.2 hfree]
      exact List.mem_singleton.2 rfl
    · rw [hself]
      show _ ∈ r.ps.filter (fun p' => p'.t == a.t)
      rw [hab, hat b hb]
      have := hndt.filter_at ha
      rw [hab] at this
      rw [this]
      exact List.mem_singleton.2 rfl

/-! ## 8. appendTier (C09) — entry order -/

/-- **PointTier.appendTier**: `u`'s points are shifted by `t.maxTimestamp` (a point whose new time is negative is
dropped — never the case for tiers on non-negative times), put behind `t`'s and the whole list is sorted by
`(time, label)`: the result is THE sorted arrangement of `t.ps ++ shifted u.ps`.  For tiers on non-negative times no
point is dropped, every point of `t` is at or before `t.maxTimestamp` and every shifted point of `u` at or after it,
and the span is `[t.lo, t.hi + u.hi]`.  Hence `t`'s points come first in the list — except at the time `t.maxTimestamp`
itself, where a point of `t` and a shifted point of `u` (originally at time 0) are ordered by LABEL: when every such
pair is in label order the result is the plain concatenation (`pappend_order_counterexample` shows the other case) -/
theorem pappend_order (t u : PTier Int) (ht : t.WF) (hu : u.WF) :
    ∃ r, t.appendTier u = .ok r ∧ r.WF ∧ r.name = t.name ∧
      r.ps = sortPts (t.ps ++ u.ps.filterMap (C09.pshift t.hi)) ∧
      r.ps.Perm (t.ps ++ u.ps.filterMap (C09.pshift t.hi)) ∧
      r.ps.Pairwise (fun a b => Pt.le a b = true) ∧
      (∀ l : List (Pt Int), l.Perm (t.ps ++ u.ps.filterMap (C09.pshift t.hi)) →
        l.Pairwise (fun a b => Pt.le a b = true) → r.ps = l) ∧
      (0 ≤ u.lo → 0 ≤ t.hi →
        u.ps.filterMap (C09.pshift t.hi) = u.ps.map (fun p => ⟨p.t + t.hi, p.l⟩) ∧
        (∀ a ∈ t.ps, ∀ b ∈ u.ps.filterMap (C09.pshift t.hi), a.t ≤ t.hi ∧ t.hi ≤ b.t) ∧
        r.lo = t.lo ∧ r.hi = t.hi + u.hi) ∧
      ((∀ a ∈ t.ps, ∀ b ∈ u.ps, a.t = t.hi → b.t = 0 → a.l ≤ b.l) → 0 ≤ u.lo →
        r.ps = t.ps ++ u.ps.filterMap (C09.pshift t.hi)) := by
  obtain ⟨u', e1, hu', _, hps', _, _⟩ := C09.pedit_core u hu t.hi .silence (Or.inl (by decide))
  generalize hL : t.ps ++ u.ps.filterMap (C09.pshift t.hi) = L at *
  have hsrt := C14.sortPts_pairwise L
  have hperm := C14.sortPts_perm L
  have hstrL : ∀ p ∈ L, pyStrip p.l = p.l := by
    intro p hp
    rw [← hL] at hp
    rcases List.mem_append.1 hp with h | h
    · exact ht.stripped p h
    · rw [← hps'] at h; exact hu'.stripped p h
  have hstr : ∀ p ∈ sortPts L, pyStrip p.l = p.l := fun p hp => hstrL p (hperm.mem_iff.1 hp)
  have hmk := mkPTier_of_wf t.name (sortPts L) t.lo (t.hi + u.hi) hsrt hstr
  have he : t.appendTier u = mkPTier t.name (sortPts L) (some t.lo) (some (t.hi + u.hi)) := by
    unfold PTier.appendTier
    rw [e1]
    simp only [bind, Except.bind, PTier.new, Option.getD_none, Option.getD_some, hps', hL]
  rw [hmk] at he
  refine ⟨_, he, C05.pappend_wf t u _ he, rfl, rfl, hperm, hsrt, ?_, ?_, ?_⟩
  · intro l hl hls
    exact sorted_perm_unique hsrt hls (hperm.trans hl.symm)
  · intro hulo hthi
    have hnd : ∀ p ∈ u.ps, C09.pshift t.hi p = some ⟨p.t + t.hi, p.l⟩ := by
      intro p hp
      have := hu.inLo p hp
      unfold C09.pshift
      rw [if_neg (by omega)]
    have hmap : u.ps.filterMap (C09.pshift t.hi) = u.ps.map (fun p => ⟨p.t + t.hi, p.l⟩) := by
      rw [← List.filterMap_eq_map]
      exact C09.filterMap_congr' hnd
    have hcross : ∀ a ∈ t.ps, ∀ b ∈ u.ps.filterMap (C09.pshift t.hi), a.t ≤ t.hi ∧ t.hi ≤ b.t := by
      intro a ha b hb
      rw [hmap] at hb
      obtain ⟨q, hq, rfl⟩ := List.mem_map.1 hb
      have := hu.inLo q hq
      exact ⟨ht.inHi a ha, by simp only; omega⟩
    refine ⟨hmap, hcross, ?_⟩
    have hin : ∀ p ∈ sortPts L, t.lo ≤ p.t ∧ p.t ≤ t.hi + u.hi := by
      intro p hp
      have hp' := hperm.mem_iff.1 hp
      rw [← hL] at hp'
      have := hu.span
      have := ht.span
      rcases List.mem_append.1 hp' with h | h
      · have := ht.inLo p h; have := ht.inHi p h; omega
      · rw [hmap] at h
        obtain ⟨q, hq, rfl⟩ := List.mem_map.1 h
        have := hu.inLo q hq; have := hu.inHi q hq
        simp only; omega
    obtain ⟨r2, h1, _, _, _, h5, h6⟩ := mkPTier_wf t.name (sortPts L) t.lo (t.hi + u.hi) hsrt hstr
      (fun p hp => (hin p hp).1) (fun p hp => (hin p hp).2) (by have := hu.span; have := ht.span; omega)
    rw [hmk] at h1
    cases h1
    exact ⟨h5, h6⟩
  · intro hlab hulo
    show sortPts L = L
    apply List.mergeSort_of_pairwise
    rw [← hL, List.pairwise_append]
    refine ⟨ht.sorted, ?_, ?_⟩
    · rw [← hps']; exact hu'.sorted
    · intro a ha b hb
      obtain ⟨q, hq, hqb⟩ := List.mem_filterMap.1 hb
      obtain ⟨_, rfl⟩ := C09.pshift_some hqb
      have h1 := ht.inHi a ha
      have h2 := hu.inLo q hq
      by_cases hlt : a.t < q.t + t.hi
      · exact Pt.le_of_lt_time hlt
      · have e1 : a.t = t.hi := by omega
        have e2 : q.t = 0 := by omega
        have := hlab a ha q hq e1 e2
        simp only [Pt.le]
        rw [if_neg (by omega), if_neg (by omega)]
        simpa using this

/-! ## non-vacuity: concrete tiers, proved instances, the regressions of A24 on coinciding times, and the appendTier order -/

/-- one point per time -/
def pexT : PTier Int := ⟨"P", [⟨10, "a"⟩, ⟨40, "b"⟩, ⟨70, "d"⟩], 0, 100⟩
/-- two points at time 40 (accepted by the constructor: `PointTier('P', [(10,'a'),(40,'b'),(40,'c'),(70,'d')], 0, 100)`) -/
def pexD : PTier Int := ⟨"P", [⟨10, "a"⟩, ⟨40, "b"⟩, ⟨40, "c"⟩, ⟨70, "d"⟩], 0, 100⟩
def pexU : PTier Int := ⟨"U", [⟨25, "u"⟩, ⟨40, "v"⟩, ⟨130, "w"⟩], 0, 130⟩
/-- two points at time 25 -/
def pexV : PTier Int := ⟨"V", [⟨25, "u"⟩, ⟨25, "v"⟩], 0, 130⟩
/-- a point at the very end of the span / a point at time 0 -/
def pexA : PTier Int := ⟨"A", [⟨10, "a"⟩, ⟨100, "b"⟩], 0, 100⟩
def pexB : PTier Int := ⟨"B", [⟨0, "a"⟩, ⟨5, "v"⟩], 0, 130⟩

theorem pexT_wf : pexT.WF := by refine ⟨?_, ?_, ?_, ?_, ?_⟩ <;> simp [pexT, Pt.le] <;> decide
theorem pexD_wf : pexD.WF := by refine ⟨?_, ?_, ?_, ?_, ?_⟩ <;> simp [pexD, Pt.le] <;> decide
theorem pexU_wf : pexU.WF := by refine ⟨?_, ?_, ?_, ?_, ?_⟩ <;> simp [pexU, Pt.le] <;> decide
theorem pexV_wf : pexV.WF := by refine ⟨?_, ?_, ?_, ?_, ?_⟩ <;> simp [pexV, Pt.le] <;> decide
theorem pexA_wf : pexA.WF := by refine ⟨?_, ?_, ?_, ?_, ?_⟩ <;> simp [pexA, Pt.le] <;> decide
theorem pexB_wf : pexB.WF := by refine ⟨?_, ?_, ?_, ?_, ?_⟩ <;> simp [pexB, Pt.le] <;> decide
theorem pexT_nd : TimesNodup pexT.ps := by unfold TimesNodup; decide
theorem pexU_nd : TimesNodup pexU.ps := by unfold TimesNodup; decide

/-- instance of `pinsert_nocollision_spec`: an unstripped label, a time outside the span, `error` mode -/
theorem pex_nocollision : ∃ t', pexT.insertEntry ⟨150, "far\n"⟩ .error = .ok t' ∧ t'.WF ∧
    t'.ps = [⟨10, "a"⟩, ⟨40, "b"⟩, ⟨70, "d"⟩, ⟨150, "far"⟩] ∧ t'.lo = 0 ∧ t'.hi = 150 := by
  obtain ⟨t', e, hw, _, _, _, hps, _, hlo, hhi⟩ :=
    pinsert_nocollision_spec pexT pexT_wf ⟨150, "far\n"⟩ .error (by decide)
  refine ⟨t', e, hw, ?_, by rw [hlo]; decide, by rw [hhi]; decide⟩
  rw [hps]; decide

/-- instance of `pinsert_error_spec` -/
theorem pex_error : pexT.insertEntry ⟨40, "n"⟩ .error = .error .CollisionError :=
  ((pinsert_error_spec pexT ⟨40, "n"⟩).1 ⟨⟨40, "b"⟩, by decide, rfl⟩).1

/-- instances of `pinsert_replace_spec` / `pinsert_merge_spec` on a tier with one point per time -/
theorem pex_replace : ∃ t', pexT.insertEntry ⟨40, " n "⟩ .replace = .ok t' ∧ t'.WF ∧
    t'.ps = [⟨10, "a"⟩, ⟨40, "n"⟩, ⟨70, "d"⟩] ∧ t'.lo = 0 ∧ t'.hi = 100 := by
  obtain ⟨t', e, hw, _, _, _, hps, _, _, hlo, hhi⟩ :=
    pinsert_replace_spec pexT pexT_wf ⟨40, " n "⟩ ⟨⟨40, "b"⟩, by decide, rfl⟩
  refine ⟨t', e, hw, ?_, hlo, hhi⟩
  rw [hps]; decide

theorem pex_merge : ∃ t', pexT.insertEntry ⟨40, " n "⟩ .merge = .ok t' ∧ t'.WF ∧
    t'.ps = [⟨10, "a"⟩, ⟨40, "b-n"⟩, ⟨70, "d"⟩] ∧ t'.lo = 0 ∧ t'.hi = 100 := by
  obtain ⟨_, _, t', e, hw, _, _, _, hps, _, _, hlo, hhi⟩ :=
    pinsert_merge_spec pexT pexT_wf ⟨40, " n "⟩ ⟨⟨40, "b"⟩, by decide, rfl⟩
  refine ⟨t', e, hw, ?_, hlo, hhi⟩
  rw [hps]; decide

/-- **regression of A24** (the former `pinsert_collision_counterexample`): with TWO points at the time of the new one,
`replace` removes both and `merge` joins both labels and then the new one.  Before the repair the code left
`[(10,'a'), (40,'c'), (40,'n'), (70,'d')]` and `[(10,'a'), (40,'b-n'), (40,'c'), (70,'d')]`.  Replayed on the code:
`t = PointTier('P', [(10,'a'),(40,'b'),(40,'c'),(70,'d')], 0, 100); t.insertEntry((40,'n'), 'replace')` leaves
`[(10,'a'), (40,'n'), (70,'d')]`, and `'merge'` leaves `[(10,'a'), (40,'b-c-n'), (70,'d')]`. -/
theorem pinsert_collision_regression :
    pexD.WF ∧
    (∃ t', pexD.insertEntry ⟨40, "n"⟩ .replace = .ok t' ∧ t'.ps = [⟨10, "a"⟩, ⟨40, "n"⟩, ⟨70, "d"⟩]) ∧
    (∃ t', pexD.insertEntry ⟨40, "n"⟩ .merge = .ok t' ∧ t'.ps = [⟨10, "a"⟩, ⟨40, "b-c-n"⟩, ⟨70, "d"⟩]) := by
  refine ⟨pexD_wf, ?_, ?_⟩
  · obtain ⟨t', e, _, _, _, _, hps, _⟩ :=
      pinsert_replace_spec pexD pexD_wf ⟨40, "n"⟩ ⟨⟨40, "b"⟩, by decide, rfl⟩
    exact ⟨t', e, by rw [hps]; decide⟩
  · obtain ⟨_, _, t', e, _, _, _, _, hps, _⟩ :=
      pinsert_merge_spec pexD pexD_wf ⟨40, "n"⟩ ⟨⟨40, "b"⟩, by decide, rfl⟩
    exact ⟨t', e, by rw [hps]; decide⟩

/-- instance of `pdelete_spec` -/
theorem pex_delete : pexD.deleteEntry ⟨40, "c"⟩ = .ok ⟨"P", [⟨10, "a"⟩, ⟨40, "b"⟩, ⟨70, "d"⟩], 0, 100⟩ ∧
    pexD.deleteEntry ⟨41, "c"⟩ = .error .ValueError := by
  constructor
  · rw [((pdelete_spec pexD ⟨40, "c"⟩).1 (by decide)).1]
    have : pexD.ps.erase ⟨40, "c"⟩ = [⟨10, "a"⟩, ⟨40, "b"⟩, ⟨70, "d"⟩] := by decide
    rw [this]; rfl
  · apply (pdelete_spec pexD ⟨41, "c"⟩).2.1
    decide

/-- evaluating a merge-insert on a concrete sorted list without running the sort -/
theorem mergeIns_val (ps : List (Pt Int)) (x : Pt Int) (l : List (Pt Int))
    (hs : ps.Pairwise (fun a b => Pt.le a b = true))
    (hl : l = ps.filter (fun p => decide (p.t < x.t)) ++
      ⟨x.t, pyJoin "-" ((ps.filter (fun p => p.t == x.t)).map (·.l) ++ [pyStrip x.l])⟩ ::
        ps.filter (fun p => decide (x.t < p.t))) : mergeIns ps x = l := by
  rw [hl]
  exact sorted_place ps hs ⟨x.t, pyJoin "-" ((ps.filter (fun p => p.t == x.t)).map (·.l) ++ [pyStrip x.l])⟩ _
    (mergeIns_sorted ps x) (mergeIns_perm ps x)

/-- instance of `punion_exact` / `punion_spec`: one point per time in both operands; 40 is a common time -/
theorem pex_union : ∃ r, pexT.union pexU = .ok r ∧ r.WF ∧ TimesNodup r.ps ∧
    r.ps = [⟨10, "a"⟩, ⟨25, "u"⟩, ⟨40, "b-v"⟩, ⟨70, "d"⟩, ⟨130, "w"⟩] ∧ r.lo = 0 ∧ r.hi = 130 := by
  obtain ⟨r, e, hw, _, _, _, _, _, hnd, hlo, hhi⟩ := punion_spec pexT pexU pexT_wf pexU_wf
  refine ⟨r, e, hw, hnd pexT_nd, ?_, by rw [hlo]; decide, by rw [hhi]; decide⟩
  obtain ⟨e', hps⟩ := punion_eq_fold pexT pexU pexT_wf
  rw [e] at e'; cases e'
  rw [hps]
  simp only [pexU, List.foldl_cons, List.foldl_nil]
  rw [mergeIns_val pexT.ps ⟨25, "u"⟩ [⟨10, "a"⟩, ⟨25, "u"⟩, ⟨40, "b"⟩, ⟨70, "d"⟩] (by decide) (by decide),
    mergeIns_val _ ⟨40, "v"⟩ [⟨10, "a"⟩, ⟨25, "u"⟩, ⟨40, "b-v"⟩, ⟨70, "d"⟩] (by decide) (by decide),
    mergeIns_val _ ⟨130, "w"⟩ [⟨10, "a"⟩, ⟨25, "u"⟩, ⟨40, "b-v"⟩, ⟨70, "d"⟩, ⟨130, "w"⟩] (by decide) (by decide)]

/-- **regressions of A24 on union** (the former `punion_counterexample`), both on well-formed operands:
(1) the receiver has two points at time 40 and the argument one: all three are fused into `(40,'b-c-v')` — before the
repair the code left `(40,'b-v')` AND `(40,'c')`;
(2) the argument has two points at time 25 and the receiver none: "points at the same time are merged" — the result has
the one point `(25,'u-v')` (unchanged by the repair).
Replayed on the code: `PointTier('P',[(10,'a'),(40,'b'),(40,'c'),(70,'d')],0,100).union(PointTier('U',[(25,'u'),
(40,'v'),(130,'w')],0,130))` has entries `[(10,'a'),(25,'u'),(40,'b-c-v'),(70,'d'),(130,'w')]`;
`PointTier('P',[(10,'a'),(40,'b'),(70,'d')],0,100).union(PointTier('V',[(25,'u'),(25,'v')],0,130))` has
`[(10,'a'),(25,'u-v'),(40,'b'),(70,'d')]` and span `[0, 100]` (the argument's maxTimestamp 130 is ignored). -/
theorem punion_dup_regression :
    pexD.WF ∧ pexU.WF ∧ pexT.WF ∧ pexV.WF ∧
    (∃ r, pexD.union pexU = .ok r ∧
      r.ps = [⟨10, "a"⟩, ⟨25, "u"⟩, ⟨40, "b-c-v"⟩, ⟨70, "d"⟩, ⟨130, "w"⟩]) ∧
    (∃ r, pexT.union pexV = .ok r ∧ r.ps = [⟨10, "a"⟩, ⟨25, "u-v"⟩, ⟨40, "b"⟩, ⟨70, "d"⟩] ∧
      r.lo = 0 ∧ r.hi = 100) := by
  refine ⟨pexD_wf, pexU_wf, pexT_wf, pexV_wf, ?_, ?_⟩
  · obtain ⟨e, hps⟩ := punion_eq_fold pexD pexU pexD_wf
    refine ⟨_, e, ?_⟩
    rw [hps]
    simp only [pexU, List.foldl_cons, List.foldl_nil]
    rw [mergeIns_val pexD.ps ⟨25, "u"⟩ [⟨10, "a"⟩, ⟨25, "u"⟩, ⟨40, "b"⟩, ⟨40, "c"⟩, ⟨70, "d"⟩] (by decide) (by decide),
      mergeIns_val _ ⟨40, "v"⟩ [⟨10, "a"⟩, ⟨25, "u"⟩, ⟨40, "b-c-v"⟩, ⟨70, "d"⟩] (by decide) (by decide),
      mergeIns_val _ ⟨130, "w"⟩ [⟨10, "a"⟩, ⟨25, "u"⟩, ⟨40, "b-c-v"⟩, ⟨70, "d"⟩, ⟨130, "w"⟩] (by decide)
        (by decide)]
  · obtain ⟨e, hps⟩ := punion_eq_fold pexT pexV pexT_wf
    obtain ⟨_, hlo, hhi⟩ := fold_mergeT_wf pexV.ps pexT pexT_wf
    refine ⟨_, e, ?_, by rw [hlo]; decide, by rw [hhi]; decide⟩
    rw [hps]
    simp only [pexV, List.foldl_cons, List.foldl_nil]
    rw [mergeIns_val pexT.ps ⟨25, "u"⟩ [⟨10, "a"⟩, ⟨25, "u"⟩, ⟨40, "b"⟩, ⟨70, "d"⟩] (by decide) (by decide),
      mergeIns_val _ ⟨25, "v"⟩ [⟨10, "a"⟩, ⟨25, "u-v"⟩, ⟨40, "b"⟩, ⟨70, "d"⟩] (by decide) (by decide)]

/-- instance of the general clause of `punion_spec` at a time with two points in each operand:
all four labels are joined, the receiver's first -/
theorem pex_union_four : ∃ r, (⟨"P", [⟨40, "b"⟩, ⟨40, "b-a"⟩], 0, 100⟩ : PTier Int).union
      ⟨"U", [⟨40, "z"⟩, ⟨40, "zz"⟩], 0, 100⟩ = .ok r ∧ r.ps.filter (fun p => p.t == 40) = [⟨40, "b-b-a-z-zz"⟩] := by
  have h1 : (⟨"P", [⟨40, "b"⟩, ⟨40, "b-a"⟩], 0, 100⟩ : PTier Int).WF := by
    refine ⟨?_, ?_, ?_, ?_, ?_⟩ <;> simp [Pt.le] <;> decide
  have h2 : (⟨"U", [⟨40, "z"⟩, ⟨40, "zz"⟩], 0, 100⟩ : PTier Int).WF := by
    refine ⟨?_, ?_, ?_, ?_, ?_⟩ <;> simp [Pt.le] <;> decide
  obtain ⟨r, e, _, _, _, _, hsome, _⟩ := punion_spec _ _ h1 h2
  refine ⟨r, e, ?_⟩
  rw [hsome 40 ⟨⟨40, "z"⟩, by decide, rfl⟩]
  decide

/-- instance of `pappend_order` where the concatenation is already in order -/
theorem pex_append : ∃ r, pexT.appendTier pexU = .ok r ∧ r.WF ∧
    r.ps = [⟨10, "a"⟩, ⟨40, "b"⟩, ⟨70, "d"⟩, ⟨125, "u"⟩, ⟨140, "v"⟩, ⟨230, "w"⟩] ∧ r.lo = 0 ∧ r.hi = 230 := by
  obtain ⟨r, e, hw, _, _, _, _, _, hspan, hcat⟩ := pappend_order pexT pexU pexT_wf pexU_wf
  obtain ⟨_, _, hlo, hhi⟩ := hspan (by decide) (by decide)
  refine ⟨r, e, hw, ?_, hlo, hhi⟩
  rw [hcat (by decide) (by decide)]
  decide

/-- **the entry order of `PointTier.appendTier` at a coinciding time**: `t` has a point at its maxTimestamp, `u` a
point at time 0 with a smaller label — in the result `u`'s shifted point stands BEFORE `t`'s point (the sort decides by
label).  So "A's entries followed by B's shifted entries" (true of interval tiers, `C09.append_spec`) holds for point
tiers only in time order, not in list order.  Replayed on the code:
`PointTier('A',[(10,'a'),(100,'b')],0,100).appendTier(PointTier('B',[(0,'a'),(5,'v')],0,130))` has entries
`[(10,'a'), (100,'a'), (100,'b'), (105,'v')]`. -/
theorem pappend_order_counterexample :
    pexA.WF ∧ pexB.WF ∧ ∃ r, pexA.appendTier pexB = .ok r ∧
      r.ps = [⟨10, "a"⟩, ⟨100, "a"⟩, ⟨100, "b"⟩, ⟨105, "v"⟩] ∧
      r.ps ≠ pexA.ps ++ pexB.ps.map (fun p => ⟨p.t + pexA.hi, p.l⟩) := by
  obtain ⟨r, e, _, _, _, _, _, huniq, _⟩ := pappend_order pexA pexB pexA_wf pexB_wf
  have hps := huniq [⟨10, "a"⟩, ⟨100, "a"⟩, ⟨100, "b"⟩, ⟨105, "v"⟩] (by decide) (by decide)
  refine ⟨pexA_wf, pexB_wf, r, e, hps, ?_⟩
  rw [hps]; decide

/-- instance of `pirun_labelAt` / `pirun_timesNodup`: a history with a merge on an occupied time, a refused insert,
a replace, a deletion of a present and of an absent point -/
def pexOps : List PIOp :=
  [.insert ⟨40, " n "⟩ .merge, .insert ⟨40, "z"⟩ .error, .insert ⟨10, "r"⟩ .replace, .delete ⟨70, "d"⟩,
   .delete ⟨71, "d"⟩, .insert ⟨150, "far\n"⟩ .error]

theorem pex_history : (pirun pexT pexOps).WF ∧ TimesNodup (pirun pexT pexOps).ps :=
  pirun_timesNodup pexT pexT_wf pexT_nd pexOps

-- evaluated illustrations (interpreter tests, not proofs); the same calls on the code give the same tiers
#guard (pexT.insertEntry ⟨150, "far\n"⟩ .error).toOption.map (fun t => (t.ps, t.lo, t.hi)) ==
  some ([⟨10, "a"⟩, ⟨40, "b"⟩, ⟨70, "d"⟩, ⟨150, "far"⟩], 0, 150)
#guard (pexT.insertEntry ⟨40, " n "⟩ .replace).toOption.map (fun t => (t.ps, t.lo, t.hi)) ==
  some ([⟨10, "a"⟩, ⟨40, "n"⟩, ⟨70, "d"⟩], 0, 100)
#guard (pexT.insertEntry ⟨40, " n "⟩ .merge).toOption.map (fun t => (t.ps, t.lo, t.hi)) ==
  some ([⟨10, "a"⟩, ⟨40, "b-n"⟩, ⟨70, "d"⟩], 0, 100)
#guard (match pexT.insertEntry ⟨40, "n"⟩ .error with | .error .CollisionError => true | _ => false)
-- two points at the time of the new one: both are replaced / merged (A24)
#guard (pexD.insertEntry ⟨40, "n"⟩ .replace).toOption.map (·.ps) == some [⟨10, "a"⟩, ⟨40, "n"⟩, ⟨70, "d"⟩]
#guard (pexD.insertEntry ⟨40, "n"⟩ .merge).toOption.map (·.ps) == some [⟨10, "a"⟩, ⟨40, "b-c-n"⟩, ⟨70, "d"⟩]
#guard (pexD.deleteEntry ⟨40, "c"⟩).toOption.map (·.ps) == some [⟨10, "a"⟩, ⟨40, "b"⟩, ⟨70, "d"⟩]
#guard (match pexD.deleteEntry ⟨41, "c"⟩ with | .error .ValueError => true | _ => false)
#guard (pexT.union pexU).toOption.map (fun t => (t.name, t.ps, t.lo, t.hi)) ==
  some ("P", [⟨10, "a"⟩, ⟨25, "u"⟩, ⟨40, "b-v"⟩, ⟨70, "d"⟩, ⟨130, "w"⟩], 0, 130)
#guard (pexD.union pexU).toOption.map (·.ps) ==
  some [⟨10, "a"⟩, ⟨25, "u"⟩, ⟨40, "b-c-v"⟩, ⟨70, "d"⟩, ⟨130, "w"⟩]
#guard (pexT.union pexV).toOption.map (fun t => (t.ps, t.lo, t.hi)) ==
  some ([⟨10, "a"⟩, ⟨25, "u-v"⟩, ⟨40, "b"⟩, ⟨70, "d"⟩], 0, 100)
-- two points at one time in each operand: one point, all four labels
#guard ((⟨"P", [⟨40, "b"⟩, ⟨40, "b-a"⟩], 0, 100⟩ : PTier Int).union ⟨"U", [⟨40, "z"⟩, ⟨40, "zz"⟩], 0, 100⟩).toOption.map
  (·.ps) == some [⟨40, "b-b-a-z-zz"⟩]
#guard (pexT.appendTier pexU).toOption.map (fun t => (t.ps, t.lo, t.hi)) ==
  some ([⟨10, "a"⟩, ⟨40, "b"⟩, ⟨70, "d"⟩, ⟨125, "u"⟩, ⟨140, "v"⟩, ⟨230, "w"⟩], 0, 230)
#guard (pexA.appendTier pexB).toOption.map (fun t => (t.ps, t.lo, t.hi)) ==
  some ([⟨10, "a"⟩, ⟨100, "a"⟩, ⟨100, "b"⟩, ⟨105, "v"⟩], 0, 230)
#guard (pirun pexT pexOps).ps == [⟨10, "r"⟩, ⟨40, "b-n"⟩, ⟨150, "far"⟩]
#guard pexOps.foldl absStep (labelAtP pexT.ps) 40 == some "b-n" &&
  pexOps.foldl absStep (labelAtP pexT.ps) 70 == none && pexOps.foldl absStep (labelAtP pexT.ps) 10 == some "r"

end C11
