import PraatModel.Props.C05Points

/-!
# C07, point tiers — the full functional specification of `PointTier.eraseRegion`

Exact arithmetic (`Int` timestamps of any size, point lists of any length, several points at one time allowed).
All statements are about the model function `PTier.eraseRegion` of `Ops.lean` (the code path: `self.new()`, `crop`,
`deleteEntry` of every match in reverse order, the shrink loop, `new(entries=…, maxTimestamp=…)`).

| clause | theorem |
|---|---|
| a region with `b ≤ a` is refused (ArgumentError), nothing else is | `perase_rejects` (C07), `perase_ok_iff` |
| no shrinking: exactly the points with `t < a` or `b < t` remain (both edges go), name and span kept — for ANY region `a < b`, inside the span or not | `perase_noshrink_eq` |
| shrinking, ANY region (fix A28: the points covered by the region as given are removed, then the region is clipped to the span, `a' = max a lo`, `b' = min b hi`): the un-shrunk result if `b' ≤ a'`, else the entries in closed form (`pshrinkOne`; the arithmetic is `a' + (t - b')`), start kept, end `b' - a'` earlier | `perase_shrink_unfold`, `perase_shrink_any`, `perase_shrink_outside`, `perase_shrink_clip`, `perase_span_any` |
| shrinking, region inside the span: span start kept, span end exactly `b - a` earlier | `perase_shrink_eq` |
| both together, the registered main statement | `perase_spec` |
| one-to-one, order and labels kept: the shrunk entries are the un-shrunk ones, each moved or not | `perase_shrink_map` |
| multiset statements (duplicates) | `perase_count_noshrink`, `perase_count_shrink` |
| points exactly at `a` and exactly at `b` go, shrinking or not, for ANY region (same labels in the same order in both results); after shrinking nothing sits at `a'` | `perase_edges` |
| a point from after `b` never lands on a point from before `a` (they stay strictly apart, on either side of `a`) | `perase_no_collision`, rounding-generic: `perase_no_collision_R` |
| regression of A28 (regions sticking out of / outside / touching the span) | `perase_shrink_outside_example` |
-/
namespace C07

/-! ## deleting the matches in reverse order -/

/-- `deleteEntry` of one member after the other, as `List.erase` -/
def eraseAll (ms ps : List (Pt Int)) : List (Pt Int) := ms.foldl (fun acc m => acc.erase m) ps

theorem eraseAll_erase (ms ps : List (Pt Int)) (x : Pt Int) :
    eraseAll ms (ps.erase x) = (eraseAll ms ps).erase x := by
  induction ms generalizing ps with
  | nil => rfl
  | cons m ms ih =>
    simp only [eraseAll, List.foldl_cons] at ih ⊢
    rw [List.erase_comm, ih]

/-- the order in which members are deleted does not matter: reverse order (as the code does) or forward -/
theorem eraseAll_reverse (ms ps : List (Pt Int)) : eraseAll ms.reverse ps = eraseAll ms ps := by
  induction ms generalizing ps with
  | nil => rfl
  | cons m ms ih =>
    have h1 : eraseAll (ms.reverse ++ [m]) ps = (eraseAll ms.reverse ps).erase m := by
      simp [eraseAll, List.foldl_append]
    rw [List.reverse_cons, h1, ih, ← eraseAll_erase]
    rfl

/-- the deletion loop of `eraseRegion`: the matches (in reverse order) go, everything else stays, in order -/
theorem deleteMatches (q : Pt Int → Bool) (ps : List (Pt Int)) :
    (ps.filter q).reverse.foldlM deletePt ps = .ok (ps.filter (fun p => !q p)) := by
  rw [C05.foldlM_deletePt_eq _ _ (fun x => by
    rw [List.count_reverse]; exact List.filter_sublist.count_le x)]
  congr 1
  have := eraseAll_reverse (ps.filter q) ps
  simp only [eraseAll] at this
  rw [this, C05.foldl_erase_filter]

/-! ## the two closed forms -/

/-- a point is outside the closed region `[a, b]` -/
def outside (a b : Int) (p : Pt Int) : Bool := decide (p.t < a ∨ b < p.t)

/-- one iteration of the shrink loop: a point before `a` stays, a point after `b` is moved to `a + (t - b)`, anything
else is dropped -/
def pshrinkOne (a b : Int) (p : Pt Int) : Option (Pt Int) :=
  if p.t < a then some p else if b < p.t then some ⟨shiftBack a b p.t, p.l⟩ else none

/-- in exact arithmetic the shift `a + (x - b)` is `x - (b - a)` -/
theorem shiftBack_eq (a b x : Int) : shiftBack a b x = x - (b - a) := by
  simp only [shiftBack]; omega

/-- the shrink loop in closed form -/
def pshrink (a b : Int) (ps : List (Pt Int)) : List (Pt Int) :=
  ps.filter (fun p => decide (p.t < a)) ++
    (ps.filter (fun p => decide (b < p.t))).map (fun p => ⟨p.t - (b - a), p.l⟩)

theorem not_inside_eq_outside (a b : Int) :
    (fun p : Pt Int => !(decide (a ≤ p.t) && decide (p.t ≤ b))) = outside a b := by
  funext p
  simp only [outside]
  by_cases h1 : a ≤ p.t <;> by_cases h2 : p.t ≤ b <;> simp [h1, h2] <;> omega

/-- the deletion step in closed form: the matches are taken with the region as given -/
theorem perase_matches (t : PTier Int) (hwf : t.WF) (a b : Int) (hab : a < b) :
    ∃ ct, t.crop a b false = .ok ct ∧
      ct.ps.reverse.foldlM deletePt t.ps = .ok (t.ps.filter (outside a b)) := by
  obtain ⟨ct, hc, _, _, hps, _, _⟩ := C06.pcrop_spec t hwf a b hab false
  simp only [Bool.false_eq_true, if_false, List.map_id'] at hps
  refine ⟨ct, hc, ?_⟩
  rw [hps, deleteMatches, not_inside_eq_outside]

/-- **no shrinking**: for ANY region `a < b` (inside the span, sticking out of it, or beyond it) the call returns the
same tier with exactly the points at `t < a` or `b < t` — in their old order, duplicates included; points exactly at `a`
and exactly at `b` are removed; name and span are unchanged -/
theorem perase_noshrink_eq (t : PTier Int) (hwf : t.WF) (a b : Int) (hab : a < b) :
    t.eraseRegion a b false = .ok { t with ps := t.ps.filter (fun p => decide (p.t < a ∨ b < p.t)) } := by
  obtain ⟨ct, hc, hd⟩ := perase_matches t hwf a b hab
  unfold PTier.eraseRegion
  rw [C05.pnew_of_wf t hwf]
  simp only [bind, Except.bind]
  rw [hc]
  simp only [hd]
  rfl

/-- **shrinking, the code path in closed form** (fix A28): the matches of the region AS GIVEN are deleted, exactly as
without shrinking; then the region is clipped to the span, `a' = max a lo`, `b' = min b hi`, and the shrink loop runs with
the clipped region if `a' < b'`; otherwise nothing is moved and the span is kept -/
theorem perase_shrink_unfold (t : PTier Int) (hwf : t.WF) (a b : Int) (hab : a < b) :
    t.eraseRegion a b true =
      (if max a t.lo < min b t.hi then
        ({ t with ps := t.ps.filter (outside a b) } : PTier Int).new
          (ps := some ((t.ps.filter (outside a b)).filterMap (pshrinkOne (max a t.lo) (min b t.hi))))
          (hi := some (shiftBack (max a t.lo) (min b t.hi) t.hi))
       else .ok { t with ps := t.ps.filter (outside a b) }) := by
  obtain ⟨ct, hc, hd⟩ := perase_matches t hwf a b hab
  obtain ⟨e1, e2⟩ := clip_true t.lo t.hi a b
  unfold PTier.eraseRegion
  rw [C05.pnew_of_wf t hwf]
  simp only [bind, Except.bind]
  rw [hc]
  simp only [hd, e1, e2, Bool.true_and, decide_eq_true_eq]
  split
  · rfl
  · rfl

theorem filterMap_pshrinkOne_outside (a b : Int) (ps : List (Pt Int)) :
    (ps.filter (outside a b)).filterMap (pshrinkOne a b) = ps.filterMap (pshrinkOne a b) := by
  rw [List.filterMap_filter]
  congr 1
  funext p
  simp only [outside, pshrinkOne]
  by_cases h1 : p.t < a <;> by_cases h2 : b < p.t <;> simp [h1, h2]

/-- on a list sorted by time the shrink loop returns first the points before `a`, then the moved points from after `b` -/
theorem filterMap_pshrinkOne_eq (a b : Int) (hab : a < b) (ps : List (Pt Int))
    (hs : ps.Pairwise (fun x y => Pt.le x y = true)) :
    ps.filterMap (pshrinkOne a b) = pshrink a b ps := by
  induction ps with
  | nil => rfl
  | cons p rest ih =>
    have hrest := ih (List.pairwise_cons.1 hs).2
    have hle : ∀ q ∈ rest, p.t ≤ q.t := fun q hq => Pt.le_time ((List.pairwise_cons.1 hs).1 q hq)
    simp only [pshrink] at hrest ⊢
    by_cases h1 : p.t < a
    · have h2 : ¬ b < p.t := by omega
      simp only [List.filterMap_cons, pshrinkOne, h1, if_true, List.filter_cons, decide_true, h2, decide_false,
        Bool.false_eq_true, if_false, List.cons_append]
      rw [← hrest]
    · have hnil : rest.filter (fun p => decide (p.t < a)) = [] := by
        apply List.filter_eq_nil_iff.2
        intro q hq
        have := hle q hq
        simp only [decide_eq_true_eq]; omega
      rw [hnil] at hrest
      by_cases h2 : b < p.t
      · simp only [List.filterMap_cons, pshrinkOne, h1, if_false, h2, if_true, List.filter_cons, decide_false,
          Bool.false_eq_true, decide_true, hnil, List.nil_append, List.map_cons]
        rw [show rest.filterMap (pshrinkOne a b) = _ from hrest]
        simp only [List.nil_append, shiftBack_eq]
      · simp only [List.filterMap_cons, pshrinkOne, h1, if_false, h2, List.filter_cons, decide_false,
          Bool.false_eq_true, hnil, List.nil_append]
        rw [show rest.filterMap (pshrinkOne a b) = _ from hrest]
        simp only [List.nil_append]

theorem pshrink_mem {a b : Int} {ps : List (Pt Int)} {y : Pt Int} (hy : y ∈ pshrink a b ps) :
    (y ∈ ps ∧ y.t < a) ∨ (∃ p ∈ ps, b < p.t ∧ y = ⟨p.t - (b - a), p.l⟩) := by
  simp only [pshrink, List.mem_append, List.mem_filter, List.mem_map, decide_eq_true_eq] at hy
  rcases hy with ⟨h1, h2⟩ | ⟨p, ⟨h1, h2⟩, rfl⟩
  · exact Or.inl ⟨h1, h2⟩
  · exact Or.inr ⟨p, h1, h2, rfl⟩

theorem pshrinkOne_some {a b : Int} {x x' : Pt Int} (h : pshrinkOne a b x = some x') :
    (x.t < a ∧ x' = x) ∨ (b < x.t ∧ ¬ x.t < a ∧ x' = ⟨x.t - (b - a), x.l⟩) := by
  simp only [pshrinkOne] at h
  split at h
  · rename_i h1; cases h; exact Or.inl ⟨h1, rfl⟩
  · rename_i h1
    split at h
    · rename_i h2; cases h; exact Or.inr ⟨h2, h1, by rw [shiftBack_eq]⟩
    · cases h

theorem pshrink_sorted (a b : Int) (hab : a < b) (ps : List (Pt Int))
    (hs : ps.Pairwise (fun x y => Pt.le x y = true)) :
    (pshrink a b ps).Pairwise (fun x y => Pt.le x y = true) := by
  rw [← filterMap_pshrinkOne_eq a b hab ps hs, List.pairwise_filterMap]
  refine hs.imp ?_
  intro x y hxy x' hx' y' hy'
  have ht := Pt.le_time hxy
  simp only [Pt.le] at hxy ⊢
  rcases pshrinkOne_some hx' with ⟨h1, rfl⟩ | ⟨h1, h2, rfl⟩ <;>
    rcases pshrinkOne_some hy' with ⟨h3, rfl⟩ | ⟨h3, h4, rfl⟩
  · exact hxy
  · simp only; grind
  · omega
  · simp only; grind

/-- the matches of the region as given are the matches of the clipped region: every point lies inside the span -/
theorem filterMap_pshrinkOne_clip (t : PTier Int) (hwf : t.WF) (a b : Int) :
    (t.ps.filter (outside a b)).filterMap (pshrinkOne (max a t.lo) (min b t.hi)) =
      t.ps.filterMap (pshrinkOne (max a t.lo) (min b t.hi)) := by
  have hf : t.ps.filter (outside a b) = t.ps.filter (outside (max a t.lo) (min b t.hi)) := by
    apply List.filter_congr
    intro p hp
    have := hwf.inLo p hp; have := hwf.inHi p hp
    simp only [outside, decide_eq_decide]
    omega
  rw [hf, filterMap_pshrinkOne_outside]

/-- the constructor call at the end of the shrink step, for a region inside the span -/
theorem mk_pshrink (t : PTier Int) (hwf : t.WF) (a b : Int) (hab : a < b) (hlo : t.lo ≤ a) (hhi : b ≤ t.hi) :
    mkPTier t.name (pshrink a b t.ps) (some t.lo) (some (shiftBack a b t.hi)) =
      .ok ⟨t.name, pshrink a b t.ps, t.lo, t.hi - (b - a)⟩ := by
  rw [mkPTier_of_wf _ _ _ _ (pshrink_sorted a b hab t.ps hwf.sorted) (by
    intro y hy
    rcases pshrink_mem hy with ⟨h1, _⟩ | ⟨p, h1, _, rfl⟩
    · exact hwf.stripped y h1
    · exact hwf.stripped p h1)]
  have hb : ∀ x ∈ (pshrink a b t.ps).map (·.t) ++ [t.lo], t.lo ≤ x ∧ x ≤ t.hi - (b - a) := by
    intro x hx
    simp only [List.mem_append, List.mem_map, List.mem_singleton] at hx
    rcases hx with ⟨y, hy, rfl⟩ | rfl
    · rcases pshrink_mem hy with ⟨h1, h2⟩ | ⟨p, h1, h2, rfl⟩
      · have := hwf.inLo y h1; omega
      · have := hwf.inHi p h1; simp only; omega
    · omega
  have e2 : hullMax ((pshrink a b t.ps).map (·.t) ++ [t.lo]) (shiftBack a b t.hi) = t.hi - (b - a) := by
    rw [shiftBack_eq]
    exact hullMax_eq_of_ge _ _ (fun x hx => (hb x hx).2)
  have e1 : hullMin ((pshrink a b t.ps).map (·.t) ++ [t.lo]) (shiftBack a b t.hi) = t.lo := by
    rw [shiftBack_eq]
    have h1 := hullMin_le ((pshrink a b t.ps).map (·.t) ++ [t.lo]) (t.hi - (b - a))
    have h2 := h1.2 t.lo (by simp)
    have h3 : t.lo ≤ hullMin ((pshrink a b t.ps).map (·.t) ++ [t.lo]) (t.hi - (b - a)) := by
      unfold hullMin
      rcases foldl_min_mem ((pshrink a b t.ps).map (·.t) ++ [t.lo]) (t.hi - (b - a)) with h' | h'
      · rw [h']; omega
      · exact (hb _ h').1
    omega
  rw [e1, e2]

/-- **shrinking, ANY region `a < b`** (fix A28): the points the region covers (`a ≤ t ≤ b`, both edges) are removed,
exactly as without shrinking; with `a' = max a lo`, `b' = min b hi` the part of the region inside the span — if that part
is empty or a single time (`b' ≤ a'`) nothing is moved and the span is kept, the result is the un-shrunk one; otherwise
the entries are, in this order, the points before `a'` unchanged and the points after `b'` moved by exactly `b' - a'`
(the model computes `a' + (t - b')`), the span start is kept and the span end decreases by exactly `b' - a'`.  The result is
well-formed in every case. -/
theorem perase_shrink_any (t : PTier Int) (hwf : t.WF) (a b : Int) (hab : a < b) :
    t.eraseRegion a b true =
      (if max a t.lo < min b t.hi
       then .ok ⟨t.name, pshrink (max a t.lo) (min b t.hi) t.ps, t.lo, t.hi - (min b t.hi - max a t.lo)⟩
       else .ok { t with ps := t.ps.filter (fun p => decide (p.t < a ∨ b < p.t)) }) := by
  rw [perase_shrink_unfold t hwf a b hab]
  split
  · rename_i hne
    simp only [PTier.new, Option.getD_some, Option.getD_none, filterMap_pshrinkOne_clip t hwf,
      filterMap_pshrinkOne_eq _ _ hne t.ps hwf.sorted]
    exact mk_pshrink t hwf _ _ hne (by omega) (by omega)
  · rfl

/-- **a region that meets the span in at most one time**: shrinking does exactly what not shrinking does (a point sitting
on the end of the span that the region touches is removed in both cases; nothing is moved, the span is kept) -/
theorem perase_shrink_outside (t : PTier Int) (hwf : t.WF) (a b : Int) (hab : a < b)
    (hout : min b t.hi ≤ max a t.lo) : t.eraseRegion a b true = t.eraseRegion a b false := by
  rw [perase_shrink_any t hwf a b hab, if_neg (by omega), perase_noshrink_eq t hwf a b hab]

/-- **shrinking, region inside the span**: the span start is kept and the span end decreases by exactly `b - a` -/
theorem perase_shrink_eq (t : PTier Int) (hwf : t.WF) (a b : Int) (hab : a < b) (hlo : t.lo ≤ a) (hhi : b ≤ t.hi) :
    t.eraseRegion a b true = .ok ⟨t.name, pshrink a b t.ps, t.lo, t.hi - (b - a)⟩ := by
  rw [perase_shrink_any t hwf a b hab, if_pos (by omega)]
  have e1 : max a t.lo = a := by omega
  have e2 : min b t.hi = b := by omega
  rw [e1, e2]

/-- **perase_shrink_clip**: shrinking ANY region whose part inside the span is not empty is shrinking that part -/
theorem perase_shrink_clip (t : PTier Int) (hwf : t.WF) (a b : Int) (hab : a < b) (hne : max a t.lo < min b t.hi) :
    t.eraseRegion a b true = t.eraseRegion (max a t.lo) (min b t.hi) true := by
  rw [perase_shrink_any t hwf a b hab, if_pos hne,
    perase_shrink_eq t hwf _ _ hne (by omega) (by omega)]

/-! ## the main statement -/

/-- **perase_spec**: `PointTier.eraseRegion(a, b, doShrink)` on a well-formed tier with `a < b` (when shrinking: the
region inside the span) succeeds; the result is well-formed and keeps the name and the span start; without shrinking the
span end is kept and exactly the points with `t < a` or `b < t` remain; with shrinking the span end decreases by `b - a`,
the points before `a` are unchanged and the points after `b` are moved by exactly `b - a`, order and labels kept -/
theorem perase_spec (t : PTier Int) (hwf : t.WF) (a b : Int) (hab : a < b) (sh : Bool)
    (hin : sh = true → t.lo ≤ a ∧ b ≤ t.hi) :
    ∃ t', t.eraseRegion a b sh = .ok t' ∧ t'.WF ∧ t'.name = t.name ∧ t'.lo = t.lo ∧
      t'.hi = (if sh then t.hi - (b - a) else t.hi) ∧
      t'.ps = (if sh then
          t.ps.filter (fun p => decide (p.t < a)) ++
            (t.ps.filter (fun p => decide (b < p.t))).map (fun p => ⟨p.t - (b - a), p.l⟩)
        else t.ps.filter (fun p => decide (p.t < a ∨ b < p.t))) := by
  cases sh with
  | false =>
    have h := perase_noshrink_eq t hwf a b hab
    exact ⟨_, h, C05.perase_wf t a b false _ h, rfl, rfl, rfl, rfl⟩
  | true =>
    obtain ⟨h1, h2⟩ := hin rfl
    have h := perase_shrink_eq t hwf a b hab h1 h2
    exact ⟨_, h, C05.perase_wf t a b true _ h, rfl, rfl, rfl, rfl⟩

/-- **any region** (no hypothesis on its position): the call succeeds, the result is well-formed, keeps name and span
start, and — shrinking — the span end decreases by exactly the length of the part of the region inside the span -/
theorem perase_span_any (t : PTier Int) (hwf : t.WF) (a b : Int) (hab : a < b) (sh : Bool) :
    ∃ t', t.eraseRegion a b sh = .ok t' ∧ t'.WF ∧ t'.name = t.name ∧ t'.lo = t.lo ∧
      t'.hi = (if sh then t.hi - max 0 (min b t.hi - max a t.lo) else t.hi) := by
  cases sh with
  | false =>
    have h := perase_noshrink_eq t hwf a b hab
    exact ⟨_, h, C05.perase_wf t a b false _ h, rfl, rfl, rfl⟩
  | true =>
    have h := perase_shrink_any t hwf a b hab
    by_cases hc : max a t.lo < min b t.hi
    · rw [if_pos hc] at h
      exact ⟨_, h, C05.perase_wf t a b true _ h, rfl, rfl, by simp only [if_true]; omega⟩
    · rw [if_neg hc] at h
      exact ⟨_, h, C05.perase_wf t a b true _ h, rfl, rfl, by simp only [if_true]; omega⟩

/-- the only refusal: a proper region is never refused, whatever its position relative to the span -/
theorem perase_ok_iff (t : PTier Int) (hwf : t.WF) (a b : Int) (sh : Bool) :
    (∃ t', t.eraseRegion a b sh = .ok t') ↔ a < b := by
  constructor
  · rintro ⟨t', h⟩
    apply Classical.byContradiction
    intro hn
    rw [perase_rejects t a b sh (by omega)] at h
    cases h
  · intro hab
    obtain ⟨t', h, _⟩ := perase_span_any t hwf a b hab sh
    exact ⟨t', h⟩

/-! ## one-to-one correspondence, counts, edges, collisions -/

theorem filterMap_pshrinkOne_of_outside (a b : Int) (l : List (Pt Int)) (h : ∀ p ∈ l, p.t < a ∨ b < p.t) :
    l.filterMap (pshrinkOne a b) = l.map (fun p => if p.t < a then p else ⟨p.t - (b - a), p.l⟩) := by
  induction l with
  | nil => rfl
  | cons p rest ih =>
    have hp := h p (by simp)
    rw [List.map_cons, ← ih (fun q hq => h q (List.mem_cons_of_mem _ hq))]
    by_cases h1 : p.t < a
    · simp [pshrinkOne, h1]
    · have h2 : b < p.t := by omega
      simp [pshrinkOne, h1, h2, shiftBack_eq]

/-- **order and labels kept**: the shrunk result is the un-shrunk result with every entry after the region moved —
same length, same order, same labels.  For ANY region `a < b` whose part `[a', b'] = [max a lo, min b hi]` inside the span
is not empty; the move is by `b' - a'` (for a region inside the span: `a' = a`, `b' = b`) -/
theorem perase_shrink_map (t : PTier Int) (hwf : t.WF) (a b : Int) (hab : a < b)
    (hne : max a t.lo < min b t.hi) (u u' : PTier Int)
    (hu : t.eraseRegion a b false = .ok u) (hu' : t.eraseRegion a b true = .ok u') :
    u'.ps = u.ps.map (fun p => if p.t < max a t.lo then p else ⟨p.t - (min b t.hi - max a t.lo), p.l⟩) ∧
    u'.ps.map (·.l) = u.ps.map (·.l) := by
  rw [perase_noshrink_eq t hwf a b hab] at hu
  rw [perase_shrink_any t hwf a b hab, if_pos hne] at hu'
  cases hu; cases hu'
  have key : pshrink (max a t.lo) (min b t.hi) t.ps =
      (t.ps.filter (fun p => decide (p.t < a ∨ b < p.t))).map
        (fun p => if p.t < max a t.lo then p else ⟨p.t - (min b t.hi - max a t.lo), p.l⟩) := by
    rw [← filterMap_pshrinkOne_eq _ _ hne t.ps hwf.sorted, ← filterMap_pshrinkOne_clip t hwf]
    apply filterMap_pshrinkOne_of_outside
    intro p hp
    have hm := List.mem_filter.1 hp
    have := hwf.inLo p hm.1; have := hwf.inHi p hm.1
    have h2 : p.t < a ∨ b < p.t := by simpa [outside] using hm.2
    omega
  refine ⟨key, ?_⟩
  simp only [key, List.map_map]
  apply List.map_congr_left
  intro p _
  simp only [Function.comp]
  split <;> rfl

/-- **no shrinking, multiset statement**: every point outside `[a, b]` keeps its multiplicity (several equal points at
one time all stay), every point inside — the edges `a` and `b` included — has multiplicity 0 afterwards -/
theorem perase_count_noshrink (t : PTier Int) (hwf : t.WF) (a b : Int) (hab : a < b) (u : PTier Int)
    (hu : t.eraseRegion a b false = .ok u) (x : Pt Int) :
    u.ps.count x = if x.t < a ∨ b < x.t then t.ps.count x else 0 := by
  rw [perase_noshrink_eq t hwf a b hab] at hu
  cases hu
  simp only
  split
  · rename_i h
    exact List.count_filter (by simpa using h)
  · rename_i h
    apply List.count_eq_zero.2
    intro hm
    exact h (by simpa using (List.mem_filter.1 hm).2)

theorem count_filter_if (q : Pt Int → Bool) (l : List (Pt Int)) (x : Pt Int) :
    (l.filter q).count x = if q x then l.count x else 0 := by
  split
  · rename_i h; exact List.count_filter h
  · rename_i h
    apply List.count_eq_zero.2
    intro hm
    exact h (List.mem_filter.1 hm).2

theorem count_map_shift (k : Int) (l : List (Pt Int)) (y : Pt Int) :
    (l.map (fun p => (⟨p.t - k, p.l⟩ : Pt Int))).count y = l.count ⟨y.t + k, y.l⟩ := by
  induction l with
  | nil => rfl
  | cons p rest ih =>
    rw [List.map_cons, List.count_cons, List.count_cons, ih]
    have : ((⟨p.t - k, p.l⟩ : Pt Int) == y) = (p == (⟨y.t + k, y.l⟩ : Pt Int)) := by
      obtain ⟨pt, pl⟩ := p
      obtain ⟨yt, yl⟩ := y
      rw [Bool.eq_iff_iff]
      simp only [beq_iff_eq, Pt.mk.injEq]
      constructor <;> rintro ⟨h1, h2⟩ <;> exact ⟨by omega, h2⟩
    rw [this]

/-- **shrinking, multiset statement** (ANY region `a < b` whose part `[a', b'] = [max a lo, min b hi]` inside the span is
not empty): a point before `a'` keeps its multiplicity; a point `y` after `a'` occurs exactly as often as
`⟨y.t + (b' - a'), y.l⟩` did in the tier (several equal points at one time after `b'` all move together); no point sits
exactly at `a'` -/
theorem perase_count_shrink (t : PTier Int) (hwf : t.WF) (a b : Int) (hab : a < b)
    (hne : max a t.lo < min b t.hi) (u' : PTier Int) (hu' : t.eraseRegion a b true = .ok u') (y : Pt Int) :
    u'.ps.count y =
      if y.t < max a t.lo then t.ps.count y
      else if max a t.lo < y.t then t.ps.count ⟨y.t + (min b t.hi - max a t.lo), y.l⟩ else 0 := by
  rw [perase_shrink_any t hwf a b hab, if_pos hne] at hu'
  cases hu'
  generalize max a t.lo = a' at *
  generalize min b t.hi = b' at *
  simp only [pshrink, List.count_append, count_map_shift, count_filter_if, decide_eq_true_eq]
  by_cases h1 : y.t < a'
  · have h2 : ¬ b' < y.t + (b' - a') := by omega
    simp [h1, h2]
  · by_cases h2 : a' < y.t
    · have h3 : b' < y.t + (b' - a') := by omega
      simp [h1, h2, h3]
    · have h3 : ¬ b' < y.t + (b' - a') := by omega
      simp [h1, h2, h3]

/-- **the edges / nothing remains in the region**, for ANY region `a < b`, shrinking or not: the points removed are
exactly those with `a ≤ t ≤ b` — the shrunk result carries the same labels in the same order as the un-shrunk one; without
shrinking no remaining point lies in `[a, b]`; with shrinking and an empty clipped region the result IS the un-shrunk one;
with shrinking and a non-empty clipped region `[a', b']` no point sits at `a'`, the time onto which `b'` is mapped -/
theorem perase_edges (t : PTier Int) (hwf : t.WF) (a b : Int) (hab : a < b) (u u' : PTier Int)
    (hu : t.eraseRegion a b false = .ok u) (hu' : t.eraseRegion a b true = .ok u') :
    (∀ p ∈ u.ps, p.t < a ∨ b < p.t) ∧
    u'.ps.map (·.l) = u.ps.map (·.l) ∧
    (min b t.hi ≤ max a t.lo → u' = u) ∧
    (max a t.lo < min b t.hi → ∀ p ∈ u'.ps, p.t < max a t.lo ∨ max a t.lo < p.t) := by
  refine ⟨?_, ?_, ?_, ?_⟩
  · intro p hp
    rw [perase_noshrink_eq t hwf a b hab] at hu
    cases hu
    simpa using (List.mem_filter.1 hp).2
  · by_cases hne : max a t.lo < min b t.hi
    · exact (perase_shrink_map t hwf a b hab hne u u' hu hu').2
    · rw [perase_shrink_outside t hwf a b hab (by omega), hu] at hu'
      cases hu'; rfl
  · intro hout
    rw [perase_shrink_outside t hwf a b hab hout, hu] at hu'
    cases hu'; rfl
  · intro hne p hp
    rw [perase_shrink_any t hwf a b hab, if_pos hne] at hu'
    cases hu'
    rcases pshrink_mem hp with ⟨_, h2⟩ | ⟨q, _, h2, rfl⟩
    · exact Or.inl h2
    · right; simp only; omega

/-- **no collision**: shrinking never makes a point from after `b` land on (or before) a point from before `a` — the
former stay strictly before `a`, the latter strictly after it; both are kept (see `perase_count_shrink`) -/
theorem perase_no_collision (a b : Int) (ps : List (Pt Int)) :
    ∀ x ∈ ps.filter (fun p => decide (p.t < a)),
    ∀ y ∈ (ps.filter (fun p => decide (b < p.t))).map (fun p => (⟨p.t - (b - a), p.l⟩ : Pt Int)),
      x.t < a ∧ a < y.t := by
  intro x hx y hy
  have h1 : x.t < a := by simpa using (List.mem_filter.1 hx).2
  obtain ⟨q, hq, rfl⟩ := List.mem_map.1 hy
  have h2 : b < q.t := by simpa using (List.mem_filter.1 hq).2
  exact ⟨h1, by simp only; omega⟩

/-- … and under ANY monotone rounding of `a + (t - b)` (layer R of `C07`): a moved point (`b ≤ t`) never lands on a point
that was before `a` — it cannot round to anything below `a` -/
theorem perase_no_collision_R {T : Type} [LE T] (R : RArith T) (a b x y : T) (hx : ¬ a ≤ x) (hy : b ≤ y) :
    shiftR R a b y ≠ x := by
  intro h
  exact hx (h ▸ shiftR_ge R a b y hy)

/-! ## why "inside the span" is needed for the span clause, and non-vacuity -/

/-- several points at one time, a duplicated entry, points on both sides -/
def exPts : PTier Int :=
  ⟨"P", [⟨1, "a"⟩, ⟨3, "b"⟩, ⟨3, "c"⟩, ⟨5, "d"⟩, ⟨5, "d"⟩, ⟨7, "e"⟩, ⟨9, "f"⟩], 0, 10⟩

theorem exPts_wf : exPts.WF := by
  refine ⟨?_, ?_, ?_, ?_, ?_⟩ <;> simp [exPts, Pt.le] <;> decide

/-- **regression of A28 — regions sticking out of, outside, or touching the span**: shrinking `[6, 15]` out of a tier
spanning `[0, 10]` cuts out `[6, 10]` only — the span end becomes `10 - 4 = 6` (before the fix: 5, the last remaining point,
while a textgrid computed 1); a region wholly before the span changes nothing (before the fix every point was moved to
before the old start); a region that only touches the span's end removes a point sitting exactly on that end — shrinking or
not — and moves nothing (the first version of the fix kept that point when shrinking); the same at the start of the span
(the same calls on the class return the same tiers) -/
theorem perase_shrink_outside_example :
    exPts.WF ∧
    exPts.eraseRegion 6 15 true = .ok ⟨"P", [⟨1, "a"⟩, ⟨3, "b"⟩, ⟨3, "c"⟩, ⟨5, "d"⟩, ⟨5, "d"⟩], 0, 6⟩ ∧
    exPts.eraseRegion (-7) (-2) true = .ok exPts ∧
    exPts.eraseRegion 9 15 true = .ok ⟨"P", [⟨1, "a"⟩, ⟨3, "b"⟩, ⟨3, "c"⟩, ⟨5, "d"⟩, ⟨5, "d"⟩, ⟨7, "e"⟩], 0, 9⟩ ∧
    (⟨"Q", [⟨0, "s"⟩, ⟨3, "p"⟩, ⟨10, "x"⟩], 0, 10⟩ : PTier Int).eraseRegion 10 15 true =
      .ok ⟨"Q", [⟨0, "s"⟩, ⟨3, "p"⟩], 0, 10⟩ ∧
    (⟨"Q", [⟨0, "s"⟩, ⟨3, "p"⟩, ⟨10, "x"⟩], 0, 10⟩ : PTier Int).eraseRegion 10 15 false =
      .ok ⟨"Q", [⟨0, "s"⟩, ⟨3, "p"⟩], 0, 10⟩ ∧
    (⟨"Q", [⟨0, "s"⟩, ⟨3, "p"⟩, ⟨10, "x"⟩], 0, 10⟩ : PTier Int).eraseRegion (-5) 0 true =
      .ok ⟨"Q", [⟨3, "p"⟩, ⟨10, "x"⟩], 0, 10⟩ := by
  have hq : (⟨"Q", [⟨0, "s"⟩, ⟨3, "p"⟩, ⟨10, "x"⟩], 0, 10⟩ : PTier Int).WF := by
    refine ⟨?_, ?_, ?_, ?_, ?_⟩ <;> simp [Pt.le] <;> decide
  refine ⟨exPts_wf, ?_, ?_, ?_, ?_, ?_, ?_⟩
  · rw [perase_shrink_any exPts exPts_wf 6 15 (by decide), if_pos (by decide)]
    rfl
  · rw [perase_shrink_any exPts exPts_wf (-7) (-2) (by decide), if_neg (by decide)]
    rfl
  · rw [perase_shrink_any exPts exPts_wf 9 15 (by decide), if_pos (by decide)]
    rfl
  · rw [perase_shrink_any _ hq 10 15 (by decide), if_neg (by decide)]
    rfl
  · rw [perase_noshrink_eq _ hq 10 15 (by decide)]
    rfl
  · rw [perase_shrink_any _ hq (-5) 0 (by decide), if_neg (by decide)]
    rfl

/-- the hypotheses of `perase_spec` are met (proved, not evaluated): edges on points, duplicates inside and outside -/
example : exPts.eraseRegion 3 7 true = .ok ⟨"P", [⟨1, "a"⟩, ⟨5, "f"⟩], 0, 6⟩ := by
  rw [perase_shrink_eq exPts exPts_wf 3 7 (by decide) (by decide) (by decide)]
  rfl

example : exPts.eraseRegion 0 3 true = .ok ⟨"P", [⟨2, "d"⟩, ⟨2, "d"⟩, ⟨4, "e"⟩, ⟨6, "f"⟩], 0, 7⟩ := by
  rw [perase_shrink_eq exPts exPts_wf 0 3 (by decide) (by decide) (by decide)]
  rfl

example : exPts.eraseRegion 6 15 false = .ok ⟨"P", [⟨1, "a"⟩, ⟨3, "b"⟩, ⟨3, "c"⟩, ⟨5, "d"⟩, ⟨5, "d"⟩], 0, 10⟩ := by
  rw [perase_noshrink_eq exPts exPts_wf 6 15 (by decide)]
  rfl

-- evaluated illustrations (interpreter tests, not proofs); the same calls on the class give the same tiers
#guard (exPts.eraseRegion 3 7 false).toOption.map (fun t => (t.ps, t.lo, t.hi)) == some ([⟨1, "a"⟩, ⟨9, "f"⟩], 0, 10)
#guard (exPts.eraseRegion 2 6 true).toOption.map (fun t => (t.ps, t.lo, t.hi)) ==
  some ([⟨1, "a"⟩, ⟨3, "e"⟩, ⟨5, "f"⟩], 0, 6)
#guard (exPts.eraseRegion 0 10 true).toOption.map (fun t => (t.ps, t.lo, t.hi)) == some ([], 0, 0)
#guard (exPts.eraseRegion 7 10 true).toOption.map (fun t => (t.ps, t.lo, t.hi)) ==
  some ([⟨1, "a"⟩, ⟨3, "b"⟩, ⟨3, "c"⟩, ⟨5, "d"⟩, ⟨5, "d"⟩], 0, 7)
#guard (exPts.eraseRegion (-5) 4 true).toOption.map (fun t => (t.ps, t.lo, t.hi)) ==
  some ([⟨1, "d"⟩, ⟨1, "d"⟩, ⟨3, "e"⟩, ⟨5, "f"⟩], 0, 6)
#guard (exPts.eraseRegion 12 15 true).toOption.map (fun t => (t.ps.length, t.lo, t.hi)) == some (7, 0, 10)
#guard (exPts.eraseRegion (-5) 15 true).toOption.map (fun t => (t.ps, t.lo, t.hi)) == some ([], 0, 0)
#guard (match exPts.eraseRegion 3 3 true with | .error .ArgumentError => true | _ => false)

end C07
