/-! # C01 — property theorems (to be filled) -/
