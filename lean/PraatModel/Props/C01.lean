import PraatModel.Quote
import PraatModel.Save
import PraatModel.Lemmas.Strip

/-!
# C01 — field-level codecs of the TextGrid text formats (the part of the round trip that is about ALL labels)

Whole-file round trip is tied to the code by the correspondence run (emitted text and parse result compared byte
for byte with the Lean emitters / parsers) and, for the short format, PROVED for every textgrid in Props/C01Full.lean
(`C01.parseShort_emit`); what is proved here holds for every label, of any length:
quote doubling is inverted by both readers, for labels full of quotes, runs of quotes at either end, newlines.
-/
namespace C01

theorem unescape_escape (s : List Char) : unescapeL (escapeL s) = s := by
  induction s with
  | nil => simp [escapeL, unescapeL]
  | cons c cs ih =>
    by_cases hc : c = q
    · simp [escapeL, hc, unescapeL, ih]
    · cases h : escapeL cs with
      | nil => simp [escapeL, hc, unescapeL, h] at *; exact ih
      | cons d ds => simp [escapeL, hc, unescapeL, h] at *; exact ih

/-- invariant of the `_fetchTextRow` machine while it reads a doubled-quote text: it is either between runs or
inside a run of even length -/
def EvenState : Option Nat → Prop
  | none => True
  | some k => k % 2 = 0

/-- **praatio's text reader on a written label**: for EVERY label `s` (quotes, runs of quotes at either end, newlines,
the empty label), reading `escape s ++ '"' ++ r ++ …` with `r` any character but a quote stops exactly after the
closing quote -/
theorem scanText_written (s : List Char) (r : Char) (rest : List Char) (hr : r ≠ q)
    (st : Option Nat) (hst : EvenState st) (n : Nat) :
    scanText st n (escapeL s ++ q :: r :: rest) = .ok (n + (escapeL s).length + 1) := by
  induction s generalizing st n with
  | nil =>
    cases st with
    | none => simp [escapeL, scanText, hr]
    | some k =>
      simp only [EvenState] at hst
      have : (k + 1) % 2 = 1 := by omega
      simp [escapeL, scanText, hr, this]
  | cons c cs ih =>
    by_cases hc : c = q
    · subst hc
      cases st with
      | none =>
        simp only [escapeL, if_true, List.cons_append, scanText]
        rw [ih (some 2) (by simp [EvenState]) (n + 1 + 1)]
        simp only [List.length_cons]; congr 1; omega
      | some k =>
        simp only [EvenState] at hst
        simp only [escapeL, if_true, List.cons_append, scanText]
        rw [ih (some (k + 1 + 1)) (by simp only [EvenState]; omega) (n + 1 + 1)]
        simp only [List.length_cons]; congr 1; omega
    · cases st with
      | none =>
        simp only [escapeL, hc, if_false, List.cons_append, scanText]
        rw [ih none trivial (n + 1)]
        simp only [List.length_cons]; congr 1; omega
      | some k =>
        simp only [EvenState] at hst
        have : ¬ k % 2 = 1 := by omega
        simp only [escapeL, hc, if_false, List.cons_append, scanText, this]
        rw [ih none trivial (n + 1)]
        simp only [List.length_cons]; congr 1; omega

/-- the independent (spec) reader's text token recovers every label -/
theorem specText_written (s : List Char) (r : Char) (rest : List Char) (hr : r ≠ q) :
    specText (escapeL s ++ q :: r :: rest) = some (s, r :: rest) := by
  induction s with
  | nil => simp [escapeL, specText, hr]
  | cons c cs ih =>
    by_cases hc : c = q
    · subst hc
      simp only [escapeL, if_true, List.cons_append, specText]
      rw [ih]; rfl
    · simp only [escapeL, hc, if_false, List.cons_append]
      unfold specText
      simp only [hc, if_false, ih, Option.map_some]

theorem specText_written_eof (s : List Char) : specText (escapeL s ++ [q]) = some (s, []) := by
  induction s with
  | nil => simp [escapeL, specText]
  | cons c cs ih =>
    by_cases hc : c = q
    · subst hc
      simp only [escapeL, if_true, List.cons_append, specText]
      rw [ih]; rfl
    · simp only [escapeL, hc, if_false, List.cons_append]
      unfold specText
      simp only [hc, if_false, ih, Option.map_some]

theorem q_not_space : pyIsSpace q = false := by decide

theorem escapeL_ne_nil (a : Char) (as : List Char) : escapeL (a :: as) ≠ [] := by
  by_cases h : a = q <;> simp [escapeL, h]

theorem getLast?_cons_ne {β : Type} (x : β) {l : List β} (h : l ≠ []) : (x :: l).getLast? = l.getLast? := by
  cases l with
  | nil => exact absurd rfl h
  | cons y ys => rw [List.getLast?_cons_cons]

theorem escapeL_getLast? (l : List Char) : (escapeL l).getLast? = l.getLast? := by
  induction l with
  | nil => rfl
  | cons a as ih =>
    cases as with
    | nil =>
      by_cases ha : a = q
      · subst ha; simp [escapeL]
      · simp [escapeL, ha]
    | cons b bs =>
      have hne := escapeL_ne_nil b bs
      rw [List.getLast?_cons_cons, ← ih]
      by_cases ha : a = q
      · rw [show escapeL (a :: b :: bs) = q :: q :: escapeL (b :: bs) by simp [escapeL, ha]]
        rw [getLast?_cons_ne _ (by simp), getLast?_cons_ne _ hne]
      · rw [show escapeL (a :: b :: bs) = a :: escapeL (b :: bs) by simp [escapeL, ha]]
        rw [getLast?_cons_ne _ hne]

theorem noEdge_escape (s : List Char) (h : NoEdgeSpace s) : NoEdgeSpace (escapeL s) := by
  constructor
  · intro c rest hc
    cases s with
    | nil => simp [escapeL] at hc
    | cons a as =>
      by_cases ha : a = q
      · simp only [escapeL, ha, if_true, List.cons.injEq] at hc; rw [← hc.1]; exact q_not_space
      · simp only [escapeL, ha, if_false, List.cons.injEq] at hc; rw [← hc.1]; exact h.1 a as rfl
  · intro c hc
    rw [escapeL_getLast?] at hc
    exact h.2 c hc

/-- what `_fetchTextRow` makes of the characters between the outer quotes: `.strip()` then un-doubling gives back the
label, for every stripped label -/
theorem word_written (s : List Char) (h : NoEdgeSpace s) : unescapeL (stripList (escapeL s)) = s := by
  rw [stripList_of_noEdge _ (noEdge_escape s h), unescape_escape]

/-! ## numbers: the decision part of `numToStr` -/

/-- what the proofs need from CPython's `repr` / `"%d"` / `float()` / `int()` (DESIGN §2.2; sampled on every run) -/
structure NumCodec where
  reprOf : Int → String
  intOf : Int → String
  parse : String → Option Int
  trunc : Int → Int
  parse_repr : ∀ x, parse (reprOf x) = some x
  parse_int : ∀ x, parse (intOf x) = some (trunc x)

/-- a written time is read back as itself, or as the integer it is within 1e-14 (relative) of — and only then -/
theorem numToStr_decision (C : NumCodec) (x : Int) :
    C.parse (numToStr C.trunc C.reprOf C.intOf x) = some x ∨
    (Tm.close14 x (C.trunc x) = true ∧ C.parse (numToStr C.trunc C.reprOf C.intOf x) = some (C.trunc x)) := by
  unfold numToStr
  by_cases h : Tm.close14 x (C.trunc x) = true
  · right; simp [h, C.parse_int]
  · left; simp [h, C.parse_repr]

/-- non-vacuity: a (unary) numeral system satisfies the codec laws, with `trunc = id` -/
def unary (x : Int) : String := String.ofList ((if x < 0 then ['-'] else []) ++ List.replicate x.natAbs '1')
def unaryParse (s : String) : Option Int :=
  if s.toList.head? = some '-' then some (-((s.toList.length : Int) - 1)) else some (s.toList.length : Int)

theorem unaryParse_unary (x : Int) : unaryParse (unary x) = some x := by
  unfold unaryParse unary
  rw [String.toList_ofList]
  by_cases h : x < 0
  · simp only [h, if_true, List.cons_append, List.nil_append, List.head?_cons, List.length_cons, List.length_replicate,
      Option.some.injEq]
    omega
  · have hh : (List.replicate x.natAbs '1').head? ≠ some '-' := by
      cases x.natAbs with
      | zero => simp
      | succ k => simp [List.replicate]
    simp only [h, if_false, List.nil_append, hh, List.length_replicate, Option.some.injEq]
    omega

def natCodec : NumCodec where
  reprOf := unary
  intOf := unary
  parse := unaryParse
  trunc x := x
  parse_repr := unaryParse_unary
  parse_int := unaryParse_unary

#guard (scanText none 0 ("a\"\"b\"\"\" \nrest".toList)).toOption == some 7
#guard specText ("a\"\"b\"\"\" \nrest".toList) == some ("a\"b\"".toList, " \nrest".toList)

end C01
