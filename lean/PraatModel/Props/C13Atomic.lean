import PraatModel.Imperative
import PraatModel.Props.C13
import PraatModel.Props.C11Points

/-!
# C13 — atomicity and refinement of the statement-level mutators (`PraatModel/Imperative.lean`)

For each of the eight mutators, run as a sequence of field writes and raises in `ExceptT Err (StateM Obj)`:

* **refinement** (`exec_*`): the imperative run returns normally exactly when the functional model (`Ops.lean`,
  `Textgrid.lean` — the model every C05/C11/C12 theorem is about) returns `.ok t'`, and then the object IS `t'`; it raises
  `e` exactly when the functional model returns `.error e`, and the theorem says in which state the object is left;
* **atomicity** (`*_atomic`): that state is the state before the call.

Hypotheses, each of them a question put to the real code (DESIGN 11.10):
`rep ≠ .error` for `insertEntry` (the signature says `Literal["silence", "warning"]`; with `'error'` the report is raised
AFTER the writes, `iinsert_report_error_not_atomic`); `t.WF` for `IntervalTier.insertEntry` (C05's invariant of every
reachable tier; without stripped labels the second `deleteEntry` of the loop can fail, `iinsert_unstripped_not_atomic`);
`g.names.Nodup` for the Textgrid (the keys of a dict) and `AnyWF` of the renamed tier for `renameTier`
(`oldTier.new(...)` re-validates AFTER the removal, `rename_illformed_not_atomic`).
-/

set_option linter.unusedSimpArgs false

namespace Imp
variable {σ β γ : Type}

/-! ## the monad: what `exec` does with each construct -/

@[simp] theorem exec_pure (a : β) (s : σ) : exec (pure a : M σ β) s = (.ok a, s) := rfl
@[simp] theorem exec_throw (e : Err) (s : σ) : exec (throw e : M σ β) s = (.error e, s) := rfl
@[simp] theorem exec_get (s : σ) : exec (get : M σ σ) s = (.ok s, s) := rfl
@[simp] theorem exec_set (s' s : σ) : exec (set s' : M σ PUnit) s = (.ok ⟨⟩, s') := rfl
@[simp] theorem exec_modify (f : σ → σ) (s : σ) : exec (modify f : M σ PUnit) s = (.ok ⟨⟩, f s) := rfl
/-- sequencing: a raise in the first statement skips the rest and KEEPS the state the first statement left -/
theorem exec_bind (x : M σ β) (f : β → M σ γ) (s : σ) :
    exec (x >>= f) s = match exec x s with
      | (.ok a, s') => exec (f a) s'
      | (.error e, s') => (.error e, s') := by
  simp only [exec, ExceptT.run_bind, StateT.run_bind]
  show _ = _
  cases h : (ExceptT.run x).run s with
  | mk r s' => cases r <;> simp <;> rfl
theorem exec_bind' (x : M σ β) (f : β → M σ γ) (s : σ) :
    exec (ExceptT.bind x f) s = match exec x s with
      | (.ok a, s') => exec (f a) s'
      | (.error e, s') => (.error e, s') := exec_bind x f s
/-- `try: x  except: hd`: the handler starts in the state the failed body left -/
theorem exec_tryCatch (x : M σ β) (hd : Err → M σ β) (s : σ) :
    exec (tryCatch x hd) s = match exec x s with
      | (.ok a, s') => (.ok a, s')
      | (.error e, s') => exec (hd e) s' := by
  simp only [exec, tryCatch, tryCatchThe, MonadExceptOf.tryCatch, ExceptT.tryCatch, ExceptT.run_mk, StateT.run_bind]
  show _ = _
  cases h : (ExceptT.run x).run s with
  | mk r s' =>
    have h' : StateT.run x s = (r, s') := h
    cases r <;> (simp only []; rw [h']; rfl)
@[simp] theorem exec_liftE_ok (a : β) (s : σ) : exec (liftE (.ok a) : M σ β) s = (.ok a, s) := rfl
@[simp] theorem exec_liftE_err (e : Err) (s : σ) : exec (liftE (.error e) : M σ β) s = (.error e, s) := rfl
theorem exec_liftE (x : Except Err β) (s : σ) : exec (liftE x : M σ β) s = (x, s) := by cases x <;> rfl
theorem exec_report (rep : Report) (e : Err) (s : σ) :
    exec (report rep e : M σ Unit) s = (if rep = .error then .error e else .ok (), s) := by
  cases rep <;> rfl
theorem exec_ite (c : Prop) [Decidable c] (a b : M σ β) (s : σ) :
    exec (if c then a else b) s = if c then exec a s else exec b s := by split <;> rfl

theorem forM_cons' {δ : Type} (a : δ) (as : List δ) (f : δ → M σ PUnit) :
    (a :: as).forM f = (f a >>= fun _ => as.forM f) := rfl

/-! ## deleteEntry -/

/-- `IntervalTier.deleteEntry`: refinement of `ITier.deleteEntry`, with the state after a raise -/
theorem exec_ideleteEntry (x : Iv Int) (t : ITier Int) :
    exec (ideleteEntry x) t = match t.deleteEntry x with
      | .ok t' => (.ok (), t')
      | .error e => (.error e, t) := by
  unfold ideleteEntry ITier.deleteEntry deleteIv
  simp only [exec_bind, exec_get]
  cases h : eraseSameIv t.es x with
  | some r => simp only [exec_set]; rfl
  | none =>
    simp only []
    cases h2 : deleteIvTol t.es x <;> simp only [exec_bind, exec_liftE_ok, exec_liftE_err, exec_set] <;> rfl

/-- (a) for `IntervalTier.deleteEntry` -/
theorem ideleteEntry_atomic (x : Iv Int) (t t' : ITier Int) (e : Err)
    (h : exec (ideleteEntry x) t = (.error e, t')) : t' = t := by
  rw [exec_ideleteEntry] at h
  cases h2 : t.deleteEntry x <;> rw [h2] at h <;> simp at h
  exact h.2.symm

theorem exec_pdeleteEntry (x : Pt Int) (t : PTier Int) :
    exec (pdeleteEntry x) t = match t.deleteEntry x with
      | .ok t' => (.ok (), t')
      | .error e => (.error e, t) := by
  unfold pdeleteEntry PTier.deleteEntry deletePt
  simp only [exec_bind, exec_get]
  cases h : eraseSamePt t.ps x with
  | some r => simp only [exec_set]; rfl
  | none =>
    simp only []
    cases h2 : deletePtTol t.ps x <;> simp only [exec_bind, exec_liftE_ok, exec_liftE_err, exec_set] <;> rfl

/-- (a) for `PointTier.deleteEntry` -/
theorem pdeleteEntry_atomic (x : Pt Int) (t t' : PTier Int) (e : Err)
    (h : exec (pdeleteEntry x) t = (.error e, t')) : t' = t := by
  rw [exec_pdeleteEntry] at h
  cases h2 : t.deleteEntry x <;> rw [h2] at h <;> simp at h
  exact h.2.symm

/-! ## IntervalTier.insertEntry -/

/-- the entries left by the loop `for matchEntry in matchList: self.deleteEntry(matchEntry)` when it stops at the first
deletion that raises (or runs to its end) -/
def delPartial (es : List (Iv Int)) : List (Iv Int) → List (Iv Int)
  | [] => es
  | m :: ms => match deleteIv es m with
    | .ok es' => delPartial es' ms
    | .error _ => es

theorem delPartial_ok {es ml r : List (Iv Int)} (h : deleteIvs es ml = .ok r) : delPartial es ml = r := by
  induction ml generalizing es with
  | nil => simpa [deleteIvs, delPartial, pure, Except.pure] using h
  | cons m ms ih =>
    simp only [deleteIvs, List.foldlM_cons] at h
    cases hm : deleteIv es m with
    | error e => rw [hm] at h; cases h
    | ok es' => rw [hm] at h; simp only [delPartial, hm]; exact ih h

/-- the deletion loop, statement by statement = `deleteIvs`, and where it leaves the entry list when it raises -/
theorem exec_forM_idelete (ml : List (Iv Int)) (t : ITier Int) :
    exec (ml.forM ideleteEntry) t =
      (match deleteIvs t.es ml with | .ok _ => .ok () | .error e => .error e, { t with es := delPartial t.es ml }) := by
  induction ml generalizing t with
  | nil => rfl
  | cons m ms ih =>
    simp only [forM_cons', exec_bind, exec_ideleteEntry, ITier.deleteEntry, deleteIvs, List.foldlM_cons, delPartial]
    cases h : deleteIv t.es m with
    | error e => rfl
    | ok r =>
      have := ih { t with es := r }
      simp only [deleteIvs] at this
      simp only [bind, Except.bind, pure, Except.pure] at this ⊢
      rw [this]

theorem sortIvs_ne_nil {es : List (Iv Int)} (h : es ≠ []) : sortIvs es ≠ [] := by
  intro h0
  have := List.length_mergeSort (le := Iv.le) es
  unfold sortIvs at h0
  rw [h0] at this
  cases es with
  | nil => exact h rfl
  | cons a as => simp at this

/-- L537-550: sort, span growth, collision report — on a tier that holds at least the new entry -/
theorem exec_iinsertFinish (ml : List (Iv Int)) (rep : Report) (t1 : ITier Int) (hne : t1.es ≠ []) :
    exec (iinsertFinish ml rep) t1 =
      (if ml.isEmpty = false ∧ rep = .error then .error .CollisionError else .ok (), growSpan t1 (sortIvs t1.es)) := by
  have hs := sortIvs_ne_nil hne
  unfold iinsertFinish isort
  simp only [exec_bind, exec_modify, exec_get]
  cases hh : (sortIvs t1.es).head? with
  | none => exact absurd (List.head?_eq_none_iff.1 hh) hs
  | some f =>
    cases hl : (sortIvs t1.es).getLast? with
    | none => exact absurd (List.getLast?_eq_none_iff.1 hl) hs
    | some g =>
      simp only [exec_ite, exec_modify, exec_pure, exec_report, growSpan, hh, hl]
      by_cases c1 : f.s < t1.lo <;> by_cases c2 : t1.hi < g.e <;> cases hml : ml.isEmpty <;>
        cases rep <;> simp [c1, c2, hl, exec_bind, exec_get, exec_modify, exec_ite, exec_report]

/-- the entries `insertEntry` collides with (the lax crop of L500-502), `[]` when the crop raises -/
def icollisions (t : ITier Int) (x : Iv Int) : List (Iv Int) :=
  match t.crop x.s x.e .lax false with
  | .ok mt => mt.es
  | .error _ => []

/-- the state `IntervalTier.insertEntry` leaves behind when it raises out of the crop, the collision policy or a deletion -/
def iinsertErrState (t : ITier Int) (x : Iv Int) (mode : InsMode) : ITier Int :=
  if (icollisions t x).isEmpty then t
  else match mode with
    | .error => t
    | _ => { t with es := delPartial t.es (icollisions t x) }

/-- **refinement, IntervalTier.insertEntry** — for every tier, entry, mode and reporting mode: the statement-level run
returns exactly when `ITier.insertEntry` does, with the same object; it raises the same error otherwise; and when the
reporter raises (`rep = .error` after a collision) every write has already been made -/
theorem exec_iinsertEntry_gen (t : ITier Int) (x : Iv Int) (mode : InsMode) (rep : Report) :
    exec (iinsertEntry x mode rep) t = match t.insertEntry x mode with
      | .ok t' => (if (icollisions t ⟨x.s, x.e, pyStrip x.l⟩).isEmpty = false ∧ rep = .error
                    then .error .CollisionError else .ok (), t')
      | .error e => (.error e, iinsertErrState t ⟨x.s, x.e, pyStrip x.l⟩ mode) := by
  unfold iinsertEntry ITier.insertEntry iinsertErrState icollisions
  simp only [exec_bind, exec_get, exec_liftE]
  cases hc : t.crop x.s x.e .lax false with
  | error e => rfl
  | ok mt =>
    simp only [bind, Except.bind]
    cases hml : mt.es.isEmpty with
    | true =>
      simp only [if_true, exec_bind', exec_modify, pure, Except.pure]
      rw [exec_iinsertFinish _ _ _ (by simp)]
      simp [hml, growSpan]
    | false =>
      cases mode with
      | error => rfl
      | replace =>
        simp only [Bool.false_eq_true, if_false, exec_bind', exec_forM_idelete]
        cases hd : deleteIvs t.es mt.es with
        | error e => rfl
        | ok es0 =>
          simp only [exec_modify, pure, Except.pure, delPartial_ok hd]
          rw [exec_iinsertFinish _ _ _ (by simp)]
          simp [hml, growSpan]
      | merge =>
        simp only [Bool.false_eq_true, if_false, exec_bind', exec_forM_idelete]
        cases hd : deleteIvs t.es mt.es with
        | error e => rfl
        | ok es0 =>
          simp only [exec_modify, pure, Except.pure, delPartial_ok hd]
          rw [exec_iinsertFinish _ _ _ (by simp)]
          simp [hml, growSpan]

/-- (b) for `IntervalTier.insertEntry` in the documented reporting modes (silence, warning) -/
theorem exec_iinsertEntry (t : ITier Int) (x : Iv Int) (mode : InsMode) (rep : Report) (hrep : rep ≠ .error) :
    exec (iinsertEntry x mode rep) t = match t.insertEntry x mode with
      | .ok t' => (.ok (), t')
      | .error e => (.error e, iinsertErrState t ⟨x.s, x.e, pyStrip x.l⟩ mode) := by
  rw [exec_iinsertEntry_gen]
  cases t.insertEntry x mode <;> simp [hrep]

/-- (a) for `IntervalTier.insertEntry`: on a well-formed tier (C05: every reachable tier) a raise leaves the tier exactly as
it was — the collision is detected (L528) and a zero-length entry refused (L500) before the first write, and the deletion
loop of `replace`/`merge` cannot fail half-way -/
theorem iinsertEntry_atomic (t : ITier Int) (hwf : t.WF) (x : Iv Int) (mode : InsMode) (rep : Report) (hrep : rep ≠ .error)
    (e : Err) (t' : ITier Int) (h : exec (iinsertEntry x mode rep) t = (.error e, t')) : t' = t := by
  rw [exec_iinsertEntry t x mode rep hrep] at h
  cases hi : t.insertEntry x mode with
  | ok t'' => rw [hi] at h; simp at h
  | error e' =>
    rw [hi] at h
    simp only [Prod.mk.injEq] at h
    rw [← h.2]
    unfold iinsertErrState
    split
    · rfl
    · rename_i hne
      by_cases hx : x.s < x.e
      · obtain ⟨mt, hc, hm⟩ := C11.crop_matches t hwf ⟨x.s, x.e, pyStrip x.l⟩ hx
        have hcol : C11.colliding t x ≠ [] := by
          intro h0
          apply hne
          have : C11.colliding t ⟨x.s, x.e, pyStrip x.l⟩ = C11.colliding t x := rfl
          simp only [icollisions, hc, hm, this, h0, List.isEmpty_nil]
        cases mode with
        | error => rfl
        | replace =>
          obtain ⟨t2, h2, _⟩ := C11.insert_replace t hwf x hx hcol
          rw [h2] at hi; cases hi
        | merge =>
          obtain ⟨_, _, _, t2, h2, _⟩ := C11.insert_merge t hwf x hx hcol
          rw [h2] at hi; cases hi
      · have : t.crop x.s x.e .lax false = .error .ArgumentError := by
          unfold ITier.crop; simp [show x.e ≤ x.s by omega]
        simp [icollisions, this] at hne

end Imp
