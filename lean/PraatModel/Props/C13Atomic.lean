import PraatModel.Imperative
import PraatModel.Props.C13
import PraatModel.Props.C11Points

/-!
# C13 — atomicity and refinement of the statement-level mutators (`PraatModel/Imperative.lean`)

For each of the eight mutators, run as a sequence of field writes and raises in `ExceptT Err (StateM Obj)`:

* **refinement** (`exec_*`): the imperative run returns normally exactly when the functional model (`Ops.lean`,
  `Textgrid.lean` — the model every C05/C11/C12 theorem is about) returns `.ok t'`, and then the object IS `t'`; it raises
  `e` exactly when the functional model returns `.error e`, and the theorem says in which state the object is left;
* **atomicity** (`*_atomic`): that state is the state before the call.

Hypotheses, each of them a question put to the real code (DESIGN 11.10):
`rep ≠ .error` for `insertEntry` (the signature says `Literal["silence", "warning"]`; with `'error'` the report is raised
AFTER the writes, `iinsert_report_error_not_atomic`); `t.WF` for `IntervalTier.insertEntry` (C05's invariant of every
reachable tier; without stripped labels the second `deleteEntry` of the loop can fail, `iinsert_unstripped_not_atomic`);
`g.names.Nodup` for the Textgrid (the keys of a dict) and `AnyWF` of the renamed tier for `renameTier`
(`oldTier.new(...)` re-validates AFTER the removal, `rename_illformed_not_atomic`).
-/

set_option linter.unusedSimpArgs false

namespace Imp
variable {σ β γ : Type}

/-! ## the monad: what `exec` does with each construct -/

@[simp] theorem exec_pure (a : β) (s : σ) : exec (pure a : M σ β) s = (.ok a, s) := rfl
@[simp] theorem exec_throw (e : Err) (s : σ) : exec (throw e : M σ β) s = (.error e, s) := rfl
@[simp] theorem exec_get (s : σ) : exec (get : M σ σ) s = (.ok s, s) := rfl
@[simp] theorem exec_set (s' s : σ) : exec (set s' : M σ PUnit) s = (.ok ⟨⟩, s') := rfl
@[simp] theorem exec_modify (f : σ → σ) (s : σ) : exec (modify f : M σ PUnit) s = (.ok ⟨⟩, f s) := rfl
/-- sequencing: a raise in the first statement skips the rest and KEEPS the state the first statement left -/
theorem exec_bind (x : M σ β) (f : β → M σ γ) (s : σ) :
    exec (x >>= f) s = match exec x s with
      | (.ok a, s') => exec (f a) s'
      | (.error e, s') => (.error e, s') := by
  simp only [exec, ExceptT.run_bind, StateT.run_bind]
  show _ = _
  cases h : (ExceptT.run x).run s with
  | mk r s' => cases r <;> simp <;> rfl
theorem exec_bind' (x : M σ β) (f : β → M σ γ) (s : σ) :
    exec (ExceptT.bind x f) s = match exec x s with
      | (.ok a, s') => exec (f a) s'
      | (.error e, s') => (.error e, s') := exec_bind x f s
/-- `try: x  except: hd`: the handler starts in the state the failed body left -/
theorem exec_tryCatch (x : M σ β) (hd : Err → M σ β) (s : σ) :
    exec (tryCatch x hd) s = match exec x s with
      | (.ok a, s') => (.ok a, s')
      | (.error e, s') => exec (hd e) s' := by
  simp only [exec, tryCatch, tryCatchThe, MonadExceptOf.tryCatch, ExceptT.tryCatch, ExceptT.run_mk, StateT.run_bind]
  show _ = _
  cases h : (ExceptT.run x).run s with
  | mk r s' =>
    have h' : StateT.run x s = (r, s') := h
    cases r <;> (simp only []; rw [h']; rfl)
@[simp] theorem exec_liftE_ok (a : β) (s : σ) : exec (liftE (.ok a) : M σ β) s = (.ok a, s) := rfl
@[simp] theorem exec_liftE_err (e : Err) (s : σ) : exec (liftE (.error e) : M σ β) s = (.error e, s) := rfl
theorem exec_liftE (x : Except Err β) (s : σ) : exec (liftE x : M σ β) s = (x, s) := by cases x <;> rfl
theorem exec_report (rep : Report) (e : Err) (s : σ) :
    exec (report rep e : M σ Unit) s = (if rep = .error then .error e else .ok (), s) := by
  cases rep <;> rfl
theorem exec_ite (c : Prop) [Decidable c] (a b : M σ β) (s : σ) :
    exec (if c then a else b) s = if c then exec a s else exec b s := by split <;> rfl

theorem forM_cons' {δ : Type} (a : δ) (as : List δ) (f : δ → M σ PUnit) :
    (a :: as).forM f = (f a >>= fun _ => as.forM f) := rfl

/-! ## deleteEntry -/

/-- `IntervalTier.deleteEntry`: refinement of `ITier.deleteEntry`, with the state after a raise -/
theorem exec_ideleteEntry (x : Iv Int) (t : ITier Int) :
    exec (ideleteEntry x) t = match t.deleteEntry x with
      | .ok t' => (.ok (), t')
      | .error e => (.error e, t) := by
  unfold ideleteEntry ITier.deleteEntry deleteIv
  simp only [exec_bind, exec_get]
  cases h : eraseSameIv t.es x with
  | some r => simp only [exec_set]; rfl
  | none =>
    simp only []
    cases h2 : deleteIvTol t.es x <;> simp only [exec_bind, exec_liftE_ok, exec_liftE_err, exec_set] <;> rfl

/-- (a) for `IntervalTier.deleteEntry` -/
theorem ideleteEntry_atomic (x : Iv Int) (t t' : ITier Int) (e : Err)
    (h : exec (ideleteEntry x) t = (.error e, t')) : t' = t := by
  rw [exec_ideleteEntry] at h
  cases h2 : t.deleteEntry x <;> rw [h2] at h <;> simp at h
  exact h.2.symm

theorem exec_pdeleteEntry (x : Pt Int) (t : PTier Int) :
    exec (pdeleteEntry x) t = match t.deleteEntry x with
      | .ok t' => (.ok (), t')
      | .error e => (.error e, t) := by
  unfold pdeleteEntry PTier.deleteEntry deletePt
  simp only [exec_bind, exec_get]
  cases h : eraseSamePt t.ps x with
  | some r => simp only [exec_set]; rfl
  | none =>
    simp only []
    cases h2 : deletePtTol t.ps x <;> simp only [exec_bind, exec_liftE_ok, exec_liftE_err, exec_set] <;> rfl

/-- (a) for `PointTier.deleteEntry` -/
theorem pdeleteEntry_atomic (x : Pt Int) (t t' : PTier Int) (e : Err)
    (h : exec (pdeleteEntry x) t = (.error e, t')) : t' = t := by
  rw [exec_pdeleteEntry] at h
  cases h2 : t.deleteEntry x <;> rw [h2] at h <;> simp at h
  exact h.2.symm

/-! ## IntervalTier.insertEntry -/

/-- the entries left by the loop `for matchEntry in matchList: self.deleteEntry(matchEntry)` when it stops at the first
deletion that raises (or runs to its end) -/
def delPartial (es : List (Iv Int)) : List (Iv Int) → List (Iv Int)
  | [] => es
  | m :: ms => match deleteIv es m with
    | .ok es' => delPartial es' ms
    | .error _ => es

theorem delPartial_ok {es ml r : List (Iv Int)} (h : deleteIvs es ml = .ok r) : delPartial es ml = r := by
  induction ml generalizing es with
  | nil => simpa [deleteIvs, delPartial, pure, Except.pure] using h
  | cons m ms ih =>
    simp only [deleteIvs, List.foldlM_cons] at h
    cases hm : deleteIv es m with
    | error e => rw [hm] at h; cases h
    | ok es' => rw [hm] at h; simp only [delPartial, hm]; exact ih h

/-- the deletion loop, statement by statement = `deleteIvs`, and where it leaves the entry list when it raises -/
theorem exec_forM_idelete (ml : List (Iv Int)) (t : ITier Int) :
    exec (ml.forM ideleteEntry) t =
      (match deleteIvs t.es ml with | .ok _ => .ok () | .error e => .error e, { t with es := delPartial t.es ml }) := by
  induction ml generalizing t with
  | nil => rfl
  | cons m ms ih =>
    simp only [forM_cons', exec_bind, exec_ideleteEntry, ITier.deleteEntry, deleteIvs, List.foldlM_cons, delPartial]
    cases h : deleteIv t.es m with
    | error e => rfl
    | ok r =>
      have := ih { t with es := r }
      simp only [deleteIvs] at this
      simp only [bind, Except.bind, pure, Except.pure] at this ⊢
      rw [this]

theorem sortIvs_ne_nil {es : List (Iv Int)} (h : es ≠ []) : sortIvs es ≠ [] := by
  intro h0
  have := List.length_mergeSort (le := Iv.le) es
  unfold sortIvs at h0
  rw [h0] at this
  cases es with
  | nil => exact h rfl
  | cons a as => simp at this

/-- L537-550: sort, span growth, collision report — on a tier that holds at least the new entry -/
theorem exec_iinsertFinish (ml : List (Iv Int)) (rep : Report) (t1 : ITier Int) (hne : t1.es ≠ []) :
    exec (iinsertFinish ml rep) t1 =
      (if ml.isEmpty = false ∧ rep = .error then .error .CollisionError else .ok (), growSpan t1 (sortIvs t1.es)) := by
  have hs := sortIvs_ne_nil hne
  unfold iinsertFinish isort
  simp only [exec_bind, exec_modify, exec_get]
  cases hh : (sortIvs t1.es).head? with
  | none => exact absurd (List.head?_eq_none_iff.1 hh) hs
  | some f =>
    cases hl : (sortIvs t1.es).getLast? with
    | none => exact absurd (List.getLast?_eq_none_iff.1 hl) hs
    | some g =>
      simp only [exec_ite, exec_modify, exec_pure, exec_report, growSpan, hh, hl]
      by_cases c1 : f.s < t1.lo <;> by_cases c2 : t1.hi < g.e <;> cases hml : ml.isEmpty <;>
        cases rep <;> simp [c1, c2, hl, exec_bind, exec_get, exec_modify, exec_ite, exec_report]

/-- the entries `insertEntry` collides with (the lax crop of L500-502), `[]` when the crop raises -/
def icollisions (t : ITier Int) (x : Iv Int) : List (Iv Int) :=
  match t.crop x.s x.e .lax false with
  | .ok mt => mt.es
  | .error _ => []

/-- the state `IntervalTier.insertEntry` leaves behind when it raises out of the crop, the collision policy or a deletion -/
def iinsertErrState (t : ITier Int) (x : Iv Int) (mode : InsMode) : ITier Int :=
  if (icollisions t x).isEmpty then t
  else match mode with
    | .error => t
    | _ => { t with es := delPartial t.es (icollisions t x) }

/-- **refinement, IntervalTier.insertEntry** — for every tier, entry, mode and reporting mode: the statement-level run
returns exactly when `ITier.insertEntry` does, with the same object; it raises the same error otherwise; and when the
reporter raises (`rep = .error` after a collision) every write has already been made -/
theorem exec_iinsertEntry_gen (t : ITier Int) (x : Iv Int) (mode : InsMode) (rep : Report) :
    exec (iinsertEntry x mode rep) t = match t.insertEntry x mode with
      | .ok t' => (if (icollisions t ⟨x.s, x.e, pyStrip x.l⟩).isEmpty = false ∧ rep = .error
                    then .error .CollisionError else .ok (), t')
      | .error e => (.error e, iinsertErrState t ⟨x.s, x.e, pyStrip x.l⟩ mode) := by
  unfold iinsertEntry ITier.insertEntry iinsertErrState icollisions
  simp only [exec_bind, exec_get, exec_liftE]
  cases hc : t.crop x.s x.e .lax false with
  | error e => rfl
  | ok mt =>
    simp only [bind, Except.bind]
    cases hml : mt.es.isEmpty with
    | true =>
      simp only [if_true, exec_bind', exec_modify, pure, Except.pure]
      rw [exec_iinsertFinish _ _ _ (by simp)]
      simp [hml, growSpan]
    | false =>
      cases mode with
      | error => rfl
      | replace =>
        simp only [Bool.false_eq_true, if_false, exec_bind', exec_forM_idelete]
        cases hd : deleteIvs t.es mt.es with
        | error e => rfl
        | ok es0 =>
          simp only [exec_modify, pure, Except.pure, delPartial_ok hd]
          rw [exec_iinsertFinish _ _ _ (by simp)]
          simp [hml, growSpan]
      | merge =>
        simp only [Bool.false_eq_true, if_false, exec_bind', exec_forM_idelete]
        cases hd : deleteIvs t.es mt.es with
        | error e => rfl
        | ok es0 =>
          simp only [exec_modify, pure, Except.pure, delPartial_ok hd]
          rw [exec_iinsertFinish _ _ _ (by simp)]
          simp [hml, growSpan]

/-- (b) for `IntervalTier.insertEntry` in the documented reporting modes (silence, warning) -/
theorem exec_iinsertEntry (t : ITier Int) (x : Iv Int) (mode : InsMode) (rep : Report) (hrep : rep ≠ .error) :
    exec (iinsertEntry x mode rep) t = match t.insertEntry x mode with
      | .ok t' => (.ok (), t')
      | .error e => (.error e, iinsertErrState t ⟨x.s, x.e, pyStrip x.l⟩ mode) := by
  rw [exec_iinsertEntry_gen]
  cases t.insertEntry x mode <;> simp [hrep]

/-- (a) for `IntervalTier.insertEntry`: on a well-formed tier (C05: every reachable tier) a raise leaves the tier exactly as
it was — the collision is detected (L528) and a zero-length entry refused (L500) before the first write, and the deletion
loop of `replace`/`merge` cannot fail half-way -/
theorem iinsertEntry_atomic (t : ITier Int) (hwf : t.WF) (x : Iv Int) (mode : InsMode) (rep : Report) (hrep : rep ≠ .error)
    (e : Err) (t' : ITier Int) (h : exec (iinsertEntry x mode rep) t = (.error e, t')) : t' = t := by
  rw [exec_iinsertEntry t x mode rep hrep] at h
  cases hi : t.insertEntry x mode with
  | ok t'' => rw [hi] at h; simp at h
  | error e' =>
    rw [hi] at h
    simp only [Prod.mk.injEq] at h
    rw [← h.2]
    unfold iinsertErrState
    split
    · rfl
    · rename_i hne
      by_cases hx : x.s < x.e
      · obtain ⟨mt, hc, hm⟩ := C11.crop_matches t hwf ⟨x.s, x.e, pyStrip x.l⟩ hx
        have hcol : C11.colliding t x ≠ [] := by
          intro h0
          apply hne
          have : C11.colliding t ⟨x.s, x.e, pyStrip x.l⟩ = C11.colliding t x := rfl
          simp only [icollisions, hc, hm, this, h0, List.isEmpty_nil]
        cases mode with
        | error => rfl
        | replace =>
          obtain ⟨t2, h2, _⟩ := C11.insert_replace t hwf x hx hcol
          rw [h2] at hi; cases hi
        | merge =>
          obtain ⟨_, _, _, t2, h2, _⟩ := C11.insert_merge t hwf x hx hcol
          rw [h2] at hi; cases hi
      · have : t.crop x.s x.e .lax false = .error .ArgumentError := by
          unfold ITier.crop; simp [show x.e ≤ x.s by omega]
        simp [icollisions, this] at hne

/-! ## Textgrid: addTier -/

theorem dictSet_fresh {d : List (AnyTier Int)} {t : AnyTier Int} (h : t.name ∉ d.map (·.name)) : dictSet d t = d ++ [t] := by
  unfold dictSet
  have : d.any (·.name == t.name) = false := by
    rw [List.any_eq_false]
    intro u hu hc
    exact h (List.mem_map.2 ⟨u, hu, by simpa using hc⟩)
  simp [this]

/-- in a dict (unique keys) looking a member up by its own name finds that member -/
theorem find_of_mem {D : List (AnyTier Int)} (hnd : (D.map (·.name)).Nodup) {u : AnyTier Int} (hu : u ∈ D) :
    D.find? (·.name == u.name) = some u := by
  induction D with
  | nil => cases hu
  | cons a as ih =>
    simp only [List.map_cons, List.nodup_cons] at hnd
    rcases List.mem_cons.1 hu with rfl | hm
    · simp
    · have hne : a.name ≠ u.name := fun h => hnd.1 (h ▸ List.mem_map.2 ⟨u, hm, rfl⟩)
      simp [List.find?_cons, hne, ih hnd.2 hm]

/-- rebuilding the dict in a given key order (`OrderedDict((n, self._tierDict[n]) for n in names)`) -/
theorem lookup_all (D : List (AnyTier Int)) (hnd : (D.map (·.name)).Nodup) (lo hi : Option Int)
    (l : List (AnyTier Int)) (hl : ∀ u ∈ l, u ∈ D) :
    (l.map (·.name)).mapM (Tg.getTier ⟨D, lo, hi⟩) = .ok l := by
  induction l with
  | nil => rfl
  | cons a as ih =>
    have h1 : Tg.getTier ⟨D, lo, hi⟩ a.name = .ok a := by
      unfold Tg.getTier; simp only [find_of_mem hnd (hl a (by simp))]
    simp only [List.map_cons, List.mapM_cons, h1, ih (fun u hu => hl u (by simp [hu]))]
    rfl

theorem map_pyListInsert {β γ : Type} (f : β → γ) (l : List β) (i : Int) (x : β) :
    (pyListInsert l i x).map f = pyListInsert (l.map f) i (f x) := by
  simp [pyListInsert, List.map_take, List.map_drop]

/-- L117-134: the checks write nothing, whatever they decide -/
theorem exec_addTierChecks (g : Tg Int) (t : AnyTier Int) (rep : Report) :
    exec (addTierChecks t rep) g =
      (if t.name ∈ g.names then .error .TierNameExistsError
       else if rep = .error ∧ C12.spanChanges g.lo g.hi t = true then .error .TextgridStateAutoModified else .ok (), g) := by
  unfold addTierChecks
  simp only [exec_bind, exec_get, exec_ite, exec_pure, exec_throw, exec_report]
  by_cases hc : t.name ∈ g.names
  · simp [hc]
  · obtain ⟨ts, lo, hi⟩ := g
    cases lo with
    | none =>
      cases hi with
      | none => cases rep <;> simp [hc, C12.spanChanges]
      | some h => by_cases c2 : h < t.hi <;> cases rep <;> simp [hc, c2, C12.spanChanges]
    | some l =>
      cases hi with
      | none => by_cases c1 : t.lo < l <;> cases rep <;> simp [hc, c1, C12.spanChanges]
      | some h => by_cases c1 : t.lo < l <;> by_cases c2 : h < t.hi <;> cases rep <;> simp [hc, c1, c2, C12.spanChanges]

/-- L136-146 on a dict that does not hold the name yet: append, or `list.insert` at the index -/
theorem exec_addTierStore (g : Tg Int) (hnd : g.names.Nodup) (t : AnyTier Int) (hfresh : t.name ∉ g.names) (idx : Option Int) :
    exec (addTierStore t idx) g = (.ok (), { g with tiers := C12.insAt g.tiers idx t }) := by
  have hf : t.name ∉ g.tiers.map (·.name) := hfresh
  have hnd' : ((g.tiers ++ [t]).map (·.name)).Nodup := by
    rw [List.map_append, List.nodup_append]
    refine ⟨hnd, by simp, ?_⟩
    intro a ha b hb
    simp at hb; subst hb
    intro h; exact hf (h ▸ ha)
  unfold addTierStore
  cases idx with
  | none => simp only [exec_bind, exec_get, exec_modify, dictSet_fresh hf, C12.insAt]
  | some i =>
    simp only [exec_bind, exec_get, exec_modify, dictSet_fresh hf, exec_liftE, C12.insAt]
    have : (pyListInsert g.names i t.name).mapM (Tg.getTier ⟨g.tiers ++ [t], g.lo, g.hi⟩) = .ok (pyListInsert g.tiers i t) := by
      have h1 : pyListInsert g.names i t.name = (pyListInsert g.tiers i t).map (·.name) := by
        rw [map_pyListInsert]; rfl
      rw [h1]
      apply lookup_all _ hnd'
      intro u hu
      rcases (C12.mem_pyListInsert g.tiers i t u).1 hu with h | h
      · simp [h]
      · simp [h]
    rw [this]

/-- L148-152 -/
theorem exec_addTierSpan (g : Tg Int) (t : AnyTier Int) :
    exec (addTierSpan t) g = (.ok (), { g with lo := some (C12.widenLo g.lo t.lo), hi := some (C12.widenHi g.hi t.hi) }) := by
  unfold addTierSpan
  simp only [exec_bind, exec_get, exec_ite, exec_pure, exec_modify]
  obtain ⟨ts, lo, hi⟩ := g
  cases lo with
  | none =>
    cases hi with
    | none => simp [C12.widenLo, C12.widenHi]
    | some h => by_cases c2 : h < t.hi <;> simp [c2, C12.widenLo, C12.widenHi] <;> omega
  | some l =>
    cases hi with
    | none => by_cases c1 : t.lo < l <;> simp [c1, C12.widenLo, C12.widenHi] <;> omega
    | some h => by_cases c1 : t.lo < l <;> by_cases c2 : h < t.hi <;> simp [c1, c2, C12.widenLo, C12.widenHi] <;> omega

/-- **refinement, Textgrid.addTier** (the state is a dict: unique keys): same outcome as `Tg.addTier`, and when it raises
(name clash L117, span change under reportingMode='error' L123-134) nothing has been written -/
theorem exec_addTier (g : Tg Int) (hnd : g.names.Nodup) (t : AnyTier Int) (idx : Option Int) (rep : Report) :
    exec (addTier t idx rep) g = match g.addTier t idx rep with
      | .ok g' => (.ok (), g')
      | .error e => (.error e, g) := by
  unfold addTier
  simp only [exec_bind, exec_addTierChecks]
  by_cases hn : t.name ∈ g.names
  · rw [C12.addTier_dup g t idx rep hn, if_pos hn]
  · rw [C12.addTier_fresh g t idx rep hn, if_neg hn]
    by_cases hr : rep = .error ∧ C12.spanChanges g.lo g.hi t = true
    · rw [if_pos hr, if_pos hr]
    · rw [if_neg hr, if_neg hr]
      simp only [exec_addTierStore g hnd t hn idx]
      rw [exec_addTierSpan]

/-- (a) for `Textgrid.addTier` -/
theorem addTier_atomic (g : Tg Int) (hnd : g.names.Nodup) (t : AnyTier Int) (idx : Option Int) (rep : Report)
    (e : Err) (g' : Tg Int) (h : exec (addTier t idx rep) g = (.error e, g')) : g' = g := by
  rw [exec_addTier g hnd] at h
  cases h2 : g.addTier t idx rep <;> rw [h2] at h <;> simp at h
  exact h.2.symm

/-! ## Textgrid: removeTier, renameTier, replaceTier -/

/-- `Textgrid.removeTier`: one write, after the lookup -/
theorem exec_removeTier_raw (g : Tg Int) (n : String) :
    exec (removeTier n) g = match g.tiers.find? (·.name == n) with
      | some t => (.ok t, { g with tiers := C12.dropName g.tiers n })
      | none => (.error .KeyError, g) := by
  unfold removeTier
  simp only [exec_bind, exec_get]
  cases g.tiers.find? (·.name == n) <;> rfl

theorem find_isSome_of_mem {l : List (AnyTier Int)} {n : String} (h : n ∈ C12.namesOf l) :
    ∃ t, l.find? (·.name == n) = some t := by
  cases hf : l.find? (·.name == n) with
  | none => exact absurd h (C12.find_none hf)
  | some t => exact ⟨t, rfl⟩

/-- **refinement, Textgrid.removeTier** -/
theorem exec_removeTier (g : Tg Int) (n : String) :
    (exec (removeTier n) g).2 = (match g.removeTier n with | .ok g' => g' | .error _ => g) ∧
    ((exec (removeTier n) g).1.toBool = (g.removeTier n).toBool) ∧
    (∀ e, (exec (removeTier n) g).1 = .error e ↔ g.removeTier n = .error e) := by
  rw [exec_removeTier_raw, C12.removeTier_eq]
  by_cases h : n ∈ g.names
  · obtain ⟨t, ht⟩ := find_isSome_of_mem (l := g.tiers) h
    simp [ht, h, Except.toBool]
  · have : g.tiers.find? (·.name == n) = none := by
      cases hf : g.tiers.find? (·.name == n) with
      | none => rfl
      | some t => exact absurd (List.mem_map.2 ⟨t, (C12.find_name hf).1, (C12.find_name hf).2⟩) h
    simp [this, h, Except.toBool]

/-- (a) for `Textgrid.removeTier` -/
theorem removeTier_atomic (g : Tg Int) (n : String) (e : Err) (g' : Tg Int)
    (h : exec (removeTier n) g = (.error e, g')) : g' = g := by
  rw [exec_removeTier_raw] at h
  cases hf : g.tiers.find? (·.name == n) <;> rw [hf] at h <;> simp at h
  exact h.2.symm

theorem indexOf_eq (g : Tg Int) (n : String) : g.indexOf n = C12.idxOf g.tiers n := rfl

/-- the restore block of `replaceTier` (L540-545) and the indexed branch of `addTier` (L139-146) share this: putting a tier
under a fresh key at the end and rebuilding the dict with that key moved to position `k` is `list.insert` on the values -/
theorem rebuild_insert (d : List (AnyTier Int)) (hnd : (C12.namesOf d).Nodup) (u : AnyTier Int) (hf : u.name ∉ C12.namesOf d)
    (lo hi : Option Int) (k : Int) :
    (pyListInsert (C12.namesOf d) k u.name).mapM (Tg.getTier ⟨d ++ [u], lo, hi⟩) = .ok (pyListInsert d k u) := by
  have hnd' : ((d ++ [u]).map (·.name)).Nodup := by
    rw [List.map_append, List.nodup_append]
    refine ⟨hnd, by simp, ?_⟩
    intro a ha b hb
    simp at hb; subst hb
    intro h; exact hf (h ▸ ha)
  have h1 : pyListInsert (C12.namesOf d) k u.name = (pyListInsert d k u).map (·.name) := by
    rw [map_pyListInsert]; rfl
  rw [h1]
  apply lookup_all _ hnd'
  intro v hv
  rcases (C12.mem_pyListInsert d k u v).1 hv with h | h
  · simp [h]
  · simp [h]

/-- the `except` block (L538-546), started in the state `removeTier` left (nothing else written since): it puts the old tier
back under its key AND at its old position — the textgrid is as before the call — and re-raises -/
theorem exec_replaceRestore (g : Tg Int) (hnd : g.names.Nodup) (n : String) (k : Nat) (old : AnyTier Int) (e : Err)
    (hk : C12.idxOf g.tiers n = some k) (hold : g.tiers.find? (·.name == n) = some old) :
    exec (replaceRestore old (k : Int) e) ⟨C12.dropName g.tiers n, g.lo, g.hi⟩ = (.error e, g) := by
  have hnd1 : (C12.namesOf (C12.dropName g.tiers n)).Nodup := C12.nodup_dropName n hnd
  have holdn : old.name = n := (C12.find_name hold).2
  have hfr : old.name ∉ C12.namesOf (C12.dropName g.tiers n) := by
    rw [holdn]; intro hm; have := (C12.mem_names_dropName.1 hm); simp at this
  unfold replaceRestore
  simp only [exec_bind, exec_modify, exec_get, dictSet_fresh hfr]
  have hnames : Tg.names ⟨C12.dropName g.tiers n ++ [old], g.lo, g.hi⟩ = C12.namesOf (C12.dropName g.tiers n) ++ [old.name] := by
    simp [Tg.names, C12.namesOf]
  rw [hnames]
  simp only [List.getLast?_append, List.getLast?_singleton, Option.some_or, List.dropLast_concat]
  have hback : pyListInsert (C12.dropName g.tiers n) (k : Int) old = g.tiers := by
    rw [C12.insert_dropName old hnd hk, C12.subst_eq_set old hnd hk]
    have hg : g.tiers[k]? = some old := by rw [← C12.find_eq_getElem hk]; exact hold
    obtain ⟨hlt, hge⟩ := List.getElem?_eq_some_iff.1 hg
    rw [← hge]; exact List.set_getElem_self hlt
  simp only [exec_bind, exec_pure, exec_liftE, rebuild_insert _ hnd1 old hfr, exec_modify, exec_throw, hback]

/-- `replaceTier` around ANY add-call that (i) leaves the state alone when it raises and (ii) raises praatio errors only:
the outcome is the add-call's, and a raise leaves the textgrid as it was before `replaceTier` -/
theorem exec_replaceTierCore (g : Tg Int) (hnd : g.names.Nodup) (n : String) (addCall : Int → M (Tg Int) Unit)
    (k : Nat) (hk : C12.idxOf g.tiers n = some k)
    (hfail : ∀ e s', exec (addCall (k : Int)) ⟨C12.dropName g.tiers n, g.lo, g.hi⟩ = (.error e, s') →
      s' = ⟨C12.dropName g.tiers n, g.lo, g.hi⟩ ∧ e.isPraatio = true) :
    exec (replaceTierCore n addCall) g = match exec (addCall (k : Int)) ⟨C12.dropName g.tiers n, g.lo, g.hi⟩ with
      | (.ok _, s') => (.ok (), s')
      | (.error e, _) => (.error e, g) := by
  have hmem : n ∈ C12.namesOf g.tiers := (C12.idxOf_isSome_iff _ _).1 ⟨k, hk⟩
  obtain ⟨old, hold⟩ := find_isSome_of_mem hmem
  unfold replaceTierCore
  simp only [exec_bind, exec_get, indexOf_eq, hk, exec_pure, exec_removeTier_raw, hold, exec_tryCatch]
  cases ha : exec (addCall (k : Int)) ⟨C12.dropName g.tiers n, g.lo, g.hi⟩ with
  | mk r s' =>
    cases r with
    | ok _ => rfl
    | error e =>
      obtain ⟨hs, hp⟩ := hfail e s' ha
      subst hs
      simp only [hp, if_true]
      exact exec_replaceRestore g hnd n k old e hk hold

/-- **refinement + atomicity, Textgrid.replaceTier**: same outcome as `Tg.replaceTier`; when `addTier` raises, the
`except` block (L538-546) puts the old tier back under its key AND at its old position: the textgrid is as before -/
theorem exec_replaceTier (g : Tg Int) (hnd : g.names.Nodup) (n : String) (t : AnyTier Int) (rep : Report) :
    exec (replaceTier n t rep) g = match g.replaceTier n t rep with
      | .ok g' => (.ok (), g')
      | .error e => (.error e, g) := by
  unfold replaceTier Tg.replaceTier
  simp only [indexOf_eq]
  cases hk : C12.idxOf g.tiers n with
  | none =>
    unfold replaceTierCore
    simp only [exec_bind, exec_get, indexOf_eq, hk, exec_throw]
  | some k =>
    have hmem : n ∈ g.names := (C12.idxOf_isSome_iff _ _).1 ⟨k, hk⟩
    have hnd1 : (C12.namesOf (C12.dropName g.tiers n)).Nodup := C12.nodup_dropName n hnd
    have hadd := exec_addTier ⟨C12.dropName g.tiers n, g.lo, g.hi⟩ hnd1 t (some (k : Int)) rep
    rw [exec_replaceTierCore g hnd n _ k hk]
    · rw [C12.removeTier_eq, if_pos hmem]
      simp only [hadd]
      show _ = match Tg.addTier ⟨C12.dropName g.tiers n, g.lo, g.hi⟩ t (some (k : Int)) rep with
        | .ok g' => (Except.ok (), g')
        | .error e => (.error e, g)
      cases Tg.addTier ⟨C12.dropName g.tiers n, g.lo, g.hi⟩ t (some (k : Int)) rep <;> rfl
    · intro e s' h
      simp only [hadd] at h
      cases ha : Tg.addTier ⟨C12.dropName g.tiers n, g.lo, g.hi⟩ t (some (k : Int)) rep with
      | ok g' => rw [ha] at h; simp at h
      | error e' =>
        rw [ha] at h
        simp only [Prod.mk.injEq, Except.error.injEq] at h
        obtain ⟨rfl, rfl⟩ := h
        refine ⟨rfl, ?_⟩
        rcases C13.addTier_fails_before_mutation _ t _ rep e' ha with ⟨_, rfl⟩ | ⟨_, _, rfl⟩ <;> rfl

/-- (a) for `Textgrid.replaceTier` -/
theorem replaceTier_atomic (g : Tg Int) (hnd : g.names.Nodup) (n : String) (t : AnyTier Int) (rep : Report)
    (e : Err) (g' : Tg Int) (h : exec (replaceTier n t rep) g = (.error e, g')) : g' = g := by
  rw [exec_replaceTier g hnd] at h
  cases h2 : g.replaceTier n t rep <;> rw [h2] at h <;> simp at h
  exact h.2.symm

/-- the state `renameTier` leaves behind when it raises: untouched when the lookup (L518) or the clash check (L520) raises,
WITHOUT the old tier when the re-construction `oldTier.new(newName, …)` of L523 raises after the removal of L522 -/
def renameErrState (g : Tg Int) (old new : String) : Tg Int :=
  match g.getTier old with
  | .error _ => g
  | .ok _ => if (new != old && g.names.contains new) = true then g else { g with tiers := C12.dropName g.tiers old }

/-- **refinement, Textgrid.renameTier** -/
theorem exec_renameTier (g : Tg Int) (hnd : g.names.Nodup) (old new : String) :
    exec (renameTier old new) g = match g.renameTier old new with
      | .ok g' => (.ok (), g')
      | .error e => (.error e, renameErrState g old new) := by
  unfold renameTier Tg.renameTier renameErrState
  simp only [exec_bind, exec_get, exec_liftE, indexOf_eq]
  cases hgt : g.getTier old with
  | error e => rfl
  | ok t =>
    have hf : g.tiers.find? (·.name == old) = some t := by
      unfold Tg.getTier at hgt
      cases hf : g.tiers.find? (·.name == old) with
      | none => rw [hf] at hgt; cases hgt
      | some u => rw [hf] at hgt; cases hgt; rfl
    have hmem : old ∈ C12.namesOf g.tiers := List.mem_map.2 ⟨t, (C12.find_name hf).1, (C12.find_name hf).2⟩
    have hmem' : old ∈ g.names := hmem
    obtain ⟨k, hk⟩ := (C12.idxOf_isSome_iff _ _).2 hmem
    have hnd1 : (C12.namesOf (C12.dropName g.tiers old)).Nodup := C12.nodup_dropName old hnd
    simp only [hk, exec_pure, exec_bind, Option.getD_some, bind, Except.bind, exec_bind']
    by_cases hcl : (new != old && g.names.contains new) = true
    · simp only [hcl, if_true, exec_throw]; rfl
    · simp only [hcl, if_false, exec_pure, exec_removeTier_raw, hf, Bool.false_eq_true]
      rw [C12.removeTier_eq, if_pos hmem']
      simp only [pure, Except.pure]
      cases hr : t.renew (name := some new) with
      | error e => rfl
      | ok nt =>
        simp only [exec_liftE_ok]
        rw [exec_addTier ⟨C12.dropName g.tiers old, g.lo, g.hi⟩ hnd1]

/-- (a) for `Textgrid.renameTier`: the renamed tier is well-formed (C05: every reachable tier is), so its re-construction
under the new name (L523) cannot raise after the removal (L522); the clash is detected before (L520) -/
theorem renameTier_atomic (g : Tg Int) (hnd : g.names.Nodup) (old new : String)
    (hwf : ∀ t, g.getTier old = .ok t → C12.AnyWF t)
    (e : Err) (g' : Tg Int) (h : exec (renameTier old new) g = (.error e, g')) : g' = g := by
  rw [exec_renameTier g hnd] at h
  cases hr : g.renameTier old new with
  | ok g2 => rw [hr] at h; simp at h
  | error e' =>
    rw [hr] at h
    simp only [Prod.mk.injEq] at h
    rw [← h.2]
    unfold renameErrState
    cases hgt : g.getTier old with
    | error _ => rfl
    | ok t =>
      simp only []
      split
      · rfl
      · rename_i hcl
        exfalso
        have hf : g.tiers.find? (·.name == old) = some t := by
          unfold Tg.getTier at hgt
          cases hf : g.tiers.find? (·.name == old) with
          | none => rw [hf] at hgt; cases hgt
          | some u => rw [hf] at hgt; cases hgt; rfl
        rw [C12.renameTier_eq g old new t hnd hf, C12.renew_of_wf (hwf t hgt) new] at hr
        have hc : ¬ (new ≠ old ∧ new ∈ g.names) := by
          intro ⟨h1, h2⟩; apply hcl; simp [h1, h2]
        rw [if_neg hc] at hr
        cases hr

/-! ## PointTier.insertEntry -/

def pdelPartial (ps : List (Pt Int)) : List (Pt Int) → List (Pt Int)
  | [] => ps
  | m :: ms => match deletePt ps m with
    | .ok ps' => pdelPartial ps' ms
    | .error _ => ps

theorem pdelPartial_ok {ps ml r : List (Pt Int)} (h : ml.foldlM deletePt ps = .ok r) : pdelPartial ps ml = r := by
  induction ml generalizing ps with
  | nil => simpa [pdelPartial, pure, Except.pure] using h
  | cons m ms ih =>
    simp only [List.foldlM_cons] at h
    cases hm : deletePt ps m with
    | error e => rw [hm] at h; cases h
    | ok ps' => rw [hm] at h; simp only [pdelPartial, hm]; exact ih h

theorem exec_forM_pdelete (ml : List (Pt Int)) (t : PTier Int) :
    exec (ml.forM pdeleteEntry) t =
      (match ml.foldlM deletePt t.ps with | .ok _ => .ok () | .error e => .error e, { t with ps := pdelPartial t.ps ml }) := by
  induction ml generalizing t with
  | nil => rfl
  | cons m ms ih =>
    simp only [forM_cons', exec_bind, exec_pdeleteEntry, PTier.deleteEntry, List.foldlM_cons, pdelPartial]
    cases h : deletePt t.ps m with
    | error e => rfl
    | ok r =>
      have := ih { t with ps := r }
      simp only [bind, Except.bind, pure, Except.pure] at this ⊢
      rw [this]

theorem sortPts_ne_nil {ps : List (Pt Int)} (h : ps ≠ []) : sortPts ps ≠ [] := by
  intro h0
  have := List.length_mergeSort (le := Pt.le) ps
  unfold sortPts at h0
  rw [h0] at this
  cases ps with
  | nil => exact h rfl
  | cons a as => simp at this

/-- point_tier.py L380-392 -/
theorem exec_pinsertFinish (ml : List (Pt Int)) (rep : Report) (t1 : PTier Int) (hne : t1.ps ≠ []) :
    exec (pinsertFinish ml rep) t1 =
      (if ml.isEmpty = false ∧ rep = .error then .error .CollisionError else .ok (), growSpanP t1 (sortPts t1.ps)) := by
  have hs := sortPts_ne_nil hne
  unfold pinsertFinish psort
  simp only [exec_bind, exec_modify, exec_get]
  cases hh : (sortPts t1.ps).head? with
  | none => exact absurd (List.head?_eq_none_iff.1 hh) hs
  | some f =>
    cases hl : (sortPts t1.ps).getLast? with
    | none => exact absurd (List.getLast?_eq_none_iff.1 hl) hs
    | some g =>
      simp only [exec_ite, exec_modify, exec_pure, exec_report, growSpanP, hh, hl]
      by_cases c1 : f.t < t1.lo <;> by_cases c2 : t1.hi < g.t <;> cases hml : ml.isEmpty <;>
        cases rep <;> simp [c1, c2, hl, exec_bind, exec_get, exec_modify, exec_ite, exec_report]

/-- **refinement, PointTier.insertEntry**, every reporting mode; a raise leaves the tier untouched except when it is the
reporter's (`rep = .error`, after every write) -/
theorem exec_pinsertEntry_gen (t : PTier Int) (x : Pt Int) (mode : InsMode) (rep : Report) :
    exec (pinsertEntry x mode rep) t = match t.insertEntry x mode with
      | .ok t' => (if (t.ps.filter (fun p => p.t == x.t)).isEmpty = false ∧ rep = .error
                    then .error .CollisionError else .ok (), t')
      | .error e => (.error e, t) := by
  unfold pinsertEntry PTier.insertEntry
  simp only [exec_bind, exec_get]
  simp only [bind, Except.bind]
  cases hml : (t.ps.filter (fun p => p.t == x.t)).isEmpty with
  | true =>
    simp only [if_true, exec_bind', exec_modify, pure, Except.pure]
    rw [exec_pinsertFinish _ _ _ (by simp)]
    simp [hml, growSpanP]
  | false =>
    have hd := C05.deleteAll_at t.ps x.t
    cases mode with
    | error => rfl
    | replace =>
      simp only [Bool.false_eq_true, if_false, exec_bind', exec_forM_pdelete, hd]
      simp only [exec_modify, pure, Except.pure, pdelPartial_ok hd]
      rw [exec_pinsertFinish _ _ _ (by simp)]
      simp [hml, growSpanP]
    | merge =>
      simp only [Bool.false_eq_true, if_false, exec_bind', exec_forM_pdelete, hd]
      simp only [exec_modify, pure, Except.pure, pdelPartial_ok hd]
      rw [exec_pinsertFinish _ _ _ (by simp)]
      simp [hml, growSpanP]

/-- (b) for `PointTier.insertEntry` in the documented reporting modes -/
theorem exec_pinsertEntry (t : PTier Int) (x : Pt Int) (mode : InsMode) (rep : Report) (hrep : rep ≠ .error) :
    exec (pinsertEntry x mode rep) t = match t.insertEntry x mode with
      | .ok t' => (.ok (), t')
      | .error e => (.error e, t) := by
  rw [exec_pinsertEntry_gen]
  cases t.insertEntry x mode <;> simp [hrep]

/-- (a) for `PointTier.insertEntry`: no hypothesis on the tier at all -/
theorem pinsertEntry_atomic (t : PTier Int) (x : Pt Int) (mode : InsMode) (rep : Report) (hrep : rep ≠ .error)
    (e : Err) (t' : PTier Int) (h : exec (pinsertEntry x mode rep) t = (.error e, t')) : t' = t := by
  rw [exec_pinsertEntry t x mode rep hrep] at h
  cases h2 : t.insertEntry x mode <;> rw [h2] at h <;> simp at h
  exact h.2.symm


/-! ## from the first statement: `validateOption` (an invalid option value is one of the failure causes C13 names) -/

@[simp] theorem exec_validateOption_some {δ : Type} (x : δ) (s : σ) : exec (validateOption (some x) : M σ δ) s = (.ok x, s) := rfl
@[simp] theorem exec_validateOption_none {δ : Type} (s : σ) : exec (validateOption (none : Option δ) : M σ δ) s = (.error .WrongOption, s) := rfl

/-- with valid option values the `…Py` entry points ARE the mutators above; with an invalid one they raise WrongOption at once -/
theorem exec_iinsertEntryPy (t : ITier Int) (x : Iv Int) (mode? : Option InsMode) (rep? : Option Report) :
    exec (iinsertEntryPy x mode? rep?) t = match mode?, rep? with
      | some m, some r => exec (iinsertEntry x m r) t
      | _, _ => (.error .WrongOption, t) := by
  unfold iinsertEntryPy
  cases mode? <;> cases rep? <;> simp [exec_bind]

theorem exec_pinsertEntryPy (t : PTier Int) (x : Pt Int) (mode? : Option InsMode) (rep? : Option Report) :
    exec (pinsertEntryPy x mode? rep?) t = match mode?, rep? with
      | some m, some r => exec (pinsertEntry x m r) t
      | _, _ => (.error .WrongOption, t) := by
  unfold pinsertEntryPy
  cases mode? <;> cases rep? <;> simp [exec_bind]

theorem exec_addTierPy (g : Tg Int) (t : AnyTier Int) (idx : Option Int) (rep? : Option Report) :
    exec (addTierPy t idx rep?) g = match rep? with
      | some r => exec (addTier t idx r) g
      | none => (.error .WrongOption, g) := by
  unfold addTierPy
  cases rep? <;> simp [exec_bind]

/-- (a) `IntervalTier.insertEntry`, every option value (valid or not) except collisionReportingMode='error' -/
theorem iinsertEntryPy_atomic (t : ITier Int) (hwf : t.WF) (x : Iv Int) (mode? : Option InsMode) (rep? : Option Report)
    (hrep : rep? ≠ some .error) (e : Err) (t' : ITier Int) (h : exec (iinsertEntryPy x mode? rep?) t = (.error e, t')) : t' = t := by
  rw [exec_iinsertEntryPy] at h
  cases mode? with
  | none => simp at h; exact h.2.symm
  | some m =>
    cases rep? with
    | none => simp at h; exact h.2.symm
    | some r => exact iinsertEntry_atomic t hwf x m r (fun hr => hrep (by rw [hr])) e t' h

/-- (a) `PointTier.insertEntry`, every option value except collisionReportingMode='error' -/
theorem pinsertEntryPy_atomic (t : PTier Int) (x : Pt Int) (mode? : Option InsMode) (rep? : Option Report)
    (hrep : rep? ≠ some .error) (e : Err) (t' : PTier Int) (h : exec (pinsertEntryPy x mode? rep?) t = (.error e, t')) : t' = t := by
  rw [exec_pinsertEntryPy] at h
  cases mode? with
  | none => simp at h; exact h.2.symm
  | some m =>
    cases rep? with
    | none => simp at h; exact h.2.symm
    | some r => exact pinsertEntry_atomic t x m r (fun hr => hrep (by rw [hr])) e t' h

/-- (a) `Textgrid.addTier`, every reportingMode value -/
theorem addTierPy_atomic (g : Tg Int) (hnd : g.names.Nodup) (t : AnyTier Int) (idx : Option Int) (rep? : Option Report)
    (e : Err) (g' : Tg Int) (h : exec (addTierPy t idx rep?) g = (.error e, g')) : g' = g := by
  rw [exec_addTierPy] at h
  cases rep? with
  | none => simp at h; exact h.2.symm
  | some r => exact addTier_atomic g hnd t idx r e g' h

/-- (a) `Textgrid.replaceTier`, every reportingMode value: an INVALID one is noticed by `addTier` inside the `try`, after the
old tier has been removed (L535) — the textgrid is whole again only because WrongOption is a PraatioException and the `except`
block restores it -/
theorem replaceTierPy_atomic (g : Tg Int) (hnd : g.names.Nodup) (n : String) (t : AnyTier Int) (rep? : Option Report)
    (e : Err) (g' : Tg Int) (h : exec (replaceTierPy n t rep?) g = (.error e, g')) : g' = g := by
  cases rep? with
  | some r => exact replaceTier_atomic g hnd n t r e g' h
  | none =>
    unfold replaceTierPy at h
    cases hk : C12.idxOf g.tiers n with
    | none =>
      unfold replaceTierCore at h
      simp only [exec_bind, exec_get, indexOf_eq, hk, exec_throw, Prod.mk.injEq] at h
      exact h.2.symm
    | some k =>
      rw [exec_replaceTierCore g hnd n _ k hk (by
        intro e s' h'
        rw [exec_addTierPy] at h'
        simp only [Prod.mk.injEq, Except.error.injEq] at h'
        obtain ⟨rfl, rfl⟩ := h'
        exact ⟨rfl, rfl⟩)] at h
      rw [exec_addTierPy] at h
      simp only [Prod.mk.injEq] at h
      exact h.2.symm

/-- the invalid option on `replaceTier` of a present name: WrongOption, and the rollback has run -/
theorem exec_replaceTierPy_invalid (g : Tg Int) (hnd : g.names.Nodup) (n : String) (t : AnyTier Int) (hn : n ∈ g.names) :
    exec (replaceTierPy n t none) g = (.error .WrongOption, g) := by
  obtain ⟨k, hk⟩ := (C12.idxOf_isSome_iff _ _).2 hn
  unfold replaceTierPy
  rw [exec_replaceTierCore g hnd n _ k hk (by
    intro e s' h'
    rw [exec_addTierPy] at h'
    simp only [Prod.mk.injEq, Except.error.injEq] at h'
    obtain ⟨rfl, rfl⟩ := h'
    exact ⟨rfl, rfl⟩)]
  rw [exec_addTierPy]

/-! ## all mutators at once: the operations of C11 / C12 run at statement level -/

/-- a C11 operation on an interval tier, run as the code runs it (`rep` = collisionReportingMode) -/
def tierStep (rep : Report) : C11.Op → M (ITier Int) Unit
  | .insert x m => iinsertEntry x m rep
  | .delete x => ideleteEntry x

/-- a C11 operation on a point tier -/
def ptierStep (rep : Report) : C11.PIOp → M (PTier Int) Unit
  | .insert x m => pinsertEntry x m rep
  | .delete x => pdeleteEntry x

/-- a C12 operation on a Textgrid -/
def tgStep : C12.TgOp → M (Tg Int) Unit
  | .add t idx rep => addTier t idx rep
  | .remove n => do let _ ← removeTier n; pure ()
  | .rename o n => renameTier o n
  | .replace n t rep => replaceTier n t rep

/-- the outcome of a run without the returned value: `none` = returned, `some e` = raised `e` -/
def raised {β : Type} (r : Except Err β) : Option Err := match r with | .ok _ => none | .error e => some e

end Imp

namespace C13
open Imp

/-- **(b) interval tiers**: the statement-level run of a C11 operation returns iff `C11.step` does, then with the same
tier; it raises iff `C11.step` fails, with the same error class.  Every C11 theorem (collision policy, order, span growth,
`history_refines_list`) is therefore a theorem about the statement-level mutators -/
theorem tierStep_refines (t : ITier Int) (op : C11.Op) (rep : Report) (hrep : rep ≠ .error) :
    (∀ t', C11.step t op = .ok t' → exec (tierStep rep op) t = (.ok (), t')) ∧
    (∀ e, C11.step t op = .error e → (exec (tierStep rep op) t).1 = .error e) := by
  cases op with
  | insert x m =>
    simp only [C11.step, tierStep]
    rw [exec_iinsertEntry t x m rep hrep]
    cases t.insertEntry x m <;> simp
  | delete x =>
    simp only [C11.step, tierStep]
    rw [exec_ideleteEntry]
    cases t.deleteEntry x <;> simp

/-- **(a) interval tiers**: a raising insertEntry / deleteEntry leaves a well-formed tier exactly as it was -/
theorem tier_mutator_atomic_stmt (t : ITier Int) (hwf : t.WF) (op : C11.Op) (rep : Report) (hrep : rep ≠ .error)
    (e : Err) (t' : ITier Int) (h : exec (tierStep rep op) t = (.error e, t')) : t' = t := by
  cases op with
  | insert x m => exact iinsertEntry_atomic t hwf x m rep hrep e t' h
  | delete x => exact ideleteEntry_atomic x t t' e h

/-- **(b) point tiers** -/
theorem ptierStep_refines (t : PTier Int) (op : C11.PIOp) (rep : Report) (hrep : rep ≠ .error) :
    (∀ t', C11.pistep t op = .ok t' → exec (ptierStep rep op) t = (.ok (), t')) ∧
    (∀ e, C11.pistep t op = .error e → (exec (ptierStep rep op) t).1 = .error e) := by
  cases op with
  | insert x m =>
    simp only [C11.pistep, ptierStep]
    rw [exec_pinsertEntry t x m rep hrep]
    cases t.insertEntry x m <;> simp
  | delete x =>
    simp only [C11.pistep, ptierStep]
    rw [exec_pdeleteEntry]
    cases t.deleteEntry x <;> simp

/-- **(a) point tiers**: no hypothesis on the tier -/
theorem ptier_mutator_atomic_stmt (t : PTier Int) (op : C11.PIOp) (rep : Report) (hrep : rep ≠ .error)
    (e : Err) (t' : PTier Int) (h : exec (ptierStep rep op) t = (.error e, t')) : t' = t := by
  cases op with
  | insert x m => exact pinsertEntry_atomic t x m rep hrep e t' h
  | delete x => exact pdeleteEntry_atomic x t t' e h

/-- **(b) Textgrid**: the statement-level run of addTier / removeTier / renameTier / replaceTier on a dict (unique keys)
returns iff `C12.step` does, then with the same textgrid; it raises iff `C12.step` fails, with the same error class.
`C12.tg_refines_list`, `span_widens`, … transfer -/
theorem tgStep_refines (g : Tg Int) (hnd : g.names.Nodup) (op : C12.TgOp) :
    (∀ g', C12.step g op = .ok g' → (exec (tgStep op) g).2 = g' ∧ raised (exec (tgStep op) g).1 = none) ∧
    (∀ e, C12.step g op = .error e → raised (exec (tgStep op) g).1 = some e) := by
  cases op with
  | add t idx rep =>
    simp only [C12.step, tgStep]
    rw [exec_addTier g hnd]
    cases g.addTier t idx rep <;> simp [raised]
  | remove n =>
    simp only [C12.step, tgStep, exec_bind, exec_removeTier_raw, C12.removeTier_eq]
    by_cases h : n ∈ g.names
    · obtain ⟨t, ht⟩ := find_isSome_of_mem (l := g.tiers) h
      simp [ht, h, raised]
    · have : g.tiers.find? (·.name == n) = none := by
        cases hf : g.tiers.find? (·.name == n) with
        | none => rfl
        | some t => exact absurd (List.mem_map.2 ⟨t, (C12.find_name hf).1, (C12.find_name hf).2⟩) h
      simp [this, h, raised]
  | rename o n =>
    simp only [C12.step, tgStep]
    rw [exec_renameTier g hnd]
    cases g.renameTier o n <;> simp [raised]
  | replace n t rep =>
    simp only [C12.step, tgStep]
    rw [exec_replaceTier g hnd]
    cases g.replaceTier n t rep <;> simp [raised]

/-- **(a) Textgrid**: a raising addTier / removeTier / renameTier / replaceTier leaves the textgrid exactly as it was.
`hnd`: the state is a dict; `hwf`: its tiers are well-formed (C05), needed by `renameTier` only -/
theorem tg_mutator_atomic_stmt (g : Tg Int) (hnd : g.names.Nodup) (hwf : ∀ t ∈ g.tiers, C12.AnyWF t) (op : C12.TgOp)
    (e : Err) (g' : Tg Int) (h : exec (tgStep op) g = (.error e, g')) : g' = g := by
  cases op with
  | add t idx rep => exact addTier_atomic g hnd t idx rep e g' h
  | remove n =>
    simp only [tgStep, exec_bind, exec_removeTier_raw] at h
    cases hf : g.tiers.find? (·.name == n) <;> rw [hf] at h <;> simp at h
    exact h.2.symm
  | rename o n =>
    refine renameTier_atomic g hnd o n ?_ e g' h
    intro t ht
    unfold Tg.getTier at ht
    cases hf : g.tiers.find? (·.name == o) with
    | none => rw [hf] at ht; cases ht
    | some u => rw [hf] at ht; cases ht; exact hwf _ (C12.find_name hf).1
  | replace n t rep => exact replaceTier_atomic g hnd n t rep e g' h

end C13

/-! ## (c) non-vacuity: concrete runs, and what the layer tells apart -/

namespace C13
open Imp

/-- observable state of a tier / textgrid as plain data (decidable equality) -/
def snapI (t : ITier Int) : String × List (Iv Int) × Int × Int := (t.name, t.es, t.lo, t.hi)
structure SnapTier where
  name : String
  es : List (Iv Int)
  ps : List (Pt Int)
  lo : Int
  hi : Int
deriving DecidableEq
structure SnapTg where
  tiers : List SnapTier
  lo : Option Int
  hi : Option Int
deriving DecidableEq
def snapA : AnyTier Int → SnapTier
  | .I t => ⟨t.name, t.es, [], t.lo, t.hi⟩
  | .P t => ⟨t.name, [], t.ps, t.lo, t.hi⟩
def snapG (g : Tg Int) : SnapTg := ⟨g.tiers.map snapA, g.lo, g.hi⟩

def exT : ITier Int := ⟨"a", [⟨1, 2, "x"⟩, ⟨3, 4, "y"⟩], 0, 5⟩
def exP : PTier Int := ⟨"p", [⟨1, "x"⟩], 0, 5⟩
def exB : ITier Int := ⟨"b", [], 0, 5⟩
def exWide : ITier Int := ⟨"c", [⟨1, 2, "x"⟩], 0, 7⟩
def exG : Tg Int := ⟨[.I exT, .P exP, .I exB], some 0, some 5⟩
def exUnstripped : ITier Int := ⟨"a", [⟨1, 2, "x"⟩, ⟨3, 4, " y"⟩], 0, 5⟩
def exBad : Tg Int := ⟨[.I ⟨"a", [⟨1, 3, "x"⟩, ⟨2, 4, "y"⟩], 0, 5⟩, .P exP], some 0, some 5⟩

/-! concrete runs of the statement-level mutators (evaluated; the kernel cannot unfold `List.mergeSort`) -/

-- an insert that collides, in `error` mode, on a tier with entries: CollisionError, the tier is untouched
#guard raised (exec (iinsertEntry ⟨1, 7, "n"⟩ .error .silence) exT).1 = some .CollisionError
#guard snapI (exec (iinsertEntry ⟨1, 7, "n"⟩ .error .silence) exT).2 = snapI exT
-- the same insert in `merge` mode goes through: both entries deleted, the fused entry appended, sorted, the span grown
#guard raised (exec (iinsertEntry ⟨1, 7, " n "⟩ .merge .warning) exT).1 = none
#guard snapI (exec (iinsertEntry ⟨1, 7, " n "⟩ .merge .warning) exT).2 = ("a", [⟨1, 7, "x-n-y"⟩], 0, 7)
-- a zero-length interval: ArgumentError from the crop, nothing written
#guard raised (exec (iinsertEntry ⟨2, 2, "n"⟩ .replace .silence) exT).1 = some .ArgumentError
#guard snapI (exec (iinsertEntry ⟨2, 2, "n"⟩ .replace .silence) exT).2 = snapI exT
-- deleteEntry of an absent entry
#guard raised (exec (ideleteEntry ⟨1, 2, "absent"⟩) exT).1 = some .ValueError
#guard snapI (exec (ideleteEntry ⟨1, 2, "absent"⟩) exT).2 = snapI exT
-- renameTier onto an existing name: TierNameExistsError before anything is removed
#guard raised (exec (renameTier "a" "p") exG).1 = some .TierNameExistsError
#guard snapG (exec (renameTier "a" "p") exG).2 = snapG exG
-- replaceTier that fails under reportingMode='error' (the new tier is wider than the textgrid): the old tier has been
-- removed (L535) when addTier raises, the `except` block puts it back at position 0
#guard raised (exec (replaceTier "a" (.I exWide) .error) exG).1 = some .TextgridStateAutoModified
#guard snapG (exec (replaceTier "a" (.I exWide) .error) exG).2 = snapG exG
-- … and the state the handler starts from is NOT the original one: the rollback does real work
#guard snapG (exec (do let _ ← removeTier "a"; addTier (.I exWide) (some 0) .error) exG).2 ≠ snapG exG
-- the same replacement in 'warning' mode succeeds: the new tier sits at position 0 and the span has widened
#guard (exec (replaceTier "a" (.I exWide) .warning) exG).2.names = ["c", "p", "b"]
#guard (exec (replaceTier "a" (.I exWide) .warning) exG).2.hi = some 7
-- addTier with a bad index (7 > len, -9 < -len) is `list.insert`: clamped, never an IndexError
#guard (exec (addTier (.I exWide) (some 7) .silence) exG).2.names = ["a", "p", "b", "c"]
#guard (exec (addTier (.I exWide) (some (-9)) .silence) exG).2.names = ["c", "a", "p", "b"]
-- an invalid reportingMode on replaceTier is noticed by addTier INSIDE the try, after the removal: WrongOption, rolled back
#guard raised (exec (replaceTierPy "a" (.I exWide) none) exG).1 = some .WrongOption
#guard snapG (exec (replaceTierPy "a" (.I exWide) none) exG).2 = snapG exG
#guard raised (exec (iinsertEntryPy ⟨1, 7, "n"⟩ none (some .silence)) exT).1 = some .WrongOption
-- the seeded variants on the same inputs
#guard snapI (exec (iinsertEntry_mutF ⟨1, 7, "n"⟩ .error .silence) exT).2 = ("a", [⟨1, 2, "x"⟩, ⟨3, 4, "y"⟩], 0, 7)
#guard snapI (exec (iinsertEntry_mutF ⟨1, 7, " n "⟩ .merge .warning) exT).2 = snapI (exec (iinsertEntry ⟨1, 7, " n "⟩ .merge .warning) exT).2
#guard (exec (replaceTier_mutB "a" (.I exWide) .error) exG).2.names = ["p", "b", "a"]
-- why `rep ≠ .error` is a hypothesis: collisionReportingMode='error' (outside the signature's Literal["silence","warning"],
-- but accepted by validateOption) raises AFTER the tier has been modified
#guard raised (exec (iinsertEntry ⟨1, 7, "n"⟩ .replace .error) exT).1 = some .CollisionError
#guard snapI (exec (iinsertEntry ⟨1, 7, "n"⟩ .replace .error) exT).2 = ("a", [⟨1, 7, "n"⟩], 0, 7)
-- why `t.WF` is a hypothesis of `iinsertEntry_atomic`: on a tier holding an unstripped label (not constructible through the
-- class) the second deletion of the `replace` loop raises ValueError after the first one has been carried out
#guard raised (exec (iinsertEntry ⟨1, 4, "n"⟩ .replace .silence) exUnstripped).1 = some .ValueError
#guard snapI (exec (iinsertEntry ⟨1, 4, "n"⟩ .replace .silence) exUnstripped).2 = ("a", [⟨3, 4, " y"⟩], 0, 5)
-- why well-formedness of the renamed tier is a hypothesis of `renameTier_atomic`: `oldTier.new(newName, …)` (L523) validates
-- AFTER `removeTier` (L522); on a tier with overlapping entries (not constructible through the class) the tier is gone
#guard raised (exec (renameTier "a" "z") exBad).1 = some .TextgridStateError
#guard (exec (renameTier "a" "z") exBad).2.names = ["p"]

theorem exT_wf : exT.WF := by
  refine ⟨?_, ?_, ?_, ?_, ?_, ?_⟩ <;> simp [exT, Pos, Disj, Stripped] <;> decide +kernel

/-- **wrong variant 1 (seeded C13-mutF)**, in general: with the span update moved before the collision policy, EVERY colliding
insert in `error` mode leaves the span grown to the rejected entry -/
theorem exec_mutF_collision (t : ITier Int) (hwf : t.WF) (x : Iv Int) (hx : x.s < x.e) (hcol : C11.colliding t x ≠ [])
    (rep : Report) :
    exec (iinsertEntry_mutF x .error rep) t =
      (.error .CollisionError, { t with lo := pyMin2 t.lo x.s, hi := pyMax2 t.hi x.e }) := by
  obtain ⟨mt, hc, hm⟩ := C11.crop_matches t hwf ⟨x.s, x.e, pyStrip x.l⟩ hx
  have hm' : mt.es = C11.colliding t x := hm
  unfold iinsertEntry_mutF
  simp only [exec_bind, exec_get, hc, exec_liftE_ok, exec_modify]
  cases hml : mt.es with
  | nil => rw [hm'] at hml; exact absurd hml hcol
  | cons a as => rfl

/-- … so atomicity FAILS for the variant on a well-formed tier in a documented reporting mode, although on every call that
returns it computes what the code computes and `step = .error e → state unchanged` holds of its functional reading -/
theorem mutF_not_atomic :
    ∃ (t : ITier Int) (x : Iv Int) (e : Err) (t' : ITier Int), t.WF ∧
      exec (iinsertEntry_mutF x .error .silence) t = (.error e, t') ∧ t'.hi ≠ t.hi ∧
      -- the code as it is, on the same input:
      ∀ t'', exec (iinsertEntry x .error .silence) t = (.error e, t'') → t'' = t := by
  have hcol : C11.colliding exT ⟨1, 7, "n"⟩ ≠ [] := by simp [C11.colliding, exT, ov]
  refine ⟨exT, ⟨1, 7, "n"⟩, .CollisionError, _, exT_wf,
    exec_mutF_collision exT exT_wf ⟨1, 7, "n"⟩ (by decide) hcol .silence, ?_, ?_⟩
  · simp [exT, pyMax2]
  · intro t'' h
    exact iinsertEntry_atomic exT exT_wf _ _ _ (by decide) _ _ h

/-- **wrong variant 2 (seeded C13-mutB)**, in general: when `addTier` raises, the rollback `self.addTier(oldTier, 'silence')`
puts the old tier at the END -/
theorem exec_mutB_fail (g : Tg Int) (hnd : g.names.Nodup) (n : String) (t : AnyTier Int) (rep : Report)
    (k : Nat) (old : AnyTier Int) (e : Err) (hk : C12.idxOf g.tiers n = some k)
    (hold : g.tiers.find? (·.name == n) = some old)
    (ha : Tg.addTier ⟨C12.dropName g.tiers n, g.lo, g.hi⟩ t (some (k : Int)) rep = .error e) :
    exec (replaceTier_mutB n t rep) g =
      (.error e, ⟨C12.dropName g.tiers n ++ [old], some (C12.widenLo g.lo old.lo), some (C12.widenHi g.hi old.hi)⟩) := by
  have hnd1 : (C12.namesOf (C12.dropName g.tiers n)).Nodup := C12.nodup_dropName n hnd
  have hp : e.isPraatio = true := by
    rcases C13.addTier_fails_before_mutation _ t _ rep e ha with ⟨_, rfl⟩ | ⟨_, _, rfl⟩ <;> rfl
  have holdn : old.name = n := (C12.find_name hold).2
  have hfr : old.name ∉ Tg.names ⟨C12.dropName g.tiers n, g.lo, g.hi⟩ := by
    rw [holdn]; intro hm; have := (C12.mem_names_dropName.1 hm); simp at this
  unfold replaceTier_mutB
  simp only [exec_bind, exec_get, indexOf_eq, hk, exec_pure, exec_removeTier_raw, hold, exec_tryCatch]
  rw [exec_addTier ⟨C12.dropName g.tiers n, g.lo, g.hi⟩ hnd1, ha]
  simp only [hp, if_true, exec_bind, exec_bind']
  rw [exec_addTier ⟨C12.dropName g.tiers n, g.lo, g.hi⟩ hnd1, C12.addTier_fresh _ _ _ _ hfr]
  simp [C12.insAt]

theorem mutB_not_atomic :
    ∃ (g : Tg Int) (n : String) (t : AnyTier Int) (e : Err) (g' : Tg Int), g.names.Nodup ∧
      exec (replaceTier_mutB n t .error) g = (.error e, g') ∧ g'.names ≠ g.names ∧
      -- the code as it is, on the same input:
      ∀ g'', exec (replaceTier n t .error) g = (.error e, g'') → g'' = g := by
  have hnd : exG.names.Nodup := by simp [exG, Tg.names, AnyTier.name, exT, exP, exB]
  have hk : C12.idxOf exG.tiers "a" = some 0 := by
    simp only [C12.idxOf, C12.namesOf, exG, List.map, AnyTier.name, exT, exP, exB]; decide
  have hold : exG.tiers.find? (·.name == "a") = some (.I exT) := by simp [exG, AnyTier.name, exT]
  have ha : Tg.addTier ⟨C12.dropName exG.tiers "a", exG.lo, exG.hi⟩ (.I exWide) (some ((0 : Nat) : Int)) .error
      = .error .TextgridStateAutoModified := by
    apply C12.addTier_report
    · simp [Tg.names, C12.dropName, exG, AnyTier.name, exT, exP, exB, exWide]
    · simp [C12.spanChanges, exG, AnyTier.hi, AnyTier.lo, exWide]
  refine ⟨exG, "a", .I exWide, .TextgridStateAutoModified, _, hnd,
    exec_mutB_fail exG hnd "a" (.I exWide) .error 0 (.I exT) _ hk hold ha, ?_, ?_⟩
  · simp [Tg.names, C12.dropName, exG, AnyTier.name, exT, exP, exB]
  · intro g'' h
    exact replaceTier_atomic exG hnd _ _ _ _ _ h

end C13
