import PraatModel.Props.C04

/-!
# C04 — the full functional specification of the save preparation (list level, exact arithmetic)

`Props/C04.lean` proves that blank filling and sliver absorption produce tilings.  This file states *which* tiling:

* `fillInBlanks_eq`     — `_fillInBlanks` is the explicit pure function `fillSpec` (entries verbatim, a blank in every
                          unlabelled stretch of `[lo, hi]`);
* `removeUltrashort_spec` — on a tiling of `[lo, hi]`, `_removeUltrashortIntervals` is `kept`: the intervals at least `m`
                          long survive, each with its own label; the first one starts at `lo`, every other one at its own
                          start; each ends where the next survivor starts, the last at `hi`; when there are intervals
                          but none survives, the single blank over `[lo, hi]` is written;
* the sentences of the property derived from the rule (`labels_kept`, `removeUltrashort_at`, `boundary_moves_over_slivers`,
  `removeUltrashort_all_slivers`, `no_short_output`), and
* the same at the level of `_prepTgForSaving` (`prep_ok`, `prep_outside_iff`, `prep_span`, `prep_headers`, `prep_verbatim`, …).

The model follows /repo after the repairs A25 (every interval a sliver), A26 (span of length zero), A27 (override and the
tiers' own span; reversed request); the former counter-examples are the `…_regression` theorems at the end.
-/
namespace C04

/-! ## `_fillInBlanks` as an explicit function -/

/-- entries verbatim, a blank in every unlabelled stretch of `[lo, hi]` (the oracle's `fill` of harness/props/C04.py);
a span of length zero holds no interval -/
def fillSpec (es : List (Iv Int)) (lo hi : Int) : List (Iv Int) :=
  match es with
  | [] => if lo < hi then [⟨lo, hi, ""⟩] else []
  | _ => fillGaps lo es ++ (if endOf lo es < hi then [⟨endOf lo es, hi, ""⟩] else [])

def labelled (e : Iv Int) : Bool := e.l != ""
def isLong (m : Int) (e : Iv Int) : Bool := decide (m ≤ e.e - e.s)

/-- the last element of `e :: rest` -/
def lastD (e : Iv Int) : List (Iv Int) → Iv Int
  | [] => e
  | x :: xs => lastD x xs

theorem lastD_mem (e : Iv Int) (rest : List (Iv Int)) : lastD e rest ∈ e :: rest := by
  induction rest generalizing e with
  | nil => simp [lastD]
  | cons x xs ih => exact List.mem_cons_of_mem _ (ih x)

theorem lastD_end (p : Int) (e : Iv Int) (rest : List (Iv Int)) : (lastD e rest).e = endOf p (e :: rest) := by
  induction rest generalizing p e with
  | nil => rfl
  | cons x xs ih => exact ih e.e x

theorem fillGaps_getLast (p : Int) (e : Iv Int) (rest : List (Iv Int)) :
    (fillGaps p (e :: rest)).getLast? = some (lastD e rest) := by
  induction rest generalizing p e with
  | nil => simp [fillGaps, lastD, List.getLast?_append]
  | cons x xs ih =>
    rw [fillGaps, List.getLast?_append, List.getLast?_cons, ih e.e x]
    simp [lastD]

theorem withHead_eq (lo : Int) (first : Iv Int) (rest : List (Iv Int)) :
    withHead lo first (first :: fillGaps first.e rest) = fillGaps lo (first :: rest) := by
  unfold withHead; rw [fillGaps]; split <;> rfl

theorem fillInBlanks_match (es : List (Iv Int)) (lo hi : Int) :
    fillInBlanks es lo hi =
      match es with
      | [] => .ok (if lo < hi then [⟨lo, hi, ""⟩] else [])
      | first :: rest =>
        if first.s < lo then .error .ParsingError
        else if hi < (lastD first rest).e then .error .ParsingError
        else .ok (sortIvs (fillSpec (first :: rest) lo hi)) := by
  cases es with
  | nil =>
    by_cases h : lo < hi
    · simp [fillInBlanks, fillGaps, withHead, withTail, sortIvs, h]
    · simp [fillInBlanks, h]
  | cons first rest =>
    unfold fillInBlanks
    simp only [List.isEmpty_cons, Bool.false_and, Bool.false_eq_true, if_false]
    by_cases h1 : first.s < lo
    · simp [h1]
    · simp only [h1, if_false]
      rw [withHead_eq, fillGaps_getLast]
      simp only
      by_cases h2 : hi < (lastD first rest).e
      · simp [h2]
      · rw [lastD_end lo first rest] at h2
        simp only [withTail, fillSpec, lastD_end lo first rest, h2, if_false]
        split <;> simp

/-- **`_fillInBlanks`, every input**: an empty tier becomes one blank over the requested span when `lo < hi` and stays
empty otherwise; a non-empty one raises `ParsingError` exactly when its first entry starts before `lo` or its last entry ends after `hi`, and
otherwise is `fillSpec` (then sorted) -/
theorem fillInBlanks_cases (lo hi : Int) :
    fillInBlanks [] lo hi = .ok (if lo < hi then [⟨lo, hi, ""⟩] else []) ∧
    ∀ (first : Iv Int) (rest : List (Iv Int)), fillInBlanks (first :: rest) lo hi =
      if first.s < lo then .error .ParsingError
      else if hi < (lastD first rest).e then .error .ParsingError
      else .ok (sortIvs (fillSpec (first :: rest) lo hi)) :=
  ⟨fillInBlanks_match [] lo hi, fun first rest => fillInBlanks_match (first :: rest) lo hi⟩

/-- a time-ordered tier inside a span of length zero (or less) is empty -/
theorem empty_of_no_room (es : List (Iv Int)) (lo hi : Int) (hlh : hi ≤ lo) (hp : Pos es)
    (hin : ∀ e ∈ es, lo ≤ e.s ∧ e.e ≤ hi) : es = [] := by
  cases es with
  | nil => rfl
  | cons e rest => have := hp e (by simp); have := hin e (by simp); omega

theorem fillSpec_chain (es : List (Iv Int)) (lo hi : Int) (hlh : lo ≤ hi) (hp : Pos es) (hd : Disj es)
    (hin : ∀ e ∈ es, lo ≤ e.s ∧ e.e ≤ hi) : Chain lo hi (fillSpec es lo hi) := by
  cases es with
  | nil =>
    simp only [fillSpec]
    split
    · exact chain_single lo hi "" (by assumption)
    · show lo = hi; omega
  | cons first rest =>
    have h1 := fillGaps_chain lo (first :: rest) hp hd (fun e he => (hin e he).1)
    have h2 : endOf lo (first :: rest) ≤ hi := endOf_le lo _ hi (by omega) (fun e he => (hin e he).2)
    simp only [fillSpec]
    split
    · exact h1.append (chain_single _ _ _ (by assumption))
    · have : endOf lo (first :: rest) = hi := by omega
      rw [List.append_nil, ← this]; exact h1

/-- **blank filling is `fillSpec`** for a time-ordered tier inside `[lo, hi]`, `lo ≤ hi` -/
theorem fillInBlanks_eq (es : List (Iv Int)) (lo hi : Int) (hlh : lo ≤ hi) (hp : Pos es) (hd : Disj es)
    (hin : ∀ e ∈ es, lo ≤ e.s ∧ e.e ≤ hi) : fillInBlanks es lo hi = .ok (fillSpec es lo hi) := by
  have hc := fillSpec_chain es lo hi hlh hp hd hin
  rw [fillInBlanks_match]
  cases es with
  | nil => rfl
  | cons first rest =>
    have h1 := (hin first (by simp)).1
    have h2 := (hin _ (lastD_mem first rest)).2
    simp only [show ¬ first.s < lo by omega, show ¬ hi < (lastD first rest).e by omega, if_false, hc.sorted]

/-- blank filling keeps every entry and adds only blanks: any selection that never selects a blank selects the same
entries, in the same order, before and after -/
theorem fillGaps_filter (q : Iv Int → Bool) (hq : ∀ a b, q ⟨a, b, ""⟩ = false) (p : Int) (es : List (Iv Int)) :
    (fillGaps p es).filter q = es.filter q := by
  induction es generalizing p with
  | nil => rfl
  | cons e rest ih =>
    rw [fillGaps, List.filter_append, List.filter_cons (x := e), List.filter_cons (x := e), ih e.e]
    split <;> simp [hq]

/-- blank filling keeps every entry, in order, and adds only blanks: a selection `q` that never selects a blank selects
the same intervals from the filled tier as from the tier (no hypothesis on the tier or the span) -/
theorem fillSpec_filter (q : Iv Int → Bool) (hq : ∀ a b, q ⟨a, b, ""⟩ = false) (es : List (Iv Int)) (lo hi : Int) :
    (fillSpec es lo hi).filter q = es.filter q := by
  cases es with
  | nil => simp only [fillSpec]; split <;> simp [hq]
  | cons first rest =>
    simp only [fillSpec]
    rw [List.filter_append, fillGaps_filter q hq]
    split <;> simp [hq]

theorem fillSpec_labelled (es : List (Iv Int)) (lo hi : Int) : (fillSpec es lo hi).filter labelled = es.filter labelled :=
  fillSpec_filter labelled (fun _ _ => rfl) es lo hi

/-! ## `_removeUltrashortIntervals` as an explicit function -/

/-- the survivors re-spanned: the first starts at `p`, each ends where the next one starts, the last ends at `hi`; labels
are kept -/
def respan (p hi : Int) : List (Iv Int) → List (Iv Int)
  | [] => []
  | [x] => [⟨p, hi, x.l⟩]
  | x :: y :: rest => ⟨p, y.s, x.l⟩ :: respan y.s hi (y :: rest)

theorem respan_head (p hi : Int) (a b : Iv Int) (l : List (Iv Int)) (h : a.l = b.l) :
    respan p hi (a :: l) = respan p hi (b :: l) := by
  cases l <;> simp [respan, h]

theorem absorb_acc (m lo hi : Int) (es : List (Iv Int)) (last : Iv Int) (before : List (Iv Int)) (h : Chain last.e hi es) :
    absorbShort m lo (last :: before) es = before.reverse ++ respan last.s hi (last :: es.filter (isLong m)) := by
  induction es generalizing last before with
  | nil =>
    have : last.e = hi := h
    obtain ⟨s, e, l⟩ := last
    simp only at this; subst this
    simp [absorbShort, respan]
  | cons x rest ih =>
    obtain ⟨h1, h2, h3⟩ := h
    by_cases hs : x.e - x.s < m
    · have hl : isLong m x = false := by simp [isLong]; omega
      simp only [absorbShort, hs, if_true, List.filter_cons, hl, Bool.false_eq_true, if_false]
      rw [ih ⟨last.s, x.e, last.l⟩ before h3]
      rw [respan_head last.s hi ⟨last.s, x.e, last.l⟩ last _ rfl]
    · have hl : isLong m x = true := by simp [isLong]; omega
      simp only [absorbShort, hs, if_false, List.filter_cons, hl, if_true]
      rw [ih x (last :: before) h3]
      obtain ⟨s, e, l⟩ := last
      simp only at h1
      simp [respan, h1]

theorem absorb_nil (m lo hi cur : Int) (es : List (Iv Int)) (h : Chain cur hi es) :
    absorbShort m lo [] es = respan lo hi (es.filter (isLong m)) := by
  induction es generalizing cur with
  | nil => rfl
  | cons x rest ih =>
    obtain ⟨h1, h2, h3⟩ := h
    by_cases hs : x.e - x.s < m
    · have hl : isLong m x = false := by simp [isLong]; omega
      simp only [absorbShort, hs, if_true, List.filter_cons, hl, Bool.false_eq_true, if_false]
      exact ih x.e h3
    · have hl : isLong m x = true := by simp [isLong]; omega
      simp only [absorbShort, hs, if_false, List.filter_cons, hl, if_true]
      have key : ∀ f : Iv Int, f.s = lo → f.e = x.e → f.l = x.l →
          absorbShort m lo [f] rest = respan lo hi (x :: rest.filter (isLong m)) := by
        intro f f1 f2 f3
        rw [absorb_acc m lo hi rest f [] (by rw [f2]; exact h3), f1]
        simpa using respan_head lo hi f x _ f3
      split
      · exact key _ rfl rfl rfl
      · rename_i hne
        exact key x (by simpa using hne) rfl rfl

theorem loops_spec (m lo hi : Int) (es : List (Iv Int)) (h : Chain lo hi es) :
    stitch m (absorbShort m lo [] es) = respan lo hi (es.filter (isLong m)) := by
  have hs := absorbShort_spec m lo hi es [] lo (fun h' => absurd rfl h') (by intro x hx; simp at hx) (fun _ => by omega) h
  rw [← absorb_nil m lo hi lo es h]
  rcases hs with ⟨h1, _⟩ | ⟨_, h2, _⟩
  · rw [h1]; rfl
  · exact stitch_chain m lo hi _ h2

/-- what the save keeps of a tiling of `[lo, hi]`: the intervals at least `m` long, re-spanned — or, when there is an
interval but none that long, one blank over `[lo, hi]` -/
def kept (m lo hi : Int) (es : List (Iv Int)) : List (Iv Int) :=
  if (es.filter (isLong m)).isEmpty && !es.isEmpty then [⟨lo, hi, ""⟩] else respan lo hi (es.filter (isLong m))

theorem respan_labels (p hi : Int) (l : List (Iv Int)) : (respan p hi l).map (·.l) = l.map (·.l) := by
  induction l generalizing p with
  | nil => rfl
  | cons x xs ih =>
    cases xs with
    | nil => rfl
    | cons y ys => simp only [respan, List.map_cons]; rw [ih y.s]; rfl

theorem respan_length (p hi : Int) (l : List (Iv Int)) : (respan p hi l).length = l.length := by
  have := congrArg List.length (respan_labels p hi l); simpa using this

/-- **the exact rule of `_removeUltrashortIntervals`** on a tiling of `[lo, hi]` (what `_fillInBlanks` hands it): the
intervals at least `m` long survive — all of them, nothing else — each with its own label; the first survivor starts at
`lo`, every other one at its own start, each ends where the next survivor starts and the last one at `hi`.  Hence a run
of slivers after a survivor is absorbed into that survivor (the *preceding* neighbour, labelled or not), a run of slivers
at the very start into the first survivor (the *following* neighbour), and the label of a sliver is always dropped.
When there are intervals but none survives, the result is the single blank `⟨lo, hi, ""⟩`.  No hypothesis on `m`. -/
theorem removeUltrashort_spec (m lo hi : Int) (es : List (Iv Int)) (h : Chain lo hi es) :
    removeUltrashort es m lo = kept m lo hi es := by
  rw [removeUltrashort_unfold, loops_spec m lo hi es h, kept]
  cases hf : es.filter (isLong m) with
  | nil =>
    cases es with
    | nil => rfl
    | cons e rest =>
      obtain ⟨lst, hl1, hl2⟩ := chain_last (e :: rest) lo hi (by simp) h
      simp [respan, hl1, hl2]
  | cons a l =>
    have : (respan lo hi (a :: l)).isEmpty = false := by
      cases hr : respan lo hi (a :: l) with
      | nil => have := respan_length lo hi (a :: l); rw [hr] at this; simp at this
      | cons _ _ => rfl
    simp [this]

theorem kept_of_long (m lo hi : Int) (es : List (Iv Int)) (h : es.filter (isLong m) ≠ []) :
    kept m lo hi es = respan lo hi (es.filter (isLong m)) := by
  unfold kept
  cases hf : es.filter (isLong m) with
  | nil => exact absurd hf h
  | cons _ _ => rfl

theorem kept_all_slivers (m lo hi : Int) (es : List (Iv Int)) (hne : es ≠ []) (h : es.filter (isLong m) = []) :
    kept m lo hi es = [⟨lo, hi, ""⟩] := by
  unfold kept
  cases es with
  | nil => exact absurd rfl hne
  | cons _ _ => rw [h]; rfl

theorem filter_long_nil_iff (m : Int) (es : List (Iv Int)) : es.filter (isLong m) = [] ↔ ∀ e ∈ es, e.e - e.s < m := by
  simp only [List.filter_eq_nil_iff, isLong, decide_eq_true_eq]
  exact ⟨fun h e he => by have := h e he; omega, fun h e he => by have := h e he; omega⟩

/-- (c) the written labels are exactly the labels of the intervals at least `m` long, in order (blank ones included):
no long interval loses its label, no written interval carries the label of a sliver — and when no interval is that long
the one written interval is a blank -/
theorem labels_exact (m lo hi : Int) (es : List (Iv Int)) (h : Chain lo hi es) :
    (removeUltrashort es m lo).map (·.l) =
      if (es.filter (isLong m)).isEmpty && !es.isEmpty then [""] else (es.filter (isLong m)).map (·.l) := by
  rw [removeUltrashort_spec m lo hi es h, kept]
  split
  · rfl
  · exact respan_labels _ _ _

theorem filter_labelled_map (l : List (Iv Int)) : (l.filter labelled).map (·.l) = (l.map (·.l)).filter (· != "") := by
  rw [List.filter_map]; rfl

/-- (a) every labelled interval at least `m` long is written with its label, in order, and no other label is written -/
theorem labels_kept (m lo hi : Int) (es : List (Iv Int)) (h : Chain lo hi es) :
    ((removeUltrashort es m lo).filter labelled).map (·.l) =
      (es.filter (fun e => isLong m e && labelled e)).map (·.l) := by
  have e1 : es.filter (fun e => isLong m e && labelled e) = (es.filter (isLong m)).filter labelled := by
    rw [List.filter_filter]; apply List.filter_congr; intro x _; exact Bool.and_comm _ _
  rw [filter_labelled_map, labels_exact m lo hi es h, e1]
  split
  · rename_i hc
    simp only [Bool.and_eq_true, List.isEmpty_iff] at hc
    rw [hc.1]; rfl
  · rw [← filter_labelled_map]

/-- where the next survivor starts -/
def nextStart (hi : Int) : List (Iv Int) → Int
  | [] => hi
  | y :: _ => y.s

theorem respan_at (hi : Int) (A B : List (Iv Int)) (x : Iv Int) (p : Int) :
    (respan p hi (A ++ x :: B))[A.length]? = some ⟨if A = [] then p else x.s, nextStart hi B, x.l⟩ := by
  induction A generalizing p with
  | nil => cases B <;> simp [respan, nextStart]
  | cons a A' ih =>
    cases hA : A' ++ x :: B with
    | nil => simp at hA
    | cons y t =>
      have := ih y.s
      rw [hA] at this
      simp only [List.cons_append, hA, respan, List.length_cons, List.getElem?_cons_succ, this]
      cases A' with
      | nil => simp only [List.nil_append, List.cons.injEq] at hA; simp [hA.1]
      | cons _ _ => simp

theorem chain_split {p r : Int} {pre post : List (Iv Int)} {x : Iv Int} (h : Chain p r (pre ++ x :: post)) :
    Chain p x.s pre ∧ x.s < x.e ∧ Chain x.e r post := by
  induction pre generalizing p with
  | nil => exact ⟨h.1.symm, h.2.1, h.2.2⟩
  | cons a as ih =>
    obtain ⟨i1, i2, i3⟩ := ih h.2.2
    exact ⟨⟨h.1, h.2.1, i1⟩, i2, i3⟩

theorem nextStart_run (m hi cur : Int) (post : List (Iv Int)) (h : Chain cur hi post) :
    nextStart hi (post.filter (isLong m)) = endOf cur (post.takeWhile fun e => !isLong m e) := by
  induction post generalizing cur with
  | nil => exact (show cur = hi from h).symm
  | cons e rest ih =>
    obtain ⟨h1, _, h3⟩ := h
    cases hl : isLong m e with
    | true => simp [hl, nextStart, endOf, h1]
    | false => simp only [List.filter_cons, List.takeWhile_cons, hl, Bool.false_eq_true, if_false, Bool.not_false, if_true, endOf]; exact ih e.e h3

theorem endOf_chain (cur : Int) (l : List (Iv Int)) (r : Int) (h : Chain cur r l) : endOf cur l = r := by
  induction l generalizing cur with
  | nil => exact h
  | cons e rest ih => exact ih e.e h.2.2

theorem chain_prefix (cur r : Int) (l1 l2 : List (Iv Int)) (h : Chain cur r (l1 ++ l2)) : Chain cur (endOf cur l1) l1 := by
  induction l1 generalizing cur with
  | nil => rfl
  | cons e rest ih => exact ⟨h.1, h.2.1, ih e.e h.2.2⟩

theorem mem_takeWhile_sat {α : Type} (p : α → Bool) (l : List α) (x : α) (h : x ∈ l.takeWhile p) : p x = true := by
  induction l with
  | nil => simp at h
  | cons a as ih =>
    rw [List.takeWhile_cons] at h
    split at h
    · rcases List.mem_cons.1 h with rfl | h'
      · assumption
      · exact ih h'
    · simp at h

/-- (b) **where a long interval ends up**: an interval `x` at least `m` long, anywhere in a tiling, is written at the
position of its rank among the long intervals, with its label; its start is `lo` when it is the first long interval
and its own start otherwise; its end is the end of the maximal run of slivers that follows it (its own end when no sliver
follows) -/
theorem removeUltrashort_at (m lo hi : Int) (pre post : List (Iv Int)) (x : Iv Int) (h : Chain lo hi (pre ++ x :: post))
    (hx : m ≤ x.e - x.s) :
    (removeUltrashort (pre ++ x :: post) m lo)[(pre.filter (isLong m)).length]? =
      some ⟨if pre.filter (isLong m) = [] then lo else x.s, endOf x.e (post.takeWhile fun e => !isLong m e), x.l⟩ := by
  have hl : isLong m x = true := by simp [isLong]; omega
  have hf : (pre ++ x :: post).filter (isLong m) = pre.filter (isLong m) ++ x :: post.filter (isLong m) := by
    rw [List.filter_append, List.filter_cons, hl, if_pos rfl]
  rw [removeUltrashort_spec m lo hi _ h, kept_of_long _ _ _ _ (by rw [hf]; simp), hf, respan_at,
    nextStart_run m hi x.e post (chain_split h).2.2]

/-- (b) **a boundary moves only across slivers**: the written copy `o` of a long interval `x` has `x`'s label;
`o.s = x.s` unless everything before `x` is a sliver, and then `o.s = lo` with the stretch `[lo, x.s]` tiled by those
slivers; `o.e = x.e` unless a sliver follows `x`, and then `[x.e, o.e]` is tiled by the maximal run of slivers after `x` -/
theorem boundary_moves_over_slivers (m lo hi : Int) (pre post : List (Iv Int)) (x : Iv Int)
    (h : Chain lo hi (pre ++ x :: post)) (hx : m ≤ x.e - x.s) :
    ∃ o, (removeUltrashort (pre ++ x :: post) m lo)[(pre.filter (isLong m)).length]? = some o ∧ o.l = x.l ∧
      o.s = (if ∀ e ∈ pre, e.e - e.s < m then lo else x.s) ∧ Chain lo x.s pre ∧
      (∃ run rest, post = run ++ rest ∧ (∀ e ∈ run, e.e - e.s < m) ∧ (∀ y ∈ rest.head?, m ≤ y.e - y.s) ∧
        Chain x.e o.e run ∧ (run = [] → o.e = x.e)) := by
  refine ⟨_, removeUltrashort_at m lo hi pre post x h hx, rfl, ?_, (chain_split h).1, ?_⟩
  · simp only [filter_long_nil_iff]
  · refine ⟨post.takeWhile fun e => !isLong m e, post.dropWhile fun e => !isLong m e, (List.takeWhile_append_dropWhile).symm,
      ?_, ?_, ?_, ?_⟩
    · intro e he
      have := mem_takeWhile_sat _ _ _ he
      simp [isLong] at this; omega
    · intro y hy
      have := List.head?_dropWhile_not (fun e => !isLong m e) post
      rw [Option.mem_def.1 hy] at this
      simpa [isLong] using this
    · have hc := (chain_split h).2.2
      rw [← List.takeWhile_append_dropWhile (p := fun e => !isLong m e) (l := post)] at hc
      exact chain_prefix x.e hi _ _ hc
    · intro hr; simp only [hr, endOf]

/-- (d) **every interval a sliver**: the tiling is replaced by the single blank over `[lo, hi]` — and that is the only
way the blank arises; an empty result comes from an empty input only -/
theorem removeUltrashort_all_slivers (m lo hi : Int) (es : List (Iv Int)) (h : Chain lo hi es) :
    (es ≠ [] → (∀ e ∈ es, e.e - e.s < m) → removeUltrashort es m lo = [⟨lo, hi, ""⟩]) ∧
    (removeUltrashort es m lo = [] ↔ es = []) := by
  rw [removeUltrashort_spec m lo hi es h]
  refine ⟨fun hne hs => kept_all_slivers m lo hi es hne ((filter_long_nil_iff m es).2 hs), ?_, ?_⟩
  · intro h0
    cases hf : es.filter (isLong m) with
    | nil =>
      cases es with
      | nil => rfl
      | cons e rest => rw [kept_all_slivers m lo hi _ (by simp) hf] at h0; cases h0
    | cons a l =>
      rw [kept_of_long m lo hi es (by rw [hf]; simp), hf] at h0
      have := respan_length lo hi (a :: l); rw [h0] at this; simp at this
  · rintro rfl; rfl

/-- (d) **no written interval is shorter than the threshold — unless the span itself is**: of a non-empty tiling the save
keeps a tiling of `[lo, hi]`; every written interval is at least `m` long, except that when `hi - lo < m` exactly one
interval is written, the blank over `[lo, hi]` -/
theorem no_short_output (m lo hi : Int) (es : List (Iv Int)) (h : Chain lo hi es) (hne : es ≠ []) :
    Chain lo hi (removeUltrashort es m lo) ∧ removeUltrashort es m lo ≠ [] ∧
    (m ≤ hi - lo → ∀ o ∈ removeUltrashort es m lo, m ≤ o.e - o.s) ∧
    (hi - lo < m → removeUltrashort es m lo = [⟨lo, hi, ""⟩]) := by
  obtain ⟨h1, h2, h3⟩ := removeUltrashort_tiles m lo hi es h hne
  refine ⟨h2, h1, ?_, ?_⟩
  · intro hm o ho
    rcases h3 with h3 | h3
    · exact h3 o ho
    · rw [h3] at ho; simp only [List.mem_singleton] at ho; subst ho; exact hm
  · intro hshort
    exact (removeUltrashort_all_slivers m lo hi es h).1 hne (fun e he => by have := h.bounds e he; omega)

/-! ## `_prepTgForSaving` -/

section
variable {α : Type} [LT α] [LE α] [DecidableLT α] [DecidableLE α] [BEq α] [Add α] [Sub α] [Tm α]

/-- the requested span: the override when given, else the textgrid's -/
def eff (ov d : Option α) : Option α := match ov with | some m => some m | none => d

/-- a tier's own span line under an override -/
def ovr (ov : Option α) (own : α) : α := match ov with | some m => m | none => own

/-- `_sortEntries` on one tier, and the override written to its `xmin`/`xmax` -/
def sortTier (minOv maxOv : Option α) : AnyTier α → AnyTier α
  | .I t => .I { t with es := sortIvs t.es, lo := ovr minOv t.lo, hi := ovr maxOv t.hi }
  | .P t => .P { t with ps := sortPts t.ps, lo := ovr minOv t.lo, hi := ovr maxOv t.hi }

/-- "The min time specified for the textgrid is larger than the max time." -/
def reversed (minT maxT : Option α) : Bool :=
  match minT, maxT with | some a, some b => decide (b < a) | _, _ => false

/-- what `_prepTgForSaving` does to one (sorted) tier after the span checks -/
def prepTier (blanks : Bool) (minT maxT : Option α) (minLen : Option α) : AnyTier α → Except Err (AnyTier α)
  | .P t => pure (AnyTier.P t)
  | .I t =>
    if blanks then
      match minT, maxT with
      | some lo, some hi => do
        let filled ← fillInBlanks t.es lo hi
        let es := match minLen with
          | some ml => removeUltrashort filled ml lo
          | none => filled
        pure (AnyTier.I { t with es := sortIvs es })
      | _, _ => throw .ValueError
    else pure (AnyTier.I t)
end

/-- `_prepTgForSaving` is: sort every tier and give it the override as its own span; raise `ParsingError` if the requested
span runs backwards or an entry lies outside it; otherwise `prepTier` on every tier, and the requested span as the file's -/
theorem prepTg_eq (g : Tg Int) (blanks : Bool) (minOv maxOv minLen : Option Int) :
    prepTg g blanks minOv maxOv minLen =
      if reversed (eff minOv g.lo) (eff maxOv g.hi) then .error .ParsingError
      else if (g.tiers.map (sortTier minOv maxOv)).any (fun t => t.outside (eff minOv g.lo) (eff maxOv g.hi)) then
        .error .ParsingError
      else ((g.tiers.map (sortTier minOv maxOv)).mapM (prepTier blanks (eff minOv g.lo) (eff maxOv g.hi) minLen)) >>=
        (fun tiers => pure ⟨tiers, eff minOv g.lo, eff maxOv g.hi⟩) := by
  unfold prepTg
  rfl

theorem mapM_ok' {β γ : Type} (f : β → Except Err γ) (g : β → γ) (l : List β) (h : ∀ a ∈ l, f a = .ok (g a)) :
    l.mapM f = .ok (l.map g) := by
  induction l with
  | nil => rfl
  | cons a l ih =>
    rw [List.mapM_cons, h a (by simp), ih (fun b hb => h b (List.mem_cons_of_mem _ hb))]
    rfl

theorem mapM_err {β γ : Type} (f : β → Except Err γ) (l : List β) (e : Err) (h : l.mapM f = .error e) :
    ∃ a ∈ l, f a = .error e := by
  induction l with
  | nil => cases h
  | cons a l ih =>
    rw [List.mapM_cons] at h
    cases hfa : f a with
    | error e' =>
      rw [hfa] at h
      have : e' = e := by cases h; rfl
      exact ⟨a, by simp, by rw [← this]; exact hfa⟩
    | ok b =>
      rw [hfa] at h
      cases hl : l.mapM f with
      | error e' =>
        rw [hl] at h
        have : e' = e := by cases h; rfl
        obtain ⟨x, hx, hfx⟩ := ih (by rw [← this]; exact hl)
        exact ⟨x, List.mem_cons_of_mem _ hx, hfx⟩
      | ok bs => rw [hl] at h; cases h

theorem mapM_keeps {β δ : Type} (f : β → Except Err β) (k : β → δ) (l ts : List β) (h : l.mapM f = .ok ts)
    (hR : ∀ a b, f a = .ok b → k b = k a) : ts.map k = l.map k := by
  induction l generalizing ts with
  | nil => cases h; rfl
  | cons a l ih =>
    rw [List.mapM_cons] at h
    cases hfa : f a with
    | error e => rw [hfa] at h; cases h
    | ok b =>
      rw [hfa] at h
      cases hl : l.mapM f with
      | error e => rw [hl] at h; cases h
      | ok bs =>
        rw [hl] at h
        cases h
        simp only [List.map_cons, hR a b hfa, ih bs hl]

/-- the requested span runs backwards -/
def Rev (minT maxT : Option Int) : Prop := ∃ a b, minT = some a ∧ maxT = some b ∧ b < a

theorem reversed_iff (minT maxT : Option Int) : reversed minT maxT = true ↔ Rev minT maxT := by
  cases minT <;> cases maxT <;> simp [reversed, Rev]

/-- **the override becomes the file's span** — every successful save; and that span does not run backwards -/
theorem prep_span (g g' : Tg Int) (blanks : Bool) (minOv maxOv minLen : Option Int)
    (h : prepTg g blanks minOv maxOv minLen = .ok g') :
    g'.lo = eff minOv g.lo ∧ g'.hi = eff maxOv g.hi ∧ ¬ Rev (eff minOv g.lo) (eff maxOv g.hi) := by
  rw [prepTg_eq] at h
  split at h
  · cases h
  · rename_i hr
    split at h
    · cases h
    · cases hm : (g.tiers.map (sortTier minOv maxOv)).mapM (prepTier blanks (eff minOv g.lo) (eff maxOv g.hi) minLen) with
      | error e => rw [hm] at h; cases h
      | ok ts => rw [hm] at h; cases h; exact ⟨rfl, rfl, fun hh => hr ((reversed_iff _ _).2 hh)⟩

theorem any_sortIvs (es : List (Iv Int)) (p : Iv Int → Bool) : (sortIvs es).any p = es.any p := by
  rw [Bool.eq_iff_iff]; simp only [List.any_eq_true]
  exact ⟨fun ⟨x, hx, hp⟩ => ⟨x, mem_sortIvs.1 hx, hp⟩, fun ⟨x, hx, hp⟩ => ⟨x, mem_sortIvs.2 hx, hp⟩⟩

theorem any_sortPts (ps : List (Pt Int)) (p : Pt Int → Bool) : (sortPts ps).any p = ps.any p := by
  rw [Bool.eq_iff_iff]; simp only [List.any_eq_true]
  exact ⟨fun ⟨x, hx, hp⟩ => ⟨x, List.mem_mergeSort.1 hx, hp⟩, fun ⟨x, hx, hp⟩ => ⟨x, List.mem_mergeSort.2 hx, hp⟩⟩

theorem outside_sortTier (t : AnyTier Int) (o1 o2 a b : Option Int) : (sortTier o1 o2 t).outside a b = t.outside a b := by
  cases t with
  | I t => exact any_sortIvs _ _
  | P t => exact any_sortPts _ _

/-- an entry of tier `t` lies outside the requested span -/
def Sticks (t : AnyTier Int) (minT maxT : Option Int) : Prop :=
  match t with
  | .I t => ∃ iv ∈ t.es, (∃ m, minT = some m ∧ iv.s < m) ∨ (∃ m, maxT = some m ∧ m < iv.e)
  | .P t => ∃ p ∈ t.ps, (∃ m, minT = some m ∧ p.t < m) ∨ (∃ m, maxT = some m ∧ m < p.t)

theorem outside_iff (t : AnyTier Int) (minT maxT : Option Int) : t.outside minT maxT = true ↔ Sticks t minT maxT := by
  cases t <;> cases minT <;> cases maxT <;> simp [AnyTier.outside, Sticks]

theorem any_outside_iff (g : Tg Int) (o1 o2 a b : Option Int) :
    (g.tiers.map (sortTier o1 o2)).any (fun t => t.outside a b) = true ↔ ∃ t ∈ g.tiers, Sticks t a b := by
  simp only [List.any_map, List.any_eq_true, Function.comp, outside_sortTier, outside_iff]

/-- a sorted interval tier with nothing outside `[lo, hi]` is never rejected by `_fillInBlanks` -/
theorem fillInBlanks_inside_ok (es : List (Iv Int)) (lo hi : Int) (hin : ∀ e ∈ es, lo ≤ e.s ∧ e.e ≤ hi) :
    ∃ f, fillInBlanks es lo hi = .ok f := by
  rw [fillInBlanks_match]
  cases es with
  | nil => exact ⟨_, rfl⟩
  | cons first rest =>
    have h1 := (hin first (by simp)).1
    have h2 := (hin _ (lastD_mem first rest)).2
    simp only [show ¬ first.s < lo by omega, show ¬ hi < (lastD first rest).e by omega, if_false]
    exact ⟨_, rfl⟩

theorem not_sticks_inside (t : ITier Int) (lo hi : Int) (h : ¬ Sticks (.I t) (some lo) (some hi)) :
    ∀ e ∈ t.es, lo ≤ e.s ∧ e.e ≤ hi := by
  intro e he
  simp only [Sticks, not_exists, not_and, not_or] at h
  have := h e he
  exact ⟨by have := this.1 lo rfl; omega, by have := this.2 hi rfl; omega⟩

/-- every error of the save: `ParsingError` when the requested span runs backwards or an entry sticks out of it;
otherwise `ValueError` (Python: `float(None)`… the model's name for it) when blank filling is on, an interval tier is
present and a bound is missing; nothing else -/
theorem prep_error_cases (g : Tg Int) (blanks : Bool) (minOv maxOv minLen : Option Int) (e : Err)
    (h : prepTg g blanks minOv maxOv minLen = .error e) :
    (e = .ParsingError ∧ (Rev (eff minOv g.lo) (eff maxOv g.hi) ∨ ∃ t ∈ g.tiers, Sticks t (eff minOv g.lo) (eff maxOv g.hi))) ∨
    (e = .ValueError ∧ blanks = true ∧ (∃ t ∈ g.tiers, t.isInterval = true) ∧
      (eff minOv g.lo = none ∨ eff maxOv g.hi = none)) := by
  rw [prepTg_eq] at h
  split at h
  · rename_i hr; cases h; exact Or.inl ⟨rfl, Or.inl ((reversed_iff _ _).1 hr)⟩
  · split at h
    · rename_i hc; cases h; exact Or.inl ⟨rfl, Or.inr ((any_outside_iff g _ _ _ _).1 hc)⟩
    · rename_i hc
      have hp : ¬ ∃ t ∈ g.tiers, Sticks t (eff minOv g.lo) (eff maxOv g.hi) := fun hh => hc ((any_outside_iff g _ _ _ _).2 hh)
      right
      cases hm : (g.tiers.map (sortTier minOv maxOv)).mapM (prepTier blanks (eff minOv g.lo) (eff maxOv g.hi) minLen) with
      | ok ts => rw [hm] at h; cases h
      | error e' =>
        rw [hm] at h
        have he : e' = e := by cases h; rfl
        subst he
        obtain ⟨t, ht, hf⟩ := mapM_err _ _ _ hm
        obtain ⟨t0, ht0, rfl⟩ := List.mem_map.1 ht
        have hno : ¬ Sticks t0 (eff minOv g.lo) (eff maxOv g.hi) := fun hh => hp ⟨t0, ht0, hh⟩
        cases t0 with
        | P t => cases hf
        | I t =>
          simp only [sortTier, prepTier] at hf
          split at hf
          · rename_i hb
            split at hf
            · rename_i lo hi hlo hhi
              exfalso
              rw [hlo, hhi] at hno
              have hin : ∀ e ∈ sortIvs t.es, lo ≤ e.s ∧ e.e ≤ hi := fun e he =>
                not_sticks_inside t lo hi hno e (mem_sortIvs.1 he)
              obtain ⟨f, hfok⟩ := fillInBlanks_inside_ok _ lo hi hin
              rw [hfok] at hf; cases hf
            · rename_i hnot
              cases hf
              refine ⟨rfl, hb, ⟨_, ht0, rfl⟩, ?_⟩
              cases h1 : eff minOv g.lo with
              | none => left; rfl
              | some lo =>
                cases h2 : eff maxOv g.hi with
                | none => right; rfl
                | some hi => exact absurd h2 (fun _ => hnot lo hi h1 h2)
          · cases hf

/-- **the save raises `ParsingError` exactly when some entry lies outside the requested span, or that span runs
backwards** — interval tiers and point tiers, blank filling on or off, any threshold, any tier (well-formed or not) -/
theorem prep_outside_iff (g : Tg Int) (blanks : Bool) (minOv maxOv minLen : Option Int) :
    prepTg g blanks minOv maxOv minLen = .error .ParsingError ↔
      (Rev (eff minOv g.lo) (eff maxOv g.hi) ∨ ∃ t ∈ g.tiers, Sticks t (eff minOv g.lo) (eff maxOv g.hi)) := by
  constructor
  · intro h
    rcases prep_error_cases g blanks minOv maxOv minLen _ h with ⟨_, h'⟩ | ⟨h', _⟩
    · exact h'
    · cases h'
  · intro h
    rw [prepTg_eq]
    by_cases hr : reversed (eff minOv g.lo) (eff maxOv g.hi) = true
    · rw [if_pos hr]
    · rw [if_neg hr]
      rcases h with h | h
      · exact absurd ((reversed_iff _ _).2 h) hr
      · rw [if_pos ((any_outside_iff g _ _ _ _).2 h)]

/-- kind, name and the tier's own `xmin`/`xmax` lines -/
def hdr : AnyTier Int → Bool × String × Int × Int
  | .I t => (true, t.name, t.lo, t.hi)
  | .P t => (false, t.name, t.lo, t.hi)

/-- **the tiers' own span lines follow the override**: every successful save writes each tier with the kind and name it
had, and as `xmin` (`xmax`) the `minTimestamp` (`maxTimestamp`) override where one is given, the tier's own otherwise -/
theorem prep_headers (g g' : Tg Int) (blanks : Bool) (minOv maxOv minLen : Option Int)
    (h : prepTg g blanks minOv maxOv minLen = .ok g') :
    g'.tiers.map hdr = g.tiers.map fun t => ((hdr t).1, (hdr t).2.1, ovr minOv (hdr t).2.2.1, ovr maxOv (hdr t).2.2.2) := by
  rw [prepTg_eq] at h
  split at h
  · cases h
  split at h
  · cases h
  · cases hm : (g.tiers.map (sortTier minOv maxOv)).mapM (prepTier blanks (eff minOv g.lo) (eff maxOv g.hi) minLen) with
    | error e => rw [hm] at h; cases h
    | ok ts =>
      rw [hm] at h; cases h
      have := mapM_keeps _ hdr _ _ hm (by
        intro a b hab
        cases a with
        | P t => cases hab; rfl
        | I t =>
          simp only [prepTier] at hab
          split at hab
          · split at hab
            · cases hf : fillInBlanks t.es _ _ with
              | error e => rw [hf] at hab; cases hab
              | ok f => rw [hf] at hab; cases hab; rfl
            · cases hab
          · cases hab; rfl)
      rw [this, List.map_map]
      apply List.map_congr_left
      intro t _; cases t <;> rfl

/-- a tier in the order `list.sort()` leaves it in -/
def Sorted : AnyTier Int → Prop
  | .I t => Pos t.es ∧ Disj t.es
  | .P t => t.ps.Pairwise (fun a b => Pt.le a b = true)

/-- the tier with the override as its own span, entries untouched -/
def spanTier (minOv maxOv : Option Int) : AnyTier Int → AnyTier Int
  | .I t => .I { t with lo := ovr minOv t.lo, hi := ovr maxOv t.hi }
  | .P t => .P { t with lo := ovr minOv t.lo, hi := ovr maxOv t.hi }

theorem spanTier_none (t : AnyTier Int) : spanTier none none t = t := by cases t <;> rfl

theorem sortTier_sorted (o1 o2 : Option Int) (t : AnyTier Int) (h : Sorted t) : sortTier o1 o2 t = spanTier o1 o2 t := by
  cases t with
  | I t => simp only [sortTier, spanTier, sortIvs_of_wf t.es h.1 h.2]
  | P t => simp only [sortTier, spanTier, sortPts, List.mergeSort_of_pairwise h]

theorem map_sortTier (o1 o2 : Option Int) (l : List (AnyTier Int)) (h : ∀ t ∈ l, Sorted t) :
    l.map (sortTier o1 o2) = l.map (spanTier o1 o2) :=
  List.map_congr_left (fun t ht => sortTier_sorted o1 o2 t (h t ht))

/-- **with blank filling off, entries are written verbatim** (every tier kind, any threshold, with or without a span,
well-formed or not): unless the requested span runs backwards or an entry sticks out of it, the save returns the tiers
with their entries in `list.sort()` order — for tiers as the constructors leave them, the entries themselves — and the
override as their span -/
theorem prep_verbatim (g : Tg Int) (minOv maxOv minLen : Option Int)
    (hrev : ¬ Rev (eff minOv g.lo) (eff maxOv g.hi))
    (hin : ∀ t ∈ g.tiers, ¬ Sticks t (eff minOv g.lo) (eff maxOv g.hi)) :
    prepTg g false minOv maxOv minLen = .ok ⟨g.tiers.map (sortTier minOv maxOv), eff minOv g.lo, eff maxOv g.hi⟩ ∧
      ((∀ t ∈ g.tiers, Sorted t) → g.tiers.map (sortTier minOv maxOv) = g.tiers.map (spanTier minOv maxOv)) := by
  refine ⟨?_, map_sortTier _ _ _⟩
  rw [prepTg_eq, if_neg (fun hh => hrev ((reversed_iff _ _).1 hh)),
    if_neg (fun hh => by obtain ⟨t, ht, hs⟩ := (any_outside_iff g _ _ _ _).1 hh; exact hin t ht hs), mapM_ok' _ id]
  · simp only [List.map_id]; rfl
  · intro a _; cases a <;> rfl

/-- what is written for one tier when blank filling is on: a point tier verbatim; an interval tier blank-filled, then —
with a threshold — what `kept` keeps of it; either with the override as its span -/
def savedTier (minOv maxOv : Option Int) (lo hi : Int) (minLen : Option Int) : AnyTier Int → AnyTier Int
  | .P t => .P { t with lo := ovr minOv t.lo, hi := ovr maxOv t.hi }
  | .I t => .I { t with lo := ovr minOv t.lo, hi := ovr maxOv t.hi, es := match minLen with
      | some m => kept m lo hi (fillSpec t.es lo hi)
      | none => fillSpec t.es lo hi }

theorem kept_sorted (m lo hi : Int) (es : List (Iv Int)) (h : Chain lo hi es) : sortIvs (kept m lo hi es) = kept m lo hi es := by
  rw [← removeUltrashort_spec m lo hi es h]
  cases es with
  | nil => rw [(removeUltrashort_all_slivers m lo hi [] h).2.2 rfl]; simp [sortIvs]
  | cons e rest => exact (removeUltrashort_tiles m lo hi _ h (by simp)).2.1.sorted

/-- **`_prepTgForSaving` with blank filling on, in full**: for time-ordered tiers with no entry outside the requested
span `[lo, hi]`, `lo ≤ hi`, the save succeeds; the file's span is `[lo, hi]`; every tier has the override as its span;
point tiers are written verbatim; an interval tier is written as `fillSpec` (threshold `None`) or as `kept` of `fillSpec`
(threshold `m`, any `m`).  (`hi < lo` raises: `prep_outside_iff`.) -/
theorem prep_ok (g : Tg Int) (minOv maxOv minLen : Option Int) (lo hi : Int)
    (hlo : eff minOv g.lo = some lo) (hhi : eff maxOv g.hi = some hi) (hlh : lo ≤ hi)
    (hs : ∀ t ∈ g.tiers, Sorted t) (hin : ∀ t ∈ g.tiers, ¬ Sticks t (some lo) (some hi)) :
    prepTg g true minOv maxOv minLen = .ok ⟨g.tiers.map (savedTier minOv maxOv lo hi minLen), some lo, some hi⟩ := by
  rw [prepTg_eq, hlo, hhi, if_neg (by simp [reversed]; omega),
    if_neg (fun hh => by obtain ⟨t, ht, hs⟩ := (any_outside_iff g _ _ _ _).1 hh; exact hin t ht hs),
    map_sortTier _ _ _ hs, List.mapM_map, mapM_ok' _ (savedTier minOv maxOv lo hi minLen)]
  · rfl
  · intro a ha
    cases a with
    | P t => rfl
    | I t =>
      have hS := hs _ ha
      have hI := not_sticks_inside t lo hi (hin _ ha)
      have hf := fillInBlanks_eq t.es lo hi hlh hS.1 hS.2 hI
      have hch := fillSpec_chain t.es lo hi hlh hS.1 hS.2 hI
      simp only [Function.comp, spanTier, prepTier, if_true, hf, savedTier]
      cases minLen with
      | none =>
        show Except.ok _ = Except.ok _
        simp only [hch.sorted]
      | some m =>
        show Except.ok _ = Except.ok _
        simp only
        rw [removeUltrashort_spec m lo hi _ hch, kept_sorted m lo hi _ hch]

/-! ## the property's sentences for one saved interval tier (original entries `es`, blank filling on) -/

/-- **threshold `m`: every labelled interval at least `m` long is written with its label, in order, and nothing else is
written with a label** — in terms of the tier's own entries -/
theorem saved_labels_kept (es : List (Iv Int)) (lo hi : Int) (hlh : lo ≤ hi) (hp : Pos es) (hd : Disj es)
    (hin : ∀ e ∈ es, lo ≤ e.s ∧ e.e ≤ hi) (m : Int) :
    ((kept m lo hi (fillSpec es lo hi)).filter labelled).map (·.l) =
      (es.filter (fun e => isLong m e && labelled e)).map (·.l) := by
  have hc := fillSpec_chain es lo hi hlh hp hd hin
  rw [← removeUltrashort_spec m lo hi _ hc, labels_kept m lo hi _ hc,
    fillSpec_filter (fun e => isLong m e && labelled e) (fun a b => by simp [labelled])]

/-- **threshold `m`: the written tier tiles `[lo, hi]`, and no written interval is shorter than `m` unless the span
is** — then the single blank over the span is written (`lo < hi`: a span of length zero holds no interval) -/
theorem saved_tiles (es : List (Iv Int)) (lo hi : Int) (hlh : lo < hi) (hp : Pos es) (hd : Disj es)
    (hin : ∀ e ∈ es, lo ≤ e.s ∧ e.e ≤ hi) (m : Int) :
    Chain lo hi (kept m lo hi (fillSpec es lo hi)) ∧ kept m lo hi (fillSpec es lo hi) ≠ [] ∧
    (m ≤ hi - lo → ∀ o ∈ kept m lo hi (fillSpec es lo hi), m ≤ o.e - o.s) ∧
    (hi - lo < m → kept m lo hi (fillSpec es lo hi) = [⟨lo, hi, ""⟩]) := by
  have hc := fillSpec_chain es lo hi (by omega) hp hd hin
  have hne : fillSpec es lo hi ≠ [] := by
    cases es with
    | nil => simp [fillSpec, hlh]
    | cons e rest => simp only [fillSpec]; rw [fillGaps]; simp
  rw [← removeUltrashort_spec m lo hi _ hc]
  exact no_short_output m lo hi _ hc hne

/-- **threshold `None`: nothing is absorbed and every written interval has positive length** — the written tier tiles
`[lo, hi]`, contains the entries unchanged and in order, everything else is a blank, and the labelled intervals are
exactly the tier's (`lo = hi`: nothing is written) -/
theorem saved_none (es : List (Iv Int)) (lo hi : Int) (hlh : lo ≤ hi) (hp : Pos es) (hd : Disj es)
    (hin : ∀ e ∈ es, lo ≤ e.s ∧ e.e ≤ hi) :
    Chain lo hi (fillSpec es lo hi) ∧ (∀ x ∈ fillSpec es lo hi, x.s < x.e) ∧ es.Sublist (fillSpec es lo hi) ∧
      (∀ x ∈ fillSpec es lo hi, x ∈ es ∨ x.l = "") ∧ (fillSpec es lo hi).filter labelled = es.filter labelled := by
  have c := fillSpec_chain es lo hi hlh hp hd hin
  refine ⟨c, c.pos, ?_, ?_, fillSpec_labelled es lo hi⟩
  · by_cases h : lo < hi
    · obtain ⟨es', e1, _, _, sub, _⟩ := fillInBlanks_tiles es lo hi h hp hd hin
      rw [fillInBlanks_eq es lo hi hlh hp hd hin] at e1
      cases e1; exact sub
    · rw [empty_of_no_room es lo hi (by omega) hp hin]; exact List.nil_sublist _
  · by_cases h : lo < hi
    · obtain ⟨es', e1, _, _, _, mem⟩ := fillInBlanks_tiles es lo hi h hp hd hin
      rw [fillInBlanks_eq es lo hi hlh hp hd hin] at e1
      cases e1; exact mem
    · rw [empty_of_no_room es lo hi (by omega) hp hin]
      intro x hx; simp [fillSpec, h] at hx

theorem pairwise_either {β : Type} (R : β → β → Prop) (l : List β) (h : l.Pairwise R) (a b : β) (ha : a ∈ l) (hb : b ∈ l)
    (hne : a ≠ b) : R a b ∨ R b a := by
  induction l with
  | nil => simp at ha
  | cons x xs ih =>
    rw [List.pairwise_cons] at h
    rcases List.mem_cons.1 ha with rfl | ha' <;> rcases List.mem_cons.1 hb with rfl | hb'
    · exact absurd rfl hne
    · exact Or.inl (h.1 b hb')
    · exact Or.inr (h.1 a ha')
    · exact ih h.2 ha' hb'

/-- **blanks are added only in unlabelled stretches**: a written interval that is not an entry of the tier is a blank
and overlaps no entry -/
theorem blanks_in_gaps (es : List (Iv Int)) (lo hi : Int) (hlh : lo ≤ hi) (hp : Pos es) (hd : Disj es)
    (hin : ∀ e ∈ es, lo ≤ e.s ∧ e.e ≤ hi) (x : Iv Int) (hx : x ∈ fillSpec es lo hi) (hnx : x ∉ es) :
    x.l = "" ∧ ∀ e ∈ es, e.e ≤ x.s ∨ x.e ≤ e.s := by
  obtain ⟨c, _, sub, mem, _⟩ := saved_none es lo hi hlh hp hd hin
  refine ⟨(mem x hx).resolve_left hnx, fun e he => ?_⟩
  have := pairwise_either _ _ c.disj e x (sub.subset he) hx (fun h => hnx (h ▸ he))
  exact this

/-! ## regressions: where the code used to leave the property (A25, A26, A27 — repaired in /repo) -/

def tg1 (es : List (Iv Int)) (lo hi : Int) : Tg Int := ⟨[.I ⟨"w", es, lo, hi⟩], some lo, some hi⟩

theorem tg1_sorted (es : List (Iv Int)) (lo hi : Int) (hp : Pos es) (hd : Disj es) : ∀ t ∈ (tg1 es lo hi).tiers, Sorted t := by
  intro t ht; simp only [tg1, List.mem_singleton] at ht; subst ht; exact ⟨hp, hd⟩

/-- **every interval a sliver (A25)**: three labelled intervals tiling `[0, 10]`, threshold 5 (real code: `(0,.4,a)
(.4,.8,b) (.8,1,c)` in `[0,1]`, `minimumIntervalLength=0.5`) are written as the one blank over `[0, 10]` (before the
repair: an interval tier with no interval at all) -/
theorem all_slivers_regression :
    prepTg (tg1 [⟨0, 4, "a"⟩, ⟨4, 8, "b"⟩, ⟨8, 10, "c"⟩] 0 10) true none none (some 5) =
      .ok (tg1 [⟨0, 10, ""⟩] 0 10) := by
  rw [prep_ok _ none none (some 5) 0 10 rfl rfl (by omega) (tg1_sorted _ _ _ (by simp [Pos]) (by simp [Disj]))]
  · rfl
  · intro t ht
    simp only [tg1, List.mem_singleton] at ht; subst ht
    simp [Sticks]

/-- **span of length zero (A26)**: an empty tier in a textgrid whose span is `[1, 1]` is written without any interval,
whatever the threshold (before the repair: the interval `(1, 1, "")` with the threshold disabled) -/
theorem zero_span_regression (minLen : Option Int) :
    prepTg (tg1 [] 1 1) true none none minLen = .ok (tg1 [] 1 1) := by
  rw [prep_ok _ none none minLen 1 1 rfl rfl (by omega) (tg1_sorted _ _ _ (by simp [Pos]) (by simp [Disj]))]
  · cases minLen <;> rfl
  · intro t ht
    simp only [tg1, List.mem_singleton] at ht; subst ht
    simp [Sticks]

/-- **a reversed request (A27)**: `minTimestamp=5` on a textgrid of `[0, 3]` raises (before the repair: the interval
`(5, 3, "")` in a file whose span runs backwards) -/
theorem reversed_override_rejected (blanks : Bool) (minLen : Option Int) :
    prepTg (tg1 [] 0 3) blanks (some 5) none minLen = .error .ParsingError :=
  (prep_outside_iff _ _ _ _ _).2 (Or.inl ⟨5, 3, rfl, rfl, by omega⟩)

/-- **an override beyond the tier's own span (A27)** (`maxTimestamp=5` on `[0, 3]`): the file's span becomes `[0, 5]`, the
tier is filled up to 5 and its own `xmax` line says 5 too (before the repair: 3; `prep_headers` is the general statement) -/
theorem override_tier_span_regression :
    prepTg (tg1 [⟨0, 1, "a"⟩] 0 3) true none (some 5) none =
      .ok ⟨[.I ⟨"w", [⟨0, 1, "a"⟩, ⟨1, 5, ""⟩], 0, 5⟩], some 0, some 5⟩ := by
  rw [prep_ok _ none (some 5) none 0 5 rfl rfl (by omega) (tg1_sorted _ _ _ (by simp [Pos]) (by simp [Disj]))]
  · rfl
  · intro t ht
    simp only [tg1, List.mem_singleton] at ht; subst ht
    simp [Sticks]

/-! ## the candidate inputs, on the model (same values as the replays on the real code) -/
def rus (es : List (Iv Int)) (m lo : Int) : List (Iv Int) := removeUltrashort es m lo
#guard rus [⟨0, 1, "s"⟩, ⟨1, 10, "a"⟩, ⟨10, 20, "b"⟩] 5 0 == [⟨0, 10, "a"⟩, ⟨10, 20, "b"⟩]          -- first entry a sliver
#guard rus [⟨0, 1, "s"⟩, ⟨1, 2, "t"⟩, ⟨2, 10, "a"⟩, ⟨10, 20, "b"⟩] 5 0 == [⟨0, 10, "a"⟩, ⟨10, 20, "b"⟩]  -- two slivers at the start
#guard rus [⟨0, 1, "s"⟩] 5 0 == [⟨0, 1, ""⟩]                                                                   -- a sliver alone
#guard rus [⟨0, 1, "s"⟩, ⟨1, 3, "t"⟩, ⟨3, 4, "u"⟩] 5 0 == [⟨0, 4, ""⟩]                                          -- only slivers
#guard rus [⟨0, 5, "s"⟩, ⟨5, 15, "a"⟩] 5 0 == [⟨0, 5, "s"⟩, ⟨5, 15, "a"⟩]                             -- exactly the threshold: kept
#guard rus [⟨0, 10, "a"⟩, ⟨10, 11, "s"⟩, ⟨11, 20, "b"⟩] 5 0 == [⟨0, 11, "a"⟩, ⟨11, 20, "b"⟩]           -- absorbed by the preceding one
#guard rus [⟨2, 3, "s"⟩, ⟨3, 10, "a"⟩] 5 2 == [⟨2, 10, "a"⟩]                                          -- `lo` is the override
#guard (prepTg (tg1 [⟨10, 11, "s"⟩, ⟨11, 20, "a"⟩] 0 30) true (some 10) none (some 5)).toOption.map (·.tiers.map fun | .I t => t.es | _ => []) ==
  some [[⟨10, 20, "a"⟩, ⟨20, 30, ""⟩]]
#guard (prepTg (tg1 [⟨10, 11, "s"⟩, ⟨11, 20, "a"⟩] 0 30) true (some 5) none (some 6)).toOption.map (·.tiers.map fun | .I t => t.es | _ => []) ==
  some [[⟨5, 20, "a"⟩, ⟨20, 30, ""⟩]]

end C04
