import PraatModel.Props.C04

/-!
# C04 — the full functional specification of the save preparation (list level, exact arithmetic)

`Props/C04.lean` proves that blank filling and sliver absorption produce tilings.  This file states *which* tiling:

* `fillInBlanks_eq`     — `_fillInBlanks` is the explicit pure function `fillSpec` (entries verbatim, a blank in every
                          unlabelled stretch of `[lo, hi]`);
* `removeUltrashort_spec` — on a tiling of `[lo, hi]`, `_removeUltrashortIntervals` is `respan lo hi ∘ filter long`: the
                          intervals at least `m` long survive, each with its own label; the first one starts at `lo`,
                          every other one at its own start; each ends where the next survivor starts, the last at `hi`;
* the sentences of the property derived from the rule (`labels_kept`, `removeUltrashort_at`, `boundary_moves_over_slivers`,
  `removeUltrashort_nil_iff`, `no_short_output`), and
* the same at the level of `_prepTgForSaving` (`prep_ok`, `prep_outside_iff`, `prep_span`, `prep_verbatim`, …).

Where the real code leaves the property (every interval a sliver; a span of length zero), the excluded case is a
`…_counterexample` theorem.
-/
namespace C04

/-! ## `_fillInBlanks` as an explicit function -/

/-- entries verbatim, a blank in every unlabelled stretch of `[lo, hi]` (the oracle's `fill` of harness/props/C04.py) -/
def fillSpec (es : List (Iv Int)) (lo hi : Int) : List (Iv Int) :=
  match es with
  | [] => [⟨lo, hi, ""⟩]
  | _ => fillGaps lo es ++ (if endOf lo es < hi then [⟨endOf lo es, hi, ""⟩] else [])

def labelled (e : Iv Int) : Bool := e.l != ""
def isLong (m : Int) (e : Iv Int) : Bool := decide (m ≤ e.e - e.s)

/-- the last element of `e :: rest` -/
def lastD (e : Iv Int) : List (Iv Int) → Iv Int
  | [] => e
  | x :: xs => lastD x xs

theorem lastD_mem (e : Iv Int) (rest : List (Iv Int)) : lastD e rest ∈ e :: rest := by
  induction rest generalizing e with
  | nil => simp [lastD]
  | cons x xs ih => exact List.mem_cons_of_mem _ (ih x)

theorem lastD_end (p : Int) (e : Iv Int) (rest : List (Iv Int)) : (lastD e rest).e = endOf p (e :: rest) := by
  induction rest generalizing p e with
  | nil => rfl
  | cons x xs ih => exact ih e.e x

theorem fillGaps_getLast (p : Int) (e : Iv Int) (rest : List (Iv Int)) :
    (fillGaps p (e :: rest)).getLast? = some (lastD e rest) := by
  induction rest generalizing p e with
  | nil => simp [fillGaps, lastD, List.getLast?_append]
  | cons x xs ih =>
    rw [fillGaps, List.getLast?_append, List.getLast?_cons, ih e.e x]
    simp [lastD]

theorem withHead_eq (lo : Int) (first : Iv Int) (rest : List (Iv Int)) :
    withHead lo first (first :: fillGaps first.e rest) = fillGaps lo (first :: rest) := by
  unfold withHead; rw [fillGaps]; split <;> rfl

theorem fillInBlanks_match (es : List (Iv Int)) (lo hi : Int) :
    fillInBlanks es lo hi =
      match es with
      | [] => .ok [⟨lo, hi, ""⟩]
      | first :: rest =>
        if first.s < lo then .error .ParsingError
        else if hi < (lastD first rest).e then .error .ParsingError
        else .ok (sortIvs (fillSpec (first :: rest) lo hi)) := by
  cases es with
  | nil =>
    simp [fillInBlanks, fillGaps, withHead, withTail, sortIvs]
  | cons first rest =>
    unfold fillInBlanks
    simp only [List.isEmpty_cons, Bool.false_eq_true, if_false]
    by_cases h1 : first.s < lo
    · simp [h1]
    · simp only [h1, if_false]
      rw [withHead_eq, fillGaps_getLast]
      simp only
      by_cases h2 : hi < (lastD first rest).e
      · simp [h2]
      · rw [lastD_end lo first rest] at h2
        simp only [withTail, fillSpec, lastD_end lo first rest, h2, if_false]
        split <;> simp

/-- **`_fillInBlanks`, every input**: an empty tier becomes one blank over the requested span (whatever the span); a
non-empty one raises `ParsingError` exactly when its first entry starts before `lo` or its last entry ends after `hi`, and
otherwise is `fillSpec` (then sorted) -/
theorem fillInBlanks_cases (lo hi : Int) :
    fillInBlanks [] lo hi = .ok [⟨lo, hi, ""⟩] ∧
    ∀ (first : Iv Int) (rest : List (Iv Int)), fillInBlanks (first :: rest) lo hi =
      if first.s < lo then .error .ParsingError
      else if hi < (lastD first rest).e then .error .ParsingError
      else .ok (sortIvs (fillSpec (first :: rest) lo hi)) :=
  ⟨fillInBlanks_match [] lo hi, fun first rest => fillInBlanks_match (first :: rest) lo hi⟩

theorem fillSpec_chain (es : List (Iv Int)) (lo hi : Int) (hlh : lo < hi) (hp : Pos es) (hd : Disj es)
    (hin : ∀ e ∈ es, lo ≤ e.s ∧ e.e ≤ hi) : Chain lo hi (fillSpec es lo hi) := by
  cases es with
  | nil => exact chain_single lo hi "" hlh
  | cons first rest =>
    have h1 := fillGaps_chain lo (first :: rest) hp hd (fun e he => (hin e he).1)
    have h2 : endOf lo (first :: rest) ≤ hi := endOf_le lo _ hi (by omega) (fun e he => (hin e he).2)
    simp only [fillSpec]
    split
    · exact h1.append (chain_single _ _ _ (by assumption))
    · have : endOf lo (first :: rest) = hi := by omega
      rw [List.append_nil, ← this]; exact h1

/-- **blank filling is `fillSpec`** for a time-ordered tier inside `[lo, hi]`, `lo < hi` -/
theorem fillInBlanks_eq (es : List (Iv Int)) (lo hi : Int) (hlh : lo < hi) (hp : Pos es) (hd : Disj es)
    (hin : ∀ e ∈ es, lo ≤ e.s ∧ e.e ≤ hi) : fillInBlanks es lo hi = .ok (fillSpec es lo hi) := by
  have hc := fillSpec_chain es lo hi hlh hp hd hin
  rw [fillInBlanks_match]
  cases es with
  | nil => rfl
  | cons first rest =>
    have h1 := (hin first (by simp)).1
    have h2 := (hin _ (lastD_mem first rest)).2
    simp only [show ¬ first.s < lo by omega, show ¬ hi < (lastD first rest).e by omega, if_false, hc.sorted]

/-- blank filling keeps every entry and adds only blanks: any selection that never selects a blank selects the same
entries, in the same order, before and after -/
theorem fillGaps_filter (q : Iv Int → Bool) (hq : ∀ a b, q ⟨a, b, ""⟩ = false) (p : Int) (es : List (Iv Int)) :
    (fillGaps p es).filter q = es.filter q := by
  induction es generalizing p with
  | nil => rfl
  | cons e rest ih =>
    rw [fillGaps, List.filter_append, List.filter_cons (x := e), List.filter_cons (x := e), ih e.e]
    split <;> simp [hq]

/-- blank filling keeps every entry, in order, and adds only blanks: a selection `q` that never selects a blank selects
the same intervals from the filled tier as from the tier (no hypothesis on the tier or the span) -/
theorem fillSpec_filter (q : Iv Int → Bool) (hq : ∀ a b, q ⟨a, b, ""⟩ = false) (es : List (Iv Int)) (lo hi : Int) :
    (fillSpec es lo hi).filter q = es.filter q := by
  cases es with
  | nil => simp [fillSpec, hq]
  | cons first rest =>
    simp only [fillSpec]
    rw [List.filter_append, fillGaps_filter q hq]
    split <;> simp [hq]

theorem fillSpec_labelled (es : List (Iv Int)) (lo hi : Int) : (fillSpec es lo hi).filter labelled = es.filter labelled :=
  fillSpec_filter labelled (fun _ _ => rfl) es lo hi

/-! ## `_removeUltrashortIntervals` as an explicit function -/

/-- the survivors re-spanned: the first starts at `p`, each ends where the next one starts, the last ends at `hi`; labels
are kept -/
def respan (p hi : Int) : List (Iv Int) → List (Iv Int)
  | [] => []
  | [x] => [⟨p, hi, x.l⟩]
  | x :: y :: rest => ⟨p, y.s, x.l⟩ :: respan y.s hi (y :: rest)

theorem respan_head (p hi : Int) (a b : Iv Int) (l : List (Iv Int)) (h : a.l = b.l) :
    respan p hi (a :: l) = respan p hi (b :: l) := by
  cases l <;> simp [respan, h]

theorem absorb_acc (m lo hi : Int) (es : List (Iv Int)) (last : Iv Int) (before : List (Iv Int)) (h : Chain last.e hi es) :
    absorbShort m lo (last :: before) es = before.reverse ++ respan last.s hi (last :: es.filter (isLong m)) := by
  induction es generalizing last before with
  | nil =>
    have : last.e = hi := h
    obtain ⟨s, e, l⟩ := last
    simp only at this; subst this
    simp [absorbShort, respan]
  | cons x rest ih =>
    obtain ⟨h1, h2, h3⟩ := h
    by_cases hs : x.e - x.s < m
    · have hl : isLong m x = false := by simp [isLong]; omega
      simp only [absorbShort, hs, if_true, List.filter_cons, hl, Bool.false_eq_true, if_false]
      rw [ih ⟨last.s, x.e, last.l⟩ before h3]
      rw [respan_head last.s hi ⟨last.s, x.e, last.l⟩ last _ rfl]
    · have hl : isLong m x = true := by simp [isLong]; omega
      simp only [absorbShort, hs, if_false, List.filter_cons, hl, if_true]
      rw [ih x (last :: before) h3]
      obtain ⟨s, e, l⟩ := last
      simp only at h1
      simp [respan, h1]

theorem absorb_nil (m lo hi cur : Int) (es : List (Iv Int)) (h : Chain cur hi es) :
    absorbShort m lo [] es = respan lo hi (es.filter (isLong m)) := by
  induction es generalizing cur with
  | nil => rfl
  | cons x rest ih =>
    obtain ⟨h1, h2, h3⟩ := h
    by_cases hs : x.e - x.s < m
    · have hl : isLong m x = false := by simp [isLong]; omega
      simp only [absorbShort, hs, if_true, List.filter_cons, hl, Bool.false_eq_true, if_false]
      exact ih x.e h3
    · have hl : isLong m x = true := by simp [isLong]; omega
      simp only [absorbShort, hs, if_false, List.filter_cons, hl, if_true]
      have key : ∀ f : Iv Int, f.s = lo → f.e = x.e → f.l = x.l →
          absorbShort m lo [f] rest = respan lo hi (x :: rest.filter (isLong m)) := by
        intro f f1 f2 f3
        rw [absorb_acc m lo hi rest f [] (by rw [f2]; exact h3), f1]
        simpa using respan_head lo hi f x _ f3
      split
      · exact key _ rfl rfl rfl
      · rename_i hne
        exact key x (by simpa using hne) rfl rfl

/-- **the exact rule of `_removeUltrashortIntervals`** on a tiling of `[lo, hi]` (what `_fillInBlanks` hands it): the
intervals at least `m` long survive — all of them, nothing else — each with its own label; the first survivor starts at
`lo`, every other one at its own start, each ends where the next survivor starts and the last one at `hi`.  Hence a run
of slivers after a survivor is absorbed into that survivor (the *preceding* neighbour, labelled or not), a run of slivers
at the very start into the first survivor (the *following* neighbour), and the label of a sliver is always dropped.
No hypothesis on `m`. -/
theorem removeUltrashort_spec (m lo hi : Int) (es : List (Iv Int)) (h : Chain lo hi es) :
    removeUltrashort es m lo = respan lo hi (es.filter (isLong m)) := by
  unfold removeUltrashort
  have hs := absorbShort_spec m lo hi es [] lo (fun h' => absurd rfl h') (by intro x hx; simp at hx) (fun _ => by omega) h
  rw [← absorb_nil m lo hi lo es h]
  rcases hs with ⟨h1, _⟩ | ⟨_, h2, _⟩
  · rw [h1]; rfl
  · exact stitch_chain m lo hi _ h2

theorem respan_labels (p hi : Int) (l : List (Iv Int)) : (respan p hi l).map (·.l) = l.map (·.l) := by
  induction l generalizing p with
  | nil => rfl
  | cons x xs ih =>
    cases xs with
    | nil => rfl
    | cons y ys => simp only [respan, List.map_cons]; rw [ih y.s]; rfl

theorem respan_length (p hi : Int) (l : List (Iv Int)) : (respan p hi l).length = l.length := by
  have := congrArg List.length (respan_labels p hi l); simpa using this

/-- (c) the written labels are exactly the labels of the intervals at least `m` long, in order (blank ones included):
no long interval loses its label, no written interval carries the label of a sliver -/
theorem labels_exact (m lo hi : Int) (es : List (Iv Int)) (h : Chain lo hi es) :
    (removeUltrashort es m lo).map (·.l) = (es.filter (isLong m)).map (·.l) := by
  rw [removeUltrashort_spec m lo hi es h, respan_labels]

theorem filter_labelled_map (l : List (Iv Int)) : (l.filter labelled).map (·.l) = (l.map (·.l)).filter (· != "") := by
  rw [List.filter_map]; rfl

/-- (a) every labelled interval at least `m` long is written with its label, in order, and no other label is written -/
theorem labels_kept (m lo hi : Int) (es : List (Iv Int)) (h : Chain lo hi es) :
    ((removeUltrashort es m lo).filter labelled).map (·.l) =
      (es.filter (fun e => isLong m e && labelled e)).map (·.l) := by
  rw [filter_labelled_map, labels_exact m lo hi es h, ← filter_labelled_map, List.filter_filter]
  congr 1
  apply List.filter_congr
  intro x _; exact Bool.and_comm _ _

/-- where the next survivor starts -/
def nextStart (hi : Int) : List (Iv Int) → Int
  | [] => hi
  | y :: _ => y.s

theorem respan_at (hi : Int) (A B : List (Iv Int)) (x : Iv Int) (p : Int) :
    (respan p hi (A ++ x :: B))[A.length]? = some ⟨if A = [] then p else x.s, nextStart hi B, x.l⟩ := by
  induction A generalizing p with
  | nil => cases B <;> simp [respan, nextStart]
  | cons a A' ih =>
    cases hA : A' ++ x :: B with
    | nil => simp at hA
    | cons y t =>
      have := ih y.s
      rw [hA] at this
      simp only [List.cons_append, hA, respan, List.length_cons, List.getElem?_cons_succ, this]
      cases A' with
      | nil => simp only [List.nil_append, List.cons.injEq] at hA; simp [hA.1]
      | cons _ _ => simp

theorem chain_split {p r : Int} {pre post : List (Iv Int)} {x : Iv Int} (h : Chain p r (pre ++ x :: post)) :
    Chain p x.s pre ∧ x.s < x.e ∧ Chain x.e r post := by
  induction pre generalizing p with
  | nil => exact ⟨h.1.symm, h.2.1, h.2.2⟩
  | cons a as ih =>
    obtain ⟨i1, i2, i3⟩ := ih h.2.2
    exact ⟨⟨h.1, h.2.1, i1⟩, i2, i3⟩

theorem nextStart_run (m hi cur : Int) (post : List (Iv Int)) (h : Chain cur hi post) :
    nextStart hi (post.filter (isLong m)) = endOf cur (post.takeWhile fun e => !isLong m e) := by
  induction post generalizing cur with
  | nil => exact (show cur = hi from h).symm
  | cons e rest ih =>
    obtain ⟨h1, _, h3⟩ := h
    cases hl : isLong m e with
    | true => simp [hl, nextStart, endOf, h1]
    | false => simp only [List.filter_cons, List.takeWhile_cons, hl, Bool.false_eq_true, if_false, Bool.not_false, if_true, endOf]; exact ih e.e h3

theorem endOf_chain (cur : Int) (l : List (Iv Int)) (r : Int) (h : Chain cur r l) : endOf cur l = r := by
  induction l generalizing cur with
  | nil => exact h
  | cons e rest ih => exact ih e.e h.2.2

theorem chain_prefix (cur r : Int) (l1 l2 : List (Iv Int)) (h : Chain cur r (l1 ++ l2)) : Chain cur (endOf cur l1) l1 := by
  induction l1 generalizing cur with
  | nil => rfl
  | cons e rest ih => exact ⟨h.1, h.2.1, ih e.e h.2.2⟩

theorem mem_takeWhile_sat {α : Type} (p : α → Bool) (l : List α) (x : α) (h : x ∈ l.takeWhile p) : p x = true := by
  induction l with
  | nil => simp at h
  | cons a as ih =>
    rw [List.takeWhile_cons] at h
    split at h
    · rcases List.mem_cons.1 h with rfl | h'
      · assumption
      · exact ih h'
    · simp at h

/-- (b) **where a long interval ends up**: an interval `x` at least `m` long, anywhere in a tiling, is written at the
position of its rank among the long intervals, with its label; its start is `lo` when it is the first long interval
and its own start otherwise; its end is the end of the maximal run of slivers that follows it (its own end when no sliver
follows) -/
theorem removeUltrashort_at (m lo hi : Int) (pre post : List (Iv Int)) (x : Iv Int) (h : Chain lo hi (pre ++ x :: post))
    (hx : m ≤ x.e - x.s) :
    (removeUltrashort (pre ++ x :: post) m lo)[(pre.filter (isLong m)).length]? =
      some ⟨if pre.filter (isLong m) = [] then lo else x.s, endOf x.e (post.takeWhile fun e => !isLong m e), x.l⟩ := by
  have hl : isLong m x = true := by simp [isLong]; omega
  rw [removeUltrashort_spec m lo hi _ h, List.filter_append, List.filter_cons, hl, if_pos rfl, respan_at,
    nextStart_run m hi x.e post (chain_split h).2.2]

/-- (b) **a boundary moves only across slivers**: the written copy `o` of a long interval `x` has `x`'s label;
`o.s = x.s` unless everything before `x` is a sliver, and then `o.s = lo` with the stretch `[lo, x.s]` tiled by those
slivers; `o.e = x.e` unless a sliver follows `x`, and then `[x.e, o.e]` is tiled by the maximal run of slivers after `x` -/
theorem boundary_moves_over_slivers (m lo hi : Int) (pre post : List (Iv Int)) (x : Iv Int)
    (h : Chain lo hi (pre ++ x :: post)) (hx : m ≤ x.e - x.s) :
    ∃ o, (removeUltrashort (pre ++ x :: post) m lo)[(pre.filter (isLong m)).length]? = some o ∧ o.l = x.l ∧
      o.s = (if ∀ e ∈ pre, e.e - e.s < m then lo else x.s) ∧ Chain lo x.s pre ∧
      (∃ run rest, post = run ++ rest ∧ (∀ e ∈ run, e.e - e.s < m) ∧ (∀ y ∈ rest.head?, m ≤ y.e - y.s) ∧
        Chain x.e o.e run ∧ (run = [] → o.e = x.e)) := by
  refine ⟨_, removeUltrashort_at m lo hi pre post x h hx, rfl, ?_, (chain_split h).1, ?_⟩
  · have : (pre.filter (isLong m) = []) ↔ ∀ e ∈ pre, e.e - e.s < m := by
      simp only [List.filter_eq_nil_iff, isLong, decide_eq_true_eq]
      exact ⟨fun h e he => by have := h e he; omega, fun h e he => by have := h e he; omega⟩
    simp only [this]
  · refine ⟨post.takeWhile fun e => !isLong m e, post.dropWhile fun e => !isLong m e, (List.takeWhile_append_dropWhile).symm,
      ?_, ?_, ?_, ?_⟩
    · intro e he
      have := mem_takeWhile_sat _ _ _ he
      simp [isLong] at this; omega
    · intro y hy
      have := List.head?_dropWhile_not (fun e => !isLong m e) post
      rw [Option.mem_def.1 hy] at this
      simpa [isLong] using this
    · have hc := (chain_split h).2.2
      rw [← List.takeWhile_append_dropWhile (p := fun e => !isLong m e) (l := post)] at hc
      exact chain_prefix x.e hi _ _ hc
    · intro hr; simp only [hr, endOf]

/-- (d) **nothing is written exactly when every interval is a sliver** -/
theorem removeUltrashort_nil_iff (m lo hi : Int) (es : List (Iv Int)) (h : Chain lo hi es) :
    removeUltrashort es m lo = [] ↔ ∀ e ∈ es, e.e - e.s < m := by
  rw [removeUltrashort_spec m lo hi es h]
  constructor
  · intro h0 e he
    have hl := respan_length lo hi (es.filter (isLong m))
    rw [h0] at hl
    have : es.filter (isLong m) = [] := List.length_eq_zero_iff.1 hl.symm
    have := List.filter_eq_nil_iff.1 this e he
    simp [isLong] at this; omega
  · intro h0
    have : es.filter (isLong m) = [] := List.filter_eq_nil_iff.2 (fun e he => by have := h0 e he; simp [isLong]; omega)
    rw [this]; rfl

/-- (d) **no written interval is shorter than the threshold** — unconditionally: either nothing is written (every
interval is a sliver, in particular whenever the span itself is shorter than `m`) or the written intervals tile
`[lo, hi]` and are all at least `m` long -/
theorem no_short_output (m lo hi : Int) (es : List (Iv Int)) (h : Chain lo hi es) :
    (∀ o ∈ removeUltrashort es m lo, m ≤ o.e - o.s) ∧
    ((∃ e ∈ es, m ≤ e.e - e.s) → removeUltrashort es m lo ≠ [] ∧ Chain lo hi (removeUltrashort es m lo)) ∧
    (hi - lo < m → removeUltrashort es m lo = []) := by
  refine ⟨?_, ?_, ?_⟩
  · rcases removeUltrashort_tiles m lo hi es h with h0 | ⟨_, _, h3⟩
    · rw [h0]; intro o ho; simp at ho
    · exact h3
  · rintro ⟨e, he, hl⟩
    rcases removeUltrashort_tiles m lo hi es h with h0 | ⟨h1, h2, _⟩
    · have := (removeUltrashort_nil_iff m lo hi es h).1 h0 e he; omega
    · exact ⟨h1, h2⟩
  · intro hshort
    exact (removeUltrashort_nil_iff m lo hi es h).2 (fun e he => by have := h.bounds e he; omega)

/-! ## `_prepTgForSaving` -/

section
variable {α : Type} [LT α] [LE α] [DecidableLT α] [DecidableLE α] [BEq α] [Add α] [Sub α] [Tm α]

/-- the requested span: the override when given, else the textgrid's -/
def eff (ov d : Option α) : Option α := match ov with | some m => some m | none => d

/-- `_sortEntries` on one tier -/
def sortTier : AnyTier α → AnyTier α
  | .I t => .I { t with es := sortIvs t.es }
  | .P t => .P { t with ps := sortPts t.ps }

/-- what `_prepTgForSaving` does to one (sorted) tier after the span check -/
def prepTier (blanks : Bool) (minT maxT : Option α) (minLen : Option α) : AnyTier α → Except Err (AnyTier α)
  | .P t => pure (AnyTier.P t)
  | .I t =>
    if blanks then
      match minT, maxT with
      | some lo, some hi => do
        let filled ← fillInBlanks t.es lo hi
        let es := match minLen with
          | some ml => removeUltrashort filled ml lo
          | none => filled
        pure (AnyTier.I { t with es := sortIvs es })
      | _, _ => throw .ValueError
    else pure (AnyTier.I t)
end

/-- `_prepTgForSaving` is: sort every tier; raise `ParsingError` if an entry lies outside the requested span; otherwise
`prepTier` on every tier, and the requested span as the file's span -/
theorem prepTg_eq (g : Tg Int) (blanks : Bool) (minOv maxOv minLen : Option Int) :
    prepTg g blanks minOv maxOv minLen =
      if (g.tiers.map sortTier).any (fun t => t.outside (eff minOv g.lo) (eff maxOv g.hi)) then .error .ParsingError
      else ((g.tiers.map sortTier).mapM (prepTier blanks (eff minOv g.lo) (eff maxOv g.hi) minLen)) >>=
        (fun tiers => pure ⟨tiers, eff minOv g.lo, eff maxOv g.hi⟩) := by
  unfold prepTg
  rfl

theorem mapM_ok' {β γ : Type} (f : β → Except Err γ) (g : β → γ) (l : List β) (h : ∀ a ∈ l, f a = .ok (g a)) :
    l.mapM f = .ok (l.map g) := by
  induction l with
  | nil => rfl
  | cons a l ih =>
    rw [List.mapM_cons, h a (by simp), ih (fun b hb => h b (List.mem_cons_of_mem _ hb))]
    rfl

theorem mapM_err {β γ : Type} (f : β → Except Err γ) (l : List β) (e : Err) (h : l.mapM f = .error e) :
    ∃ a ∈ l, f a = .error e := by
  induction l with
  | nil => cases h
  | cons a l ih =>
    rw [List.mapM_cons] at h
    cases hfa : f a with
    | error e' =>
      rw [hfa] at h
      have : e' = e := by cases h; rfl
      exact ⟨a, by simp, by rw [← this]; exact hfa⟩
    | ok b =>
      rw [hfa] at h
      cases hl : l.mapM f with
      | error e' =>
        rw [hl] at h
        have : e' = e := by cases h; rfl
        obtain ⟨x, hx, hfx⟩ := ih (by rw [← this]; exact hl)
        exact ⟨x, List.mem_cons_of_mem _ hx, hfx⟩
      | ok bs => rw [hl] at h; cases h

theorem mapM_keeps {β δ : Type} (f : β → Except Err β) (k : β → δ) (l ts : List β) (h : l.mapM f = .ok ts)
    (hR : ∀ a b, f a = .ok b → k b = k a) : ts.map k = l.map k := by
  induction l generalizing ts with
  | nil => cases h; rfl
  | cons a l ih =>
    rw [List.mapM_cons] at h
    cases hfa : f a with
    | error e => rw [hfa] at h; cases h
    | ok b =>
      rw [hfa] at h
      cases hl : l.mapM f with
      | error e => rw [hl] at h; cases h
      | ok bs =>
        rw [hl] at h
        cases h
        simp only [List.map_cons, hR a b hfa, ih bs hl]

/-- **the override becomes the file's span** — every successful save, no hypothesis -/
theorem prep_span (g g' : Tg Int) (blanks : Bool) (minOv maxOv minLen : Option Int)
    (h : prepTg g blanks minOv maxOv minLen = .ok g') : g'.lo = eff minOv g.lo ∧ g'.hi = eff maxOv g.hi := by
  rw [prepTg_eq] at h
  split at h
  · cases h
  · cases hm : (g.tiers.map sortTier).mapM (prepTier blanks (eff minOv g.lo) (eff maxOv g.hi) minLen) with
    | error e => rw [hm] at h; cases h
    | ok ts => rw [hm] at h; cases h; exact ⟨rfl, rfl⟩

theorem any_sortIvs (es : List (Iv Int)) (p : Iv Int → Bool) : (sortIvs es).any p = es.any p := by
  rw [Bool.eq_iff_iff]; simp only [List.any_eq_true]
  exact ⟨fun ⟨x, hx, hp⟩ => ⟨x, mem_sortIvs.1 hx, hp⟩, fun ⟨x, hx, hp⟩ => ⟨x, mem_sortIvs.2 hx, hp⟩⟩

theorem any_sortPts (ps : List (Pt Int)) (p : Pt Int → Bool) : (sortPts ps).any p = ps.any p := by
  rw [Bool.eq_iff_iff]; simp only [List.any_eq_true]
  exact ⟨fun ⟨x, hx, hp⟩ => ⟨x, List.mem_mergeSort.1 hx, hp⟩, fun ⟨x, hx, hp⟩ => ⟨x, List.mem_mergeSort.2 hx, hp⟩⟩

theorem outside_sortTier (t : AnyTier Int) (a b : Option Int) : (sortTier t).outside a b = t.outside a b := by
  cases t with
  | I t => exact any_sortIvs _ _
  | P t => exact any_sortPts _ _

/-- an entry of tier `t` lies outside the requested span -/
def Sticks (t : AnyTier Int) (minT maxT : Option Int) : Prop :=
  match t with
  | .I t => ∃ iv ∈ t.es, (∃ m, minT = some m ∧ iv.s < m) ∨ (∃ m, maxT = some m ∧ m < iv.e)
  | .P t => ∃ p ∈ t.ps, (∃ m, minT = some m ∧ p.t < m) ∨ (∃ m, maxT = some m ∧ m < p.t)

theorem outside_iff (t : AnyTier Int) (minT maxT : Option Int) : t.outside minT maxT = true ↔ Sticks t minT maxT := by
  cases t <;> cases minT <;> cases maxT <;> simp [AnyTier.outside, Sticks]

/-- a sorted interval tier with nothing outside `[lo, hi]` is never rejected by `_fillInBlanks` -/
theorem fillInBlanks_inside_ok (es : List (Iv Int)) (lo hi : Int) (hin : ∀ e ∈ es, lo ≤ e.s ∧ e.e ≤ hi) :
    ∃ f, fillInBlanks es lo hi = .ok f := by
  rw [fillInBlanks_match]
  cases es with
  | nil => exact ⟨_, rfl⟩
  | cons first rest =>
    have h1 := (hin first (by simp)).1
    have h2 := (hin _ (lastD_mem first rest)).2
    simp only [show ¬ first.s < lo by omega, show ¬ hi < (lastD first rest).e by omega, if_false]
    exact ⟨_, rfl⟩

/-- **the save raises `ParsingError` exactly when some entry lies outside the requested span** — interval tiers and
point tiers, blank filling on or off, any threshold, any tier (well-formed or not) -/
theorem prep_outside_iff (g : Tg Int) (blanks : Bool) (minOv maxOv minLen : Option Int) :
    prepTg g blanks minOv maxOv minLen = .error .ParsingError ↔
      ∃ t ∈ g.tiers, Sticks t (eff minOv g.lo) (eff maxOv g.hi) := by
  rw [prepTg_eq]
  have hany : (g.tiers.map sortTier).any (fun t => t.outside (eff minOv g.lo) (eff maxOv g.hi)) = true ↔
      ∃ t ∈ g.tiers, Sticks t (eff minOv g.lo) (eff maxOv g.hi) := by
    simp only [List.any_map, List.any_eq_true, Function.comp, outside_sortTier, outside_iff]
  constructor
  · intro h
    by_cases hc : (g.tiers.map sortTier).any (fun t => t.outside (eff minOv g.lo) (eff maxOv g.hi)) = true
    · exact hany.1 hc
    · exfalso
      rw [if_neg hc] at h
      cases hm : (g.tiers.map sortTier).mapM (prepTier blanks (eff minOv g.lo) (eff maxOv g.hi) minLen) with
      | ok ts => rw [hm] at h; cases h
      | error e =>
        rw [hm] at h
        have he : e = .ParsingError := by cases h; rfl
        subst he
        obtain ⟨t, ht, hf⟩ := mapM_err _ _ _ hm
        have hno : t.outside (eff minOv g.lo) (eff maxOv g.hi) = false := by
          have := hc; simp only [List.any_eq_true, not_exists, not_and, Bool.not_eq_true] at this
          exact this t ht
        cases t with
        | P t => cases hf
        | I t =>
          simp only [prepTier] at hf
          split at hf
          · split at hf
            · rename_i lo hi hlo hhi
              rw [hlo, hhi] at hno
              have hin : ∀ e ∈ t.es, lo ≤ e.s ∧ e.e ≤ hi := by
                intro e he
                simp only [AnyTier.outside, List.any_eq_false, Bool.or_eq_true, decide_eq_true_eq, not_or] at hno
                have := hno e he; omega
              obtain ⟨f, hfok⟩ := fillInBlanks_inside_ok t.es lo hi hin
              rw [hfok] at hf; cases hf
            · cases hf
          · cases hf
  · intro h
    rw [if_pos (hany.2 h)]

/-- kind, name and the tier's own `xmin`/`xmax` lines -/
def hdr : AnyTier Int → Bool × String × Int × Int
  | .I t => (true, t.name, t.lo, t.hi)
  | .P t => (false, t.name, t.lo, t.hi)

/-- **the override does not reach the tiers' own span lines**: every successful save writes each tier with the kind, name
and `xmin`/`xmax` it had — also when a `minTimestamp`/`maxTimestamp` override moved the file's span (and with it the
blanks of the tier) beyond them -/
theorem prep_headers (g g' : Tg Int) (blanks : Bool) (minOv maxOv minLen : Option Int)
    (h : prepTg g blanks minOv maxOv minLen = .ok g') : g'.tiers.map hdr = g.tiers.map hdr := by
  rw [prepTg_eq] at h
  split at h
  · cases h
  · cases hm : (g.tiers.map sortTier).mapM (prepTier blanks (eff minOv g.lo) (eff maxOv g.hi) minLen) with
    | error e => rw [hm] at h; cases h
    | ok ts =>
      rw [hm] at h; cases h
      have := mapM_keeps _ hdr _ _ hm (by
        intro a b hab
        cases a with
        | P t => cases hab; rfl
        | I t =>
          simp only [prepTier] at hab
          split at hab
          · split at hab
            · cases hf : fillInBlanks t.es _ _ with
              | error e => rw [hf] at hab; cases hab
              | ok f => rw [hf] at hab; cases hab; rfl
            · cases hab
          · cases hab; rfl)
      rw [this, List.map_map]
      apply List.map_congr_left
      intro t _; cases t <;> rfl

/-- a tier in the order `list.sort()` leaves it in -/
def Sorted : AnyTier Int → Prop
  | .I t => Pos t.es ∧ Disj t.es
  | .P t => t.ps.Pairwise (fun a b => Pt.le a b = true)

theorem sortTier_sorted (t : AnyTier Int) (h : Sorted t) : sortTier t = t := by
  cases t with
  | I t => simp only [sortTier, sortIvs_of_wf t.es h.1 h.2]
  | P t => simp only [sortTier, sortPts, List.mergeSort_of_pairwise h]

theorem map_sortTier (l : List (AnyTier Int)) (h : ∀ t ∈ l, Sorted t) : l.map sortTier = l := by
  induction l with
  | nil => rfl
  | cons a l ih => rw [List.map_cons, sortTier_sorted a (h a (by simp)), ih (fun t ht => h t (List.mem_cons_of_mem _ ht))]

/-- **with blank filling off, entries are written verbatim** (every tier kind, any threshold, with or without a span,
well-formed or not): unless an entry sticks out of the requested span, the save returns the tiers with their entries in
`list.sort()` order — which for tiers as the constructors leave them is the tiers themselves -/
theorem prep_verbatim (g : Tg Int) (minOv maxOv minLen : Option Int)
    (hin : ∀ t ∈ g.tiers, ¬ Sticks t (eff minOv g.lo) (eff maxOv g.hi)) :
    prepTg g false minOv maxOv minLen = .ok ⟨g.tiers.map sortTier, eff minOv g.lo, eff maxOv g.hi⟩ ∧
      ((∀ t ∈ g.tiers, Sorted t) → g.tiers.map sortTier = g.tiers) := by
  refine ⟨?_, map_sortTier _⟩
  rw [prepTg_eq]
  have hc : ¬ ((g.tiers.map sortTier).any (fun t => t.outside (eff minOv g.lo) (eff maxOv g.hi)) = true) := by
    simp only [List.any_map, List.any_eq_true, Function.comp, outside_sortTier, outside_iff, not_exists, not_and]
    exact hin
  rw [if_neg hc, mapM_ok' _ id]
  · simp only [List.map_id]; rfl
  · intro a _; cases a <;> rfl

/-- what is written for one tier when blank filling is on: a point tier verbatim; an interval tier blank-filled, then —
with a threshold — the intervals at least that long, re-spanned -/
def savedTier (lo hi : Int) (minLen : Option Int) : AnyTier Int → AnyTier Int
  | .P t => .P t
  | .I t => .I { t with es := match minLen with
      | some m => respan lo hi ((fillSpec t.es lo hi).filter (isLong m))
      | none => fillSpec t.es lo hi }

theorem not_sticks_inside (t : ITier Int) (lo hi : Int) (h : ¬ Sticks (.I t) (some lo) (some hi)) :
    ∀ e ∈ t.es, lo ≤ e.s ∧ e.e ≤ hi := by
  intro e he
  simp only [Sticks, not_exists, not_and, not_or] at h
  have := h e he
  exact ⟨by have := this.1 lo rfl; omega, by have := this.2 hi rfl; omega⟩

/-- **`_prepTgForSaving` with blank filling on, in full**: for time-ordered tiers with no entry outside the requested
span `[lo, hi]`, `lo < hi`, the save succeeds; the file's span is `[lo, hi]`; point tiers are written verbatim; an
interval tier is written as `fillSpec` (threshold `None`) or as the re-spanned long intervals of `fillSpec` (threshold `m`,
any `m`) -/
theorem prep_ok (g : Tg Int) (minOv maxOv minLen : Option Int) (lo hi : Int)
    (hlo : eff minOv g.lo = some lo) (hhi : eff maxOv g.hi = some hi) (hlh : lo < hi)
    (hs : ∀ t ∈ g.tiers, Sorted t) (hin : ∀ t ∈ g.tiers, ¬ Sticks t (some lo) (some hi)) :
    prepTg g true minOv maxOv minLen = .ok ⟨g.tiers.map (savedTier lo hi minLen), some lo, some hi⟩ := by
  rw [prepTg_eq, map_sortTier _ hs, hlo, hhi]
  have hc : ¬ (g.tiers.any (fun t => t.outside (some lo) (some hi)) = true) := by
    simp only [List.any_eq_true, outside_iff, not_exists, not_and]; exact hin
  rw [if_neg hc, mapM_ok' _ (savedTier lo hi minLen)]
  · rfl
  · intro a ha
    cases a with
    | P t => rfl
    | I t =>
      have hS := hs _ ha
      have hI := not_sticks_inside t lo hi (hin _ ha)
      have hf := fillInBlanks_eq t.es lo hi hlh hS.1 hS.2 hI
      have hch := fillSpec_chain t.es lo hi hlh hS.1 hS.2 hI
      simp only [prepTier, if_true, hf, savedTier]
      cases minLen with
      | none =>
        show Except.ok _ = Except.ok _
        simp only [hch.sorted]
      | some m =>
        show Except.ok _ = Except.ok _
        simp only
        rw [removeUltrashort_spec m lo hi _ hch]
        have : sortIvs (respan lo hi ((fillSpec t.es lo hi).filter (isLong m))) =
            respan lo hi ((fillSpec t.es lo hi).filter (isLong m)) := by
          rw [← removeUltrashort_spec m lo hi _ hch]
          rcases removeUltrashort_tiles m lo hi _ hch with h0 | ⟨_, h1, _⟩
          · rw [h0]; simp [sortIvs]
          · exact h1.sorted
        rw [this]

/-- the other error of the save: blank filling needs a span — `ValueError` (Python: `float(None)`… the model's name for
it) exactly when nothing sticks out, blank filling is on, an interval tier is present and a bound is missing -/
theorem prep_error_cases (g : Tg Int) (blanks : Bool) (minOv maxOv minLen : Option Int) (e : Err)
    (h : prepTg g blanks minOv maxOv minLen = .error e) :
    (e = .ParsingError ∧ ∃ t ∈ g.tiers, Sticks t (eff minOv g.lo) (eff maxOv g.hi)) ∨
    (e = .ValueError ∧ blanks = true ∧ (∃ t ∈ g.tiers, t.isInterval = true) ∧
      (eff minOv g.lo = none ∨ eff maxOv g.hi = none)) := by
  by_cases hp : ∃ t ∈ g.tiers, Sticks t (eff minOv g.lo) (eff maxOv g.hi)
  · left
    have := (prep_outside_iff g blanks minOv maxOv minLen).2 hp
    rw [this] at h; cases h; exact ⟨rfl, hp⟩
  · right
    rw [prepTg_eq] at h
    have hc : ¬ ((g.tiers.map sortTier).any (fun t => t.outside (eff minOv g.lo) (eff maxOv g.hi)) = true) := by
      simp only [List.any_map, List.any_eq_true, Function.comp, outside_sortTier, outside_iff]; exact hp
    rw [if_neg hc] at h
    cases hm : (g.tiers.map sortTier).mapM (prepTier blanks (eff minOv g.lo) (eff maxOv g.hi) minLen) with
    | ok ts => rw [hm] at h; cases h
    | error e' =>
      rw [hm] at h
      have he : e' = e := by cases h; rfl
      subst he
      obtain ⟨t, ht, hf⟩ := mapM_err _ _ _ hm
      obtain ⟨t0, ht0, rfl⟩ := List.mem_map.1 ht
      have hno : ¬ Sticks t0 (eff minOv g.lo) (eff maxOv g.hi) := fun hh => hp ⟨t0, ht0, hh⟩
      cases t0 with
      | P t => cases hf
      | I t =>
        simp only [sortTier, prepTier] at hf
        split at hf
        · rename_i hb
          split at hf
          · rename_i lo hi hlo hhi
            exfalso
            rw [hlo, hhi] at hno
            have hin : ∀ e ∈ sortIvs t.es, lo ≤ e.s ∧ e.e ≤ hi := fun e he =>
              not_sticks_inside t lo hi hno e (mem_sortIvs.1 he)
            obtain ⟨f, hfok⟩ := fillInBlanks_inside_ok _ lo hi hin
            rw [hfok] at hf; cases hf
          · rename_i hnot
            cases hf
            refine ⟨rfl, hb, ⟨_, ht0, rfl⟩, ?_⟩
            cases h1 : eff minOv g.lo with
            | none => left; rfl
            | some lo =>
              cases h2 : eff maxOv g.hi with
              | none => right; rfl
              | some hi => exact absurd h2 (fun _ => hnot lo hi h1 h2)
        · cases hf

/-! ## the property's sentences for one saved interval tier (original entries `es`, blank filling on) -/

/-- **threshold `m`: every labelled interval at least `m` long is written with its label, in order, and nothing else is
written with a label** — in terms of the tier's own entries -/
theorem saved_labels_kept (es : List (Iv Int)) (lo hi : Int) (hlh : lo < hi) (hp : Pos es) (hd : Disj es)
    (hin : ∀ e ∈ es, lo ≤ e.s ∧ e.e ≤ hi) (m : Int) :
    ((respan lo hi ((fillSpec es lo hi).filter (isLong m))).filter labelled).map (·.l) =
      (es.filter (fun e => isLong m e && labelled e)).map (·.l) := by
  have hc := fillSpec_chain es lo hi hlh hp hd hin
  rw [← removeUltrashort_spec m lo hi _ hc, labels_kept m lo hi _ hc,
    fillSpec_filter (fun e => isLong m e && labelled e) (fun a b => by simp [labelled])]

/-- **threshold `None`: nothing is absorbed and every written interval has positive length** — the written tier tiles
`[lo, hi]`, contains the entries unchanged and in order, everything else is a blank, and the labelled intervals are
exactly the tier's -/
theorem saved_none (es : List (Iv Int)) (lo hi : Int) (hlh : lo < hi) (hp : Pos es) (hd : Disj es)
    (hin : ∀ e ∈ es, lo ≤ e.s ∧ e.e ≤ hi) :
    Chain lo hi (fillSpec es lo hi) ∧ (∀ x ∈ fillSpec es lo hi, x.s < x.e) ∧ es.Sublist (fillSpec es lo hi) ∧
      (∀ x ∈ fillSpec es lo hi, x ∈ es ∨ x.l = "") ∧ (fillSpec es lo hi).filter labelled = es.filter labelled := by
  obtain ⟨es', e1, c, _, sub, mem⟩ := fillInBlanks_tiles es lo hi hlh hp hd hin
  rw [fillInBlanks_eq es lo hi hlh hp hd hin] at e1
  cases e1
  exact ⟨c, c.pos, sub, mem, fillSpec_labelled es lo hi⟩

theorem pairwise_either {β : Type} (R : β → β → Prop) (l : List β) (h : l.Pairwise R) (a b : β) (ha : a ∈ l) (hb : b ∈ l)
    (hne : a ≠ b) : R a b ∨ R b a := by
  induction l with
  | nil => simp at ha
  | cons x xs ih =>
    rw [List.pairwise_cons] at h
    rcases List.mem_cons.1 ha with rfl | ha' <;> rcases List.mem_cons.1 hb with rfl | hb'
    · exact absurd rfl hne
    · exact Or.inl (h.1 b hb')
    · exact Or.inr (h.1 a ha')
    · exact ih h.2 ha' hb'

/-- **blanks are added only in unlabelled stretches**: a written interval that is not an entry of the tier is a blank
and overlaps no entry -/
theorem blanks_in_gaps (es : List (Iv Int)) (lo hi : Int) (hlh : lo < hi) (hp : Pos es) (hd : Disj es)
    (hin : ∀ e ∈ es, lo ≤ e.s ∧ e.e ≤ hi) (x : Iv Int) (hx : x ∈ fillSpec es lo hi) (hnx : x ∉ es) :
    x.l = "" ∧ ∀ e ∈ es, e.e ≤ x.s ∨ x.e ≤ e.s := by
  obtain ⟨c, _, sub, mem, _⟩ := saved_none es lo hi hlh hp hd hin
  refine ⟨(mem x hx).resolve_left hnx, fun e he => ?_⟩
  have := pairwise_either _ _ c.disj e x (sub.subset he) hx (fun h => hnx (h ▸ he))
  exact this

/-! ## where the real code leaves the property (each replayed on `/repo`, see the report in tools/claims/C04.json) -/

def tg1 (es : List (Iv Int)) (lo hi : Int) : Tg Int := ⟨[.I ⟨"w", es, lo, hi⟩], some lo, some hi⟩

/-- **every interval a sliver**: three labelled intervals tiling `[0, 10]`, threshold 5 (real code: `(0,.4,a) (.4,.8,b)
(.8,1,c)` in `[0,1]`, `minimumIntervalLength=0.5`): nothing is "absorbed into a neighbour" — all three intervals are
deleted and the file holds an interval tier with **no** intervals although the span (10) is twice the threshold -/
theorem all_slivers_counterexample :
    prepTg (tg1 [⟨0, 4, "a"⟩, ⟨4, 8, "b"⟩, ⟨8, 10, "c"⟩] 0 10) true none none (some 5) =
      .ok (tg1 [] 0 10) := by
  rw [prep_ok _ none none (some 5) 0 10 rfl rfl (by omega)]
  · rfl
  · intro t ht
    simp only [tg1, List.mem_singleton] at ht; subst ht
    refine ⟨?_, ?_⟩ <;> simp [Pos, Disj]
  · intro t ht
    simp only [tg1, List.mem_singleton] at ht; subst ht
    simp [Sticks]

/-- **span of length zero, threshold disabled**: an empty tier in a textgrid whose span is `[1, 1]` is written with the
interval `(1, 1, "")` — "every written interval still has positive length" fails (`lo < hi` is needed in `saved_none`) -/
theorem zero_span_counterexample :
    prepTg (tg1 [] 1 1) true none none none = .ok (tg1 [⟨1, 1, ""⟩] 1 1) := by
  rw [prepTg_eq]
  simp [tg1, sortTier, sortIvs, eff, AnyTier.outside, prepTier, fillInBlanks_match, bind, Except.bind, pure, Except.pure]

/-- the same with a reversed request (`minTimestamp=5` on an empty tier of `[0, 3]`): the interval `(5, 3, "")` -/
theorem reversed_span_counterexample :
    prepTg (tg1 [] 0 3) true (some 5) none none = .ok ⟨[.I ⟨"w", [⟨5, 3, ""⟩], 0, 3⟩], some 5, some 3⟩ := by
  rw [prepTg_eq]
  simp [tg1, sortTier, sortIvs, eff, AnyTier.outside, prepTier, fillInBlanks_match, bind, Except.bind, pure, Except.pure]

/-- **an override beyond the tier's own span** (`maxTimestamp=5` on `[0, 3]`): the file's span becomes `[0, 5]` and the
tier is filled up to 5, but the tier's own `xmax` line still says 3 (`prep_headers` is the general statement) -/
theorem override_leaves_tier_span :
    prepTg (tg1 [⟨0, 1, "a"⟩] 0 3) true none (some 5) none =
      .ok ⟨[.I ⟨"w", [⟨0, 1, "a"⟩, ⟨1, 5, ""⟩], 0, 3⟩], some 0, some 5⟩ := by
  rw [prep_ok _ none (some 5) none 0 5 rfl rfl (by omega)]
  · rfl
  · intro t ht
    simp only [tg1, List.mem_singleton] at ht; subst ht
    refine ⟨?_, ?_⟩ <;> simp [Pos, Disj]
  · intro t ht
    simp only [tg1, List.mem_singleton] at ht; subst ht
    simp [Sticks]

/-! ## the candidate inputs, on the model (same values as the replays on the real code) -/
def rus (es : List (Iv Int)) (m lo : Int) : List (Iv Int) := removeUltrashort es m lo
#guard rus [⟨0, 1, "s"⟩, ⟨1, 10, "a"⟩, ⟨10, 20, "b"⟩] 5 0 == [⟨0, 10, "a"⟩, ⟨10, 20, "b"⟩]          -- first entry a sliver
#guard rus [⟨0, 1, "s"⟩, ⟨1, 2, "t"⟩, ⟨2, 10, "a"⟩, ⟨10, 20, "b"⟩] 5 0 == [⟨0, 10, "a"⟩, ⟨10, 20, "b"⟩]  -- two slivers at the start
#guard rus [⟨0, 1, "s"⟩] 5 0 == []                                                                   -- a sliver alone
#guard rus [⟨0, 1, "s"⟩, ⟨1, 3, "t"⟩, ⟨3, 4, "u"⟩] 5 0 == []                                          -- only slivers
#guard rus [⟨0, 5, "s"⟩, ⟨5, 15, "a"⟩] 5 0 == [⟨0, 5, "s"⟩, ⟨5, 15, "a"⟩]                             -- exactly the threshold: kept
#guard rus [⟨0, 10, "a"⟩, ⟨10, 11, "s"⟩, ⟨11, 20, "b"⟩] 5 0 == [⟨0, 11, "a"⟩, ⟨11, 20, "b"⟩]           -- absorbed by the preceding one
#guard rus [⟨2, 3, "s"⟩, ⟨3, 10, "a"⟩] 5 2 == [⟨2, 10, "a"⟩]                                          -- `lo` is the override
#guard (prepTg (tg1 [⟨10, 11, "s"⟩, ⟨11, 20, "a"⟩] 0 30) true (some 10) none (some 5)).toOption.map (·.tiers.map fun | .I t => t.es | _ => []) ==
  some [[⟨10, 20, "a"⟩, ⟨20, 30, ""⟩]]
#guard (prepTg (tg1 [⟨10, 11, "s"⟩, ⟨11, 20, "a"⟩] 0 30) true (some 5) none (some 6)).toOption.map (·.tiers.map fun | .I t => t.es | _ => []) ==
  some [[⟨5, 20, "a"⟩, ⟨20, 30, ""⟩]]

end C04
