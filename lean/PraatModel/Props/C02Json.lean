import PraatModel.Json
import PraatModel.Props.C02Full
import PraatModel.Props.C01Long

/-!
# C01 / C02 for the two JSON formats — whole files, every textgrid, every label

What praatio writes for "textgrid_json" and "json" is `json.dumps(dictionary, ensure_ascii=False)`.  `Json.render`
(Json.lean) is that function on the model's documents, `tgToJsonFull` / `tgToJsonSimple` the two dictionaries of a prepared
textgrid; the correspondence run compares their text byte for byte with `getTextgridAsStr` on every generated textgrid.
`Json.parse` is a reader for `json.loads` (compared with it on praatio-written, independently written, damaged and random
documents), `tgOfJson` the README schemas.  Python's `json` module itself stays trusted; what is proved is about the model:

* `jsonString_roundtrip` — the string reader undoes `jsonEscape` for EVERY text (quotes, backslashes, all control characters,
  DEL, U+2028, non-ASCII, astral) and stops right after the closing quote;
* `parse_render` — `Json.parse (render v) = some v` for every document whose numbers are numerals of the JSON grammar
  (any nesting, any strings, key order and duplicate keys kept);
* `decode_json_full`, `decode_json_simple` — reading the written file against the schema returns exactly the in-memory
  content `rawOf` (the record `C02.decode_short` / `decode_long` recover from the text formats), for the simplified format
  with the textgrid's span for every tier (`oneSpan`);
* `json_formats_agree`, `four_formats_agree`, `three_formats_agree_spans` — the formats say the same.

Hypotheses: `JsonNum (num x)` — every rendered time is a numeral `-?(0|[1-9]\d*)(\.\d+)?([eE][-+]?\d+)?` (proved for
`Int`/`Nat` renderers, i.e. Python ints: `jsonNum_int`; sampled on every time of every case for CPython's `float.__repr__`;
`inf`/`nan` are excluded — CPython writes `Infinity`/`NaN` for them, which is not JSON); for the simplified format, distinct
tier names (`g.names.Nodup`, the invariant of the `Textgrid` class — the format is a dictionary keyed by name).

Route: (1) strings; (2) the number scanner reads an accepted numeral back whole when what follows cannot continue it
(`Stop`); (3) the tokenizer without fuel, `USeg` / `JSeg`: a piece of text contributes its tokens whatever follows;
(4) `jseg_val`: the tokens of `render v` are `toks v` (mutual induction over the document); (5) `parseVal_toks`: the value
reader on `toks v` returns `v` (mutual induction, fuel accounting); (6) the schema readers on the two dictionaries.
-/
namespace C02
open Json

/-! ## 1. strings: `scanstring ∘ encode_basestring = id` -/

theorem hex4_ctrl : ∀ n, n < 32 → hex4 '0' '0' (hexDigit (n / 16)) (hexDigit (n % 16)) = some n := by decide

theorem lexStr_quote (rest : List Char) : lexStr ('"' :: rest) = some ([], rest) := by
  rw [lexStr]; simp

theorem lexStr_bs (cs : List Char) (x : Char) (r : List Char) (h : lexEsc cs = some (x, r)) :
    lexStr ('\\' :: cs) = consTo x (lexStr r) := by
  rw [lexStr]
  have h1 : ¬ ('\\' = '"') := by decide
  simp only [h1, if_false, if_true]
  split
  · rename_i h'; rw [h] at h'; cases h'
  · rename_i x' r' h'; rw [h] at h'; cases h'; rfl

theorem lexStr_plain (c : Char) (cs : List Char) (h1 : c ≠ '"') (h2 : c ≠ '\\') (h3 : ¬ c.toNat < 0x20) :
    lexStr (c :: cs) = consTo c (lexStr cs) := by
  rw [lexStr]; simp [h1, h2, h3]

theorem lexStr_simple (e x : Char) (tail : List Char) (he : e ≠ 'u') (hx : simpleEsc e = some x) :
    lexStr ('\\' :: e :: tail) = consTo x (lexStr tail) :=
  lexStr_bs _ _ _ (by simp [lexEsc, he, hx])

theorem lexStr_escChar (c : Char) (tail : List Char) : lexStr (escChar c ++ tail) = consTo c (lexStr tail) := by
  unfold escChar
  split
  · subst_vars; exact lexStr_simple _ _ _ (by decide) (by decide)
  split
  · subst_vars; exact lexStr_simple _ _ _ (by decide) (by decide)
  split
  · subst_vars; exact lexStr_simple _ _ _ (by decide) (by decide)
  split
  · subst_vars; exact lexStr_simple _ _ _ (by decide) (by decide)
  split
  · subst_vars; exact lexStr_simple _ _ _ (by decide) (by decide)
  split
  · subst_vars; exact lexStr_simple _ _ _ (by decide) (by decide)
  split
  · subst_vars; exact lexStr_simple _ _ _ (by decide) (by decide)
  split
  · rename_i h1 h2 h3 h4 h5 h6 h7 h8
    have hh := hex4_ctrl c.toNat h8
    refine lexStr_bs _ _ _ ?_
    have ha : ¬ (55296 ≤ c.toNat ∧ c.toNat ≤ 56319) := by omega
    have hb : ¬ (56320 ≤ c.toNat ∧ c.toNat ≤ 57343) := by omega
    simp [lexEsc, lexU, hh, ha, hb, Char.ofNat_toNat]
  · rename_i h1 h2 h3 h4 h5 h6 h7 h8
    exact lexStr_plain _ _ h1 h2 h8

theorem lexStr_escape (s rest : List Char) : lexStr (jsonEscape s ++ '"' :: rest) = some (s, rest) := by
  induction s with
  | nil => exact lexStr_quote rest
  | cons c cs ih =>
    simp only [jsonEscape, List.flatMap_cons, List.append_assoc] at ih ⊢
    rw [lexStr_escChar, ih]; rfl

/-- **every string survives `json.dumps` / `json.loads`**: whatever the text contains (quotes, backslashes, control
characters, DEL, U+2028, non-ASCII, astral), the string reader applied to the quoted, escaped text returns the text and stops
right after the closing quote -/
theorem jsonString_roundtrip (s rest : List Char) : Json.parseString ('"' :: (jsonEscape s ++ '"' :: rest)) = some (s, rest) :=
  lexStr_escape s rest

/-! ## 2. numbers: a numeral the scanner accepts is read back whole, whatever (not numeral-like) follows -/

/-- a character that can continue a numeral -/
def numCont (c : Char) : Bool := c.isDigit || c == '.' || c == 'e' || c == 'E' || c == '+' || c == '-'

/-- what follows a value in a document (`,`, `]`, `}`, white space, the end) cannot continue a numeral -/
def Stop (rest : List Char) : Prop := ∀ c, rest.head? = some c → numCont c = false

theorem Stop.nil : Stop [] := by intro c h; simp at h
theorem Stop.cons (c : Char) (cs : List Char) (h : numCont c = false) : Stop (c :: cs) := by
  intro d hd; simp at hd; subst hd; exact h

theorem step_numCont (st st' : NSt) (c : Char) (h : st.step c = some st') : numCont c = true := by
  unfold numCont
  cases st <;> simp only [NSt.step] at h <;> (repeat' split at h) <;> simp_all <;>
    (rename_i hh; rcases hh with rfl | rfl <;> simp)

theorem numScan_accepts (w : List Char) : ∀ (st : NSt) (rest : List Char), accepts st w = true → Stop rest →
    numScan st (w ++ rest) = some (w, rest) := by
  induction w with
  | nil =>
    intro st rest ha hs
    simp only [accepts] at ha
    cases rest with
    | nil => simp [numScan, ha]
    | cons c cs =>
      have hc := hs c rfl
      have : st.step c = none := by
        cases hst : st.step c with
        | none => rfl
        | some st' => rw [step_numCont st st' c hst] at hc; cases hc
      simp [numScan, this, ha]
  | cons c cs ih =>
    intro st rest ha hs
    simp only [accepts] at ha
    cases hst : st.step c with
    | none => simp [hst] at ha
    | some st' =>
      simp only [hst] at ha
      simp only [List.cons_append, numScan, hst, ih st' rest ha hs, consTo, Option.map_some]

theorem numScan_split (l : List Char) : ∀ (st : NSt) (w r : List Char), numScan st l = some (w, r) → w ++ r = l := by
  induction l with
  | nil => intro st w r h; simp only [numScan] at h; split at h <;> simp_all
  | cons c cs ih =>
    intro st w r h
    simp only [numScan] at h
    split at h
    · rename_i st' _
      cases hn : numScan st' cs with
      | none => simp [hn, consTo] at h
      | some p =>
        obtain ⟨w', r'⟩ := p
        simp only [hn, consTo, Option.map_some, Option.some.injEq, Prod.mk.injEq] at h
        obtain ⟨rfl, rfl⟩ := h
        simp [ih st' w' r' hn]
    · split at h <;> simp_all

theorem numScan_start_length (c : Char) (cs w r : List Char) (h : numScan .start (c :: cs) = some (w, r)) : r.length ≤ cs.length := by
  have hs := numScan_split _ _ _ _ h
  cases w with
  | nil =>
    simp only [numScan] at h
    split at h
    · rename_i st' _
      cases hn : numScan st' cs <;> simp [hn, consTo] at h
    · simp [NSt.final] at h
  | cons a w' =>
    have := congrArg List.length hs
    simp only [List.cons_append, List.length_cons, List.length_append] at this
    omega

/-! ## 3. the tokenizer without fuel -/

theorem startsWith_length (pre l r : List Char) (h : startsWith pre l = some r) : r.length ≤ l.length := by
  induction pre generalizing l with
  | nil => simp only [startsWith] at h; cases h; exact Nat.le_refl _
  | cons p ps ih =>
    cases l with
    | nil => simp [startsWith] at h
    | cons c cs =>
      simp only [startsWith] at h
      split at h
      · have := ih cs h; simp only [List.length_cons]; omega
      · cases h

theorem lexStr_length (l : List Char) : ∀ s r, lexStr l = some (s, r) → r.length ≤ l.length := by
  induction l using lexStr.induct with
  | case1 => intro s r h; rw [lexStr] at h; cases h
  | case2 cs => intro s r h; rw [lexStr_quote] at h; simp only [Option.some.injEq, Prod.mk.injEq] at h; obtain ⟨_, rfl⟩ := h; simp
  | case3 cs hesc _ =>
    intro s r h; rw [lexStr] at h
    have h1 : ¬ ('\\' = '"') := by decide
    simp only [h1, if_false, if_true] at h
    split at h
    · cases h
    · rename_i _ _ h'; rw [hesc] at h'; cases h'
  | case4 cs x r' hesc _ ih =>
    intro s r h; rw [lexStr_bs _ _ _ hesc] at h
    cases hl : lexStr r' with
    | none => simp [hl, consTo] at h
    | some p =>
      simp only [hl, consTo, Option.map_some, Option.some.injEq, Prod.mk.injEq] at h
      obtain ⟨_, rfl⟩ := h
      have := ih p.1 p.2 hl
      have := lexEsc_length _ _ _ hesc
      simp only [List.length_cons]; omega
  | case5 c cs hc hb hctl => intro s r h; rw [lexStr] at h; simp [hc, hb, hctl] at h
  | case6 c cs hc hb hctl ih =>
    intro s r h; rw [lexStr_plain _ _ hc hb hctl] at h
    cases hl : lexStr cs with
    | none => simp [hl, consTo] at h
    | some p =>
      simp only [hl, consTo, Option.map_some, Option.some.injEq, Prod.mk.injEq] at h
      obtain ⟨_, rfl⟩ := h
      have := ih p.1 p.2 hl
      simp only [List.length_cons]; omega

theorem lexOne_length (c : Char) (cs : List Char) (ts : List JTok) (rest : List Char) (h : lexOne c cs = some (ts, rest)) :
    rest.length ≤ cs.length := by
  unfold lexOne at h
  have ok : ∀ t, some (t, cs) = some (ts, rest) → rest.length ≤ cs.length := by
    intro t e; simp only [Option.some.injEq, Prod.mk.injEq] at e; obtain ⟨_, rfl⟩ := e; exact Nat.le_refl _
  have okS : ∀ (pre : List Char) (t : List JTok), Option.map (fun r => (t, r)) (startsWith pre cs) = some (ts, rest) → rest.length ≤ cs.length := by
    intro pre t e
    simp only [Option.map_eq_some_iff, Prod.mk.injEq] at e
    obtain ⟨p, hp, _, rfl⟩ := e
    exact startsWith_length _ _ _ hp
  by_cases h1 : isWs c = true
  · rw [if_pos h1] at h; exact ok _ h
  rw [if_neg h1] at h
  by_cases h2 : c = '{'
  · rw [if_pos h2] at h; exact ok _ h
  rw [if_neg h2] at h
  by_cases h3 : c = '}'
  · rw [if_pos h3] at h; exact ok _ h
  rw [if_neg h3] at h
  by_cases h4 : c = '['
  · rw [if_pos h4] at h; exact ok _ h
  rw [if_neg h4] at h
  by_cases h5 : c = ']'
  · rw [if_pos h5] at h; exact ok _ h
  rw [if_neg h5] at h
  by_cases h6 : c = ','
  · rw [if_pos h6] at h; exact ok _ h
  rw [if_neg h6] at h
  by_cases h7 : c = ':'
  · rw [if_pos h7] at h; exact ok _ h
  rw [if_neg h7] at h
  by_cases h8 : c = '"'
  · rw [if_pos h8] at h
    simp only [Option.map_eq_some_iff, Prod.mk.injEq] at h
    obtain ⟨p, hp, _, rfl⟩ := h
    exact lexStr_length _ _ _ hp
  rw [if_neg h8] at h
  by_cases h9 : c = 't'
  · rw [if_pos h9] at h; exact okS _ _ h
  rw [if_neg h9] at h
  by_cases h10 : c = 'f'
  · rw [if_pos h10] at h; exact okS _ _ h
  rw [if_neg h10] at h
  by_cases h11 : c = 'n'
  · rw [if_pos h11] at h; exact okS _ _ h
  rw [if_neg h11] at h
  by_cases h12 : c = 'N'
  · rw [if_pos h12] at h; exact okS _ _ h
  rw [if_neg h12] at h
  by_cases h13 : c = 'I'
  · rw [if_pos h13] at h; exact okS _ _ h
  rw [if_neg h13] at h
  split at h
  · rename_i r hr
    simp only [Option.some.injEq, Prod.mk.injEq] at h
    obtain ⟨_, rfl⟩ := h
    split at hr
    · exact startsWith_length _ _ _ hr
    · cases hr
  · simp only [Option.map_eq_some_iff, Prod.mk.injEq] at h
    obtain ⟨p, hp, _, rfl⟩ := h
    exact numScan_start_length _ _ _ _ hp

/-- any fuel above the input length gives the same token list -/
theorem jtokens_fuel_eq : ∀ (f f' : Nat) (l : List Char), l.length < f → l.length < f' → tokens f l = tokens f' l := by
  intro f
  induction f with
  | zero => intro f' l h; omega
  | succ f ih =>
    intro f' l h h'
    cases f' with
    | zero => omega
    | succ f' =>
      cases l with
      | nil => simp [tokens]
      | cons c cs =>
        simp only [List.length_cons] at h h'
        simp only [tokens]
        cases hl : lexOne c cs with
        | none => rfl
        | some p =>
          obtain ⟨ts, rest⟩ := p
          have := lexOne_length c cs ts rest hl
          simp only
          rw [ih f' rest (by omega) (by omega)]

/-- the tokenizer with exactly the fuel `Json.parse` gives it -/
def jtok (l : List Char) : Option (List JTok) := tokens (l.length + 1) l

theorem jtok_nil : jtok [] = some [] := rfl

theorem jtok_cons (c : Char) (cs : List Char) (ts : List JTok) (rest : List Char) (h : lexOne c cs = some (ts, rest)) :
    jtok (c :: cs) = (jtok rest).map (ts ++ ·) := by
  have hl := lexOne_length c cs ts rest h
  unfold jtok
  rw [List.length_cons, tokens]
  simp only [h]
  rw [jtokens_fuel_eq _ (rest.length + 1) rest (by omega) (by omega)]

/-- `l` contributes exactly the tokens `ts`, whatever follows it -/
def USeg (l : List Char) (ts : List JTok) : Prop := ∀ rest, jtok (l ++ rest) = (jtok rest).map (ts ++ ·)

/-- `l` contributes exactly the tokens `ts`, provided that what follows cannot continue a numeral -/
def JSeg (l : List Char) (ts : List JTok) : Prop := ∀ rest, Stop rest → jtok (l ++ rest) = (jtok rest).map (ts ++ ·)

theorem USeg.toJ {l : List Char} {ts : List JTok} (h : USeg l ts) : JSeg l ts := fun rest _ => h rest

theorem JSeg.nil : JSeg [] [] := by
  intro rest _; cases h : jtok rest <;> simp [h]

theorem USeg.append {a b : List Char} {ta tb : List JTok} (h1 : USeg a ta) (h2 : USeg b tb) : USeg (a ++ b) (ta ++ tb) := by
  intro rest
  rw [List.append_assoc, h1, h2]
  cases jtok rest <;> simp

theorem USeg.append_j {a b : List Char} {ta tb : List JTok} (h1 : USeg a ta) (h2 : JSeg b tb) : JSeg (a ++ b) (ta ++ tb) := by
  intro rest hs
  rw [List.append_assoc, h1, h2 _ hs]
  cases jtok rest <;> simp

theorem JSeg.append {a b : List Char} {ta tb : List JTok} (h1 : JSeg a ta) (h2 : JSeg b tb)
    (hb : ∀ rest, Stop rest → Stop (b ++ rest)) : JSeg (a ++ b) (ta ++ tb) := by
  intro rest hs
  rw [List.append_assoc, h1 _ (hb rest hs), h2 _ hs]
  cases jtok rest <;> simp

theorem JSeg.cast {l l' : List Char} {ts ts' : List JTok} (h : JSeg l ts) (el : l = l') (e : ts = ts') : JSeg l' ts' := el ▸ e ▸ h

theorem JSeg.jtok_eq {l : List Char} {ts : List JTok} (h : JSeg l ts) : jtok l = some ts := by
  have := h [] Stop.nil
  rw [List.append_nil, jtok_nil] at this
  simpa using this

theorem useg_char (c : Char) (t : List JTok) (h : ∀ cs, lexOne c cs = some (t, cs)) : USeg [c] t := by
  intro rest
  rw [List.singleton_append, jtok_cons c rest t rest (h rest)]

theorem useg_space : USeg [' '] [] := useg_char _ _ fun _ => rfl
theorem useg_lbrace : USeg ['{'] [.lbrace] := useg_char _ _ fun _ => rfl
theorem useg_rbrace : USeg ['}'] [.rbrace] := useg_char _ _ fun _ => rfl
theorem useg_lbrack : USeg ['['] [.lbrack] := useg_char _ _ fun _ => rfl
theorem useg_rbrack : USeg [']'] [.rbrack] := useg_char _ _ fun _ => rfl
theorem useg_comma : USeg [','] [.comma] := useg_char _ _ fun _ => rfl
theorem useg_colon : USeg [':'] [.colon] := useg_char _ _ fun _ => rfl

theorem useg_null : USeg ['n', 'u', 'l', 'l'] [.nul] := by
  intro rest; exact jtok_cons _ _ _ rest rfl
theorem useg_true : USeg ['t', 'r', 'u', 'e'] [.tru] := by
  intro rest; exact jtok_cons _ _ _ rest rfl
theorem useg_false : USeg ['f', 'a', 'l', 's', 'e'] [.fls] := by
  intro rest; exact jtok_cons _ _ _ rest rfl

/-- a written string is one string token, whatever it contains and whatever follows -/
theorem useg_quoted (s : String) : USeg (quoted s) [.str s] := by
  intro rest
  unfold quoted
  rw [List.cons_append, List.append_assoc, List.singleton_append]
  refine jtok_cons _ _ _ rest ?_
  simp only [lexOne, lexStr_escape, Option.map_some, String.ofList_toList]
  rfl

theorem digit_ne (c d : Char) (hd : c.isDigit = true) (hn : d.isDigit = false) : c ≠ d := by
  rintro rfl; rw [hd] at hn; cases hn

theorem startsWith_none (p c : Char) (ps cs : List Char) (h : p ≠ c) : startsWith (p :: ps) (c :: cs) = none := by
  simp [startsWith, h]

/-- a numeral of the JSON grammar is one number token when what follows cannot continue it -/
theorem jseg_num (w : String) (hw : JsonNum w) : JSeg w.toList [.num w] := by
  intro rest hs
  unfold JsonNum at hw
  cases hl : w.toList with
  | nil => rw [hl] at hw; cases hw
  | cons c cs =>
    rw [hl] at hw
    have hscan := numScan_accepts _ _ rest hw hs
    rw [List.cons_append]
    refine jtok_cons _ _ _ rest ?_
    have hw' := hw
    simp only [accepts] at hw'
    have hnum : Option.map (fun p : List Char × List Char => ([JTok.num (String.ofList p.1)], p.2)) (numScan .start (c :: (cs ++ rest))) = some ([JTok.num w], rest) := by
      rw [← List.cons_append, hscan, Option.map_some, ← hl, String.ofList_toList]
    by_cases hm : c = '-'
    · subst hm
      have hstep : NSt.step .start '-' = some .minus := rfl
      rw [hstep] at hw'
      -- the next character is a digit, not the `I` of -Infinity
      cases cs with
      | nil => simp [accepts, NSt.final] at hw'
      | cons d ds =>
        have hd : d ≠ 'I' := by
          rintro rfl
          simp [accepts, NSt.step] at hw'
        have hI : startsWith ['I', 'n', 'f', 'i', 'n', 'i', 't', 'y'] (d :: ds ++ rest) = none :=
          startsWith_none _ _ _ _ (Ne.symm hd)
        simp only [lexOne]
        simp only [List.cons_append] at hI hnum
        simp [isWs, hI, hnum]
    · have hd : c.isDigit = true := by
        cases hst : NSt.step .start c with
        | none => simp [hst] at hw'
        | some st' =>
          simp only [NSt.step, hm, if_false] at hst
          split at hst
          · subst_vars; rfl
          · split at hst
            · assumption
            · cases hst
      have hws : isWs c = false := by
        simp only [isWs, Bool.or_eq_false_iff, beq_eq_false_iff_ne]
        exact ⟨⟨⟨digit_ne c _ hd (by decide), digit_ne c _ hd (by decide)⟩, digit_ne c _ hd (by decide)⟩, digit_ne c _ hd (by decide)⟩
      unfold lexOne
      rw [if_neg (by simp [hws]), if_neg (digit_ne c _ hd (by decide)), if_neg (digit_ne c _ hd (by decide)),
        if_neg (digit_ne c _ hd (by decide)), if_neg (digit_ne c _ hd (by decide)), if_neg (digit_ne c _ hd (by decide)),
        if_neg (digit_ne c _ hd (by decide)), if_neg (digit_ne c _ hd (by decide)), if_neg (digit_ne c _ hd (by decide)),
        if_neg (digit_ne c _ hd (by decide)), if_neg (digit_ne c _ hd (by decide)), if_neg (digit_ne c _ hd (by decide)),
        if_neg (digit_ne c _ hd (by decide)), if_neg hm]
      exact hnum

/-! ## 4. a rendered document and its token list -/

mutual
/-- the token list of `render v` -/
def toks : JVal → List JTok
  | .null => [.nul]
  | .bool true => [.tru]
  | .bool false => [.fls]
  | .num w => [.num w]
  | .str s => [.str s]
  | .arr [] => [.lbrack, .rbrack]
  | .arr (v :: vs) => .lbrack :: (toks v ++ (toksTail vs ++ [.rbrack]))
  | .obj [] => [.lbrace, .rbrace]
  | .obj ((k, v) :: ms) => .lbrace :: .str k :: .colon :: (toks v ++ (toksMTail ms ++ [.rbrace]))
def toksTail : List JVal → List JTok
  | [] => []
  | v :: vs => .comma :: (toks v ++ toksTail vs)
def toksMTail : List (String × JVal) → List JTok
  | [] => []
  | (k, v) :: ms => .comma :: .str k :: .colon :: (toks v ++ toksMTail ms)
end

mutual
/-- every number in the document is a numeral of the JSON grammar -/
def NumsOk : JVal → Prop
  | .num w => JsonNum w
  | .arr xs => NumsOkL xs
  | .obj kvs => NumsOkM kvs
  | _ => True
def NumsOkL : List JVal → Prop
  | [] => True
  | v :: vs => NumsOk v ∧ NumsOkL vs
def NumsOkM : List (String × JVal) → Prop
  | [] => True
  | (_, v) :: ms => NumsOk v ∧ NumsOkM ms
end

theorem renderTail_stop (vs : List JVal) : ∀ rest, Stop rest → Stop (renderTail vs ++ rest) := by
  intro rest hs
  cases vs with
  | nil => simpa [renderTail] using hs
  | cons v vs => rw [renderTail]; exact Stop.cons _ _ (by decide)

theorem renderMTail_stop (ms : List (String × JVal)) : ∀ rest, Stop rest → Stop (renderMTail ms ++ rest) := by
  intro rest hs
  cases ms with
  | nil => simpa [renderMTail] using hs
  | cons m ms => obtain ⟨k, v⟩ := m; rw [renderMTail]; exact Stop.cons _ _ (by decide)

theorem stop_close (c : Char) (h : numCont c = false) : ∀ rest, Stop rest → Stop ([c] ++ rest) :=
  fun _ _ => Stop.cons c _ h

theorem USeg.cons_j {c : Char} {t : List JTok} {l : List Char} {ts : List JTok} (hc : USeg [c] t) (h : JSeg l ts) :
    JSeg (c :: l) (t ++ ts) := hc.append_j h

mutual
theorem jseg_val : ∀ v : JVal, NumsOk v → JSeg (render v) (toks v)
  | .null, _ => by rw [render, toks]; exact useg_null.toJ
  | .bool true, _ => by rw [render, toks]; exact useg_true.toJ
  | .bool false, _ => by rw [render, toks]; exact useg_false.toJ
  | .num w, h => by rw [render, toks]; rw [NumsOk] at h; exact jseg_num w h
  | .str s, _ => by rw [render, toks]; exact (useg_quoted s).toJ
  | .arr [], _ => by rw [render, toks]; exact (useg_lbrack.append useg_rbrack).toJ
  | .arr (v :: vs), h => by
    rw [NumsOk, NumsOkL] at h
    rw [render, toks]
    refine (useg_lbrack.cons_j ?_).cast rfl rfl
    refine (jseg_val v h.1).append ((jseg_tail vs h.2).append useg_rbrack.toJ (stop_close _ (by decide))) ?_
    intro rest hs
    rw [List.append_assoc]
    exact renderTail_stop vs _ (Stop.cons _ _ (by decide))
  | .obj [], _ => by rw [render, toks]; exact (useg_lbrace.append useg_rbrace).toJ
  | .obj ((k, v) :: ms), h => by
    rw [NumsOk, NumsOkM] at h
    rw [render, toks]
    refine (useg_lbrace.cons_j ((useg_quoted k).append_j (useg_colon.cons_j (useg_space.cons_j ?_)))).cast rfl rfl
    refine (jseg_val v h.1).append ((jseg_mtail ms h.2).append useg_rbrace.toJ (stop_close _ (by decide))) ?_
    intro rest hs
    rw [List.append_assoc]
    exact renderMTail_stop ms _ (Stop.cons _ _ (by decide))
theorem jseg_tail : ∀ vs : List JVal, NumsOkL vs → JSeg (renderTail vs) (toksTail vs)
  | [], _ => by rw [renderTail, toksTail]; exact JSeg.nil
  | v :: vs, h => by
    rw [NumsOkL] at h
    rw [renderTail, toksTail]
    refine (useg_comma.cons_j (useg_space.cons_j ?_)).cast rfl rfl
    exact (jseg_val v h.1).append (jseg_tail vs h.2) (renderTail_stop vs)
theorem jseg_mtail : ∀ ms : List (String × JVal), NumsOkM ms → JSeg (renderMTail ms) (toksMTail ms)
  | [], _ => by rw [renderMTail, toksMTail]; exact JSeg.nil
  | (k, v) :: ms, h => by
    rw [NumsOkM] at h
    rw [renderMTail, toksMTail]
    refine (useg_comma.cons_j (useg_space.cons_j ((useg_quoted k).append_j (useg_colon.cons_j (useg_space.cons_j ?_))))).cast rfl rfl
    exact (jseg_val v h.1).append (jseg_mtail ms h.2) (renderMTail_stop ms)
end

/-! ## 5. the value reader on the token list of a rendered document -/

/-- the first token of a value closes nothing -/
theorem toks_head (v : JVal) : ∃ t ts, toks v = t :: ts ∧ t ≠ .rbrack ∧ t ≠ .rbrace := by
  cases v with
  | null => exact ⟨_, _, by rw [toks], by simp, by simp⟩
  | bool b => cases b <;> exact ⟨_, _, by rw [toks], by simp, by simp⟩
  | num w => exact ⟨_, _, by rw [toks], by simp, by simp⟩
  | str s => exact ⟨_, _, by rw [toks], by simp, by simp⟩
  | arr xs => cases xs <;> exact ⟨_, _, by rw [toks], by simp, by simp⟩
  | obj kvs =>
    cases kvs with
    | nil => exact ⟨_, _, by rw [toks], by simp, by simp⟩
    | cons m ms => obtain ⟨k, v⟩ := m; exact ⟨_, _, by rw [toks], by simp, by simp⟩

/-- `parseVal` reads a value back from its tokens, given twice their number as fuel -/
def PV (v : JVal) : Prop := ∀ f rest, 2 * (toks v).length ≤ f → parseVal f (toks v ++ rest) = some (v, rest)

theorem parseVal_lbrack (f : Nat) (t : JTok) (ts : List JTok) (ht : t ≠ .rbrack) :
    parseVal (f + 1) (.lbrack :: t :: ts) = (parseElems f (t :: ts)).map fun p => (.arr p.1, p.2) := by
  rw [parseVal]
  cases t <;> simp_all

theorem parseVal_lbrace (f : Nat) (t : JTok) (ts : List JTok) (ht : t ≠ .rbrace) :
    parseVal (f + 1) (.lbrace :: t :: ts) = (parseMembers f (t :: ts)).map fun p => (.obj p.1, p.2) := by
  rw [parseVal]
  cases t <;> simp_all

mutual
theorem parseVal_toks : ∀ v : JVal, PV v
  | .null => by intro f rest hf; rw [toks] at hf ⊢; cases f with | zero => simp at hf | succ f => simp [parseVal]
  | .bool true => by intro f rest hf; rw [toks] at hf ⊢; cases f with | zero => simp at hf | succ f => simp [parseVal]
  | .bool false => by intro f rest hf; rw [toks] at hf ⊢; cases f with | zero => simp at hf | succ f => simp [parseVal]
  | .num w => by intro f rest hf; rw [toks] at hf ⊢; cases f with | zero => simp at hf | succ f => simp [parseVal]
  | .str s => by intro f rest hf; rw [toks] at hf ⊢; cases f with | zero => simp at hf | succ f => simp [parseVal]
  | .arr [] => by intro f rest hf; rw [toks] at hf ⊢; cases f with | zero => simp at hf | succ f => simp [parseVal]
  | .arr (v :: vs) => by
    intro f rest hf
    rw [toks] at hf ⊢
    cases f with
    | zero => simp at hf
    | succ f =>
      obtain ⟨t, ts, ht, hne, _⟩ := toks_head v
      have hE := parseElems_toks vs v (parseVal_toks v) f rest (by
        simp only [List.length_cons, List.length_append, List.length_nil] at hf; omega)
      simp only [List.cons_append, List.append_assoc, List.nil_append] at hE ⊢
      rw [ht] at hE ⊢
      rw [List.cons_append, parseVal_lbrack _ _ _ hne, ← List.cons_append, hE]
      rfl
  | .obj [] => by intro f rest hf; rw [toks] at hf ⊢; cases f with | zero => simp at hf | succ f => simp [parseVal]
  | .obj ((k, v) :: ms) => by
    intro f rest hf
    rw [toks] at hf ⊢
    cases f with
    | zero => simp at hf
    | succ f =>
      have hM := parseMembers_toks ms k v (parseVal_toks v) f rest (by
        simp only [List.length_cons, List.length_append, List.length_nil] at hf; omega)
      simp only [List.cons_append, List.append_assoc, List.nil_append] at hM ⊢
      rw [parseVal_lbrace _ _ _ (by simp), hM]
      rfl
theorem parseElems_toks : ∀ (vs : List JVal) (v : JVal), PV v → ∀ f rest,
    2 * ((toks v).length + (toksTail vs).length) + 1 ≤ f →
    parseElems f (toks v ++ (toksTail vs ++ .rbrack :: rest)) = some (v :: vs, rest)
  | [], v, hv => by
    intro f rest hf
    cases f with
    | zero => omega
    | succ f =>
      rw [toksTail] at hf ⊢
      rw [parseElems, hv f _ (by simp only [List.length_nil] at hf; omega)]
      rfl
  | w :: ws, v, hv => by
    intro f rest hf
    cases f with
    | zero => omega
    | succ f =>
      rw [toksTail] at hf ⊢
      simp only [List.length_cons, List.length_append] at hf
      rw [parseElems, hv f _ (by omega)]
      have hR := parseElems_toks ws w (parseVal_toks w) f rest (by omega)
      simp only [List.cons_append, List.append_assoc] at hR ⊢
      rw [hR]
      rfl
theorem parseMembers_toks : ∀ (ms : List (String × JVal)) (k : String) (v : JVal), PV v → ∀ f rest,
    2 * ((toks v).length + (toksMTail ms).length) + 3 ≤ f →
    parseMembers f (.str k :: .colon :: (toks v ++ (toksMTail ms ++ .rbrace :: rest))) = some ((k, v) :: ms, rest)
  | [], k, v, hv => by
    intro f rest hf
    cases f with
    | zero => omega
    | succ f =>
      rw [toksMTail] at hf ⊢
      rw [parseMembers]
      simp only [hv f _ (by simp only [List.length_nil] at hf; omega), List.nil_append]
  | (k', w) :: ms, k, v, hv => by
    intro f rest hf
    cases f with
    | zero => omega
    | succ f =>
      rw [toksMTail] at hf ⊢
      simp only [List.length_cons, List.length_append] at hf
      rw [parseMembers]
      have hR := parseMembers_toks ms k' w (parseVal_toks w) f rest (by omega)
      simp only [List.cons_append, List.append_assoc] at hR ⊢
      simp only [hv f _ (by omega), hR]
      rfl
end

/-- **`json.loads ∘ json.dumps = id`** at the level of the model: every document whose numbers are numerals of the JSON
grammar is read back exactly — strings with any content, nesting of any depth, key order and duplicate keys included -/
theorem parse_render (v : JVal) (h : NumsOk v) : Json.parse (render v) = some v := by
  unfold Json.parse
  have ht : tokens ((render v).length + 1) (render v) = some (toks v) := (jseg_val v h).jtok_eq
  rw [ht]
  have := parseVal_toks v (2 * (toks v).length + 2) [] (by omega)
  rw [List.append_nil] at this
  simp only [this]

/-! ## 6. the two dictionaries of a textgrid, read back against the schemas -/

theorem numsOkL_of (xs : List JVal) (h : ∀ v ∈ xs, NumsOk v) : NumsOkL xs := by
  induction xs with
  | nil => rw [NumsOkL]; trivial
  | cons v vs ih => rw [NumsOkL]; exact ⟨h v (by simp), ih fun w hw => h w (by simp [hw])⟩

theorem numsOkM_of (ms : List (String × JVal)) (h : ∀ p ∈ ms, NumsOk p.2) : NumsOkM ms := by
  induction ms with
  | nil => rw [NumsOkM]; trivial
  | cons m ms ih => obtain ⟨k, v⟩ := m; rw [NumsOkM]; exact ⟨h (k, v) (by simp), ih fun w hw => h w (by simp [hw])⟩

theorem mapM_map_some {β γ δ : Type} (f : β → γ) (g : γ → Option δ) (h : β → δ) (l : List β) (hgf : ∀ x ∈ l, g (f x) = some (h x)) :
    (l.map f).mapM g = some (l.map h) := by
  induction l with
  | nil => rfl
  | cons x xs ih =>
    rw [List.map_cons, List.mapM_cons, hgf x (by simp), ih fun y hy => hgf y (by simp [hy])]
    rfl

/-! ### Python dictionaries with distinct keys -/

theorem dictInsert_new {β : Type} (d : List (String × β)) (k : String) (v : β) (h : k ∉ d.map Prod.fst) :
    dictInsert d k v = d ++ [(k, v)] := by
  induction d with
  | nil => rfl
  | cons p r ih =>
    obtain ⟨k', v'⟩ := p
    simp only [List.map_cons, List.mem_cons, not_or] at h
    rw [dictInsert, if_neg (fun e => h.1 e.symm), ih h.2]
    rfl

theorem dictOf_aux {β : Type} (l : List (String × β)) : ∀ acc : List (String × β), ((acc ++ l).map Prod.fst).Nodup →
    l.foldl (fun d p => dictInsert d p.1 p.2) acc = acc ++ l := by
  induction l with
  | nil => intro acc _; simp
  | cons p l ih =>
    intro acc h
    have hk : p.1 ∉ acc.map Prod.fst := by
      rw [List.map_append, List.map_cons, List.nodup_append] at h
      intro hm
      exact h.2.2 _ hm _ (by simp) rfl
    rw [List.foldl_cons, dictInsert_new acc p.1 p.2 hk, ih _ (by simpa using h)]
    simp

/-- a dictionary built from pairs with distinct keys is the pair list itself -/
theorem dictOf_nodup {β : Type} (l : List (String × β)) (h : (l.map Prod.fst).Nodup) : dictOf l = l := by
  unfold dictOf
  rw [dictOf_aux l [] (by simpa using h)]
  rfl

section
variable {α : Type}

theorem numsOk_entries (num : α → String) (hnum : ∀ x, JsonNum (num x)) (t : AnyTier α) : NumsOkL (t.jsonEntries num) := by
  apply numsOkL_of
  intro v hv
  cases t with
  | I t =>
    simp only [AnyTier.jsonEntries, List.mem_map] at hv
    obtain ⟨e, _, rfl⟩ := hv
    simp only [jsonIv, NumsOk, NumsOkL, hnum, and_self]
  | P t =>
    simp only [AnyTier.jsonEntries, List.mem_map] at hv
    obtain ⟨e, _, rfl⟩ := hv
    simp only [jsonPt, NumsOk, NumsOkL, hnum, and_self]

/-- every number of the textgrid-like dictionary is a numeral of the JSON grammar when the renderer writes such numerals -/
theorem numsOk_full (num : α → String) (hnum : ∀ x, JsonNum (num x)) (g : Tg α) (lo hi : α) : NumsOk (jvalFull num g lo hi) := by
  simp only [jvalFull, NumsOk, NumsOkM, hnum, true_and, and_true]
  apply numsOkL_of
  intro v hv
  simp only [List.mem_map] at hv
  obtain ⟨t, _, rfl⟩ := hv
  simp only [jsonTierFull, NumsOk, NumsOkM, hnum, true_and, and_true]
  exact numsOk_entries num hnum t

theorem numsOk_simple (num : α → String) (hnum : ∀ x, JsonNum (num x)) (g : Tg α) (lo hi : α) (hn : g.names.Nodup) :
    NumsOk (jvalSimple num g lo hi) := by
  have hd : dictOf (g.tiers.map (jsonTierSimple num)) = g.tiers.map (jsonTierSimple num) :=
    dictOf_nodup _ (by simpa [jsonTierSimple, Tg.names, Function.comp_def] using hn)
  simp only [jvalSimple, hd, NumsOk, NumsOkM, hnum, true_and, and_true]
  apply numsOkM_of
  intro p hp
  simp only [List.mem_map] at hp
  obtain ⟨t, _, rfl⟩ := hp
  simp only [jsonTierSimple, NumsOk, NumsOkM, true_and, and_true]
  exact numsOk_entries num hnum t

theorem entriesOf_tier (num : α → String) (t : AnyTier α) :
    entriesOf t.jsonClass (.arr (t.jsonEntries num)) = some (tierRaw num t).entries := by
  cases t with
  | I t =>
    simp only [entriesOf, AnyTier.jsonClass, AnyTier.jsonEntries, if_true, tierRaw]
    exact mapM_map_some _ _ _ _ fun e _ => rfl
  | P t =>
    have hne : ¬ ("TextTier" = "IntervalTier") := by decide
    simp only [entriesOf, AnyTier.jsonClass, AnyTier.jsonEntries, hne, if_false, if_true, tierRaw]
    exact mapM_map_some _ _ _ _ fun e _ => rfl

theorem tierFullOf_tier (num : α → String) (t : AnyTier α) : tierFullOf (jsonTierFull num t) = some (tierRaw num t) := by
  simp [tierFullOf, jsonTierFull, dget, strOf, numOf, entriesOf_tier]
  cases t <;> rfl

/-- **the textgrid-like dictionary says exactly what is in memory** -/
theorem tgOfJson_full (num : α → String) (g : Tg α) (lo hi : α) : tgOfJson (jvalFull num g lo hi) = some (rawOf num g lo hi) := by
  have hm : (g.tiers.map (jsonTierFull num)).mapM tierFullOf = some (g.tiers.map (tierRaw num)) :=
    mapM_map_some _ _ _ _ fun t _ => tierFullOf_tier num t
  simp [tgOfJson, jvalFull, dget, numOf, hm, rawOf]

end

/-- the simplified format keeps one span: every tier is given the textgrid's -/
def oneSpan (r : RawTg) : RawTg := { r with tiers := r.tiers.map fun t => { t with xmin := r.xmin, xmax := r.xmax } }

section
variable {α : Type}

theorem tierSimpleOf_tier (num : α → String) (a b : String) (t : AnyTier α) :
    tierSimpleOf a b (jsonTierSimple num t) = some { tierRaw num t with xmin := a, xmax := b } := by
  simp [tierSimpleOf, jsonTierSimple, dget, strOf, entriesOf_tier]
  cases t <;> exact ⟨rfl, rfl⟩

/-- **the simplified dictionary says what is in memory, with the textgrid's span for every tier** (tier names distinct,
as the `Textgrid` class guarantees) -/
theorem tgOfJson_simple (num : α → String) (g : Tg α) (lo hi : α) (hn : g.names.Nodup) :
    tgOfJson (jvalSimple num g lo hi) = some (oneSpan (rawOf num g lo hi)) := by
  have hd : dictOf (g.tiers.map (jsonTierSimple num)) = g.tiers.map (jsonTierSimple num) :=
    dictOf_nodup _ (by simpa [jsonTierSimple, Tg.names, Function.comp_def] using hn)
  have hm : (g.tiers.map (jsonTierSimple num)).mapM (tierSimpleOf (num lo) (num hi)) =
      some (g.tiers.map fun t => { tierRaw num t with xmin := num lo, xmax := num hi }) :=
    mapM_map_some _ _ _ _ fun t _ => tierSimpleOf_tier num _ _ t
  simp [tgOfJson, jvalSimple, dget, numOf, hd, hm, rawOf, oneSpan]

end

/-! ## 7. whole files -/

/-- the raw record of a decoded file as plain data (for comparisons) -/
def common (r : RawTg) : String × String × List (String × String × List (List String)) :=
  (r.xmin, r.xmax, r.tiers.map fun t => (t.cls, t.name, t.entries))

/-- the content of a decoded file with every numeral read through `val` (a number type, a tolerance class, or `Unit` for
"names, classes and labels only"): span, and per tier class, name and entries (times, label) — the common content of the four
formats.  `viewSpans` adds each tier's own span, which the simplified JSON format does not carry. -/
def view {β : Type} (val : String → β) (r : RawTg) : β × β × List (String × String × List (List β × Option String)) :=
  (val r.xmin, val r.xmax, r.tiers.map fun t => (t.cls, t.name, t.entries.map fun e => (e.dropLast.map val, e.getLast?)))

def viewSpans {β : Type} (val : String → β) (r : RawTg) : β × β × List (String × String × β × β × List (List β × Option String)) :=
  (val r.xmin, val r.xmax, r.tiers.map fun t => (t.cls, t.name, val t.xmin, val t.xmax, t.entries.map fun e => (e.dropLast.map val, e.getLast?)))

theorem common_oneSpan (r : RawTg) : common (oneSpan r) = common r := by
  simp [common, oneSpan, Function.comp_def]

theorem view_oneSpan {β : Type} (val : String → β) (r : RawTg) : view val (oneSpan r) = view val r := by
  simp [view, oneSpan, Function.comp_def]

section
variable {α : Type}

/-- **C02, format "textgrid_json", whole files.**  For every textgrid — any tiers, entries, names and labels (quotes,
backslashes, newlines, control characters, non-ASCII, astral) — the text praatio writes (`json.dumps` of the dictionary, as
modelled by `render`) is a JSON document, and reading it against the README schema returns exactly the in-memory content:
class names, tier names, spans, times (as the written numerals) and labels.  Hypothesis: the number renderer writes JSON
numerals (`float.__repr__` of a finite float, `int.__repr__`).  NO hypothesis on names and labels.  `hnum` is about the
renderer and holds for every FINITE float, negative ones and both exponent forms (`1e-05`, `1e+16`) included (`pyNum_ok`);
C01 / C02 quantify over finite times — for `inf` / `nan` `json.dumps` writes `Infinity` / `NaN`, which is not JSON (the
`#guard` at the end of the file). -/
theorem decode_json_full (num : α → String) (hnum : ∀ x, JsonNum (num x)) (g : Tg α) (lo hi : α) :
    (Json.parse (tgToJsonFull num g lo hi).toList).bind tgOfJson = some (rawOf num g lo hi) := by
  unfold tgToJsonFull
  rw [String.toList_ofList, parse_render _ (numsOk_full num hnum g lo hi)]
  exact tgOfJson_full num g lo hi

/-- **C02, format "json", whole files.**  Same, for the simplified schema: what is recovered is the in-memory content with the
textgrid's span standing in for every tier's own (`oneSpan`: the format keeps one span), tier order included.  Tier names are
distinct, as the `Textgrid` class guarantees (the format is a dictionary keyed by tier name): `hn` is enforced by the code —
`Textgrid.addTier` rejects a second tier of the same name, `C12.addTier_dup` — and what a repeated name would do to the
dictionary is the `#guard` at the end of the file. -/
theorem decode_json_simple (num : α → String) (hnum : ∀ x, JsonNum (num x)) (g : Tg α) (lo hi : α) (hn : g.names.Nodup) :
    (Json.parse (tgToJsonSimple num g lo hi).toList).bind tgOfJson = some (oneSpan (rawOf num g lo hi)) := by
  unfold tgToJsonSimple
  rw [String.toList_ofList, parse_render _ (numsOk_simple num hnum g lo hi hn)]
  exact tgOfJson_simple num g lo hi hn

/-- **C01 for "textgrid_json"**: praatio's own reading path — `parseTextgridStr`, i.e. `json.loads`, the schema sniffing on
the key "start", `_removeBlanks` (model: `parseAny`) — applied to the file it wrote returns the in-memory content; with
`includeEmptyIntervals = False` exactly the entries with an empty label are removed -/
theorem parseAny_json_full (num : α → String) (hnum : ∀ x, JsonNum (num x)) (g : Tg α) (lo hi : α) (includeEmpty : Bool) :
    parseAny (tgToJsonFull num g lo hi) includeEmpty = some (.ok (C01.dropEmpty includeEmpty (rawOf num g lo hi))) := by
  have h := decode_json_full num hnum g lo hi
  unfold parseAny
  cases hp : Json.parse (tgToJsonFull num g lo hi).toList with
  | none => rw [hp] at h; cases h
  | some v =>
    rw [hp] at h
    simp only [Option.bind_some] at h
    simp only [h, C01.dropEmpty]

/-- **C01 for "json"**: the same with the one span the format keeps -/
theorem parseAny_json_simple (num : α → String) (hnum : ∀ x, JsonNum (num x)) (g : Tg α) (lo hi : α) (hn : g.names.Nodup)
    (includeEmpty : Bool) :
    parseAny (tgToJsonSimple num g lo hi) includeEmpty = some (.ok (C01.dropEmpty includeEmpty (oneSpan (rawOf num g lo hi)))) := by
  have h := decode_json_simple num hnum g lo hi hn
  unfold parseAny
  cases hp : Json.parse (tgToJsonSimple num g lo hi).toList with
  | none => rw [hp] at h; cases h
  | some v =>
    rw [hp] at h
    simp only [Option.bind_some] at h
    simp only [h, C01.dropEmpty]

/-- the two JSON formats of one textgrid agree on span, tier order, names, classes and entries -/
theorem json_formats_agree (num : α → String) (hnum : ∀ x, JsonNum (num x)) (g : Tg α) (lo hi : α) (hn : g.names.Nodup) :
    ((Json.parse (tgToJsonSimple num g lo hi).toList).bind tgOfJson).map common =
      ((Json.parse (tgToJsonFull num g lo hi).toList).bind tgOfJson).map common := by
  rw [decode_json_full num hnum, decode_json_simple num hnum g lo hi hn, Option.map_some, Option.map_some, common_oneSpan]

theorem view_rawOf {β : Type} (val : String → β) (numT numJ : α → String) (hval : ∀ x, val (numT x) = val (numJ x)) (g : Tg α) (lo hi : α) :
    viewSpans val (rawOf numT g lo hi) = viewSpans val (rawOf numJ g lo hi) := by
  simp only [viewSpans, rawOf, hval, List.map_map, Prod.mk.injEq, true_and]
  apply List.map_congr_left
  intro t _
  cases t <;> simp [tierRaw, hval, Function.comp_def]

theorem view_of_viewSpans {β : Type} (val : String → β) (r r' : RawTg) (h : viewSpans val r = viewSpans val r') : view val r = view val r' := by
  simp only [viewSpans, view, Prod.mk.injEq] at h ⊢
  refine ⟨h.1, h.2.1, ?_⟩
  have := congrArg (List.map fun x : String × String × β × β × List (List β × Option String) => (x.1, x.2.1, x.2.2.2.2)) h.2.2
  simpa [Function.comp_def] using this

/-- **the four formats of one textgrid say the same.**  The text formats write numerals with `numT` (`numToStr`: the integer
form within 1e-14 of an integer), the JSON formats with `numJ` (`repr`); `val` is any reading of numerals under which the two
renderings of a time count as the same (hypothesis `hval`; `val := fun _ => ()` needs no hypothesis and compares names, order,
classes, entry counts and labels).  Then the independent readers — `Spec.decode` for the two text layouts, `Json.parse` +
`tgOfJson` for the two JSON schemas — recover from the four files the same span, the same tiers in the same order with the same
names and classes, and the same entries: times and labels. -/
theorem four_formats_agree {β : Type} (numT numJ : α → String) (hT : ∀ x, NumTok (numT x)) (hJ : ∀ x, JsonNum (numJ x))
    (val : String → β) (hval : ∀ x, val (numT x) = val (numJ x)) (g : Tg α) (lo hi : α) (hn : g.names.Nodup) :
    (Spec.decode (tgToShort numT g lo hi)).map (view val) = some (view val (rawOf numJ g lo hi)) ∧
    (Spec.decode (tgToLong numT g lo hi)).map (view val) = some (view val (rawOf numJ g lo hi)) ∧
    ((Json.parse (tgToJsonFull numJ g lo hi).toList).bind tgOfJson).map (view val) = some (view val (rawOf numJ g lo hi)) ∧
    ((Json.parse (tgToJsonSimple numJ g lo hi).toList).bind tgOfJson).map (view val) = some (view val (rawOf numJ g lo hi)) := by
  have hv := view_of_viewSpans val _ _ (view_rawOf val numT numJ hval g lo hi)
  rw [decode_short numT hT, decode_long numT hT, decode_json_full numJ hJ, decode_json_simple numJ hJ g lo hi hn]
  simp only [Option.map_some, hv, view_oneSpan, and_self]

/-- the three formats that carry a span per tier also agree on those -/
theorem three_formats_agree_spans {β : Type} (numT numJ : α → String) (hT : ∀ x, NumTok (numT x)) (hJ : ∀ x, JsonNum (numJ x))
    (val : String → β) (hval : ∀ x, val (numT x) = val (numJ x)) (g : Tg α) (lo hi : α) :
    (Spec.decode (tgToShort numT g lo hi)).map (viewSpans val) = some (viewSpans val (rawOf numJ g lo hi)) ∧
    (Spec.decode (tgToLong numT g lo hi)).map (viewSpans val) = some (viewSpans val (rawOf numJ g lo hi)) ∧
    ((Json.parse (tgToJsonFull numJ g lo hi).toList).bind tgOfJson).map (viewSpans val) = some (viewSpans val (rawOf numJ g lo hi)) := by
  have hv := view_rawOf val numT numJ hval g lo hi
  rw [decode_short numT hT, decode_long numT hT, decode_json_full numJ hJ]
  simp only [Option.map_some, hv, and_self]

end

/-! ## 8. Python ints are JSON numerals (no sampling needed for them) -/

/-- the state the number scanner is in after a word -/
def run (st : NSt) : List Char → Option NSt
  | [] => some st
  | c :: cs => (st.step c).bind fun st' => run st' cs

theorem accepts_eq_run (w : List Char) : ∀ st, accepts st w = match run st w with | some s => s.final | none => false := by
  induction w with
  | nil => intro st; rfl
  | cons c cs ih =>
    intro st
    simp only [accepts, run]
    cases st.step c with
    | none => rfl
    | some st' => exact ih st'

theorem run_append (a b : List Char) : ∀ st, run st (a ++ b) = (run st a).bind fun s => run s b := by
  induction a with
  | nil => intro st; rfl
  | cons c cs ih =>
    intro st
    simp only [List.cons_append, run]
    cases st.step c with
    | none => rfl
    | some st' => exact ih st'

theorem digitChar_facts : ∀ d, d < 10 → (Nat.digitChar d).isDigit = true ∧ (d ≠ 0 → Nat.digitChar d ≠ '0') := by decide

theorem step_int_digit (c : Char) (h : c.isDigit = true) : NSt.step .int c = some .int := by simp [NSt.step, h]
theorem step_first_digit (c : Char) (h : c.isDigit = true) (h0 : c ≠ '0') :
    NSt.step .start c = some .int ∧ NSt.step .minus c = some .int := by
  have hm : c ≠ '-' := digit_ne c _ h (by decide)
  simp [NSt.step, h, h0, hm]

/-- the decimal digits of a positive number take the scanner to the state "integer part" -/
theorem run_digits (n : Nat) : 0 < n → run .start (Nat.toDigits 10 n) = some .int ∧ run .minus (Nat.toDigits 10 n) = some .int := by
  induction n using Nat.strongRecOn with
  | _ n ih =>
    intro hn
    rw [Nat.toDigits_eq_if (by omega)]
    split
    · rename_i hlt
      obtain ⟨hd, h0⟩ := digitChar_facts n hlt
      obtain ⟨h1, h2⟩ := step_first_digit _ hd (h0 (by omega))
      simp [run, h1, h2]
    · rename_i hge
      obtain ⟨i1, i2⟩ := ih (n / 10) (by omega) (by omega)
      obtain ⟨hd, _⟩ := digitChar_facts (n % 10) (by omega)
      simp [run_append, i1, i2, run, step_int_digit _ hd]

theorem jsonNum_nat (n : Nat) : JsonNum (toString n) := by
  unfold JsonNum
  have hl : (toString n).toList = Nat.toDigits 10 n := Nat.toList_repr
  rw [hl, accepts_eq_run]
  by_cases hn : n = 0
  · subst hn; rfl
  · rw [(run_digits n (by omega)).1]; rfl

/-- `str` of a Python int (`toString` of an `Int`) is a numeral of the JSON grammar -/
theorem jsonNum_int (x : Int) : JsonNum (toString x) := by
  cases x with
  | ofNat n => exact jsonNum_nat n
  | negSucc n =>
    unfold JsonNum
    have : (toString (Int.negSucc n)).toList = '-' :: Nat.toDigits 10 (n + 1) := by
      show ("-" ++ Nat.repr (n + 1)).toList = _
      rw [String.toList_append, Nat.toList_repr]; rfl
    rw [this, accepts_eq_run]
    have hs : NSt.step .start '-' = some .minus := rfl
    simp only [run, hs, Option.bind_some, (run_digits (n + 1) (by omega)).2]
    rfl

/-! ## 9. non-vacuity -/

/-- two tiers; names and labels with quotes, backslashes, a newline, a tab, the control character U+0001, DEL, "é", U+2028,
an astral character, a look-alike escape, an empty label -/
def demoJ : Tg Int :=
  ⟨[.I ⟨"a\"b\\", [⟨-2, 1, "x\"\\\n\t\x01\x7fé\u2028𝄞"⟩, ⟨1, 2, ""⟩, ⟨2, 3, "\\u0041\\n"⟩, ⟨3, 4, "</script>"⟩], -2, 4⟩,
    .P ⟨"𝄞\n", [⟨1, "\""⟩, ⟨2, "\\"⟩, ⟨3, "{\"start\": 0}"⟩], -2, 4⟩], some (-2), some 4⟩

theorem demoJ_names : demoJ.names.Nodup := by decide

theorem demo_json_full : (Json.parse (tgToJsonFull intNum demoJ (-2) 4).toList).bind tgOfJson = some (rawOf intNum demoJ (-2) 4) :=
  decode_json_full intNum jsonNum_int demoJ (-2) 4
theorem demo_json_simple :
    (Json.parse (tgToJsonSimple intNum demoJ (-2) 4).toList).bind tgOfJson = some (oneSpan (rawOf intNum demoJ (-2) 4)) :=
  decode_json_simple intNum jsonNum_int demoJ (-2) 4 demoJ_names
theorem demo_four :
    (Spec.decode (tgToShort intNum demoJ (-2) 4)).map (view id) = some (view id (rawOf intNum demoJ (-2) 4)) ∧
    (Spec.decode (tgToLong intNum demoJ (-2) 4)).map (view id) = some (view id (rawOf intNum demoJ (-2) 4)) ∧
    ((Json.parse (tgToJsonFull intNum demoJ (-2) 4).toList).bind tgOfJson).map (view id) = some (view id (rawOf intNum demoJ (-2) 4)) ∧
    ((Json.parse (tgToJsonSimple intNum demoJ (-2) 4).toList).bind tgOfJson).map (view id) = some (view id (rawOf intNum demoJ (-2) 4)) :=
  four_formats_agree intNum intNum intNum_tok jsonNum_int id (fun _ => rfl) demoJ (-2) 4 demoJ_names

/-- CPython-style float numerals satisfy the hypothesis (`repr` of 0.0, -0.0, 1e-05, 2.5, 1e+22, 5e-324) -/
def pyNum : Fin 6 → String
  | 0 => "0.0" | 1 => "-0.0" | 2 => "1e-05" | 3 => "2.5" | 4 => "1e+22" | 5 => "5e-324"
theorem pyNum_ok : ∀ x, JsonNum (pyNum x) := by decide

#guard tgToJsonFull intNum demoJ (-2) 4 ==
  "{\"xmin\": -2, \"xmax\": 4, \"tiers\": [{\"class\": \"IntervalTier\", \"name\": \"a\\\"b\\\\\", \"xmin\": -2, \"xmax\": 4, \"entries\": " ++
  "[[-2, 1, \"x\\\"\\\\\\n\\t\\u0001\x7fé\u2028𝄞\"], [1, 2, \"\"], [2, 3, \"\\\\u0041\\\\n\"], [3, 4, \"</script>\"]]}, " ++
  "{\"class\": \"TextTier\", \"name\": \"𝄞\\n\", \"xmin\": -2, \"xmax\": 4, \"entries\": [[1, \"\\\"\"], [2, \"\\\\\"], [3, \"{\\\"start\\\": 0}\"]]}]}"
#guard tgToJsonSimple intNum demoJ (-2) 4 ==
  "{\"start\": -2, \"end\": 4, \"tiers\": {\"a\\\"b\\\\\": {\"type\": \"IntervalTier\", \"entries\": " ++
  "[[-2, 1, \"x\\\"\\\\\\n\\t\\u0001\x7fé\u2028𝄞\"], [1, 2, \"\"], [2, 3, \"\\\\u0041\\\\n\"], [3, 4, \"</script>\"]]}, " ++
  "\"𝄞\\n\": {\"type\": \"TextTier\", \"entries\": [[1, \"\\\"\"], [2, \"\\\\\"], [3, \"{\\\"start\\\": 0}\"]]}}}"
#guard ((Json.parse (tgToJsonFull intNum demoJ (-2) 4).toList).bind tgOfJson).map rawList == some (rawList (rawOf intNum demoJ (-2) 4))
#guard ((Json.parse (tgToJsonSimple intNum demoJ (-2) 4).toList).bind tgOfJson).map rawList == some (rawList (oneSpan (rawOf intNum demoJ (-2) 4)))
#guard rawList (rawOf intNum demoJ (-2) 4) ==
  (["-2", "4"], [(["IntervalTier", "a\"b\\", "-2", "4"],
      [["-2", "1", "x\"\\\n\t\x01\x7fé\u2028𝄞"], ["1", "2", ""], ["2", "3", "\\u0041\\n"], ["3", "4", "</script>"]]),
    (["TextTier", "𝄞\n", "-2", "4"], [["1", "\""], ["2", "\\"], ["3", "{\"start\": 0}"]])])
-- the simplified format keeps one span: a tier whose own span differs from the textgrid's comes back with the textgrid's
#guard ((Json.parse (tgToJsonSimple intNum demoJ (-9) 9).toList).bind tgOfJson).map rawList ==
  some (["-9", "9"], [(["IntervalTier", "a\"b\\", "-9", "9"],
      [["-2", "1", "x\"\\\n\t\x01\x7fé\u2028𝄞"], ["1", "2", ""], ["2", "3", "\\u0041\\n"], ["3", "4", "</script>"]]),
    (["TextTier", "𝄞\n", "-9", "9"], [["1", "\""], ["2", "\\"], ["3", "{\"start\": 0}"]])])
-- the hypothesis on the numeral renderer is needed: `inf` / `nan` (CPython writes Infinity / NaN), a leading zero, a bare
-- point break the document or change what is read
#guard ((Json.parse (tgToJsonFull (fun _ : Int => "inf") demoJ (-2) 4).toList).bind tgOfJson).isNone
#guard ((Json.parse (tgToJsonFull (fun x : Int => "0" ++ toString x.natAbs) demoJ (-2) 4).toList).bind tgOfJson).isNone
#guard ((Json.parse (tgToJsonFull (fun x : Int => toString x.natAbs ++ ".") demoJ (-2) 4).toList).bind tgOfJson).isNone
-- distinct tier names are needed for the simplified format: it is a dictionary, a repeated name keeps its first place and
-- takes the last tier (so does praatio: corpus case "rawdict" of harness/props/C01.py)
#guard (((Json.parse (tgToJsonSimple intNum (⟨[.P ⟨"a", [⟨1, "x"⟩], 0, 4⟩, .P ⟨"b", [], 0, 4⟩, .I ⟨"a", [⟨2, 3, "y"⟩], 0, 4⟩], some 0, some 4⟩ : Tg Int) 0 4).toList).bind
    tgOfJson).map rawList) == some (["0", "4"], [(["IntervalTier", "a", "0", "4"], [["2", "3", "y"]]), (["TextTier", "b", "0", "4"], [])])
-- strings: every escape is read, a raw control character is not
#guard Json.parseString "\"\\u00e9\\ud834\\udd1e\\/\\b\\f\\n\\r\\t\\\"\\\\\" tail".toList == some ("é𝄞/\x08\x0c\n\r\t\"\\".toList, " tail".toList)
#guard (Json.parseString "\"a\nb\"".toList).isNone
#guard (Json.parseString "\"\\ud834\"".toList).isNone

end C02
