import PraatModel.Props.C12
import PraatModel.Props.C15
import PraatModel.Props.C05Points
import PraatModel.Props.C06
import PraatModel.Props.C07
import PraatModel.Props.C07Points
import PraatModel.Props.C08

/-!
# C12, span clause — after crop (strict / truncated), eraseRegion and insertSpace every tier shares the textgrid's span, so that `validate()` is true

Exact arithmetic (`Int` timestamps of any size, any number of tiers of either class, entry lists of any length).
All statements are about the model functions `Tg.crop`, `Tg.eraseRegion`, `Tg.insertSpace`, `Tg.validate` of
`Textgrid.lean`.  `AnyWF t` is `ITier.WF` / `PTier.WF` of the tier inside.

| clause | theorem(s) |
|---|---|
| what `validate()` checks | `validate_iff` (= `C15.tgvalidate_iff`), `validate_of_spans`, `validate_empty` |
| crop, strict / truncated, both `rebaseToZero` values | `crop_validate` (no hypothesis on the textgrid but well-formed tiers), `crop_validate_ok` |
| eraseRegion, both `doShrink` values, ANY region `a < b` (since fix A28 also regions sticking out of the span: `clipLen`, `eraseHi_int`) | `eraseRegion_validate` (spans as `Option Int`, covers the textgrid without tiers), `eraseRegion_validate_span` (old span named), `eraseRegion_validate_ok` |
| insertSpace, all four modes | `insertSpace_validate`, `insertSpace_validate_span`, `insertSpace_validate_ok` (mode `error`: no straddler) |
| lax crop is rightly excluded | `crop_lax_spans_differ_example` |

The `_validate` theorems are conditional on the call returning a textgrid and need no success hypothesis; the `_ok`
companions show that the call does return one (`tgop_ok` of `C12` plus the tier-level success theorems of C06–C08).
Ingredients: `foldlM_addTier_span` (the `addTier` loop never widens a span that already contains every added tier —
for the shrinking erase the tiers, shorter by the part of the region inside the span, are added under the OLD span and
the end is overwritten afterwards), and the tier-level `anycrop_spec`, `anyerase_spec` (with `perase_span` for point
tiers, from `C07.perase_span_any`), `anyinsert_spec`.  Proved non-vacuity examples and `#guard` evaluations on `exG` close the file.
-/
namespace C12

/-! ## list helpers -/

/-- every result of a successful `mapM` is the image of a member -/
theorem mapM_mem (f : AnyTier Int → Except Err (AnyTier Int)) :
    ∀ (l ts : List (AnyTier Int)), l.mapM f = .ok ts → ∀ t' ∈ ts, ∃ t ∈ l, f t = .ok t' := by
  intro l
  induction l with
  | nil => intro ts h; have : [] = ts := pure_ok h; subst this; intro t' ht'; cases ht'
  | cons a l ih =>
    intro ts h
    rw [List.mapM_cons] at h
    obtain ⟨u, h1, h⟩ := bind_ok h
    obtain ⟨ts', h2, h⟩ := bind_ok h
    have : u :: ts' = ts := pure_ok h
    subst this
    intro t' ht'
    rcases List.mem_cons.1 ht' with rfl | ht'
    · exact ⟨a, by simp, h1⟩
    · obtain ⟨t, ht, e⟩ := ih ts' h2 t' ht'
      exact ⟨t, List.mem_cons_of_mem _ ht, e⟩

/-- a `mapM` whose function succeeds on every member succeeds -/
theorem mapM_ok_of_forall (f : AnyTier Int → Except Err (AnyTier Int)) :
    ∀ (l : List (AnyTier Int)), (∀ t ∈ l, ∃ t', f t = .ok t') → ∃ ts, l.mapM f = .ok ts := by
  intro l
  induction l with
  | nil => intro _; exact ⟨[], rfl⟩
  | cons a l ih =>
    intro h
    obtain ⟨u, hu⟩ := h a (by simp)
    obtain ⟨ts, hts⟩ := ih (fun t ht => h t (List.mem_cons_of_mem _ ht))
    exact ⟨u :: ts, by rw [List.mapM_cons, hu, hts]; rfl⟩

/-! ## the `addTier` loop when no tier sticks out of the accumulator's span -/

/-- the loop `for tier in tiers: newTG.addTier(f(tier))` when every `f(tier)` lies inside the span the new textgrid
starts with: the span is never widened, the names stay pairwise different, and every tier of the result is an
`f(tier)` (or was there before) -/
theorem foldlM_addTier_span (f : AnyTier Int → Except Err (AnyTier Int)) (rep : Report) :
    ∀ (l : List (AnyTier Int)) (acc g' : Tg Int),
      l.foldlM (fun acc t => do let t' ← f t; acc.addTier t' none rep) acc = .ok g' →
      (∀ t ∈ l, ∀ t', f t = .ok t' →
        (∃ lo, acc.lo = some lo ∧ lo ≤ t'.lo) ∧ (∃ hi, acc.hi = some hi ∧ t'.hi ≤ hi)) →
      g'.lo = acc.lo ∧ g'.hi = acc.hi ∧ (acc.names.Nodup → g'.names.Nodup) ∧
      ∀ t' ∈ g'.tiers, t' ∈ acc.tiers ∨ ∃ t ∈ l, f t = .ok t' := by
  intro l
  induction l with
  | nil =>
    intro acc g' h _
    have : acc = g' := pure_ok h
    subst this
    exact ⟨rfl, rfl, id, fun t' ht' => Or.inl ht'⟩
  | cons a l ih =>
    intro acc g' h hin
    rw [List.foldlM_cons] at h
    obtain ⟨acc1, h1, h2⟩ := bind_ok h
    obtain ⟨u, h3, h4⟩ := bind_ok h1
    obtain ⟨hfresh, _, rfl⟩ := addTier_inv h4
    obtain ⟨⟨lo, elo, hlo⟩, ⟨hi, ehi, hhi⟩⟩ := hin a (by simp) u h3
    have e1 : some (widenLo acc.lo u.lo) = acc.lo := by
      rw [elo]; simp only [widenLo]; congr 1; omega
    have e2 : some (widenHi acc.hi u.hi) = acc.hi := by
      rw [ehi]; simp only [widenHi]; congr 1; omega
    obtain ⟨r1, r2, r3, r4⟩ := ih _ g' h2 (by
      intro t ht t' ht'
      have := hin t (List.mem_cons_of_mem _ ht) t' ht'
      simpa only [e1, e2] using this)
    refine ⟨r1.trans e1, r2.trans e2, ?_, ?_⟩
    · intro hnd
      exact r3 (nodup_insAt none hnd hfresh)
    · intro t' ht'
      rcases r4 t' ht' with hm | ⟨t, ht, e⟩
      · have hm : t' ∈ acc.tiers ++ [u] := hm
        rcases List.mem_append.1 hm with hm | hm
        · exact Or.inl hm
        · have : t' = u := by simpa using hm
          subst this
          exact Or.inr ⟨a, by simp, h3⟩
      · exact Or.inr ⟨t, List.mem_cons_of_mem _ ht, e⟩

/-! ## what `Textgrid.validate` checks -/

/-- **validate_iff**: `Textgrid.validate()` is true exactly when the names are pairwise different and every tier
has the textgrid's span and validates itself (re-export of `C15.tgvalidate_iff`) -/
theorem validate_iff (g : Tg Int) :
    g.validate = true ↔
      g.names.Nodup ∧ ∀ t ∈ g.tiers, g.lo = some t.lo ∧ g.hi = some t.hi ∧ t.validate = true :=
  C15.tgvalidate_iff g

/-- a well-formed tier validates -/
theorem anywf_validate {t : AnyTier Int} (h : AnyWF t) : t.validate = true := by
  cases t with
  | I t => exact C15.wf_validate t h
  | P t => exact C15.pwf_validate t h

/-- pairwise different names, every tier well-formed and of the textgrid's span: `validate()` is true -/
theorem validate_of_spans {g : Tg Int} (hnd : g.names.Nodup)
    (h : ∀ t ∈ g.tiers, g.lo = some t.lo ∧ g.hi = some t.hi ∧ AnyWF t) : g.validate = true :=
  (validate_iff g).2 ⟨hnd, fun t ht => ⟨(h t ht).1, (h t ht).2.1, anywf_validate (h t ht).2.2⟩⟩

/-- a textgrid without tiers validates (only the names are checked) -/
theorem validate_empty (lo hi : Option Int) : (Tg.ofSpan lo hi : Tg Int).validate = true :=
  validate_of_spans (by simp [Tg.names, Tg.ofSpan]) (by intro t ht; cases ht)

/-! ## the three tier-level operations on a well-formed tier of either class: success, well-formedness, span -/

theorem rebaseDelta_eq (a : Int) (sel : List (Iv Int)) (h : ∀ iv ∈ sel, a ≤ iv.s) : rebaseDelta a sel = a := by
  cases sel with
  | nil => rfl
  | cons f rest =>
    have := h f (by simp)
    simp only [rebaseDelta]
    split <;> omega

/-- interval crop, strict / truncated: the span is exactly `[a, b]`, or `[0, b - a]` when rebasing -/
theorem icrop_span (t : ITier Int) (hwf : t.WF) (a b : Int) (hab : a < b) (m : CropMode) (r : Bool) :
    ∃ t', t.crop a b m r = .ok t' ∧ t'.WF ∧
      (m ≠ .lax → t'.lo = (if r then 0 else a) ∧ t'.hi = (if r then b - a else b)) := by
  cases r with
  | false =>
    obtain ⟨t', h1, h2, _⟩ := C06.crop_norebase t hwf a b hab m
    exact ⟨t', h1, h2, fun hm => by simpa using C06.crop_norebase_span t hwf a b hab m hm t' h1⟩
  | true =>
    obtain ⟨t', h1, h2, _, h4, h5, h6⟩ := C06.crop_rebase t hwf a b hab m
    refine ⟨t', h1, h2, fun hm => ⟨by simpa using h5, ?_⟩⟩
    have hin : ∀ o ∈ getIvs a b m t.es, a ≤ o.s ∧ o.e ≤ b := by
      intro o ho
      obtain ⟨iv, hiv, hfo⟩ := List.mem_filterMap.1 ho
      exact C06.cropOne_inside a b m hm iv o (hwf.pos iv hiv) hab hfo
    have hd : rebaseDelta a (getIvs a b m t.es) = a := rebaseDelta_eq a _ (fun iv hiv => (hin iv hiv).1)
    simp only [if_true]
    rw [h6]
    apply hullMax_eq_of_ge
    intro x hx
    rw [h4, hd] at hx
    simp only [List.map_map, List.mem_map, Function.comp] at hx
    obtain ⟨iv, hiv, rfl⟩ := hx
    have := (hin iv hiv).2
    simp only [shiftIv]; omega

/-- `crop` of a well-formed tier of either class -/
theorem anycrop_spec {t : AnyTier Int} (hwf : AnyWF t) {a b : Int} (hab : a < b) (m : CropMode) (r : Bool) :
    ∃ t', t.crop a b m r = .ok t' ∧ AnyWF t' ∧
      (m ≠ .lax → t'.lo = (if r then 0 else a) ∧ t'.hi = (if r then b - a else b)) := by
  cases t with
  | I t =>
    obtain ⟨t', h1, h2, h3⟩ := icrop_span t hwf a b hab m r
    exact ⟨.I t', by simp only [AnyTier.crop, h1]; rfl, h2, h3⟩
  | P t =>
    obtain ⟨t', h1, h2, _, _, h5, h6⟩ := C06.pcrop_spec t hwf a b hab r
    exact ⟨.P t', by simp only [AnyTier.crop, h1]; rfl, h2, fun _ => ⟨h5, h6⟩⟩

/-- the point-tier constructor with both bounds given and every point between them: the span is the bounds -/
theorem mkPTier_span {name : String} {ps : List (Pt Int)} {lo hi : Int} {t : PTier Int}
    (h : mkPTier name ps (some lo) (some hi) = .ok t) (hlh : lo ≤ hi) (hin : ∀ p ∈ ps, lo ≤ p.t ∧ p.t ≤ hi) :
    t.lo = lo ∧ t.hi = hi := by
  unfold mkPTier at h
  simp only at h
  split at h
  · rename_i mn mx hmn hmx
    cases h
    simp only
    have hmem : ∀ x ∈ (sortPts (ps.map fun p => { p with l := pyStrip p.l })).map (·.t) ++ (some lo).toList ++ (some hi).toList,
        lo ≤ x ∧ x ≤ hi := by
      intro x hx
      simp only [Option.toList_some, List.mem_append, List.mem_map, List.mem_singleton] at hx
      rcases hx with (⟨p, hp, rfl⟩ | rfl) | rfl
      · rw [C05.mem_sortPts] at hp
        obtain ⟨q, hq, rfl⟩ := List.mem_map.1 hp
        exact hin q hq
      · omega
      · omega
    have a1 := C05.pyMinList_le _ _ hmn lo (by simp)
    have a2 := hmem _ (C05.pyMinList_mem _ _ hmn)
    have a3 := C05.pyMaxList_ge _ _ hmx hi (by simp)
    have a4 := hmem _ (C05.pyMaxList_mem _ _ hmx)
    omega
  · cases h

/-- the length of the part of the region `[a, b]` that lies inside the span `[lo, hi]` (0 if there is none): what
`eraseRegion(doShrink=True)` cuts out since fix A28 -/
def clipLen (lo hi a b : Int) : Int := max 0 (min b hi - max a lo)

theorem clipLen_in {lo hi a b : Int} (hab : a < b) (hlo : lo ≤ a) (hhi : b ≤ hi) : clipLen lo hi a b = b - a := by
  simp only [clipLen]; omega

/-- point-tier `eraseRegion` on a well-formed tier: never refuses a proper region; keeps the span, or — shrinking —
moves the end back by exactly the length of the part of the region inside the span (ANY region) -/
theorem perase_span (t : PTier Int) (hwf : t.WF) (a b : Int) (hab : a < b) (sh : Bool) :
    ∃ t', t.eraseRegion a b sh = .ok t' ∧ t'.WF ∧ t'.lo = t.lo ∧
      t'.hi = (if sh then t.hi - clipLen t.lo t.hi a b else t.hi) := by
  obtain ⟨t', h1, h2, _, h4, h5⟩ := C07.perase_span_any t hwf a b hab sh
  exact ⟨t', h1, h2, h4, h5⟩

/-- `eraseRegion(…, 'truncate', doShrink)` of a well-formed tier of either class, ANY region `a < b` -/
theorem anyerase_spec {t : AnyTier Int} (hwf : AnyWF t) {a b : Int} (hab : a < b) (sh : Bool) :
    ∃ t', t.eraseRegion a b .truncate sh = .ok t' ∧ AnyWF t' ∧ t'.lo = t.lo ∧
      t'.hi = (if sh then t.hi - clipLen t.lo t.hi a b else t.hi) := by
  cases t with
  | I t =>
    cases sh with
    | false =>
      obtain ⟨t', h1, h2⟩ := C07.erase_noshrink t hwf a b hab .truncate (by decide)
      exact ⟨.I t', by simp only [AnyTier.eraseRegion, h1]; rfl, h2.wf, h2.lo, h2.hi⟩
    | true =>
      obtain ⟨t', e1, e2, _, e4, e5⟩ := C07.erase_shrink_any t hwf a b hab .truncate (by decide)
      exact ⟨.I t', by simp only [AnyTier.eraseRegion, e1]; rfl, e2, e4, e5⟩
  | P t =>
    obtain ⟨t', h1, h2, h3, h4⟩ := perase_span t hwf a b hab sh
    exact ⟨.P t', by simp only [AnyTier.eraseRegion, h1]; rfl, h2, h3, h4⟩

/-- the separately computed end of `Textgrid.eraseRegion` in exact arithmetic -/
theorem eraseHi_int (lo hi : Option Int) (a b : Int) (sh : Bool) :
    Tg.eraseHi lo hi a b sh = (if sh then hi.map (fun h => h - clipLen (lo.getD a) h a b) else hi) := by
  cases hi with
  | none => cases sh <;> rfl
  | some h =>
    cases sh with
    | false => rfl
    | true =>
      cases lo with
      | none =>
        simp only [Tg.eraseHi, if_true, pyMin2, shiftBack, clipLen, Option.map_some, Option.getD_none]
        split <;> split <;> congr 1 <;> omega
      | some l =>
        simp only [Tg.eraseHi, if_true, pyMax2, pyMin2, shiftBack, clipLen, Option.map_some, Option.getD_some]
        split <;> split <;> split <;> congr 1 <;> omega

/-- no interval of the tier has `s` strictly inside (a point tier has no intervals) -/
def NoStraddler (s : Int) : AnyTier Int → Prop
  | .I t => ∀ iv ∈ t.es, ¬ C08.Straddles s iv
  | .P _ => True

/-- `insertSpace` of a well-formed tier of either class: whenever it succeeds the result is well-formed, starts where
the tier started and ends exactly `d` later; it succeeds unless the mode is `error` and an interval straddles `s` -/
theorem anyinsert_spec {t : AnyTier Int} (hwf : AnyWF t) {s d : Int} (hd : 0 < d) (m : SpaceMode) :
    (∀ t', t.insertSpace s d m = .ok t' → AnyWF t' ∧ t'.lo = t.lo ∧ t'.hi = t.hi + d) ∧
    ((m = .error → NoStraddler s t) → ∃ t', t.insertSpace s d m = .ok t') := by
  cases t with
  | I t =>
    have key : (m = .error → ∀ iv ∈ t.es, ¬ C08.Straddles s iv) →
        ∃ t', t.insertSpace s d m = .ok t' ∧ t'.WF ∧ t'.lo = t.lo ∧ t'.hi = t.hi + d := by
      intro hm
      obtain ⟨t', e1, e2, _, _, e5, e6⟩ := C08.insert_spec t hwf s d hd m hm
      exact ⟨t', e1, e2, e5, e6⟩
    constructor
    · intro t' h
      obtain ⟨z, hz, rfl⟩ := map_ok h
      by_cases hm : m = .error → ∀ iv ∈ t.es, ¬ C08.Straddles s iv
      · obtain ⟨t'', e1, e2, e3, e4⟩ := key hm
        rw [hz] at e1; cases e1
        exact ⟨e2, e3, e4⟩
      · exfalso
        have hm' : m = .error ∧ ∃ iv ∈ t.es, C08.Straddles s iv := by
          by_cases hme : m = .error
          · refine ⟨hme, ?_⟩
            apply Classical.byContradiction
            intro hne
            exact hm (fun _ iv hiv hs => hne ⟨iv, hiv, hs⟩)
          · exact absurd (fun h => absurd h hme) hm
        obtain ⟨rfl, iv, hiv, hs⟩ := hm'
        rw [C08.insert_error_mode t s d iv hiv hs] at hz
        cases hz
    · intro hm
      obtain ⟨t', e1, _⟩ := key hm
      exact ⟨.I t', by simp only [AnyTier.insertSpace, e1]; rfl⟩
  | P t =>
    obtain ⟨t', e1, e2, _, _, e5, e6⟩ := C08.pinsert_spec t hwf s d hd
    constructor
    · intro t'' h
      obtain ⟨z, hz, rfl⟩ := map_ok h
      rw [e1] at hz; cases hz
      exact ⟨e2, e5, e6⟩
    · intro _
      exact ⟨.P t', by simp only [AnyTier.insertSpace, e1]; rfl⟩

/-! ## the textgrid-level loop, started on an empty textgrid of span `(olo, ohi)` -/

theorem tgfold_spans (f : AnyTier Int → Except Err (AnyTier Int)) (rep : Report) (l : List (AnyTier Int))
    (olo ohi : Option Int) (g' : Tg Int)
    (h : l.foldlM (fun acc t => do let t' ← f t; acc.addTier t' none rep) (Tg.ofSpan olo ohi) = .ok g')
    (hf : ∀ t ∈ l, ∀ t', f t = .ok t' →
      (∃ lo, olo = some lo ∧ lo ≤ t'.lo) ∧ (∃ hi, ohi = some hi ∧ t'.hi ≤ hi)) :
    g'.lo = olo ∧ g'.hi = ohi ∧ g'.names.Nodup ∧ ∀ t' ∈ g'.tiers, ∃ t ∈ l, f t = .ok t' := by
  obtain ⟨r1, r2, r3, r4⟩ := foldlM_addTier_span f rep l (Tg.ofSpan olo ohi) g' h hf
  refine ⟨r1, r2, r3 (by simp [Tg.names, Tg.ofSpan]), ?_⟩
  intro t' ht'
  rcases r4 t' ht' with hm | hm
  · cases hm
  · exact hm

/-! ## (2) crop, strict / truncated -/

/-- **crop_validate**: `Textgrid.crop(a, b, mode, rebaseToZero)` in mode strict or truncated on a textgrid of well-formed
tiers (nothing else is assumed about it): if it returns a textgrid then that textgrid validates, its span is exactly the
window (`[a, b]`, or `[0, b - a]` when rebasing) and every tier is well-formed and has exactly that span -/
theorem crop_validate (g : Tg Int) (hwf : ∀ t ∈ g.tiers, AnyWF t) (a b : Int) (m : CropMode) (hm : m ≠ .lax)
    (r : Bool) (g' : Tg Int) (h : g.crop a b m r = .ok g') :
    g'.validate = true ∧
    g'.lo = some (if r then 0 else a) ∧ g'.hi = some (if r then b - a else b) ∧
    ∀ t' ∈ g'.tiers, t'.lo = (if r then 0 else a) ∧ t'.hi = (if r then b - a else b) ∧ AnyWF t' := by
  unfold Tg.crop at h
  split at h
  · cases h
  · rename_i hab
    have hab : a < b := by omega
    have hg0 : (if r = true then Tg.ofSpan (some (Tm.zero : Int)) (some (b - a)) else Tg.ofSpan (some a) (some b) : Tg Int)
        = Tg.ofSpan (some (if r then 0 else a)) (some (if r then b - a else b)) := by cases r <;> rfl
    simp only [hg0] at h
    have hper : ∀ t ∈ g.tiers, ∀ t', t.crop a b m r = .ok t' →
        AnyWF t' ∧ t'.lo = (if r then 0 else a) ∧ t'.hi = (if r then b - a else b) := by
      intro t ht t' ht'
      obtain ⟨t'', e1, e2, e3⟩ := anycrop_spec (hwf t ht) hab m r
      rw [ht'] at e1; cases e1
      exact ⟨e2, (e3 hm).1, (e3 hm).2⟩
    obtain ⟨r1, r2, r3, r4⟩ := tgfold_spans (·.crop a b m r) _ g.tiers _ _ g' h (by
      intro t ht t' ht'
      obtain ⟨_, e1, e2⟩ := hper t ht t' ht'
      exact ⟨⟨_, rfl, by omega⟩, ⟨_, rfl, by omega⟩⟩)
    have hts : ∀ t' ∈ g'.tiers, t'.lo = (if r then 0 else a) ∧ t'.hi = (if r then b - a else b) ∧ AnyWF t' := by
      intro t' ht'
      obtain ⟨t, ht, e⟩ := r4 t' ht'
      obtain ⟨e1, e2, e3⟩ := hper t ht t' e
      exact ⟨e2, e3, e1⟩
    refine ⟨validate_of_spans r3 ?_, r1, r2, hts⟩
    intro t' ht'
    obtain ⟨e1, e2, e3⟩ := hts t' ht'
    exact ⟨by rw [r1, e1], by rw [r2, e2], e3⟩

/-- … and under pairwise different names and a proper window the call does return a textgrid -/
theorem crop_validate_ok (g : Tg Int) (hwf : ∀ t ∈ g.tiers, AnyWF t) (hnd : g.names.Nodup) (a b : Int) (hab : a < b)
    (m : CropMode) (hm : m ≠ .lax) (r : Bool) :
    ∃ g', g.crop a b m r = .ok g' ∧ g'.validate = true ∧
      g'.lo = some (if r then 0 else a) ∧ g'.hi = some (if r then b - a else b) ∧
      ∀ t' ∈ g'.tiers, t'.lo = (if r then 0 else a) ∧ t'.hi = (if r then b - a else b) ∧ AnyWF t' := by
  obtain ⟨ts, hts⟩ := mapM_ok_of_forall (·.crop a b m r) g.tiers (fun t ht => by
    obtain ⟨t', e, _⟩ := anycrop_spec (hwf t ht) hab m r
    exact ⟨t', e⟩)
  obtain ⟨g', e, _⟩ := (tgop_ok g hnd ts).1 a b m r hab hts
  exact ⟨g', e, crop_validate g hwf a b m hm r g' e⟩

/-! ## (3) eraseRegion -/

/-- **eraseRegion_validate**: `Textgrid.eraseRegion(a, b, doShrink)` on a valid textgrid of well-formed tiers, ANY region
(since fix A28 no hypothesis on its position: a region sticking out of the span is clipped to it, by the textgrid and by
every tier alike): if it returns a textgrid then that textgrid validates, it starts where the old one started, it ends
where the old one ended — earlier by the length of the part of the region inside the span when shrinking —, and every
tier is well-formed and has exactly the new textgrid's span -/
theorem eraseRegion_validate (g : Tg Int) (hwf : ∀ t ∈ g.tiers, AnyWF t) (hv : g.validate = true) (a b : Int)
    (sh : Bool) (g' : Tg Int) (h : g.eraseRegion a b sh = .ok g') :
    g'.validate = true ∧
    g'.lo = g.lo ∧ g'.hi = (if sh then g.hi.map (fun x => x - clipLen (g.lo.getD a) x a b) else g.hi) ∧
    ∀ t' ∈ g'.tiers, g'.lo = some t'.lo ∧ g'.hi = some t'.hi ∧ AnyWF t' := by
  obtain ⟨_, hsp⟩ := (validate_iff g).1 hv
  unfold Tg.eraseRegion at h
  split at h
  · cases h
  · rename_i hab
    have hab : a < b := by omega
    obtain ⟨g1, h1, h2⟩ := bind_ok h
    have h2 := pure_ok h2
    have hper : ∀ t ∈ g.tiers, ∀ t', t.eraseRegion a b .truncate sh = .ok t' →
        AnyWF t' ∧ t'.lo = t.lo ∧ t'.hi = (if sh then t.hi - clipLen t.lo t.hi a b else t.hi) := by
      intro t ht t' ht'
      obtain ⟨t'', e3, e4⟩ := anyerase_spec (hwf t ht) hab sh
      rw [ht'] at e3; cases e3
      exact e4
    obtain ⟨r1, r2, r3, r4⟩ := tgfold_spans (·.eraseRegion a b .truncate sh) _ g.tiers _ _ g1 h1 (by
      intro t ht t' ht'
      obtain ⟨e1, e2, _⟩ := hsp t ht
      obtain ⟨_, e3, e4⟩ := hper t ht t' ht'
      refine ⟨⟨_, e1, by omega⟩, ⟨_, e2, ?_⟩⟩
      rw [e4]; simp only [clipLen]; split <;> omega)
    subst h2
    rw [eraseHi_int]
    have hts : ∀ t' ∈ g1.tiers, g1.lo = some t'.lo ∧
        (if sh = true then g.hi.map (fun x => x - clipLen (g.lo.getD a) x a b) else g.hi) = some t'.hi ∧ AnyWF t' := by
      intro t' ht'
      obtain ⟨t, ht, e⟩ := r4 t' ht'
      obtain ⟨e1, e2, _⟩ := hsp t ht
      obtain ⟨e3, e4, e5⟩ := hper t ht t' e
      refine ⟨by rw [r1, e1, e4], ?_, e3⟩
      rw [e1, e2, e5]; cases sh <;> rfl
    exact ⟨validate_of_spans r3 hts, r1, rfl, hts⟩

/-- the same with the old span named: span `[lo, hi]` becomes `[lo, hi]`, or — shrinking — `[lo, hi - clipLen lo hi a b]`
(`= [lo, hi - (b - a)]` for a region inside the span, `clipLen_in`) -/
theorem eraseRegion_validate_span (g : Tg Int) (hwf : ∀ t ∈ g.tiers, AnyWF t) (hv : g.validate = true) (a b : Int)
    (sh : Bool) (lo hi : Int) (hlo : g.lo = some lo) (hhi : g.hi = some hi)
    (g' : Tg Int) (h : g.eraseRegion a b sh = .ok g') :
    g'.validate = true ∧
    g'.lo = some lo ∧ g'.hi = some (if sh then hi - clipLen lo hi a b else hi) ∧
    ∀ t' ∈ g'.tiers, t'.lo = lo ∧ t'.hi = (if sh then hi - clipLen lo hi a b else hi) ∧ AnyWF t' := by
  obtain ⟨r1, r2, r3, r4⟩ := eraseRegion_validate g hwf hv a b sh g' h
  have r3' : g'.hi = some (if sh then hi - clipLen lo hi a b else hi) := by
    rw [r3, hhi, hlo]; cases sh <;> rfl
  refine ⟨r1, r2.trans hlo, r3', ?_⟩
  intro t' ht'
  obtain ⟨e1, e2, e3⟩ := r4 t' ht'
  rw [r2, hlo] at e1
  rw [r3'] at e2
  exact ⟨(Option.some.inj e1).symm, (Option.some.inj e2).symm, e3⟩

/-- … and under a proper region the call does return a textgrid -/
theorem eraseRegion_validate_ok (g : Tg Int) (hwf : ∀ t ∈ g.tiers, AnyWF t) (hv : g.validate = true) (a b : Int)
    (hab : a < b) (sh : Bool) :
    ∃ g', g.eraseRegion a b sh = .ok g' ∧ g'.validate = true ∧
      g'.lo = g.lo ∧ g'.hi = (if sh then g.hi.map (fun x => x - clipLen (g.lo.getD a) x a b) else g.hi) ∧
      ∀ t' ∈ g'.tiers, g'.lo = some t'.lo ∧ g'.hi = some t'.hi ∧ AnyWF t' := by
  obtain ⟨hnd, hsp⟩ := (validate_iff g).1 hv
  obtain ⟨ts, hts⟩ := mapM_ok_of_forall (·.eraseRegion a b .truncate sh) g.tiers (fun t ht => by
    obtain ⟨t', e, _⟩ := anyerase_spec (hwf t ht) hab sh
    exact ⟨t', e⟩)
  obtain ⟨g', e, _⟩ := (tgop_ok g hnd ts).2.1 a b sh hab hts
  exact ⟨g', e, eraseRegion_validate g hwf hv a b sh g' e⟩

/-! ## (4) insertSpace -/

/-- **insertSpace_validate**: `Textgrid.insertSpace(s, d, collisionMode)` with `d > 0` and ANY `s` (the former
hypothesis "`s` not before the start" was a convenience: for `s` before the start every entry moves by `d`, exactly as for
`s` at the start — replayed on the class, `Textgrid(2,10)` with `s = 0, 1`: valid result `[2, 11]`),
on a valid textgrid of well-formed tiers, in any of the four modes: if it returns a textgrid then that textgrid
validates, it starts where the old one started and ends exactly `d` later, and every tier is well-formed and has
exactly the new textgrid's span -/
theorem insertSpace_validate (g : Tg Int) (hwf : ∀ t ∈ g.tiers, AnyWF t) (hv : g.validate = true) (s d : Int)
    (hd : 0 < d) (m : SpaceMode)
    (g' : Tg Int) (h : g.insertSpace s d m = .ok g') :
    g'.validate = true ∧
    g'.lo = g.lo ∧ g'.hi = g.hi.map (· + d) ∧
    ∀ t' ∈ g'.tiers, g'.lo = some t'.lo ∧ g'.hi = some t'.hi ∧ AnyWF t' := by
  obtain ⟨_, hsp⟩ := (validate_iff g).1 hv
  unfold Tg.insertSpace at h
  have hper : ∀ t ∈ g.tiers, ∀ t', t.insertSpace s d m = .ok t' →
      AnyWF t' ∧ t'.lo = t.lo ∧ t'.hi = t.hi + d := by
    intro t ht t' ht'
    exact (anyinsert_spec (hwf t ht) hd m).1 t' ht'
  obtain ⟨r1, r2, r3, r4⟩ := tgfold_spans (·.insertSpace s d m) _ g.tiers _ _ g' h (by
    intro t ht t' ht'
    obtain ⟨e1, e2, _⟩ := hsp t ht
    obtain ⟨_, e3, e4⟩ := hper t ht t' ht'
    exact ⟨⟨_, e1, by omega⟩, ⟨t.hi + d, by rw [e2]; rfl, by omega⟩⟩)
  have hts : ∀ t' ∈ g'.tiers, g'.lo = some t'.lo ∧ g'.hi = some t'.hi ∧ AnyWF t' := by
    intro t' ht'
    obtain ⟨t, ht, e⟩ := r4 t' ht'
    obtain ⟨e1, e2, _⟩ := hsp t ht
    obtain ⟨e3, e4, e5⟩ := hper t ht t' e
    exact ⟨by rw [r1, e1, e4], by rw [r2, e2, e5]; rfl, e3⟩
  exact ⟨validate_of_spans r3 hts, r1, r2, hts⟩

/-- the same with the old span named: span `[lo, hi]` becomes `[lo, hi + d]` -/
theorem insertSpace_validate_span (g : Tg Int) (hwf : ∀ t ∈ g.tiers, AnyWF t) (hv : g.validate = true) (s d : Int)
    (hd : 0 < d) (lo hi : Int) (hlo : g.lo = some lo) (hhi : g.hi = some hi) (m : SpaceMode)
    (g' : Tg Int) (h : g.insertSpace s d m = .ok g') :
    g'.validate = true ∧
    g'.lo = some lo ∧ g'.hi = some (hi + d) ∧
    ∀ t' ∈ g'.tiers, t'.lo = lo ∧ t'.hi = hi + d ∧ AnyWF t' := by
  obtain ⟨r1, r2, r3, r4⟩ := insertSpace_validate g hwf hv s d hd m g' h
  have r3' : g'.hi = some (hi + d) := by rw [r3, hhi]; rfl
  refine ⟨r1, r2.trans hlo, r3', ?_⟩
  intro t' ht'
  obtain ⟨e1, e2, e3⟩ := r4 t' ht'
  rw [r2, hlo] at e1
  rw [r3'] at e2
  exact ⟨(Option.some.inj e1).symm, (Option.some.inj e2).symm, e3⟩

/-- … and the call does return a textgrid unless the mode is `error` and some interval straddles `s` -/
theorem insertSpace_validate_ok (g : Tg Int) (hwf : ∀ t ∈ g.tiers, AnyWF t) (hv : g.validate = true) (s d : Int)
    (hd : 0 < d) (m : SpaceMode)
    (hm : m = .error → ∀ t ∈ g.tiers, NoStraddler s t) :
    ∃ g', g.insertSpace s d m = .ok g' ∧ g'.validate = true ∧
      g'.lo = g.lo ∧ g'.hi = g.hi.map (· + d) ∧
      ∀ t' ∈ g'.tiers, g'.lo = some t'.lo ∧ g'.hi = some t'.hi ∧ AnyWF t' := by
  obtain ⟨hnd, hsp⟩ := (validate_iff g).1 hv
  obtain ⟨ts, hts⟩ := mapM_ok_of_forall (·.insertSpace s d m) g.tiers (fun t ht => by
    exact (anyinsert_spec (hwf t ht) hd m).2 (fun hme => hm hme t ht))
  obtain ⟨g', e, _⟩ := (tgop_ok g hnd ts).2.2.1 s d m hts
  exact ⟨g', e, insertSpace_validate g hwf hv s d hd m g' e⟩

/-! ## non-vacuity, and why lax crop is excluded -/

def exWords : ITier Int := ⟨"words", [⟨1, 4, "x"⟩, ⟨5, 7, "y"⟩], 0, 10⟩
def exMarks : PTier Int := ⟨"marks", [⟨3, "p"⟩, ⟨8, "q"⟩], 0, 10⟩
/-- a valid textgrid of span `[0, 10]` with an interval tier and a point tier -/
def exG : Tg Int := ⟨[.I exWords, .P exMarks], some 0, some 10⟩

theorem exWords_wf : exWords.WF := by
  refine ⟨?_, ?_, ?_, ?_, ?_, ?_⟩ <;> simp [exWords, Pos, Disj, Stripped] <;> decide

theorem exMarks_wf : exMarks.WF := by
  refine ⟨?_, ?_, ?_, ?_, ?_⟩ <;> simp [exMarks, Pt.le] <;> decide

theorem exG_wf : ∀ t ∈ exG.tiers, AnyWF t := by
  intro t ht
  simp only [exG, List.mem_cons, List.not_mem_nil, or_false] at ht
  rcases ht with rfl | rfl
  · exact exWords_wf
  · exact exMarks_wf

theorem exG_nodup : exG.names.Nodup := by
  simp [exG, Tg.names, AnyTier.name, exWords, exMarks]

theorem exG_valid : exG.validate = true := by
  apply validate_of_spans exG_nodup
  intro t ht
  refine ⟨?_, ?_, exG_wf t ht⟩ <;>
    (simp only [exG, List.mem_cons, List.not_mem_nil, or_false] at ht; rcases ht with rfl | rfl <;> rfl)

/-- the hypotheses of the four success theorems are met by `exG` (proved, not evaluated) -/
example : ∃ g', exG.crop 2 6 .truncated true = .ok g' ∧ g'.validate = true ∧ g'.lo = some 0 ∧ g'.hi = some 4 := by
  obtain ⟨g', e, v, l, h, _⟩ := crop_validate_ok exG exG_wf exG_nodup 2 6 (by decide) .truncated (by decide) true
  exact ⟨g', e, v, l, h⟩

example : ∃ g', exG.crop 2 6 .strict false = .ok g' ∧ g'.validate = true ∧ g'.lo = some 2 ∧ g'.hi = some 6 := by
  obtain ⟨g', e, v, l, h, _⟩ := crop_validate_ok exG exG_wf exG_nodup 2 6 (by decide) .strict (by decide) false
  exact ⟨g', e, v, l, h⟩

example : ∃ g', exG.eraseRegion 2 6 true = .ok g' ∧ g'.validate = true ∧ g'.lo = some 0 ∧ g'.hi = some 6 := by
  obtain ⟨g', e, v, l, h, _⟩ := eraseRegion_validate_ok exG exG_wf exG_valid 2 6 (by decide) true
  exact ⟨g', e, v, l, h⟩

example : ∃ g', exG.eraseRegion 2 6 false = .ok g' ∧ g'.validate = true ∧ g'.lo = some 0 ∧ g'.hi = some 10 := by
  obtain ⟨g', e, v, l, h, _⟩ := eraseRegion_validate_ok exG exG_wf exG_valid 2 6 (by decide) false
  exact ⟨g', e, v, l, h⟩

/-- regression of A28: a region sticking out of the span, shrinking — the result validates, the end is `10 - 4` -/
example : ∃ g', exG.eraseRegion 6 15 true = .ok g' ∧ g'.validate = true ∧ g'.lo = some 0 ∧ g'.hi = some 6 := by
  obtain ⟨g', e, v, l, h, _⟩ := eraseRegion_validate_ok exG exG_wf exG_valid 6 15 (by decide) true
  exact ⟨g', e, v, l, h⟩

example : ∃ g', exG.insertSpace 3 5 .split = .ok g' ∧ g'.validate = true ∧ g'.lo = some 0 ∧ g'.hi = some 15 := by
  obtain ⟨g', e, v, l, h, _⟩ := insertSpace_validate_ok exG exG_wf exG_valid 3 5 (by decide) .split (fun h => by cases h)
  exact ⟨g', e, v, l, h⟩

/-- mode `error` with no straddler: `s = 4` is an interval end -/
example : ∃ g', exG.insertSpace 4 5 .error = .ok g' ∧ g'.validate = true ∧ g'.hi = some 15 := by
  obtain ⟨g', e, v, _, h, _⟩ := insertSpace_validate_ok exG exG_wf exG_valid 4 5 (by decide) .error (by
      intro _ t ht
      simp only [exG, List.mem_cons, List.not_mem_nil, or_false] at ht
      rcases ht with rfl | rfl
      · intro iv hiv
        simp only [exWords, List.mem_cons, List.not_mem_nil, or_false] at hiv
        rcases hiv with rfl | rfl <;> simp [C08.Straddles]
      · trivial)
  exact ⟨g', e, v, h⟩

-- evaluated illustrations (interpreter tests, not proofs)
#guard ((exG.crop 2 6 .truncated true).toOption.map fun g => (g.validate, g.lo, g.hi, g.tiers.map fun t => (t.lo, t.hi)))
  == some (true, some 0, some 4, [(0, 4), (0, 4)])
#guard ((exG.crop 2 6 .strict false).toOption.map fun g => (g.validate, g.lo, g.hi, g.tiers.map fun t => (t.lo, t.hi)))
  == some (true, some 2, some 6, [(2, 6), (2, 6)])
#guard ((exG.eraseRegion 2 6 true).toOption.map fun g => (g.validate, g.lo, g.hi, g.tiers.map fun t => (t.lo, t.hi)))
  == some (true, some 0, some 6, [(0, 6), (0, 6)])
#guard ((exG.eraseRegion 2 6 false).toOption.map fun g => (g.validate, g.lo, g.hi, g.tiers.map fun t => (t.lo, t.hi)))
  == some (true, some 0, some 10, [(0, 10), (0, 10)])
#guard ((exG.eraseRegion 6 15 true).toOption.map fun g => (g.validate, g.lo, g.hi, g.tiers.map fun t => (t.lo, t.hi)))
  == some (true, some 0, some 6, [(0, 6), (0, 6)])
#guard ((exG.eraseRegion (-7) (-2) true).toOption.map fun g => (g.validate, g.lo, g.hi, g.tiers.map fun t => (t.lo, t.hi)))
  == some (true, some 0, some 10, [(0, 10), (0, 10)])
#guard ((exG.insertSpace 3 5 .split).toOption.map fun g => (g.validate, g.lo, g.hi, g.tiers.map fun t => (t.lo, t.hi)))
  == some (true, some 0, some 15, [(0, 15), (0, 15)])
#guard ((exG.insertSpace 4 5 .error).toOption.map fun g => (g.validate, g.lo, g.hi, g.tiers.map fun t => (t.lo, t.hi)))
  == some (true, some 0, some 15, [(0, 15), (0, 15)])
#guard ((exG.crop 2 6 .lax false).toOption.map fun g => (g.validate, g.lo, g.hi, g.tiers.map fun t => (t.lo, t.hi)))
  == some (false, some 1, some 7, [(1, 7), (2, 6)])
-- a textgrid without tiers
#guard (((Tg.ofSpan (some 0) (some 10) : Tg Int).eraseRegion 2 6 true).toOption.map fun g => (g.validate, g.lo, g.hi))
  == some (true, some 0, some 6)

/-! ### lax crop: the tiers of the result need not share a span -/

/-- what `exG.crop(2, 6, 'lax', False)` returns: "words" keeps both overhanging intervals and spans `[1, 7]`, "marks"
spans the window `[2, 6]`, the textgrid spans the hull `[1, 7]` -/
def exLax : Tg Int :=
  ⟨[.I ⟨"words", [⟨1, 4, "x"⟩, ⟨5, 7, "y"⟩], 1, 7⟩, .P ⟨"marks", [⟨3, "p"⟩], 2, 6⟩], some 1, some 7⟩

theorem exWords_crop_lax : exWords.crop 2 6 .lax false = .ok ⟨"words", [⟨1, 4, "x"⟩, ⟨5, 7, "y"⟩], 1, 7⟩ := by
  have hsel : getIvs 2 6 .lax exWords.es = exWords.es := by decide
  simp only [ITier.crop, show ¬ (6 : Int) ≤ 2 by decide, if_false, Bool.false_eq_true, hsel]
  rw [mkITier_of_wf _ _ _ _ (by decide) exWords_wf.pos exWords_wf.disj exWords_wf.stripped]
  rfl

theorem exMarks_crop_lax : exMarks.crop 2 6 false = .ok ⟨"marks", [⟨3, "p"⟩], 2, 6⟩ := by
  have hsel : (exMarks.ps.filter fun p => decide (2 ≤ p.t) && decide (p.t ≤ 6)) = [⟨3, "p"⟩] := by decide
  simp only [PTier.crop, show ¬ (6 : Int) ≤ 2 by decide, if_false, Bool.false_eq_true, hsel]
  rw [mkPTier_of_wf _ _ _ _ (by simp) (by simp; decide)]
  rfl

/-- **crop_lax_spans_differ_example**: a valid textgrid of two well-formed tiers whose lax crop succeeds and returns
two tiers of different spans, so that `validate()` of the result is false — the restriction of `crop_validate` to the
modes strict and truncated is needed -/
theorem crop_lax_spans_differ_example :
    (∀ t ∈ exG.tiers, AnyWF t) ∧ exG.validate = true ∧
    exG.crop 2 6 .lax false = .ok exLax ∧
    exLax.tiers.map (fun t => (t.lo, t.hi)) = [(1, 7), (2, 6)] ∧
    exLax.lo = some 1 ∧ exLax.hi = some 7 ∧
    exLax.validate = false := by
  refine ⟨exG_wf, exG_valid, ?_, rfl, rfl, rfl, ?_⟩
  · unfold Tg.crop
    rw [if_neg (by decide)]
    simp only [exG, List.foldlM_cons, List.foldlM_nil, AnyTier.crop, exWords_crop_lax, exMarks_crop_lax,
      bind, Except.bind, Functor.map, Except.map, Bool.false_eq_true, if_false, if_true]
    rw [addTier_fresh _ _ _ _ (by simp [Tg.names, Tg.ofSpan])]
    rw [if_neg (by simp)]
    simp only
    rw [addTier_fresh _ _ _ _ (by simp [Tg.names, Tg.ofSpan, AnyTier.name, insAt])]
    rw [if_neg (by simp)]
    rfl
  · cases h : exLax.validate with
    | false => rfl
    | true =>
      have := ((validate_iff exLax).1 h).2 (.P ⟨"marks", [⟨3, "p"⟩], 2, 6⟩) (by simp [exLax])
      have := this.1
      simp [exLax, AnyTier.lo] at this

end C12
