/-! # C02 — property theorems (to be filled) -/
