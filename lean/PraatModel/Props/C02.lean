import PraatModel.Spec.TextGridFormat
import PraatModel.Props.C01
import PraatModel.Props.C04

/-!
# C02 — written files are well-formed for an independent, spec-based reader

`Spec.decode` (Spec/TextGridFormat.lean) is written from Praat's manual, not from praatio's reader; the correspondence
run feeds it every text that praatio's emitters write (keyword-bearing labels included) and compares the decoded
content with the in-memory textgrid.  Proved here, for ALL labels: the spec tokenizer turns a written (quote-doubled)
text back into the label; written quotes come in pairs; and (from C04) blank filling yields a partition of the span.
The whole-file statement (decode ∘ emit = the in-memory content, both layouts, all textgrids) is in Props/C02Full.lean.
-/
namespace C02

/-- every quote of a name or label is doubled in the file -/
theorem quotes_doubled (s : List Char) : (escapeL s).count q = 2 * s.count q := by
  induction s with
  | nil => rfl
  | cons c cs ih =>
    by_cases hc : c = q
    · subst hc; simp only [escapeL, if_true, List.count_cons_self, ih]; omega
    · have hc' : (c == q) = false := by simpa using hc
      simp only [escapeL, hc, if_false, List.count_cons, hc', ih]
      simp

/-- the spec tokenizer on a written text: whatever the label contains (quotes, newlines, the formats' own keywords),
the text token is the label and tokenising continues right after the closing quote -/
theorem tokens_written_text (fuel : Nat) (s : List Char) (r : Char) (rest : List Char) (hr : r ≠ q) :
    Spec.tokens (fuel + 1) (q :: (escapeL s ++ q :: r :: rest)) =
      (Spec.tokens fuel (r :: rest)).map (Spec.Tok.text (String.ofList s) :: ·) := by
  have hq : pyIsSpace q = false := C01.q_not_space
  simp only [Spec.tokens, hq, Bool.false_eq_true, if_false, if_true, C01.specText_written s r rest hr]

-- keywords inside a label cannot confuse the spec reader: a label consisting of a complete fake tier header is still
-- one text token
#guard Spec.tokens 100 ("\"item [2]:\n    class = \"\"IntervalTier\"\"\" 5".toList) ==
    some [Spec.Tok.text "item [2]:\n    class = \"IntervalTier\"", Spec.Tok.num "5"]

/-- blank filling makes every interval tier an ascending, gap-free, overlap-free partition of the file's span
(re-export of C04.fillInBlanks_tiles in the words of this property) -/
theorem fill_partition (es : List (Iv Int)) (lo hi : Int) (hlh : lo < hi) (hp : Pos es) (hd : Disj es)
    (hin : ∀ e ∈ es, lo ≤ e.s ∧ e.e ≤ hi) :
    ∃ es', fillInBlanks es lo hi = .ok es' ∧ C04.Chain lo hi es' ∧ es' ≠ [] :=
  let ⟨es', h1, h2, h3, _⟩ := C04.fillInBlanks_tiles es lo hi hlh hp hd hin
  ⟨es', h1, h2, h3⟩

#guard (Spec.decode "File type = \"ooTextFile\"\nObject class = \"TextGrid\"\n\n0\n5\n<exists>\n1\n\"IntervalTier\"\n\"a\"\"b\"\n0\n5\n1\n1\n2.5e+00\n\"x\"\n").map (·.tiers.map (·.entries)) ==
  some [[["1", "2.5e+00", "x"]]]
#guard (Spec.decode "File type = \"ooTextFile\"\nObject class = \"TextGrid\"\n\n0\n5\n<exists>\n1\n\"IntervalTier\"\n\"a\"\n0\n5\n2\n1\n2\n\"x\"\n").isNone   -- declared size 2, one item

end C02
