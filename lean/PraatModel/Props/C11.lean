import PraatModel.Lemmas.Insert
import PraatModel.Props.C07
import PraatModel.Lemmas.Strip

/-!
# C11 — insertEntry/deleteEntry follow the selected collision policy exactly

Exact arithmetic.  No separation hypothesis: `deleteEntry` looks for the exactly matching entry first, so deleting a
member removes that member however close other entries are; the tolerant `Interval.__eq__` only decides what happens
to an argument that is not in the tier (`delete_spec`, second clause).  No hypothesis on the inserted entry's label:
`insertEntry` strips it first, so the entry that arrives in the tier is `stripped x` (`insertEntry_strip`; the
`*_stripped` lemmas are the same statements for an entry whose label is already stripped).  A zero-length or reversed
entry (`x.e ≤ x.s`) is refused with `ArgumentError` in every mode, by the `crop` call that looks for the colliding
entries (`insert_rejects`), so `x.s < x.e` in the theorems below excludes nothing that could be inserted.
-/
namespace C11

/-- the entries colliding with `x`: positive-length overlap -/
def colliding (t : ITier Int) (x : Iv Int) : List (Iv Int) := t.es.filter (ov x.s x.e)
/-- the entries not colliding with `x` -/
def others (t : ITier Int) (x : Iv Int) : List (Iv Int) := t.es.filter (fun iv => !ov x.s x.e iv)

/-- the entry that replaces the colliding ones in `merge` mode -/
def merged (t : ITier Int) (x : Iv Int) : Iv Int := mergedIv (sortIvs (colliding t x ++ [x])) x

theorem strip_id (x : Iv Int) (h : pyStrip x.l = x.l) : ({ x with l := pyStrip x.l } : Iv Int) = x := by
  obtain ⟨s, e, l⟩ := x; simp_all

theorem crop_matches (t : ITier Int) (hwf : t.WF) (x : Iv Int) (hx : x.s < x.e) :
    ∃ mt, t.crop x.s x.e .lax false = .ok mt ∧ mt.es = colliding t x := by
  obtain ⟨mt, hc, _, _, hmt, _, _⟩ := C06.crop_norebase t hwf x.s x.e hx .lax
  exact ⟨mt, hc, by rw [hmt, getIvs_lax_eq_filter x.s x.e hx t.es hwf.pos]; rfl⟩

/-- deleting the colliding one after the other (in list order) leaves exactly the others -/
theorem delete_matches (t : ITier Int) (hwf : t.WF) (x : Iv Int) :
    ∃ es0, deleteIvs t.es (colliding t x) = .ok es0 ∧ es0.Nodup ∧
      (∀ y, y ∈ es0 ↔ y ∈ t.es ∧ ov x.s x.e y = false) := by
  have hnd : t.es.Nodup := nodup_of_wf t.es hwf.pos hwf.disj.setDisj
  refine ⟨_, deleteIvs_of_mem t.es _ hnd (fun m hm => (List.mem_filter.1 hm).1) (hnd.filter _),
    foldl_erase_nodup _ _ hnd, ?_⟩
  intro y
  rw [foldl_erase_mem _ _ _ hnd]
  simp only [colliding, List.mem_filter, not_and, Bool.not_eq_true]
  constructor
  · rintro ⟨h1, h2⟩; exact ⟨h1, h2 h1⟩
  · rintro ⟨h1, h2⟩; exact ⟨h1, fun _ => h2⟩

/-- **no collision**: the entry is added and nothing else changes; the tier stays in time order and the span
grows just enough to contain the new entry -/
theorem insert_nocollision_stripped (t : ITier Int) (hwf : t.WF) (x : Iv Int) (hx : x.s < x.e) (hstr : pyStrip x.l = x.l)
    (mode : InsMode) (hfree : ∀ iv ∈ t.es, iv.e ≤ x.s ∨ x.e ≤ iv.s) :
    ∃ t', t.insertEntry x mode = .ok t' ∧ t'.WF ∧ t'.name = t.name ∧
      (∀ y, y ∈ t'.es ↔ y ∈ t.es ∨ y = x) ∧ t'.lo = min t.lo x.s ∧ t'.hi = max t.hi x.e := by
  have hfin := finish_insert t hwf t.es x (fun _ h => h) (nodup_of_wf t.es hwf.pos hwf.disj.setDisj) hx hstr hfree
  exact ⟨_, insertEntry_free t x mode hx hstr hwf.pos hfree, hfin⟩

/-- **collision, mode `error`**: `CollisionError`, and (the model being pure) nothing changes -/
theorem insert_error_stripped (t : ITier Int) (hwf : t.WF) (x : Iv Int) (hx : x.s < x.e) (hstr : pyStrip x.l = x.l)
    (iv : Iv Int) (hiv : iv ∈ t.es) (hcol : iv.s < x.e ∧ x.s < iv.e) :
    t.insertEntry x .error = .error .CollisionError := by
  obtain ⟨mt, hc, hm⟩ := crop_matches t hwf x hx
  have hne : colliding t x ≠ [] := by
    intro h
    have : iv ∈ colliding t x := List.mem_filter.2 ⟨hiv, by simp [ov, hcol]⟩
    rw [h] at this; simp at this
  unfold ITier.insertEntry
  simp only [strip_id x hstr]
  rw [hc]
  simp only [bind, Except.bind, hm]
  cases hml : colliding t x with
  | nil => exact absurd hml hne
  | cons a as => simp [throw, throwThe, MonadExceptOf.throw]

/-- non-colliding entries lie wholly before or wholly after the hull of `x` and the colliding entries -/
theorem others_free_of_hull (t : ITier Int) (hwf : t.WF) (x : Iv Int) (hx : x.s < x.e) (z : Iv Int)
    (hzs : z.s = hullMin ((colliding t x).map (·.s)) x.s) (hze : z.e = hullMax ((colliding t x).map (·.e)) x.e) :
    ∀ iv ∈ t.es, ov x.s x.e iv = false → iv.e ≤ z.s ∨ z.e ≤ iv.s := by
  intro iv hiv hno
  have hno' : iv.e ≤ x.s ∨ x.e ≤ iv.s := by simp [ov] at hno; omega
  have hdis := setDisj_mem hwf.disj.setDisj
  have hpos := hwf.pos iv hiv
  rcases hno' with h | h
  · left
    rw [hzs]
    rcases foldl_min_mem ((colliding t x).map (·.s)) x.s with h' | h'
    · unfold hullMin; omega
    · obtain ⟨m, hm, hme⟩ := List.mem_map.1 h'
      have hmm := List.mem_filter.1 hm
      have hov : m.s < x.e ∧ x.s < m.e := by simpa [ov] using hmm.2
      have hne : iv ≠ m := by intro e; subst e; omega
      rcases hdis iv hiv m hmm.1 hne with h'' | h''
      · unfold hullMin; omega
      · omega
  · right
    rw [hze]
    rcases foldl_max_mem ((colliding t x).map (·.e)) x.e with h' | h'
    · unfold hullMax; omega
    · obtain ⟨m, hm, hme⟩ := List.mem_map.1 h'
      have hmm := List.mem_filter.1 hm
      have hov : m.s < x.e ∧ x.s < m.e := by simpa [ov] using hmm.2
      have hne : iv ≠ m := by intro e; subst e; omega
      rcases hdis iv hiv m hmm.1 hne with h'' | h''
      · omega
      · unfold hullMax; omega

/-- **collision, mode `replace`**: exactly the colliding entries are removed and the new one inserted -/
theorem insert_replace_stripped (t : ITier Int) (hwf : t.WF) (x : Iv Int) (hx : x.s < x.e)
    (hstr : pyStrip x.l = x.l) (hcol : colliding t x ≠ []) :
    ∃ t', t.insertEntry x .replace = .ok t' ∧ t'.WF ∧ t'.name = t.name ∧
      (∀ y, y ∈ t'.es ↔ (y ∈ t.es ∧ ¬ (y.s < x.e ∧ x.s < y.e)) ∨ y = x) ∧
      t'.lo = min t.lo x.s ∧ t'.hi = max t.hi x.e := by
  obtain ⟨mt, hc, hm⟩ := crop_matches t hwf x hx
  obtain ⟨es0, hdel, hnd0, hmem0⟩ := delete_matches t hwf x
  have hfree : ∀ iv ∈ es0, iv.e ≤ x.s ∨ x.e ≤ iv.s := by
    intro iv hiv
    have := ((hmem0 iv).1 hiv).2
    simp [ov] at this; omega
  have hfin := finish_insert t hwf es0 x (fun y hy => ((hmem0 y).1 hy).1) hnd0 hx hstr hfree
  refine ⟨_, ?_, hfin.1, hfin.2.1, ?_, hfin.2.2.2⟩
  · unfold ITier.insertEntry
    simp only [strip_id x hstr]
    rw [hc]
    simp only [bind, Except.bind, hm]
    cases hml : colliding t x with
    | nil => exact absurd hml hcol
    | cons a as =>
      rw [← hml, hdel]
      simp [hml, pure, Except.pure]
  · intro y
    rw [hfin.2.2.1 y, hmem0 y]
    simp [ov]

/-- the merged label is the `-`-join of stripped labels, hence stripped: the hypothesis `hMstr` of `insert_merge_stripped`
always holds on a well-formed tier -/
theorem merged_label_stripped (t : ITier Int) (hwf : t.WF) (x : Iv Int) (hstr : pyStrip x.l = x.l) :
    pyStrip (merged t x).l = (merged t x).l := by
  unfold merged mergedIv
  simp only
  apply pyStrip_pyJoin
  intro l hl
  obtain ⟨y, hy, rfl⟩ := List.mem_map.1 hl
  rw [mem_sortIvs] at hy
  rcases List.mem_append.1 hy with h | h
  · exact hwf.stripped y (List.mem_filter.1 h).1
  · simp only [List.mem_singleton] at h; subst h; exact hstr

/-- **collision, mode `merge`**: the colliding entries and the new one are replaced by one entry covering their
joint extent, labelled with the `-`-join of all their labels in tuple order (start, end, label) -/
theorem insert_merge_stripped (t : ITier Int) (hwf : t.WF) (x : Iv Int) (hx : x.s < x.e)
    (hstr : pyStrip x.l = x.l) (hcol : colliding t x ≠ [])
    (hMstr : pyStrip (merged t x).l = (merged t x).l) :
    (merged t x).s = hullMin ((colliding t x).map (·.s)) x.s ∧
    (merged t x).e = hullMax ((colliding t x).map (·.e)) x.e ∧
    (merged t x).l = pyJoin "-" ((sortIvs (colliding t x ++ [x])).map (·.l)) ∧
    ∃ t', t.insertEntry x .merge = .ok t' ∧ t'.WF ∧ t'.name = t.name ∧
      (∀ y, y ∈ t'.es ↔ (y ∈ t.es ∧ ¬ (y.s < x.e ∧ x.s < y.e)) ∨ y = merged t x) ∧
      t'.lo = min t.lo x.s ∧ t'.hi = max t.hi x.e := by
  -- extent of the merged entry: min of the starts / max of the ends of colliding ++ [x] (sorting does not matter)
  have hsortperm := sortIvs_perm (colliding t x ++ [x])
  have hMs : (merged t x).s = hullMin ((colliding t x).map (·.s)) x.s := by
    unfold merged mergedIv
    simp only
    have hperm : ((sortIvs (colliding t x ++ [x])).map (·.s)).Perm ((colliding t x).map (·.s) ++ [x.s]) := by
      have := hsortperm.map (·.s); simpa using this
    cases hl : (sortIvs (colliding t x ++ [x])).map (·.s) with
    | nil =>
      rw [hl] at hperm; have := hperm.length_eq; simp at this
    | cons a as =>
      simp only [pyMinList, Option.getD_some, foldl_pyMin2]
      -- both sides are the minimum of the same multiset
      have hmin1 : ∀ y ∈ (a :: as), as.foldl min a ≤ y := by
        intro y hy
        rcases List.mem_cons.1 hy with rfl | h
        · exact (foldl_min_le as y).1
        · exact (foldl_min_le as a).2 y h
      have hmem1 : as.foldl min a ∈ (a :: as) := by
        rcases foldl_min_mem as a with h | h
        · rw [h]; simp
        · exact List.mem_cons_of_mem _ h
      have h2 := hullMin_le ((colliding t x).map (·.s)) x.s
      apply Int.le_antisymm
      · rcases foldl_min_mem ((colliding t x).map (·.s)) x.s with h | h
        · unfold hullMin; rw [h]
          exact hmin1 x.s (by rw [← hl]; exact hperm.mem_iff.2 (by simp))
        · unfold hullMin
          exact hmin1 _ (by rw [← hl]; exact hperm.mem_iff.2 (List.mem_append_left _ h))
      · have := hperm.mem_iff.1 (by rw [hl]; exact hmem1)
        rcases List.mem_append.1 this with h | h
        · exact h2.2 _ h
        · simp only [List.mem_singleton] at h; rw [h]; exact h2.1
  have hMe : (merged t x).e = hullMax ((colliding t x).map (·.e)) x.e := by
    unfold merged mergedIv
    simp only
    have hperm : ((sortIvs (colliding t x ++ [x])).map (·.e)).Perm ((colliding t x).map (·.e) ++ [x.e]) := by
      have := hsortperm.map (·.e); simpa using this
    cases hl : (sortIvs (colliding t x ++ [x])).map (·.e) with
    | nil =>
      rw [hl] at hperm; have := hperm.length_eq; simp at this
    | cons a as =>
      simp only [pyMaxList, Option.getD_some, foldl_pyMax2]
      have hmax1 : ∀ y ∈ (a :: as), y ≤ as.foldl max a := by
        intro y hy
        rcases List.mem_cons.1 hy with rfl | h
        · exact (foldl_max_ge as y).1
        · exact (foldl_max_ge as a).2 y h
      have hmem1 : as.foldl max a ∈ (a :: as) := by
        rcases foldl_max_mem as a with h | h
        · rw [h]; simp
        · exact List.mem_cons_of_mem _ h
      have h2 := hullMax_ge ((colliding t x).map (·.e)) x.e
      apply Int.le_antisymm
      · have := hperm.mem_iff.1 (by rw [hl]; exact hmem1)
        rcases List.mem_append.1 this with h | h
        · exact h2.2 _ h
        · simp only [List.mem_singleton] at h; rw [h]; exact h2.1
      · rcases foldl_max_mem ((colliding t x).map (·.e)) x.e with h | h
        · unfold hullMax; rw [h]
          exact hmax1 x.e (by rw [← hl]; exact hperm.mem_iff.2 (by simp))
        · unfold hullMax
          exact hmax1 _ (by rw [← hl]; exact hperm.mem_iff.2 (List.mem_append_left _ h))
  refine ⟨hMs, hMe, rfl, ?_⟩
  obtain ⟨mt, hc, hm⟩ := crop_matches t hwf x hx
  obtain ⟨es0, hdel, hnd0, hmem0⟩ := delete_matches t hwf x
  have hMpos : (merged t x).s < (merged t x).e := by
    have := (hullMin_le ((colliding t x).map (·.s)) x.s).1
    have := (hullMax_ge ((colliding t x).map (·.e)) x.e).1
    omega
  have hfree : ∀ iv ∈ es0, iv.e ≤ (merged t x).s ∨ (merged t x).e ≤ iv.s := by
    intro iv hiv
    have := (hmem0 iv).1 hiv
    exact others_free_of_hull t hwf x hx (merged t x) hMs hMe iv this.1 this.2
  have hfin := finish_insert t hwf es0 (merged t x) (fun y hy => ((hmem0 y).1 hy).1) hnd0 hMpos hMstr hfree
  -- the merged extent contains x, and the colliding lie inside the old span
  have hspan : min t.lo (merged t x).s = min t.lo x.s ∧ max t.hi (merged t x).e = max t.hi x.e := by
    constructor
    · rw [hMs]
      have h1 := (hullMin_le ((colliding t x).map (·.s)) x.s).1
      rcases foldl_min_mem ((colliding t x).map (·.s)) x.s with h | h
      · unfold hullMin; rw [h]
      · obtain ⟨m, hm', hme⟩ := List.mem_map.1 h
        have := hwf.inLo m (List.mem_filter.1 hm').1
        unfold hullMin at *; omega
    · rw [hMe]
      have h1 := (hullMax_ge ((colliding t x).map (·.e)) x.e).1
      rcases foldl_max_mem ((colliding t x).map (·.e)) x.e with h | h
      · unfold hullMax; rw [h]
      · obtain ⟨m, hm', hme⟩ := List.mem_map.1 h
        have := hwf.inHi m (List.mem_filter.1 hm').1
        unfold hullMax at *; omega
  refine ⟨_, ?_, hfin.1, hfin.2.1, ?_, by rw [hfin.2.2.2.1, hspan.1], by rw [hfin.2.2.2.2, hspan.2]⟩
  · unfold ITier.insertEntry
    simp only [strip_id x hstr]
    rw [hc]
    simp only [bind, Except.bind, hm]
    cases hml : colliding t x with
    | nil => exact absurd hml hcol
    | cons a as =>
      rw [← hml, hdel]
      simp only [hml, List.isEmpty_cons, Bool.false_eq_true, if_false, pure, Except.pure]
      rw [← hml]; rfl
  · intro y
    rw [hfin.2.2.1 y, hmem0 y]
    simp [ov]

/-! ## the registered statements: no hypothesis on the label, and the degenerate entries -/

/-- the entry as it arrives in the tier: `insertEntry` strips the label first -/
def stripped (x : Iv Int) : Iv Int := { x with l := pyStrip x.l }

theorem stripped_stripped (x : Iv Int) : pyStrip (stripped x).l = (stripped x).l := pyStrip_idem _

/-- `insertEntry` sees only the stripped entry -/
theorem insertEntry_strip (t : ITier Int) (x : Iv Int) (mode : InsMode) :
    t.insertEntry x mode = t.insertEntry (stripped x) mode := by
  unfold ITier.insertEntry stripped
  simp only [pyStrip_idem]

/-- **a zero-length or reversed entry is refused** (`x.e ≤ x.s`), in every mode, on every tier (well-formed or not),
whatever the label: the `crop(start, end, 'lax')` call that looks for colliding entries raises `ArgumentError`
("start time must occur before end time"); the model being pure, nothing changes.  Replayed on the real class:
`insertEntry((4,4,'z'))`, `((5,4,'z'))`, `((12,12,'z'))` raise ArgumentError under 'error', 'replace' and 'merge'. -/
theorem insert_rejects (t : ITier Int) (x : Iv Int) (mode : InsMode) (h : x.e ≤ x.s) :
    t.insertEntry x mode = .error .ArgumentError := by
  unfold ITier.insertEntry
  simp only
  rw [C06.crop_rejects t x.s x.e .lax false h]
  rfl

/-- **no collision**: the entry (its label stripped) is added and nothing else changes; the tier stays in time
order and the span grows just enough to contain the new entry.  `hx` excludes only what `insert_rejects` covers. -/
theorem insert_nocollision (t : ITier Int) (hwf : t.WF) (x : Iv Int) (hx : x.s < x.e)
    (mode : InsMode) (hfree : ∀ iv ∈ t.es, iv.e ≤ x.s ∨ x.e ≤ iv.s) :
    ∃ t', t.insertEntry x mode = .ok t' ∧ t'.WF ∧ t'.name = t.name ∧
      (∀ y, y ∈ t'.es ↔ y ∈ t.es ∨ y = stripped x) ∧ t'.lo = min t.lo x.s ∧ t'.hi = max t.hi x.e := by
  rw [insertEntry_strip]
  exact insert_nocollision_stripped t hwf (stripped x) hx (stripped_stripped x) mode hfree

/-- **collision, mode `error`**: `CollisionError`, and (the model being pure) nothing changes -/
theorem insert_error (t : ITier Int) (hwf : t.WF) (x : Iv Int) (hx : x.s < x.e)
    (iv : Iv Int) (hiv : iv ∈ t.es) (hcol : iv.s < x.e ∧ x.s < iv.e) :
    t.insertEntry x .error = .error .CollisionError := by
  rw [insertEntry_strip]
  exact insert_error_stripped t hwf (stripped x) hx (stripped_stripped x) iv hiv hcol

/-- **collision, mode `replace`**: exactly the colliding entries are removed and the new one (label stripped)
inserted -/
theorem insert_replace (t : ITier Int) (hwf : t.WF) (x : Iv Int) (hx : x.s < x.e) (hcol : colliding t x ≠ []) :
    ∃ t', t.insertEntry x .replace = .ok t' ∧ t'.WF ∧ t'.name = t.name ∧
      (∀ y, y ∈ t'.es ↔ (y ∈ t.es ∧ ¬ (y.s < x.e ∧ x.s < y.e)) ∨ y = stripped x) ∧
      t'.lo = min t.lo x.s ∧ t'.hi = max t.hi x.e := by
  rw [insertEntry_strip]
  exact insert_replace_stripped t hwf (stripped x) hx (stripped_stripped x) hcol

/-- **collision, mode `merge`**: the colliding entries and the new one are replaced by one entry covering their
joint extent, labelled with the `-`-join of all their labels (the new one's stripped) in tuple order
(start, end, label).  No hypothesis on any label: the entries of a well-formed tier carry stripped labels, the new
label is stripped by `insertEntry`, and a `-`-join of stripped labels is stripped (`merged_label_stripped`). -/
theorem insert_merge (t : ITier Int) (hwf : t.WF) (x : Iv Int) (hx : x.s < x.e) (hcol : colliding t x ≠ []) :
    (merged t (stripped x)).s = hullMin ((colliding t x).map (·.s)) x.s ∧
    (merged t (stripped x)).e = hullMax ((colliding t x).map (·.e)) x.e ∧
    (merged t (stripped x)).l = pyJoin "-" ((sortIvs (colliding t x ++ [stripped x])).map (·.l)) ∧
    ∃ t', t.insertEntry x .merge = .ok t' ∧ t'.WF ∧ t'.name = t.name ∧
      (∀ y, y ∈ t'.es ↔ (y ∈ t.es ∧ ¬ (y.s < x.e ∧ x.s < y.e)) ∨ y = merged t (stripped x)) ∧
      t'.lo = min t.lo x.s ∧ t'.hi = max t.hi x.e := by
  rw [insertEntry_strip]
  exact insert_merge_stripped t hwf (stripped x) hx (stripped_stripped x) hcol
    (merged_label_stripped t hwf (stripped x) (stripped_stripped x))

/-- **deleteEntry** removes exactly the given entry (whatever else in the tier is close to it); an entry that no
member equals (even tolerantly) raises -/
theorem delete_spec (t : ITier Int) (x : Iv Int) :
    (x ∈ t.es → t.deleteEntry x = .ok { t with es := t.es.erase x }) ∧
    ((∀ e ∈ t.es, ivEq e x = false) → t.deleteEntry x = .error .ValueError) := by
  constructor
  · intro hx
    simp [ITier.deleteEntry, deleteIv_of_mem t.es x hx, bind, Except.bind, pure, Except.pure]
  · intro h
    simp [ITier.deleteEntry, deleteIv_not_mem t.es x h, bind, Except.bind]

theorem deleteIvTol_first (pre post : List (Iv Int)) (p x : Iv Int) (hpre : ∀ q ∈ pre, ivEq q x = false)
    (hp : ivEq p x = true) : deleteIvTol (pre ++ p :: post) x = .ok (pre ++ post) := by
  induction pre with
  | nil => simp [deleteIvTol, hp]
  | cons q qs ih =>
    simp only [List.cons_append, deleteIvTol, hpre q (by simp), Bool.false_eq_true, if_false,
      ih (fun q' hq' => hpre q' (List.mem_cons_of_mem _ hq'))]
    rfl

/-- **the third case of `deleteEntry`** (besides `delete_spec`: "the argument is a member" / "no member equals it"):
the argument is NOT a member but some member is equal to it under the library's tolerant `Interval.__eq__`
(`math.isclose` on both times, same label) — then the FIRST such member is removed, nothing is raised.  This is the
library's notion of "the given entry"; replayed: `IntervalTier('T',[(1.0,2.0,'a')],0,10).deleteEntry(Interval(1.0000000001,2.0,'a'))`
leaves the tier empty, `Interval(1.00001,2.0,'a')` raises ValueError. -/
theorem delete_tolerant (t : ITier Int) (x : Iv Int) (hx : x ∉ t.es) (pre post : List (Iv Int)) (p : Iv Int)
    (hes : t.es = pre ++ p :: post) (hpre : ∀ q ∈ pre, ivEq q x = false) (hp : ivEq p x = true) :
    t.deleteEntry x = .ok { t with es := pre ++ post } := by
  simp only [ITier.deleteEntry, deleteIv, eraseSameIv_none t.es x hx]
  rw [hes, deleteIvTol_first pre post p x hpre hp]
  rfl

/-- a deletion keeps the tier well-formed (span untouched) -/
theorem delete_wf (t : ITier Int) (hwf : t.WF) (x : Iv Int) : ({ t with es := t.es.erase x } : ITier Int).WF := by
  have hsub : ∀ y ∈ t.es.erase x, y ∈ t.es := fun y hy => List.mem_of_mem_erase hy
  exact ⟨fun y hy => hwf.pos y (hsub y hy), hwf.disj.sublist List.erase_sublist,
    fun y hy => hwf.inLo y (hsub y hy), fun y hy => hwf.inHi y (hsub y hy),
    fun y hy => hwf.stripped y (hsub y hy), hwf.span⟩

/-! ## histories: every insert/delete sequence keeps the tier well-formed -/

inductive Op
  | insert (x : Iv Int) (mode : InsMode)
  | delete (x : Iv Int)

def step (t : ITier Int) : Op → Except Err (ITier Int)
  | .insert x m => t.insertEntry x m
  | .delete x => t.deleteEntry x

/-- a failing operation leaves the tier as it was -/
def run (t : ITier Int) : List Op → ITier Int
  | [] => t
  | op :: ops => match step t op with
    | .ok t' => run t' ops
    | .error _ => run t ops

/-- **one step, no side condition**: whatever entry is inserted (any times, any label, any mode) or deleted, a
result that `insertEntry` / `deleteEntry` returns for a well-formed tier is well-formed (a zero-length or reversed
entry returns nothing: `insert_rejects`) -/
theorem step_wf (t : ITier Int) (hwf : t.WF) (op : Op)
    (t' : ITier Int) (h : step t op = .ok t') : t'.WF := by
  cases op with
  | delete x =>
    simp only [step, ITier.deleteEntry, bind, Except.bind] at h
    by_cases hx : x ∈ t.es
    · rw [deleteIv_of_mem t.es x hx] at h
      simp only [pure, Except.pure, Except.ok.injEq] at h; subst h
      exact delete_wf t hwf x
    · -- some tolerant match may still exist; whichever entry is removed, a sublist of a WF list is WF
      cases hd : deleteIv t.es x with
      | error e => rw [hd] at h; simp at h
      | ok es' =>
        rw [hd] at h
        simp only [pure, Except.pure, Except.ok.injEq] at h; subst h
        have hs := deleteIv_sublist t.es x es' hd
        exact ⟨fun y hy => hwf.pos y (hs.subset hy), hwf.disj.sublist hs,
          fun y hy => hwf.inLo y (hs.subset hy), fun y hy => hwf.inHi y (hs.subset hy),
          fun y hy => hwf.stripped y (hs.subset hy), hwf.span⟩
  | insert x m =>
    simp only [step] at h
    have hx : x.s < x.e := by
      apply Classical.byContradiction
      intro hc
      rw [insert_rejects t x m (by omega)] at h; cases h
    by_cases hcol : colliding t x = []
    · have hfree : ∀ iv ∈ t.es, iv.e ≤ x.s ∨ x.e ≤ iv.s := by
        intro iv hiv
        have := List.filter_eq_nil_iff.1 hcol iv hiv
        simp [ov] at this; omega
      obtain ⟨t'', e, w, _⟩ := insert_nocollision t hwf x hx m hfree
      rw [h] at e; cases e; exact w
    · cases m with
      | replace =>
        obtain ⟨t'', e, w, _⟩ := insert_replace t hwf x hx hcol
        rw [h] at e; cases e; exact w
      | merge =>
        obtain ⟨_, _, _, t'', e, w, _⟩ := insert_merge t hwf x hx hcol
        rw [h] at e; cases e; exact w
      | error =>
        obtain ⟨iv, hiv⟩ := List.exists_mem_of_ne_nil _ hcol
        have hm := List.mem_filter.1 hiv
        have := insert_error t hwf x hx iv hm.1 (by simpa [ov] using hm.2)
        rw [h] at this; cases this

/-- **histories**: after ANY sequence of inserts and deletes (of any length, arbitrary entries, labels and modes)
the tier is well-formed (time order, no overlap, inside its span, stripped labels) -/
theorem run_wf (t : ITier Int) (hwf : t.WF) (ops : List Op) : (run t ops).WF := by
  induction ops generalizing t with
  | nil => exact hwf
  | cons op ops ih =>
    simp only [run]
    cases hs : step t op with
    | ok t' => exact ih t' (step_wf t hwf op t' hs)
    | error e => exact ih t hwf

/-! ## point tiers -/

theorem pinsert_nocollision (t : PTier Int) (x : Pt Int) (mode : InsMode) (hfree : ∀ p ∈ t.ps, p.t ≠ x.t) :
    t.insertEntry x mode = .ok (growSpanP t (sortPts (t.ps ++ [{ x with l := pyStrip x.l }]))) := by
  unfold PTier.insertEntry
  have : t.ps.filter (fun p => p.t == x.t) = [] := by
    rw [List.filter_eq_nil_iff]; intro p hp; simpa using hfree p hp
  simp [this, bind, Except.bind, pure, Except.pure]

theorem pinsert_error (t : PTier Int) (x : Pt Int) (p : Pt Int) (hp : p ∈ t.ps) (hpt : p.t = x.t) :
    t.insertEntry x .error = .error .CollisionError := by
  unfold PTier.insertEntry
  have hne : (t.ps.filter (fun q => q.t == x.t)).isEmpty = false := by
    cases hf : t.ps.filter (fun q => q.t == x.t) with
    | nil => rw [List.filter_eq_nil_iff] at hf; have := hf p hp; simp [hpt] at this
    | cons a as => rfl
  simp [hne, bind, Except.bind, throw, throwThe, MonadExceptOf.throw]

/-! ## non-vacuity -/
example : C07.exTier.WF := C07.exTier_wf
/-- a history on a tier with two tolerantly-equal entries (outside the former separation hypothesis): delete the
second of the close pair, then insert — with an unstripped label — over the place of both in `replace` mode -/
example : (run C07.closeTier
    [.delete ⟨10000000005, 10000000010, "x"⟩, .insert ⟨10000000000, 10000000010, " n "⟩ .replace]).WF :=
  run_wf _ C07.closeTier_wf _
#guard (run C07.closeTier
    [.delete ⟨10000000005, 10000000010, "x"⟩, .insert ⟨10000000000, 10000000010, " n "⟩ .replace]).es ==
  [⟨0, 10000000000, "a"⟩, ⟨10000000000, 10000000010, "n"⟩, ⟨10000000010, 20000000000, "b"⟩]
#guard (C07.exTier.insertEntry ⟨40, 40, "z"⟩ .merge).toOption.isNone
#guard (C07.exTier.insertEntry ⟨50, 40, "z"⟩ .replace).toOption.isNone
#guard (C07.closeTier.deleteEntry ⟨10000000005, 10000000010, "x"⟩).toOption.map (·.es) ==
  some [⟨0, 10000000000, "a"⟩, ⟨10000000000, 10000000005, "x"⟩, ⟨10000000010, 20000000000, "b"⟩]
#guard (C07.exTier.insertEntry ⟨20, 85, "n"⟩ .merge).toOption.map (fun t => (t.es, t.lo, t.hi)) ==
  some ([⟨10, 90, "a-n-b-c"⟩], 0, 100)
#guard (C07.exTier.insertEntry ⟨20, 85, "n"⟩ .replace).toOption.map (·.es) == some [⟨20, 85, "n"⟩]
#guard (C07.exTier.insertEntry ⟨60, 80, "n"⟩ .error).toOption.map (·.es) ==
  some [⟨10, 30, "a"⟩, ⟨30, 60, "b"⟩, ⟨60, 80, "n"⟩, ⟨80, 90, "c"⟩]
#guard (C07.exTier.insertEntry ⟨95, 120, "n"⟩ .error).toOption.map (fun t => (t.lo, t.hi)) == some (0, 120)

end C11
