/-! # C19 — property theorems (to be filled) -/
