import PraatModel.Klatt
import PraatModel.Lemmas.Strip
import PraatModel.Lemmas.KlattStr
import PraatModel.Lemmas.KlattLines
import PraatModel.Props.C19Clean
import PraatModel.Props.C19PointShort
import PraatModel.Props.C19PointLong

/-! # C19 — KlattGrid and point-object files round-trip every number exactly

Theorems about the executable model `PraatModel/Klatt.lean`, over all texts (`List Char`) and all
numeral strings.  Numerals are opaque: a numeral is any string that `float()` accepts (`fclass`) and
`strip()` leaves alone; CPython's `repr`/`float` stay outside (trusted, sampled by the harness).
-/

namespace C19
open Klatt

/-- one point of a point list as `_processSectionData` sees it:
`A = B⏎ C = D⏎` — `A` is everything up to the first `=` (the `points [i]:` row and `    number `) -/
structure PRow where
  A : Txt
  B : Txt
  C : Txt
  D : Txt

def PRow.text (r : PRow) : Txt := r.A ++ '=' :: (r.B ++ '\n' :: (r.C ++ '=' :: (r.D ++ ['\n'])))

def PRow.Good (r : PRow) : Prop :=
  '=' ∉ r.A ∧ '\n' ∉ r.B ∧ '=' ∉ r.C ∧ '\n' ∉ r.D ∧
  (fclass (stripList r.B)).isSome ∧ (fclass (stripList r.D)).isSome

theorem floatTok_ok (n : Txt) (h : (fclass n).isSome) : floatTok n = .ok n := by
  unfold floatTok
  cases hf : fclass n with
  | none => rw [hf] at h; simp at h
  | some _ => rfl

theorem psdLoop_rows (rows : List PRow) : ∀ (pre j : Txt) (acc : List (Txt × Txt)) (fuel : Nat),
    '=' ∉ j → (∀ r ∈ rows, r.Good) → rows.length < fuel →
    psdLoop fuel (pre ++ (j ++ (rows.map PRow.text).flatten)) pre.length acc
      = .ok (acc ++ rows.map fun r => (stripList r.B, stripList r.D)) := by
  induction rows with
  | nil =>
    intro pre j acc fuel hj _ hf
    obtain ⟨f, rfl⟩ : ∃ f, fuel = f + 1 := ⟨fuel - 1, by simp at hf; omega⟩
    simp only [List.map_nil, List.flatten_nil, List.append_nil]
    rw [psdLoop, pyFind_at_none '=' _ pre j _ rfl rfl hj]
    rfl
  | cons r rs ih =>
    intro pre j acc fuel hj hg hf
    obtain ⟨f, rfl⟩ : ∃ f, fuel = f + 1 := ⟨fuel - 1, by simp at hf; omega⟩
    obtain ⟨hA, hB, hC, hD, hfB, hfD⟩ := hg r (by simp)
    generalize hrest : (rs.map PRow.text).flatten = rest
    generalize hs : pre ++ (j ++ ((r :: rs).map PRow.text).flatten) = s
    have hs0 : s = pre ++ ((j ++ r.A) ++ '=' :: (r.B ++ '\n' :: (r.C ++ '=' :: (r.D ++ '\n' :: rest)))) := by
      rw [← hs, ← hrest]; simp [PRow.text]
    have hjA : '=' ∉ j ++ r.A := by simp [hj, hA]
    rw [psdLoop, pyFind_at '=' s pre _ _ _ hs0 rfl hjA]
    simp only
    -- first newline
    have hs1 : s = (pre ++ (j ++ r.A) ++ ['=']) ++ (r.B ++ '\n' :: (r.C ++ '=' :: (r.D ++ '\n' :: rest))) := by
      rw [hs0]; simp
    have hk1 : pre.length + (j ++ r.A).length + 1 = (pre ++ (j ++ r.A) ++ ['=']).length := by simp; omega
    rw [pyFind_at '\n' s _ _ _ _ hs1 hk1 hB]
    simp only
    rw [pySlice_at s _ r.B _ _ _ hs1 hk1 rfl, floatTok_ok _ hfB]
    -- second '='
    have hs2 : s = (pre ++ (j ++ r.A) ++ ['='] ++ r.B) ++ (('\n' :: r.C) ++ '=' :: (r.D ++ '\n' :: rest)) := by
      rw [hs0]; simp
    have hk2 : pre.length + (j ++ r.A).length + 1 + r.B.length = (pre ++ (j ++ r.A) ++ ['='] ++ r.B).length := by
      simp; omega
    have hnC : '=' ∉ '\n' :: r.C := by simp [hC]
    rw [pyFind_at '=' s _ _ _ _ hs2 hk2 hnC]
    simp only
    have hs3 : s = (pre ++ (j ++ r.A) ++ ['='] ++ r.B ++ ('\n' :: r.C) ++ ['=']) ++ (r.D ++ '\n' :: rest) := by
      rw [hs0]; simp
    have hk3 : pre.length + (j ++ r.A).length + 1 + r.B.length + ('\n' :: r.C).length + 1
        = (pre ++ (j ++ r.A) ++ ['='] ++ r.B ++ ('\n' :: r.C) ++ ['=']).length := by
      simp; omega
    rw [pyFind_at '\n' s _ _ _ _ hs3 hk3 hD]
    simp only
    rw [pySlice_at s _ r.D _ _ _ hs3 hk3 rfl, floatTok_ok _ hfD]
    simp only [bind, Except.bind]
    -- next round
    have hs4 : s = (pre ++ (j ++ r.A) ++ ['='] ++ r.B ++ ('\n' :: r.C) ++ ['='] ++ r.D) ++ (['\n'] ++ (rs.map PRow.text).flatten) := by
      rw [hs0, hrest]; simp
    have hk4 : pre.length + (j ++ r.A).length + 1 + r.B.length + ('\n' :: r.C).length + 1 + r.D.length
        = (pre ++ (j ++ r.A) ++ ['='] ++ r.B ++ ('\n' :: r.C) ++ ['='] ++ r.D).length := by
      simp; omega
    rw [hk4, hs4, ih _ ['\n'] _ f (by simp) (fun r' hr' => hg r' (by simp [hr'])) (by simp at hf; omega)]
    simp

/-! ## (a) `_processSectionData` on the writer's point rows -/

/-- a numeral: a `float()` literal that `strip()` leaves unchanged (hence without blanks at the ends, `=` or
newline: the third conjunct is a consequence of the first two, `numeral_iff`) -/
def Numeral (n : Txt) : Prop := stripList n = n ∧ (fclass n).isSome ∧ '\n' ∉ n

theorem Numeral.of_lit {n : Txt} (h : Lit n) : Numeral n := ⟨h.1, h.2, h.not_mem '\n' (by decide)⟩
theorem Numeral.lit {n : Txt} (h : Numeral n) : Lit n := ⟨h.1, h.2.1⟩
/-- `Numeral` is exactly `Lit`: any string `float()` accepts and `strip()` leaves alone -/
theorem numeral_iff (n : Txt) : Numeral n ↔ Lit n := ⟨Numeral.lit, Numeral.of_lit⟩

/-- how `_processSectionData` sees the point `(n, v)` written with indentation `ind` as number `i + 1` -/
def rowOf (ind : Txt) (i : Nat) (p : Txt × Txt) : PRow :=
  ⟨ind ++ t "points [" ++ natDec (i + 1) ++ t "]:" ++ '\n' :: (ind ++ t "    number "), ' ' :: p.1,
   ind ++ t "    value ", ' ' :: p.2⟩

def rowsOf (ind : Txt) : Nat → List (Txt × Txt) → List PRow
  | _, [] => []
  | i, p :: rest => rowOf ind i p :: rowsOf ind (i + 1) rest

theorem rowsOf_map (ind : Txt) (i : Nat) (pts : List (Txt × Txt)) :
    (rowsOf ind i pts).map (fun r => (stripList r.B, stripList r.D)) = pts.map fun p => (stripList (' ' :: p.1), stripList (' ' :: p.2)) := by
  induction pts generalizing i with
  | nil => rfl
  | cons p rest ih => simp [rowsOf, rowOf, ih]

theorem rowsOf_length (ind : Txt) (i : Nat) (pts : List (Txt × Txt)) : (rowsOf ind i pts).length = pts.length := by
  induction pts generalizing i with
  | nil => rfl
  | cons p rest ih => simp [rowsOf, ih]

theorem pointRows_text (ind : Txt) (i : Nat) (pts : List (Txt × Txt)) :
    ((pointRows ind i pts).map (· ++ ['\n'])).flatten = ((rowsOf ind i pts).map PRow.text).flatten := by
  induction pts generalizing i with
  | nil => rfl
  | cons p rest ih =>
    obtain ⟨n, v⟩ := p
    simp only [pointRows, rowsOf, List.map_cons, List.flatten_cons, ih]
    have e1 : t "    number = " = t "    number " ++ '=' :: [' '] := by decide
    have e2 : t "    value = " = t "    value " ++ '=' :: [' '] := by decide
    simp [rowOf, PRow.text, e1, e2]

theorem stripList_blank_cons (n : Txt) (h : stripList n = n) : stripList (' ' :: n) = n := by
  have := stripList_pad [' '] n [] (by intro c hc; simp at hc; subst hc; decide) (by intro c hc; simp at hc) h
  simpa using this

theorem isSome_fclass_not_nil : fclass [] = none := by decide

/-- **(a)**: applied to the text the writer emits for a point list
`points [i]:⏎ number = nᵢ⏎ value = vᵢ` (any indentation not containing `=`, any numerals), the scanner
returns exactly the list of `(nᵢ, vᵢ)` — for every list length. -/
theorem processSectionData_written (ind : Txt) (hind : '=' ∉ ind) (pts : List (Txt × Txt))
    (hn : ∀ p ∈ pts, Lit p.1 ∧ Lit p.2) :
    processSectionData (join ['\n'] (pointRows ind 0 pts)) = .ok pts := by
  have hn : ∀ p ∈ pts, Numeral p.1 ∧ Numeral p.2 := fun p hp => ⟨.of_lit (hn p hp).1, .of_lit (hn p hp).2⟩
  unfold processSectionData
  cases hp : pts with
  | nil => simp [pointRows, join, psdLoop, pyFind, findAt, List.isPrefixOf]; rfl
  | cons p0 rest0 =>
    rw [← hp]
    have hne : pointRows ind 0 pts ≠ [] := by rw [hp]; obtain ⟨a, b⟩ := p0; simp [pointRows]
    simp only
    rw [join_append_sep ['\n'] _ hne, pointRows_text]
    have hgood : ∀ r ∈ rowsOf ind 0 pts, r.Good := by
      have : ∀ (i : Nat) (ps : List (Txt × Txt)), (∀ p ∈ ps, Numeral p.1 ∧ Numeral p.2) → ∀ r ∈ rowsOf ind i ps, r.Good := by
        intro i ps
        induction ps generalizing i with
        | nil => intro _ r hr; simp [rowsOf] at hr
        | cons p ps ih =>
          intro hps r hr
          rcases List.mem_cons.1 hr with rfl | hr
          · obtain ⟨⟨s1, f1, n1⟩, ⟨s2, f2, n2⟩⟩ := hps p (by simp)
            refine ⟨?_, ?_, ?_, ?_, ?_, ?_⟩
            · have := eq_not_mem_natDec (i + 1)
              have d1 : '=' ∉ t "points [" := by decide
              have d2 : '=' ∉ t "]:" := by decide
              have d3 : '=' ∉ t "    number " := by decide
              simp [rowOf, hind, this, d1, d2, d3]
            · simp [rowOf, n1]
            · have d3 : '=' ∉ t "    value " := by decide
              simp [rowOf, hind, d3]
            · simp [rowOf, n2]
            · simp only [rowOf]; rw [stripList_blank_cons _ s1]; exact f1
            · simp only [rowOf]; rw [stripList_blank_cons _ s2]; exact f2
          · exact ih (i + 1) (fun q hq => hps q (by simp [hq])) r hr
      exact this 0 pts hn
    have hfuel : (rowsOf ind 0 pts).length < (((rowsOf ind 0 pts).map PRow.text).flatten).length + 1 := by
      have : ∀ (rs : List PRow), rs.length ≤ ((rs.map PRow.text).flatten).length := by
        intro rs
        induction rs with
        | nil => simp
        | cons r rs ih =>
          rw [List.map_cons, List.flatten_cons, List.length_append, List.length_cons]
          have : 1 ≤ r.text.length := by simp [PRow.text]; omega
          omega
      have := this (rowsOf ind 0 pts); omega
    have := psdLoop_rows (rowsOf ind 0 pts) [] [] [] _ (by simp) hgood hfuel
    simp only [List.nil_append, List.length_nil] at this
    rw [this, rowsOf_map]
    congr 1
    have : ∀ (ps : List (Txt × Txt)), (∀ p ∈ ps, Numeral p.1 ∧ Numeral p.2) →
        ps.map (fun p => (stripList (' ' :: p.1), stripList (' ' :: p.2))) = ps := by
      intro ps hps
      induction ps with
      | nil => rfl
      | cons p ps ih =>
        obtain ⟨⟨s1, _, _⟩, ⟨s2, _, _⟩⟩ := hps p (by simp)
        simp only [List.map_cons, stripList_blank_cons _ s1, stripList_blank_cons _ s2]
        rw [ih (fun q hq => hps q (by simp [hq]))]
    exact this pts hn

/-! ## (f) `modifySubtiers` / `modifyValues` -/

/-- `modifyValues f` applies `f` to every value exactly once, in place, and touches nothing else of the tier -/
theorem modifyValues_spec (f : Txt → Txt) (p : PT) :
    (p.modifyValues f).name = p.name ∧ (p.modifyValues f).xmin = p.xmin ∧ (p.modifyValues f).xmax = p.xmax ∧
    (p.modifyValues f).pts.map (·.1) = p.pts.map (·.1) ∧
    (p.modifyValues f).pts.map (·.2) = p.pts.map (fun q => f q.2) ∧
    (p.modifyValues f).pts.length = p.pts.length := by
  refine ⟨rfl, rfl, rfl, ?_, ?_, ?_⟩ <;> simp [PT.modifyValues, List.map_map, Function.comp_def]

/-- **(f)**: `modifySubtiers name f` succeeds exactly when an intermediate tier of that name exists; it then
maps `f` over every value of every sub tier of the addressed intermediate tier exactly once (the `k`-th value
of the result is `f` of the `k`-th value of the input), leaves all times, names and spans of those sub tiers
untouched, and leaves every other intermediate tier as it is. -/
theorem modify_spec (its : List IT) (name : Txt) (f : Txt → Txt) :
    (name ∉ its.map (·.name) → modifySubtiers its name f = .error .keyError) ∧
    (name ∈ its.map (·.name) → ∃ its', modifySubtiers its name f = .ok its' ∧ its'.length = its.length ∧
      ∀ k (h : k < its.length) (h' : k < its'.length),
        (its'[k]).name = (its[k]).name ∧
        ((its[k]).name ≠ name → its'[k] = its[k]) ∧
        ((its[k]).name = name →
          (its'[k]).subs.length = (its[k]).subs.length ∧
          ∀ j (hj : j < (its[k]).subs.length) (hj' : j < (its'[k]).subs.length),
            let p := (its[k]).subs[j]; let q := (its'[k]).subs[j]
            q.name = p.name ∧ q.xmin = p.xmin ∧ q.xmax = p.xmax ∧
            q.pts.map (·.1) = p.pts.map (·.1) ∧ q.pts.map (·.2) = p.pts.map (fun r => f r.2))) := by
  constructor
  · intro h
    have : (its.map (·.name)).contains name = false := by simpa using h
    simp only [modifySubtiers, this]; rfl
  · intro h
    have hc : (its.map (·.name)).contains name = true := by simpa using h
    refine ⟨_, by simp only [modifySubtiers, hc, if_true]; rfl, by simp, ?_⟩
    intro k hk hk'
    simp only [List.getElem_map]
    by_cases hn : (its[k]).name = name
    · simp only [hn, if_true, ne_eq, not_true_eq_false, false_implies, true_and, List.length_map]
      intro _ j hj hj'
      simp only [List.getElem_map]
      have := modifyValues_spec f ((its[k]).subs[j])
      exact ⟨this.1, this.2.1, this.2.2.1, this.2.2.2.1, this.2.2.2.2.1⟩
    · simp [hn]

/-- a function that is not the identity on some value is visibly applied: non-vacuity of `modify_spec` -/
example : modifySubtiers [⟨t "formants", [⟨t "formants [1]", t "0", t "1", [(t "0.5", t "55")]⟩]⟩,
                          ⟨t "bandwidths", [⟨t "bandwidths [1]", t "0", t "1", [(t "0.5", t "60")]⟩]⟩]
    (t "formants") (fun v => v ++ t "0")
    = .ok [⟨t "formants", [⟨t "formants [1]", t "0", t "1", [(t "0.5", t "550")]⟩]⟩,
           ⟨t "bandwidths", [⟨t "bandwidths [1]", t "0", t "1", [(t "0.5", t "60")]⟩]⟩] := by
  simp [modifySubtiers, PT.modifyValues, t]; rfl

/-! ## (b) the slices cut by the container bookkeeping -/

/-- the canonical names of intermediate tiers, in the order the reader builds them -/
def canon : List Txt := t "formants" :: subFilterList

/-- the rows of a sub tier in the file (`KlattSubPointTier.getAsText`, one entry per line) -/
def subLines (p : PT) : List Txt :=
  [p.name ++ t ":", t "    xmin = " ++ p.xmin, t "    xmax = " ++ p.xmax,
   t "    points: size = " ++ natDec p.pts.length] ++ pointRows (t "    ") 0 p.pts

theorem subText_eq (p : PT) : p.subText = join ['\n'] (subLines p) ++ ['\n'] := rfl

/-- header row of an intermediate tier as it stands in the file (after `_cleanNumericValues`: ` = `) -/
def hdrLine (i : IT) : Txt := i.name ++ t ": size = " ++ natDec i.subs.length

def itLines (i : IT) : List Txt := hdrLine i :: (i.subs.map subLines).flatten
def bodyLines (its : List IT) : List Txt := (its.map itLines).flatten

/-- numerals of a KlattGrid file: float literals, stripped, on one line, and — as every float literal —
without the letters `s` and `w` (so no tier keyword can hide in a number) -/
def KNumeral (n : Txt) : Prop := Numeral n ∧ 's' ∉ n ∧ 'w' ∉ n

theorem KNumeral.of_lit {n : Txt} (h : Lit n) : KNumeral n :=
  ⟨.of_lit h, h.not_mem 's' (by decide), h.not_mem 'w' (by decide)⟩
/-- `KNumeral` is exactly `Lit`: no float literal contains `s` or `w` (`fclass_chars`) -/
theorem knumeral_iff (n : Txt) : KNumeral n ↔ Lit n := ⟨fun h => h.1.lit, KNumeral.of_lit⟩

structure PTShape (iname : Txt) (p : PT) : Prop where
  name : ∃ k, p.name = iname ++ t " [" ++ natDec k ++ t "]"
  xmin : KNumeral p.xmin
  xmax : KNumeral p.xmax
  pts : ∀ q ∈ p.pts, KNumeral q.1 ∧ KNumeral q.2

/-- the writer's shape of the intermediate tiers of one container section: distinct tiers with Praat's names
(`canon`) **in any order**, sub tiers named `name [k]`, numerals -/
structure Shape (its : List IT) : Prop where
  nodup : (its.map (·.name)).Nodup
  canonical : ∀ i ∈ its, i.name ∈ canon
  subs : ∀ i ∈ its, ∀ p ∈ i.subs, PTShape i.name p

/-! ### keyword occurrences, line by line -/

theorem canon_kw_chars : ∀ kw ∈ canon, ('f' ∈ kw ∧ 's' ∈ kw) ∨ 'w' ∈ kw := by decide
theorem canon_kw_nonl : ∀ kw ∈ canon, kw ≠ [] ∧ '\n' ∉ kw ∧ ':' ∉ kw ∧ ' ' ∉ kw := by decide

/-- occurrences of a keyword inside a tier name: at most one, and exactly the table below -/
theorem canon_table : ∀ kw ∈ canon, ∀ nm ∈ canon,
    (findAll kw nm).length = if (kw = nm ∨ (kw = t "formants" ∧ nm ≠ t "bandwidths")) then 1 else 0 := by decide

theorem noHit (kw : Txt) (hkw : kw ∈ canon) (l : Txt) (h : ('s' ∉ l ∧ 'w' ∉ l) ∨ ('f' ∉ l ∧ 'w' ∉ l)) :
    findAll kw l = [] := by
  unfold findAll
  rcases canon_kw_chars kw hkw with ⟨hf, hs⟩ | hw
  · rcases h with ⟨h1, _⟩ | ⟨h1, _⟩
    · exact findAllAt_none kw l 0 's' hs h1
    · exact findAllAt_none kw l 0 'f' hf h1
  · rcases h with ⟨_, h2⟩ | ⟨_, h2⟩ <;> exact findAllAt_none kw l 0 'w' hw h2

/-- characters a newline-terminated list of lines occupies -/
def span : List Txt → Int
  | [] => 0
  | l :: ls => (l.length : Int) + 1 + span ls

theorem span_append (a b : List Txt) : span (a ++ b) = span a + span b := by
  induction a with
  | nil => simp [span]
  | cons l ls ih => simp only [List.cons_append, span, ih]; omega

theorem span_join (ls : List Txt) (h : ls ≠ []) : ((join ['\n'] ls).length : Int) + 1 = span ls := by
  induction ls with
  | nil => exact absurd rfl h
  | cons l rest ih =>
    cases rest with
    | nil => simp [join, span]
    | cons l2 r2 =>
      rw [join_cons_cons]
      have := ih (by simp)
      simp only [List.length_append, List.length_cons, List.length_nil, span] at this ⊢
      omega

theorem lineHits_append (kw : Txt) (a b : List Txt) (o : Int) :
    lineHits kw (a ++ b) o = lineHits kw a o ++ lineHits kw b (o + span a) := by
  induction a generalizing o with
  | nil => simp [lineHits, span]
  | cons l ls ih =>
    simp only [List.cons_append, lineHits, ih, span, List.append_assoc]
    have : o + ↑l.length + 1 + span ls = o + (↑l.length + 1 + span ls) := by omega
    rw [this]

theorem lineHits_none (kw : Txt) (ls : List Txt) (o : Int) (h : ∀ l ∈ ls, findAll kw l = []) : lineHits kw ls o = [] := by
  induction ls generalizing o with
  | nil => rfl
  | cons l rest ih =>
    simp only [lineHits, h l (by simp), List.map_nil, List.nil_append]
    exact ih _ (fun x hx => h x (by simp [hx]))

/-- a tier name followed by `:`/blank and keyword-free text carries exactly the name's occurrences -/
theorem nameLine_hits (kw : Txt) (hkw : kw ∈ canon) (nm S : Txt) (c : Char) (hc : c = ':' ∨ c = ' ')
    (hf : 'f' ∉ c :: S) (hw : 'w' ∉ c :: S) : findAll kw (nm ++ c :: S) = findAll kw nm := by
  obtain ⟨_, _, h1, h2⟩ := canon_kw_nonl kw hkw
  have hck : c ∉ kw := by rcases hc with rfl | rfl <;> assumption
  unfold findAll
  rcases canon_kw_chars kw hkw with ⟨hfk, _⟩ | hwk
  · exact findAllAt_append_suffix kw nm S c 'f' 0 hck hfk hf
  · exact findAllAt_append_suffix kw nm S c 'w' 0 hck hwk hw

theorem digits_no (x : Char) (hx : isDigit x = false) (n : Nat) : x ∉ natDec n :=
  not_mem_of_digits x hx _ (natDec_digits n)

theorem pointRows_noHit (kw : Txt) (hkw : kw ∈ canon) (pts : List (Txt × Txt)) (i : Nat)
    (h : ∀ q ∈ pts, KNumeral q.1 ∧ KNumeral q.2) : ∀ l ∈ pointRows (t "    ") i pts, findAll kw l = [] := by
  induction pts generalizing i with
  | nil => intro l hl; simp [pointRows] at hl
  | cons q rest ih =>
    obtain ⟨n, v⟩ := q
    obtain ⟨⟨_, hns, hnw⟩, ⟨_, hvs, hvw⟩⟩ := h (n, v) (by simp)
    intro l hl
    simp only [pointRows, List.mem_cons] at hl
    rcases hl with rfl | rfl | rfl | hl
    · apply noHit kw hkw; right
      have d1 := digits_no 'f' (by decide) (i + 1)
      have d2 := digits_no 'w' (by decide) (i + 1)
      have a1 : 'f' ∉ t "    " ++ t "points [" := by decide
      have a2 : 'w' ∉ t "    " ++ t "points [" := by decide
      have b1 : 'f' ∉ t "]:" := by decide
      have b2 : 'w' ∉ t "]:" := by decide
      simp only [List.mem_append, not_or] at a1 a2 ⊢
      exact ⟨⟨⟨a1, d1⟩, b1⟩, ⟨⟨a2, d2⟩, b2⟩⟩
    · apply noHit kw hkw; left
      have a1 : 's' ∉ t "    " ++ t "    number = " := by decide
      have a2 : 'w' ∉ t "    " ++ t "    number = " := by decide
      simp only [List.mem_append, not_or] at a1 a2 ⊢
      exact ⟨⟨a1, hns⟩, ⟨a2, hnw⟩⟩
    · apply noHit kw hkw; left
      have a1 : 's' ∉ t "    " ++ t "    value = " := by decide
      have a2 : 'w' ∉ t "    " ++ t "    value = " := by decide
      simp only [List.mem_append, not_or] at a1 a2 ⊢
      exact ⟨⟨a1, hvs⟩, ⟨a2, hvw⟩⟩
    · exact ih (i + 1) (fun q hq => h q (by simp [hq])) l hl

/-- hits in the rows of one sub tier: only the name row, as often as the keyword occurs in the tier name -/
theorem subLines_hits (kw : Txt) (hkw : kw ∈ canon) (nm : Txt) (p : PT) (hp : PTShape nm p) (o : Int) :
    lineHits kw (subLines p) o = (findAll kw nm).map (fun _ => o) := by
  obtain ⟨⟨k, hk⟩, ⟨_, hs1, hw1⟩, ⟨_, hs2, hw2⟩, hpts⟩ := hp
  unfold subLines
  rw [show [p.name ++ t ":", t "    xmin = " ++ p.xmin, t "    xmax = " ++ p.xmax,
        t "    points: size = " ++ natDec p.pts.length] ++ pointRows (t "    ") 0 p.pts
      = [p.name ++ t ":"] ++ ([t "    xmin = " ++ p.xmin, t "    xmax = " ++ p.xmax,
        t "    points: size = " ++ natDec p.pts.length] ++ pointRows (t "    ") 0 p.pts) from rfl, lineHits_append]
  have h2 : lineHits kw ([t "    xmin = " ++ p.xmin, t "    xmax = " ++ p.xmax,
        t "    points: size = " ++ natDec p.pts.length] ++ pointRows (t "    ") 0 p.pts) (o + span [p.name ++ t ":"]) = [] := by
    apply lineHits_none
    intro l hl
    simp only [List.mem_append, List.mem_cons, List.not_mem_nil, or_false] at hl
    rcases hl with (rfl | rfl | rfl) | hl
    · apply noHit kw hkw; left
      have a1 : 's' ∉ t "    xmin = " := by decide
      have a2 : 'w' ∉ t "    xmin = " := by decide
      simp only [List.mem_append, not_or]; exact ⟨⟨a1, hs1⟩, ⟨a2, hw1⟩⟩
    · apply noHit kw hkw; left
      have a1 : 's' ∉ t "    xmax = " := by decide
      have a2 : 'w' ∉ t "    xmax = " := by decide
      simp only [List.mem_append, not_or]; exact ⟨⟨a1, hs2⟩, ⟨a2, hw2⟩⟩
    · apply noHit kw hkw; right
      have a1 : 'f' ∉ t "    points: size = " := by decide
      have a2 : 'w' ∉ t "    points: size = " := by decide
      have d1 := digits_no 'f' (by decide) p.pts.length
      have d2 := digits_no 'w' (by decide) p.pts.length
      simp only [List.mem_append, not_or]; exact ⟨⟨a1, d1⟩, ⟨a2, d2⟩⟩
    · exact pointRows_noHit kw hkw p.pts 0 hpts l hl
  rw [h2]
  simp only [lineHits, List.append_nil]
  congr 1
  have e : p.name ++ t ":" = nm ++ ' ' :: (t "[" ++ natDec k ++ t "]:") := by
    rw [hk]; simp [t]
  rw [e]
  have d1 := digits_no 'f' (by decide) k
  have d2 := digits_no 'w' (by decide) k
  apply nameLine_hits kw hkw nm _ ' ' (Or.inr rfl)
  · simp [t, d1]
  · simp [t, d2]

/-! ### the index lists -/

/-- index (of the preceding newline) of each sub tier's name row -/
def subStarts : List PT → Int → List Int
  | [], _ => []
  | p :: ps, o => o :: subStarts ps (o + span (subLines p))

/-- name rows of one intermediate tier: its header row and the name row of each sub tier -/
def tierStarts (i : IT) (o : Int) : List Int := o :: subStarts i.subs (o + ((hdrLine i).length + 1))

def tierSpan (i : IT) : Int := span (itLines i)

def groups : List IT → Int → List (Txt × List Int)
  | [], _ => []
  | i :: is, o => (i.name, tierStarts i o) :: groups is (o + tierSpan i)

/-- keyword `kw` occurs in the canonical tier name `nm` -/
def T (kw nm : Txt) : Bool := decide (kw = nm ∨ (kw = t "formants" ∧ nm ≠ t "bandwidths"))

theorem hits_of_table (kw nm : Txt) (hkw : kw ∈ canon) (hnm : nm ∈ canon) (o : Int) :
    (findAll kw nm).map (fun _ => o) = if T kw nm then [o] else [] := by
  have h := canon_table kw hkw nm hnm
  unfold T
  by_cases hc : (kw = nm ∨ (kw = t "formants" ∧ nm ≠ t "bandwidths"))
  · simp only [hc, if_true] at h ⊢
    match hl : findAll kw nm, h with
    | [x], _ => simp
  · simp only [hc, if_false] at h ⊢
    match hl : findAll kw nm, h with
    | [], _ => simp

theorem subs_hits (kw nm : Txt) (hkw : kw ∈ canon) (hnm : nm ∈ canon) (ps : List PT) (hps : ∀ p ∈ ps, PTShape nm p) (o : Int) :
    lineHits kw (ps.map subLines).flatten o = if T kw nm then subStarts ps o else [] := by
  induction ps generalizing o with
  | nil => simp [lineHits, subStarts]
  | cons p rest ih =>
    simp only [List.map_cons, List.flatten_cons, lineHits_append, subStarts]
    rw [subLines_hits kw hkw nm p (hps p (by simp)), hits_of_table kw nm hkw hnm, ih (fun q hq => hps q (by simp [hq]))]
    split <;> simp

theorem tier_hits (kw : Txt) (hkw : kw ∈ canon) (i : IT) (hnm : i.name ∈ canon) (hps : ∀ p ∈ i.subs, PTShape i.name p) (o : Int) :
    lineHits kw (itLines i) o = if T kw i.name then tierStarts i o else [] := by
  unfold itLines tierStarts
  simp only [lineHits]
  have e : hdrLine i = i.name ++ ':' :: (t " size = " ++ natDec i.subs.length) := by simp [hdrLine, t]
  have d1 := digits_no 'f' (by decide) i.subs.length
  have d2 := digits_no 'w' (by decide) i.subs.length
  have hh : findAll kw (hdrLine i) = findAll kw i.name := by
    rw [e]; apply nameLine_hits kw hkw _ _ ':' (Or.inl rfl)
    · simp [t, d1]
    · simp [t, d2]
  rw [hh, hits_of_table kw i.name hkw hnm, subs_hits kw i.name hkw hnm i.subs hps]
  have : o + ↑(hdrLine i).length + 1 = o + (↑(hdrLine i).length + 1) := by omega
  rw [this]
  split <;> simp

theorem mem_canon_of_shape {its : List IT} (h : Shape its) : ∀ i ∈ its, i.name ∈ canon := by
  intro i hi
  exact h.canonical i hi

theorem shape_tail {i : IT} {is : List IT} (h : Shape (i :: is)) : Shape is := by
  refine ⟨?_, fun j hj => h.canonical j (by simp [hj]), fun j hj => h.subs j (by simp [hj])⟩
  have := h.nodup
  simp only [List.map_cons] at this
  exact (List.nodup_cons.1 this).2

/-- **all hits of a keyword in a container body**: the name rows of the tiers whose name contains it -/
theorem body_hits (kw : Txt) (hkw : kw ∈ canon) (its : List IT) (h : Shape its) (o : Int) :
    lineHits kw (bodyLines its) o = (groups its o).flatMap fun g => if T kw g.1 then g.2 else [] := by
  induction its generalizing o with
  | nil => simp [bodyLines, lineHits, groups]
  | cons i is ih =>
    have hi := mem_canon_of_shape h i (by simp)
    simp only [bodyLines, List.map_cons, List.flatten_cons, lineHits_append, groups, List.flatMap_cons]
    rw [tier_hits kw hkw i hi (h.subs i (by simp))]
    have := ih (shape_tail h) (o + tierSpan i)
    simp only [bodyLines, tierSpan] at this
    rw [this]; rfl

/-! ### the starts are strictly increasing -/

theorem span_nonneg (ls : List Txt) : 0 ≤ span ls := by
  induction ls with
  | nil => simp [span]
  | cons l rest ih => simp only [span]; omega

theorem span_subLines_pos (p : PT) : 0 < span (subLines p) := by
  unfold subLines
  simp only [List.cons_append, span]
  have := span_nonneg ([] ++ pointRows (t "    ") 0 p.pts)
  omega

def subsSpan (ps : List PT) : Int := span (ps.map subLines).flatten

theorem subsSpan_cons (p : PT) (ps : List PT) : subsSpan (p :: ps) = span (subLines p) + subsSpan ps := by
  simp [subsSpan, span_append]

theorem subStarts_bounds (ps : List PT) (o : Int) : ∀ v ∈ subStarts ps o, o ≤ v ∧ v < o + subsSpan ps := by
  induction ps generalizing o with
  | nil => intro v hv; simp [subStarts] at hv
  | cons p rest ih =>
    intro v hv
    have hp := span_subLines_pos p
    have hr : 0 ≤ subsSpan rest := span_nonneg _
    rw [subsSpan_cons]
    simp only [subStarts, List.mem_cons] at hv
    rcases hv with rfl | hv
    · omega
    · have := ih _ v hv; omega

theorem subStarts_sorted (ps : List PT) (o : Int) : (subStarts ps o).Pairwise (· < ·) := by
  induction ps generalizing o with
  | nil => simp [subStarts]
  | cons p rest ih =>
    simp only [subStarts, List.pairwise_cons]
    refine ⟨?_, ih _⟩
    intro v hv
    have := subStarts_bounds rest _ v hv
    have hp := span_subLines_pos p
    omega

theorem tierSpan_eq (i : IT) : tierSpan i = ((hdrLine i).length + 1) + subsSpan i.subs := by
  simp [tierSpan, itLines, span, subsSpan]

theorem tierStarts_bounds (i : IT) (o : Int) : ∀ v ∈ tierStarts i o, o ≤ v ∧ v < o + tierSpan i := by
  intro v hv
  have hr : 0 ≤ subsSpan i.subs := span_nonneg _
  rw [tierSpan_eq]
  simp only [tierStarts, List.mem_cons] at hv
  rcases hv with rfl | hv
  · omega
  · have := subStarts_bounds _ _ v hv; omega

theorem tierStarts_sorted (i : IT) (o : Int) : (tierStarts i o).Pairwise (· < ·) := by
  simp only [tierStarts, List.pairwise_cons]
  refine ⟨?_, subStarts_sorted _ _⟩
  intro v hv
  have := subStarts_bounds _ _ v hv; omega

theorem span_bodyLines_cons (i : IT) (is : List IT) : span (bodyLines (i :: is)) = tierSpan i + span (bodyLines is) := by
  simp [bodyLines, span_append, tierSpan]

theorem groups_bounds (its : List IT) (o : Int) : ∀ g ∈ groups its o, ∀ v ∈ g.2, o ≤ v ∧ v < o + span (bodyLines its) := by
  induction its generalizing o with
  | nil => intro g hg; simp [groups] at hg
  | cons i is ih =>
    intro g hg v hv
    rw [span_bodyLines_cons]
    have h1 : 0 ≤ span (bodyLines is) := span_nonneg _
    have h2 : 0 ≤ tierSpan i := span_nonneg _
    simp only [groups, List.mem_cons] at hg
    rcases hg with rfl | hg
    · have := tierStarts_bounds i o v hv; omega
    · have := ih _ g hg v hv; omega

theorem groups_names (its : List IT) (o : Int) : (groups its o).map (·.1) = its.map (·.name) := by
  induction its generalizing o with
  | nil => rfl
  | cons i is ih => simp [groups, ih]

theorem groups_disjoint (its : List IT) (o : Int) : ∀ g ∈ groups its o, ∀ g' ∈ groups its o, g.1 ≠ g'.1 →
    ∀ v ∈ g.2, v ∉ g'.2 := by
  induction its generalizing o with
  | nil => intro g hg; simp [groups] at hg
  | cons i is ih =>
    intro g hg g' hg' hne v hv hv'
    simp only [groups, List.mem_cons] at hg hg'
    rcases hg with rfl | hg <;> rcases hg' with rfl | hg'
    · exact hne rfl
    · have a := tierStarts_bounds i o v hv
      have b := groups_bounds is _ g' hg' v hv'
      omega
    · have a := tierStarts_bounds i o v hv'
      have b := groups_bounds is _ g hg v hv
      omega
    · exact ih _ g hg g' hg' hne v hv hv'

theorem starts_sorted (its : List IT) (o : Int) : ((groups its o).flatMap (·.2)).Pairwise (· < ·) := by
  induction its generalizing o with
  | nil => simp [groups]
  | cons i is ih =>
    simp only [groups, List.flatMap_cons, List.pairwise_append]
    refine ⟨tierStarts_sorted i o, ih _, ?_⟩
    intro a ha b hb
    obtain ⟨g, hg, hbg⟩ := List.mem_flatMap.1 hb
    have x := tierStarts_bounds i o a ha
    have y := groups_bounds is _ g hg b hbg
    omega

theorem insertSorted_le (x : Int) (l : List Int) (h : ∀ y ∈ l, x ≤ y) : insertSorted x l = x :: l := by
  cases l with
  | nil => rfl
  | cons y ys => simp [insertSorted, h y (by simp)]

theorem sortInts_sorted (l : List Int) (h : l.Pairwise (· < ·)) : sortInts l = l := by
  induction l with
  | nil => rfl
  | cons x xs ih =>
    rw [List.pairwise_cons] at h
    simp only [sortInts, List.foldr_cons]
    have : List.foldr insertSorted [] xs = xs := ih h.2
    rw [this]
    exact insertSorted_le x xs (fun y hy => Int.le_of_lt (h.1 y hy))

/-! ### from the hits to the six index lists -/

/-- the starts of the tier named `c` -/
def sel {β : Type} (c : Txt) (G : List (Txt × List β)) : List β := G.flatMap fun g => if g.1 = c then g.2 else []

theorem flatMap_congr' {α β} (l : List α) (f g : α → List β) (h : ∀ a ∈ l, f a = g a) : l.flatMap f = l.flatMap g := by
  induction l with
  | nil => rfl
  | cons a as ih =>
    simp only [List.flatMap_cons, h a (by simp)]
    rw [ih (fun b hb => h b (by simp [hb]))]

theorem sub_ne_formants : ∀ c ∈ subFilterList, c ≠ t "formants" := by decide

theorem T_sub (c nm : Txt) (hc : c ∈ subFilterList) : T c nm = decide (nm = c) := by
  have := sub_ne_formants c hc
  unfold T
  by_cases h : nm = c
  · simp [h]
  · have h' : ¬ c = nm := fun e => h e.symm
    simp [h, h', this]

theorem hits_sub (c : Txt) (hc : c ∈ subFilterList) (G : List (Txt × List Int)) :
    (G.flatMap fun g => if T c g.1 then g.2 else []) = sel c G := by
  unfold sel
  apply flatMap_congr'
  intro g _
  rw [T_sub c g.1 hc]
  by_cases h : g.1 = c <;> simp [h]

theorem T_formants : ∀ nm ∈ canon, T (t "formants") nm = decide (nm ≠ t "bandwidths") := by decide

theorem canon_cases : ∀ nm ∈ canon, nm = t "formants" ∨ nm = t "bandwidths" ∨ (nm ∈ subFilterList ∧ nm ≠ t "bandwidths" ∧ nm ≠ t "formants") := by
  decide

theorem bandwidths_sub : t "bandwidths" ∈ subFilterList := by decide

/-- "'Formant' search query finds duplicates -- remove them": what is left are the name rows of the tier `formants` -/
theorem newFormant_eq (its : List IT) (h : Shape its) (o : Int) :
    let G := groups its o
    let F := G.flatMap fun g => if T (t "formants") g.1 then g.2 else []
    let S := subFilterList.map fun c => G.flatMap fun g => if T c g.1 then g.2 else []
    (F.filter fun v => S.all fun l => !l.contains v) = sel (t "formants") G := by
  intro G F S
  have hS : S = subFilterList.map fun c => sel c G := by
    apply List.map_congr_left; intro c hc; exact hits_sub c hc G
  show List.filter _ (List.flatMap _ G) = _
  rw [List.filter_flatMap]
  unfold sel
  apply flatMap_congr'
  intro g hg
  have hgn : g.1 ∈ canon := by
    have : g.1 ∈ (groups its o).map (·.1) := List.mem_map.2 ⟨g, hg, rfl⟩
    rw [groups_names] at this
    obtain ⟨i, hi, hie⟩ := List.mem_map.1 this
    rw [← hie]; exact mem_canon_of_shape h i hi
  rw [T_formants g.1 hgn]
  rcases canon_cases g.1 hgn with hf | hb | ⟨hs, hnb, hnf⟩
  · -- the tier `formants`: none of its starts is in a sub-filter list
    have hb : g.1 ≠ t "bandwidths" := by rw [hf]; decide
    simp only [hb, ne_eq, not_false_eq_true, decide_true, if_true, hf]
    apply List.filter_eq_self.2
    intro v hv
    rw [hS, List.all_map, List.all_eq_true]
    intro c hc
    simp only [Function.comp, Bool.not_eq_true', List.contains_eq_mem, decide_eq_false_iff_not]
    intro hmem
    obtain ⟨g', hg', hv'⟩ := List.mem_flatMap.1 hmem
    by_cases hg'c : g'.1 = c
    · simp only [hg'c, if_true] at hv'
      have hne : g.1 ≠ g'.1 := by rw [hf, hg'c]; exact fun e => sub_ne_formants c hc e.symm
      exact groups_disjoint its o g hg g' hg' hne v hv hv'
    · simp [hg'c] at hv'
  · have : t "bandwidths" ≠ t "formants" := by decide
    simp [hb, this]
  · simp only [hnb, ne_eq, not_false_eq_true, decide_true, if_true, hnf, if_false]
    apply List.filter_eq_nil_iff.2
    intro v hv
    rw [hS, List.all_map]
    simp only [List.all_eq_true, Function.comp, Bool.not_eq_true', List.contains_eq_mem, decide_eq_false_iff_not]
    intro hall
    exact hall g.1 hs (List.mem_flatMap.2 ⟨g, hg, by simp [hv]⟩)

theorem canon_nodup : canon.Nodup := by decide

theorem sel_absent {β : Type} (c : Txt) (G : List (Txt × List β)) (h : c ∉ G.map (·.1)) : sel c G = [] := by
  unfold sel
  induction G with
  | nil => rfl
  | cons g G' ih =>
    have h1 : g.1 ≠ c := by intro e; apply h; simp [e]
    have h2 : c ∉ G'.map (·.1) := by intro e; apply h; simp at e ⊢; exact Or.inr e
    simp only [List.flatMap_cons, h1, if_false, List.nil_append]
    exact ih h2

theorem flatten_map_nil {α β} (l : List α) (f : α → List β) (h : ∀ a ∈ l, f a = []) : (l.map f).flatten = [] := by
  induction l with
  | nil => rfl
  | cons a as ih => simp [h a (by simp), ih (fun b hb => h b (by simp [hb]))]

/-- the tiers stand in canonical order, so concatenating the six lists gives all starts in file order -/
theorem group_flatten {β : Type} (cs : List Txt) (hnd : cs.Nodup) (G : List (Txt × List β)) (hs : (G.map (·.1)).Sublist cs) :
    (cs.map fun c => sel c G).flatten = G.flatMap (·.2) := by
  induction cs generalizing G with
  | nil =>
    have : G = [] := by cases G with | nil => rfl | cons g _ => simp at hs
    subst this; rfl
  | cons c cs ih =>
    obtain ⟨hc, hnd'⟩ := List.nodup_cons.1 hnd
    rcases List.sublist_cons_iff.1 hs with hskip | ⟨r, hr, hrs⟩
    · have : c ∉ G.map (·.1) := fun e => hc (hskip.subset e)
      simp only [List.map_cons, List.flatten_cons, sel_absent c G this, List.nil_append]
      exact ih hnd' G hskip
    · cases G with
      | nil => simp at hr
      | cons g G' =>
        simp only [List.map_cons, List.cons.injEq] at hr
        obtain ⟨hg, hG'⟩ := hr
        subst hG'
        have hcG' : c ∉ G'.map (·.1) := fun e => hc (hrs.subset e)
        simp only [List.map_cons, List.flatten_cons, List.flatMap_cons]
        have e1 : sel c (g :: G') = g.2 := by
          simp only [sel, List.flatMap_cons, hg, if_true]
          have := sel_absent c G' hcG'; unfold sel at this; rw [this]; simp
        have e2 : (cs.map fun c' => sel c' (g :: G')) = cs.map fun c' => sel c' G' := by
          apply List.map_congr_left
          intro c' hc'
          have : g.1 ≠ c' := by rw [hg]; intro e; exact hc (e ▸ hc')
          simp [sel, this]
        rw [e1, e2, ih hnd' G' hrs]

section PermLemmas
open List

theorem insertSorted_perm (x : Int) (l : List Int) : insertSorted x l ~ x :: l := by
  induction l with
  | nil => exact Perm.refl _
  | cons y ys ih =>
    simp only [insertSorted]
    split
    · exact Perm.refl _
    · exact (Perm.cons y ih).trans (Perm.swap x y ys)

theorem sortInts_perm (l : List Int) : sortInts l ~ l := by
  induction l with
  | nil => exact Perm.refl _
  | cons x xs ih =>
    show insertSorted x (sortInts xs) ~ x :: xs
    exact (insertSorted_perm x _).trans (Perm.cons x ih)

theorem insertSorted_pairwise (x : Int) (l : List Int) (h : l.Pairwise (· ≤ ·)) : (insertSorted x l).Pairwise (· ≤ ·) := by
  induction l with
  | nil => simp [insertSorted]
  | cons y ys ih =>
    simp only [insertSorted]
    split
    · rename_i hxy
      refine List.Pairwise.cons ?_ h
      intro z hz
      rcases List.mem_cons.1 hz with rfl | hz
      · exact hxy
      · exact Int.le_trans hxy ((List.pairwise_cons.1 h).1 z hz)
    · rename_i hxy
      obtain ⟨h1, h2⟩ := List.pairwise_cons.1 h
      refine List.Pairwise.cons ?_ (ih h2)
      intro z hz
      have := (insertSorted_perm x ys).subset hz
      rcases List.mem_cons.1 this with rfl | hz'
      · omega
      · exact h1 z hz'

theorem sortInts_pairwise (l : List Int) : (sortInts l).Pairwise (· ≤ ·) := by
  induction l with
  | nil => exact List.Pairwise.nil
  | cons x xs ih => exact insertSorted_pairwise x _ ih

/-- sorting any rearrangement of a strictly ascending list gives that list -/
theorem sortInts_of_perm (l l' : List Int) (hp : l ~ l') (hs : l'.Pairwise (· < ·)) : sortInts l = l' := by
  apply Perm.eq_of_pairwise (le := (· ≤ ·)) (fun a b _ _ h1 h2 => Int.le_antisymm h1 h2) (sortInts_pairwise l)
    (hs.imp (fun h => Int.le_of_lt h)) ((sortInts_perm l).trans hp)

theorem flatten_map_append_perm {α β} (cs : List α) (A B : α → List β) :
    (cs.map fun c => A c ++ B c).flatten ~ (cs.map A).flatten ++ (cs.map B).flatten := by
  induction cs with
  | nil => exact Perm.refl _
  | cons c cs ih =>
    simp only [List.map_cons, List.flatten_cons]
    -- A c ++ B c ++ X ~ A c ++ a ++ (B c ++ b)
    have h1 : A c ++ B c ++ (cs.map fun c => A c ++ B c).flatten ~ A c ++ B c ++ ((cs.map A).flatten ++ (cs.map B).flatten) :=
      Perm.append (Perm.refl _) ih
    refine h1.trans ?_
    simp only [List.append_assoc]
    refine Perm.append (Perm.refl _) ?_
    rw [← List.append_assoc, ← List.append_assoc]
    exact Perm.append perm_append_comm (Perm.refl _)

theorem flatten_pick {β} (cs : List Txt) (hnd : cs.Nodup) (x : Txt) (hx : x ∈ cs) (v : List β) :
    (cs.map fun c => if x = c then v else []).flatten = v := by
  induction cs with
  | nil => cases hx
  | cons c cs ih =>
    obtain ⟨hc, hnd'⟩ := List.nodup_cons.1 hnd
    simp only [List.map_cons, List.flatten_cons]
    by_cases hxc : x = c
    · subst hxc
      simp only [if_true]
      rw [flatten_map_nil]
      · simp
      · intro a ha
        have : x ≠ a := fun e => hc (e ▸ ha)
        simp [this]
    · simp only [hxc, if_false, List.nil_append]
      rcases List.mem_cons.1 hx with h | h
      · exact absurd h hxc
      · exact ih hnd' h

/-- whatever the order of the tiers in the file, the six index lists together hold every start exactly once -/
theorem group_flatten_perm {β : Type} (cs : List Txt) (hnd : cs.Nodup) (G : List (Txt × List β)) (hs : ∀ g ∈ G, g.1 ∈ cs) :
    (cs.map fun c => sel c G).flatten ~ G.flatMap (·.2) := by
  induction G with
  | nil =>
    rw [flatten_map_nil]
    · exact Perm.refl _
    · intro c _; rfl
  | cons g G' ih =>
    have e : (cs.map fun c => sel c (g :: G')) = cs.map fun c => (if g.1 = c then g.2 else []) ++ sel c G' := by
      apply List.map_congr_left
      intro c _
      simp [sel]
    rw [e]
    refine (flatten_map_append_perm cs _ _).trans ?_
    rw [flatten_pick cs hnd g.1 (hs g (by simp)) g.2]
    simp only [List.flatMap_cons]
    exact Perm.append (Perm.refl _) (ih (fun g' hg' => hs g' (by simp [hg'])))
end PermLemmas

theorem groups_append (a b : List IT) (o : Int) : groups (a ++ b) o = groups a o ++ groups b (o + span (bodyLines a)) := by
  induction a generalizing o with
  | nil => simp [groups, bodyLines, span]
  | cons i is ih =>
    simp only [List.cons_append, groups, ih, span_bodyLines_cons]
    have : o + tierSpan i + span (bodyLines is) = o + (tierSpan i + span (bodyLines is)) := by omega
    rw [this]

theorem span_bodyLines_append (a b : List IT) : span (bodyLines (a ++ b)) = span (bodyLines a) + span (bodyLines b) := by
  simp [bodyLines, span_append]

/-- one index list, closed by its end: the `for subList in indexListOfLists` loop (as repaired) -/
def close (master : List Int) (len : Nat) (subList : List Int) : List Int :=
  match subList.getLast? with
  | none => subList
  | some val =>
    match master[master.idxOf val + 1]? with
    | some nxt => subList ++ [nxt]
    | none => subList ++ [(len : Int)]

/-- what the closed index list of the tier named `c` is: its name rows and the newline that ends its text -/
def closedSel (c : Txt) : List IT → Int → List Int
  | [], _ => []
  | i :: is, o => if i.name = c then tierStarts i o ++ [o + tierSpan i] else closedSel c is (o + tierSpan i)

theorem closedSel_absent (c : Txt) (its : List IT) (o : Int) (h : c ∉ its.map (·.name)) : closedSel c its o = [] := by
  induction its generalizing o with
  | nil => rfl
  | cons i is ih =>
    have h1 : i.name ≠ c := by intro e; apply h; simp [e]
    have h2 : c ∉ is.map (·.name) := by intro e; apply h; simp at e ⊢; exact Or.inr e
    simp [closedSel, h1, ih _ h2]

theorem closedSel_skip (c : Txt) (a b : List IT) (o : Int) (h : c ∉ a.map (·.name)) :
    closedSel c (a ++ b) o = closedSel c b (o + span (bodyLines a)) := by
  induction a generalizing o with
  | nil => simp [bodyLines, span]
  | cons i is ih =>
    have h1 : i.name ≠ c := by intro e; apply h; simp [e]
    have h2 : c ∉ is.map (·.name) := by intro e; apply h; simp at e ⊢; exact Or.inr e
    simp only [List.cons_append, closedSel, h1, if_false, ih _ h2, span_bodyLines_cons]
    congr 1; omega

theorem idxOf_last (S' : List Int) (v : Int) (h : v ∉ S') : (S' ++ [v]).idxOf v = S'.length := by
  rw [List.idxOf_append]; simp [h, List.idxOf_cons]

theorem close_sel (its : List IT) (h : Shape its) (c : Txt) (len : Nat) (hlen : (len : Int) = -1 + span (bodyLines its)) :
    close ((groups its (-1)).flatMap (·.2)) len (sel c (groups its (-1))) = closedSel c its (-1) := by
  by_cases hc : c ∈ its.map (·.name)
  · obtain ⟨i, hi, hic⟩ := List.mem_map.1 hc
    obtain ⟨ia, ib, hits⟩ := List.append_of_mem hi
    have hnd : (its.map (·.name)).Nodup := h.nodup
    rw [hits] at hnd
    simp only [List.map_append, List.map_cons] at hnd
    have hnd' := List.nodup_append.1 hnd
    have hca : c ∉ ia.map (·.name) := by
      intro e; exact hnd'.2.2 c e c (by simp [hic]) rfl
    have hcb : c ∉ ib.map (·.name) := by
      have := (List.nodup_cons.1 hnd'.2.1).1; rwa [hic] at this
    subst hits
    let oi : Int := -1 + span (bodyLines ia)
    have hG : groups (ia ++ i :: ib) (-1) = groups ia (-1) ++ (i.name, tierStarts i oi) :: groups ib (oi + tierSpan i) := by
      rw [groups_append]; rfl
    have hsel : sel c (groups (ia ++ i :: ib) (-1)) = tierStarts i oi := by
      rw [hG]
      have a1 := sel_absent c (groups ia (-1)) (by rw [groups_names]; exact hca)
      have a2 := sel_absent c (groups ib (oi + tierSpan i)) (by rw [groups_names]; exact hcb)
      unfold sel at a1 a2 ⊢
      simp [List.flatMap_append, a1, a2, hic]
    have hcl : closedSel c (ia ++ i :: ib) (-1) = tierStarts i oi ++ [oi + tierSpan i] := by
      rw [closedSel_skip c ia _ _ hca]; simp [closedSel, hic, oi]
    rw [hsel, hcl, hG]
    -- the last start of the tier and its position in the master list
    have hne : tierStarts i oi ≠ [] := by simp [tierStarts]
    have hS := List.dropLast_concat_getLast hne
    generalize hv : (tierStarts i oi).getLast hne = v at hS
    generalize hS' : (tierStarts i oi).dropLast = S' at hS
    have hsorted := tierStarts_sorted i oi
    rw [← hS] at hsorted
    have hvS' : v ∉ S' := by
      intro e
      have := (List.pairwise_append.1 hsorted).2.2 v e v (by simp)
      omega
    have hvmem : v ∈ tierStarts i oi := by rw [← hS]; simp
    have hvb := tierStarts_bounds i oi v hvmem
    have hvA : v ∉ (groups ia (-1)).flatMap (·.2) := by
      intro e
      obtain ⟨g, hg, hvg⟩ := List.mem_flatMap.1 e
      have := groups_bounds ia (-1) g hg v hvg
      simp only [oi] at hvb; omega
    have hlast : (tierStarts i oi).getLast? = some v := by rw [← hS]; simp
    unfold close
    rw [hlast]
    simp only [List.flatMap_append, List.flatMap_cons]
    rw [← hS]
    have hidx : (((groups ia (-1)).flatMap (·.2)) ++ ((S' ++ [v]) ++ (groups ib (oi + tierSpan i)).flatMap (·.2))).idxOf v
        = ((groups ia (-1)).flatMap (·.2)).length + S'.length := by
      rw [List.idxOf_append]
      simp only [hvA, if_false]
      rw [List.idxOf_append]
      have : v ∈ S' ++ [v] := by simp
      simp only [this, if_true, idxOf_last S' v hvS']
      omega
    rw [hidx]
    have hget : (((groups ia (-1)).flatMap (·.2)) ++ ((S' ++ [v]) ++ (groups ib (oi + tierSpan i)).flatMap (·.2)))[((groups ia (-1)).flatMap (·.2)).length + S'.length + 1]?
        = ((groups ib (oi + tierSpan i)).flatMap (·.2))[0]? := by
      rw [List.getElem?_append_right (by omega), List.getElem?_append_right (by simp; omega)]
      congr 1
      simp; omega
    rw [hget]
    cases ib with
    | nil =>
      simp only [groups, List.flatMap_nil, List.getElem?_nil]
      have : (len : Int) = oi + tierSpan i := by
        rw [hlen, span_bodyLines_append, span_bodyLines_cons]; simp [bodyLines, span, oi]; omega
      rw [this]
    | cons i2 ib' =>
      simp [groups, tierStarts]
  · rw [sel_absent c _ (by rw [groups_names]; exact hc), closedSel_absent c its _ hc]
    rfl

/-! ### the closed index lists of a written container body -/

theorem canon_nonl : ∀ nm ∈ canon, '\n' ∉ nm := by decide

theorem pointRows_nonl (ind : Txt) (hind : '\n' ∉ ind) (pts : List (Txt × Txt)) (i : Nat)
    (h : ∀ q ∈ pts, '\n' ∉ q.1 ∧ '\n' ∉ q.2) : ∀ l ∈ pointRows ind i pts, '\n' ∉ l := by
  induction pts generalizing i with
  | nil => intro l hl; simp [pointRows] at hl
  | cons q rest ih =>
    obtain ⟨n, v⟩ := q
    obtain ⟨hn, hv⟩ := h (n, v) (by simp)
    intro l hl
    simp only [pointRows, List.mem_cons] at hl
    have d := nl_not_mem_natDec (i + 1)
    rcases hl with rfl | rfl | rfl | hl
    · have a : '\n' ∉ t "points [" := by decide
      have b : '\n' ∉ t "]:" := by decide
      simp [hind, a, b, d]
    · have a : '\n' ∉ t "    number = " := by decide
      simp [hind, a, hn]
    · have a : '\n' ∉ t "    value = " := by decide
      simp [hind, a, hv]
    · exact ih (i + 1) (fun q hq => h q (by simp [hq])) l hl

theorem subLines_nonl (nm : Txt) (hnm : '\n' ∉ nm) (p : PT) (hp : PTShape nm p) : ∀ l ∈ subLines p, '\n' ∉ l := by
  obtain ⟨⟨k, hk⟩, ⟨⟨_, _, h1⟩, _, _⟩, ⟨⟨_, _, h2⟩, _, _⟩, hpts⟩ := hp
  intro l hl
  simp only [subLines, List.mem_append, List.mem_cons, List.not_mem_nil, or_false] at hl
  rcases hl with (rfl | rfl | rfl | rfl) | hl
  · have d := nl_not_mem_natDec k
    have a : '\n' ∉ t " [" := by decide
    have b : '\n' ∉ t "]" := by decide
    have c : '\n' ∉ t ":" := by decide
    rw [hk]; simp [hnm, a, b, c, d]
  · have a : '\n' ∉ t "    xmin = " := by decide
    simp [a, h1]
  · have a : '\n' ∉ t "    xmax = " := by decide
    simp [a, h2]
  · have a : '\n' ∉ t "    points: size = " := by decide
    simp [a, nl_not_mem_natDec p.pts.length]
  · exact pointRows_nonl (t "    ") (by decide) p.pts 0 (fun q hq => ⟨(hpts q hq).1.1.2.2, (hpts q hq).2.1.2.2⟩) l hl

theorem bodyLines_nonl (its : List IT) (h : Shape its) : ∀ l ∈ bodyLines its, '\n' ∉ l := by
  intro l hl
  simp only [bodyLines, List.mem_flatten, List.mem_map] at hl
  obtain ⟨ls, ⟨i, hi, rfl⟩, hl⟩ := hl
  have hnm := canon_nonl i.name (mem_canon_of_shape h i hi)
  simp only [itLines, List.mem_cons, List.mem_flatten, List.mem_map] at hl
  rcases hl with rfl | ⟨ls, ⟨p, hp, rfl⟩, hl⟩
  · have a : '\n' ∉ t ": size = " := by decide
    simp [hdrLine, hnm, a, nl_not_mem_natDec i.subs.length]
  · exact subLines_nonl i.name hnm p (h.subs i hi p hp) l hl

theorem bodyLines_ne_nil (i : IT) (is : List IT) : bodyLines (i :: is) ≠ [] := by
  simp [bodyLines, itLines]

theorem canon_eq : canon = t "formants" :: subFilterList := rfl

/-- **the index bookkeeping of `_proccessContainerTierInput` on a written container body**: for each of
the six keywords, the name rows of the tier of that name followed by the newline that ends the tier's text —
in whatever order the tiers stand in the body (the master list is sorted: `sortInts_of_perm`) -/
theorem containerIndexLists_body (its : List IT) (h : Shape its) :
    containerIndexLists (join ['\n'] (bodyLines its)) = canon.map fun c => closedSel c its (-1) := by
  cases hits : its with
  | nil =>
    have e : join ['\n'] (bodyLines ([] : List IT)) = [] := rfl
    rw [e]; decide
  | cons i0 is0 =>
    rw [← hits]
    have hnonl := bodyLines_nonl its h
    have hfi : ∀ kw ∈ canon, findIndices (join ['\n'] (bodyLines its)) kw
        = (groups its (-1)).flatMap fun g => if T kw g.1 then g.2 else [] := by
      intro kw hkw
      obtain ⟨h1, h2, _, _⟩ := canon_kw_nonl kw hkw
      rw [findIndices_lines kw h1 h2 _ hnonl, body_hits kw hkw its h]
    have hlen : ((join ['\n'] (bodyLines its)).length : Int) = -1 + span (bodyLines its) := by
      have := span_join (bodyLines its) (by rw [hits]; exact bodyLines_ne_nil _ _)
      omega
    have hsub : subFilterList.map (findIndices (join ['\n'] (bodyLines its)))
        = subFilterList.map fun c => (groups its (-1)).flatMap fun g => if T c g.1 then g.2 else [] := by
      apply List.map_congr_left
      intro c hc
      exact hfi c (by rw [canon_eq]; exact List.mem_cons_of_mem _ hc)
    have hlists : (((findIndices (join ['\n'] (bodyLines its)) "formants".toList).filter fun v =>
          (subFilterList.map (findIndices (join ['\n'] (bodyLines its)))).all fun l => !l.contains v)
        :: subFilterList.map (findIndices (join ['\n'] (bodyLines its))))
        = canon.map fun c => sel c (groups its (-1)) := by
      rw [hsub, show "formants".toList = t "formants" from rfl, hfi (t "formants") (by decide)]
      rw [newFormant_eq its h (-1), canon_eq, List.map_cons]
      congr 1
      apply List.map_congr_left
      intro c hc
      exact hits_sub c hc _
    have hmaster : sortInts ((canon.map fun c => sel c (groups its (-1))).flatten) = (groups its (-1)).flatMap (·.2) := by
      apply sortInts_of_perm _ _ _ (starts_sorted its (-1))
      apply group_flatten_perm canon canon_nodup
      intro g hg
      have : g.1 ∈ (groups its (-1)).map (·.1) := List.mem_map.2 ⟨g, hg, rfl⟩
      rw [groups_names] at this
      obtain ⟨i, hi, hie⟩ := List.mem_map.1 this
      rw [← hie]; exact h.canonical i hi
    simp only [containerIndexLists]
    rw [hlists, hmaster, List.map_map]
    apply List.map_congr_left
    intro c _
    exact close_sel its h c _ hlen

/-! ### the slices between consecutive entries of a closed index list -/

/-- starts of consecutive segments (each followed by a newline), and the end -/
def segStarts : List Txt → Int → List Int
  | [], o => [o]
  | s :: ss, o => o :: segStarts ss (o + s.length + 1)

theorem pySlice_atI (s pre mid post : Txt) (a b : Int) (hs : s = pre ++ (mid ++ post)) (ha : a = (pre.length : Int))
    (hb : b = a + mid.length) : pySlice s a b = mid := by
  have hb' : b = ((pre.length + mid.length : Nat) : Int) := by rw [hb, ha]; omega
  rw [ha, hb']
  exact pySlice_at s pre mid post _ _ hs rfl rfl

/-- in `X ⏎ seg₀ ⏎ seg₁ … ⏎ segₙ Y` the slice between the `j`-th and `j+1`-st start is `⏎ segⱼ` in full -/
theorem window_slices (segs : List Txt) : ∀ (X Y : Txt) (j : Nat), j < segs.length →
    pySlice (X ++ '\n' :: (join ['\n'] segs ++ Y)) ((segStarts segs X.length).getD j 0) ((segStarts segs X.length).getD (j + 1) 0)
      = '\n' :: segs.getD j [] := by
  induction segs with
  | nil => intro X Y j hj; simp at hj
  | cons s rest ih =>
    intro X Y j hj
    cases rest with
    | nil =>
      have : j = 0 := by simp at hj; omega
      subst this
      simp only [segStarts, List.getD_cons_zero, join, List.getD_cons_succ]
      exact pySlice_atI _ X ('\n' :: s) Y _ _ (by simp) rfl (by simp; omega)
    | cons s2 r2 =>
      cases j with
      | zero =>
        simp only [segStarts, List.getD_cons_zero, List.getD_cons_succ]
        rw [join_cons_cons]
        exact pySlice_atI _ X ('\n' :: s) (['\n'] ++ join ['\n'] (s2 :: r2) ++ Y) _ _ (by simp) rfl (by simp; omega)
      | succ j =>
        have hj' : j < (s2 :: r2).length := by simp at hj ⊢; omega
        have := ih (X ++ '\n' :: s) Y j hj'
        rw [join_cons_cons]
        have e : X ++ '\n' :: (s ++ ['\n'] ++ join ['\n'] (s2 :: r2) ++ Y) = (X ++ '\n' :: s) ++ '\n' :: (join ['\n'] (s2 :: r2) ++ Y) := by simp
        have e2 : ((X ++ '\n' :: s).length : Int) = (X.length : Int) + s.length + 1 := by simp; omega
        rw [e]
        simp only [segStarts, List.getD_cons_succ] at this ⊢
        rw [e2] at this
        exact this

/-- text of a sub tier without its trailing newline -/
def subBody (p : PT) : Txt := join ['\n'] (subLines p)

theorem subBody_eq (p : PT) : subBody p = p.subText.dropLast := by
  rw [subText_eq]; simp [subBody]

theorem subStarts_segStarts (ps : List PT) (o : Int) :
    subStarts ps o ++ [o + subsSpan ps] = segStarts (ps.map subBody) o := by
  induction ps generalizing o with
  | nil => simp [subStarts, segStarts, subsSpan, span]
  | cons p rest ih =>
    have hs : span (subLines p) = ((subBody p).length : Int) + 1 := by
      rw [subBody, ← span_join _ (by simp [subLines])]
    simp only [subStarts, List.map_cons, segStarts, List.cons_append, subsSpan_cons]
    have e : o + ↑(subBody p).length + 1 = o + span (subLines p) := by omega
    rw [e, ← ih]
    congr 3; omega

/-! ### a sub tier's text has no blanks at its ends -/

theorem join_getLast? (sep : Txt) (ls : List Txt) (L : Txt) (h : ls.getLast? = some L) (hL : L ≠ []) :
    (join sep ls).getLast? = L.getLast? := by
  induction ls with
  | nil => simp at h
  | cons x rest ih =>
    cases rest with
    | nil => simp at h; subst h; rfl
    | cons y r =>
      rw [join_cons_cons, List.getLast?_append]
      rw [List.getLast?_cons_cons] at h
      rw [ih h]
      cases hl : L.getLast? with
      | none => cases L with
        | nil => exact absurd rfl hL
        | cons a as => simp at hl
      | some c => rfl

theorem numeral_ne_nil {n : Txt} (h : Numeral n) : n ≠ [] := by
  intro e; subst e
  have := h.2.1
  rw [show fclass [] = none from by decide] at this
  cases this

theorem getLast?_cons3 {α} (a b c : α) (l : List α) (h : l ≠ []) : (a :: b :: c :: l).getLast? = l.getLast? := by
  cases l with
  | nil => exact absurd rfl h
  | cons x xs => simp [List.getLast?_cons_cons]

theorem pointRows_last (ind : Txt) (pts : List (Txt × Txt)) (i : Nat) (hne : pts ≠ []) :
    ∃ q, pts.getLast? = some q ∧ (pointRows ind i pts).getLast? = some (ind ++ t "    value = " ++ q.2) := by
  induction pts generalizing i with
  | nil => exact absurd rfl hne
  | cons q rest ih =>
    obtain ⟨n, v⟩ := q
    cases rest with
    | nil => exact ⟨(n, v), rfl, by simp [pointRows]⟩
    | cons q2 r2 =>
      obtain ⟨q', h1, h2⟩ := ih (i + 1) (by simp)
      refine ⟨q', by rw [List.getLast?_cons_cons]; exact h1, ?_⟩
      have hne' : pointRows ind (i + 1) (q2 :: r2) ≠ [] := by
        obtain ⟨a, b⟩ := q2; simp [pointRows]
      have : pointRows ind i ((n, v) :: q2 :: r2) = (ind ++ t "points [" ++ natDec (i + 1) ++ t "]:") ::
          (ind ++ t "    number = " ++ n) :: (ind ++ t "    value = " ++ v) :: pointRows ind (i + 1) (q2 :: r2) := rfl
      rw [this, getLast?_cons3 _ _ _ _ hne', h2]

theorem canon_head_bool : ∀ nm ∈ canon, (match nm with | c :: _ => !pyIsSpace c | [] => false) = true := by decide

theorem canon_head (nm : Txt) (h : nm ∈ canon) : ∃ c rest, nm = c :: rest ∧ pyIsSpace c = false := by
  have := canon_head_bool nm h
  cases nm with
  | nil => simp at this
  | cons c rest => exact ⟨c, rest, rfl, by simpa using this⟩

theorem subBody_stripped (nm : Txt) (hnm : nm ∈ canon) (p : PT) (hp : PTShape nm p) : stripList (subBody p) = subBody p := by
  apply stripList_of_noEdge
  obtain ⟨c0, r0, hc0, hsp0⟩ := canon_head nm hnm
  obtain ⟨⟨k, hk⟩, _, _, hpts⟩ := hp
  constructor
  · intro c rest hc
    have : subBody p = c0 :: (r0 ++ t " [" ++ natDec k ++ t "]" ++ t ":" ++ ['\n'] ++ join ['\n'] (subLines p).tail) := by
      simp only [subBody, subLines, List.cons_append, List.nil_append, List.tail_cons]
      rw [join_cons_cons, hk, hc0]; simp
    rw [this] at hc
    cases hc; exact hsp0
  · intro c hc
    -- the last row
    have hlast : ∃ L, (subLines p).getLast? = some L ∧ ∃ cl, L.getLast? = some cl ∧ pyIsSpace cl = false := by
      by_cases hne : p.pts = []
      · refine ⟨t "    points: size = " ++ natDec 0, by simp [subLines, hne, pointRows], '0', by decide, by decide⟩
      · obtain ⟨q, hq, hrow⟩ := pointRows_last (t "    ") p.pts 0 hne
        have hqm : q ∈ p.pts := List.mem_of_getLast? hq
        obtain ⟨_, hv⟩ := hpts q hqm
        obtain ⟨cl, hcl, hsp⟩ := last_of_stripped q.2 hv.1.1 (numeral_ne_nil hv.1)
        refine ⟨t "    " ++ t "    value = " ++ q.2, ?_, cl, ?_, hsp⟩
        · simp only [subLines]
          rw [List.getLast?_append, hrow]; rfl
        · rw [List.getLast?_append, hcl]; rfl
    obtain ⟨L, hL, cl, hcl, hsp⟩ := hlast
    have hLne : L ≠ [] := by intro e; subst e; simp at hcl
    rw [subBody, join_getLast? _ _ L hL hLne, hcl] at hc
    cases hc; exact hsp

theorem strip_nl_cons (tx : Txt) (h : stripList tx = tx) : stripList ('\n' :: tx) = tx := by
  have := stripList_pad ['\n'] tx [] (by intro c hc; simp at hc; subst hc; decide) (by intro c hc; simp at hc) h
  simpa using this

/-! ### (b) `section_slice_complete` -/

theorem join_append (sep : Txt) (a b : List Txt) (ha : a ≠ []) (hb : b ≠ []) :
    join sep (a ++ b) = join sep a ++ sep ++ join sep b := by
  induction a with
  | nil => exact absurd rfl ha
  | cons x xs ih =>
    cases xs with
    | nil =>
      cases b with
      | nil => exact absurd rfl hb
      | cons y ys => simp [join]
    | cons x2 xs2 =>
      rw [List.cons_append, List.cons_append, join_cons_cons, ← List.cons_append, ih (by simp), join_cons_cons]
      simp

theorem join_flatten (sep : Txt) (ll : List (List Txt)) (hne : ∀ l ∈ ll, l ≠ []) (h : ll ≠ []) :
    join sep ll.flatten = join sep (ll.map (join sep)) := by
  induction ll with
  | nil => exact absurd rfl h
  | cons l rest ih =>
    cases rest with
    | nil => simp [join]
    | cons l2 r2 =>
      have hfl : (l2 :: r2).flatten ≠ [] := by
        have := hne l2 (by simp)
        cases l2 with
        | nil => exact absurd rfl this
        | cons a as => simp
      rw [List.flatten_cons, join_append sep l _ (hne l (by simp)) hfl, ih (fun x hx => hne x (by simp [hx])) (by simp)]
      simp only [List.map_cons, join_cons_cons]

/-- the stripped slices `_getSectionHeader` cuts for one index list (the `for j in range(len(indexList) - 1)` loop) -/
def sliceList (body : Txt) (l : List Int) : List Txt :=
  (List.range (l.length - 1)).map fun j => stripList (pySlice body (l.getD j 0) (l.getD (j + 1) 0))

theorem sliceList_cons_drop (body : Txt) (a : Int) (l : List Int) :
    (sliceList body (a :: l)).drop 1 = sliceList body l := by
  unfold sliceList
  cases l with
  | nil => simp
  | cons b l' =>
    simp only [List.length_cons, Nat.add_sub_cancel]
    rw [List.range_succ_eq_map, List.map_cons, List.drop_one, List.tail_cons, List.map_map]
    apply List.map_congr_left
    intro j _
    simp [List.getD_cons_succ]

theorem subLines_ne_nil (p : PT) : subLines p ≠ [] := by simp [subLines]

theorem segStarts_length (segs : List Txt) (o : Int) : (segStarts segs o).length = segs.length + 1 := by
  induction segs generalizing o with
  | nil => rfl
  | cons s ss ih => simp [segStarts, ih]

/-- the slices cut for the sub tiers of one intermediate tier that stands in a body after `ia` and before `ib` -/
theorem tier_slices (ia ib : List IT) (i : IT) (hi : i.name ∈ canon) (hps : ∀ p ∈ i.subs, PTShape i.name p) :
    sliceList (join ['\n'] (bodyLines (ia ++ i :: ib)))
        (subStarts i.subs (-1 + span (bodyLines ia) + ((hdrLine i).length + 1)) ++ [-1 + span (bodyLines ia) + tierSpan i])
      = i.subs.map subBody := by
  by_cases hsub : i.subs = []
  · simp [hsub, subStarts, sliceList]
  -- the body around the sub tiers: X ⏎ sub tiers Y
  let X : Txt := join ['\n'] (bodyLines ia ++ [hdrLine i])
  let Y : Txt := if ib = [] then [] else '\n' :: join ['\n'] (bodyLines ib)
  have hX : (X.length : Int) = -1 + span (bodyLines ia) + ((hdrLine i).length + 1) := by
    have := span_join (bodyLines ia ++ [hdrLine i]) (by simp)
    rw [span_append] at this
    simp only [span] at this
    show ((join ['\n'] (bodyLines ia ++ [hdrLine i])).length : Int) = _
    omega
  have hbody : join ['\n'] (bodyLines (ia ++ i :: ib)) = X ++ '\n' :: (join ['\n'] (i.subs.map subBody) ++ Y) := by
    have hflat : (i.subs.map subLines).flatten ≠ [] := by
      cases hs : i.subs with
      | nil => exact absurd hs hsub
      | cons p ps =>
        have := subLines_ne_nil p
        cases hp : subLines p with
        | nil => exact absurd hp this
        | cons a as => simp [hp]
    have e1 : bodyLines (ia ++ i :: ib) = (bodyLines ia ++ [hdrLine i]) ++ ((i.subs.map subLines).flatten ++ bodyLines ib) := by
      simp [bodyLines, itLines]
    rw [e1, join_append _ _ _ (by simp) (by simp [hflat])]
    have e2 : join ['\n'] ((i.subs.map subLines).flatten ++ bodyLines ib) = join ['\n'] (i.subs.map subBody) ++ Y := by
      have e3 : join ['\n'] (i.subs.map subLines).flatten = join ['\n'] (i.subs.map subBody) := by
        rw [join_flatten _ _ (by intro l hl; obtain ⟨p, _, rfl⟩ := List.mem_map.1 hl; exact subLines_ne_nil p)
          (by simpa using hsub), List.map_map]; rfl
      cases hib : ib with
      | nil => simp [Y, hib, bodyLines, e3]
      | cons i2 ib' =>
        rw [join_append _ _ _ hflat (bodyLines_ne_nil i2 ib'), e3]
        simp [Y, hib]
    rw [e2]; simp [X]
  have hst : subStarts i.subs (-1 + span (bodyLines ia) + ((hdrLine i).length + 1)) ++ [-1 + span (bodyLines ia) + tierSpan i]
      = segStarts (i.subs.map subBody) X.length := by
    rw [hX, ← subStarts_segStarts, tierSpan_eq]
    congr 2; omega
  rw [hst, hbody]
  unfold sliceList
  rw [segStarts_length, List.length_map, Nat.add_sub_cancel]
  apply List.ext_getElem
  · simp
  · intro j h1 h2
    simp only [List.getElem_map, List.getElem_range]
    have hj : j < (i.subs.map subBody).length := by simpa using h2
    have hj' : j < i.subs.length := by simpa using h2
    rw [window_slices (i.subs.map subBody) X Y j hj]
    have : (i.subs.map subBody).getD j [] = subBody (i.subs[j]'hj') := by
      simp [List.getD_eq_getElem?_getD, List.getElem?_map, hj']
    rw [this]
    exact strip_nl_cons _ (subBody_stripped i.name hi _ (hps _ (List.getElem_mem _)))

theorem filter_name_unique (ia ib : List IT) (i : IT) (c : Txt) (hic : i.name = c)
    (ha : c ∉ ia.map (·.name)) (hb : c ∉ ib.map (·.name)) :
    (ia ++ i :: ib).filter (fun j => decide (j.name = c)) = [i] := by
  have fa : ia.filter (fun j => decide (j.name = c)) = [] := by
    apply List.filter_eq_nil_iff.2
    intro j hj; simp only [decide_eq_true_eq]; intro e; exact ha (List.mem_map.2 ⟨j, hj, e⟩)
  have fb : ib.filter (fun j => decide (j.name = c)) = [] := by
    apply List.filter_eq_nil_iff.2
    intro j hj; simp only [decide_eq_true_eq]; intro e; exact hb (List.mem_map.2 ⟨j, hj, e⟩)
  simp [List.filter_append, List.filter_cons, fa, fb, hic]

/-- **(b)** For a container section in the writer's layout, the slice the (repaired) bookkeeping of
`_proccessContainerTierInput` hands to `_getSectionHeader` for each sub tier is that sub tier's text
**in full** — `KlattSubPointTier.getAsText()` without its trailing newline; in particular it ends with
the complete last row.  (The first slice of every index list is the tier's `name: size = n` header row,
which `_getSectionHeader` rejects with ValueError; it is dropped here.)  `Shape`: distinct tiers with Praat's
names **in any order**, sub tiers `name [k]`, numerals (`KNumeral n ↔ Lit n`, `knumeral_iff`). -/
theorem section_slice_complete (its : List IT) (h : Shape its) :
    (containerIndexLists (join ['\n'] (bodyLines its))).map
        (fun l => (sliceList (join ['\n'] (bodyLines its)) l).drop 1)
      = canon.map fun c => (its.filter fun i => decide (i.name = c)).flatMap fun i => i.subs.map fun p => p.subText.dropLast := by
  rw [containerIndexLists_body its h, List.map_map]
  apply List.map_congr_left
  intro c _
  simp only [Function.comp]
  by_cases hc : c ∈ its.map (·.name)
  · obtain ⟨i, hi, hic⟩ := List.mem_map.1 hc
    obtain ⟨ia, ib, hits⟩ := List.append_of_mem hi
    have hnd : (its.map (·.name)).Nodup := h.nodup
    rw [hits] at hnd
    simp only [List.map_append, List.map_cons] at hnd
    have hnd' := List.nodup_append.1 hnd
    have hca : c ∉ ia.map (·.name) := by
      intro e; exact hnd'.2.2 c e c (by simp [hic]) rfl
    have hcb : c ∉ ib.map (·.name) := by
      have := (List.nodup_cons.1 hnd'.2.1).1; rwa [hic] at this
    have hcanon := mem_canon_of_shape h i hi
    have hps := h.subs i hi
    subst hits
    rw [closedSel_skip c ia _ _ hca, filter_name_unique ia ib i c hic hca hcb]
    simp only [closedSel, hic, if_true, tierStarts, List.cons_append, sliceList_cons_drop, List.flatMap_cons,
      List.flatMap_nil, List.append_nil]
    have := tier_slices ia ib i hcanon hps
    have e : -1 + span (bodyLines ia) + tierSpan i = -1 + span (bodyLines ia) + tierSpan i := rfl
    rw [this]
    apply List.map_congr_left
    intro p _
    exact subBody_eq p
  · rw [closedSel_absent c its _ hc]
    have : its.filter (fun i => decide (i.name = c)) = [] := by
      apply List.filter_eq_nil_iff.2
      intro j hj; simp only [decide_eq_true_eq]; intro e; exact hc (List.mem_map.2 ⟨j, hj, e⟩)
    simp [this, sliceList]

/-! ### non-vacuity of (b), and the defect the repair removed -/

/-- two formants (the second without points), one bandwidth tier; short integer values -/
def exIts : List IT :=
  [⟨t "formants", [⟨t "formants [1]", t "0", t "1", [(t "0.5", t "55")]⟩, ⟨t "formants [2]", t "0", t "1", []⟩]⟩,
   ⟨t "bandwidths", [⟨t "bandwidths [1]", t "0", t "1", [(t "0.25", t "60")]⟩]⟩]

def exBody : Txt := join ['\n'] (bodyLines exIts)

#guard exBody = t "formants: size = 2\nformants [1]:\n    xmin = 0\n    xmax = 1\n    points: size = 1\n    points [1]:\n        number = 0.5\n        value = 55\nformants [2]:\n    xmin = 0\n    xmax = 1\n    points: size = 0\nbandwidths: size = 1\nbandwidths [1]:\n    xmin = 0\n    xmax = 1\n    points: size = 1\n    points [1]:\n        number = 0.25\n        value = 60"

#guard (containerIndexLists exBody).map (fun l => (sliceList exBody l).drop 1)
  = [[t "formants [1]:\n    xmin = 0\n    xmax = 1\n    points: size = 1\n    points [1]:\n        number = 0.5\n        value = 55",
      t "formants [2]:\n    xmin = 0\n    xmax = 1\n    points: size = 0"],
     [t "bandwidths [1]:\n    xmin = 0\n    xmax = 1\n    points: size = 1\n    points [1]:\n        number = 0.25\n        value = 60"],
     [], [], [], []]

-- the old bookkeeping (`masterIndexList[ii + 1] - 1`, `-1` for the last list): every index list loses the last
-- character of its last slice — "size = 0" becomes "size =", "60" becomes "6"
#guard (containerIndexListsOld exBody).map (fun l => (sliceList exBody l).drop 1)
  = [[t "formants [1]:\n    xmin = 0\n    xmax = 1\n    points: size = 1\n    points [1]:\n        number = 0.5\n        value = 55",
      t "formants [2]:\n    xmin = 0\n    xmax = 1\n    points: size ="],
     [t "bandwidths [1]:\n    xmin = 0\n    xmax = 1\n    points: size = 1\n    points [1]:\n        number = 0.25\n        value = 6"],
     [], [], [], []]

set_option exponentiation.threshold 2000 in
theorem knumeral_examples : KNumeral (t "0") ∧ KNumeral (t "1") ∧ KNumeral (t "0.5") ∧ KNumeral (t "55") ∧
    KNumeral (t "0.25") ∧ KNumeral (t "60") := by
  refine ⟨?_, ?_, ?_, ?_, ?_, ?_⟩ <;> exact ⟨⟨by decide, by decide, by decide⟩, by decide, by decide⟩

/-- the hypotheses of `section_slice_complete` are satisfiable -/
theorem exIts_shape : Shape exIts := by
  obtain ⟨h0, h1, h05, h55, h025, h60⟩ := knumeral_examples
  refine ⟨by decide, by decide, ?_⟩
  intro i hi p hp
  simp only [exIts, List.mem_cons, List.not_mem_nil, or_false] at hi
  rcases hi with rfl | rfl
  · simp only [List.mem_cons, List.not_mem_nil, or_false] at hp
    rcases hp with rfl | rfl
    · exact ⟨⟨1, by decide⟩, h0, h1, by intro q hq; simp at hq; subst hq; exact ⟨h05, h55⟩⟩
    · exact ⟨⟨2, by decide⟩, h0, h1, by intro q hq; simp at hq⟩
  · simp only [List.mem_cons, List.not_mem_nil, or_false] at hp
    subst hp
    exact ⟨⟨1, by decide⟩, h0, h1, by intro q hq; simp at hq; subst hq; exact ⟨h025, h60⟩⟩

set_option maxRecDepth 1000000 in
/-- **the defect repaired in 10be40b, on the model**: with the old end indices (`masterIndexList[ii + 1] - 1`,
`-1`) the slice of the last sub tier of an index list is *not* the sub tier's text: its last character is
missing (`value = 60` is read as `value = 6`). -/
theorem section_slice_drops_last_char_old :
    ((containerIndexListsOld exBody).map fun l => (sliceList exBody l).getLast?).getD 1 none
      = some (t "bandwidths [1]:\n    xmin = 0\n    xmax = 1\n    points: size = 1\n    points [1]:\n        number = 0.25\n        value = 6") := by
  decide +kernel

/-! ## (e) reading back a written container section -/

/-! ### `fclass` of a `"%d"` count -/

theorem digitChar_val (d : Nat) (h : d < 10) : (digitChar d).toNat - 48 = d := by
  have : d = 0 ∨ d = 1 ∨ d = 2 ∨ d = 3 ∨ d = 4 ∨ d = 5 ∨ d = 6 ∨ d = 7 ∨ d = 8 ∨ d = 9 := by omega
  rcases this with rfl | rfl | rfl | rfl | rfl | rfl | rfl | rfl | rfl | rfl <;> decide

def dv (a : Nat) (ds : Txt) : Nat := ds.foldl (fun n c => 10 * n + (c.toNat - 48)) a

theorem dv_natDecAux (f : Nat) : ∀ (n : Nat) (acc : Txt) (a : Nat), n < 10 ^ f →
    ∃ L, dv a (natDecAux f n acc) = dv (a * 10 ^ L + n) acc := by
  induction f with
  | zero => intro n acc a h; exact ⟨0, by simp at h; subst h; simp [natDecAux]⟩
  | succ f ih =>
    intro n acc a h
    unfold natDecAux
    by_cases hn : n < 10
    · refine ⟨1, ?_⟩
      simp only [hn, if_true, dv, List.foldl_cons, digitChar_val n hn]
      congr 1; omega
    · simp only [hn, if_false]
      have h10 : n / 10 < 10 ^ f := by
        rw [Nat.pow_succ] at h; omega
      obtain ⟨L, hL⟩ := ih (n / 10) (digitChar (n % 10) :: acc) a h10
      refine ⟨L + 1, ?_⟩
      rw [hL]
      simp only [dv, List.foldl_cons, digitChar_val (n % 10) (Nat.mod_lt _ (by decide))]
      congr 1
      rw [Nat.pow_succ]
      have : a * (10 ^ L * 10) = 10 * (a * 10 ^ L) := by
        rw [Nat.mul_comm (10 ^ L) 10, ← Nat.mul_assoc, Nat.mul_comm a 10, Nat.mul_assoc]
      omega

theorem digitsVal_natDec (n : Nat) : digitsVal (natDec n) = n := by
  have h : n < 10 ^ (n + 1) := by
    have : n < 10 ^ n := Nat.lt_pow_self (by decide)
    rw [Nat.pow_succ]; omega
  obtain ⟨L, hL⟩ := dv_natDecAux (n + 1) n [] 0 h
  simpa [dv, digitsVal, natDec] using hL

theorem isDigit_toNat (c : Char) (h : isDigit c = true) : 48 ≤ c.toNat ∧ c.toNat ≤ 57 := by
  simp only [isDigit, Bool.and_eq_true, decide_eq_true_eq] at h
  have h1 : '0'.val ≤ c.val := h.1
  have h2 : c.val ≤ '9'.val := h.2
  rw [UInt32.le_iff_toNat_le] at h1 h2
  exact ⟨h1, h2⟩

theorem char_ne_of_toNat {c d : Char} (h : c.toNat ≠ d.toNat) : c ≠ d := fun e => h (e ▸ rfl)

theorem digitsGo_digits (ds acc : Txt) (h : ∀ c ∈ ds, isDigit c = true) : digitsGo ds acc = (acc.reverse ++ ds, []) := by
  induction ds generalizing acc with
  | nil => simp [digitsGo]
  | cons c cs ih =>
    simp only [digitsGo, h c (by simp), if_true]
    rw [ih _ (fun d hd => h d (by simp [hd]))]
    simp

theorem stripLBy_head (p : Char → Bool) (c : Char) (cs : Txt) (h : p c = false) : stripLBy p (c :: cs) = c :: cs := by
  simp [stripLBy, h]

theorem digit_not_numSpace (c : Char) (h : isDigit c = true) : isNumSpace c = false := by
  obtain ⟨h1, h2⟩ := isDigit_toNat c h
  simp only [isNumSpace, pyIsSpace, Bool.and_eq_false_iff, Bool.or_eq_false_iff, Bool.and_eq_false_iff]
  left
  simp only [decide_eq_false_iff_not, Bool.and_eq_false_iff, beq_eq_false_iff_ne, ne_eq]
  refine ⟨⟨⟨⟨⟨⟨⟨⟨⟨⟨?_, ?_⟩, ?_⟩, ?_⟩, ?_⟩, ?_⟩, ?_⟩, ?_⟩, ?_⟩, ?_⟩, ?_⟩ <;> omega

theorem numStrip_digits (ds : Txt) (h : ∀ c ∈ ds, isDigit c = true) : numStrip ds = ds := by
  unfold numStrip
  cases ds with
  | nil => rfl
  | cons c cs =>
    rw [stripLBy_head _ c cs (digit_not_numSpace c (h c (by simp)))]
    cases hr : (c :: cs).reverse with
    | nil => simp at hr
    | cons d dsr =>
      have hd : d ∈ c :: cs := by
        have : d ∈ (c :: cs).reverse := by rw [hr]; simp
        exact List.mem_reverse.1 this
      rw [stripLBy_head _ d dsr (digit_not_numSpace d (h d hd)), ← hr, List.reverse_reverse]

theorem splitSign_digit (c : Char) (cs : Txt) (h : isDigit c = true) : splitSign (c :: cs) = (false, c :: cs) := by
  obtain ⟨h1, h2⟩ := isDigit_toNat c h
  have a : c ≠ '-' := char_ne_of_toNat (by simp; omega)
  have b : c ≠ '+' := char_ne_of_toNat (by simp; omega)
  unfold splitSign
  split
  · rename_i heq; simp only [List.cons.injEq] at heq; exact absurd heq.1 a
  · rename_i heq; simp only [List.cons.injEq] at heq; exact absurd heq.1 b
  · rfl

theorem lower_digits (ds : Txt) (h : ∀ c ∈ ds, isDigit c = true) : lower ds = ds := by
  unfold lower
  induction ds with
  | nil => rfl
  | cons c cs ih =>
    obtain ⟨h1, h2⟩ := isDigit_toNat c (h c (by simp))
    have : ¬ ('A' ≤ c ∧ c ≤ 'Z') := by
      intro ⟨ha, _⟩
      have : 'A'.val ≤ c.val := ha
      rw [UInt32.le_iff_toNat_le] at this
      have e : 'A'.val.toNat = 65 := by decide
      have e2 : c.val.toNat = c.toNat := rfl
      omega
    simp only [List.map_cons, this, if_false]
    rw [ih (fun d hd => h d (by simp [hd]))]

theorem natDecAux_ne_nil (f n : Nat) (acc : Txt) (h : acc ≠ []) : natDecAux f n acc ≠ [] := by
  induction f generalizing n acc with
  | zero => simpa [natDecAux] using h
  | succ f ih =>
    unfold natDecAux
    split
    · simp
    · exact ih _ _ (by simp)

theorem natDec_ne_nil (n : Nat) : natDec n ≠ [] := by
  unfold natDec natDecAux
  split
  · simp
  · exact natDecAux_ne_nil _ _ _ (by simp)

/-- `float("%d" % n)`: zero for `0`, positive otherwise -/
theorem fclass_natDec (n : Nat) : fclass (natDec n) = some (if n = 0 then FClass.zero else FClass.pos) := by
  have hd := natDec_digits n
  have hval := digitsVal_natDec n
  cases hds : natDec n with
  | nil =>
    -- natDec is never empty
    exact absurd hds (natDec_ne_nil n)
  | cons c cs =>
    rw [hds] at hd hval
    have hc := hd c (by simp)
    obtain ⟨h1, h2⟩ := isDigit_toNat c hc
    have hi : c ≠ 'i' := char_ne_of_toNat (by simp; omega)
    have hn : c ≠ 'n' := char_ne_of_toNat (by simp; omega)
    unfold fclass
    rw [numStrip_digits _ hd, splitSign_digit c cs hc]
    simp only [lower_digits _ hd, digitsGo_digits _ [] hd]
    have e1 : (c :: cs) ≠ "inf".toList := by intro e; cases e; exact hi rfl
    have e2 : (c :: cs) ≠ "infinity".toList := by intro e; cases e; exact hi rfl
    have e3 : (c :: cs) ≠ "nan".toList := by intro e; cases e; exact hn rfl
    simp [e1, e2, e3, hval, underflows]
    by_cases hz : n = 0 <;> simp [hz, hi, hn]

/-! ### parsing one sub tier's text -/

theorem afterEq_row (k n : Txt) (hk : '=' ∉ k) (hn : '=' ∉ n) (hs : stripList n = n) (hf : (fclass n).isSome) :
    afterEq (k ++ '=' :: ' ' :: n) = .ok n := by
  unfold afterEq
  rw [Clean.pySplit_two '=' k (' ' :: n) hk (by simp [hn])]
  simp only [List.getElem?_cons_succ, List.getElem?_cons_zero]
  rw [stripList_blank_cons n hs]
  exact floatTok_ok n hf

/-- the numerals of a file that is read back: additionally without `=` -/
def ENumeral (n : Txt) : Prop := KNumeral n ∧ '=' ∉ n

def sizeLine (p : PT) : Txt := t "    points: size = " ++ natDec p.pts.length

/-- the tail `_getSectionHeader` returns for a sub tier's text: the size row and, if there are points, the point rows -/
def tailOf (p : PT) : List Txt :=
  if p.pts = [] then [sizeLine p] else [sizeLine p, join ['\n'] (pointRows (t "    ") 0 p.pts)]

theorem pointRows_ne_nil (ind : Txt) (i : Nat) (pts : List (Txt × Txt)) (h : pts ≠ []) : pointRows ind i pts ≠ [] := by
  cases pts with
  | nil => exact absurd rfl h
  | cons q rest => obtain ⟨a, b⟩ := q; simp [pointRows]

theorem split4_subBody (nm : Txt) (hnm : '\n' ∉ nm) (p : PT) (hp : PTShape nm p) :
    pySplitN '\n' 4 (subBody p) = [p.name ++ t ":", t "    xmin = " ++ p.xmin, t "    xmax = " ++ p.xmax] ++ tailOf p := by
  have hnl := subLines_nonl nm hnm p hp
  have h1 : '\n' ∉ p.name ++ t ":" := hnl _ (by simp [subLines])
  have h2 : '\n' ∉ t "    xmin = " ++ p.xmin := hnl _ (by simp [subLines])
  have h3 : '\n' ∉ t "    xmax = " ++ p.xmax := hnl _ (by simp [subLines])
  have h4 : '\n' ∉ sizeLine p := hnl _ (by simp [subLines, sizeLine])
  unfold subBody subLines tailOf
  by_cases hpts : p.pts = []
  · simp only [hpts, pointRows, List.append_nil, if_true, join_cons_cons, join, List.length_nil]
    have e : ∀ (a b c d : Txt), a ++ ['\n'] ++ (b ++ ['\n'] ++ (c ++ ['\n'] ++ d)) = a ++ '\n' :: (b ++ '\n' :: (c ++ '\n' :: d)) := by
      intros; simp
    rw [e, pySplitN_hit _ _ _ _ h1, pySplitN_hit _ _ _ _ h2, pySplitN_hit _ _ _ _ h3]
    have h4' : '\n' ∉ t "    points: size = " ++ natDec 0 := by
      have := h4; simp only [sizeLine, hpts, List.length_nil] at this; exact this
    rw [pySplitN_no _ _ _ h4']
    simp [sizeLine, hpts]
  · simp only [hpts, if_false]
    rw [join_append _ _ _ (by simp) (pointRows_ne_nil _ _ _ hpts)]
    simp only [join_cons_cons, join]
    have e : ∀ (a b c d r : Txt), a ++ ['\n'] ++ (b ++ ['\n'] ++ (c ++ ['\n'] ++ d)) ++ ['\n'] ++ r
        = a ++ '\n' :: (b ++ '\n' :: (c ++ '\n' :: (d ++ '\n' :: r))) := by
      intros; simp
    have h4' : '\n' ∉ t "    points: size = " ++ natDec p.pts.length := h4
    rw [e, pySplitN_hit _ _ _ _ h1, pySplitN_hit _ _ _ _ h2, pySplitN_hit _ _ _ _ h3, pySplitN_hit _ _ _ _ h4', pySplitN_zero]
    simp [sizeLine]

theorem canon_noq : ∀ nm ∈ canon, '?' ∉ nm ∧ '=' ∉ nm ∧ ' ' ∉ nm := by decide

theorem nameLine_stripped (nm : Txt) (hnm : nm ∈ canon) (k : Nat) :
    stripList (nm ++ t " [" ++ natDec k ++ t "]" ++ t ":") = nm ++ t " [" ++ natDec k ++ t "]" ++ t ":" := by
  apply stripList_of_noEdge
  obtain ⟨c0, r0, hc0, hsp0⟩ := canon_head nm hnm
  constructor
  · intro c rest hc
    rw [hc0] at hc; simp only [List.cons_append, List.cons.injEq] at hc
    rw [← hc.1]; exact hsp0
  · intro c hc
    have : (nm ++ t " [" ++ natDec k ++ t "]" ++ t ":").getLast? = some ':' := by
      rw [List.getLast?_append]; rfl
    rw [this] at hc; cases hc; decide

/-- `_getSectionHeader` on a slice that is a sub tier's text -/
theorem getSectionHeader_sub (data : Txt) (l : List Int) (j : Nat) (a b : Int) (ha : l[j]? = some a) (hb : l[j + 1]? = some b)
    (nm : Txt) (hnm : nm ∈ canon) (p : PT) (hp : PTShape nm p) (he1 : '=' ∉ p.xmin) (he2 : '=' ∉ p.xmax)
    (hsd : stripList (pySlice data a b) = subBody p) :
    getSectionHeader data l j = .ok (p.name ++ t ":", p.xmin, p.xmax, subBody p, tailOf p) := by
  unfold getSectionHeader
  simp only [ha, hb, hsd, bind, Except.bind, pure, Except.pure]
  rw [split4_subBody nm (canon_nonl nm hnm) p hp]
  obtain ⟨⟨k, hk⟩, ⟨⟨hs1, hf1, _⟩, _, _⟩, ⟨⟨hs2, hf2, _⟩, _, _⟩, _⟩ := hp
  simp only [List.cons_append, List.nil_append]
  have hq : '?' ∉ p.name ++ t ":" := by
    rw [hk]
    have := (canon_noq nm hnm).1
    have d := digits_no '?' (by decide) k
    simp [t, this, d]
  rw [Clean.pySplit_no '?' _ hq]
  simp only [List.headD_cons]
  have hname : stripList (p.name ++ t ":") = p.name ++ t ":" := by
    rw [hk]; exact nameLine_stripped nm hnm k
  have e1 : t "    xmin = " ++ p.xmin = t "    xmin " ++ '=' :: ' ' :: p.xmin := by simp [t]
  have e2 : t "    xmax = " ++ p.xmax = t "    xmax " ++ '=' :: ' ' :: p.xmax := by simp [t]
  rw [hname, e1, e2, afterEq_row _ _ (by decide) he1 hs1 hf1, afterEq_row _ _ (by decide) he2 hs2 hf2]

/-- `_buildEntries` on that tail gives the tier's points -/
theorem buildEntries_tail (p : PT) (hpts : ∀ q ∈ p.pts, KNumeral q.1 ∧ KNumeral q.2) : buildEntries (tailOf p) = .ok p.pts := by
  unfold tailOf
  by_cases h : p.pts = []
  · simp [h, buildEntries]; rfl
  · simp only [h, if_false, buildEntries]
    have e : sizeLine p = t "    points: size " ++ '=' :: ' ' :: natDec p.pts.length := by simp [sizeLine, t]
    have hfc := fclass_natDec p.pts.length
    have hlen : p.pts.length ≠ 0 := by intro e; exact h (List.length_eq_zero_iff.1 e)
    have hstrip : stripList (natDec p.pts.length) = natDec p.pts.length := by
      apply stripList_of_noEdge
      have hd := natDec_digits p.pts.length
      have nsp : ∀ c, isDigit c = true → pyIsSpace c = false := by
        intro c hc
        have := digit_not_numSpace c hc
        obtain ⟨h1, h2⟩ := isDigit_toNat c hc
        simp only [isNumSpace, Bool.and_eq_false_iff] at this
        rcases this with h | h
        · exact h
        · simp at h; omega
      constructor
      · intro c rest hc; exact nsp c (hd c (by rw [hc]; simp))
      · intro c hc; exact nsp c (hd c (List.mem_of_getLast? hc))
    rw [e, afterEq_row _ _ (by decide) (eq_not_mem_natDec _) hstrip (by rw [hfc]; rfl)]
    simp only [bind, Except.bind, hfc, hlen, if_false, if_true]
    exact processSectionData_written (t "    ") (by decide) p.pts (fun q hq => ⟨(hpts q hq).1.1.lit, (hpts q hq).2.1.lit⟩)

/-! ### the loop over one index list -/

/-- the writer's shape, plus what reading back needs: no `=` inside a span numeral (a consequence of its being
a numeral, `Lit.not_mem`), at least one sub tier per intermediate tier (a real restriction: a tier without sub
tiers makes the reader fail, `klatt_zero_formants_counterexample` in `Props/C19Whole.lean`), distinct sub tier
names (`addTier` raises TierNameExistsError otherwise) -/
structure Shape2 (its : List IT) : Prop extends Shape its where
  spans : ∀ i ∈ its, ∀ p ∈ i.subs, '=' ∉ p.xmin ∧ '=' ∉ p.xmax
  nonempty : ∀ i ∈ its, i.subs ≠ []
  distinct : ∀ i ∈ its, hasDup (i.subs.map (·.name)) = false

theorem getElem?_getD {α} (L : List α) (d : Nat) (x : α) (h : d < L.length) : L[d]? = some (L.getD d x) := by
  simp [List.getD_eq_getElem?_getD, List.getElem?_eq_getElem h]

/-- the closed index list of the tier `i` standing after `ia` -/
def closedOf (ia : List IT) (i : IT) : List Int :=
  (-1 + span (bodyLines ia)) ::
    (subStarts i.subs (-1 + span (bodyLines ia) + ((hdrLine i).length + 1)) ++ [-1 + span (bodyLines ia) + tierSpan i])

theorem subStarts_length (ps : List PT) (o : Int) : (subStarts ps o).length = ps.length := by
  induction ps generalizing o with
  | nil => rfl
  | cons p rest ih => simp [subStarts, ih]

theorem header_at (ia ib : List IT) (i : IT) (hi : i.name ∈ canon) (hps : ∀ p ∈ i.subs, PTShape i.name p)
    (hsp : ∀ p ∈ i.subs, '=' ∉ p.xmin ∧ '=' ∉ p.xmax)
    (done rest : List PT) (p : PT) (hsubs : i.subs = done ++ p :: rest) :
    getSectionHeader (join ['\n'] (bodyLines (ia ++ i :: ib))) (closedOf ia i) (done.length + 1)
      = .ok (p.name ++ t ":", p.xmin, p.xmax, subBody p, tailOf p) := by
  have hpm : p ∈ i.subs := by rw [hsubs]; simp
  have hts := tier_slices ia ib i hi hps
  generalize hL : subStarts i.subs (-1 + span (bodyLines ia) + ((hdrLine i).length + 1)) ++ [-1 + span (bodyLines ia) + tierSpan i] = L at hts
  have hLlen : L.length = i.subs.length + 1 := by rw [← hL]; simp [subStarts_length]
  have hd : done.length < i.subs.length := by rw [hsubs]; simp
  have hcl : closedOf ia i = (-1 + span (bodyLines ia)) :: L := by rw [closedOf, hL]
  have ha : (closedOf ia i)[done.length + 1]? = some (L.getD done.length 0) := by
    rw [hcl, List.getElem?_cons_succ]; exact getElem?_getD L _ 0 (by omega)
  have hb : (closedOf ia i)[done.length + 1 + 1]? = some (L.getD (done.length + 1) 0) := by
    rw [hcl, List.getElem?_cons_succ]; exact getElem?_getD L _ 0 (by omega)
  have hsd : stripList (pySlice (join ['\n'] (bodyLines (ia ++ i :: ib))) (L.getD done.length 0) (L.getD (done.length + 1) 0)) = subBody p := by
    have h1 : (sliceList (join ['\n'] (bodyLines (ia ++ i :: ib))) L)[done.length]? = (i.subs.map subBody)[done.length]? := by rw [hts]
    unfold sliceList at h1
    rw [hLlen, Nat.add_sub_cancel, List.getElem?_map, List.getElem?_range hd, List.getElem?_map] at h1
    have : i.subs[done.length]? = some p := by rw [hsubs]; simp
    rw [this] at h1
    simpa using h1
  exact getSectionHeader_sub _ _ _ _ _ ha hb i.name hi p (hps p hpm) (hsp p hpm).1 (hsp p hpm).2 hsd

theorem subTierLoop_subs (ia ib : List IT) (i : IT) (hi : i.name ∈ canon) (hps : ∀ p ∈ i.subs, PTShape i.name p)
    (hsp : ∀ p ∈ i.subs, '=' ∉ p.xmin ∧ '=' ∉ p.xmax) (rest : List PT) :
    ∀ (done : List PT) (sn : Option Txt) (acc : List PT), i.subs = done ++ rest →
    subTierLoop (join ['\n'] (bodyLines (ia ++ i :: ib))) (closedOf ia i)
        ((List.range rest.length).map (· + (done.length + 1))) sn acc
      = .ok ((match rest.getLast? with | some q => some q.name | none => sn), acc ++ rest) := by
  induction rest with
  | nil => intro done sn acc _; simp [subTierLoop]; rfl
  | cons p rest' ih =>
    intro done sn acc hsubs
    rw [List.length_cons, List.range_succ_eq_map, List.map_cons, List.map_map]
    simp only [Nat.zero_add, subTierLoop]
    rw [header_at ia ib i hi hps hsp done rest' p hsubs]
    simp only [bind, Except.bind]
    have hpm : p ∈ i.subs := by rw [hsubs]; simp
    have hdl : (p.name ++ t ":").dropLast = p.name := by simp [t]
    rw [hdl, buildEntries_tail p (hps p hpm).pts]
    simp only
    have := ih (done ++ [p]) (some p.name) (acc ++ [p]) (by rw [hsubs]; simp)
    have e : (fun x => x + (done.length + 1)) ∘ Nat.succ = fun x => x + ((done ++ [p]).length + 1) := by
      funext x; simp; omega
    rw [e, this]
    have hp' : (⟨p.name, p.xmin, p.xmax, p.pts⟩ : PT) = p := rfl
    cases hr : rest'.getLast? with
    | none =>
      have : rest' = [] := by cases rest' with | nil => rfl | cons a as => simp at hr
      subst this; simp
    | some q => simp [List.getLast?_cons_cons, hr, List.getLast?_cons]

theorem stripList_nl_cons_eq (x : Txt) : stripList ('\n' :: x) = stripList x := by
  have : pyIsSpace '\n' = true := by decide
  simp [stripList, stripL, this]

theorem getSectionHeader_oneLine (data : Txt) (l : List Int) (j : Nat) (a b : Int) (ha : l[j]? = some a) (hb : l[j + 1]? = some b)
    (h : '\n' ∉ stripList (pySlice data a b)) : getSectionHeader data l j = .error .valueError := by
  unfold getSectionHeader
  simp only [ha, hb, bind, Except.bind, pure, Except.pure]
  rw [pySplitN_no _ _ _ h]
  rfl

theorem hdrLine_nonl (i : IT) (hi : i.name ∈ canon) : '\n' ∉ hdrLine i := by
  have a : '\n' ∉ t ": size = " := by decide
  simp [hdrLine, canon_nonl i.name hi, a, nl_not_mem_natDec i.subs.length]

/-- the first slice of every index list is the `name: size = n` row (or empty, for the first tier): `_getSectionHeader` raises ValueError -/
theorem header_slice_rejected (ia ib : List IT) (i : IT) (hi : i.name ∈ canon) (hne : i.subs ≠ []) :
    getSectionHeader (join ['\n'] (bodyLines (ia ++ i :: ib))) (closedOf ia i) 0 = .error .valueError := by
  obtain ⟨p0, ps, hps⟩ : ∃ p0 ps, i.subs = p0 :: ps := by
    cases h : i.subs with
    | nil => exact absurd h hne
    | cons a as => exact ⟨a, as, rfl⟩
  have ha : (closedOf ia i)[0]? = some (-1 + span (bodyLines ia)) := rfl
  have hb : (closedOf ia i)[0 + 1]? = some (-1 + span (bodyLines ia) + ((hdrLine i).length + 1)) := by
    simp [closedOf, hps, subStarts]
  apply getSectionHeader_oneLine _ _ _ _ _ ha hb
  have hH := hdrLine_nonl i hi
  -- the body: (lines of ia) H ⏎ first sub tier …
  have e1 : bodyLines (ia ++ i :: ib) = bodyLines ia ++ ([hdrLine i] ++ ((i.subs.map subLines).flatten ++ bodyLines ib)) := by
    simp [bodyLines, itLines]
  have hrest : (i.subs.map subLines).flatten ++ bodyLines ib ≠ [] := by
    rw [hps]; simp [subLines]
  cases hia : ia with
  | nil =>
    -- index -1: the slice is empty
    have hbody : join ['\n'] (bodyLines ([] ++ i :: ib)) = hdrLine i ++ '\n' :: join ['\n'] ((i.subs.map subLines).flatten ++ bodyLines ib) := by
      have : bodyLines ([] ++ i :: ib) = [hdrLine i] ++ ((i.subs.map subLines).flatten ++ bodyLines ib) := by
        simp [bodyLines, itLines]
      rw [this, join_append _ _ _ (by simp) hrest]; simp [join]
    have hlen2 : 1 ≤ (join ['\n'] ((i.subs.map subLines).flatten ++ bodyLines ib)).length := by
      rw [hps]
      simp only [List.map_cons, List.flatten_cons, subLines, List.cons_append, List.nil_append]
      rw [join_cons_cons]; simp; omega
    rw [hbody]
    generalize join ['\n'] ((i.subs.map subLines).flatten ++ bodyLines ib) = R at hlen2
    simp only [bodyLines, List.map_nil, List.flatten_nil, span]
    have : pySlice (hdrLine i ++ '\n' :: R) (-1 + 0) (-1 + 0 + (↑(hdrLine i).length + 1)) = [] := by
      unfold pySlice normIdx
      simp only [List.length_append, List.length_cons]
      have h1 : ((-1 + 0 : Int) < 0) := by omega
      have h2 : ¬ ((-1 + 0 : Int) + ↑((hdrLine i).length + (R.length + 1)) < 0) := by omega
      have h3 : ¬ ((-1 + 0 + (↑(hdrLine i).length + 1) : Int) < 0) := by omega
      have h4 : ¬ ((↑((hdrLine i).length + (R.length + 1)) : Int) < -1 + 0 + (↑(hdrLine i).length + 1)) := by omega
      simp only [h1, h2, h3, h4, if_true, if_false]
      have : (-1 + 0 + (↑(hdrLine i).length + 1) : Int).toNat - ((-1 + 0 : Int) + ↑((hdrLine i).length + (R.length + 1))).toNat = 0 := by omega
      rw [this]; simp
    rw [this]; decide
  | cons i0 ia0 =>
    rw [← hia]
    have hiane : bodyLines ia ≠ [] := by rw [hia]; exact bodyLines_ne_nil _ _
    have hbody : join ['\n'] (bodyLines (ia ++ i :: ib)) = join ['\n'] (bodyLines ia) ++ (('\n' :: hdrLine i) ++ '\n' :: join ['\n'] ((i.subs.map subLines).flatten ++ bodyLines ib)) := by
      rw [e1, join_append _ _ _ hiane (by simp), join_append _ _ _ (by simp) hrest]; simp [join]
    have hX : ((join ['\n'] (bodyLines ia)).length : Int) = -1 + span (bodyLines ia) := by
      have := span_join _ hiane; omega
    rw [pySlice_atI _ _ ('\n' :: hdrLine i) _ _ _ hbody hX.symm (by simp), stripList_nl_cons_eq]
    exact fun e => hH (stripList_subset _ _ e)

/-- the whole `for j in range(len(indexList) - 1)` loop for one tier: the header row is skipped, every sub tier is read -/
theorem subTierLoop_tier (ia ib : List IT) (i : IT) (hi : i.name ∈ canon) (hps : ∀ p ∈ i.subs, PTShape i.name p)
    (hsp : ∀ p ∈ i.subs, '=' ∉ p.xmin ∧ '=' ∉ p.xmax) (hne : i.subs ≠ []) (sn : Option Txt) :
    subTierLoop (join ['\n'] (bodyLines (ia ++ i :: ib))) (closedOf ia i) (List.range ((closedOf ia i).length - 1)) sn []
      = .ok ((i.subs.getLast?).map (·.name), i.subs) := by
  have hlen : (closedOf ia i).length - 1 = i.subs.length + 1 := by simp [closedOf, subStarts_length]
  rw [hlen, List.range_succ_eq_map]
  simp only [subTierLoop, header_slice_rejected ia ib i hi hne]
  have := subTierLoop_subs ia ib i hi hps hsp i.subs [] sn [] rfl
  simp only [List.length_nil, Nat.zero_add, List.nil_append] at this
  have e : (List.range i.subs.length).map Nat.succ = (List.range i.subs.length).map (· + 1) := rfl
  rw [e, this]
  cases h : i.subs.getLast? with
  | none => cases hs : i.subs with
    | nil => exact absurd hs hne
    | cons a as => rw [hs] at h; simp at h
  | some q => rfl

/-! ### `buildContainer` over the six index lists -/

theorem canon_nospace : ∀ nm ∈ canon, nm.all (fun c => !pyIsSpace c) = true := by decide

theorem takeWhile_append_stop {α} (p : α → Bool) (a : List α) (c : α) (b : List α) (ha : ∀ x ∈ a, p x = true) (hc : p c = false) :
    (a ++ c :: b).takeWhile p = a := by
  induction a with
  | nil => simp [List.takeWhile, hc]
  | cons x xs ih => simp [List.takeWhile, ha x (by simp), ih (fun y hy => ha y (by simp [hy]))]

theorem firstToken_subName (nm : Txt) (hnm : nm ∈ canon) (k : Nat) : firstToken (nm ++ t " [" ++ natDec k ++ t "]") = some nm := by
  obtain ⟨c0, r0, hc0, hsp0⟩ := canon_head nm hnm
  have hall := canon_nospace nm hnm
  have e : nm ++ t " [" ++ natDec k ++ t "]" = nm ++ ' ' :: (t "[" ++ natDec k ++ t "]") := by simp [t]
  unfold firstToken
  rw [e]
  have hs : stripL (nm ++ ' ' :: (t "[" ++ natDec k ++ t "]")) = nm ++ ' ' :: (t "[" ++ natDec k ++ t "]") := by
    rw [hc0]; exact stripL_of_head c0 _ hsp0
  rw [hs]
  have hne : nm ++ ' ' :: (t "[" ++ natDec k ++ t "]") ≠ [] := by simp
  have htw := takeWhile_append_stop (fun c => !pyIsSpace c) nm ' ' (t "[" ++ natDec k ++ t "]")
    (by intro x hx; exact List.all_eq_true.1 hall x hx) (by decide)
  cases hm : nm ++ ' ' :: (t "[" ++ natDec k ++ t "]") with
  | nil => exact absurd hm hne
  | cons x xs =>
    rw [hm] at htw
    show some ((x :: xs).takeWhile fun c => !pyIsSpace c) = some nm
    rw [htw]

theorem closedSel_tier (ia ib : List IT) (i : IT) (hca : i.name ∉ ia.map (·.name)) :
    closedSel i.name (ia ++ i :: ib) (-1) = closedOf ia i := by
  rw [closedSel_skip _ ia _ _ hca]
  simp [closedSel, closedOf, tierStarts]

theorem buildContainer_lists (its : List IT) (h : Shape2 its) (cs : List Txt) (hnd : cs.Nodup) (hcs : ∀ c ∈ cs, c ∈ canon) :
    ∀ (sn : Option Txt) (acc : List IT), (∀ a ∈ acc, a.name ∉ cs) →
    buildContainer (join ['\n'] (bodyLines its)) (cs.map fun c => closedSel c its (-1)) sn acc
      = .ok (acc ++ cs.flatMap fun c => its.filter fun i => decide (i.name = c)) := by
  induction cs with
  | nil => intro sn acc _; simp [buildContainer]; rfl
  | cons c cs ih =>
    intro sn acc hacc
    obtain ⟨hc, hnd'⟩ := List.nodup_cons.1 hnd
    have hacc' : ∀ a ∈ acc, a.name ∉ cs := fun a ha e => hacc a ha (List.mem_cons_of_mem _ e)
    simp only [List.map_cons, List.flatMap_cons]
    by_cases hcn : c ∈ its.map (·.name)
    · obtain ⟨i, hi, hic⟩ := List.mem_map.1 hcn
      obtain ⟨ia, ib, hits⟩ := List.append_of_mem hi
      have hndn : (its.map (·.name)).Nodup := h.nodup
      rw [hits] at hndn
      simp only [List.map_append, List.map_cons] at hndn
      have hnd2 := List.nodup_append.1 hndn
      have hca : c ∉ ia.map (·.name) := by
        intro e; exact hnd2.2.2 c e c (by simp [hic]) rfl
      have hcb : c ∉ ib.map (·.name) := by
        have := (List.nodup_cons.1 hnd2.2.1).1; rwa [hic] at this
      have hcanon := mem_canon_of_shape h.toShape i hi
      have hps := h.subs i hi
      have hsp := h.spans i hi
      have hne := h.nonempty i hi
      have hdis := h.distinct i hi
      have hfil : its.filter (fun j => decide (j.name = c)) = [i] := by
        rw [hits]; exact filter_name_unique ia ib i c hic hca hcb
      rw [hfil]
      have hcl : closedSel c its (-1) = closedOf ia i := by
        rw [hits, ← hic]; exact closedSel_tier ia ib i (by rw [hic]; exact hca)
      rw [hcl]
      have hnonempty : (closedOf ia i).isEmpty = false := rfl
      rw [buildContainer]
      simp only [hnonempty, Bool.false_eq_true, if_false]
      have hloop := subTierLoop_tier ia ib i hcanon hps hsp hne sn
      rw [← hits] at hloop
      simp only [bind, Except.bind, hloop]
      -- the last sub tier's name gives the intermediate tier's name
      obtain ⟨q, hq⟩ : ∃ q, i.subs.getLast? = some q := by
        cases hs : i.subs.getLast? with
        | none => cases hs' : i.subs with
          | nil => exact absurd hs' hne
          | cons a as => rw [hs'] at hs; simp at hs
        | some q => exact ⟨q, rfl⟩
      obtain ⟨k, hk⟩ := (hps q (List.mem_of_getLast? hq)).name
      simp only [hq, Option.map_some, hk, pure, Except.pure]
      rw [firstToken_subName i.name hcanon k]
      simp only [hdis, Bool.false_eq_true, if_false]
      have hcont : (acc.map (·.name)).contains i.name = false := by
        cases hx : (acc.map (·.name)).contains i.name with
        | false => rfl
        | true =>
          have : i.name ∈ acc.map (·.name) := by simpa using hx
          obtain ⟨a, ha, hae⟩ := List.mem_map.1 this
          exact absurd (by rw [hae, hic]; simp) (hacc a ha)
      simp only [hcont, Bool.false_eq_true, if_false, pure, Except.pure]
      have hi' : (⟨i.name, i.subs⟩ : IT) = i := rfl
      rw [hi', ih hnd' (fun x hx => hcs x (List.mem_cons_of_mem _ hx)) _ (acc ++ [i])]
      · simp
      · intro a ha
        rcases List.mem_append.1 ha with ha | ha
        · exact hacc' a ha
        · simp only [List.mem_singleton] at ha; subst ha; rw [hic]; exact hc
    · have hfil : its.filter (fun j => decide (j.name = c)) = [] := by
        apply List.filter_eq_nil_iff.2
        intro j hj; simp only [decide_eq_true_eq]; intro e; exact hcn (List.mem_map.2 ⟨j, hj, e⟩)
      rw [hfil, closedSel_absent c its _ hcn, buildContainer]
      simp only [List.isEmpty_nil, if_true, List.nil_append]
      exact ih hnd' (fun x hx => hcs x (List.mem_cons_of_mem _ hx)) sn acc hacc'

theorem sel_singletons (c : Txt) (its : List IT) :
    sel c (its.map fun i => (i.name, [i])) = its.filter fun i => decide (i.name = c) := by
  unfold sel
  induction its with
  | nil => rfl
  | cons i is ih =>
    simp only [List.map_cons, List.flatMap_cons, List.filter_cons, ih]
    by_cases h : i.name = c <;> simp [h]

theorem flatten_singletons {α} (l : List α) : (l.map fun x => [x]).flatten = l := by
  induction l with
  | nil => rfl
  | cons a as ih => simp [ih]

/-- tiers standing in canonical order are recovered by collecting them name by name -/
theorem its_group (its : List IT) (h : (its.map (·.name)).Sublist canon) :
    (canon.flatMap fun c => its.filter fun i => decide (i.name = c)) = its := by
  have := group_flatten canon canon_nodup (its.map fun i => (i.name, [i])) (by simpa [List.map_map, Function.comp_def] using h)
  rw [List.flatMap_def]
  have e : (canon.map fun c => its.filter fun i => decide (i.name = c)) = canon.map fun c => sel c (its.map fun i => (i.name, [i])) := by
    apply List.map_congr_left; intro c _; exact (sel_singletons c its).symm
  rw [e, this]
  simp only [List.flatMap_def, List.map_map, Function.comp_def]
  exact flatten_singletons its

/-- a container section as `_getSectionHeader` hands it to `_proccessContainerTierInput`: three header rows
(`name? <exists>`, `xmin = …`, `xmax = …`), then the intermediate tiers -/
def containerSection (row1 row2 row3 : Txt) (its : List IT) : Txt :=
  row1 ++ '\n' :: (row2 ++ '\n' :: (row3 ++ '\n' :: join ['\n'] (bodyLines its)))

/-- the intermediate tiers in the order the reader builds them: Praat's order `formants`, `bandwidths`,
`…_amplitudes` (`canon`) -/
def canonOrder (its : List IT) : List IT := canon.flatMap fun c => its.filter fun i => decide (i.name = c)

/-- tiers that already stand in Praat's order stay as they are -/
theorem canonOrder_of_sublist (its : List IT) (h : (its.map (·.name)).Sublist canon) : canonOrder its = its :=
  its_group its h

/-- **(e), container level** — `_proccessContainerTierInput` applied to a container section in the writer's
layout returns exactly the intermediate tiers, their sub tiers, spans and points that were written:
hierarchy, names, every numeral digit for digit — **whatever the order of the intermediate tiers in the
section**; the result lists them in Praat's order (`canonOrder`), which is the order of the section when the
section follows Praat (`container_roundtrip`). -/
theorem container_roundtrip_anyorder (row1 row2 row3 : Txt) (h1 : '\n' ∉ row1) (h2 : '\n' ∉ row2) (h3 : '\n' ∉ row3)
    (its : List IT) (h : Shape2 its) :
    processContainer (containerSection row1 row2 row3 its) = .ok (canonOrder its) := by
  unfold processContainer containerSection
  rw [pySplitN_hit _ _ _ _ h1, pySplitN_hit _ _ _ _ h2, pySplitN_hit _ _ _ _ h3, pySplitN_zero]
  simp only [List.getLast?_cons_cons, List.getLast?_singleton, Option.getD_some]
  rw [containerIndexLists_body its h.toShape]
  rw [buildContainer_lists its h canon canon_nodup (fun c hc => hc) none [] (by simp)]
  simp [canonOrder]

/-- **(e), container level**, for a section in Praat's order: the tiers come back in the order written.
(Hypotheses: the three header rows are rows; `Shape2`: distinct tiers with Praat's names, sub tiers named
`name [k]` with distinct names, at least one sub tier per tier — see `klatt_zero_formants_counterexample` —,
numerals that are `KNumeral`s, i.e. any strings `float()` accepts and `strip()` leaves alone, `knumeral_iff`.) -/
theorem container_roundtrip (row1 row2 row3 : Txt) (h1 : '\n' ∉ row1) (h2 : '\n' ∉ row2) (h3 : '\n' ∉ row3)
    (its : List IT) (h : Shape2 its) (ho : (its.map (·.name)).Sublist canon) :
    processContainer (containerSection row1 row2 row3 its) = .ok its := by
  rw [container_roundtrip_anyorder row1 row2 row3 h1 h2 h3 its h, canonOrder_of_sublist its ho]

/-! ### non-vacuity of the container round trip -/

set_option exponentiation.threshold 2000 in
theorem exIts_shape2 : Shape2 exIts := by
  refine ⟨exIts_shape, ?_, ?_, ?_⟩
  · intro i hi p hp
    simp only [exIts, List.mem_cons, List.not_mem_nil, or_false] at hi
    rcases hi with rfl | rfl <;> simp only [List.mem_cons, List.not_mem_nil, or_false] at hp
    · rcases hp with rfl | rfl <;> exact ⟨by decide, by decide⟩
    · subst hp; exact ⟨by decide, by decide⟩
  · intro i hi
    simp only [exIts, List.mem_cons, List.not_mem_nil, or_false] at hi
    rcases hi with rfl | rfl <;> simp
  · intro i hi
    simp only [exIts, List.mem_cons, List.not_mem_nil, or_false] at hi
    rcases hi with rfl | rfl <;> decide

#guard (match processContainer (containerSection (t "oral_formants? <exists>") (t "xmin = 0") (t "xmax = 1") exIts) with
        | .ok r => decide (r = exIts) | .error _ => false)

/-- the container round trip applies to the concrete example (hypotheses satisfiable) -/
example : processContainer (containerSection (t "oral_formants? <exists>") (t "xmin = 0") (t "xmax = 1") exIts) = .ok exIts :=
  container_roundtrip _ _ _ (by decide) (by decide) (by decide) exIts exIts_shape2 (by decide)

/-! ## the layout of a whole written file (shared by the whole-file theorems in `Props/C19File.lean`, `Props/C19Read.lean`) -/

/-- the numeral `_cleanNumericValues` leaves in a `head = tail` row: a zero-valued non-integer literal
(`0.0`, `0e0`) becomes `0`, and one that starts with a minus sign (`-0.0`) becomes `-0` (`zeroForm`; the sign
of a negative zero is kept since /repo commit bd8eb8f); everything else is kept -/
def cz (n : Txt) : Txt := if isIntLit n = true then n else if fclass n = some FClass.zero then zeroForm n else n

def cleanPT (p : PT) : PT := { p with pts := p.pts.map fun q => (cz q.1, cz q.2) }
def cleanIT (i : IT) : IT := { i with subs := i.subs.map cleanPT }
def cleanSec : Sec → Sec
  | .tier p => .tier (cleanPT p)
  | .cont n its => .cont n (its.map cleanIT)
def cleanWSec (w : WSec) : WSec := { w with sec := cleanSec w.sec }

/-- rows of a top-level tier section as they stand in the file -/
def tierLines (p : PT) : List Txt :=
  [p.name ++ t "? <exists>", t "xmin = " ++ p.xmin, t "xmax = " ++ p.xmax] ++
    (if noPointsHeader.contains p.name then [] else [t "points: size = " ++ natDec p.pts.length]) ++
    pointRows [] 0 p.pts

/-- rows of a section (tier or container) as they stand in the file -/
def wsecLines (w : WSec) : List Txt :=
  match w.sec with
  | .tier p => tierLines p
  | .cont name its =>
    [name ++ t "? <exists>"] ++
      (match w.span with | some (a, b) => [t "xmin = " ++ a, t "xmax = " ++ b] | none => []) ++ bodyLines its

/-- all rows of the file `Klattgrid.save` writes; the file is these rows, each followed by a newline -/
def fileLines (xmin xmax : Txt) (secs : List WSec) : List Txt :=
  [t "File type = \"ooTextFile\"", t "Object class = \"KlattGrid\"", [], t "xmin = " ++ xmin, t "xmax = " ++ xmax] ++
    (secs.map wsecLines).flatten

/-! ## (d) point objects: the two layouts, together -/

/-- **(d)** `read (write po) = po` at the numeral level, for every number of points: PointProcess through
`open1DPointObject`, PitchTier / DurationTier through `open2DPointObject` (the proofs are in
`Props/C19PointShort.lean`) -/
theorem pointobj_roundtrip (p : PO) :
    (PO.Ok1 p → open1D p.text = .ok p) ∧ (PO.Ok2 p → open2D p.text = .ok p) :=
  ⟨pointobj_roundtrip_1d p, pointobj_roundtrip_2d p⟩

/-- the long (Praat) and the short (praatio) text layout of the same data open to the same object, for every
number of points (for empty 2-D objects since the repair of `_parseNormalHeader`, /repo commit 3bc936d).
One hypothesis for both layouts: the class name, and numerals that are any strings `float()` accepts and
`strip()` leaves alone (`PO.Ok1` / `PO.Ok2`). -/
theorem pointobj_long_short_agree (p : PO) :
    (PO.Ok1 p → open1D (p.longText false) = open1D p.text) ∧
    (PO.Ok2 p → open2D (p.longText true) = open2D p.text) := by
  constructor
  · intro h; rw [pointobj_long_1d p h, pointobj_roundtrip_1d p h]
  · intro h; rw [pointobj_long_2d_all p h, pointobj_roundtrip_2d p h]

end C19
