import PraatModel.Zero
import PraatModel.Props.C16
import PraatModel.Props.C12
import PraatModel.Props.C08
import PraatModel.Props.C11

/-!
# C18 — zero-crossing search finds real crossings; splicing keeps audio and text in step

Theorems about `PraatModel/Zero.lean` for recordings of any length, any targets and steps (exact
arithmetic; times in ticks of `1/(rate·m)` s, see `Zero.lean`).

## hypotheses (audit)

Every hypothesis of a registered theorem is one of:

* **the encoding**: `0 < m` (ticks per sample; `m = 0` encodes no time at all).
* **the domain of C16** for the byte level (`searchWav_*`, `getSamples_slice`, `spliceWav_region_samples`): a
  recording made of whole samples (`C16.Whole`; otherwise `struct.error`, `C16.convert_ragged`), of a width
  the library knows (1/2/4/8; otherwise `KeyError`, `C16.convert_unknown_width`; C18 quantifies over widths
  1/2/4), with a positive frame rate (rate 0: `duration` itself and `Wav.open` raise `ZeroDivisionError`,
  the `wave` module refuses to write such a file).  The step check needs none of them
  (`searchWav_small_step`).  A recording with NO samples is covered (`empty_recording_error`).
* **enforced by the code, the excluded case being a theorem**: `2·m ≤ step` (`search_small_step`:
  `ArgumentError`); no interval straddles the insertion point (`splice_tier_straddler`: `CollisionError`);
  `0 < d` (`splice_tier_empty_segment`); region start < end (`splice_region_reversed`); the search returns
  for every boundary (`zcTier_I_search_error`); pairwise different tier names (`addTier` refuses a clash,
  C12); `ITier.WF` / `PTier.WF` / `Stripped`: the invariants every constructor of the library establishes.
* **the content of the statement**: `Flat` (no crossing), all-zero, the target on a sample position with room
  to its right (`all_zero_end` shows both are needed), the fresh label of `splice_one_new`, "the textgrid
  ended where the audio ended" of `splice_sync`.
* **needed, and the real code misbehaves without it** (a `_counterexample` theorem each, replayed on the
  code): a monotone, non-collapsing search in `zcTier_I_mono` (`tgBoundaries_collapse_counterexample`);
  completeness of the search is not a hypothesis but is not a theorem either (`incomplete_counterexample`).
* **were needed and are now enforced by the code** (defect C18-3, repaired by e7d7671; section 14b): an insertion
  point inside the textgrid's span (`splice_outside_rejected`; `splice_outside_counterexample` records what the
  unrepaired code returned), a segment with the audio's rate and width (`splice_params_rejected`;
  `splice_segment_params_counterexample`), a region that is not reversed (`splice_reversed_rejected`).

Removed by the audit: label already stripped (`splice_*`: the entry carries `pyStrip label`), insertion point
inside the tier's span (`splice_tier_spec`, `splice_one_new`, `splice_tier_straddler`, `insertSpace_tier_hi`),
"the first entry's start" in `zcTier_I_search_error` (now any boundary of any entry).
-/

open Audio Zero

namespace C18

/-! ## 1. `list.index`, `utils.find` -/

theorem index?_some {β} [BEq β] [LawfulBEq β] (l : List β) (v : β) (i : Nat) (h : index? l v = some i) :
    i < l.length ∧ l[i]? = some v ∧ ∀ j, j < i → l[j]? ≠ some v := by
  induction l generalizing i with
  | nil => simp [index?] at h
  | cons x xs ih =>
    unfold index? at h
    by_cases hx : (x == v) = true
    · rw [if_pos hx] at h
      cases h
      exact ⟨by simp, by simp [eq_of_beq hx], by intro j hj; omega⟩
    · rw [if_neg hx] at h
      cases hr : index? xs v with
      | none => rw [hr] at h; simp at h
      | some k =>
        rw [hr] at h
        simp only [Option.map_some, Option.some.injEq] at h
        subst h
        obtain ⟨h1, h2, h3⟩ := ih k hr
        refine ⟨by simp; omega, by simpa using h2, ?_⟩
        intro j hj
        cases j with
        | zero =>
          simp only [List.getElem?_cons_zero, ne_eq, Option.some.injEq]
          intro hxe; apply hx; rw [hxe]; exact beq_self_eq_true v
        | succ j => simpa using h3 j (by omega)

theorem index?_none {β} [BEq β] [LawfulBEq β] (l : List β) (v : β) : index? l v = none ↔ v ∉ l := by
  induction l with
  | nil => simp [index?]
  | cons x xs ih =>
    unfold index?
    by_cases hx : (x == v) = true
    · rw [if_pos hx]; simp [eq_of_beq hx]
    · rw [if_neg hx]
      have hne : ¬ v = x := by intro h; apply hx; rw [h]; exact beq_self_eq_true x
      simp [ih, hne]

theorem index?_head {β} [BEq β] [LawfulBEq β] (x : β) (xs : List β) : index? (x :: xs) x = some 0 := by
  simp [index?]

/-- `utils.find`: the index returned holds the value; forward it is the first such index, with
`reverse` the last -/
theorem find_some {β} [BEq β] [LawfulBEq β] (l : List β) (v : β) (rev : Bool) (i : Nat)
    (h : find l v rev = some i) :
    i < l.length ∧ l[i]? = some v ∧
      (rev = false → ∀ j, j < i → l[j]? ≠ some v) ∧ (rev = true → ∀ j, i < j → l[j]? ≠ some v) := by
  unfold find at h
  cases rev with
  | false =>
    simp only [Bool.false_eq_true, if_false] at h
    obtain ⟨h1, h2, h3⟩ := index?_some l v i h
    exact ⟨h1, h2, fun _ => h3, by simp⟩
  | true =>
    simp only [if_true] at h
    cases hr : index? l.reverse v with
    | none => rw [hr] at h; simp at h
    | some k =>
      rw [hr] at h
      simp only [Option.map_some, Option.some.injEq] at h
      obtain ⟨h1, h2, h3⟩ := index?_some l.reverse v k hr
      rw [List.length_reverse] at h1
      have hi : i < l.length := by omega
      refine ⟨hi, ?_, by simp, ?_⟩
      · rw [List.getElem?_reverse h1] at h2
        have : l.length - 1 - k = i := by omega
        rw [this] at h2; exact h2
      · intro _ j hj
        by_cases hjl : j < l.length
        · have := h3 (l.length - 1 - j) (by omega)
          rw [List.getElem?_reverse (by omega)] at this
          have e : l.length - 1 - (l.length - 1 - j) = j := by omega
          rw [e] at this; exact this
        · rw [List.getElem?_eq_none (by omega)]; simp

theorem find_none {β} [BEq β] [LawfulBEq β] (l : List β) (v : β) (rev : Bool) (h : v ∉ l) : find l v rev = none := by
  unfold find
  cases rev with
  | false => simp only [Bool.false_eq_true, if_false]; exact (index?_none l v).2 h
  | true =>
    simp only [if_true]
    rw [(index?_none l.reverse v).2 (by simpa using h)]; rfl

/-! ## 2. sign changes -/

theorem changeList_length (xs : List Int) : (changeList xs).length = xs.length - 1 := by
  induction xs using changeList.induct with
  | case1 a b rest ih => simp only [changeList, List.length_cons, ih]; omega
  | case2 l h =>
    match l, h with
    | [], _ => rfl
    | [_], _ => rfl
    | a :: b :: rest, h => exact absurd rfl (h a b rest)

theorem changeList_get (xs : List Int) (i : Nat) (h : i + 1 < xs.length) :
    (changeList xs)[i]? = some (sign (xs.getD i 0) != sign (xs.getD (i + 1) 0)) := by
  induction xs using changeList.induct generalizing i with
  | case1 a b rest ih =>
    cases i with
    | zero => simp [changeList]
    | succ i =>
      simp only [changeList, List.getElem?_cons_succ]
      have := ih i (by simp at h ⊢; omega)
      simpa using this
  | case2 l hl =>
    match l, hl with
    | [], _ => simp at h
    | [_], _ => simp at h
    | a :: b :: rest, hl => exact absurd rfl (hl a b rest)

theorem mem_changeList (xs : List Int) (h : true ∈ changeList xs) :
    ∃ a ∈ xs, ∃ b ∈ xs, sign a ≠ sign b := by
  induction xs using changeList.induct with
  | case1 a b rest ih =>
    simp only [changeList, List.mem_cons] at h
    rcases h with h | h
    · refine ⟨a, by simp, b, by simp, ?_⟩
      intro he; rw [he] at h; simp at h
    · obtain ⟨x, hx, y, hy, hxy⟩ := ih h
      exact ⟨x, List.mem_cons_of_mem _ hx, y, List.mem_cons_of_mem _ hy, hxy⟩
  | case2 l hl =>
    match l, hl with
    | [], _ => simp [changeList] at h
    | [_], _ => simp [changeList] at h
    | a :: b :: rest, hl => exact absurd rfl (hl a b rest)

/-! ## 3. (a) crossing_genuine: an index returned by the window scan is a genuine crossing -/

theorem getD_of_getElem? (xs : List Int) (i : Nat) (v : Int) (h : xs[i]? = some v) : xs.getD i 0 = v := by
  simp [List.getD, h]

/-- `_getNearestZero`: the sample at the returned index is 0 -/
theorem nearestZero_zero (xs : List Int) (rev : Bool) (i : Nat) (h : nearestZero xs rev = some i) :
    i < xs.length ∧ xs.getD i 0 = 0 := by
  obtain ⟨h1, h2, _⟩ := find_some xs 0 rev i h
  exact ⟨h1, getD_of_getElem? xs i 0 h2⟩

/-- `_getZeroThresholdCrossing`: the returned index is one of two adjacent samples of different sign -/
theorem thresholdCrossing_spec (xs : List Int) (rev : Bool) (i : Nat) (h : thresholdCrossing xs rev = some i) :
    ∃ j, j + 1 < xs.length ∧ sign (xs.getD j 0) ≠ sign (xs.getD (j + 1) 0) ∧ (i = j ∨ i = j + 1) := by
  unfold thresholdCrossing at h
  cases hf : find (changeList xs) true rev with
  | none => rw [hf] at h; simp at h
  | some j =>
    rw [hf] at h
    simp only [Option.map_some, Option.some.injEq] at h
    obtain ⟨h1, h2, _⟩ := find_some (changeList xs) true rev j hf
    rw [changeList_length] at h1
    have hj : j + 1 < xs.length := by omega
    rw [changeList_get xs j hj] at h2
    refine ⟨j, hj, ?_, ?_⟩
    · intro he
      simp only [Option.some.injEq] at h2
      rw [he] at h2; simp at h2
    · unfold closerOfPair at h
      split at h <;> omega

/-- **crossing_genuine**: whenever the window scan (`_getNearestZero`, else `_getZeroThresholdCrossing`)
returns index `i`, sample `i` of the window is 0 or differs in sign from its right or left neighbour -/
theorem crossing_genuine (xs : List Int) (rev : Bool) (i : Nat) (h : nextIdx xs rev = some i) :
    Genuine xs i := by
  unfold nextIdx at h
  cases hz : nearestZero xs rev with
  | some k =>
    rw [hz] at h
    simp only [Option.some.injEq] at h
    subst h
    obtain ⟨h1, h2⟩ := nearestZero_zero xs rev k hz
    exact ⟨h1, Or.inl h2⟩
  | none =>
    rw [hz] at h
    obtain ⟨j, hj, hs, hij⟩ := thresholdCrossing_spec xs rev i h
    rcases hij with rfl | rfl
    · exact ⟨by omega, Or.inr (Or.inl ⟨hj, hs⟩)⟩
    · exact ⟨hj, Or.inr (Or.inr ⟨by omega, by simpa using hs⟩)⟩

/-- a zero in the window is preferred to a sign change -/
theorem nextIdx_prefers_zero (xs : List Int) (rev : Bool) (h : (0 : Int) ∈ xs) :
    ∃ i, nextIdx xs rev = some i ∧ xs.getD i 0 = 0 := by
  unfold nextIdx
  cases hz : nearestZero xs rev with
  | some k => exact ⟨k, rfl, (nearestZero_zero xs rev k hz).2⟩
  | none =>
    exfalso
    unfold nearestZero find at hz
    cases rev with
    | false =>
      simp only [Bool.false_eq_true, if_false] at hz
      exact (index?_none xs 0).1 hz h
    | true =>
      simp only [if_true] at hz
      cases hr : index? xs.reverse 0 with
      | none => exact (index?_none xs.reverse 0).1 hr (by simpa using h)
      | some k => rw [hr] at hz; simp at hz

/-- no zero and no sign change in the window: nothing is found -/
theorem nextIdx_none (xs : List Int) (rev : Bool) (h0 : (0 : Int) ∉ xs) (hs : ∀ a ∈ xs, ∀ b ∈ xs, sign a = sign b) :
    nextIdx xs rev = none := by
  unfold nextIdx nearestZero
  rw [find_none xs 0 rev h0]
  unfold thresholdCrossing
  rw [find_none (changeList xs) true rev]
  · rfl
  · intro ht
    obtain ⟨a, ha, b, hb, hab⟩ := mem_changeList xs ht
    exact hab (hs a ha b hb)


/-! ## 4. windows of a recording: Python slices of the sample list -/

theorem slice_length_le (xs : List Int) (i j : Int) (hi : 0 ≤ i) :
    (slice xs i j).length ≤ xs.length - i.toNat := by
  have hci : pyClamp xs.length i = min i.toNat xs.length := by
    unfold pyClamp; rw [if_neg (by omega)]
  have hcj : pyClamp xs.length j ≤ xs.length := by
    unfold pyClamp; split <;> omega
  unfold slice
  simp only [List.length_drop, List.length_take]
  rw [hci]
  omega

theorem slice_getD (xs : List Int) (i j : Int) (hi : 0 ≤ i) (z : Nat) (hz : z < (slice xs i j).length) :
    (slice xs i j).getD z 0 = xs.getD (i.toNat + z) 0 := by
  have hlen := slice_length_le xs i j hi
  have hci : pyClamp xs.length i = i.toNat := by
    unfold pyClamp; rw [if_neg (by omega)]; omega
  unfold slice at hz ⊢
  rw [hci] at hz ⊢
  simp only [List.length_drop, List.length_take] at hz
  simp only [List.getD_eq_getElem?_getD, List.getElem?_drop]
  rw [List.getElem?_take_of_lt (by omega)]

/-- a genuine crossing of a window is a genuine crossing of the recording, at the window's offset -/
theorem genuine_of_slice (xs : List Int) (i j : Int) (hi : 0 ≤ i) (z : Nat) (h : Genuine (slice xs i j) z) :
    Genuine xs (i.toNat + z) := by
  obtain ⟨hz, hc⟩ := h
  have hlen := slice_length_le xs i j hi
  refine ⟨by omega, ?_⟩
  rw [slice_getD xs i j hi z hz] at hc
  rcases hc with h0 | ⟨h1, h2⟩ | ⟨h1, h2⟩
  · exact Or.inl h0
  · rw [slice_getD xs i j hi (z + 1) h1] at h2
    exact Or.inr (Or.inl ⟨by omega, h2⟩)
  · rw [slice_getD xs i j hi (z - 1) (by omega)] at h2
    refine Or.inr (Or.inr ⟨by omega, ?_⟩)
    have e : i.toNat + z - 1 = i.toNat + (z - 1) := by omega
    rw [e]; exact h2

theorem mem_of_mem_slice (xs : List Int) (i j : Int) (x : Int) (h : x ∈ slice xs i j) : x ∈ xs := by
  unfold slice at h
  exact List.mem_of_mem_take (List.mem_of_mem_drop h)

/-! ## 5. one window of the search -/

theorem getInterval_fst (start d mx : Int) (rev : Bool) :
    (getInterval start d mx rev).1 = if (if rev = true then start - d else start) < 0 then 0
      else (if rev = true then start - d else start) := by
  unfold getInterval
  cases rev <;> simp only [Bool.false_eq_true, if_false, if_true] <;> split <;> (try split) <;> rfl

theorem getInterval_fst_nonneg (start d mx : Int) (rev : Bool) : 0 ≤ (getInterval start d mx rev).1 := by
  rw [getInterval_fst]
  split <;> omega

/-- what a window of the search can return (repaired code): the time `k·m` of a sample `k` of the
recording that is a genuine crossing -/
def Cand (m : Nat) (xs : List Int) (t : Int) : Prop :=
  ∃ k : Nat, t = (k : Int) * (m : Int) ∧ Genuine xs k

/-- the window handed to `getSamples` is never reversed (so `_validateTimeRange` never raises inside the search):
backwards from a start `> 0` that is not beyond `mx + d`, forwards from a start `≥ 0` (after the clamping) not
beyond `mx` -/
theorem getInterval_ordered (start d mx : Int) (rev : Bool) (hd : 0 ≤ d)
    (h : if rev = true then 0 ≤ start ∧ start - d ≤ mx else 0 ≤ start + d ∧ start ≤ mx) :
    (getInterval start d mx rev).1 ≤ (getInterval start d mx rev).2 := by
  unfold getInterval
  cases rev
  · simp only [Bool.false_eq_true, if_false] at h ⊢
    split
    · simp only; omega
    · split <;> simp only <;> omega
  · simp only [if_true] at h ⊢
    split
    · simp only; omega
    · split <;> simp only <;> omega

/-- whatever a window returns is the time of a genuine crossing of the recording -/
theorem iter_cand (m : Nat) (hm : 0 < m) (xs : List Int) (dur start : Int) (within : Bool) (step : Int) (rev : Bool)
    (o : Option Int) (h : iterZeroCrossings (listReader m xs) m dur start within step rev = .ok o) :
    ∀ t, o = some t → Cand m xs t := by
  unfold iterZeroCrossings at h
  cases within with
  | false =>
    simp only [Bool.not_false, if_true, Except.ok.injEq] at h
    subst h; intro t ht; cases ht
  | true =>
    simp only [Bool.not_true, Bool.false_eq_true, if_false, listReader] at h
    by_cases hrev : (getInterval start step dur rev).2 < (getInterval start step dur rev).1
    · rw [if_pos hrev] at h; cases h
    rw [if_neg hrev] at h
    simp only [Except.ok.injEq] at h
    subst h
    intro t ht
    unfold findNextZeroCrossing at ht
    have hq0 := C16.roundHalfEven_nonneg _ m hm (getInterval_fst_nonneg start step dur rev)
    generalize roundHalfEven (getInterval start step dur rev).1 m = q at *
    have hc0 : (0 : Int) ≤ ((clampSample q xs.length : Nat) : Int) := by omega
    cases hn : nextIdx (slice xs ((clampSample q xs.length : Nat) : Int)
        ((clampSample (roundHalfEven (getInterval start step dur rev).2 m) xs.length : Nat) : Int)) rev with
    | none => rw [hn] at ht; simp at ht
    | some z =>
      rw [hn] at ht
      simp only [Option.map_some, Option.some.injEq] at ht
      have hgs := crossing_genuine _ rev z hn
      have hg := genuine_of_slice xs _ _ hc0 z hgs
      -- the window is not empty, so its start index was not clamped: it is `q` itself
      have hlen := slice_length_le xs ((clampSample q xs.length : Nat) : Int)
        ((clampSample (roundHalfEven (getInterval start step dur rev).2 m) xs.length : Nat) : Int) hc0
      have hzlt := hgs.1
      have hcq : ((clampSample q xs.length : Nat) : Int) = q := by
        unfold clampSample at hlen hzlt ⊢; omega
      rw [Int.toNat_natCast] at hg
      refine ⟨clampSample q xs.length + z, ?_, hg⟩
      rw [← ht, Int.natCast_add, hcq, Int.add_mul]

/-- a window of the search never raises on a plain sample list: its bounds are ordered -/
theorem iter_ok (m : Nat) (xs : List Int) (dur start : Int) (within : Bool) (step : Int) (rev : Bool)
    (hord : within = true → (getInterval start step dur rev).1 ≤ (getInterval start step dur rev).2) :
    ∃ o, iterZeroCrossings (listReader m xs) m dur start within step rev = .ok o := by
  unfold iterZeroCrossings
  cases within with
  | false => exact ⟨none, rfl⟩
  | true =>
    simp only [Bool.not_true, Bool.false_eq_true, if_false, listReader]
    have := hord rfl
    rw [if_neg (by omega)]
    exact ⟨_, rfl⟩

/-- the cursors of the search: the left one never beyond the end, the right one never before the start -/
def CurOk (dur : Int) (a b : Int) : Prop := a ≤ dur ∧ 0 ≤ b

theorem round_ord (dur step : Int) (m : Nat) (a b : Int) (hs : 0 ≤ step) (hc : CurOk dur a b) :
    (decide (0 < a) = true → (getInterval a (step + m) dur true).1 ≤ (getInterval a (step + m) dur true).2) ∧
    (decide (b + step < dur) = true → (getInterval b (step + m) dur false).1 ≤ (getInterval b (step + m) dur false).2) := by
  obtain ⟨ha, hb⟩ := hc
  constructor
  · intro h
    have h' : 0 < a := of_decide_eq_true h
    exact getInterval_ordered a (step + m) dur true (by omega) (by simp only [if_true]; omega)
  · intro h
    have h' : b + step < dur := of_decide_eq_true h
    exact getInterval_ordered b (step + m) dur false (by omega) (by simp only [Bool.false_eq_true, if_false]; omega)

/-- both candidates of a round are crossings -/
theorem round_cand (m : Nat) (hm : 0 < m) (xs : List Int) (dur step a b : Int) (l r : Option Int)
    (h : Zero.round (listReader m xs) m dur step a b = .ok (l, r)) :
    (∀ t, l = some t → Cand m xs t) ∧ (∀ t, r = some t → Cand m xs t) := by
  unfold Zero.round at h
  cases hl : iterZeroCrossings (listReader m xs) m dur a (decide (0 < a)) (step + m) true with
  | error e => rw [hl] at h; cases h
  | ok l' =>
    rw [hl] at h
    simp only at h
    cases hr : iterZeroCrossings (listReader m xs) m dur b (decide (b + step < dur)) (step + m) false with
    | error e => rw [hr] at h; cases h
    | ok r' =>
      rw [hr] at h
      simp only [Except.ok.injEq, Prod.mk.injEq] at h
      obtain ⟨rfl, rfl⟩ := h
      exact ⟨iter_cand m hm xs dur a _ _ true l' hl, iter_cand m hm xs dur b _ _ false r' hr⟩

/-- one round on a plain sample list never raises — for a non-negative step and cursors as the search keeps them
(`CurOk`; the windows are then ordered, so the `ArgumentError` of a reversed range cannot arise) — and both
candidates are crossings -/
theorem round_list (m : Nat) (hm : 0 < m) (xs : List Int) (dur step a b : Int) (hs : 0 ≤ step) (hc : CurOk dur a b) :
    ∃ l r, Zero.round (listReader m xs) m dur step a b = .ok (l, r) ∧
      (∀ t, l = some t → Cand m xs t) ∧ (∀ t, r = some t → Cand m xs t) := by
  have ⟨o1, o2⟩ := round_ord dur step m a b hs hc
  obtain ⟨l, hl⟩ := iter_ok m xs dur a (decide (0 < a)) (step + m) true o1
  obtain ⟨r, hr⟩ := iter_ok m xs dur b (decide (b + step < dur)) (step + m) false o2
  have hround : Zero.round (listReader m xs) m dur step a b = .ok (l, r) := by
    unfold Zero.round; rw [hl]; simp only; rw [hr]
  exact ⟨l, r, hround, round_cand m hm xs dur step a b l r hround⟩

/-! ## 6. (f) `chooseClosestTime` -/

/-- **closest**: the value returned is one of the candidates, no candidate is closer to the target,
and on a tie the first (left) candidate wins -/
theorem chooseClosest_spec (target : Int) (a b : Option Int) (r : Int) (h : chooseClosestTime target a b = .ok r) :
    (a = some r ∨ b = some r) ∧
    (∀ x, a = some x → (r - target).natAbs ≤ (x - target).natAbs) ∧
    (∀ x, b = some x → (r - target).natAbs ≤ (x - target).natAbs) ∧
    (∀ x y, a = some x → b = some y → (x - target).natAbs = (y - target).natAbs → r = x) := by
  cases a with
  | none =>
    cases b with
    | none => simp [chooseClosestTime] at h
    | some y =>
      simp only [chooseClosestTime, Except.ok.injEq] at h
      subst h; simp
  | some x =>
    cases b with
    | none =>
      simp only [chooseClosestTime, Except.ok.injEq] at h
      subst h; simp
    | some y =>
      simp only [chooseClosestTime] at h
      split at h
      · simp only [Except.ok.injEq] at h; subst h
        refine ⟨Or.inl rfl, ?_, ?_, ?_⟩
        · intro x' hx'; cases hx'; exact Nat.le_refl _
        · intro y' hy'; cases hy'; assumption
        · intro x' y' hx' _ _; cases hx'; rfl
      · simp only [Except.ok.injEq] at h; subst h
        refine ⟨Or.inr rfl, ?_, ?_, ?_⟩
        · intro x' hx'; cases hx'; omega
        · intro y' hy'; cases hy'; exact Nat.le_refl _
        · intro x' y' hx' hy' he; cases hx'; cases hy'; omega

theorem chooseClosest_ok_of_some (target : Int) (a b : Option Int) (h : (a.isSome || b.isSome) = true) :
    ∃ r, chooseClosestTime target a b = .ok r := by
  cases a with
  | none =>
    cases b with
    | none => simp at h
    | some y => exact ⟨y, rfl⟩
  | some x =>
    cases b with
    | none => exact ⟨x, rfl⟩
    | some y =>
      simp only [chooseClosestTime]
      split
      · exact ⟨x, rfl⟩
      · exact ⟨y, rfl⟩

/-- no candidate on either side is the only way to `ArgumentError` (the loop never calls it so) -/
theorem chooseClosest_error (target : Int) (a b : Option Int) (e : Err) (h : chooseClosestTime target a b = .error e) :
    a = none ∧ b = none ∧ e = .ArgumentError := by
  cases a with
  | none =>
    cases b with
    | none => simp only [chooseClosestTime, Except.error.injEq] at h; exact ⟨rfl, rfl, h.symm⟩
    | some y => simp [chooseClosestTime] at h
  | some x =>
    cases b with
    | none => simp [chooseClosestTime] at h
    | some y => simp only [chooseClosestTime] at h; split at h <;> cases h

/-! ## 7. the loop: what it returns -/

/-- a value returned by the loop is the choice between the two candidates of some round whose cursors
satisfy every invariant of the cursor update -/
theorem loop_ok_inv (rd : Reader) (m : Nat) (dur target step : Int) (Inv : Int → Int → Prop)
    (hstep : ∀ a b, Inv a b → Inv (a - step) (b + step)) (t : Int) :
    ∀ fuel left right, Inv left right → loop rd m dur target step fuel left right = some (.ok t) →
      ∃ a b l r, Inv a b ∧ Zero.round rd m dur step a b = .ok (l, r) ∧ (l.isSome || r.isSome) = true ∧
        chooseClosestTime target l r = .ok t := by
  intro fuel
  induction fuel with
  | zero => intro left right _ h; simp [loop] at h
  | succ f ih =>
    intro left right hinv h
    unfold loop at h
    cases hr : Zero.round rd m dur step left right with
    | error e => rw [hr] at h; simp at h
    | ok p =>
      obtain ⟨l, r⟩ := p
      rw [hr] at h
      simp only at h
      by_cases hs : (l.isSome || r.isSome) = true
      · rw [if_pos hs] at h
        simp only [Option.some.injEq] at h
        exact ⟨left, right, l, r, hinv, hr, hs, h⟩
      · rw [if_neg hs] at h
        by_cases hx : left < 0 ∧ dur < right
        · rw [if_pos hx] at h; simp at h
        · rw [if_neg hx] at h
          exact ih _ _ (hstep _ _ hinv) h

/-- an error returned by the loop is an error of a window read, `FindZeroCrossingError`, or never
(`chooseClosestTime` is only called with a candidate) -/
theorem loop_error (rd : Reader) (m : Nat) (dur target step : Int) (e : Err) :
    ∀ fuel left right, loop rd m dur target step fuel left right = some (.error e) →
      e = .FindZeroCrossingError ∨ ∃ a b, Zero.round rd m dur step a b = .error e := by
  intro fuel
  induction fuel with
  | zero => intro left right h; simp [loop] at h
  | succ f ih =>
    intro left right h
    unfold loop at h
    cases hr : Zero.round rd m dur step left right with
    | error e' =>
      rw [hr] at h
      simp only [Option.some.injEq, Except.error.injEq] at h
      subst h
      exact Or.inr ⟨left, right, hr⟩
    | ok p =>
      obtain ⟨l, r⟩ := p
      rw [hr] at h
      simp only at h
      by_cases hs : (l.isSome || r.isSome) = true
      · rw [if_pos hs] at h
        obtain ⟨v, hv⟩ := chooseClosest_ok_of_some target l r hs
        rw [hv] at h; simp at h
      · rw [if_neg hs] at h
        by_cases hx : left < 0 ∧ dur < right
        · rw [if_pos hx] at h
          simp only [Option.some.injEq, Except.error.injEq] at h
          exact Or.inl h.symm
        · rw [if_neg hx] at h
          exact ih _ _ h

/-- `loop_error` with an invariant of the cursor update -/
theorem loop_error_inv (rd : Reader) (m : Nat) (dur target step : Int) (e : Err) (Inv : Int → Int → Prop)
    (hstep : ∀ a b, Inv a b → Inv (a - step) (b + step)) :
    ∀ fuel left right, Inv left right → loop rd m dur target step fuel left right = some (.error e) →
      e = .FindZeroCrossingError ∨ ∃ a b, Inv a b ∧ Zero.round rd m dur step a b = .error e := by
  intro fuel
  induction fuel with
  | zero => intro left right _ h; simp [loop] at h
  | succ f ih =>
    intro left right hinv h
    unfold loop at h
    cases hr : Zero.round rd m dur step left right with
    | error e' =>
      rw [hr] at h
      simp only [Option.some.injEq, Except.error.injEq] at h
      subst h
      exact Or.inr ⟨left, right, hinv, hr⟩
    | ok p =>
      obtain ⟨l, r⟩ := p
      rw [hr] at h
      simp only at h
      by_cases hs : (l.isSome || r.isSome) = true
      · rw [if_pos hs] at h
        obtain ⟨v, hv⟩ := chooseClosest_ok_of_some target l r hs
        rw [hv] at h; simp at h
      · rw [if_neg hs] at h
        by_cases hx : left < 0 ∧ dur < right
        · rw [if_pos hx] at h
          simp only [Option.some.injEq, Except.error.injEq] at h
          exact Or.inl h.symm
        · rw [if_neg hx] at h
          exact ih _ _ (hstep _ _ hinv) h

/-! ## 8. (b) search_terminates -/

/-- more fuel never changes a result -/
theorem loop_mono (rd : Reader) (m : Nat) (dur target step : Int) (v : Except Err Int) :
    ∀ fuel left right, loop rd m dur target step fuel left right = some v →
      ∀ k, loop rd m dur target step (fuel + k) left right = some v := by
  intro fuel
  induction fuel with
  | zero => intro left right h; simp [loop] at h
  | succ f ih =>
    intro left right h k
    have e : f + 1 + k = (f + k) + 1 := by omega
    rw [e]
    unfold loop at h ⊢
    cases hr : Zero.round rd m dur step left right with
    | error e' => rw [hr] at h; exact h
    | ok p =>
      obtain ⟨l, r⟩ := p
      rw [hr] at h
      simp only at h ⊢
      by_cases hs : (l.isSome || r.isSome) = true
      · rw [if_pos hs] at h ⊢; exact h
      · rw [if_neg hs] at h ⊢
        by_cases hx : left < 0 ∧ dur < right
        · rw [if_pos hx] at h ⊢; exact h
        · rw [if_neg hx] at h ⊢
          exact ih _ _ h k

/-- the termination measure: with `fuel` rounds left the loop certainly leaves if the left cursor is
below `(fuel-1)·step` and the right cursor within `(fuel-1)·step` of the end -/
theorem loop_terminates (rd : Reader) (m : Nat) (dur target step : Int) :
    ∀ (fuel : Nat) (left right : Int), left < (fuel : Int) * step → dur - right < (fuel : Int) * step →
      loop rd m dur target step (fuel + 1) left right ≠ none := by
  intro fuel
  induction fuel with
  | zero =>
    intro left right h1 h2
    simp only [Int.natCast_zero, Int.zero_mul] at h1 h2
    unfold loop
    cases hr : Zero.round rd m dur step left right with
    | error e' => simp
    | ok p =>
      obtain ⟨l, r⟩ := p
      simp only
      by_cases hs : (l.isSome || r.isSome) = true
      · rw [if_pos hs]; simp
      · rw [if_neg hs, if_pos ⟨h1, by omega⟩]; simp
  | succ f ih =>
    intro left right h1 h2
    unfold loop
    cases hr : Zero.round rd m dur step left right with
    | error e' => simp
    | ok p =>
      obtain ⟨l, r⟩ := p
      simp only
      by_cases hs : (l.isSome || r.isSome) = true
      · rw [if_pos hs]; simp
      · rw [if_neg hs]
        by_cases hx : left < 0 ∧ dur < right
        · rw [if_pos hx]; simp
        · rw [if_neg hx]
          have e : ((f + 1 : Nat) : Int) * step = (f : Int) * step + step := by
            rw [Int.natCast_add, Int.add_mul]; simp
          rw [e] at h1 h2
          exact ih _ _ (by omega) (by omega)

theorem searchBound_spec (dur step : Int) (hs : 0 < step) :
    ∃ f : Nat, searchBound dur step = f + 1 ∧ max dur 0 < (f : Int) * step := by
  unfold searchBound
  refine ⟨((max dur 0) / step).toNat + 1, rfl, ?_⟩
  generalize hM : max dur 0 = M
  have hM0 : 0 ≤ M := by omega
  have hq : 0 ≤ M / step := Int.ediv_nonneg hM0 (by omega)
  have hlt : M < step * (M / step) + step := Int.lt_mul_ediv_self_add hs
  have e : (((M / step).toNat + 1 : Nat) : Int) * step = step * (M / step) + step := by
    rw [Int.natCast_add, Int.toNat_of_nonneg hq, Int.add_mul, Int.mul_comm]; simp
  rw [e]
  exact hlt

/-- **search_terminates**: for every reader, recording, target and step the loop leaves within
`searchBound dur step = max(duration, 0) / step + 2` rounds — a bound that does not depend on the
target (the cursors start inside the recording): the fuelled function with at least that much fuel
never runs out of fuel and returns what `search` returns -/
theorem search_terminates (rd : Reader) (m : Nat) (hm : 0 < m) (dur target step : Int) (n : Nat)
    (hn : searchBound dur step ≤ n) :
    findFuel rd m dur target step n = some (search rd m dur target step) := by
  have key : ∀ n, searchBound dur step ≤ n → ∃ v, findFuel rd m dur target step n = some v := by
    intro n hn
    unfold findFuel
    by_cases hs : step < 2 * (m : Int)
    · rw [if_pos hs]; exact ⟨_, rfl⟩
    · rw [if_neg hs]
      obtain ⟨f, hf, h1⟩ := searchBound_spec dur step (by omega)
      have hne := loop_terminates rd m dur target step f (min target dur) (max target 0) (by omega) (by omega)
      cases hl : loop rd m dur target step (f + 1) (min target dur) (max target 0) with
      | none => exact absurd hl hne
      | some v =>
        have := loop_mono rd m dur target step v (f + 1) _ _ hl (n - (f + 1))
        have e : f + 1 + (n - (f + 1)) = n := by omega
        rw [e] at this
        exact ⟨v, this⟩
  obtain ⟨v0, hv0⟩ := key _ (Nat.le_refl _)
  obtain ⟨v, hv⟩ := key n hn
  have hsearch : search rd m dur target step = v0 := by unfold search; rw [hv0]
  rw [hsearch, hv]
  -- both are the same value: more fuel does not change a result
  unfold findFuel at hv hv0
  by_cases hs : step < 2 * (m : Int)
  · rw [if_pos hs] at hv hv0; rw [← hv, ← hv0]
  · rw [if_neg hs] at hv hv0
    have := loop_mono rd m dur target step v0 _ _ _ hv0 (n - searchBound dur step)
    have e : searchBound dur step + (n - searchBound dur step) = n := by omega
    rw [e, hv] at this
    exact this

/-- the search as a fact about the loop: it is the loop's value for every sufficient fuel -/
theorem search_eq_loop (rd : Reader) (m : Nat) (hm : 0 < m) (dur target step : Int) (hs : 2 * (m : Int) ≤ step) :
    loop rd m dur target step (searchBound dur step) (min target dur) (max target 0) =
      some (search rd m dur target step) := by
  have := search_terminates rd m hm dur target step _ (Nat.le_refl _)
  unfold findFuel at this
  rw [if_neg (by omega)] at this
  exact this

/-! ## 9. the search on a recording (plain sample list): what it returns -/

/-- the duration of the list in ticks -/
abbrev durOf (m : Nat) (xs : List Int) : Int := (xs.length : Int) * (m : Int)

/-- **step too small → `ArgumentError`** (the case excluded by every hypothesis `2·m ≤ step` below): for
EVERY reader — any `Wav`, made of whole samples or not, of any width and rate —, every duration, every
target and every step shorter than two samples (zero and negative steps included) the call raises
`ArgumentError`; the check precedes every read of the recording -/
theorem search_small_step (rd : Reader) (m : Nat) (dur target step : Int) (h : step < 2 * (m : Int)) :
    search rd m dur target step = .error .ArgumentError := by
  unfold search findFuel
  rw [if_pos h]

theorem searchList_small_step (m : Nat) (xs : List Int) (target step : Int) (h : step < 2 * (m : Int)) :
    searchList m xs target step = .error .ArgumentError :=
  search_small_step _ m _ target step h

/-- the same at byte level, with no hypothesis on the `Wav` at all -/
theorem searchWav_small_step (wv : Wav) (m : Nat) (target step : Int) (h : step < 2 * (m : Int)) :
    searchWav wv m target step = .error .ArgumentError :=
  search_small_step _ m _ target step h

theorem searchList_loop (m : Nat) (hm : 0 < m) (xs : List Int) (target step : Int) (hs : 2 * (m : Int) ≤ step) :
    loop (listReader m xs) m (durOf m xs) target step (searchBound (durOf m xs) step)
      (min target (durOf m xs)) (max target 0) = some (searchList m xs target step) :=
  search_eq_loop (listReader m xs) m hm (durOf m xs) target step hs

/-- a value returned by the search is the choice between the two candidates of one round -/
theorem searchList_ok (m : Nat) (hm : 0 < m) (xs : List Int) (target step t : Int)
    (Inv : Int → Int → Prop) (h0 : Inv (min target (durOf m xs)) (max target 0))
    (hstep : ∀ a b, Inv a b → Inv (a - step) (b + step))
    (h : searchList m xs target step = .ok t) :
    2 * (m : Int) ≤ step ∧
    ∃ a b l r, Inv a b ∧ Zero.round (listReader m xs) m (durOf m xs) step a b = .ok (l, r) ∧
      (l.isSome || r.isSome) = true ∧ chooseClosestTime target l r = .ok t := by
  by_cases hs : step < 2 * (m : Int)
  · rw [searchList_small_step m xs target step hs] at h; cases h
  · have hs' : 2 * (m : Int) ≤ step := by omega
    refine ⟨hs', ?_⟩
    have hl := searchList_loop m hm xs target step hs'
    rw [h] at hl
    exact loop_ok_inv _ m _ target step Inv hstep t _ _ _ h0 hl

/-- **closest**: the value returned is the closer of the two candidates found in the first round that
finds anything (a tie goes to the left one) -/
theorem search_closest (m : Nat) (hm : 0 < m) (xs : List Int) (target step t : Int)
    (h : searchList m xs target step = .ok t) :
    ∃ a b l r, Zero.round (listReader m xs) m (durOf m xs) step a b = .ok (l, r) ∧
      (l = some t ∨ r = some t) ∧
      (∀ x, l = some x → (t - target).natAbs ≤ (x - target).natAbs) ∧
      (∀ x, r = some x → (t - target).natAbs ≤ (x - target).natAbs) ∧
      (∀ x y, l = some x → r = some y → (x - target).natAbs = (y - target).natAbs → t = x) := by
  obtain ⟨_, a, b, l, r, _, hr, _, hc⟩ :=
    searchList_ok m hm xs target step t (fun _ _ => True) trivial (fun _ _ _ => trivial) h
  exact ⟨a, b, l, r, hr, chooseClosest_spec target l r t hc⟩

/-- the value returned is the time of a sample of the recording that is a genuine crossing -/
theorem search_cand (m : Nat) (hm : 0 < m) (xs : List Int) (target step t : Int)
    (h : searchList m xs target step = .ok t) : Cand m xs t := by
  obtain ⟨_, a, b, l, r, _, hr, _, hc⟩ :=
    searchList_ok m hm xs target step t (fun _ _ => True) trivial (fun _ _ _ => trivial) h
  obtain ⟨hl', hrr'⟩ := round_cand m hm xs (durOf m xs) step a b l r hr
  rcases (chooseClosest_spec target l r t hc).1 with h1 | h1
  · exact hl' t h1
  · exact hrr' t h1

theorem cand_range (m : Nat) (hm : 0 < m) (xs : List Int) (t : Int) (h : Cand m xs t) :
    0 ≤ t ∧ t < durOf m xs := by
  obtain ⟨k, ht, hg⟩ := h
  have hlt : k < xs.length := hg.1
  have hkm : 0 ≤ (k : Int) * (m : Int) := Int.mul_nonneg (by omega) (by omega)
  have hle : ((k : Int) + 1) * (m : Int) ≤ (xs.length : Int) * (m : Int) :=
    Int.mul_le_mul_of_nonneg_right (by omega) (by omega)
  rw [Int.add_mul, Int.one_mul] at hle
  show 0 ≤ t ∧ t < (xs.length : Int) * (m : Int)
  omega

/-- **result_in_range**: whatever the target and the step, a value returned lies in `[0, duration]`
(indeed strictly before the end: it addresses an existing sample) -/
theorem result_in_range (m : Nat) (hm : 0 < m) (xs : List Int) (target step t : Int)
    (h : searchList m xs target step = .ok t) : 0 ≤ t ∧ t ≤ durOf m xs := by
  have := cand_range m hm xs t (search_cand m hm xs target step t h)
  omega

/-- **result_on_grid** + genuine crossing, in full (repaired code): for EVERY target (on or off the
sample grid, inside or outside the recording) and EVERY step (whole or fractional number of
samples) a value returned is a sample position `k·m`, and sample `k` of the recording is zero or
differs in sign from a neighbour -/
theorem result_on_grid (m : Nat) (hm : 0 < m) (xs : List Int) (target step t : Int)
    (h : searchList m xs target step = .ok t) :
    (m : Int) ∣ t ∧ Genuine xs (t / (m : Int)).toNat := by
  obtain ⟨k, ht, hg⟩ := search_cand m hm xs target step t h
  refine ⟨⟨k, by rw [ht, Int.mul_comm]⟩, ?_⟩
  have hdiv : t / (m : Int) = k := by rw [ht]; exact Int.mul_ediv_cancel _ (by omega)
  rw [hdiv, Int.toNat_natCast]; exact hg

/-- **A6, regression** (was a proved counter-example before commit 4789608): with a step of 2.5 samples
(`m = 2`: ticks are half samples, step 5 ticks) and target 0 the result used to be 7 ticks = sample
position 3.5; it is now 6 ticks = sample 3, a genuine crossing (`1 → -1`).  On the code: rate 8, samples
`[5,3,2,1,-1,-4]`, `findNearestZeroCrossing(0.0, 0.3125) = 0.375`. -/
theorem result_on_grid_regression :
    searchList 2 [5, 3, 2, 1, -1, -4] 0 5 = .ok 6 ∧ (2 : Int) ∣ 6 ∧ Genuine [5, 3, 2, 1, -1, -4] 3 := by decide

/-! ## 10. (e) errors_documented -/

/-- **errors_documented**: on a recording of whole samples the search raises `ArgumentError` exactly when
the step is shorter than two samples, and otherwise nothing but `FindZeroCrossingError` -/
theorem errors_documented (m : Nat) (hm : 0 < m) (xs : List Int) (target step : Int) (e : Err)
    (h : searchList m xs target step = .error e) :
    (step < 2 * (m : Int) ∧ e = .ArgumentError) ∨ (2 * (m : Int) ≤ step ∧ e = .FindZeroCrossingError) := by
  by_cases hs : step < 2 * (m : Int)
  · rw [searchList_small_step m xs target step hs] at h
    cases h; exact Or.inl ⟨hs, rfl⟩
  · have hs' : 2 * (m : Int) ≤ step := by omega
    refine Or.inr ⟨hs', ?_⟩
    have hl := searchList_loop m hm xs target step hs'
    rw [h] at hl
    have hm0 : (0 : Int) ≤ m := by omega
    rcases loop_error_inv _ m _ target step e (CurOk (durOf m xs)) (fun a b hc => ⟨by have := hc.1; omega, by have := hc.2; omega⟩)
      _ _ _ ⟨by omega, by omega⟩ hl with h1 | ⟨a, b, hc, h1⟩
    · exact h1
    · obtain ⟨l, r, hr, _⟩ := round_list m hm xs (durOf m xs) step a b (by omega) hc
      rw [hr] at h1; cases h1

/-- a recording without a zero sample whose samples all have the same sign -/
def Flat (xs : List Int) : Prop := (0 : Int) ∉ xs ∧ ∀ a ∈ xs, ∀ b ∈ xs, sign a = sign b

theorem flat_of_pos (xs : List Int) (h : ∀ x ∈ xs, 0 < x) : Flat xs := by
  refine ⟨fun h0 => by have := h 0 h0; omega, ?_⟩
  intro a ha b hb
  have h1 := h a ha; have h2 := h b hb
  unfold sign; rw [if_pos h1, if_pos h2]

theorem flat_of_neg (xs : List Int) (h : ∀ x ∈ xs, x < 0) : Flat xs := by
  refine ⟨fun h0 => by have := h 0 h0; omega, ?_⟩
  intro a ha b hb
  have h1 := h a ha; have h2 := h b hb
  unfold sign; rw [if_neg (by omega), if_pos h1, if_neg (by omega), if_pos h2]

theorem iter_flat (m : Nat) (xs : List Int) (hf : Flat xs) (dur start : Int) (within : Bool) (step : Int) (rev : Bool)
    (hord : within = true → (getInterval start step dur rev).1 ≤ (getInterval start step dur rev).2) :
    iterZeroCrossings (listReader m xs) m dur start within step rev = .ok none := by
  unfold iterZeroCrossings
  cases within with
  | false => rfl
  | true =>
    simp only [Bool.not_true, Bool.false_eq_true, if_false, listReader]
    have := hord rfl
    rw [if_neg (by omega)]
    simp only
    unfold findNextZeroCrossing
    rw [nextIdx_none]
    · rfl
    · intro h0; exact hf.1 (mem_of_mem_slice xs _ _ 0 h0)
    · intro a ha b hb; exact hf.2 a (mem_of_mem_slice xs _ _ a ha) b (mem_of_mem_slice xs _ _ b hb)

theorem round_flat (m : Nat) (xs : List Int) (hf : Flat xs) (dur step a b : Int) (hs : 0 ≤ step) (hc : CurOk dur a b) :
    Zero.round (listReader m xs) m dur step a b = .ok (none, none) := by
  have ⟨o1, o2⟩ := round_ord dur step m a b hs hc
  unfold Zero.round
  rw [iter_flat m xs hf _ _ _ _ _ o1]; simp only; rw [iter_flat m xs hf _ _ _ _ _ o2]

/-- **no crossing → the documented error**: on an all-positive (or all-negative) recording — the empty
recording included — every call with an admissible step raises `FindZeroCrossingError`, never a value (a
shorter step raises `ArgumentError` whatever the recording: `search_small_step`) -/
theorem no_crossing_error (m : Nat) (hm : 0 < m) (xs : List Int) (hf : Flat xs) (target step : Int)
    (hs : 2 * (m : Int) ≤ step) :
    searchList m xs target step = .error .FindZeroCrossingError := by
  cases h : searchList m xs target step with
  | ok t =>
    exfalso
    have hm0 : (0 : Int) ≤ m := by omega
    obtain ⟨_, a, b, l, r, hc, hr, hsome, _⟩ :=
      searchList_ok m hm xs target step t (CurOk (durOf m xs)) ⟨by omega, by omega⟩
        (fun a b hc => ⟨by have := hc.1; omega, by have := hc.2; omega⟩) h
    rw [round_flat m xs hf _ _ _ _ (by omega) hc] at hr
    simp only [Except.ok.injEq, Prod.mk.injEq] at hr
    obtain ⟨rfl, rfl⟩ := hr
    simp at hsome
  | error e =>
    rcases errors_documented m hm xs target step e h with ⟨h1, _⟩ | ⟨_, h2⟩
    · omega
    · rw [h2]

theorem all_positive_error (m : Nat) (hm : 0 < m) (xs : List Int) (hpos : ∀ x ∈ xs, 0 < x) (target step : Int)
    (hs : 2 * (m : Int) ≤ step) : searchList m xs target step = .error .FindZeroCrossingError :=
  no_crossing_error m hm xs (flat_of_pos xs hpos) target step hs

/-- **a recording with no samples** (no hypothesis "non-empty" is needed anywhere above): duration 0, both
cursors leave at once, every target and every admissible step raise `FindZeroCrossingError` — no division by
zero, no endless loop.  On the code: `Wav(b'', [1, 2, 8, 0, …]).findNearestZeroCrossing(t, 0.25)` for
`t = 0, 0.5, -1, 1e17`. -/
theorem empty_recording_error (m : Nat) (hm : 0 < m) (target step : Int) (hs : 2 * (m : Int) ≤ step) :
    searchList m [] target step = .error .FindZeroCrossingError :=
  no_crossing_error m hm [] ⟨by simp, by intro a ha; cases ha⟩ target step hs

/-! ## 11. (b, continued) A16, regression: far-away targets cost no more rounds than near ones -/

/-- the round bound does not mention the target (before commit 0d5ac6f the loop needed
`|target| / step` rounds: the former theorem `search_rounds_unbounded`) -/
theorem searchBound_le (dur step : Int) (hs : 0 < step) (hd : 0 ≤ dur) :
    (searchBound dur step : Int) = dur / step + 2 := by
  unfold searchBound
  have e : max dur 0 = dur := by omega
  have hq : 0 ≤ dur / step := Int.ediv_nonneg hd (by omega)
  rw [e, Int.natCast_add, Int.toNat_of_nonneg hq]; rfl

/-! ## 12. (e, continued) an all-zero recording -/

/-- **all_zero**: on an all-zero recording a target on a sample position with room for one step to its
right is returned itself.  `hk` and `hroom` are the statement (a negative target or a target beyond the end
cannot be returned; without room the sample BEFORE the target is returned, or nothing: `all_zero_end`,
`incomplete_counterexample`); `hs` is enforced by the code (`search_small_step`). -/
theorem all_zero_target (m : Nat) (hm : 0 < m) (xs : List Int) (hz : ∀ x ∈ xs, x = 0) (k step : Int)
    (hk : 0 ≤ k) (hs : 2 * (m : Int) ≤ step) (hroom : k * (m : Int) + step < durOf m xs) :
    searchList m xs (k * (m : Int)) step = .ok (k * (m : Int)) := by
  have hmpos : (0 : Int) < m := by omega
  have hkm : 0 ≤ k * (m : Int) := Int.mul_nonneg hk (by omega)
  have hkn : k < xs.length := by
    have h1 : k * (m : Int) < (xs.length : Int) * (m : Int) := by
      have : k * (m : Int) + step < (xs.length : Int) * (m : Int) := hroom
      omega
    exact Int.lt_of_mul_lt_mul_right h1 (by omega)
  -- the right window of the first round starts at the target and is not empty
  have hright : iterZeroCrossings (listReader m xs) m (durOf m xs) (k * (m : Int))
      (decide (k * (m : Int) + step < durOf m xs)) (step + m) false = .ok (some (k * (m : Int))) := by
    unfold iterZeroCrossings
    rw [decide_eq_true hroom]
    simp only [Bool.not_true, Bool.false_eq_true, if_false, listReader]
    have hfst : (getInterval (k * (m : Int)) (step + m) (durOf m xs) false).1 = k * (m : Int) := by
      rw [getInterval_fst]; simp only [Bool.false_eq_true, if_false]; rw [if_neg (by omega)]
    have hsnd : k * (m : Int) + (m : Int) ≤ (getInterval (k * (m : Int)) (step + m) (durOf m xs) false).2 := by
      unfold getInterval
      simp only [Bool.false_eq_true, if_false]
      rw [if_neg (by omega)]
      split <;> simp only <;> omega
    rw [hfst]
    generalize (getInterval (k * (m : Int)) (step + m) (durOf m xs) false).2 = e at hsnd
    have hi : roundHalfEven (k * (m : Int)) m = k := C16.roundHalfEven_exact k m hm
    have hj : k + 1 ≤ roundHalfEven e m := by
      have := C16.roundHalfEven_mono _ _ m hm hsnd
      have e1 : k * (m : Int) + (m : Int) = (k + 1) * (m : Int) := by rw [Int.add_mul, Int.one_mul]
      rw [e1, C16.roundHalfEven_exact (k + 1) m hm] at this
      exact this
    rw [if_neg (by omega), hi]
    simp only
    generalize roundHalfEven e m = j at hj
    have hck : ((clampSample k xs.length : Nat) : Int) = k := C16.clampSample_of_range k _ hk (by omega)
    rw [hck]
    have hcj : k + 1 ≤ ((clampSample j xs.length : Nat) : Int) := by unfold clampSample; omega
    generalize ((clampSample j xs.length : Nat) : Int) = j' at hcj
    -- the window is a non-empty list of zeros
    have hlen : 0 < (slice xs k j').length := by
      unfold slice pyClamp
      simp only [List.length_drop, List.length_take]
      rw [if_neg (by omega), if_neg (by omega)]
      omega
    cases hys : slice xs k j' with
    | nil => rw [hys] at hlen; simp at hlen
    | cons y ys =>
      have hy : y = 0 := hz y (mem_of_mem_slice xs k j' y (by rw [hys]; simp))
      subst hy
      unfold findNextZeroCrossing nextIdx nearestZero find
      simp only [Bool.false_eq_true, if_false]
      rw [index?_head]
      simp
  obtain ⟨l, hl⟩ := iter_ok m xs (durOf m xs) (k * (m : Int)) (decide (0 < k * (m : Int))) (step + m) true
    (fun _ => getInterval_ordered _ _ _ true (by omega) (by simp only [if_true]; omega))
  have hround : Zero.round (listReader m xs) m (durOf m xs) step (k * (m : Int)) (k * (m : Int)) =
      .ok (l, some (k * (m : Int))) := by
    unfold Zero.round; rw [hl]; simp only; rw [hright]
  have hloop := searchList_loop m hm xs (k * (m : Int)) step hs
  obtain ⟨f, hf, _⟩ := searchBound_spec (durOf m xs) step (by omega)
  have hmin : min (k * (m : Int)) (durOf m xs) = k * (m : Int) := by omega
  have hmax : max (k * (m : Int)) 0 = k * (m : Int) := by omega
  rw [hf, hmin, hmax] at hloop
  unfold loop at hloop
  rw [hround] at hloop
  simp only [Option.isSome_some, Bool.or_true, if_true, Option.some.injEq] at hloop
  obtain ⟨v, hv⟩ := chooseClosest_ok_of_some (k * (m : Int)) l (some (k * (m : Int))) (by simp)
  have hsp := (chooseClosest_spec _ _ _ v hv).2.2.1 (k * (m : Int)) rfl
  have hveq : v = k * (m : Int) := by omega
  rw [← hloop, hv, hveq]


/-- a recording of 8 zero samples (rate 8, one tick per sample) -/
def zeros8 : List Int := [0, 0, 0, 0, 0, 0, 0, 0]

/-- **all_zero, the cases excluded by `all_zero_target`** (kernel-checked; the values are the ones the code
returns): both hypotheses of `all_zero_target` on the target are needed for "returned itself".
Without room for one step to the right the right-hand window is not opened and the left-hand window ends
*before* the target: target = sample 7 (a zero sample) yields sample 6; target = the duration yields the
last sample; beyond the duration likewise.  A negative target yields sample 0.  Every value is again a
sample position in `[0, duration]` holding a zero (`result_on_grid`, `result_in_range`). -/
theorem all_zero_end :
    searchList 1 zeros8 5 2 = .ok 5 ∧ searchList 1 zeros8 6 2 = .ok 5 ∧ searchList 1 zeros8 7 2 = .ok 6 ∧
    searchList 1 zeros8 8 2 = .ok 7 ∧ searchList 1 zeros8 100 2 = .ok 7 ∧
    searchList 1 zeros8 0 2 = .ok 0 ∧ searchList 1 zeros8 (-1) 2 = .ok 0 := by decide

/-- **the search is not complete** (NOT claimed by C18, whose text only constrains what is returned or raised;
recorded because the hypotheses `Flat` of `no_crossing_error` and `hroom` of `all_zero_target` cannot be
dropped).  `FindZeroCrossingError` ("no zero crossing found") is raised on recordings that do have
genuine crossings — model and code agree on each line (rate 8, `timeStep` 0.25 s = 2 samples):
* one sign change between samples 4 and 5, target exactly on sample 5: the left window ends before sample 5,
  the right window starts at it, so no window ever holds both samples (every other target 0..20 yields 4);
* a zero sample at the very end, target 0 — and target 5, the position of the zero sample itself: the last
  `timeStep` of a recording is never scanned from the right;
* an all-zero recording shorter than one step. -/
theorem incomplete_counterexample :
    (searchList 1 [5, 5, 5, 5, 5, -5, -5, -5, -5, -5, -5, -5, -5, -5, -5, -5, -5, -5, -5, -5] 5 2
        = .error .FindZeroCrossingError ∧
      Genuine [5, 5, 5, 5, 5, -5, -5, -5, -5, -5, -5, -5, -5, -5, -5, -5, -5, -5, -5, -5] 5) ∧
    (searchList 1 [5, 5, 5, 5, 5, 0] 0 2 = .error .FindZeroCrossingError ∧
      searchList 1 [5, 5, 5, 5, 5, 0] 5 2 = .error .FindZeroCrossingError ∧ Genuine [5, 5, 5, 5, 5, 0] 5) ∧
    (searchList 1 [0, 0] 0 2 = .error .FindZeroCrossingError ∧ Genuine [0, 0] 0) := by decide

/-! ## 13. the byte level: `Wav.getSamples` at *any* two times is a Python slice of the sample list -/

theorem pyClamp_mul (n w : Nat) (hw : 0 < w) (i : Int) : pyClamp (n * w) (i * (w : Int)) = pyClamp n i * w := by
  have hwpos : (0 : Int) < w := by omega
  unfold pyClamp
  by_cases hi : i < 0
  · have hiw : i * (w : Int) < 0 := Int.mul_neg_of_neg_of_pos hi hwpos
    rw [if_pos hi, if_pos hiw]
    have e : i * (w : Int) + ((n * w : Nat) : Int) = (i + n) * (w : Int) := by
      rw [Int.natCast_mul, Int.add_mul]
    rw [e]
    by_cases h0 : 0 ≤ i + (n : Int)
    · obtain ⟨a, ha⟩ := Int.eq_ofNat_of_zero_le h0
      rw [ha, ← Int.natCast_mul, Int.toNat_natCast, Int.toNat_natCast]
    · have hneg : (i + (n : Int)) * (w : Int) < 0 := Int.mul_neg_of_neg_of_pos (by omega) hwpos
      have e1 : ((i + (n : Int)) * (w : Int)).toNat = 0 := by omega
      have e2 : (i + (n : Int)).toNat = 0 := by omega
      rw [e1, e2, Nat.zero_mul]
  · have hiw : ¬ i * (w : Int) < 0 := by
      have : 0 ≤ i * (w : Int) := Int.mul_nonneg (by omega) (by omega)
      omega
    rw [if_neg hi, if_neg hiw]
    obtain ⟨a, ha⟩ := Int.eq_ofNat_of_zero_le (show 0 ≤ i by omega)
    rw [ha, ← Int.natCast_mul, Int.toNat_natCast, Int.toNat_natCast, Nat.mul_min_mul_right]

theorem pyClamp_le (n : Nat) (i : Int) : pyClamp n i ≤ n := by
  unfold pyClamp; split <;> omega

/-- unpacking a slice of whole-sample bytes at aligned (arbitrary, also negative or overshooting)
indices is the same slice of the samples -/
theorem unpack_slice (w : Nat) (hw : 0 < w) (f : List UInt8) (n : Nat) (hf : f.length = n * w) (i j : Int) :
    unpack w (slice f (i * (w : Int)) (j * (w : Int))) = slice (unpack w f) i j ∧
    (slice f (i * (w : Int)) (j * (w : Int))).length % w = 0 := by
  have hlen : (unpack w f).length = n := by rw [C16.unpack_length, hf, Nat.mul_div_cancel _ hw]
  unfold slice
  rw [hlen, hf, pyClamp_mul n w hw i, pyClamp_mul n w hw j]
  have ha := pyClamp_le n i
  have hb := pyClamp_le n j
  generalize pyClamp n i = a at *
  generalize pyClamp n j = b at *
  have hbl : b * w ≤ f.length := by rw [hf]; exact Nat.mul_le_mul_right w hb
  have htl : (f.take (b * w)).length = b * w := by simp [List.length_take]; omega
  constructor
  · by_cases hab : a ≤ b
    · have : a * w ≤ (f.take (b * w)).length := by rw [htl]; exact Nat.mul_le_mul_right w hab
      rw [C16.unpack_drop w a hw _ this, C16.unpack_take w b hw f hbl]
    · have h1 : (f.take (b * w)).length ≤ a * w := by
        rw [htl]; exact Nat.mul_le_mul_right w (by omega)
      rw [List.drop_of_length_le h1, List.drop_of_length_le (by rw [List.length_take, hlen]; omega)]
      simp [unpack, unpackN]
  · simp only [List.length_drop, htl, ← Nat.sub_mul]
    exact Nat.mul_mod_left _ _

/-- **getSamples at any two times** (negative, beyond the end, off the grid) on a recording of whole samples:
a reversed pair raises `ArgumentError` (commit 906b45b); every other pair returns `samples[i : j]` with `i`, `j` the
sample boundaries of the recording nearest to the two times (`round(t·rate)` clamped into `[0, n]`, commit 3f424d1),
and nothing else is ever raised -/
theorem getSamples_slice (wv : Wav) (hwv : C16.Whole wv) (hk : knownWidth wv.width = true) (s e : QTime) :
    wv.getSamples s e =
      if e < s then .error .ArgumentError
      else .ok (slice wv.samples ((wv.sampleIndex s : Nat) : Int) ((wv.sampleIndex e : Nat) : Int)) := by
  obtain ⟨hw, n, hn⟩ := hwv
  have hf : wv.frames.length = n * wv.width := by rw [hn, Nat.mul_comm]
  obtain ⟨h1, h2⟩ := unpack_slice wv.width hw wv.frames n hf ((wv.sampleIndex s : Nat) : Int) ((wv.sampleIndex e : Nat) : Int)
  unfold Wav.getSamples Wav.getFrames
  by_cases hrev : e < s
  · rw [if_pos hrev, if_pos hrev]
  · rw [if_neg hrev, if_neg hrev]
    simp only
    unfold convertFromBytes Wav.getFramesRaw getB Wav.samples
    rw [C16.index_cast, C16.index_cast, Int.natCast_mul, Int.natCast_mul]
    simp only [hk, Bool.not_true, Bool.false_eq_true, if_false]
    rw [if_neg (by rw [h2]; simp), h1]

/-- the sample index of the tick count `a`: `round(a/(rate·m) · rate) = round(a/m)` -/
theorem sampleAtTime_ticks (rate m : Nat) (hr : 0 < rate) (hm : 0 < m) (a : Int) :
    sampleAtTime ⟨a, rate * m⟩ rate = roundHalfEven a m := by
  unfold sampleAtTime
  simp only
  rw [Int.mul_comm a (rate : Int)]
  exact C16.roundHalfEven_scale a m rate hm hr

/-- on a recording of whole samples the byte-level reader is the list-level reader -/
theorem wavReader_eq (wv : Wav) (hwv : C16.Whole wv) (hk : knownWidth wv.width = true) (hr : 0 < wv.rate)
    (m : Nat) (hm : 0 < m) : wavReader wv m = listReader m wv.samples := by
  funext a b
  unfold wavReader listReader
  rw [getSamples_slice wv hwv hk]
  unfold Wav.sampleIndex
  rw [sampleAtTime_ticks wv.rate m hr hm, sampleAtTime_ticks wv.rate m hr hm, C16.nsamples_samples]
  have hpos : (0 : Int) < ((wv.rate * m : Nat) : Int) := by
    have := Nat.mul_pos hr hm; omega
  have hiff : ((⟨b, wv.rate * m⟩ : QTime) < ⟨a, wv.rate * m⟩) ↔ b < a := by
    show b * ((wv.rate * m : Nat) : Int) < a * ((wv.rate * m : Nat) : Int) ↔ b < a
    constructor
    · intro h; exact Int.lt_of_mul_lt_mul_right h (by omega)
    · intro h; exact Int.mul_lt_mul_of_pos_right h hpos
  by_cases hba : b < a
  · rw [if_pos (hiff.2 hba), if_pos hba]; rfl
  · rw [if_neg (fun h => hba (hiff.1 h)), if_neg hba]

/-- **the search on an in-memory `Wav`** (bytes, any width in 1/2/4/8) is the search on its sample
list; so every theorem above about `searchList` is a theorem about `searchWav`.  The three hypotheses on the
`Wav` are the domain of C16 (see the header): whole samples, a known width, a positive rate; a `Wav` with no
frames at all satisfies them. -/
theorem searchWav_eq (wv : Wav) (hwv : C16.Whole wv) (hk : knownWidth wv.width = true) (hr : 0 < wv.rate)
    (m : Nat) (hm : 0 < m) (target step : Int) :
    searchWav wv m target step = searchList m wv.samples target step := by
  unfold searchWav searchList
  rw [wavReader_eq wv hwv hk hr m hm, C16.nsamples_samples]

/-- the headline statement at `Wav` level: terminates (by construction, `search_terminates`), and a
returned value lies in `[0, duration]` and is a sample position holding a genuine crossing — for every
target and every step; the only errors are the two documented ones -/
theorem searchWav_spec (wv : Wav) (hwv : C16.Whole wv) (hk : knownWidth wv.width = true) (hr : 0 < wv.rate)
    (m : Nat) (hm : 0 < m) (target step : Int) :
    (∀ t, searchWav wv m target step = .ok t →
      0 ≤ t ∧ t ≤ (wv.nsamples : Int) * (m : Int) ∧
      (m : Int) ∣ t ∧ Genuine wv.samples (t / (m : Int)).toNat) ∧
    (∀ e, searchWav wv m target step = .error e →
      (step < 2 * (m : Int) ∧ e = .ArgumentError) ∨ (2 * (m : Int) ≤ step ∧ e = .FindZeroCrossingError)) := by
  rw [searchWav_eq wv hwv hk hr m hm]
  refine ⟨?_, fun e h => errors_documented m hm _ target step e h⟩
  intro t h
  have hrange := result_in_range m hm _ target step t h
  unfold durOf at hrange
  rw [C16.nsamples_samples] at hrange
  exact ⟨hrange.1, hrange.2, result_on_grid m hm _ target step t h⟩


/-! ## 14. (h) `audioSplice`: the textgrid and the audio stay in step -/

/-- what `audioSplice` (no replaced region, no alignment) does to the named tier: `insertSpace(t, d,
'stretch')`, then `insertEntry((t, t + d, label))` with the default `collisionMode='error'` -/
def spliceTier (t : ITier Int) (a d : Int) (label : String) : Except Err (ITier Int) := do
  let t1 ← t.insertSpace a d .stretch
  t1.insertEntry ⟨a, a + d, label⟩ .error

theorem spaceP_nostraddle (a d : Int) (iv : Iv Int) (hno : ¬ C08.Straddles a iv) :
    C08.spaceP a d .stretch iv = if iv.e ≤ a then [iv] else [⟨iv.s + d, iv.e + d, iv.l⟩] := by
  unfold C08.spaceP C08.Straddles at *
  by_cases h1 : iv.e ≤ a
  · rw [if_pos h1, if_pos h1]
  · rw [if_neg h1, if_neg h1, if_pos (by omega)]

/-- `insertEntry` strips the label of the entry it is given before anything else -/
theorem insertEntry_strip (t : ITier Int) (x : Iv Int) (mode : InsMode) :
    t.insertEntry x mode = t.insertEntry ⟨x.s, x.e, pyStrip x.l⟩ mode := by
  unfold ITier.insertEntry
  simp only [pyStrip_idem]

/-- `C08.insert_spec` for an insertion point anywhere (also before the tier's start: its hypothesis
`t.lo ≤ s` is not used by its proof) -/
theorem insertSpace_any (t : ITier Int) (hwf : t.WF) (s d : Int) (hd : 0 < d) (mode : SpaceMode)
    (hm : mode = .error → ∀ iv ∈ t.es, ¬ C08.Straddles s iv) :
    ∃ t', t.insertSpace s d mode = .ok t' ∧ t'.WF ∧ t'.name = t.name ∧
      t'.es = t.es.flatMap (C08.spaceP s d mode) ∧ t'.lo = t.lo ∧ t'.hi = t.hi + d := by
  have hw := C08.flatMap_spaceP_wf s d hd mode t.es hwf.pos hwf.disj hwf.stripped
  obtain ⟨t', e1, e2, e3, e4, e5, e6⟩ :=
    mkITier_wf t.name _ t.lo (t.hi + d) (by have := hwf.span; omega) hw.1 hw.2.1 hw.2.2
  have hb : ∀ x ∈ t.es.flatMap (C08.spaceP s d mode), t.lo ≤ x.s ∧ x.e ≤ t.hi + d := by
    intro x hx
    obtain ⟨iv, hiv, hxp⟩ := List.mem_flatMap.1 hx
    have p := C08.spaceP_props s d hd mode iv x (hwf.pos iv hiv) hxp
    have := hwf.inLo iv hiv
    have := hwf.inHi iv hiv
    omega
  refine ⟨t', ?_, e2, e4, e3, ?_, ?_⟩
  · unfold ITier.insertSpace
    rw [C08.spaceAll_eq s d mode t.es hm]
    simp only [ITier.new, Option.getD_some, Option.getD_none]
    exact e1
  · rw [e5]; apply hullMin_eq_of_le
    intro x hx; obtain ⟨z, hz, rfl⟩ := List.mem_map.1 hx; exact (hb z hz).1
  · rw [e6]; apply hullMax_eq_of_ge
    intro x hx; obtain ⟨z, hz, rfl⟩ := List.mem_map.1 hx; exact (hb z hz).2

/-- **splice_spec (named tier)**: on a well-formed tier, for EVERY insertion point `a` that no interval of the
tier straddles (inside the tier's span or not), every segment duration `d > 0` and every label (stripped by
the tier, as every label is), the call succeeds and the tier then holds exactly: the entries that ended at
or before the insertion point, unchanged; the new interval `[a, a+d]` with the given label; every later
entry moved by exactly `d` with its label.  The tier stays well formed.  Its span: the start becomes
`min(lo, a)`, the end `max(hi, a) + d` — so for an insertion point inside the span (`splice_tier_inside`) the
span grows by exactly `d`, and for one outside it does NOT (`splice_outside_counterexample`).

Hypotheses: `hwf` is the class invariant of every tier the library can build; `d > 0`: an empty segment
raises (`splice_tier_empty_segment`); no straddler: otherwise `CollisionError` (`splice_tier_straddler`). -/
theorem splice_tier_spec (t : ITier Int) (hwf : t.WF) (a d : Int) (hd : 0 < d)
    (label : String) (hno : ∀ iv ∈ t.es, ¬ C08.Straddles a iv) :
    ∃ t2, spliceTier t a d label = .ok t2 ∧ t2.WF ∧ t2.name = t.name ∧
      (∀ y, y ∈ t2.es ↔ (y ∈ t.es ∧ y.e ≤ a) ∨ y = ⟨a, a + d, pyStrip label⟩ ∨
        ∃ iv ∈ t.es, a ≤ iv.s ∧ y = ⟨iv.s + d, iv.e + d, iv.l⟩) ∧
      t2.lo = min t.lo a ∧ t2.hi = max t.hi a + d ∧ t2.es.length = t.es.length + 1 := by
  obtain ⟨t1, e1, wf1, n1, es1, lo1, hi1⟩ := insertSpace_any t hwf a d hd .stretch (by intro h; cases h)
  have hmem1 : ∀ y, y ∈ t1.es ↔ (y ∈ t.es ∧ y.e ≤ a) ∨ ∃ iv ∈ t.es, a ≤ iv.s ∧ y = ⟨iv.s + d, iv.e + d, iv.l⟩ := by
    intro y
    rw [es1, List.mem_flatMap]
    constructor
    · rintro ⟨iv, hiv, hy⟩
      rw [spaceP_nostraddle a d iv (hno iv hiv)] at hy
      by_cases h1 : iv.e ≤ a
      · rw [if_pos h1] at hy
        simp only [List.mem_cons, List.not_mem_nil, or_false] at hy
        subst hy; exact Or.inl ⟨hiv, h1⟩
      · rw [if_neg h1] at hy
        simp only [List.mem_cons, List.not_mem_nil, or_false] at hy
        have := hno iv hiv
        unfold C08.Straddles at this
        exact Or.inr ⟨iv, hiv, by omega, hy⟩
    · rintro (⟨hy, hye⟩ | ⟨iv, hiv, hs, hy⟩)
      · refine ⟨y, hy, ?_⟩
        rw [spaceP_nostraddle a d y (hno y hy), if_pos hye]; simp
      · refine ⟨iv, hiv, ?_⟩
        have := hwf.pos iv hiv
        rw [spaceP_nostraddle a d iv (hno iv hiv), if_neg (by omega), hy]; simp
  have hlen1 : t1.es.length = t.es.length := by
    rw [es1]
    have : ∀ (l : List (Iv Int)), (∀ iv ∈ l, ¬ C08.Straddles a iv) →
        (l.flatMap (C08.spaceP a d .stretch)).length = l.length := by
      intro l
      induction l with
      | nil => intro _; rfl
      | cons x xs ih =>
        intro h
        rw [List.flatMap_cons, List.length_append, ih (fun iv hiv => h iv (List.mem_cons_of_mem _ hiv)),
          spaceP_nostraddle a d x (h x (by simp))]
        split <;> simp <;> omega
    exact this t.es hno
  have hfree : ∀ iv ∈ t1.es, iv.e ≤ (⟨a, a + d, pyStrip label⟩ : Iv Int).s ∨
      (⟨a, a + d, pyStrip label⟩ : Iv Int).e ≤ iv.s := by
    intro y hy
    rcases (hmem1 y).1 hy with ⟨_, h⟩ | ⟨iv, _, hs, rfl⟩
    · exact Or.inl h
    · exact Or.inr (by simp only; omega)
  obtain ⟨t2, e2, wf2, n2, mem2, lo2, hi2⟩ :=
    C11.insert_nocollision_stripped t1 wf1 ⟨a, a + d, pyStrip label⟩ (by simp only; omega) (pyStrip_idem label) .error hfree
  refine ⟨t2, ?_, wf2, by rw [n2, n1], ?_, ?_, ?_, ?_⟩
  · unfold spliceTier; rw [e1]
    show t1.insertEntry ⟨a, a + d, label⟩ .error = .ok t2
    rw [insertEntry_strip]; exact e2
  · intro y
    rw [mem2 y, hmem1 y]
    constructor
    · rintro ((h | h) | h)
      · exact Or.inl h
      · exact Or.inr (Or.inr h)
      · exact Or.inr (Or.inl h)
    · rintro (h | h | h)
      · exact Or.inl (Or.inl h)
      · exact Or.inr h
      · exact Or.inl (Or.inr h)
  · rw [lo2, lo1]
  · rw [hi2, hi1]; simp only; omega
  · -- exactly one entry more: both lists are duplicate-free and differ by the new entry
    have hnd2 := nodup_of_wf _ wf2.pos wf2.disj.setDisj
    have hnd1 := nodup_of_wf _ wf1.pos wf1.disj.setDisj
    have hnew : (⟨a, a + d, pyStrip label⟩ : Iv Int) ∉ t1.es := by
      intro hin
      have := hfree _ hin
      simp only at this; omega
    have hp : t2.es.Perm ((⟨a, a + d, pyStrip label⟩ : Iv Int) :: t1.es) := by
      rw [List.perm_ext_iff_of_nodup hnd2 (List.nodup_cons.2 ⟨hnew, hnd1⟩)]
      intro y; rw [mem2 y, List.mem_cons]; exact Or.comm
    rw [hp.length_eq, List.length_cons, hlen1]

/-- the usual case, an insertion point inside the tier's span: the span start is unchanged and the span end
grows by exactly the duration of the segment -/
theorem splice_tier_inside (t : ITier Int) (hwf : t.WF) (a d : Int) (hd : 0 < d) (hlo : t.lo ≤ a) (hhi : a ≤ t.hi)
    (label : String) (hno : ∀ iv ∈ t.es, ¬ C08.Straddles a iv) :
    ∃ t2, spliceTier t a d label = .ok t2 ∧ t2.WF ∧ t2.lo = t.lo ∧ t2.hi = t.hi + d := by
  obtain ⟨t2, e, wf2, _, _, lo2, hi2, _⟩ := splice_tier_spec t hwf a d hd label hno
  exact ⟨t2, e, wf2, by rw [lo2]; omega, by rw [hi2]; omega⟩

/-- **an insertion point outside the tier's span: what the tier-level splice would do** (this is the behaviour of
`audioSplice` before the repair e7d7671, defect C18-3; the call is now rejected up front: `splice_outside_rejected`;
the statement remains a fact about the tier operation): no error, and the named tier's span then grows by MORE than the segment — beyond the end the
tier ends at `a + d`, later than the textgrid (whose end is `old end + d`) and than the audio (into which
the segment is inserted at its clamped end, `len + segment`); before the start the tier starts at `a`,
earlier than the textgrid, and the audio side reads the negative time as a Python index from the end.
The returned textgrid is not valid (`validate()` is False: tier and textgrid spans differ) and the new
interval does not cover the inserted audio.  On the code (rate 8, 100 samples = 12.5 s, tier `T`
`[1.25,3.75] a, [3.75,7.5] b, [10,11.25] c`, segment 5 samples = 0.625 s, no alignment):
`insertStart = 13.0` → `T` ends at 13.625, textgrid and audio at 13.125;
`insertStart = -1.0` → `T` spans `[-1, 13.125]`, new interval `[-1, -0.375]`, the segment sits 8 samples
before the END of the audio.  The model returns the same values (`#guard`s at the end of the file). -/
theorem splice_outside_counterexample (t : ITier Int) (hwf : t.WF) (a d : Int) (hd : 0 < d) (label : String) :
    (t.hi < a → ∃ t2, spliceTier t a d label = .ok t2 ∧ t2.hi = a + d ∧ t.hi + d < t2.hi) ∧
    (a < t.lo → ∃ t2, spliceTier t a d label = .ok t2 ∧ t2.lo = a ∧ t2.lo < t.lo ∧
      (⟨a, a + d, pyStrip label⟩ : Iv Int) ∈ t2.es) := by
  constructor
  · intro h
    have hno : ∀ iv ∈ t.es, ¬ C08.Straddles a iv := by
      intro iv hiv hs; have := hwf.inHi iv hiv; unfold C08.Straddles at hs; omega
    obtain ⟨t2, e, _, _, _, _, hi2, _⟩ := splice_tier_spec t hwf a d hd label hno
    exact ⟨t2, e, by rw [hi2]; omega, by rw [hi2]; omega⟩
  · intro h
    have hno : ∀ iv ∈ t.es, ¬ C08.Straddles a iv := by
      intro iv hiv hs; have := hwf.inLo iv hiv; unfold C08.Straddles at hs; omega
    obtain ⟨t2, e, _, _, mem2, lo2, _, _⟩ := splice_tier_spec t hwf a d hd label hno
    exact ⟨t2, e, by rw [lo2]; omega, by rw [lo2]; omega, (mem2 _).2 (Or.inr (Or.inl rfl))⟩

/-- **exactly one new interval**: the tier has exactly one entry more than before (`splice_tier_spec`), and if
the (stripped) label is not used on the tier — the only reading under which "the interval with the given
label" identifies an entry — the new interval is the only entry carrying it -/
theorem splice_one_new (t : ITier Int) (hwf : t.WF) (a d : Int) (hd : 0 < d)
    (label : String) (hno : ∀ iv ∈ t.es, ¬ C08.Straddles a iv)
    (hfresh : ∀ iv ∈ t.es, iv.l ≠ pyStrip label) (t2 : ITier Int) (h : spliceTier t a d label = .ok t2) :
    (⟨a, a + d, pyStrip label⟩ : Iv Int) ∈ t2.es ∧ t2.es.Nodup ∧ t2.es.length = t.es.length + 1 ∧
      ∀ y ∈ t2.es, y.l = pyStrip label → y = ⟨a, a + d, pyStrip label⟩ := by
  obtain ⟨t2', e, wf2, _, mem2, _, _, hlen⟩ := splice_tier_spec t hwf a d hd label hno
  rw [h] at e
  cases e
  refine ⟨(mem2 _).2 (Or.inr (Or.inl rfl)), nodup_of_wf _ wf2.pos wf2.disj.setDisj, hlen, ?_⟩
  intro y hy hl
  rcases (mem2 y).1 hy with ⟨h1, _⟩ | h1 | ⟨iv, hiv, _, rfl⟩
  · exact absurd hl (hfresh y h1)
  · exact h1
  · exact absurd hl (hfresh iv hiv)

/-- an insertion point strictly inside an interval of the named tier: the stretched interval collides
with the new entry and the call raises `CollisionError` (nothing is returned; on the code the caller's
`audioObj` has by then already received the segment — see the note on mutation at the end of this section) -/
theorem splice_tier_straddler (t : ITier Int) (hwf : t.WF) (a d : Int) (hd : 0 < d)
    (label : String) (iv : Iv Int) (hiv : iv ∈ t.es) (hs : C08.Straddles a iv) :
    spliceTier t a d label = .error .CollisionError := by
  obtain ⟨t1, e1, wf1, _, es1, _, _⟩ := insertSpace_any t hwf a d hd .stretch (by intro h; cases h)
  have hm : (⟨iv.s, iv.e + d, iv.l⟩ : Iv Int) ∈ t1.es := by
    rw [es1, List.mem_flatMap]
    refine ⟨iv, hiv, ?_⟩
    unfold C08.spaceP C08.Straddles at *
    rw [if_neg (by omega), if_neg (by omega)]; simp
  unfold spliceTier; rw [e1]
  show t1.insertEntry ⟨a, a + d, label⟩ .error = .error .CollisionError
  rw [insertEntry_strip]
  exact C11.insert_error_stripped t1 wf1 ⟨a, a + d, pyStrip label⟩ (by simp only; omega) (pyStrip_idem label) _ hm
    (by unfold C08.Straddles at hs; simp only; omega)

/-- **an empty segment** (`d = 0`; the case excluded by `0 < d`; a negative `d` does not occur, `d` is a
duration): the call raises — `insertEntry((t, t, label))` is rejected with `ArgumentError` (the code:
"Crop error: start time must occur before end time") unless `insertSpace` has already raised -/
theorem splice_tier_empty_segment (t : ITier Int) (a d : Int) (hd : d ≤ 0) (label : String) :
    ∃ e, spliceTier t a d label = .error e ∧
      ∀ t1, t.insertSpace a d .stretch = .ok t1 → e = .ArgumentError := by
  unfold spliceTier
  cases h : t.insertSpace a d .stretch with
  | error e => exact ⟨e, rfl, by intro t1 h'; cases h'⟩
  | ok t1 =>
    refine ⟨.ArgumentError, ?_, fun _ _ => rfl⟩
    show t1.insertEntry ⟨a, a + d, label⟩ .error = .error .ArgumentError
    unfold ITier.insertEntry ITier.crop
    simp only
    rw [if_pos (by omega)]
    rfl

/-! ### textgrid level -/

theorem insertOne_other (name : String) (x : Iv Int) (t : AnyTier Int) (h : t.name ≠ name) :
    insertOne name x t = .ok t := by
  unfold insertOne
  rw [if_neg (by simpa using h)]; rfl

theorem insertOne_named (name : String) (x : Iv Int) (it : ITier Int) (h : it.name = name) :
    insertOne name x (.I it) = .I <$> it.insertEntry x .error := by
  unfold insertOne
  rw [if_pos (by simpa [AnyTier.name] using h)]

theorem insertOne_name {name : String} {x : Iv Int} {t t' : AnyTier Int} (h : insertOne name x t = .ok t') :
    t'.name = t.name ∧ t'.isInterval = t.isInterval := by
  unfold insertOne at h
  split at h
  · cases t with
    | I it =>
      obtain ⟨z, hz, rfl⟩ := C12.map_ok h
      exact ⟨C12.insertEntry_name hz, rfl⟩
    | P _ => cases h
  · rw [← C12.pure_ok h]; exact ⟨rfl, rfl⟩

/-- **splice_spec (textgrid)**: `audioSplice` without alignment and without a replaced region is, tier by
tier and in order, `insertSpace(t, d, 'stretch')` followed on the named tier by the insertion of the
new interval; tier names, order and classes are kept -/
theorem splice_spec (g g' : Tg Int) (name label : String) (a d : Int)
    (h : spliceTg g [] name label a none d = .ok g') :
    ∃ g2 ts, g.insertSpace a d .stretch = .ok g2 ∧ g'.lo = g2.lo ∧ g'.hi = g2.hi ∧
      g.tiers.mapM (·.insertSpace a d .stretch) = .ok ts ∧
      ts.mapM (insertOne name ⟨a, a + d, label⟩) = .ok g'.tiers ∧
      g'.names = g.names ∧ g'.tiers.map (·.isInterval) = g.tiers.map (·.isInterval) := by
  unfold spliceTg at h
  simp only [List.foldlM_nil, Option.getD_none, bind, Except.bind, pure, Except.pure] at h
  cases h2 : g.insertSpace a d .stretch with
  | error e => rw [h2] at h; cases h
  | ok g2 =>
    rw [h2] at h
    simp only at h
    unfold insertIntoTier at h
    simp only [bind, Except.bind, pure, Except.pure] at h
    cases hg : g2.getTier name with
    | error e => rw [hg] at h; cases h
    | ok tn =>
      rw [hg] at h
      simp only at h
      cases hm : g2.tiers.mapM (insertOne name ⟨a, a + d, label⟩) with
      | error e => rw [hm] at h; cases h
      | ok ts' =>
        rw [hm] at h
        simp only [Except.ok.injEq] at h
        subst h
        have h3 := (C12.tgop_tiers g g2).2.2.1 a d .stretch h2
        have hn1 := C12.mapM_names (·.insertSpace a d .stretch) (fun t t' h => C12.AnyTier.insertSpace_name h) _ _ h3
        have hn2 := C12.mapM_names (insertOne name ⟨a, a + d, label⟩) (fun t t' h => insertOne_name h) _ _ hm
        refine ⟨g2, g2.tiers, rfl, rfl, rfl, h3, hm, ?_, ?_⟩
        · show C12.namesOf ts' = C12.namesOf g.tiers
          rw [hn2.1, hn1.1]
        · show ts'.map (·.isInterval) = g.tiers.map (·.isInterval)
          rw [hn2.2, hn1.2]

/-- with a replaced region the result is the same splice made at `insertStop`, followed by
`eraseRegion(insertStart, insertStop, doShrink=True)` (whose effect on every tier is C07) -/
theorem splice_region (g : Tg Int) (name label : String) (a b d : Int) :
    spliceTg g [] name label a (some b) d =
      (spliceTg g [] name label b none d >>= fun g3 => g3.eraseRegion a b true) := by
  unfold spliceTg
  simp only [List.foldlM_nil, Option.getD_some, Option.getD_none, bind, Except.bind, pure, Except.pure]
  cases g.insertSpace b d .stretch with
  | error e => rfl
  | ok g2 =>
    simp only
    cases insertIntoTier g2 name ⟨b, b + d, label⟩ <;> rfl

/-- **a replaced region that is empty or reversed** (`insertStop ≤ insertStart`; nothing in `audioSplice`
checks the order): the call raises, with `ArgumentError` from `eraseRegion` ("start time must occur
before end time") unless the splice itself has already raised.  On the code the exception comes after
`audioObj.insert` AND `audioObj.deleteSegment(insertStart, insertStop)` have run on the caller's object —
with a reversed region `frames[:i] + frames[j:]`, `i > j`, *duplicates* audio (100 samples + 5 inserted
→ 135) — see the note on mutation below. -/
theorem splice_region_reversed (g : Tg Int) (name label : String) (a b d : Int) (h : b ≤ a) :
    ∃ e, spliceTg g [] name label a (some b) d = .error e ∧
      ∀ g3, spliceTg g [] name label b none d = .ok g3 → e = .ArgumentError := by
  rw [splice_region]
  cases h3 : spliceTg g [] name label b none d with
  | error e => exact ⟨e, rfl, by intro g3 h'; cases h'⟩
  | ok g3 =>
    refine ⟨.ArgumentError, ?_, fun _ _ => rfl⟩
    show g3.eraseRegion a b true = .error .ArgumentError
    unfold Tg.eraseRegion
    rw [if_pos h]

/-- **alignToZeroCrossing = True** is the unaligned splice of the textgrid on which the `_shiftTimes` calls
have been made (one per aligned boundary: old time ↦ its crossing), at the aligned times and with the
duration of the cut segment; so every theorem of this section applies to the shifted textgrid.  (An
error of `_shiftTimes` — it inserts the moved entries with `collisionMode='error'`, "no checks are done" —
is the error of the call.) -/
theorem splice_aligned (g : Tg Int) (shifts : List (Int × Int)) (name label : String) (a : Int)
    (stop : Option Int) (d : Int) :
    spliceTg g shifts name label a stop d =
      (shifts.foldlM (fun acc p => shiftTimes acc p.1 p.2) g >>= fun g1 => spliceTg g1 [] name label a stop d) := by
  unfold spliceTg
  simp only [List.foldlM_nil, bind, Except.bind, pure, Except.pure]

/-- folding `addTier` keeps the span end when no added tier reaches beyond it -/
theorem foldlM_addTier_hi (f : AnyTier Int → Except Err (AnyTier Int)) (rep : Report) (H : Int) :
    ∀ (l : List (AnyTier Int)) (acc g' : Tg Int),
      l.foldlM (fun acc t => do let t' ← f t; acc.addTier t' none rep) acc = .ok g' →
      acc.hi = some H → (∀ t t', t ∈ l → f t = .ok t' → t'.hi ≤ H) → g'.hi = some H := by
  intro l
  induction l with
  | nil =>
    intro acc g' h hH _
    have : acc = g' := C12.pure_ok h
    subst this; exact hH
  | cons x l ih =>
    intro acc g' h hH hle
    rw [List.foldlM_cons] at h
    obtain ⟨acc1, h1, h2⟩ := C12.bind_ok h
    obtain ⟨t', h3, h4⟩ := C12.bind_ok h1
    have hsp := (C12.addTier_span h4).2
    rw [hH] at hsp
    have hx := hle x t' (by simp) h3
    have : acc1.hi = some H := by rw [hsp]; simp only; congr 1; omega
    exact ih acc1 g' h2 this (fun t t'' ht => hle t t'' (List.mem_cons_of_mem _ ht))

/-- the textgrid's own span end after `insertSpace` is the old one plus `d`, when no tier reaches
beyond the textgrid -/
theorem insertSpace_hi (g g2 : Tg Int) (s d H : Int) (m : SpaceMode) (hH : g.hi = some H)
    (h : g.insertSpace s d m = .ok g2)
    (hts : ∀ t t', t ∈ g.tiers → t.insertSpace s d m = .ok t' → t'.hi ≤ H + d) : g2.hi = some (H + d) := by
  unfold Tg.insertSpace at h
  exact foldlM_addTier_hi (·.insertSpace s d m) .warning (H + d) _ _ _ h (by simp [Tg.ofSpan, hH]) hts

/-! ### audio side -/

theorem insertB_length (f g : List UInt8) (i : Int) : (insertB f i g).length = f.length + g.length := by
  unfold insertB sliceTo sliceFrom
  have := pyClamp_le f.length i
  simp only [List.length_append, List.length_take, List.length_drop]
  omega

/-- inserting the segment lengthens the audio by exactly the segment, wherever the insertion time is -/
theorem spliceWav_length (wv : Wav) (seg : List UInt8) (a : QTime) :
    spliceWav wv seg a none = .ok (wv.insert a seg) ∧
    (wv.insert a seg).frames.length = wv.frames.length + seg.length := by
  refine ⟨rfl, ?_⟩
  unfold Wav.insert
  exact insertB_length _ _ _

/-- the textgrid's end after a splice without replaced region: the old end plus `d`, whatever `d` is -/
theorem splice_span (g g' : Tg Int) (name label : String) (a d H : Int) (hH : g.hi = some H)
    (hts : ∀ t t', t ∈ g.tiers → t.insertSpace a d .stretch = .ok t' → t'.hi ≤ H + d)
    (h : spliceTg g [] name label a none d = .ok g') : g'.hi = some (H + d) := by
  obtain ⟨g2, ts, h2, _, hhi, _⟩ := splice_spec g g' name label a _ h
  rw [hhi, insertSpace_hi g g2 a _ _ .stretch hH h2 hts]

/-- **durations agree** (no replaced region): measure time in byte durations `1/(rate·width)` s.  If the
textgrid ends where the audio ends and `d` is the duration of the segment, then after the splice the
textgrid again ends exactly where the audio ends — for every insertion point.  `hH` is the statement (they
cannot agree afterwards if they did not before: `splice_span` gives the end for any `H`), `hts` holds for
every valid textgrid (`insertSpace_tier_hi`), and `d = seg.length` says that the segment is measured with the
audio's own rate and width (`splice_segment_params_counterexample` otherwise). -/
theorem splice_sync (g g' : Tg Int) (name label : String) (a : Int) (wv : Wav) (seg : List UInt8) (qa : QTime)
    (hH : g.hi = some (wv.frames.length : Int))
    (hts : ∀ t t', t ∈ g.tiers → t.insertSpace a (seg.length : Int) .stretch = .ok t' →
      t'.hi ≤ (wv.frames.length : Int) + (seg.length : Int))
    (h : spliceTg g [] name label a none (seg.length : Int) = .ok g') :
    ∃ w', spliceWav wv seg qa none = .ok w' ∧ g'.hi = some ((w'.frames.length : Nat) : Int) := by
  obtain ⟨g2, ts, h2, _, hhi, _⟩ := splice_spec g g' name label a _ h
  refine ⟨_, (spliceWav_length wv seg qa).1, ?_⟩
  rw [hhi, insertSpace_hi g g2 a _ _ .stretch hH h2 hts, (spliceWav_length wv seg qa).2, Int.natCast_add]

/-- (Behaviour of `audioSplice` before the repair e7d7671, defect C18-3; a segment with other parameters is now
rejected up front: `splice_params_rejected`.  The statement remains a fact about the two halves of the splice.)
**`d` must be the duration of the segment in the audio's own units** — the hypothesis hidden in
`splice_sync`'s use of `seg.length` for `d`.  `audioSplice` takes `d = spliceSegment.duration`, computed with
the SEGMENT's frame rate and sample width, and inserts the segment's raw bytes into `audioObj`; nothing
checks that the two `Wav`s have the same parameters.  Whenever they differ, `d ≠ seg.length` (in byte
durations of the audio) and the returned audio and textgrid are out of step by exactly `d - seg.length`:
no error is raised.  On the code (audio rate 8, 100 samples; segment 5 samples): segment at rate 16 →
textgrid ends at 12.8125 s, audio at 13.125 s (2.5 samples apart); segment of width 1 → textgrid 13.125 s,
audio 12.8125 s, and the audio has an odd number of bytes (`getSamples` then raises `struct.error`). -/
theorem splice_segment_params_counterexample (g g' : Tg Int) (name label : String) (a d : Int) (wv : Wav)
    (seg : List UInt8) (qa : QTime) (hH : g.hi = some (wv.frames.length : Int))
    (hts : ∀ t t', t ∈ g.tiers → t.insertSpace a d .stretch = .ok t' → t'.hi ≤ (wv.frames.length : Int) + d)
    (hd : d ≠ (seg.length : Int))
    (h : spliceTg g [] name label a none d = .ok g') :
    ∃ w', spliceWav wv seg qa none = .ok w' ∧ g'.hi ≠ some ((w'.frames.length : Nat) : Int) := by
  refine ⟨_, (spliceWav_length wv seg qa).1, ?_⟩
  rw [splice_span g g' name label a d _ hH hts h, (spliceWav_length wv seg qa).2, Int.natCast_add]
  intro he
  simp only [Option.some.injEq] at he
  omega

/-- `C08.pinsert_spec` for an insertion point anywhere (its hypothesis `t.lo ≤ s` is not used by its proof) -/
theorem pinsertSpace_any (t : PTier Int) (hwf : t.WF) (s d : Int) (hd : 0 < d) :
    ∃ t', t.insertSpace s d = .ok t' ∧ t'.WF ∧ t'.hi = t.hi + d := by
  have hsorted : (t.ps.map (fun p => if p.t ≤ s then p else (⟨p.t + d, p.l⟩ : Pt Int))).Pairwise
      (fun a b => Pt.le a b = true) := by
    rw [List.pairwise_map]
    refine hwf.sorted.imp ?_
    intro a b hab
    have := Pt.le_time hab
    simp only [Pt.le] at hab ⊢
    by_cases ha : a.t ≤ s <;> by_cases hb : b.t ≤ s <;> simp only [ha, hb, if_true, if_false] <;> grind
  obtain ⟨t', e1, e2, _, _, _, e6⟩ := mkPTier_wf t.name _ t.lo (t.hi + d) hsorted
    (by intro p hp; obtain ⟨q, hq, rfl⟩ := List.mem_map.1 hp
        have := hwf.stripped q hq; split <;> simpa using this)
    (by intro p hp; obtain ⟨q, hq, rfl⟩ := List.mem_map.1 hp
        have := hwf.inLo q hq; split <;> first | omega | (simp only; omega))
    (by intro p hp; obtain ⟨q, hq, rfl⟩ := List.mem_map.1 hp
        have := hwf.inHi q hq; split <;> first | omega | (simp only; omega))
    (by have := hwf.span; omega)
  exact ⟨t', by simpa [PTier.insertSpace, PTier.new] using e1, e2, e6⟩

/-- the hypothesis `hts` of `splice_sync` / `splice_span` holds for every well-formed tier that ends at or
before the textgrid's end `H` (the class invariants of a valid textgrid), for EVERY insertion point `a`
(inside the tier's span or not) and every segment duration `d > 0` -/
theorem insertSpace_tier_hi (t : AnyTier Int) (t' : AnyTier Int) (a d H : Int) (hd : 0 < d)
    (hwf : match t with | .I it => it.WF | .P pt => pt.WF) (hH : t.hi ≤ H)
    (h : t.insertSpace a d .stretch = .ok t') : t'.hi ≤ H + d := by
  cases t with
  | I it =>
    obtain ⟨z, hz, rfl⟩ := C12.map_ok h
    obtain ⟨t1, e1, _, _, _, _, hi1⟩ := insertSpace_any it hwf a d hd .stretch (by intro h; cases h)
    rw [hz] at e1; cases e1
    show z.hi ≤ H + d
    rw [hi1]; have : it.hi ≤ H := hH; omega
  | P pt =>
    obtain ⟨z, hz, rfl⟩ := C12.map_ok h
    obtain ⟨t1, e1, _, hi1⟩ := pinsertSpace_any pt hwf a d hd
    have hz' : pt.insertSpace a d = .ok z := hz
    rw [hz'] at e1; cases e1
    show z.hi ≤ H + d
    rw [hi1]; have : pt.hi ≤ H := hH; omega

/-- the audio after a splice with a replaced region `[a, b]`: the samples before `a`, the segment, the
samples from `b` on — every other sample keeps value and order.  `wv.sampleIndex t` is the sample boundary of the
recording nearest to `t` (`C16.sampleIndex_nearest`): a start before the recording addresses its first sample
(commit 3f424d1; it used to be read as a negative Python index).  Hypotheses: whole samples (C16's domain);
a segment of whole samples of the audio's width (`hseg`); the two times address an ordered pair of
boundaries (`hab`; a reversed region is rejected: `splice_region_reversed`); the region does not end beyond the
recording (`hb`: there the segment is appended and the deletion, computed in the lengthened recording, reaches
into it). -/
theorem spliceWav_region_samples (wv : Wav) (hwv : C16.Whole wv) (seg : List UInt8) (hseg : wv.width ∣ seg.length)
    (a b : QTime) (hab : ¬ b < a) (hab' : sampleAtTime a wv.rate ≤ sampleAtTime b wv.rate)
    (hb : sampleAtTime b wv.rate ≤ wv.nsamples) :
    ∃ w', spliceWav wv seg a (some b) = .ok w' ∧ w'.width = wv.width ∧ w'.rate = wv.rate ∧
      w'.samples = wv.samples.take (wv.sampleIndex a) ++ unpack wv.width seg ++ wv.samples.drop (wv.sampleIndex b) := by
  unfold spliceWav
  simp only [Option.getD_some]
  have hw1 : C16.Whole (wv.insert b seg) := ⟨hwv.1, C16.insertB_whole _ _ _ hwv.2 hseg _⟩
  have hn := C16.insert_nsamples_le wv b seg
  have hst : ∀ t, sampleAtTime t wv.rate ≤ wv.nsamples → (wv.insert b seg).sampleIndex t = wv.sampleIndex t := by
    intro t ht
    show clampSample (sampleAtTime t wv.rate) (wv.insert b seg).nsamples = clampSample (sampleAtTime t wv.rate) wv.nsamples
    unfold clampSample; omega
  obtain ⟨w', h1, h2, h3, h4⟩ := C16.deleteSegment_samples _ hw1 a b hab
  refine ⟨w', h1, h2, h3, ?_⟩
  rw [h4, hst a (by omega), hst b hb, C16.insert_samples wv hwv b seg hseg]
  have hbr := C16.sample_range wv b
  have hi : wv.sampleIndex a ≤ wv.sampleIndex b := by
    unfold Wav.sampleIndex clampSample; omega
  rw [← C16.nsamples_samples] at hbr
  generalize wv.samples = S at *
  generalize wv.sampleIndex a = i at *
  generalize wv.sampleIndex b = j at *
  have htl : (S.take j).length = j := by rw [List.length_take]; omega
  rw [List.append_assoc, List.take_append_of_le_length (by omega), List.take_take, Nat.min_eq_left hi,
    List.drop_left' htl, List.append_assoc]

/-- a reversed region: the audio half raises `ArgumentError` (`deleteSegment`, commit 906b45b) instead of
duplicating audio -/
theorem spliceWav_region_reversed (wv : Wav) (seg : List UInt8) (a b : QTime) (h : b < a) :
    spliceWav wv seg a (some b) = .error .ArgumentError := by
  unfold spliceWav
  simp only [Option.getD_some]
  exact (C16.reversed_rejected (wv.insert b seg) a b [] h).2.2.2.1


/-! ### note on mutation (what the functional model cannot show; replayed on the class)

`audioSplice` copies the textgrid first (`retTG = tg.new()`; the caller's textgrid is never touched) but
NOT the audio: `audioObj.insert(...)` and `audioObj.deleteSegment(...)` edit the caller's `Wav` in place
and the same object is returned.  On success this is the documented result ("the audio to splice into").
The in-place `insert` however runs BEFORE every check of the textgrid half, so each raising case proved
above — `CollisionError` (`splice_tier_straddler`), `ArgumentError` of an empty or reversed region
(`splice_region_reversed`: there `deleteSegment` has run too and a reversed region has duplicated audio),
`KeyError` for an unknown tier name, the error for a point tier — leaves the caller's `Wav` longer by the
segment while no textgrid is returned: the caller's audio and textgrid are out of step afterwards.  (An
empty segment, `splice_tier_empty_segment`, changes nothing: inserting no bytes.)  `audioSplice` is not among
the operations C13 lists, and C18's sentence is about the returned pair; the finding is reported, not
claimed.  `tgBoundariesToZeroCrossings` likewise edits the textgrid it is given (`tg.replaceTier`, returns
the same object); when it raises on a later tier (`zcTier_I_collapse`, `zcTier_I_search_error`) the tiers
before it have already been replaced. -/

/-! ## 14b. the argument checks of `audioSplice` (commit e7d7671, defect C18-3)

Before the repair `audioSplice` accepted an insertion point outside the textgrid's span and a segment of another frame
rate / sample width (`splice_outside_counterexample`, `splice_segment_params_counterexample`: results in which tier,
textgrid and audio end at different times) and edited the caller's `Wav` before the steps that can raise.  Now the
checks come first; every excluded input is an `ArgumentError` with nothing copied or changed — each its own theorem. -/

theorem insideTg_iff (g : Tg Int) (t : Int) :
    insideTg g t = true ↔ ∃ lo hi, g.lo = some lo ∧ g.hi = some hi ∧ lo ≤ t ∧ t ≤ hi := by
  unfold insideTg
  cases hlo : g.lo with
  | none => simp
  | some lo =>
    cases hhi : g.hi with
    | none => simp
    | some hi => simp

/-- **the checks accept exactly**: a segment with the audio's parameters, `insertStart ≤ insertStop` when a region is
given, and both times inside the textgrid's span -/
theorem spliceCheck_ok_iff (g : Tg Int) (same : Bool) (a : Int) (b : Option Int) :
    spliceCheck g same a b = .ok () ↔
      same = true ∧ (∀ s, b = some s → a ≤ s) ∧ insideTg g a = true ∧ (∀ s, b = some s → insideTg g s = true) := by
  unfold spliceCheck
  cases same with
  | false => simp
  | true =>
    cases b with
    | none => cases h : insideTg g a <;> simp
    | some s =>
      by_cases h1 : s < a
      · have : ¬ a ≤ s := by omega
        simp [h1, this]
      · have h1' : a ≤ s := by omega
        cases h2 : insideTg g a <;> cases h3 : insideTg g s <;> simp [h1, h1', h3]

/-- every other input is rejected with `ArgumentError`, nothing else -/
theorem spliceCheck_error (g : Tg Int) (same : Bool) (a : Int) (b : Option Int) (e : Err)
    (h : spliceCheck g same a b = .error e) : e = .ArgumentError := by
  unfold spliceCheck at h
  cases same with
  | false => simp at h; exact h.symm
  | true =>
    cases b with
    | none =>
      cases h2 : insideTg g a <;> simp [h2] at h
      exact h.symm
    | some s =>
      by_cases h1 : s < a
      · simp [h1] at h; exact h.symm
      · cases h2 : insideTg g a <;> cases h3 : insideTg g s <;> simp [h1, h2, h3] at h <;> exact h.symm

/-- `audioSplice` is the checks followed by the splice: when they pass, the theorems about `spliceTg`
(`splice_spec`, `splice_region`, `splice_sync`, …) apply; when they do not, nothing else runs -/
theorem audioSpliceTg_eq (g : Tg Int) (same : Bool) (t0 : Int) (t0s : Option Int) (shifts : List (Int × Int))
    (name label : String) (a : Int) (b : Option Int) (d : Int) :
    audioSpliceTg g same t0 t0s shifts name label a b d =
      match spliceCheck g same t0 t0s with
      | .error e => .error e
      | .ok _ => spliceTg g shifts name label a b d := rfl

/-- **a segment of another frame rate or sample width is rejected** (it used to be spliced in: audio and textgrid
ended several samples apart, or the audio got an odd number of bytes) -/
theorem splice_params_rejected (g : Tg Int) (t0 : Int) (t0s : Option Int) (shifts : List (Int × Int))
    (name label : String) (a : Int) (b : Option Int) (d : Int) :
    audioSpliceTg g false t0 t0s shifts name label a b d = .error .ArgumentError := rfl

/-- **an insertion point (or region end) outside the textgrid's span is rejected** (it used to be accepted: the new
interval lay outside the textgrid, the tier ended after textgrid and audio) -/
theorem splice_outside_rejected (g : Tg Int) (same : Bool) (t0 : Int) (t0s : Option Int) (shifts : List (Int × Int))
    (name label : String) (a : Int) (b : Option Int) (d : Int)
    (h : insideTg g t0 = false ∨ ∃ s, t0s = some s ∧ insideTg g s = false) :
    audioSpliceTg g same t0 t0s shifts name label a b d = .error .ArgumentError := by
  rw [audioSpliceTg_eq]
  cases hc : spliceCheck g same t0 t0s with
  | error e => rw [spliceCheck_error g same t0 t0s e hc]
  | ok u =>
    exfalso
    obtain ⟨_, _, h3, h4⟩ := (spliceCheck_ok_iff g same t0 t0s).1 hc
    rcases h with h | ⟨s, hs, h⟩
    · rw [h3] at h; cases h
    · rw [h4 s hs] at h; cases h

/-- **a reversed region is rejected before anything is done** (it used to raise only after the caller's audio had
been lengthened and, before 906b45b, the region's audio duplicated) -/
theorem splice_reversed_rejected (g : Tg Int) (same : Bool) (t0 s : Int) (shifts : List (Int × Int))
    (name label : String) (a : Int) (b : Option Int) (d : Int) (h : s < t0) :
    audioSpliceTg g same t0 (some s) shifts name label a b d = .error .ArgumentError := by
  rw [audioSpliceTg_eq]
  cases hc : spliceCheck g same t0 (some s) with
  | error e => rw [spliceCheck_error g same t0 (some s) e hc]
  | ok u =>
    exfalso
    obtain ⟨_, h2, _, _⟩ := (spliceCheck_ok_iff g same t0 (some s)).1 hc
    have := h2 s rfl
    omega

/-- the former counter-example inputs (rate 8, textgrid `[0, 100]` ticks, insertion at 104 and at −8): rejected -/
theorem splice_outside_regression :
    audioSpliceTg (⟨[], some 0, some 100⟩ : Tg Int) true 104 none [] "T" "new" 104 none 5 = .error .ArgumentError ∧
    audioSpliceTg (⟨[], some 0, some 100⟩ : Tg Int) true (-8) none [] "T" "new" (-8) none 5 = .error .ArgumentError ∧
    audioSpliceTg (⟨[], some 0, some 100⟩ : Tg Int) true 22 (some 18) [] "T" "new" 22 (some 18) 5 = .error .ArgumentError ∧
    audioSpliceTg (⟨[], some 0, some 100⟩ : Tg Int) false 20 none [] "T" "new" 20 none 5 = .error .ArgumentError := by
  refine ⟨?_, ?_, ?_, rfl⟩
  · exact splice_outside_rejected _ _ _ _ _ _ _ _ _ _ (Or.inl (by decide))
  · exact splice_outside_rejected _ _ _ _ _ _ _ _ _ _ (Or.inl (by decide))
  · exact splice_reversed_rejected _ _ _ _ _ _ _ _ _ _ (by decide)

/-! ## 15. (g) `tgBoundariesToZeroCrossings`: only timestamps change -/

/-- a search that always returns (the abstract `zc : time → time` map) -/
def okz (zc : Int → Int) : Int → Except Err Int := fun x => .ok (zc x)
def mvIv (zc : Int → Int) (iv : Iv Int) : Iv Int := ⟨zc iv.s, zc iv.e, iv.l⟩
def mvPt (zc : Int → Int) (p : Pt Int) : Pt Int := ⟨zc p.t, p.l⟩

theorem mapM_pure {β γ} (f : β → γ) (l : List β) :
    l.mapM (fun x => (Except.ok (f x) : Except Err γ)) = .ok (l.map f) := by
  induction l with
  | nil => rfl
  | cons a l ih => rw [List.mapM_cons, ih]; rfl

/-- the new interval tier is the tier constructor applied to the entries with `zc` applied to both
boundaries (labels untouched) -/
theorem zcTier_I (zc : Int → Int) (t : ITier Int) :
    zcTier (okz zc) (.I t) = .I <$> mkITier t.name (t.es.map (mvIv zc)) (some t.lo) (some t.hi) := by
  have e : zcIv (okz zc) = fun iv => (Except.ok (mvIv zc iv) : Except Err (Iv Int)) := by funext iv; rfl
  simp only [zcTier, e]
  rw [mapM_pure (mvIv zc)]
  rfl

theorem zcTier_P (zc : Int → Int) (t : PTier Int) :
    zcTier (okz zc) (.P t) = .P <$> mkPTier t.name (t.ps.map (mvPt zc)) (some t.lo) (some t.hi) := by
  have e : zcPt (okz zc) = fun p => (Except.ok (mvPt zc p) : Except Err (Pt Int)) := by funext p; rfl
  simp only [zcTier, e]
  rw [mapM_pure (mvPt zc)]
  rfl

theorem stripped_map_mvIv (zc : Int → Int) (es : List (Iv Int)) (hs : Stripped es) : Stripped (es.map (mvIv zc)) := by
  intro iv hiv
  obtain ⟨x, hx, rfl⟩ := List.mem_map.1 hiv
  exact hs x hx

/-- **tgBoundaries_spec (interval tier, order-preserving search)**: if `zc` is monotone and collapses no
interval, the new tier is well formed and its entries are the old ones, in the same order, with the
same labels, each boundary replaced by its crossing.  Both hypotheses on `zc` are needed and the real search
satisfies neither in general: otherwise the call raises (`zcTier_I_collapse`,
`tgBoundaries_collapse_counterexample`). -/
theorem zcTier_I_mono (zc : Int → Int) (hmono : ∀ x y, x ≤ y → zc x ≤ zc y) (t : ITier Int) (hwf : t.WF)
    (hpos : ∀ iv ∈ t.es, zc iv.s < zc iv.e) :
    ∃ t', zcTier (okz zc) (.I t) = .ok (.I t') ∧ t'.WF ∧ t'.name = t.name ∧ t'.es = t.es.map (mvIv zc) := by
  have hp : Pos (t.es.map (mvIv zc)) := by
    intro iv hiv
    obtain ⟨x, hx, rfl⟩ := List.mem_map.1 hiv
    exact hpos x hx
  have hd : Disj (t.es.map (mvIv zc)) := by
    unfold Disj
    rw [List.pairwise_map]
    exact hwf.disj.imp (fun {a b} hab => hmono _ _ hab)
  obtain ⟨t', e1, e2, e3, e4, _, _⟩ := mkITier_wf t.name _ t.lo t.hi hwf.span hp hd (stripped_map_mvIv zc _ hwf.stripped)
  refine ⟨t', ?_, e2, e4, e3⟩
  rw [zcTier_I, e1]; rfl

theorem mkITier_ok_es {n : String} {es : List (Iv Int)} {lo hi : Option Int} {t : ITier Int}
    (h : mkITier n es lo hi = .ok t) :
    t.name = n ∧ t.es = sortIvs (es.map fun iv => { iv with l := pyStrip iv.l }) := by
  unfold mkITier at h
  simp only at h
  split at h
  · split at h
    · cases h; exact ⟨rfl, rfl⟩
    · cases h
  · cases h

theorem mkITier_some_err {n : String} {es : List (Iv Int)} {lo hi : Int} {e : Err}
    (h : mkITier n es (some lo) (some hi) = .error e) : e = .TextgridStateError := by
  rcases C12.mkITier_err h with h1 | h1
  · exact h1
  · exfalso
    subst h1
    unfold mkITier at h
    simp only [Option.toList_some] at h
    rw [pyMinList_append_single, pyMaxList_append_single] at h
    simp only at h
    split at h <;> cases h

theorem mkPTier_ok_ps {n : String} {ps : List (Pt Int)} {lo hi : Option Int} {t : PTier Int}
    (h : mkPTier n ps lo hi = .ok t) :
    t.name = n ∧ t.ps = sortPts (ps.map fun p => { p with l := pyStrip p.l }) := by
  unfold mkPTier at h
  simp only at h
  split at h
  · cases h; exact ⟨rfl, rfl⟩
  · cases h

theorem mkPTier_some_ok (n : String) (ps : List (Pt Int)) (lo hi : Int) :
    ∃ t, mkPTier n ps (some lo) (some hi) = .ok t := by
  cases h : mkPTier n ps (some lo) (some hi) with
  | ok t => exact ⟨t, rfl⟩
  | error e =>
    exfalso
    unfold mkPTier at h
    simp only [Option.toList_some, List.append_assoc] at h
    generalize (sortPts (ps.map fun p => ({ p with l := pyStrip p.l } : Pt Int))).map (·.t) = ts at h
    cases ts <;> simp [pyMinList, pyMaxList] at h

/-- **tgBoundaries_spec (interval tier, any search)**: whenever the new tier can be built, it has the
old name, as many entries as before and the same labels: its entries are the old ones with `zc`
applied to the boundaries, re-sorted by the constructor; otherwise the constructor raises
`TextgridStateError` (an interval collapsed or two overlap) -/
theorem zcTier_I_ok (zc : Int → Int) (t : ITier Int) (hstr : Stripped t.es) :
    (∀ u, zcTier (okz zc) (.I t) = .ok u → ∃ t', u = .I t' ∧ t'.name = t.name ∧
      t'.es = sortIvs (t.es.map (mvIv zc)) ∧ t'.es.length = t.es.length ∧
      (t'.es.map (·.l)).Perm (t.es.map (·.l))) ∧
    (∀ e, zcTier (okz zc) (.I t) = .error e → e = .TextgridStateError) := by
  rw [zcTier_I]
  have hperm := sortIvs_perm (t.es.map (mvIv zc))
  have hlab : ((t.es.map (mvIv zc)).map (·.l)) = t.es.map (·.l) := by
    rw [List.map_map]; rfl
  constructor
  · intro u hu
    obtain ⟨t', ht', rfl⟩ := C12.map_ok hu
    obtain ⟨hn, hes⟩ := mkITier_ok_es ht'
    rw [map_strip_of_stripped _ (stripped_map_mvIv zc _ hstr)] at hes
    refine ⟨t', rfl, hn, hes, ?_, ?_⟩
    · rw [hes, hperm.length_eq, List.length_map]
    · rw [hes, ← hlab]; exact hperm.map _
  · intro e he
    exact mkITier_some_err (C12.map_err he)

/-- the tier constructor rejects an entry list holding an interval that is empty or turned around, wherever
sorting puts it (`IntervalTier._validate`: "The start time of an interval cannot occur after its end time") -/
theorem mkITier_not_pos (name : String) (es : List (Iv Int)) (lo hi : Int) (iv : Iv Int) (hiv : iv ∈ es)
    (hbad : iv.e ≤ iv.s) : mkITier name es (some lo) (some hi) = .error .TextgridStateError := by
  unfold mkITier
  simp only [Option.toList_some, pyMinList_append_single, pyMaxList_append_single]
  have : ivsAllPos (sortIvs (es.map fun iv => ({ iv with l := pyStrip iv.l } : Iv Int))) = false := by
    cases h : ivsAllPos (sortIvs (es.map fun iv => ({ iv with l := pyStrip iv.l } : Iv Int))) with
    | false => rfl
    | true =>
      exfalso
      have hp := (ivsAllPos_iff _).1 h
      have hm : ({ iv with l := pyStrip iv.l } : Iv Int) ∈
          sortIvs (es.map fun iv => ({ iv with l := pyStrip iv.l } : Iv Int)) :=
        (sortIvs_perm _).mem_iff.2 (List.mem_map_of_mem hiv)
      have := hp _ hm
      simp only at this
      omega
  rw [this]
  rfl

/-- **an interval whose two boundaries are sent to the same crossing, or past each other, makes the whole
call raise** `TextgridStateError` (the case excluded by `hpos`/`hmono` of `zcTier_I_mono`; nothing is dropped,
nothing is returned) — for any search `zc` that returns for every boundary of the tier -/
theorem zcTier_I_collapse (zc : Int → Except Err Int) (t : ITier Int) (es' : List (Iv Int))
    (hok : t.es.mapM (zcIv zc) = .ok es') (iv : Iv Int) (hiv : iv ∈ es') (hbad : iv.e ≤ iv.s) :
    zcTier zc (.I t) = .error .TextgridStateError := by
  simp only [zcTier]
  rw [hok]
  show (AnyTier.I <$> mkITier t.name es' (some t.lo) (some t.hi)) = _
  rw [mkITier_not_pos t.name es' t.lo t.hi iv hiv hbad]
  rfl

/-- the same for a search abstracted as a total map -/
theorem zcTier_I_collapse_okz (zc : Int → Int) (t : ITier Int) (iv : Iv Int) (hiv : iv ∈ t.es)
    (hbad : zc iv.e ≤ zc iv.s) : zcTier (okz zc) (.I t) = .error .TextgridStateError := by
  rw [zcTier_I, mkITier_not_pos t.name _ t.lo t.hi (mvIv zc iv) (List.mem_map_of_mem hiv) hbad]
  rfl

/-- one sign change, between samples 4 and 5 (20 samples; rate 1000 on the code, so that the default
`timeStep` 0.002 s is 2 samples) -/
def exOneCrossing : List Int := [5, 5, 5, 5, 5, -5, -5, -5, -5, -5, -5, -5, -5, -5, -5, -5, -5, -5, -5, -5]
/-- a sign change between samples 2 and 3 and a zero at sample 7 -/
def exZeroAndChange : List Int := [5, 5, 5, -5, -5, -5, -5, 0, -5, -5, -5, -5, -5, -5, -5, -5, -5, -5, -5, -5]

/-- **the real zero-crossing map is neither injective nor monotone on sample positions**, so the hypotheses of
`zcTier_I_mono` do fail on real recordings, and `tgBoundariesToZeroCrossings` then RAISES instead of
"keeping every tier's entry count and labels" (C18's wording):
* `exOneCrossing`: samples 2 and 3 are both sent to sample 4; a tier holding the interval `[2, 3]` makes
  the call raise `TextgridStateError` ("The start time of an interval (0.004) cannot occur after its end
  time (0.004)");
* `exZeroAndChange`: a zero is preferred to a nearer sign change inside one window, so sample 3 is sent
  to 7 and sample 4 to 2; the interval `[3, 4]` would become `[7, 2]`: `TextgridStateError` again.
The same through the textgrid-level function.  On the code: `Wav` of these samples at rate 1000,
`Textgrid(0, 0.02)` with `IntervalTier('T', [(0.002, 0.003, 'a')], 0, 0.02)`, resp. `(0.003, 0.004, 'a')`,
`tgBoundariesToZeroCrossings(tg, wav)`. -/
theorem tgBoundaries_collapse_counterexample (t : ITier Int) (l : String) (lo hi : Option Int) (ap : Bool) :
    (searchList 1 exOneCrossing 2 2 = .ok 4 ∧ searchList 1 exOneCrossing 3 2 = .ok 4 ∧
      (t.es = [⟨2, 3, l⟩] →
        zcTier (fun x => searchList 1 exOneCrossing x 2) (.I t) = .error .TextgridStateError ∧
        tgBoundaries (fun x => searchList 1 exOneCrossing x 2) ⟨[.I t], lo, hi⟩ ap true =
          .error .TextgridStateError)) ∧
    (searchList 1 exZeroAndChange 3 2 = .ok 7 ∧ searchList 1 exZeroAndChange 4 2 = .ok 2 ∧
      (t.es = [⟨3, 4, l⟩] →
        zcTier (fun x => searchList 1 exZeroAndChange x 2) (.I t) = .error .TextgridStateError ∧
        tgBoundaries (fun x => searchList 1 exZeroAndChange x 2) ⟨[.I t], lo, hi⟩ ap true =
          .error .TextgridStateError)) := by
  have a1 : searchList 1 exOneCrossing 2 2 = .ok 4 := by decide
  have a2 : searchList 1 exOneCrossing 3 2 = .ok 4 := by decide
  have b1 : searchList 1 exZeroAndChange 3 2 = .ok 7 := by decide
  have b2 : searchList 1 exZeroAndChange 4 2 = .ok 2 := by decide
  have tg : ∀ (zc : Int → Except Err Int), zcTier zc (.I t) = .error .TextgridStateError →
      tgBoundaries zc ⟨[.I t], lo, hi⟩ ap true = .error .TextgridStateError := by
    intro zc hz
    simp only [tgBoundaries, List.foldlM_cons, zcStep, zcSkips, AnyTier.isInterval,
      Bool.not_true, Bool.and_false, Bool.false_or, Bool.false_and, Bool.false_eq_true,
      if_false, hz, bind, Except.bind]
  refine ⟨⟨a1, a2, fun hes => ?_⟩, ⟨b1, b2, fun hes => ?_⟩⟩
  · have hz := zcTier_I_collapse (fun x => searchList 1 exOneCrossing x 2) t [⟨4, 4, l⟩]
      (by rw [hes]; simp only [List.mapM_cons, List.mapM_nil, zcIv, a1, a2, bind, Except.bind, pure, Except.pure])
      ⟨4, 4, l⟩ (by simp) (by simp)
    exact ⟨hz, tg _ hz⟩
  · have hz := zcTier_I_collapse (fun x => searchList 1 exZeroAndChange x 2) t [⟨7, 2, l⟩]
      (by rw [hes]; simp only [List.mapM_cons, List.mapM_nil, zcIv, b1, b2, bind, Except.bind, pure, Except.pure])
      ⟨7, 2, l⟩ (by simp) (by simp)
    exact ⟨hz, tg _ hz⟩

/-- **tgBoundaries_spec (point tier)**: the new point tier always exists; its points are the old ones at
their crossings, re-sorted (points that move past each other swap places), labels and count kept -/
theorem zcTier_P_ok (zc : Int → Int) (t : PTier Int) (hstr : ∀ p ∈ t.ps, pyStrip p.l = p.l) :
    ∃ t', zcTier (okz zc) (.P t) = .ok (.P t') ∧ t'.name = t.name ∧
      t'.ps = sortPts (t.ps.map (mvPt zc)) ∧ t'.ps.length = t.ps.length ∧
      (t'.ps.map (·.l)).Perm (t.ps.map (·.l)) := by
  rw [zcTier_P]
  obtain ⟨t', ht'⟩ := mkPTier_some_ok t.name (t.ps.map (mvPt zc)) t.lo t.hi
  obtain ⟨hn, hps⟩ := mkPTier_ok_ps ht'
  have hs : (t.ps.map (mvPt zc)).map (fun p => ({ p with l := pyStrip p.l } : Pt Int)) = t.ps.map (mvPt zc) := by
    rw [List.map_map]
    apply List.map_congr_left
    intro p hp
    show (⟨zc p.t, pyStrip p.l⟩ : Pt Int) = ⟨zc p.t, p.l⟩
    rw [hstr p hp]
  rw [hs] at hps
  have hperm : (sortPts (t.ps.map (mvPt zc))).Perm (t.ps.map (mvPt zc)) := List.mergeSort_perm _ _
  have hlab : ((t.ps.map (mvPt zc)).map (·.l)) = t.ps.map (·.l) := by rw [List.map_map]; rfl
  refine ⟨t', by rw [ht']; rfl, hn, hps, ?_, ?_⟩
  · rw [hps, hperm.length_eq, List.length_map]
  · rw [hps, ← hlab]; exact hperm.map _

theorem zcTier_name {zc : Int → Except Err Int} {t t' : AnyTier Int} (h : zcTier zc t = .ok t') :
    t'.name = t.name ∧ t'.isInterval = t.isInterval := by
  cases t with
  | I it =>
    simp only [zcTier] at h
    obtain ⟨es, _, h2⟩ := C12.bind_ok h
    obtain ⟨z, hz, rfl⟩ := C12.map_ok h2
    exact ⟨C12.ITier.new_name hz, rfl⟩
  | P pt =>
    simp only [zcTier] at h
    obtain ⟨ps, _, h2⟩ := C12.bind_ok h
    obtain ⟨z, hz, rfl⟩ := C12.map_ok h2
    exact ⟨C12.PTier.new_name hz, rfl⟩

/-- two lists related position by position -/
inductive Pointwise {β : Type} (R : β → β → Prop) : List β → List β → Prop
  | nil : Pointwise R [] []
  | cons {a b : β} {l l' : List β} : R a b → Pointwise R l l' → Pointwise R (a :: l) (b :: l')

theorem Pointwise.get {β : Type} {R : β → β → Prop} {l l' : List β} (h : Pointwise R l l') :
    l.length = l'.length ∧ ∀ (i : Nat) (a : β), l[i]? = some a → ∃ b, l'[i]? = some b ∧ R a b := by
  induction h with
  | nil => exact ⟨rfl, by intro i a h; simp at h⟩
  | cons hr _ ih =>
    refine ⟨by simp [ih.1], ?_⟩
    intro i a hi
    cases i with
    | zero => simp at hi; subst hi; exact ⟨_, by simp, hr⟩
    | succ i => simpa using ih.2 i a (by simpa using hi)

theorem Pointwise.map_eq {β γ : Type} {R : β → β → Prop} {l l' : List β} (h : Pointwise R l l') (f : β → γ)
    (hf : ∀ a b, R a b → f b = f a) : l'.map f = l.map f := by
  induction h with
  | nil => rfl
  | cons hr _ ih => simp only [List.map_cons, ih, hf _ _ hr]

/-- what one tier becomes: left alone when its class is not to be adjusted, else `zcTier` of it -/
def ZcRel (zc : Int → Except Err Int) (ap ai : Bool) (t t' : AnyTier Int) : Prop :=
  if zcSkips ap ai t = true then t' = t else zcTier zc t = .ok t'

theorem zcRel_name {zc : Int → Except Err Int} {ap ai : Bool} {t t' : AnyTier Int} (h : ZcRel zc ap ai t t') :
    t'.name = t.name ∧ t'.isInterval = t.isInterval := by
  unfold ZcRel at h
  split at h
  · rw [h]; exact ⟨rfl, rfl⟩
  · exact zcTier_name h

theorem fold_zc (zc : Int → Except Err Int) (ap ai : Bool) :
    ∀ (rest pre : List (AnyTier Int)) (acc g' : Tg Int), acc.tiers = pre ++ rest →
      (C12.namesOf (pre ++ rest)).Nodup →
      rest.foldlM (zcStep zc ap ai) acc = .ok g' →
      ∃ post, g'.tiers = pre ++ post ∧ Pointwise (ZcRel zc ap ai) rest post := by
  intro rest
  induction rest with
  | nil =>
    intro pre acc g' hacc _ h
    have : acc = g' := C12.pure_ok h
    subst this
    exact ⟨[], hacc, Pointwise.nil⟩
  | cons t rest ih =>
    intro pre acc g' hacc hnd h
    rw [List.foldlM_cons] at h
    obtain ⟨acc1, h1, h2⟩ := C12.bind_ok h
    unfold zcStep at h1
    by_cases hsk : zcSkips ap ai t = true
    · rw [if_pos hsk] at h1
      have : acc = acc1 := C12.pure_ok h1
      subst this
      obtain ⟨post, e1, e2⟩ := ih (pre ++ [t]) acc g' (by rw [hacc]; simp) (by simpa using hnd) h2
      refine ⟨t :: post, by rw [e1]; simp, Pointwise.cons ?_ e2⟩
      unfold ZcRel; rw [if_pos hsk]
    · rw [if_neg hsk] at h1
      obtain ⟨nt, hz, hr⟩ := C12.bind_ok h1
      have hname := (zcTier_name hz).1
      have haccnd : acc.names.Nodup := by
        show (C12.namesOf acc.tiers).Nodup
        rw [hacc]; exact hnd
      have hget : acc.tiers[pre.length]? = some t := by rw [hacc]; simp
      have hidx : acc.indexOf t.name = some pre.length := C12.idxOf_of_getElem haccnd hget
      obtain ⟨g'', e1, e2, _⟩ := (C12.replaceTier_spec acc t.name nt .warning haccnd).2.2 pre.length hidx
        (by rw [hname]; intro hc; exact hc.1 rfl) (by intro hc; cases hc.1)
      rw [hr] at e1
      cases e1
      have hset : acc1.tiers = (pre ++ [nt]) ++ rest := by
        rw [e2, hacc]; simp
      have hnd' : (C12.namesOf ((pre ++ [nt]) ++ rest)).Nodup := by
        have : C12.namesOf ((pre ++ [nt]) ++ rest) = C12.namesOf (pre ++ t :: rest) := by
          simp [C12.namesOf, hname]
        rw [this]; exact hnd
      obtain ⟨post, e3, e4⟩ := ih (pre ++ [nt]) acc1 g' hset hnd' h2
      refine ⟨nt :: post, by rw [e3]; simp, Pointwise.cons ?_ e4⟩
      unfold ZcRel; rw [if_neg hsk]; exact hz

/-- **tgBoundaries_spec (textgrid)**: for a textgrid with pairwise different tier names, when the call
returns, the tiers are the old ones position by position — left alone if their class is not to be
adjusted, otherwise rebuilt by `zcTier` (same name, same class; entry counts and labels by
`zcTier_I_ok` / `zcTier_P_ok`) — so tier names and order are unchanged -/
theorem tgBoundaries_spec (zc : Int → Except Err Int) (g g' : Tg Int) (ap ai : Bool) (hnd : g.names.Nodup)
    (h : tgBoundaries zc g ap ai = .ok g') :
    Pointwise (ZcRel zc ap ai) g.tiers g'.tiers ∧ g'.names = g.names ∧
      g'.tiers.map (·.isInterval) = g.tiers.map (·.isInterval) := by
  unfold tgBoundaries at h
  obtain ⟨post, e1, e2⟩ := fold_zc zc ap ai g.tiers [] g g' (by simp) hnd h
  simp only [List.nil_append] at e1
  refine ⟨by rw [e1]; exact e2, ?_, ?_⟩
  · show g'.tiers.map (·.name) = g.tiers.map (·.name)
    rw [e1]
    exact e2.map_eq (·.name) (fun a b hr => (zcRel_name hr).1)
  · rw [e1]
    exact e2.map_eq (·.isInterval) (fun a b hr => (zcRel_name hr).2)

theorem mapM_error_of_mem {β γ : Type} (f : β → Except Err γ) :
    ∀ (l : List β), (∃ x ∈ l, ∃ e, f x = .error e) → ∃ e, l.mapM f = .error e ∧ ∃ x ∈ l, f x = .error e := by
  intro l
  induction l with
  | nil => rintro ⟨x, hx, _⟩; cases hx
  | cons a l ih =>
    rintro ⟨x, hx, e, he⟩
    rw [List.mapM_cons]
    cases ha : f a with
    | error e' => exact ⟨e', rfl, a, by simp, ha⟩
    | ok b =>
      have hx' : x ∈ l := by
        rcases List.mem_cons.1 hx with rfl | h
        · rw [ha] at he; cases he
        · exact h
      obtain ⟨e', h1, y, hy, h2⟩ := ih ⟨x, hx', e, he⟩
      refine ⟨e', ?_, y, List.mem_cons_of_mem _ hy, h2⟩
      simp only [bind, Except.bind, h1]

/-- an error of the search for ANY boundary of ANY entry is an error of the whole call — the error of the
first boundary, in entry order, whose search raises (nothing is "left unchanged when no crossing is found":
the exception propagates; e.g. `FindZeroCrossingError` for a boundary lying exactly on an isolated sign
change, `incomplete_counterexample`) -/
theorem zcTier_I_search_error (zc : Int → Except Err Int) (t : ITier Int) (iv : Iv Int) (hiv : iv ∈ t.es)
    (hz : (∃ e, zc iv.s = .error e) ∨ (∃ e, zc iv.e = .error e)) :
    ∃ e, zcTier zc (.I t) = .error e ∧ ∃ iv' ∈ t.es, zc iv'.s = .error e ∨ zc iv'.e = .error e := by
  have hiverr : ∃ e, zcIv zc iv = .error e := by
    unfold zcIv
    cases hs : zc iv.s with
    | error e => exact ⟨e, rfl⟩
    | ok s' =>
      rcases hz with ⟨e, he⟩ | ⟨e, he⟩
      · rw [hs] at he; cases he
      · exact ⟨e, by simp only [bind, Except.bind, he]⟩
  obtain ⟨e, h1, iv', hiv', h2⟩ := mapM_error_of_mem (zcIv zc) t.es ⟨iv, hiv, hiverr⟩
  refine ⟨e, ?_, iv', hiv', ?_⟩
  · simp only [zcTier]; rw [h1]; rfl
  · unfold zcIv at h2
    cases hs : zc iv'.s with
    | error e' => rw [hs] at h2; simp only [bind, Except.bind] at h2; cases h2; exact Or.inl rfl
    | ok s' =>
      rw [hs] at h2
      cases he : zc iv'.e with
      | error e' => rw [he] at h2; simp only [bind, Except.bind] at h2; cases h2; exact Or.inr rfl
      | ok e' => rw [he] at h2; simp only [bind, Except.bind, pure, Except.pure] at h2; cases h2


/-! ## 16. non-vacuity and concrete illustrations

`example … := by decide` are kernel-checked; `#guard`s are interpreter tests (labels are `String`s, on
which `decide` gets stuck).  The values are the ones the real code returns (harness corpus). -/

/-- rate 8, one tick per sample -/
def exS : List Int := [5, 3, 2, 1, -1, -4, 2, 7, 7, 7, 7, 7, 7, -3, 4, 4, 4, 4, 4, 4]

-- `result_on_grid` observed
example : searchList 1 exS 3 2 = .ok 3 ∧ Genuine exS 3 := by decide
example : searchList 1 exS 10 2 = .ok 13 ∧ Genuine exS 13 := by decide
example : searchList 1 exS 0 2 = .ok 3 := by decide
-- a target beyond the end / before the start still returns a crossing inside the recording
example : searchList 1 exS 24 2 = .ok 13 ∧ searchList 1 exS (-8) 2 = .ok 3 := by decide
-- documented errors
example : searchList 1 exS 3 1 = .error .ArgumentError := by decide
example : searchList 1 [3, 3, 3, 3, 3, 3] 2 2 = .error .FindZeroCrossingError := by decide
example : Flat [3, 3, 3, 3, 3, 3] := flat_of_pos _ (by decide)
-- all-zero: the target itself (`all_zero_target`); the end-of-recording cases are the theorems `all_zero_end` and
-- `incomplete_counterexample`; a recording without samples: `empty_recording_error`
example : searchList 1 zeros8 3 2 = .ok 3 := by decide
example : searchList 1 [] 0 2 = .error .FindZeroCrossingError ∧ searchList 1 [] (10 ^ 17) 2 = .error .FindZeroCrossingError := by decide
-- a tie between the two sides goes to the left candidate
example : searchList 1 [1, 0, 1, 1, 1, 0, 1] 3 4 = .ok 1 := by decide
-- a zero in the window is preferred to a nearer sign change (reverse scan of [5, 0, 5, -1, -1])
example : nextIdx [5, 0, 5, -1, -1] true = some 1 ∧ nextIdx [5, 5, -1, -1] true = some 2 := by decide
example : thresholdCrossing [3, -2] false = some 1 ∧ thresholdCrossing [3, -3] false = some 0 := by decide
-- the explicit round bound: 20 samples, step 2 → 12 rounds, whatever the target
example : searchBound 20 2 = 12 := by decide
-- A16 regression: targets 10^17 samples away are answered within that bound (was: more than N rounds for target N·step)
example : searchList 1 exS (10 ^ 17) 2 = .ok 13 ∧ searchList 1 exS (-(10 ^ 17)) 2 = .ok 3 := by decide
example : searchList 1 [3, 3] (10 ^ 17) 2 = .error .FindZeroCrossingError := by decide
-- byte level (width 2, rate 8): the same search through `Wav.getSamples`
example : searchWav ⟨2, 8, pack 2 [5, 3, 2, 1, -1, -4, 2, 7]⟩ 1 3 2 = .ok 3 := by decide
example : C16.Whole ⟨2, 8, pack 2 [5, 3, 2, 1, -1, -4, 2, 7]⟩ := by decide

#guard searchList 2 exS 0 5 == .ok 6                      -- A6 regression: was 7 (sample position 3.5), now sample 3
#guard searchList 4 exS (9 * 4) 9 == .ok 24               -- rate 8, target 1.125 s, step 2.25 samples: was 5.5 samples, now 6
#guard searchList 1 exS 2000 2 == .ok 13                  -- far target (A16 regression): at most 12 rounds
#guard getInterval 3 4 10 true == (0, 3) && getInterval 8 4 10 false == (8, 10) && getInterval (-6) 4 10 false == (0, -2)

/-- the tier of C07/C08's examples: `[10,30] a, [30,60] b, [80,90] c` in `[0, 100]` -/
example : C07.exTier.WF := C07.exTier_wf

-- splice at a boundary (60), in a gap (70), at the start of an interval (80)
#guard (spliceTier C07.exTier 60 5 "NEW").toOption.map (·.es) ==
  some [⟨10, 30, "a"⟩, ⟨30, 60, "b"⟩, ⟨60, 65, "NEW"⟩, ⟨85, 95, "c"⟩]
#guard (spliceTier C07.exTier 70 5 "NEW").toOption.map (·.es) ==
  some [⟨10, 30, "a"⟩, ⟨30, 60, "b"⟩, ⟨70, 75, "NEW"⟩, ⟨85, 95, "c"⟩]
#guard (spliceTier C07.exTier 80 5 "NEW").toOption.map (fun t => (t.es, t.hi)) ==
  some ([⟨10, 30, "a"⟩, ⟨30, 60, "b"⟩, ⟨80, 85, "NEW"⟩, ⟨85, 95, "c"⟩], 105)
-- inside an interval: CollisionError
#guard (match spliceTier C07.exTier 40 5 "NEW" with | .error .CollisionError => true | _ => false)

-- an insertion point outside the span is accepted (`splice_outside_counterexample`): beyond the end, before the start
#guard (spliceTier C07.exTier 104 5 "NEW").toOption.map (fun t => (t.es, t.lo, t.hi)) ==
  some ([⟨10, 30, "a"⟩, ⟨30, 60, "b"⟩, ⟨80, 90, "c"⟩, ⟨104, 109, "NEW"⟩], 0, 109)
#guard (spliceTier C07.exTier (-8) 5 "NEW").toOption.map (fun t => (t.es, t.lo, t.hi)) ==
  some ([⟨-8, -3, "NEW"⟩, ⟨15, 35, "a"⟩, ⟨35, 65, "b"⟩, ⟨85, 95, "c"⟩], -8, 105)
-- the label is stripped; an empty segment raises ArgumentError
#guard (spliceTier C07.exTier 60 5 "  NEW ").toOption.map (·.es) ==
  some [⟨10, 30, "a"⟩, ⟨30, 60, "b"⟩, ⟨60, 65, "NEW"⟩, ⟨85, 95, "c"⟩]
#guard (match spliceTier C07.exTier 60 0 "NEW" with | .error .ArgumentError => true | _ => false)

def exTg : Tg Int := ⟨[.I C07.exTier, .P ⟨"P", [⟨20, "x"⟩, ⟨60, "y"⟩, ⟨95, "z"⟩], 0, 100⟩], some 0, some 100⟩

#guard (spliceTg exTg [] "T" "NEW" 60 none 5).toOption.map (fun g => (g.names, g.hi)) == some (["T", "P"], some 105)
-- outside the span, textgrid level: the named tier ends at 109 / starts at -8, the textgrid spans [0, 105]
#guard (spliceTg exTg [] "T" "NEW" 104 none 5).toOption.map (fun g => (g.tiers.map (fun t => (t.lo, t.hi)), g.lo, g.hi)) ==
  some ([(0, 109), (0, 105)], some 0, some 105)
#guard (spliceTg exTg [] "T" "NEW" (-8) none 5).toOption.map (fun g => (g.tiers.map (fun t => (t.lo, t.hi)), g.lo, g.hi)) ==
  some ([(-8, 105), (0, 105)], some 0, some 105)
-- a reversed / empty replaced region: ArgumentError; unknown tier: KeyError
#guard (match spliceTg exTg [] "T" "NEW" 60 (some 30) 5 with | .error .ArgumentError => true | _ => false)
#guard (match spliceTg exTg [] "T" "NEW" 60 (some 60) 5 with | .error .ArgumentError => true | _ => false)
#guard (match spliceTg exTg [] "nope" "NEW" 60 none 5 with | .error .KeyError => true | _ => false)
#guard (spliceTg exTg [] "T" "NEW" 30 (some 60) 5).toOption.map (fun g => (g.tiers.map (·.timestamps), g.hi)) ==
  some ([[10, 30, 35, 55, 65], [20, 70]], some 75)
-- tgBoundaries with zc = "nearest multiple of 20, halves up"
#guard (tgBoundaries (okz fun x => (x + 10) / 20 * 20) exTg true true).toOption.map (fun g => g.tiers.map (·.timestamps)) ==
  some [[20, 40, 60, 80, 100], [20, 60, 100]]
-- a collapsing interval: [80,90] → [80,80] is rejected by the constructor
#guard (match tgBoundaries (okz fun x => x / 40 * 40) exTg true true with | .error .TextgridStateError => true | _ => false)
-- point tiers only
#guard (tgBoundaries (okz fun x => x / 40 * 40) exTg true false).toOption.map (fun g => g.tiers.map (·.timestamps)) ==
  some [[10, 30, 60, 80, 90], [0, 40, 80]]
-- _shiftTimes: every boundary equal to 30 moves to 32, on both tiers that have it
#guard (shiftTimes exTg 30 32).toOption.map (fun g => g.tiers.map (·.timestamps)) == some [[10, 32, 60, 80, 90], [20, 60, 95]]

end C18
