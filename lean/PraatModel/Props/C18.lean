import PraatModel.Zero
import PraatModel.Props.C16
import PraatModel.Props.C12

/-!
# C18 — zero-crossing search finds real crossings; splicing keeps audio and text in step

Theorems about `PraatModel/Zero.lean` for recordings of any length, any targets and steps (exact
arithmetic; times in ticks of `1/(rate·m)` s, see `Zero.lean`).
-/

open Audio Zero

namespace C18

/-! ## 1. `list.index`, `utils.find` -/

theorem index?_some {β} [BEq β] [LawfulBEq β] (l : List β) (v : β) (i : Nat) (h : index? l v = some i) :
    i < l.length ∧ l[i]? = some v ∧ ∀ j, j < i → l[j]? ≠ some v := by
  induction l generalizing i with
  | nil => simp [index?] at h
  | cons x xs ih =>
    unfold index? at h
    by_cases hx : (x == v) = true
    · rw [if_pos hx] at h
      cases h
      exact ⟨by simp, by simp [eq_of_beq hx], by intro j hj; omega⟩
    · rw [if_neg hx] at h
      cases hr : index? xs v with
      | none => rw [hr] at h; simp at h
      | some k =>
        rw [hr] at h
        simp only [Option.map_some, Option.some.injEq] at h
        subst h
        obtain ⟨h1, h2, h3⟩ := ih k hr
        refine ⟨by simp; omega, by simpa using h2, ?_⟩
        intro j hj
        cases j with
        | zero =>
          simp only [List.getElem?_cons_zero, ne_eq, Option.some.injEq]
          intro hxe; apply hx; rw [hxe]; exact beq_self_eq_true v
        | succ j => simpa using h3 j (by omega)

theorem index?_none {β} [BEq β] [LawfulBEq β] (l : List β) (v : β) : index? l v = none ↔ v ∉ l := by
  induction l with
  | nil => simp [index?]
  | cons x xs ih =>
    unfold index?
    by_cases hx : (x == v) = true
    · rw [if_pos hx]; simp [eq_of_beq hx]
    · rw [if_neg hx]
      have hne : ¬ v = x := by intro h; apply hx; rw [h]; exact beq_self_eq_true x
      simp [ih, hne]

theorem index?_head {β} [BEq β] [LawfulBEq β] (x : β) (xs : List β) : index? (x :: xs) x = some 0 := by
  simp [index?]

/-- `utils.find`: the index returned holds the value; forward it is the first such index, with
`reverse` the last -/
theorem find_some {β} [BEq β] [LawfulBEq β] (l : List β) (v : β) (rev : Bool) (i : Nat)
    (h : find l v rev = some i) :
    i < l.length ∧ l[i]? = some v ∧
      (rev = false → ∀ j, j < i → l[j]? ≠ some v) ∧ (rev = true → ∀ j, i < j → l[j]? ≠ some v) := by
  unfold find at h
  cases rev with
  | false =>
    simp only [Bool.false_eq_true, if_false] at h
    obtain ⟨h1, h2, h3⟩ := index?_some l v i h
    exact ⟨h1, h2, fun _ => h3, by simp⟩
  | true =>
    simp only [if_true] at h
    cases hr : index? l.reverse v with
    | none => rw [hr] at h; simp at h
    | some k =>
      rw [hr] at h
      simp only [Option.map_some, Option.some.injEq] at h
      obtain ⟨h1, h2, h3⟩ := index?_some l.reverse v k hr
      rw [List.length_reverse] at h1
      have hi : i < l.length := by omega
      refine ⟨hi, ?_, by simp, ?_⟩
      · rw [List.getElem?_reverse h1] at h2
        have : l.length - 1 - k = i := by omega
        rw [this] at h2; exact h2
      · intro _ j hj
        by_cases hjl : j < l.length
        · have := h3 (l.length - 1 - j) (by omega)
          rw [List.getElem?_reverse (by omega)] at this
          have e : l.length - 1 - (l.length - 1 - j) = j := by omega
          rw [e] at this; exact this
        · rw [List.getElem?_eq_none (by omega)]; simp

theorem find_none {β} [BEq β] [LawfulBEq β] (l : List β) (v : β) (rev : Bool) (h : v ∉ l) : find l v rev = none := by
  unfold find
  cases rev with
  | false => simp only [Bool.false_eq_true, if_false]; exact (index?_none l v).2 h
  | true =>
    simp only [if_true]
    rw [(index?_none l.reverse v).2 (by simpa using h)]; rfl

/-! ## 2. sign changes -/

theorem changeList_length (xs : List Int) : (changeList xs).length = xs.length - 1 := by
  induction xs using changeList.induct with
  | case1 a b rest ih => simp only [changeList, List.length_cons, ih]; omega
  | case2 l h =>
    match l, h with
    | [], _ => rfl
    | [_], _ => rfl
    | a :: b :: rest, h => exact absurd rfl (h a b rest)

theorem changeList_get (xs : List Int) (i : Nat) (h : i + 1 < xs.length) :
    (changeList xs)[i]? = some (sign (xs.getD i 0) != sign (xs.getD (i + 1) 0)) := by
  induction xs using changeList.induct generalizing i with
  | case1 a b rest ih =>
    cases i with
    | zero => simp [changeList]
    | succ i =>
      simp only [changeList, List.getElem?_cons_succ]
      have := ih i (by simp at h ⊢; omega)
      simpa using this
  | case2 l hl =>
    match l, hl with
    | [], _ => simp at h
    | [_], _ => simp at h
    | a :: b :: rest, hl => exact absurd rfl (hl a b rest)

theorem mem_changeList (xs : List Int) (h : true ∈ changeList xs) :
    ∃ a ∈ xs, ∃ b ∈ xs, sign a ≠ sign b := by
  induction xs using changeList.induct with
  | case1 a b rest ih =>
    simp only [changeList, List.mem_cons] at h
    rcases h with h | h
    · refine ⟨a, by simp, b, by simp, ?_⟩
      intro he; rw [he] at h; simp at h
    · obtain ⟨x, hx, y, hy, hxy⟩ := ih h
      exact ⟨x, List.mem_cons_of_mem _ hx, y, List.mem_cons_of_mem _ hy, hxy⟩
  | case2 l hl =>
    match l, hl with
    | [], _ => simp [changeList] at h
    | [_], _ => simp [changeList] at h
    | a :: b :: rest, hl => exact absurd rfl (hl a b rest)

/-! ## 3. (a) crossing_genuine: an index returned by the window scan is a genuine crossing -/

theorem getD_of_getElem? (xs : List Int) (i : Nat) (v : Int) (h : xs[i]? = some v) : xs.getD i 0 = v := by
  simp [List.getD, h]

/-- `_getNearestZero`: the sample at the returned index is 0 -/
theorem nearestZero_zero (xs : List Int) (rev : Bool) (i : Nat) (h : nearestZero xs rev = some i) :
    i < xs.length ∧ xs.getD i 0 = 0 := by
  obtain ⟨h1, h2, _⟩ := find_some xs 0 rev i h
  exact ⟨h1, getD_of_getElem? xs i 0 h2⟩

/-- `_getZeroThresholdCrossing`: the returned index is one of two adjacent samples of different sign -/
theorem thresholdCrossing_spec (xs : List Int) (rev : Bool) (i : Nat) (h : thresholdCrossing xs rev = some i) :
    ∃ j, j + 1 < xs.length ∧ sign (xs.getD j 0) ≠ sign (xs.getD (j + 1) 0) ∧ (i = j ∨ i = j + 1) := by
  unfold thresholdCrossing at h
  cases hf : find (changeList xs) true rev with
  | none => rw [hf] at h; simp at h
  | some j =>
    rw [hf] at h
    simp only [Option.map_some, Option.some.injEq] at h
    obtain ⟨h1, h2, _⟩ := find_some (changeList xs) true rev j hf
    rw [changeList_length] at h1
    have hj : j + 1 < xs.length := by omega
    rw [changeList_get xs j hj] at h2
    refine ⟨j, hj, ?_, ?_⟩
    · intro he
      simp only [Option.some.injEq] at h2
      rw [he] at h2; simp at h2
    · unfold closerOfPair at h
      split at h <;> omega

/-- **crossing_genuine**: whenever the window scan (`_getNearestZero`, else `_getZeroThresholdCrossing`)
returns index `i`, sample `i` of the window is 0 or differs in sign from its right or left neighbour -/
theorem crossing_genuine (xs : List Int) (rev : Bool) (i : Nat) (h : nextIdx xs rev = some i) :
    Genuine xs i := by
  unfold nextIdx at h
  cases hz : nearestZero xs rev with
  | some k =>
    rw [hz] at h
    simp only [Option.some.injEq] at h
    subst h
    obtain ⟨h1, h2⟩ := nearestZero_zero xs rev k hz
    exact ⟨h1, Or.inl h2⟩
  | none =>
    rw [hz] at h
    obtain ⟨j, hj, hs, hij⟩ := thresholdCrossing_spec xs rev i h
    rcases hij with rfl | rfl
    · exact ⟨by omega, Or.inr (Or.inl ⟨hj, hs⟩)⟩
    · exact ⟨hj, Or.inr (Or.inr ⟨by omega, by simpa using hs⟩)⟩

/-- a zero in the window is preferred to a sign change -/
theorem nextIdx_prefers_zero (xs : List Int) (rev : Bool) (h : (0 : Int) ∈ xs) :
    ∃ i, nextIdx xs rev = some i ∧ xs.getD i 0 = 0 := by
  unfold nextIdx
  cases hz : nearestZero xs rev with
  | some k => exact ⟨k, rfl, (nearestZero_zero xs rev k hz).2⟩
  | none =>
    exfalso
    unfold nearestZero find at hz
    cases rev with
    | false =>
      simp only [Bool.false_eq_true, if_false] at hz
      exact (index?_none xs 0).1 hz h
    | true =>
      simp only [if_true] at hz
      cases hr : index? xs.reverse 0 with
      | none => exact (index?_none xs.reverse 0).1 hr (by simpa using h)
      | some k => rw [hr] at hz; simp at hz

/-- no zero and no sign change in the window: nothing is found -/
theorem nextIdx_none (xs : List Int) (rev : Bool) (h0 : (0 : Int) ∉ xs) (hs : ∀ a ∈ xs, ∀ b ∈ xs, sign a = sign b) :
    nextIdx xs rev = none := by
  unfold nextIdx nearestZero
  rw [find_none xs 0 rev h0]
  unfold thresholdCrossing
  rw [find_none (changeList xs) true rev]
  · rfl
  · intro ht
    obtain ⟨a, ha, b, hb, hab⟩ := mem_changeList xs ht
    exact hab (hs a ha b hb)


/-! ## 4. windows of a recording: Python slices of the sample list -/

theorem slice_length_le (xs : List Int) (i j : Int) (hi : 0 ≤ i) :
    (slice xs i j).length ≤ xs.length - i.toNat := by
  have hci : pyClamp xs.length i = min i.toNat xs.length := by
    unfold pyClamp; rw [if_neg (by omega)]
  have hcj : pyClamp xs.length j ≤ xs.length := by
    unfold pyClamp; split <;> omega
  unfold slice
  simp only [List.length_drop, List.length_take]
  rw [hci]
  omega

theorem slice_getD (xs : List Int) (i j : Int) (hi : 0 ≤ i) (z : Nat) (hz : z < (slice xs i j).length) :
    (slice xs i j).getD z 0 = xs.getD (i.toNat + z) 0 := by
  have hlen := slice_length_le xs i j hi
  have hci : pyClamp xs.length i = i.toNat := by
    unfold pyClamp; rw [if_neg (by omega)]; omega
  unfold slice at hz ⊢
  rw [hci] at hz ⊢
  simp only [List.length_drop, List.length_take] at hz
  simp only [List.getD_eq_getElem?_getD, List.getElem?_drop]
  rw [List.getElem?_take_of_lt (by omega)]

/-- a genuine crossing of a window is a genuine crossing of the recording, at the window's offset -/
theorem genuine_of_slice (xs : List Int) (i j : Int) (hi : 0 ≤ i) (z : Nat) (h : Genuine (slice xs i j) z) :
    Genuine xs (i.toNat + z) := by
  obtain ⟨hz, hc⟩ := h
  have hlen := slice_length_le xs i j hi
  refine ⟨by omega, ?_⟩
  rw [slice_getD xs i j hi z hz] at hc
  rcases hc with h0 | ⟨h1, h2⟩ | ⟨h1, h2⟩
  · exact Or.inl h0
  · rw [slice_getD xs i j hi (z + 1) h1] at h2
    exact Or.inr (Or.inl ⟨by omega, h2⟩)
  · rw [slice_getD xs i j hi (z - 1) (by omega)] at h2
    refine Or.inr (Or.inr ⟨by omega, ?_⟩)
    have e : i.toNat + z - 1 = i.toNat + (z - 1) := by omega
    rw [e]; exact h2

theorem mem_of_mem_slice (xs : List Int) (i j : Int) (x : Int) (h : x ∈ slice xs i j) : x ∈ xs := by
  unfold slice at h
  exact List.mem_of_mem_take (List.mem_of_mem_drop h)

/-! ## 5. one window of the search -/

theorem getInterval_fst (start d mx : Int) (rev : Bool) :
    (getInterval start d mx rev).1 = if (if rev = true then start - d else start) < 0 then 0
      else (if rev = true then start - d else start) := by
  unfold getInterval
  cases rev <;> simp only [Bool.false_eq_true, if_false, if_true] <;> split <;> (try split) <;> rfl

theorem getInterval_fst_nonneg (start d mx : Int) (rev : Bool) : 0 ≤ (getInterval start d mx rev).1 := by
  rw [getInterval_fst]
  split <;> omega

theorem getInterval_fst_dvd (k start d mx : Int) (rev : Bool) (h1 : k ∣ start) (h2 : k ∣ d) :
    k ∣ (getInterval start d mx rev).1 := by
  rw [getInterval_fst]
  have hs : k ∣ (if rev = true then start - d else start) := by
    split
    · exact Int.dvd_sub h1 h2
    · exact h1
  generalize (if rev = true then start - d else start) = s0 at hs ⊢
  split
  · exact Int.dvd_zero k
  · exact hs

/-- what a window of the search can return: `start + z` samples, where sample `round(start·rate) + z`
of the recording is a genuine crossing (`start ≥ 0` is the clamped start of the window) -/
def Cand (m : Nat) (xs : List Int) (t : Int) : Prop :=
  ∃ s : Int, ∃ z : Nat, 0 ≤ s ∧ t = s + (z : Int) * (m : Int) ∧ Genuine xs ((roundHalfEven s m).toNat + z)

/-- the same with the window start on a sample position `k` (which divides `m`-tick times) -/
def CandOn (k : Int) (m : Nat) (xs : List Int) (t : Int) : Prop :=
  ∃ s : Int, ∃ z : Nat, 0 ≤ s ∧ k ∣ s ∧ t = s + (z : Int) * (m : Int) ∧ Genuine xs ((roundHalfEven s m).toNat + z)

theorem iter_list (m : Nat) (hm : 0 < m) (xs : List Int) (dur start : Int) (within : Bool) (step : Int) (rev : Bool) :
    ∃ o, iterZeroCrossings (listReader m xs) m dur start within step rev = .ok o ∧
      (∀ t, o = some t → ∃ z : Nat, t = (getInterval start step dur rev).1 + (z : Int) * (m : Int) ∧
          Genuine xs ((roundHalfEven (getInterval start step dur rev).1 m).toNat + z)) := by
  unfold iterZeroCrossings
  cases within with
  | false => exact ⟨none, rfl, by intro t ht; cases ht⟩
  | true =>
    simp only [Bool.not_true, Bool.false_eq_true, if_false, listReader]
    refine ⟨_, rfl, ?_⟩
    intro t ht
    unfold findNextZeroCrossing at ht
    cases hn : nextIdx (slice xs (roundHalfEven (getInterval start step dur rev).1 m)
        (roundHalfEven (getInterval start step dur rev).2 m)) rev with
    | none => rw [hn] at ht; simp at ht
    | some z =>
      rw [hn] at ht
      simp only [Option.map_some, Option.some.injEq] at ht
      refine ⟨z, ht.symm, ?_⟩
      have hg := crossing_genuine _ rev z hn
      exact genuine_of_slice xs _ _
        (C16.roundHalfEven_nonneg _ m hm (getInterval_fst_nonneg start step dur rev)) z hg

theorem iter_cand (m : Nat) (hm : 0 < m) (xs : List Int) (dur start : Int) (within : Bool) (step : Int) (rev : Bool) :
    ∃ o, iterZeroCrossings (listReader m xs) m dur start within step rev = .ok o ∧ ∀ t, o = some t → Cand m xs t := by
  obtain ⟨o, h1, h2⟩ := iter_list m hm xs dur start within step rev
  refine ⟨o, h1, ?_⟩
  intro t ht
  obtain ⟨z, hz, hg⟩ := h2 t ht
  exact ⟨_, z, getInterval_fst_nonneg start step dur rev, hz, hg⟩

theorem iter_candOn (k : Int) (m : Nat) (hm : 0 < m) (xs : List Int) (dur start : Int) (within : Bool) (step : Int) (rev : Bool)
    (h1 : k ∣ start) (h2 : k ∣ step) :
    ∃ o, iterZeroCrossings (listReader m xs) m dur start within step rev = .ok o ∧ ∀ t, o = some t → CandOn k m xs t := by
  obtain ⟨o, e1, e2⟩ := iter_list m hm xs dur start within step rev
  refine ⟨o, e1, ?_⟩
  intro t ht
  obtain ⟨z, hz, hg⟩ := e2 t ht
  exact ⟨_, z, getInterval_fst_nonneg start step dur rev, getInterval_fst_dvd k start step dur rev h1 h2, hz, hg⟩

/-- one round on a plain sample list never raises, and both candidates are crossings -/
theorem round_list (m : Nat) (hm : 0 < m) (xs : List Int) (dur step a b : Int) :
    ∃ l r, Zero.round (listReader m xs) m dur step a b = .ok (l, r) ∧
      (∀ t, l = some t → Cand m xs t) ∧ (∀ t, r = some t → Cand m xs t) := by
  obtain ⟨l, hl, hlc⟩ := iter_cand m hm xs dur a (decide (0 < a)) (step + m) true
  obtain ⟨r, hr, hrc⟩ := iter_cand m hm xs dur b (decide (b + step < dur)) (step + m) false
  refine ⟨l, r, ?_, hlc, hrc⟩
  unfold Zero.round; rw [hl]; simp only; rw [hr]

theorem round_list_on (k : Int) (m : Nat) (hm : 0 < m) (xs : List Int) (dur step a b : Int)
    (hk : k ∣ (m : Int)) (hs : k ∣ step) (ha : k ∣ a) (hb : k ∣ b) :
    ∃ l r, Zero.round (listReader m xs) m dur step a b = .ok (l, r) ∧
      (∀ t, l = some t → CandOn k m xs t) ∧ (∀ t, r = some t → CandOn k m xs t) := by
  obtain ⟨l, hl, hlc⟩ := iter_candOn k m hm xs dur a (decide (0 < a)) (step + m) true ha (Int.dvd_add hs hk)
  obtain ⟨r, hr, hrc⟩ := iter_candOn k m hm xs dur b (decide (b + step < dur)) (step + m) false hb (Int.dvd_add hs hk)
  refine ⟨l, r, ?_, hlc, hrc⟩
  unfold Zero.round; rw [hl]; simp only; rw [hr]

/-! ## 6. (f) `chooseClosestTime` -/

/-- **closest**: the value returned is one of the candidates, no candidate is closer to the target,
and on a tie the first (left) candidate wins -/
theorem chooseClosest_spec (target : Int) (a b : Option Int) (r : Int) (h : chooseClosestTime target a b = .ok r) :
    (a = some r ∨ b = some r) ∧
    (∀ x, a = some x → (r - target).natAbs ≤ (x - target).natAbs) ∧
    (∀ x, b = some x → (r - target).natAbs ≤ (x - target).natAbs) ∧
    (∀ x y, a = some x → b = some y → (x - target).natAbs = (y - target).natAbs → r = x) := by
  cases a with
  | none =>
    cases b with
    | none => simp [chooseClosestTime] at h
    | some y =>
      simp only [chooseClosestTime, Except.ok.injEq] at h
      subst h; simp
  | some x =>
    cases b with
    | none =>
      simp only [chooseClosestTime, Except.ok.injEq] at h
      subst h; simp
    | some y =>
      simp only [chooseClosestTime] at h
      split at h
      · simp only [Except.ok.injEq] at h; subst h
        refine ⟨Or.inl rfl, ?_, ?_, ?_⟩
        · intro x' hx'; cases hx'; exact Nat.le_refl _
        · intro y' hy'; cases hy'; assumption
        · intro x' y' hx' _ _; cases hx'; rfl
      · simp only [Except.ok.injEq] at h; subst h
        refine ⟨Or.inr rfl, ?_, ?_, ?_⟩
        · intro x' hx'; cases hx'; omega
        · intro y' hy'; cases hy'; exact Nat.le_refl _
        · intro x' y' hx' hy' he; cases hx'; cases hy'; omega

theorem chooseClosest_ok_of_some (target : Int) (a b : Option Int) (h : (a.isSome || b.isSome) = true) :
    ∃ r, chooseClosestTime target a b = .ok r := by
  cases a with
  | none =>
    cases b with
    | none => simp at h
    | some y => exact ⟨y, rfl⟩
  | some x =>
    cases b with
    | none => exact ⟨x, rfl⟩
    | some y =>
      simp only [chooseClosestTime]
      split
      · exact ⟨x, rfl⟩
      · exact ⟨y, rfl⟩

/-- no candidate on either side is the only way to `ArgumentError` (the loop never calls it so) -/
theorem chooseClosest_error (target : Int) (a b : Option Int) (e : Err) (h : chooseClosestTime target a b = .error e) :
    a = none ∧ b = none ∧ e = .ArgumentError := by
  cases a with
  | none =>
    cases b with
    | none => simp only [chooseClosestTime, Except.error.injEq] at h; exact ⟨rfl, rfl, h.symm⟩
    | some y => simp [chooseClosestTime] at h
  | some x =>
    cases b with
    | none => simp [chooseClosestTime] at h
    | some y => simp only [chooseClosestTime] at h; split at h <;> cases h

/-! ## 7. the loop: what it returns -/

/-- a value returned by the loop is the choice between the two candidates of some round whose cursors
satisfy every invariant of the cursor update -/
theorem loop_ok_inv (rd : Reader) (m : Nat) (dur target step : Int) (Inv : Int → Int → Prop)
    (hstep : ∀ a b, Inv a b → Inv (a - step) (b + step)) (t : Int) :
    ∀ fuel left right, Inv left right → loop rd m dur target step fuel left right = some (.ok t) →
      ∃ a b l r, Inv a b ∧ Zero.round rd m dur step a b = .ok (l, r) ∧ (l.isSome || r.isSome) = true ∧
        chooseClosestTime target l r = .ok t := by
  intro fuel
  induction fuel with
  | zero => intro left right _ h; simp [loop] at h
  | succ f ih =>
    intro left right hinv h
    unfold loop at h
    cases hr : Zero.round rd m dur step left right with
    | error e => rw [hr] at h; simp at h
    | ok p =>
      obtain ⟨l, r⟩ := p
      rw [hr] at h
      simp only at h
      by_cases hs : (l.isSome || r.isSome) = true
      · rw [if_pos hs] at h
        simp only [Option.some.injEq] at h
        exact ⟨left, right, l, r, hinv, hr, hs, h⟩
      · rw [if_neg hs] at h
        by_cases hx : left < 0 ∧ dur < right
        · rw [if_pos hx] at h; simp at h
        · rw [if_neg hx] at h
          exact ih _ _ (hstep _ _ hinv) h

/-- an error returned by the loop is an error of a window read, `FindZeroCrossingError`, or never
(`chooseClosestTime` is only called with a candidate) -/
theorem loop_error (rd : Reader) (m : Nat) (dur target step : Int) (e : Err) :
    ∀ fuel left right, loop rd m dur target step fuel left right = some (.error e) →
      e = .FindZeroCrossingError ∨ ∃ a b, Zero.round rd m dur step a b = .error e := by
  intro fuel
  induction fuel with
  | zero => intro left right h; simp [loop] at h
  | succ f ih =>
    intro left right h
    unfold loop at h
    cases hr : Zero.round rd m dur step left right with
    | error e' =>
      rw [hr] at h
      simp only [Option.some.injEq, Except.error.injEq] at h
      subst h
      exact Or.inr ⟨left, right, hr⟩
    | ok p =>
      obtain ⟨l, r⟩ := p
      rw [hr] at h
      simp only at h
      by_cases hs : (l.isSome || r.isSome) = true
      · rw [if_pos hs] at h
        obtain ⟨v, hv⟩ := chooseClosest_ok_of_some target l r hs
        rw [hv] at h; simp at h
      · rw [if_neg hs] at h
        by_cases hx : left < 0 ∧ dur < right
        · rw [if_pos hx] at h
          simp only [Option.some.injEq, Except.error.injEq] at h
          exact Or.inl h.symm
        · rw [if_neg hx] at h
          exact ih _ _ h

/-! ## 8. (b) search_terminates -/

/-- more fuel never changes a result -/
theorem loop_mono (rd : Reader) (m : Nat) (dur target step : Int) (v : Except Err Int) :
    ∀ fuel left right, loop rd m dur target step fuel left right = some v →
      ∀ k, loop rd m dur target step (fuel + k) left right = some v := by
  intro fuel
  induction fuel with
  | zero => intro left right h; simp [loop] at h
  | succ f ih =>
    intro left right h k
    have e : f + 1 + k = (f + k) + 1 := by omega
    rw [e]
    unfold loop at h ⊢
    cases hr : Zero.round rd m dur step left right with
    | error e' => rw [hr] at h; exact h
    | ok p =>
      obtain ⟨l, r⟩ := p
      rw [hr] at h
      simp only at h ⊢
      by_cases hs : (l.isSome || r.isSome) = true
      · rw [if_pos hs] at h ⊢; exact h
      · rw [if_neg hs] at h ⊢
        by_cases hx : left < 0 ∧ dur < right
        · rw [if_pos hx] at h ⊢; exact h
        · rw [if_neg hx] at h ⊢
          exact ih _ _ h k

/-- the termination measure: with `fuel` rounds left the loop certainly leaves if the left cursor is
below `(fuel-1)·step` and the right cursor within `(fuel-1)·step` of the end -/
theorem loop_terminates (rd : Reader) (m : Nat) (dur target step : Int) :
    ∀ (fuel : Nat) (left right : Int), left < (fuel : Int) * step → dur - right < (fuel : Int) * step →
      loop rd m dur target step (fuel + 1) left right ≠ none := by
  intro fuel
  induction fuel with
  | zero =>
    intro left right h1 h2
    simp only [Int.natCast_zero, Int.zero_mul] at h1 h2
    unfold loop
    cases hr : Zero.round rd m dur step left right with
    | error e' => simp
    | ok p =>
      obtain ⟨l, r⟩ := p
      simp only
      by_cases hs : (l.isSome || r.isSome) = true
      · rw [if_pos hs]; simp
      · rw [if_neg hs, if_pos ⟨h1, by omega⟩]; simp
  | succ f ih =>
    intro left right h1 h2
    unfold loop
    cases hr : Zero.round rd m dur step left right with
    | error e' => simp
    | ok p =>
      obtain ⟨l, r⟩ := p
      simp only
      by_cases hs : (l.isSome || r.isSome) = true
      · rw [if_pos hs]; simp
      · rw [if_neg hs]
        by_cases hx : left < 0 ∧ dur < right
        · rw [if_pos hx]; simp
        · rw [if_neg hx]
          have e : ((f + 1 : Nat) : Int) * step = (f : Int) * step + step := by
            rw [Int.natCast_add, Int.add_mul]; simp
          rw [e] at h1 h2
          exact ih _ _ (by omega) (by omega)

theorem searchBound_spec (dur target step : Int) (hs : 0 < step) :
    ∃ f : Nat, searchBound dur target step = f + 1 ∧ target < (f : Int) * step ∧ dur - target < (f : Int) * step := by
  unfold searchBound
  refine ⟨((max (max target (dur - target)) 0) / step).toNat + 1, rfl, ?_⟩
  generalize hM : max (max target (dur - target)) 0 = M
  have hM0 : 0 ≤ M := by omega
  have hq : 0 ≤ M / step := Int.ediv_nonneg hM0 (by omega)
  have hlt : M < step * (M / step) + step := Int.lt_mul_ediv_self_add hs
  have e : (((M / step).toNat + 1 : Nat) : Int) * step = step * (M / step) + step := by
    rw [Int.natCast_add, Int.toNat_of_nonneg hq, Int.add_mul, Int.mul_comm]; simp
  rw [e]
  omega

/-- **search_terminates**: for every reader, recording, target and step the loop leaves within
`searchBound dur target step = max(target, dur - target, 0) / step + 2` rounds: the fuelled function
with at least that much fuel never runs out of fuel and returns what `search` returns -/
theorem search_terminates (rd : Reader) (m : Nat) (hm : 0 < m) (dur target step : Int) (n : Nat)
    (hn : searchBound dur target step ≤ n) :
    findFuel rd m dur target step n = some (search rd m dur target step) := by
  have key : ∀ n, searchBound dur target step ≤ n → ∃ v, findFuel rd m dur target step n = some v := by
    intro n hn
    unfold findFuel
    by_cases hs : step < 2 * (m : Int)
    · rw [if_pos hs]; exact ⟨_, rfl⟩
    · rw [if_neg hs]
      obtain ⟨f, hf, h1, h2⟩ := searchBound_spec dur target step (by omega)
      have hne := loop_terminates rd m dur target step f target target h1 h2
      cases hl : loop rd m dur target step (f + 1) target target with
      | none => exact absurd hl hne
      | some v =>
        have := loop_mono rd m dur target step v (f + 1) target target hl (n - (f + 1))
        have e : f + 1 + (n - (f + 1)) = n := by omega
        rw [e] at this
        exact ⟨v, this⟩
  obtain ⟨v0, hv0⟩ := key _ (Nat.le_refl _)
  obtain ⟨v, hv⟩ := key n hn
  have hsearch : search rd m dur target step = v0 := by unfold search; rw [hv0]
  rw [hsearch, hv]
  -- both are the same value: more fuel does not change a result
  unfold findFuel at hv hv0
  by_cases hs : step < 2 * (m : Int)
  · rw [if_pos hs] at hv hv0; rw [← hv, ← hv0]
  · rw [if_neg hs] at hv hv0
    have := loop_mono rd m dur target step v0 _ target target hv0 (n - searchBound dur target step)
    have e : searchBound dur target step + (n - searchBound dur target step) = n := by omega
    rw [e, hv] at this
    exact this

/-- the search as a fact about the loop: it is the loop's value for every sufficient fuel -/
theorem search_eq_loop (rd : Reader) (m : Nat) (hm : 0 < m) (dur target step : Int) (hs : 2 * (m : Int) ≤ step) :
    loop rd m dur target step (searchBound dur target step) target target = some (search rd m dur target step) := by
  have := search_terminates rd m hm dur target step _ (Nat.le_refl _)
  unfold findFuel at this
  rw [if_neg (by omega)] at this
  exact this


/-! ## 9. the search on a recording (plain sample list): what it returns -/

/-- the duration of the list in ticks -/
abbrev durOf (m : Nat) (xs : List Int) : Int := (xs.length : Int) * (m : Int)

theorem searchList_small_step (m : Nat) (xs : List Int) (target step : Int) (h : step < 2 * (m : Int)) :
    searchList m xs target step = .error .ArgumentError := by
  unfold searchList search findFuel
  rw [if_pos h]

theorem searchList_loop (m : Nat) (hm : 0 < m) (xs : List Int) (target step : Int) (hs : 2 * (m : Int) ≤ step) :
    loop (listReader m xs) m (durOf m xs) target step (searchBound (durOf m xs) target step) target target =
      some (searchList m xs target step) :=
  search_eq_loop (listReader m xs) m hm (durOf m xs) target step hs

/-- a value returned by the search is the choice between the two candidates of one round -/
theorem searchList_ok (m : Nat) (hm : 0 < m) (xs : List Int) (target step t : Int)
    (Inv : Int → Int → Prop) (h0 : Inv target target) (hstep : ∀ a b, Inv a b → Inv (a - step) (b + step))
    (h : searchList m xs target step = .ok t) :
    2 * (m : Int) ≤ step ∧
    ∃ a b l r, Inv a b ∧ Zero.round (listReader m xs) m (durOf m xs) step a b = .ok (l, r) ∧
      (l.isSome || r.isSome) = true ∧ chooseClosestTime target l r = .ok t := by
  by_cases hs : step < 2 * (m : Int)
  · rw [searchList_small_step m xs target step hs] at h; cases h
  · have hs' : 2 * (m : Int) ≤ step := by omega
    refine ⟨hs', ?_⟩
    have hl := searchList_loop m hm xs target step hs'
    rw [h] at hl
    exact loop_ok_inv _ m _ target step Inv hstep t _ target target h0 hl

/-- **closest**: the value returned is the closer of the two candidates found in the first round that
finds anything (a tie goes to the left one) -/
theorem search_closest (m : Nat) (hm : 0 < m) (xs : List Int) (target step t : Int)
    (h : searchList m xs target step = .ok t) :
    ∃ a b l r, Zero.round (listReader m xs) m (durOf m xs) step a b = .ok (l, r) ∧
      (l = some t ∨ r = some t) ∧
      (∀ x, l = some x → (t - target).natAbs ≤ (x - target).natAbs) ∧
      (∀ x, r = some x → (t - target).natAbs ≤ (x - target).natAbs) ∧
      (∀ x y, l = some x → r = some y → (x - target).natAbs = (y - target).natAbs → t = x) := by
  obtain ⟨_, a, b, l, r, _, hr, _, hc⟩ :=
    searchList_ok m hm xs target step t (fun _ _ => True) trivial (fun _ _ _ => trivial) h
  exact ⟨a, b, l, r, hr, chooseClosest_spec target l r t hc⟩

/-- the value returned is `start + z` samples for a window start `start ≥ 0`, and sample
`round(start·rate) + z` of the recording is a genuine crossing -/
theorem search_cand (m : Nat) (hm : 0 < m) (xs : List Int) (target step t : Int)
    (h : searchList m xs target step = .ok t) : Cand m xs t := by
  obtain ⟨_, a, b, l, r, _, hr, _, hc⟩ :=
    searchList_ok m hm xs target step t (fun _ _ => True) trivial (fun _ _ _ => trivial) h
  obtain ⟨l', r', hr', hl', hrr'⟩ := round_list m hm xs (durOf m xs) step a b
  rw [hr] at hr'
  simp only [Except.ok.injEq, Prod.mk.injEq] at hr'
  obtain ⟨rfl, rfl⟩ := hr'
  rcases (chooseClosest_spec target l r t hc).1 with h1 | h1
  · exact hl' t h1
  · exact hrr' t h1

theorem cand_range (m : Nat) (hm : 0 < m) (xs : List Int) (t : Int) (h : Cand m xs t) :
    0 ≤ t ∧ t < durOf m xs := by
  obtain ⟨s, z, hs, ht, hg⟩ := h
  have hq0 := C16.roundHalfEven_nonneg s m hm hs
  have hspec := C16.roundHalfEven_spec s m hm
  unfold C16.IsRoundHalfEven at hspec
  generalize roundHalfEven s m = q at *
  have hlt : q.toNat + z < xs.length := hg.1
  have hzm : 0 ≤ (z : Int) * (m : Int) := Int.mul_nonneg (by omega) (by omega)
  refine ⟨by omega, ?_⟩
  have hle : (q + z + 1) * (m : Int) ≤ (xs.length : Int) * (m : Int) :=
    Int.mul_le_mul_of_nonneg_right (by omega) (by omega)
  rw [Int.add_mul, Int.add_mul, Int.one_mul] at hle
  show t < (xs.length : Int) * (m : Int)
  omega

/-- **result_in_range**: whatever the target and the step, a value returned lies in `[0, duration]`
(indeed strictly before the end: it addresses an existing sample) -/
theorem result_in_range (m : Nat) (hm : 0 < m) (xs : List Int) (target step t : Int)
    (h : searchList m xs target step = .ok t) : 0 ≤ t ∧ t ≤ durOf m xs := by
  have := cand_range m hm xs t (search_cand m hm xs target step t h)
  omega

/-- the crossing behind a returned value, for arbitrary targets and steps -/
theorem result_genuine_general (m : Nat) (hm : 0 < m) (xs : List Int) (target step t : Int)
    (h : searchList m xs target step = .ok t) :
    ∃ s : Int, ∃ z : Nat, 0 ≤ s ∧ t = s + (z : Int) * (m : Int) ∧ Genuine xs ((roundHalfEven s m).toNat + z) :=
  search_cand m hm xs target step t h

/-- **result_on_grid** + genuine crossing: when the target is a sample position and the step a whole
number of samples, the value returned is a sample position `k·m`, and sample `k` of the recording
is zero or differs in sign from a neighbour -/
theorem result_on_grid (m : Nat) (hm : 0 < m) (xs : List Int) (target step t : Int)
    (htarget : (m : Int) ∣ target) (hwhole : (m : Int) ∣ step)
    (h : searchList m xs target step = .ok t) :
    (m : Int) ∣ t ∧ Genuine xs (t / (m : Int)).toNat := by
  obtain ⟨_, a, b, l, r, ⟨ha, hb⟩, hr, _, hc⟩ :=
    searchList_ok m hm xs target step t (fun a b => (m : Int) ∣ a ∧ (m : Int) ∣ b) ⟨htarget, htarget⟩
      (fun a b h => ⟨Int.dvd_sub h.1 hwhole, Int.dvd_add h.2 hwhole⟩) h
  obtain ⟨l', r', hr', hl', hrr'⟩ := round_list_on (m : Int) m hm xs (durOf m xs) step a b (Int.dvd_refl _) hwhole ha hb
  rw [hr] at hr'
  simp only [Except.ok.injEq, Prod.mk.injEq] at hr'
  obtain ⟨rfl, rfl⟩ := hr'
  have hcand : CandOn (m : Int) m xs t := by
    rcases (chooseClosest_spec target l r t hc).1 with h1 | h1
    · exact hl' t h1
    · exact hrr' t h1
  obtain ⟨s, z, hs0, ⟨c, hc'⟩, ht, hg⟩ := hcand
  have hmpos : (0 : Int) < m := by omega
  have hsm : s = c * (m : Int) := by rw [hc', Int.mul_comm]
  have hc0 : 0 ≤ c := by
    by_cases hc0 : 0 ≤ c
    · exact hc0
    · exfalso
      have : (c + 1) * (m : Int) ≤ 0 * (m : Int) := Int.mul_le_mul_of_nonneg_right (by omega) (by omega)
      rw [Int.add_mul, Int.one_mul, Int.zero_mul] at this
      omega
  have hrhe : roundHalfEven s m = c := by rw [hsm]; exact C16.roundHalfEven_exact c m hm
  have htm : t = (c + z) * (m : Int) := by rw [ht, hsm, Int.add_mul]
  refine ⟨⟨c + z, by rw [htm, Int.mul_comm]⟩, ?_⟩
  have hdiv : t / (m : Int) = c + z := by rw [htm]; exact Int.mul_ediv_cancel _ (by omega)
  rw [hdiv]
  rw [hrhe] at hg
  have e : (c + (z : Int)).toNat = c.toNat + z := by omega
  rw [e]; exact hg

/-- **A6, proved counter-example**: with a step that is not a whole number of samples the result leaves
the sample grid although the target is on it (`m = 2`: ticks are half samples; step 5 ticks = 2.5
samples; target 0; result 7 ticks = sample position 3.5).  Replayed on the code: rate 8, samples
`[5,3,2,1,-1,-4]`, `findNearestZeroCrossing(0.0, 0.3125) = 0.4375`. -/
theorem result_on_grid_counterexample :
    searchList 2 [5, 3, 2, 1, -1, -4] 0 5 = .ok 7 ∧ ¬ ((2 : Int) ∣ 7) := by decide

/-! ## 10. (e) errors_documented -/

/-- **errors_documented**: on a recording of whole samples the search raises `ArgumentError` exactly when
the step is shorter than two samples, and otherwise nothing but `FindZeroCrossingError` -/
theorem errors_documented (m : Nat) (hm : 0 < m) (xs : List Int) (target step : Int) (e : Err)
    (h : searchList m xs target step = .error e) :
    (step < 2 * (m : Int) ∧ e = .ArgumentError) ∨ (2 * (m : Int) ≤ step ∧ e = .FindZeroCrossingError) := by
  by_cases hs : step < 2 * (m : Int)
  · rw [searchList_small_step m xs target step hs] at h
    cases h; exact Or.inl ⟨hs, rfl⟩
  · have hs' : 2 * (m : Int) ≤ step := by omega
    refine Or.inr ⟨hs', ?_⟩
    have hl := searchList_loop m hm xs target step hs'
    rw [h] at hl
    rcases loop_error _ m _ target step e _ target target hl with h1 | ⟨a, b, h1⟩
    · exact h1
    · obtain ⟨l, r, hr, _⟩ := round_list m hm xs (durOf m xs) step a b
      rw [hr] at h1; cases h1

/-- a recording without a zero sample whose samples all have the same sign -/
def Flat (xs : List Int) : Prop := (0 : Int) ∉ xs ∧ ∀ a ∈ xs, ∀ b ∈ xs, sign a = sign b

theorem flat_of_pos (xs : List Int) (h : ∀ x ∈ xs, 0 < x) : Flat xs := by
  refine ⟨fun h0 => by have := h 0 h0; omega, ?_⟩
  intro a ha b hb
  have h1 := h a ha; have h2 := h b hb
  unfold sign; rw [if_pos h1, if_pos h2]

theorem flat_of_neg (xs : List Int) (h : ∀ x ∈ xs, x < 0) : Flat xs := by
  refine ⟨fun h0 => by have := h 0 h0; omega, ?_⟩
  intro a ha b hb
  have h1 := h a ha; have h2 := h b hb
  unfold sign; rw [if_neg (by omega), if_pos h1, if_neg (by omega), if_pos h2]

theorem iter_flat (m : Nat) (xs : List Int) (hf : Flat xs) (dur start : Int) (within : Bool) (step : Int) (rev : Bool) :
    iterZeroCrossings (listReader m xs) m dur start within step rev = .ok none := by
  unfold iterZeroCrossings
  cases within with
  | false => rfl
  | true =>
    simp only [Bool.not_true, Bool.false_eq_true, if_false, listReader]
    unfold findNextZeroCrossing
    rw [nextIdx_none]
    · rfl
    · intro h0; exact hf.1 (mem_of_mem_slice xs _ _ 0 h0)
    · intro a ha b hb; exact hf.2 a (mem_of_mem_slice xs _ _ a ha) b (mem_of_mem_slice xs _ _ b hb)

theorem round_flat (m : Nat) (xs : List Int) (hf : Flat xs) (dur step a b : Int) :
    Zero.round (listReader m xs) m dur step a b = .ok (none, none) := by
  unfold Zero.round
  rw [iter_flat m xs hf]; simp only; rw [iter_flat m xs hf]

/-- **no crossing → the documented error**: on an all-positive (or all-negative) recording every call
with an admissible step raises `FindZeroCrossingError`, never a value -/
theorem no_crossing_error (m : Nat) (hm : 0 < m) (xs : List Int) (hf : Flat xs) (target step : Int)
    (hs : 2 * (m : Int) ≤ step) :
    searchList m xs target step = .error .FindZeroCrossingError := by
  cases h : searchList m xs target step with
  | ok t =>
    exfalso
    obtain ⟨_, a, b, l, r, _, hr, hsome, _⟩ :=
      searchList_ok m hm xs target step t (fun _ _ => True) trivial (fun _ _ _ => trivial) h
    rw [round_flat m xs hf] at hr
    simp only [Except.ok.injEq, Prod.mk.injEq] at hr
    obtain ⟨rfl, rfl⟩ := hr
    simp at hsome
  | error e =>
    rcases errors_documented m hm xs target step e h with ⟨h1, _⟩ | ⟨_, h2⟩
    · omega
    · rw [h2]

theorem all_positive_error (m : Nat) (hm : 0 < m) (xs : List Int) (hpos : ∀ x ∈ xs, 0 < x) (target step : Int)
    (hs : 2 * (m : Int) ≤ step) : searchList m xs target step = .error .FindZeroCrossingError :=
  no_crossing_error m hm xs (flat_of_pos xs hpos) target step hs

/-! ## 11. (b, continued) A16: the number of rounds is not bounded by the recording -/

theorem loop_none_flat (m : Nat) (xs : List Int) (hf : Flat xs) (dur target step : Int) (hs : 0 ≤ step) :
    ∀ (fuel : Nat) (left right : Int), (fuel : Int) * step ≤ left + step →
      loop (listReader m xs) m dur target step fuel left right = none := by
  intro fuel
  induction fuel with
  | zero => intro left right _; rfl
  | succ f ih =>
    intro left right h
    have e : ((f + 1 : Nat) : Int) * step = (f : Int) * step + step := by
      rw [Int.natCast_add, Int.add_mul]; simp
    rw [e] at h
    have hf0 : 0 ≤ (f : Int) * step := Int.mul_nonneg (by omega) hs
    unfold loop
    rw [round_flat m xs hf]
    simp only [Option.isSome_none, Bool.or_self, Bool.false_eq_true, if_false]
    rw [if_neg (by omega)]
    exact ih _ _ (by omega)

/-- **search_rounds_unbounded (A16)**: the number of rounds the loop needs is not bounded in terms of
the recording and the step: for every `N` the target `N·step` on a recording without a crossing keeps
the loop running for more than `N` rounds (it then raises `FindZeroCrossingError`, by
`no_crossing_error`).  The real loop needs the same `|target|/timeStep` rounds, and in binary64 it
never leaves once `target - timeStep == target`. -/
theorem search_rounds_unbounded (m : Nat) (xs : List Int) (hf : Flat xs) (step : Int)
    (hs : 2 * (m : Int) ≤ step) (N : Nat) :
    findFuel (listReader m xs) m (durOf m xs) ((N : Int) * step) step N = none := by
  unfold findFuel
  rw [if_neg (by omega)]
  exact loop_none_flat m xs hf _ _ step (by omega) N _ _ (by omega)

/-- for targets inside the recording the bound depends on duration and step only -/
theorem searchBound_inside (dur target step : Int) (hs : 0 < step) (h0 : 0 ≤ target) (h1 : target ≤ dur) :
    searchBound dur target step ≤ (dur / step).toNat + 2 := by
  unfold searchBound
  have : (max (max target (dur - target)) 0) / step ≤ dur / step :=
    Int.ediv_le_ediv hs (by omega)
  omega

/-! ## 12. (e, continued) an all-zero recording -/

/-- **all_zero**: on an all-zero recording a target on a sample position with room for one step to its
right is returned itself -/
theorem all_zero_target (m : Nat) (hm : 0 < m) (xs : List Int) (hz : ∀ x ∈ xs, x = 0) (k step : Int)
    (hk : 0 ≤ k) (hs : 2 * (m : Int) ≤ step) (hroom : k * (m : Int) + step < durOf m xs) :
    searchList m xs (k * (m : Int)) step = .ok (k * (m : Int)) := by
  have hmpos : (0 : Int) < m := by omega
  have hkm : 0 ≤ k * (m : Int) := Int.mul_nonneg hk (by omega)
  have hkn : k < xs.length := by
    have h1 : k * (m : Int) < (xs.length : Int) * (m : Int) := by
      have : k * (m : Int) + step < (xs.length : Int) * (m : Int) := hroom
      omega
    exact Int.lt_of_mul_lt_mul_right h1 (by omega)
  -- the right window of the first round starts at the target and is not empty
  have hright : iterZeroCrossings (listReader m xs) m (durOf m xs) (k * (m : Int))
      (decide (k * (m : Int) + step < durOf m xs)) (step + m) false = .ok (some (k * (m : Int))) := by
    unfold iterZeroCrossings
    rw [decide_eq_true hroom]
    simp only [Bool.not_true, Bool.false_eq_true, if_false, listReader]
    have hfst : (getInterval (k * (m : Int)) (step + m) (durOf m xs) false).1 = k * (m : Int) := by
      rw [getInterval_fst]; simp only [Bool.false_eq_true, if_false]; rw [if_neg (by omega)]
    have hsnd : k * (m : Int) + (m : Int) ≤ (getInterval (k * (m : Int)) (step + m) (durOf m xs) false).2 := by
      unfold getInterval
      simp only [Bool.false_eq_true, if_false]
      rw [if_neg (by omega)]
      split <;> simp only <;> omega
    rw [hfst]
    generalize (getInterval (k * (m : Int)) (step + m) (durOf m xs) false).2 = e at hsnd
    have hi : roundHalfEven (k * (m : Int)) m = k := C16.roundHalfEven_exact k m hm
    have hj : k + 1 ≤ roundHalfEven e m := by
      have := C16.roundHalfEven_mono _ _ m hm hsnd
      have e1 : k * (m : Int) + (m : Int) = (k + 1) * (m : Int) := by rw [Int.add_mul, Int.one_mul]
      rw [e1, C16.roundHalfEven_exact (k + 1) m hm] at this
      exact this
    rw [hi]
    generalize roundHalfEven e m = j at hj
    -- the window is a non-empty list of zeros
    have hlen : 0 < (slice xs k j).length := by
      unfold slice pyClamp
      simp only [List.length_drop, List.length_take]
      rw [if_neg (by omega), if_neg (by omega)]
      omega
    cases hys : slice xs k j with
    | nil => rw [hys] at hlen; simp at hlen
    | cons y ys =>
      have hy : y = 0 := hz y (mem_of_mem_slice xs k j y (by rw [hys]; simp))
      subst hy
      unfold findNextZeroCrossing nextIdx nearestZero find
      simp only [Bool.false_eq_true, if_false]
      rw [index?_head]
      simp
  obtain ⟨l, hl, _⟩ := iter_cand m hm xs (durOf m xs) (k * (m : Int)) (decide (0 < k * (m : Int))) (step + m) true
  have hround : Zero.round (listReader m xs) m (durOf m xs) step (k * (m : Int)) (k * (m : Int)) =
      .ok (l, some (k * (m : Int))) := by
    unfold Zero.round; rw [hl]; simp only; rw [hright]
  have hloop := searchList_loop m hm xs (k * (m : Int)) step hs
  obtain ⟨f, hf, _, _⟩ := searchBound_spec (durOf m xs) (k * (m : Int)) step (by omega)
  rw [hf] at hloop
  unfold loop at hloop
  rw [hround] at hloop
  simp only [Option.isSome_some, Bool.or_true, if_true, Option.some.injEq] at hloop
  obtain ⟨v, hv⟩ := chooseClosest_ok_of_some (k * (m : Int)) l (some (k * (m : Int))) (by simp)
  have hsp := (chooseClosest_spec _ _ _ v hv).2.2.1 (k * (m : Int)) rfl
  have hveq : v = k * (m : Int) := by omega
  rw [← hloop, hv, hveq]

end C18
