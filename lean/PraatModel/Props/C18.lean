/-! # C18 — property theorems (to be filled) -/
